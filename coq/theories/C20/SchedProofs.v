(* C20, schedule level: the safety invariant holds in every reachable state of
   every schedule; no reachable state with pending data is stuck; the try_send
   variant loses a chunk under a slow consumer. *)
From PV Require Import Lib.Base C20.Model C20.Proofs C20.Sched.
Open Scope Z_scope.

(* ---------------------------------------------------------------- small facts *)
Lemma upd_same {A} (f : Z -> A) k v : upd f k v k = v.
Proof. unfold upd. now rewrite Z.eqb_refl. Qed.
Lemma upd_other {A} (f : Z -> A) k v x : x <> k -> upd f k v x = f x.
Proof. unfold upd. intros H. destruct (x =? k) eqn:E; [lia|reflexivity]. Qed.

Lemma dt_app id a b : delivered_to id (a ++ b) = delivered_to id a ++ delivered_to id b.
Proof. unfold delivered_to. now rewrite filter_app, map_app. Qed.
Lemma dt_cons_same id x w : delivered_to id ((id, x) :: w) = x :: delivered_to id w.
Proof. unfold delivered_to. cbn. now rewrite Z.eqb_refl. Qed.
Lemma dt_cons_other id id' x w : id' <> id -> delivered_to id ((id', x) :: w) = delivered_to id w.
Proof. unfold delivered_to. cbn. intros H. destruct (id' =? id) eqn:E; [lia|reflexivity]. Qed.
Lemma dt_nil id : delivered_to id [] = [].
Proof. reflexivity. Qed.

Lemma mux_bytes_app a b : mux_bytes (a ++ b) = mux_bytes a ++ mux_bytes b.
Proof. unfold mux_bytes. now rewrite map_app, concat_app. Qed.
Lemma mux_bytes_cons s w : mux_bytes (s :: w) = frame s ++ mux_bytes w.
Proof. reflexivity. Qed.

Lemma app_prefix_split {A} (a b c d : list A) :
  a ++ b = c ++ d -> (length c <= length a)%nat -> exists a', a = c ++ a' /\ a' ++ b = d.
Proof.
  revert a. induction c as [|y c IH]; intros a H Hl.
  - exists a. auto.
  - destruct a as [|x a]; [cbn in Hl; lia|]. cbn in H. inversion H; subst.
    destruct (IH a H2) as [a' [E1 E2]]; [cbn in Hl; lia|]. exists a'. subst a. auto.
Qed.

Lemma frame_length s : length (frame s) = (8 + length (seg_payload s))%nat.
Proof. destruct s as [[ts p] x]. unfold frame. rewrite app_length, header_encode_length. reflexivity. Qed.

(* ---------------------------------------------------------------- the invariant *)
(* the bearer (demuxer position + unread bytes) stands for these segments *)
Inductive bearer_rel : dstate -> list Z -> list (Z * list Z) -> Prop :=
| br_idle ws : Forall segment_wf ws -> bearer_rel DIdle (mux_bytes ws) (map untimed ws)
| br_header p x ws : len x <= 65535 -> Forall segment_wf ws ->
    bearer_rel (DHeader p (length x)) (x ++ mux_bytes ws) ((p, x) :: map untimed ws)
| br_holding p x ws : Forall segment_wf ws ->
    bearer_rel (DHolding p x) (mux_bytes ws) ((p, x) :: map untimed ws).

Definition ingress_wf (q : list (Z * list Z)) : Prop :=
  Forall (fun e => u16 (fst e) /\ len (snd e) <= 65535) q.

Definition count_ok (cfg : config) (st : state) (segs : list (Z * list Z)) : Prop :=
  forall id, if subscribed cfg id
             then delivered st id ++ egress st id ++ delivered_to id segs ++ delivered_to id (ingress st) = sent st id
             else delivered st id = [] /\ egress st id = [].

Definition Inv (cfg : config) (st : state) : Prop :=
  exists segs, bearer_rel (dmx st) (arrived st ++ inflight st) segs /\
               ingress_wf (ingress st) /\ count_ok cfg st segs.

Lemma bearer_rel_view d bytes segs :
  bearer_rel d bytes segs ->
  match d with
  | DIdle => fst (parse bytes)
  | DHeader p n => (p, firstn n bytes) :: fst (parse (skipn n bytes))
  | DHolding p x => (p, x) :: fst (parse bytes)
  end = segs.
Proof.
  destruct 1 as [ws Hw|p x ws Hl Hw|p x ws Hw].
  - now rewrite segments_parse_proof.
  - rewrite (firstn_app_exact x) by reflexivity. rewrite (skipn_app_exact x) by reflexivity.
    now rewrite segments_parse_proof.
  - now rewrite segments_parse_proof.
Qed.

Lemma bearer_rel_segments st segs :
  bearer_rel (dmx st) (arrived st ++ inflight st) segs -> bearer_segments st = segs.
Proof. intros H. unfold bearer_segments. exact (bearer_rel_view _ _ _ H). Qed.

Lemma Inv_safe cfg st : Inv cfg st -> safe cfg st.
Proof.
  intros [segs [Hb [_ Hc]]] id. specialize (Hc id). unfold in_flight.
  rewrite (bearer_rel_segments st segs Hb). exact Hc.
Qed.

Lemma Inv_init cfg : Inv cfg init.
Proof.
  exists []. split; [exact (br_idle [] (Forall_nil _))|]. split; [constructor|].
  intros id. cbn. destruct (subscribed cfg id); auto.
Qed.

Lemma bearer_rel_snoc d bytes segs s :
  bearer_rel d bytes segs -> segment_wf s -> bearer_rel d (bytes ++ frame s) (segs ++ [untimed s]).
Proof.
  intros H Hs.
  assert (Hm : forall ws, mux_bytes ws ++ frame s = mux_bytes (ws ++ [s])).
  { intros ws. rewrite mux_bytes_app. unfold mux_bytes at 3. cbn. now rewrite app_nil_r. }
  assert (Hu : forall ws, map untimed ws ++ [untimed s] = map untimed (ws ++ [s])).
  { intros ws. now rewrite map_app. }
  inversion H as [ws Hw|p x ws Hl Hw|p x ws Hw]; subst.
  - rewrite Hm, Hu. apply br_idle. apply Forall_app. auto.
  - rewrite <- app_assoc, Hm. cbn [app]. rewrite Hu. apply br_header; auto. apply Forall_app. auto.
  - rewrite Hm. cbn [app]. rewrite Hu. apply br_holding. apply Forall_app. auto.
Qed.

(* ---------------------------------------------------------------- preservation *)
Ltac simpl_st := cbn [sent delivered ingress egress inflight arrived dmx].
Ltac simpl_st_all := cbn [sent delivered ingress egress inflight arrived dmx] in *.

Lemma Inv_step cfg st c st' :
  lossy cfg = false -> choice_wf c -> Inv cfg st -> exec_step cfg st c = Some st' -> Inv cfg st'.
Proof.
  intros Hlossy Hwf [segs [Hb [Hi Hc]]] Hstep.
  destruct c as [id x|ts|n| |id]; cbn [exec_step] in Hstep.
  - (* enqueue *)
    destruct (length (ingress st) <? cap_in cfg)%nat; [|discriminate]. inversion Hstep; subst; clear Hstep.
    exists segs. simpl_st. split; [exact Hb|]. split.
    + apply Forall_app. split; [exact Hi|]. constructor; [exact Hwf|constructor].
    + intros i. specialize (Hc i). simpl_st. destruct (subscribed cfg i); [|exact Hc].
      destruct (Z.eq_dec i id) as [->|Hne].
      * rewrite upd_same, dt_app, dt_cons_same, dt_nil, <- Hc. now rewrite !app_assoc.
      * rewrite upd_other by exact Hne. rewrite dt_app, dt_cons_other by congruence.
        rewrite dt_nil, app_nil_r. exact Hc.
  - (* mux *)
    destruct (ingress st) as [|[id x] r] eqn:Ei; [discriminate|]. inversion Hstep; subst; clear Hstep.
    inversion Hi as [|? ? [Hid Hx] Hr]; subst. cbn in Hid, Hx.
    assert (Hs : segment_wf (ts, id, x)) by (unfold segment_wf; cbn; auto).
    exists (segs ++ [(id, x)]). simpl_st. split.
    + rewrite app_assoc. exact (bearer_rel_snoc _ _ _ (ts, id, x) Hb Hs).
    + split; [exact Hr|]. intros i. specialize (Hc i). rewrite Ei in Hc. simpl_st. destruct (subscribed cfg i); [|exact Hc].
      rewrite <- Hc, dt_app. destruct (Z.eq_dec i id) as [->|Hne].
      * rewrite !dt_cons_same, dt_nil. rewrite <- !app_assoc. reflexivity.
      * rewrite !dt_cons_other by congruence. now rewrite dt_nil, app_nil_r.
  - (* arrive *)
    destruct ((1 <=? n)%nat && (n <=? length (inflight st))%nat); [|discriminate].
    inversion Hstep; subst; clear Hstep.
    exists segs. simpl_st. rewrite <- app_assoc, firstn_skipn. auto.
  - (* demux *)
    destruct (dmx st) as [|p n|p x] eqn:Ed.
    + (* header *)
      destruct (length (arrived st) <? 8)%nat eqn:El; [discriminate|]. apply Nat.ltb_ge in El.
      inversion Hb as [ws Hw E1 E2 E3| |]; subst.
      destruct ws as [|s ws].
      { unfold mux_bytes in E2. cbn in E2. symmetry in E2. apply app_eq_nil in E2 as [E2 _].
        rewrite E2 in El. cbn in El. lia. }
      rewrite mux_bytes_cons in E2. destruct s as [[ts p] x]. unfold frame in E2. cbn [seg_ts seg_proto seg_payload fst snd] in E2.
      set (h := {| h_timestamp := ts; h_protocol := p; h_len := len x mod 65536 |}) in *.
      inversion Hw as [|? ? Hs Hws]; subst. destruct Hs as [Hts [Hp Hx]]. cbn [seg_ts seg_proto seg_payload fst snd] in Hts, Hp, Hx.
      symmetry in E2. rewrite <- !app_assoc in E2.
      destruct (app_prefix_split _ _ _ _ E2) as [a' [Ea Eb]]; [rewrite header_encode_length; exact El|].
      rewrite Ea in Hstep. rewrite (firstn_app_exact (header_encode h)) in Hstep by reflexivity.
      rewrite (skipn_app_exact (header_encode h)) in Hstep by reflexivity.
      assert (Hh : header_wf h).
      { unfold header_wf, h. cbn [h_timestamp h_protocol h_len]. unfold u16, u32, len in *. lia. }
      rewrite (header_roundtrip_proof h Hh) in Hstep. inversion Hstep; subst; clear Hstep.
      assert (Hn : Z.to_nat (len x mod 65536) = length x).
      { unfold len in *. rewrite Z.mod_small by lia. apply Nat2Z.id. }
      exists ((p, x) :: map untimed ws). simpl_st. rewrite Hn, Eb. split; [apply br_header; auto|]. split; [exact Hi|].
      intros i. specialize (Hc i). simpl_st_all. exact Hc.
    + (* payload *)
      destruct (length (arrived st) <? n)%nat eqn:El; [discriminate|]. apply Nat.ltb_ge in El.
      inversion Hstep; subst; clear Hstep.
      inversion Hb as [|p' x ws Hl Hw E1 E2 E3|]; subst.
      symmetry in E2. destruct (app_prefix_split _ _ _ _ E2 El) as [a' [Ea Eb]].
      exists ((p, x) :: map untimed ws). simpl_st. rewrite Ea.
      rewrite (firstn_app_exact x) by reflexivity. rewrite (skipn_app_exact x) by reflexivity.
      rewrite Eb. split; [now apply br_holding|]. split; [exact Hi|].
      intros i. specialize (Hc i). simpl_st_all. exact Hc.
    + (* route *)
      inversion Hb as [| |p' x' ws Hw E1 E2 E3]; subst.
      destruct (subscribed cfg p) eqn:Es.
      * destruct (length (egress st p) <? cap_out cfg)%nat.
        -- inversion Hstep; subst; clear Hstep.
           exists (map untimed ws). simpl_st. rewrite <- E2. split; [now apply br_idle|]. split; [exact Hi|].
           intros i. specialize (Hc i). simpl_st_all. destruct (subscribed cfg i) eqn:Esi.
           ++ destruct (Z.eq_dec i p) as [->|Hne].
              ** rewrite upd_same. rewrite dt_cons_same in Hc. rewrite <- Hc. now rewrite <- !app_assoc.
              ** rewrite upd_other by exact Hne. rewrite dt_cons_other in Hc by congruence. exact Hc.
           ++ destruct (Z.eq_dec i p) as [->|Hne]; [congruence|]. now rewrite upd_other.
        -- rewrite Hlossy in Hstep. discriminate.
      * inversion Hstep; subst; clear Hstep.
        exists (map untimed ws). simpl_st. rewrite <- E2. split; [now apply br_idle|]. split; [exact Hi|].
        intros i. specialize (Hc i). simpl_st_all. destruct (subscribed cfg i) eqn:Esi; [|exact Hc].
        rewrite dt_cons_other in Hc; [exact Hc|]. intros ->. congruence.
  - (* dequeue *)
    destruct (egress st id) as [|x r] eqn:Ee; [discriminate|]. inversion Hstep; subst; clear Hstep.
    exists segs. simpl_st. split; [exact Hb|]. split; [exact Hi|].
    intros i. specialize (Hc i). simpl_st. destruct (subscribed cfg i) eqn:Esi.
    + destruct (Z.eq_dec i id) as [->|Hne].
      * rewrite !upd_same. rewrite Ee in Hc. rewrite <- Hc. now rewrite <- !app_assoc.
      * rewrite !upd_other by exact Hne. exact Hc.
    + destruct (Z.eq_dec i id) as [->|Hne].
      * destruct Hc as [_ Hc]. congruence.
      * rewrite !upd_other by exact Hne. exact Hc.
Qed.

Lemma Inv_exec cfg : lossy cfg = false -> forall sched st st',
  Forall choice_wf sched -> Inv cfg st -> exec cfg st sched = Some st' -> Inv cfg st'.
Proof.
  intros Hl. induction sched as [|c r IH]; intros st st' Hwf Hinv Hex.
  - cbn in Hex. now inversion Hex; subst.
  - cbn in Hex. destruct (exec_step cfg st c) as [st1|] eqn:E; [|discriminate].
    inversion Hwf; subst. apply (IH st1 st'); auto. eapply Inv_step; eauto.
Qed.

Lemma safety_all_schedules cfg sched st :
  lossy cfg = false -> Forall choice_wf sched -> exec cfg init sched = Some st -> safe cfg st.
Proof. intros Hl Hwf Hex. apply Inv_safe. eapply Inv_exec; eauto. apply Inv_init. Qed.

(* ---------------------------------------------------------------- no stuck state *)
Lemma header_decode_ok8 v : length v = 8%nat -> exists h, header_decode v = Ok h.
Proof. intros H. unfold header_decode. rewrite H. cbn. eauto. Qed.

Lemma no_stuck cfg st :
  (1 <= cap_out cfg)%nat -> Inv cfg st -> pending st ->
  exists c, is_enqueue c = false /\ exec_step cfg st c <> None.
Proof.
  intros Hcap [segs [Hb [Hi Hc]]] Hp.
  destruct (dmx st) as [|p n|p x] eqn:Ed.
  - (* idle *)
    inversion Hb as [ws Hw E1 E2 E3| |]; subst.
    destruct ws as [|s ws].
    + (* nothing on the bearer *)
      unfold mux_bytes in E2. cbn in E2. symmetry in E2. apply app_eq_nil in E2 as [Ea Ef].
      destruct (ingress st) as [|[id x] r] eqn:Ei.
      * destruct Hp as [H|[H|[H|[H|[id H]]]]]; try congruence.
        exists (CDequeue id). split; [reflexivity|]. cbn [exec_step]. destruct (egress st id); [congruence|discriminate].
      * exists (CMux 0). split; [reflexivity|]. cbn [exec_step]. rewrite Ei. discriminate.
    + (* at least one whole frame is on the bearer *)
      assert (Hlen : (8 <= length (arrived st ++ inflight st))%nat).
      { rewrite <- E2, mux_bytes_cons, app_length, frame_length. lia. }
      destruct (le_lt_dec 8 (length (arrived st))) as [Hge|Hlt].
      * exists CDemux. split; [reflexivity|]. cbn [exec_step]. rewrite Ed.
        replace (length (arrived st) <? 8)%nat with false by (symmetry; apply Nat.ltb_ge; lia).
        destruct (header_decode_ok8 (firstn 8 (arrived st))) as [h Hh]; [rewrite firstn_length; lia|].
        rewrite Hh. discriminate.
      * exists (CArrive 1). split; [reflexivity|]. cbn [exec_step].
        rewrite app_length in Hlen. destruct (inflight st); [cbn in Hlen; lia|]. cbn. discriminate.
  - (* payload awaited *)
    inversion Hb as [|p' x ws Hl Hw E1 E2 E3|]; subst.
    destruct (le_lt_dec (length x) (length (arrived st))) as [Hge|Hlt].
    + exists CDemux. split; [reflexivity|]. cbn [exec_step]. rewrite Ed.
      replace (length (arrived st) <? length x)%nat with false by (symmetry; apply Nat.ltb_ge; lia). discriminate.
    + exists (CArrive 1). split; [reflexivity|]. cbn [exec_step].
      assert (Hlen : (length x <= length (arrived st ++ inflight st))%nat) by (rewrite <- E2, app_length; lia).
      rewrite app_length in Hlen. destruct (inflight st); [cbn in Hlen; lia|]. cbn. discriminate.
  - (* a segment in hand *)
    destruct (subscribed cfg p) eqn:Es.
    + destruct (length (egress st p) <? cap_out cfg)%nat eqn:El.
      * exists CDemux. split; [reflexivity|]. cbn [exec_step]. rewrite Ed, Es, El. discriminate.
      * (* blocked: the queue is full, hence non-empty, and its consumer can dequeue *)
        apply Nat.ltb_ge in El. exists (CDequeue p). split; [reflexivity|]. cbn [exec_step].
        destruct (egress st p); [cbn in El; lia|discriminate].
    + exists CDemux. split; [reflexivity|]. cbn [exec_step]. rewrite Ed, Es. discriminate.
Qed.

Lemma no_stuck_reachable cfg sched st :
  lossy cfg = false -> (1 <= cap_out cfg)%nat -> Forall choice_wf sched ->
  exec cfg init sched = Some st -> pending st ->
  exists c, is_enqueue c = false /\ exec_step cfg st c <> None.
Proof. intros Hl Hcap Hwf Hex. apply no_stuck; auto. eapply Inv_exec; eauto. apply Inv_init. Qed.

(* queues never exceed their capacity *)
Definition within_cap (cfg : config) (st : state) : Prop :=
  forall id, (length (egress st id) <= cap_out cfg)%nat.

Lemma within_cap_step cfg st c st' :
  within_cap cfg st -> exec_step cfg st c = Some st' -> within_cap cfg st'.
Proof.
  intros Hc Hstep id.
  destruct c as [i x|ts|n| |i]; cbn [exec_step] in Hstep.
  - destruct (length (ingress st) <? cap_in cfg)%nat; [|discriminate]. inversion Hstep; subst. apply Hc.
  - destruct (ingress st) as [|[i x] r]; [discriminate|]. inversion Hstep; subst. apply Hc.
  - destruct ((1 <=? n)%nat && (n <=? length (inflight st))%nat); [|discriminate]. inversion Hstep; subst. apply Hc.
  - destruct (dmx st) as [|p n|p x].
    + destruct (length (arrived st) <? 8)%nat; [discriminate|].
      destruct (header_decode (firstn 8 (arrived st))); try discriminate. inversion Hstep; subst. apply Hc.
    + destruct (length (arrived st) <? n)%nat; [discriminate|]. inversion Hstep; subst. apply Hc.
    + destruct (subscribed cfg p).
      * destruct (length (egress st p) <? cap_out cfg)%nat eqn:El.
        -- inversion Hstep; subst. cbn [egress]. apply Nat.ltb_lt in El.
           destruct (Z.eq_dec id p) as [->|Hne].
           ++ rewrite upd_same, app_length. cbn. lia.
           ++ rewrite upd_other by exact Hne. apply Hc.
        -- destruct (lossy cfg); [|discriminate]. inversion Hstep; subst. apply Hc.
      * inversion Hstep; subst. apply Hc.
  - destruct (egress st i) as [|x r] eqn:Ee; [discriminate|]. inversion Hstep; subst. cbn [egress].
    destruct (Z.eq_dec id i) as [->|Hne].
    + rewrite upd_same. specialize (Hc i). rewrite Ee in Hc. cbn in Hc. lia.
    + rewrite upd_other by exact Hne. apply Hc.
Qed.

Lemma within_cap_exec cfg : forall sched st st',
  within_cap cfg st -> exec cfg st sched = Some st' -> within_cap cfg st'.
Proof.
  induction sched as [|c r IH]; intros st st' Hc Hex; cbn in Hex.
  - now inversion Hex; subst.
  - destruct (exec_step cfg st c) as [st1|] eqn:E; [|discriminate].
    eapply IH; [|exact Hex]. eapply within_cap_step; eauto.
Qed.

(* a demuxer blocked on a full queue is released by one dequeue of that queue *)
Lemma blocked_released_by_dequeue cfg st p x :
  within_cap cfg st -> (1 <= cap_out cfg)%nat ->
  dmx st = DHolding p x -> exec_step cfg st CDemux = None ->
  exists st1 st2, exec_step cfg st (CDequeue p) = Some st1 /\ exec_step cfg st1 CDemux = Some st2 /\ dmx st2 = DIdle.
Proof.
  intros Hwc Hcap Hd Hblocked. cbn [exec_step] in Hblocked. rewrite Hd in Hblocked.
  destruct (subscribed cfg p) eqn:Es; [|discriminate].
  destruct (length (egress st p) <? cap_out cfg)%nat eqn:El; [discriminate|].
  apply Nat.ltb_ge in El. specialize (Hwc p).
  destruct (egress st p) as [|y r] eqn:Ee; [cbn in El; lia|].
  cbn [exec_step]. rewrite Ee. eexists. eexists. split; [reflexivity|].
  cbn [exec_step egress dmx]. rewrite Hd, Es, upd_same.
  replace (length r <? cap_out cfg)%nat with true by (symmetry; apply Nat.ltb_lt; cbn in Hwc; lia).
  split; reflexivity.
Qed.

(* quiescent and nothing pending: everything sent has been delivered *)
Lemma all_delivered_when_idle cfg st :
  safe cfg st -> ~ pending st -> forall id, subscribed cfg id = true -> delivered st id = sent st id.
Proof.
  intros Hs Hnp id Hsub. specialize (Hs id). rewrite Hsub in Hs. unfold in_flight, bearer_segments in Hs.
  assert (Hi : ingress st = []) by (destruct (ingress st) eqn:E; [reflexivity|exfalso; apply Hnp; left; rewrite E; discriminate]).
  assert (Hf : inflight st = []) by (destruct (inflight st) eqn:E; [reflexivity|exfalso; apply Hnp; right; left; rewrite E; discriminate]).
  assert (Ha : arrived st = []) by (destruct (arrived st) eqn:E; [reflexivity|exfalso; apply Hnp; right; right; left; rewrite E; discriminate]).
  assert (Hd : dmx st = DIdle) by (destruct (dmx st) eqn:E; [reflexivity| |]; exfalso; apply Hnp; right; right; right; left; rewrite E; discriminate).
  assert (He : egress st id = []).
  { destruct (egress st id) eqn:E; [reflexivity|]. exfalso. apply Hnp. right. right. right. right. exists id. congruence. }
  rewrite Hi, Hf, Ha, Hd, He in Hs. cbn in Hs. now rewrite app_nil_r in Hs.
Qed.

(* ---------------------------------------------------------------- the try_send variant *)
(* 101 chunks reach the demuxer before the consumer's first dequeue: the code
   (send().await) blocks on the 101st, the try_send variant drops it *)
Lemma slow_consumer_blocks_the_code : exec (plexer_cfg [2]) init slow_consumer_schedule = None.
Proof. vm_compute. reflexivity. Qed.

Lemma slow_consumer_try_send_counts :
  match exec (plexer_cfg_try_send [2]) init slow_consumer_schedule with
  | Some st => length (delivered st 2 ++ in_flight 2 st) = 100%nat /\ length (sent st 2) = 101%nat
  | None => False
  end.
Proof. vm_compute. split; reflexivity. Qed.

Lemma try_send_unsafe :
  Forall choice_wf slow_consumer_schedule /\
  exists st, exec (plexer_cfg_try_send [2]) init slow_consumer_schedule = Some st /\
             ~ safe (plexer_cfg_try_send [2]) st.
Proof.
  split.
  - unfold slow_consumer_schedule. apply Forall_app. split.
    + apply Forall_concat. apply Forall_forall. intros l Hl. apply repeat_spec in Hl. subst l.
      repeat constructor; unfold u16, u32, len; cbn; lia.
    + apply Forall_forall. intros c Hc. apply repeat_spec in Hc. subst c. exact I.
  - pose proof slow_consumer_try_send_counts as H.
    destruct (exec (plexer_cfg_try_send [2]) init slow_consumer_schedule) as [st|]; [|contradiction].
    exists st. split; [reflexivity|]. intros Hs. specialize (Hs 2). cbn in Hs.
    destruct H as [H1 H2]. rewrite Hs in H1. lia.
Qed.

Lemma within_cap_init cfg : within_cap cfg init.
Proof. intros id. cbn. lia. Qed.

Lemma blocked_released_reachable cfg sched st p x :
  (1 <= cap_out cfg)%nat -> exec cfg init sched = Some st ->
  dmx st = DHolding p x -> exec_step cfg st CDemux = None ->
  exists st1 st2, exec_step cfg st (CDequeue p) = Some st1 /\ exec_step cfg st1 CDemux = Some st2 /\ dmx st2 = DIdle.
Proof.
  intros Hcap Hex. apply blocked_released_by_dequeue; auto.
  eapply within_cap_exec; [apply within_cap_init|exact Hex].
Qed.

Lemma all_delivered_reachable cfg sched st :
  lossy cfg = false -> Forall choice_wf sched -> exec cfg init sched = Some st -> ~ pending st ->
  forall id, subscribed cfg id = true -> delivered st id = sent st id.
Proof. intros Hl Hwf Hex. apply all_delivered_when_idle. eapply safety_all_schedules; eauto. Qed.

Lemma safety_roles cfg sched st r p :
  lossy cfg = false -> Forall choice_wf sched -> exec cfg init sched = Some st ->
  subscribed cfg (recv_id r p) = true ->
  delivered st (recv_id r p) ++ in_flight (recv_id r p) st = sent st (send_id (peer r) p).
Proof.
  intros Hl Hwf Hex Hs. pose proof (safety_all_schedules cfg sched st Hl Hwf Hex (recv_id r p)) as H.
  rewrite Hs in H. now rewrite <- recv_id_peer.
Qed.

(* ---------------------------------------------------------------- bounded progress *)
(* every step other than a new enqueue strictly decreases this measure, so from any
   reachable state at most [mu] such steps can be taken before the state is quiescent *)
Fixpoint esum (ids : list Z) (f : Z -> list (list Z)) : nat :=
  match ids with [] => O | id :: r => (length (f id) + esum r f)%nat end.
Definition dweight (d : dstate) : nat := match d with DIdle => 0 | DHeader _ _ => 3 | DHolding _ _ => 2 end%nat.
Definition MUXW : nat := Z.to_nat 131090.   (* > 2 * (8 + 65535) *)
Definition mu (ids : list Z) (st : state) : nat :=
  (MUXW * length (ingress st) + 2 * length (inflight st) + length (arrived st) + dweight (dmx st)
   + esum ids (egress st))%nat.

Lemma esum_upd_notin ids f k v : ~ In k ids -> esum ids (upd f k v) = esum ids f.
Proof.
  induction ids as [|i r IH]; intros H; [reflexivity|]. cbn [esum].
  rewrite upd_other by (intros ->; apply H; now left). rewrite IH; [reflexivity|]. intros Hin. apply H. now right.
Qed.

Lemma esum_upd_in ids f k v :
  NoDup ids -> In k ids -> (esum ids (upd f k v) + length (f k) = esum ids f + length v)%nat.
Proof.
  induction ids as [|i r IH]; intros Hnd Hin; [contradiction|].
  inversion Hnd as [|? ? Hni Hnd']; subst. cbn [esum]. destruct Hin as [->|Hin].
  - rewrite upd_same, esum_upd_notin by exact Hni. lia.
  - rewrite upd_other by (intros ->; contradiction). specialize (IH Hnd' Hin). lia.
Qed.

Lemma mu_step cfg ids st c st' :
  NoDup ids -> (forall id, subscribed cfg id = true -> In id ids) ->
  Inv cfg st -> is_enqueue c = false -> exec_step cfg st c = Some st' -> (mu ids st' < mu ids st)%nat.
Proof.
  intros Hnd Hids [segs [Hb [Hi Hc]]] Hne Hstep.
  destruct c as [id x|ts|n| |id]; cbn [exec_step] in Hstep; [discriminate| | | |].
  - destruct (ingress st) as [|[id x] r] eqn:Ei; [discriminate|]. injection Hstep as <-.
    inversion Hi as [|? ? [_ Hx] _]; subst. cbn in Hx. unfold len in Hx.
    unfold mu, MUXW. cbn [ingress inflight arrived dmx egress]. rewrite Ei, app_length, frame_length. cbn [seg_payload snd length]. lia.
  - destruct ((1 <=? n)%nat && (n <=? length (inflight st))%nat) eqn:E; [|discriminate].
    apply andb_true_iff in E as [E1 E2]. apply Nat.leb_le in E1. apply Nat.leb_le in E2.
    injection Hstep as <-.
    unfold mu, MUXW. cbn [ingress inflight arrived dmx egress]. rewrite app_length, firstn_length, skipn_length. lia.
  - destruct (dmx st) as [|p n|p x] eqn:Ed.
    + destruct (length (arrived st) <? 8)%nat eqn:El; [discriminate|]. apply Nat.ltb_ge in El.
      destruct (header_decode (firstn 8 (arrived st))); try discriminate.
      set (a8 := skipn 8 (arrived st)) in Hstep.
      assert (Ha8 : length a8 = (length (arrived st) - 8)%nat) by (subst a8; apply skipn_length).
      clearbody a8. injection Hstep as <-.
      unfold mu, MUXW. cbn [ingress inflight arrived dmx egress]. rewrite ?Ed. cbn [dweight]. lia.
    + destruct (length (arrived st) <? n)%nat eqn:El; [discriminate|]. apply Nat.ltb_ge in El.
      injection Hstep as <-.
      unfold mu, MUXW. cbn [ingress inflight arrived dmx egress]. rewrite ?Ed. cbn [dweight]. rewrite skipn_length. lia.
    + destruct (subscribed cfg p) eqn:Es.
      * destruct (length (egress st p) <? cap_out cfg)%nat.
        -- injection Hstep as <-.
           unfold mu, MUXW. cbn [ingress inflight arrived dmx egress]. rewrite ?Ed. cbn [dweight].
           pose proof (esum_upd_in ids (egress st) p (egress st p ++ [x]) Hnd (Hids p Es)) as He.
           rewrite app_length in He. cbn in He. lia.
        -- destruct (lossy cfg); [|discriminate]. injection Hstep as <-.
           unfold mu, MUXW. cbn [ingress inflight arrived dmx egress]. rewrite ?Ed. cbn [dweight]. lia.
      * injection Hstep as <-.
        unfold mu, MUXW. cbn [ingress inflight arrived dmx egress]. rewrite ?Ed. cbn [dweight]. lia.
  - destruct (egress st id) as [|x r] eqn:Ee; [discriminate|]. injection Hstep as <-.
    assert (Hin : In id ids).
    { apply Hids. specialize (Hc id). destruct (subscribed cfg id); [reflexivity|]. destruct Hc as [_ Hc]. congruence. }
    unfold mu, MUXW. cbn [ingress inflight arrived dmx egress]. rewrite ?Ed. cbn [dweight].
    pose proof (esum_upd_in ids (egress st) id r Hnd Hin) as He. rewrite Ee in He. cbn in He. lia.
Qed.

Lemma bounded_progress cfg ids : lossy cfg = false -> NoDup ids ->
  (forall id, subscribed cfg id = true -> In id ids) ->
  forall sched st st', Inv cfg st -> Forall choice_wf sched -> Forall (fun c => is_enqueue c = false) sched ->
  exec cfg st sched = Some st' -> (length sched + mu ids st' <= mu ids st)%nat.
Proof.
  intros Hl Hnd Hids. induction sched as [|c r IH]; intros st st' Hinv Hwf Hne Hex; cbn in Hex.
  - inversion Hex; subst. cbn. lia.
  - destruct (exec_step cfg st c) as [st1|] eqn:E; [|discriminate].
    inversion Hwf; subst. inversion Hne; subst.
    pose proof (mu_step cfg ids st c st1 Hnd Hids Hinv H3 E) as Hm.
    assert (Hinv1 : Inv cfg st1) by (eapply Inv_step; eauto).
    specialize (IH st1 st' Hinv1 H2 H4 Hex). cbn [length]. lia.
Qed.

Lemma bounded_progress_reachable cfg ids pre sched st st' :
  lossy cfg = false -> NoDup ids -> (forall id, subscribed cfg id = true -> In id ids) ->
  Forall choice_wf pre -> exec cfg init pre = Some st ->
  Forall choice_wf sched -> Forall (fun c => is_enqueue c = false) sched ->
  exec cfg st sched = Some st' -> (length sched <= mu ids st)%nat.
Proof.
  intros Hl Hnd Hids Hwp Hpre Hwf Hne Hex.
  assert (Hinv : Inv cfg st) by (apply (Inv_exec cfg Hl pre init st Hwp (Inv_init cfg) Hpre)).
  pose proof (bounded_progress cfg ids Hl Hnd Hids sched st st' Hinv Hwf Hne Hex). lia.
Qed.
