(* C01, encoder side: every Encoder method refines "append these bits" on the
   bit-list abstraction [ebits] and preserves the invariant [einv]. *)
From PV Require Import Lib.Base Flat.Model Flat.Encoder Flat.Bits.
Open Scope Z_scope.

Definition estep (f : enc -> outcome enc) (bits : list bool) (s : enc) : Prop :=
  exists s', f s = Ok s' /\ ebits s' = ebits s ++ bits /\ einv s'.

(* ---- the bit-level methods only append to the buffer ---- *)
Ltac prefix_tac :=
  intros p s; unfold pre; cbn [e_buf e_used e_cur];
  repeat (match goal with
          | |- context [if ?c then _ else _] => destruct c eqn:?
          | |- context [shr8 ?a ?b] => destruct (shr8 a b) eqn:?
          | |- context [shl8 ?a ?b] => destruct (shl8 a b) eqn:?
          end; cbn [obind omap next_word e_buf e_used e_cur]);
  rewrite <- ?app_assoc; try reflexivity.

Lemma prefix_zero : prefix_ok enc_zero.
Proof. unfold prefix_ok, enc_zero, next_word. prefix_tac. Qed.
Lemma prefix_one : prefix_ok enc_one.
Proof. unfold prefix_ok, enc_one, next_word. prefix_tac. Qed.
Lemma prefix_bool b : prefix_ok (enc_bool b).
Proof. destruct b; [apply prefix_one | apply prefix_zero]. Qed.
Lemma prefix_u8 x : prefix_ok (enc_u8 x).
Proof. unfold prefix_ok, enc_u8, byte_unaligned, next_word. prefix_tac. Qed.
Lemma prefix_filler : prefix_ok enc_filler.
Proof. unfold prefix_ok, enc_filler, next_word. prefix_tac. Qed.
Lemma prefix_bind f g : prefix_ok f -> prefix_ok g -> prefix_ok (fun s => s1 <-- f s ;; g s1).
Proof.
  intros Hf Hg p s. rewrite Hf. destruct (f s) as [s1|e|q]; cbn [omap obind]; auto.
Qed.
Lemma prefix_bits n v : prefix_ok (enc_bits n v).
Proof.
  unfold enc_bits.
  destruct ((n =? 1) && (v =? 0)); [apply prefix_zero|].
  destruct ((n =? 1) && (v =? 1)); [apply prefix_one|].
  destruct ((n =? 2) && (v =? 0)); [apply (prefix_bind _ _ prefix_zero prefix_zero)|].
  destruct ((n =? 2) && (v =? 1)); [apply (prefix_bind _ _ prefix_zero prefix_one)|].
  destruct ((n =? 2) && (v =? 2)); [apply (prefix_bind _ _ prefix_one prefix_zero)|].
  destruct ((n =? 2) && (v =? 3)); [apply (prefix_bind _ _ prefix_one prefix_one)|].
  unfold prefix_ok, next_word. prefix_tac.
Qed.

(* ---- one lemma per method ---- *)
Lemma einv_uc s : einv s -> einvb (e_used s) (e_cur s) = true.
Proof. intros H. apply einvb_spec in H. tauto. Qed.

(* pub fn bool *)
Lemma enc_bool_ok b s : einv s -> estep (enc_bool b) [b] s.
Proof.
  intros Hs. apply step_lift; [apply prefix_bool | | exact Hs].
  assert (H : sweep_uc (step_chk (enc_bool b) [b]) = true).
  { pose proof e_bool_sweep as H. cbn [forallb] in H. apply andb_true_iff in H as [H1 H2].
    apply andb_true_iff in H2 as [H2 _]. destruct b; assumption. }
  apply (sweep_uc_spec _ H), einv_uc, Hs.
Qed.

(* pub fn u8 *)
Lemma enc_u8_ok x s : 0 <= x < 256 -> einv s -> estep (enc_u8 x) (byte_bits x) s.
Proof.
  intros Hx Hs. apply step_lift; [apply prefix_u8 | | exact Hs].
  pose proof (sweep 0 256 _ e_u8_sweep x ltac:(lia)) as H. cbn beta in H.
  apply (sweep_uc_spec _ H), einv_uc, Hs.
Qed.

(* pub fn bits *)
Lemma enc_bits_ok n v s : 1 <= n <= 8 -> 0 <= v < 2 ^ n -> einv s -> estep (enc_bits n v) (low_bits n v) s.
Proof.
  intros Hn Hv Hs. apply step_lift; [apply prefix_bits | | exact Hs].
  pose proof (sweep 1 8 _ e_bits_sweep n ltac:(lia)) as H. cbn beta in H.
  pose proof (sweep 0 (2 ^ n) _ H v ltac:(lia)) as H1. cbn beta in H1.
  apply (sweep_uc_spec _ H1), einv_uc, Hs.
Qed.

(* pub(crate) fn filler: pads with 0…01 to the byte boundary *)
Lemma enc_filler_ok s : einv s ->
  exists s', enc_filler s = Ok s' /\ ebits s' = ebits s ++ filler_bits (e_used s) /\ einv s' /\
             e_used s' = 0 /\ e_cur s' = 0.
Proof.
  intros Hs.
  destruct (step_lift enc_filler (filler_bits (e_used s)) s prefix_filler) as (s' & E & Hb & Hi); [|exact Hs|].
  - apply (sweep_uc_spec _ e_filler_sweep), einv_uc, Hs.
  - exists s'. split; [exact E|]. split; [exact Hb|]. split; [exact Hi|].
    unfold enc_filler, next_word in E. inversion E. split; reflexivity.
Qed.

(* ---- word: 7-bit groups, least significant first, bit 7 = "more follows" ---- *)
Fixpoint word_bytes_go (fuel : nat) (d : Z) : list Z :=
  match fuel with
  | O => []
  | S f => let w := d mod 128 in let d' := d / 128 in
           if d' =? 0 then [w] else (w + 128) :: word_bytes_go f d'
  end.
Definition word_bytes (c : Z) : list Z := word_bytes_go 10 c.

Lemma lor_128_sweep : forallb (fun w => Z.lor w 128 =? w + 128) (zrangeZ 0 128) = true.
Proof. vm_cast_no_check (eq_refl true). Qed.

Lemma low_bits_8 w : low_bits 8 w = byte_bits w.
Proof. reflexivity. Qed.

Lemma enc_word_go_ok fuel : forall d s, 0 <= d < 2 ^ (7 * Z.of_nat fuel) -> (fuel <> 0)%nat -> einv s ->
  estep (enc_word_go fuel d) (bytes_bits (word_bytes_go fuel d)) s.
Proof.
  induction fuel as [|f IH]; intros d s Hd Hf Hs; [congruence|].
  cbn [enc_word_go word_bytes_go].
  assert (Hw : Z.land d 127 = d mod 128).
  { change 127 with (Z.ones 7). rewrite Z.land_ones by lia. reflexivity. }
  assert (Hd' : Z.shiftr d 7 = d / 128).
  { rewrite Z.shiftr_div_pow2 by lia. reflexivity. }
  rewrite Hw, Hd'. cbn zeta.
  assert (Hm : 0 <= d mod 128 < 128) by (apply Z.mod_pos_bound; lia).
  assert (Hq : 0 <= d / 128) by (apply Z.div_pos; lia).
  destruct (d / 128 =? 0) eqn:E0; cbn [negb].
  - destruct (enc_bits_ok 8 (d mod 128) s) as (s1 & E1 & B1 & I1); [lia | change (2 ^ 8) with 256; lia | exact Hs |].
    exists s1. unfold obind. rewrite E1. split; [reflexivity|]. split; [|exact I1].
    rewrite B1, low_bits_8. cbn [bytes_bits flat_map]. rewrite app_nil_r. reflexivity.
  - assert (Hl : Z.lor (d mod 128) 128 = d mod 128 + 128).
    { apply Z.eqb_eq. apply (sweep 0 128 _ lor_128_sweep). lia. }
    rewrite Hl.
    destruct (enc_bits_ok 8 (d mod 128 + 128) s) as (s1 & E1 & B1 & I1); [lia | change (2 ^ 8) with 256; lia | exact Hs |].
    unfold estep, obind. rewrite E1. cbn [negb].
    assert (Hd2 : 0 <= d / 128 < 2 ^ (7 * Z.of_nat f)).
    { split; [lia|]. apply Z.div_lt_upper_bound; [lia|].
      replace (7 * Z.of_nat (S f)) with (7 + 7 * Z.of_nat f) in Hd by lia.
      rewrite Z.pow_add_r in Hd by lia. change (2 ^ 7) with 128 in Hd. lia. }
    assert (Hf2 : f <> 0%nat).
    { intros ->. cbn in Hd2. lia. }
    destruct (IH (d / 128) s1 Hd2 Hf2 I1) as (s2 & E2 & B2 & I2).
    exists s2. split; [exact E2|]. split; [|exact I2].
    rewrite B2, B1, low_bits_8, bytes_bits_cons, <- app_assoc. reflexivity.
Qed.

(* pub fn word *)
Lemma enc_word_ok c s : 0 <= c < 2 ^ 64 -> einv s -> estep (enc_word c) (bytes_bits (word_bytes c)) s.
Proof.
  intros Hc Hs. apply enc_word_go_ok; auto.
  assert (2 ^ 64 <= 2 ^ (7 * Z.of_nat 10)) by (apply Z.pow_le_mono_r; lia). lia.
Qed.

(* ---- byte arrays ---- *)
Lemma blocks_go_wf fuel : forall l, bytes_wf l -> bytes_wf (blocks_go fuel l).
Proof.
  induction fuel as [|f IH]; intros l Hl; destruct l as [|a l]; cbn [blocks_go];
    try (constructor; [unfold byte; lia | constructor]).
  set (arr := a :: l) in *. constructor.
  - unfold byte. pose proof (firstn_le_length 255 arr). lia.
  - unfold bytes_wf in *. apply Forall_app. split.
    + apply Forall_forall. intros x Hx. rewrite Forall_forall in Hl. apply Hl.
      rewrite <- (firstn_skipn 255 arr). apply in_or_app. left. exact Hx.
    + apply IH. apply Forall_forall. intros x Hx. rewrite Forall_forall in Hl. apply Hl.
      rewrite <- (firstn_skipn 255 arr). apply in_or_app. right. exact Hx.
Qed.

(* pub fn bytes = filler + byte_array *)
Lemma enc_bytes_ok l s : bytes_wf l -> einv s ->
  estep (enc_bytes l) (filler_bits (e_used s) ++ bytes_bits (blocks l)) s.
Proof.
  intros Hl Hs. destruct (enc_filler_ok s Hs) as (s1 & E1 & B1 & I1 & U1 & C1).
  unfold estep, enc_bytes, obind. rewrite E1. unfold enc_byte_array. rewrite U1. cbn [Z.eqb negb].
  eexists. split; [reflexivity|]. unfold write_blk. split.
  - unfold ebits in *. cbn [e_buf e_used e_cur]. rewrite U1 in *. cbn [Z.to_nat firstn] in *.
    rewrite app_nil_r in *. rewrite bytes_bits_app, B1, <- app_assoc. reflexivity.
  - destruct I1 as (A1 & A2 & A3 & A4). unfold einv. cbn [e_buf e_used e_cur]. repeat split; auto; try lia.
    unfold bytes_wf in *. apply Forall_app. split; [exact A4 | apply blocks_go_wf, Hl].
Qed.
