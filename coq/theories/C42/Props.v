(* C42 — provisional (pre-fix stage) *)
From PV Require Import Lib.Base Immutable.ChunkList C42.Model.
Open Scope Z_scope.
Definition ex_db : db := [(3, [(30, 300, 2)]); (1, [(10, 100, 0); (12, 120, 1)]); (2, [(20, 200, 2)])].
Theorem fuzzy_below_first_refuted : read_blocks_from_point ex_db (Specific 5 EMPTY_HASH) = Err E_CANNOT_FIND.
Proof. vm_compute. reflexivity. Qed.
Theorem absent_beyond_tip_refuted : read_blocks_from_point ex_db (Specific 25 777) = Ok [].
Proof. vm_compute. reflexivity. Qed.
