(* C18 model: pallas-addresses/src/{lib.rs,varuint.rs}, transcribed branch for
   branch.  Bytes are Z in [0,256); u64 / u128 values are Z with the width made
   explicit where the code depends on it (the u128 accumulator of
   varuint::read, the u8 header arithmetic).  Strings are lists of bytes
   (ASCII / UTF-8 code units). *)
From PV Require Import Lib.Base.
Open Scope Z_scope.

(* ---- error classes (pallas_addresses::Error, class only) ---- *)
Definition E_MISSING_HEADER : Z := 1.
Definition E_INVALID_HEADER : Z := 2.
Definition E_ADDR_LEN : Z := 3.
Definition E_HASH_SIZE : Z := 4.
Definition E_VARUINT_EOF : Z := 5.       (* VarUintError(UnexpectedEof) *)
Definition E_VARUINT_OVERFLOW : Z := 6.  (* VarUintError(VarUintOverflow): never produced by the code *)
Definition E_BYRON_CBOR : Z := 7.
Definition E_BAD_HEX : Z := 8.
Definition E_BAD_BECH32 : Z := 9.
Definition E_UNKNOWN_HRP : Z := 10.
Definition E_FOR_BYRON : Z := 11.
Definition E_UNKNOWN_STRING : Z := 12.
Definition E_BAD_BASE58 : Z := 13.
(* panic kinds *)
Definition P_SLICE : Z := 1.

Definition bind {A B} (o : outcome A) (f : A -> outcome B) : outcome B :=
  match o with Ok a => f a | Err e => Err e | Panic p => Panic p end.

Definition u64_max : Z := 18446744073709551615.
Definition two128 : Z := 340282366920938463463374607431768211456.

(* ---- varuint.rs ---- *)

(* pub fn read: loop { read_exact 1 byte or UnexpectedEof;
     output = (output << 7) | (byte & 0x7F) as u128      -- u128: bits shifted out are dropped
     if output > u64::MAX { return Ok(u64::MAX) }         -- saturate, stop consuming
     if byte & 0x80 == 0 { return Ok(output as u64) } }
   Returns the value and the unread rest of the cursor. *)
Fixpoint read_go (output : Z) (bs : list Z) : outcome (Z * list Z) :=
  match bs with
  | [] => Err E_VARUINT_EOF
  | byte :: rest =>
      let output' := Z.lor ((Z.shiftl output 7) mod two128) (Z.land byte 127) in
      if output' >? u64_max then Ok (u64_max, rest)
      else if Z.land byte 128 =? 0 then Ok (output' mod (u64_max + 1), rest)
      else read_go output' rest
  end.
Definition varuint_read (bs : list Z) : outcome (Z * list Z) := read_go 0 bs.

(* pub fn write: output = [num as u8 & 0x7F]; num /= 128;
     while num > 0 { output.push((num & 0x7F) as u8 | 0x80); num /= 128 } output.reverse()
   The while loop is recursion on fuel; 10 rounds are enough for any u64
   (Proofs.write_fuel_ok), [None] = fuel exhausted. *)
Fixpoint write_loop (fuel : nat) (num : Z) (out : list Z) : option (list Z) :=
  if num >? 0 then
    match fuel with
    | O => None
    | S f => write_loop f (num / 128) (out ++ [Z.lor (Z.land num 127) 128])
    end
  else Some out.
Definition varuint_write_opt (n : Z) : option (list Z) :=
  option_map (@rev Z) (write_loop 10 (n / 128) [Z.land (n mod 256) 127]).
Definition varuint_write (n : Z) : list Z :=
  match varuint_write_opt n with Some l => l | None => [] end.

(* ---- address values ---- *)
Inductive network := Testnet | Mainnet | Other (x : Z).
Inductive payment_part := PayKey (h : list Z) | PayScript (h : list Z).
Inductive delegation_part :=
| DelKey (h : list Z) | DelScript (h : list Z) | DelPointer (slot tx cert : Z) | DelNull.
Inductive stake_payload := StStake (h : list Z) | StScript (h : list Z).
Inductive address :=
| Byron (payload : list Z) (crc : Z)
| Shelley (n : network) (p : payment_part) (d : delegation_part)
| Stake (n : network) (s : stake_payload).

(* impl From<u8> for Network *)
Definition network_from (id : Z) : network :=
  if id =? 0 then Testnet else if id =? 1 then Mainnet else Other id.
(* Network::value *)
Definition network_value (n : network) : Z :=
  match n with Testnet => 0 | Mainnet => 1 | Other x => x end.
(* fn parse_network(header) *)
Definition parse_network (header : Z) : network :=
  let masked := Z.land header 15 in
  if masked =? 0 then Testnet else if masked =? 1 then Mainnet else Other masked.

(* ---- Pointer ---- *)
Definition pointer_parse (bs : list Z) : outcome (Z * Z * Z) :=
  bind (varuint_read bs) (fun '(a, r1) =>
  bind (varuint_read r1) (fun '(b, r2) =>
  bind (varuint_read r2) (fun '(c, _) => Ok (a, b, c)))).
Definition pointer_to_vec (a b c : Z) : list Z :=
  varuint_write a ++ varuint_write b ++ varuint_write c.

(* ---- slicing, slice_to_hash ---- *)
Definition len (l : list Z) : Z := Z.of_nat (length l).
(* &l[lo..hi] (hi exclusive); out-of-range end panics *)
Definition slice (l : list Z) (lo hi : Z) : outcome (list Z) :=
  if (hi <=? len l) && (lo <=? hi)
  then Ok (firstn (Z.to_nat (hi - lo)) (skipn (Z.to_nat lo) l))
  else Panic P_SLICE.
(* &l[lo..] *)
Definition slice_from (l : list Z) (lo : Z) : outcome (list Z) :=
  if lo <=? len l then Ok (skipn (Z.to_nat lo) l) else Panic P_SLICE.
Definition slice_to_hash (s : list Z) : outcome (list Z) :=
  if len s =? 28 then Ok s else Err E_HASH_SIZE.

(* ---- parse_shelley_fn! / parse_stake_fn! (the three + one macro arms) ---- *)
Definition parse_shelley_hh (mkp : list Z -> payment_part) (mkd : list Z -> delegation_part)
  (header : Z) (payload : list Z) : outcome address :=
  if len payload <? 56 then Err E_ADDR_LEN else
  let net := parse_network header in
  bind (slice payload 0 28) (fun s1 => bind (slice_to_hash s1) (fun h1 =>
  bind (slice payload 28 56) (fun s2 => bind (slice_to_hash s2) (fun h2 =>
  Ok (Shelley net (mkp h1) (mkd h2)))))).

Definition parse_shelley_ptr (mkp : list Z -> payment_part)
  (header : Z) (payload : list Z) : outcome address :=
  if len payload <? 29 then Err E_ADDR_LEN else
  let net := parse_network header in
  bind (slice payload 0 28) (fun s1 => bind (slice_to_hash s1) (fun h1 =>
  bind (slice_from payload 28) (fun s2 => bind (pointer_parse s2) (fun '(a, b, c) =>
  Ok (Shelley net (mkp h1) (DelPointer a b c)))))).

Definition parse_shelley_h (mkp : list Z -> payment_part)
  (header : Z) (payload : list Z) : outcome address :=
  if len payload <? 28 then Err E_ADDR_LEN else
  let net := parse_network header in
  bind (slice payload 0 28) (fun s1 => bind (slice_to_hash s1) (fun h1 =>
  Ok (Shelley net (mkp h1) DelNull))).

Definition parse_stake (mks : list Z -> stake_payload)
  (header : Z) (payload : list Z) : outcome address :=
  if len payload <? 28 then Err E_ADDR_LEN else
  let net := parse_network header in
  bind (slice payload 0 28) (fun s1 => bind (slice_to_hash s1) (fun h1 =>
  Ok (Stake net (mks h1)))).

(* fn bytes_to_address; [p8 header payload] stands for parse_type_8 (Byron,
   modelled in C19). *)
Definition bytes_to_address (p8 : Z -> list Z -> outcome address) (bytes : list Z) : outcome address :=
  match bytes with
  | [] => Err E_MISSING_HEADER
  | header :: payload =>
      let t := Z.land header 240 in
      if t =? 0 then parse_shelley_hh PayKey DelKey header payload
      else if t =? 16 then parse_shelley_hh PayScript DelKey header payload
      else if t =? 32 then parse_shelley_hh PayKey DelScript header payload
      else if t =? 48 then parse_shelley_hh PayScript DelScript header payload
      else if t =? 64 then parse_shelley_ptr PayKey header payload
      else if t =? 80 then parse_shelley_ptr PayScript header payload
      else if t =? 96 then parse_shelley_h PayKey header payload
      else if t =? 112 then parse_shelley_h PayScript header payload
      else if t =? 128 then p8 header payload
      else if t =? 224 then parse_stake StStake header payload
      else if t =? 240 then parse_stake StScript header payload
      else Err E_INVALID_HEADER
  end.

(* ---- typeid / to_header / hrp / to_vec ---- *)
Definition shelley_typeid (p : payment_part) (d : delegation_part) : Z :=
  match p, d with
  | PayKey _, DelKey _ => 0 | PayScript _, DelKey _ => 1
  | PayKey _, DelScript _ => 2 | PayScript _, DelScript _ => 3
  | PayKey _, DelPointer _ _ _ => 4 | PayScript _, DelPointer _ _ _ => 5
  | PayKey _, DelNull => 6 | PayScript _, DelNull => 7
  end.
Definition stake_typeid (s : stake_payload) : Z :=
  match s with StStake _ => 14 | StScript _ => 15 end.
Definition typeid (a : address) : Z :=
  match a with
  | Byron _ _ => 8
  | Shelley _ p d => shelley_typeid p d
  | Stake _ s => stake_typeid s
  end.
Definition addr_network (a : address) : option network :=
  match a with Byron _ _ => None | Shelley n _ _ => Some n | Stake n _ => Some n end.

(* u8: (type_id << 4) | network.value() *)
Definition mk_header (type_id : Z) (n : network) : Z :=
  Z.lor ((Z.shiftl type_id 4) mod 256) (network_value n).
Definition to_header (a : address) : Z :=
  match a with
  | Byron _ _ => 0 (* ByronAddress has no to_header *)
  | Shelley n p d => mk_header (shelley_typeid p d) n
  | Stake n s => mk_header (stake_typeid s) n
  end.

Definition payment_to_vec (p : payment_part) : list Z :=
  match p with PayKey h => h | PayScript h => h end.
Definition delegation_to_vec (d : delegation_part) : list Z :=
  match d with
  | DelKey h => h | DelScript h => h
  | DelPointer a b c => pointer_to_vec a b c
  | DelNull => []
  end.
Definition stake_payload_bytes (s : stake_payload) : list Z :=
  match s with StStake h => h | StScript h => h end.

(* Shelley / Stake to_vec ([byron_to_vec] stands for ByronAddress::to_vec, C19) *)
Definition to_vec_with (byron_to_vec : list Z -> Z -> list Z) (a : address) : list Z :=
  match a with
  | Byron p c => byron_to_vec p c
  | Shelley n p d => to_header a :: payment_to_vec p ++ delegation_to_vec d
  | Stake n s => to_header a :: stake_payload_bytes s
  end.
Definition to_vec (a : address) : list Z := to_vec_with (fun _ _ => []) a.

(* "addr_test" "addr" "stake_test" "stake" as ASCII *)
Definition s_addr : list Z := [97; 100; 100; 114].
Definition s_stake : list Z := [115; 116; 97; 107; 101].
Definition s_test : list Z := [95; 116; 101; 115; 116].
Definition hrp (a : address) : outcome (list Z) :=
  match a with
  | Byron _ _ => Err E_FOR_BYRON
  | Shelley Testnet _ _ => Ok (s_addr ++ s_test)
  | Shelley Mainnet _ _ => Ok s_addr
  | Shelley (Other _) _ _ => Err E_UNKNOWN_HRP
  | Stake Testnet _ => Ok (s_stake ++ s_test)
  | Stake Mainnet _ => Ok s_stake
  | Stake (Other _) _ => Err E_UNKNOWN_HRP
  end.

(* ---- hex (crate hex 0.4: encode = lowercase; decode accepts both cases) ---- *)
Definition hex_digit (d : Z) : Z := if d <? 10 then 48 + d else 87 + d.
Definition hex_encode (bs : list Z) : list Z :=
  flat_map (fun b => [hex_digit (b / 16); hex_digit (b mod 16)]) bs.
Definition hex_val (c : Z) : option Z :=
  if (65 <=? c) && (c <=? 70) then Some (c - 65 + 10)
  else if (97 <=? c) && (c <=? 102) then Some (c - 97 + 10)
  else if (48 <=? c) && (c <=? 57) then Some (c - 48)
  else None.
Fixpoint hex_pairs (s : list Z) : option (list Z) :=
  match s with
  | [] => Some []
  | c1 :: c2 :: r =>
      match hex_val c1, hex_val c2, hex_pairs r with
      | Some a, Some b, Some l => Some (Z.lor (Z.shiftl a 4) b :: l)
      | _, _, _ => None
      end
  | [_] => None
  end.
Definition hex_decode (s : list Z) : option (list Z) :=
  if (len s) mod 2 =? 0 then hex_pairs s else None.

Definition from_bytes := bytes_to_address.
Definition to_hex (a : address) : list Z := hex_encode (to_vec a).
Definition from_hex (p8 : Z -> list Z -> outcome address) (s : list Z) : outcome address :=
  match hex_decode s with
  | Some bs => bytes_to_address p8 bs
  | None => Err E_BAD_HEX
  end.

(* ---- string level: bech32 and base58 are third-party crates = oracles ---- *)
Section Strings.
  Variable bech32_encode : list Z -> list Z -> list Z.           (* hrp -> data -> string *)
  Variable bech32_decode : list Z -> option (list Z * list Z).   (* string -> (hrp, data) *)
  Variable byron_from_base58 : list Z -> outcome address.        (* ByronAddress::from_base58(..).into() *)
  Variable p8 : Z -> list Z -> outcome address.

  Definition to_bech32 (a : address) : outcome (list Z) :=
    bind (hrp a) (fun h => Ok (bech32_encode h (to_vec a))).
  (* bech32_to_address: the decoded hrp is ignored *)
  Definition from_bech32 (s : list Z) : outcome address :=
    match bech32_decode s with
    | Some (_, bytes) => bytes_to_address p8 bytes
    | None => Err E_BAD_BECH32
    end.
  (* Display for Address (Shelley / Stake arms): bech32, or hex when there is no hrp *)
  Definition to_string (a : address) : list Z :=
    match to_bech32 a with Ok s => s | _ => to_hex a end.
  (* FromStr: bech32, then Byron base58, then hex *)
  Definition from_str (s : list Z) : outcome address :=
    match from_bech32 s with
    | Ok x => Ok x
    | _ => match byron_from_base58 s with
           | Ok x => Ok x
           | _ => match from_hex p8 s with
                  | Ok x => Ok x
                  | _ => Err E_UNKNOWN_STRING
                  end
           end
    end.
End Strings.

(* ---- well-formedness of the values the property quantifies over ---- *)
Definition hash_wf (h : list Z) : Prop := length h = 28%nat /\ bytes_wf h.
Definition u64 (x : Z) : Prop := 0 <= x <= u64_max.
Definition addr_wf (a : address) : Prop :=
  match a with
  | Byron _ _ => False
  | Shelley _ p d =>
      hash_wf (payment_to_vec p) /\
      match d with
      | DelKey h | DelScript h => hash_wf h
      | DelPointer a b c => u64 a /\ u64 b /\ u64 c
      | DelNull => True
      end
  | Stake _ s => hash_wf (stake_payload_bytes s)
  end.

(* ---- boolean equalities for the runner ---- *)
Definition bytes_eqb := list_eqb Z.eqb.
Definition network_eqb (a b : network) : bool :=
  match a, b with
  | Testnet, Testnet | Mainnet, Mainnet => true
  | Other x, Other y => x =? y
  | _, _ => false
  end.
Definition payment_eqb (a b : payment_part) : bool :=
  match a, b with
  | PayKey x, PayKey y | PayScript x, PayScript y => bytes_eqb x y
  | _, _ => false
  end.
Definition delegation_eqb (a b : delegation_part) : bool :=
  match a, b with
  | DelKey x, DelKey y | DelScript x, DelScript y => bytes_eqb x y
  | DelPointer a1 b1 c1, DelPointer a2 b2 c2 => (a1 =? a2) && (b1 =? b2) && (c1 =? c2)
  | DelNull, DelNull => true
  | _, _ => false
  end.
Definition stake_payload_eqb (a b : stake_payload) : bool :=
  match a, b with
  | StStake x, StStake y | StScript x, StScript y => bytes_eqb x y
  | _, _ => false
  end.
Definition address_eqb (a b : address) : bool :=
  match a, b with
  | Byron p c, Byron p' c' => bytes_eqb p p' && (c =? c')
  | Shelley n p d, Shelley n' p' d' => network_eqb n n' && payment_eqb p p' && delegation_eqb d d'
  | Stake n s, Stake n' s' => network_eqb n n' && stake_payload_eqb s s'
  | _, _ => false
  end.
Definition outcome_eqb {A} (eqb : A -> A -> bool) (x y : outcome A) : bool :=
  match x, y with
  | Ok a, Ok b => eqb a b
  | Err e, Err f => e =? f
  | Panic p, Panic q => p =? q
  | _, _ => false
  end.
