(* C28 correspondence.  A case is a schedule executed on the real
   InitiatorBehavior in closed loop with the simulated network of
   harness/src/bin/c28.rs: (sync?, config, steps as in C27 - including every
   Sent confirmation -, the first emitted message the harness's own protocol
   tracker rejected, if any).  Checked: the model reproduces outputs and states
   of every step, and the model-side [exec] (driven by P2p/Spec.v) reaches the
   same verdict as the harness oracle: same step, peer, message and class. *)
From PV Require Export Lib.Base P2p.Proto P2p.Initiator P2p.Spec P2p.Replay C28.Model.
Open Scope Z_scope.

Definition case : Type := (bool * (Z * Z * Z * Z) * list step_rec * option (Z * Z * msg * bool)).

Definition is_sent (e : event) : bool := match e with ESent _ _ => true | _ => false end.
Definition events_of (l : list step_rec) : list event := map (fun r => let '(e, _, _, _, _) := r in e) l.
(* the recorded history stops at a violation: drop the steps after the last one [exec] needs *)
Definition schedule (sync : bool) (l : list step_rec) : list event :=
  if sync then filter (fun e => negb (is_sent e)) (events_of l) else events_of l.

Definition verdict_matches (v : verdict) (x : option (Z * Z * msg * bool)) : bool :=
  match v, x with
  | VFine, None => true
  | VViolation i p m u, Some (i', p', m', u') =>
      (i =? i') && (p =? p') && list_eqb Z.eqb (msg_code m) (msg_code m') && Bool.eqb u u'
  | VPanic _, None => true      (* a panic ends the history; panics are C29's subject and are compared by [replay] *)
  | _, _ => false
  end.

Definition case_ok (c : case) : bool :=
  let '(sync, t, l, x) := c in
  replay (mk_cfg t) init l &&
  verdict_matches (exec (if sync then Sync else Async) (mk_cfg t) 0 init [] (schedule sync l)) x.

Definition case_out (c : case) :=
  let '(sync, t, l, x) := c in
  (exec (if sync then Sync else Async) (mk_cfg t) 0 init [] (schedule sync l), trace (mk_cfg t) init l).
