(* C36 model: the transaction size used for the fee and size limits, and the two rules.
     pallas-validate/src/utils.rs      get_alonzo_comp_tx_size, get_babbage_tx_size, get_conway_tx_size
     pallas-traverse/src/size.rs       MultiEraTx::size (the ledger's size: the reference)
     pallas-validate/src/phase1/*.rs   check_min_fee (Shelley-MA: check_fees), check_tx_size
   transcribed as repaired by the `fix:` commits recorded for C36; the code as it was is
   kept in the *_old definitions (refuted in Proofs.v).

   A transaction is reduced to the byte lengths of its parts: body, witness set and
   auxiliary data (None when the transaction carries `null`).  Lengths are usize; the
   validator casts to u32 (`as u32` = mod 2^32). *)
From PV Require Import Lib.Base.
Open Scope Z_scope.

Definition U32 : Z := 4294967296.
Definition as_u32 (x : Z) : Z := x mod U32.

Definition V_OK : Z := 0.
Definition V_FEE : Z := 1.    (* FeeBelowMin / FeesBelowMin *)
Definition V_SIZE : Z := 2.   (* MaxTxSizeExceeded *)

(* MultiEraTx::size = body_size + witness_set_size + aux_data_size,
   aux_data_size = raw.len() + 1 | 2  (array head; null + array head) *)
Definition aux_data_size (aux : option Z) : Z := match aux with Some a => a + 1 | None => 2 end.
Definition traverse_size (b w : Z) (aux : option Z) : Z := b + w + aux_data_size aux.

(* get_alonzo_comp_tx_size (Shelley, Allegra, Mary, Alonzo) *)
Definition alonzo_comp_tx_size (b w : Z) (aux : option Z) : Z :=
  match aux with
  | Some a => as_u32 (a + 1 + b + w)
  | None => as_u32 (b + w + 2)
  end.

(* minicbor encoding of Tx { body, witness set, success, auxiliary data }:
   array(4) head, raw body, raw witness set, bool, raw aux | null *)
Definition encoded_len (b w : Z) (aux : option Z) : Z :=
  1 + b + w + 1 + match aux with Some a => a | None => 1 end.
(* get_babbage_tx_size / get_conway_tx_size: Some(buff.len() as u32 - 1) *)
Definition babbage_tx_size (b w : Z) (aux : option Z) : Z := as_u32 (encoded_len b w aux) - 1.
Definition conway_tx_size := babbage_tx_size.

(* check_min_fee / check_fees:
   if tx_body.fee < minfee_b as u64 + minfee_a as u64 * *size as u64 { Err(FeeBelowMin) } *)
Definition min_fee (a b size : Z) : Z := b + a * size.
Definition check_min_fee (fee a b size : Z) : Z :=
  if fee <? min_fee a b size then V_FEE else V_OK.

(* check_tx_size: if *size > max_transaction_size { Err(MaxTxSizeExceeded) } *)
Definition check_tx_size (size max : Z) : Z :=
  if size >? max then V_SIZE else V_OK.

(* era: 0 Shelley/Allegra/Mary, 1 Alonzo, 2 Babbage, 3 Conway *)
Definition validator_size (era b w : Z) (aux : option Z) : Z :=
  if era <=? 1 then alonzo_comp_tx_size b w aux
  else if era =? 2 then babbage_tx_size b w aux
  else conway_tx_size b w aux.

(* the two rules as validate_*_tx applies them to a transaction *)
Definition fee_and_size_ok (era b w : Z) (aux : option Z) (fee a bb max : Z) : bool :=
  let size := validator_size era b w aux in
  (check_min_fee fee a bb size =? V_OK) && (check_tx_size size max =? V_OK).

(* ------------------------------------------------------------------ *)
(* before the repairs *)
Definition alonzo_comp_tx_size_old (b w : Z) (aux : option Z) : Z :=
  match aux with
  | Some a => as_u32 (a + b + w)
  | None => as_u32 (b + w)
  end.
Definition babbage_tx_size_old (b w : Z) (aux : option Z) : Z := as_u32 (encoded_len b w aux).
(* (prot_pps.minfee_b + prot_pps.minfee_a * size) as u64 with u32 operands:
   wraps in a release build (panics in a debug build) *)
Definition check_min_fee_old_release (fee a b size : Z) : Z :=
  if fee <? as_u32 (b + as_u32 (a * size)) then V_FEE else V_OK.
