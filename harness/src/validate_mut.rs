//! Structural mutators over `Scen` (shared by c33 / c38). Each returns false when it does not
//! apply to the scenario. All randomness comes from the caller's `Rng`.
#![allow(dead_code)]
use super::vc::*;
use pallas_crypto::hash::Hasher;
use pallas_crypto::key::ed25519::SecretKey;
use pallas_primitives::byron;
use pallas_traverse::Era;
use pallas_validate::utils::MultiEraProtocolParameters as PP;
use verif_harness::Rng;

pub type Mutator = fn(&mut Scen, &mut Rng) -> bool;

fn rb(r: &mut Rng, lo: usize, n: u64) -> Vec<u8> { let k = lo + r.below(n) as usize; r.bytes(k) }
fn rnd_hash(rng: &mut Rng, n: usize) -> Vec<u8> { rng.bytes(n) }
fn pick_ix(rng: &mut Rng, n: usize) -> Option<usize> { if n == 0 { None } else { Some(rng.below(n as u64) as usize) } }
fn shelley(s: &Scen) -> bool { s.fam != Fam::Byron }
fn out_era(s: &Scen) -> Era {
    match s.fam { Fam::Byron => Era::Byron, Fam::AC(e) => e, Fam::Babbage => Era::Babbage, Fam::Conway => Era::Conway }
}
/// a fresh key-locked UTxO entry of the scenario's era with `coin` lovelace
fn fresh_utxo(s: &mut Scen, rng: &mut Rng, coin: u64, addr: Vec<u8>, assets: Option<Assets<u64>>) -> (Vec<u8>, u64) {
    let h = rnd_hash(rng, 32);
    let ix = rng.below(4);
    let o = OutIr { legacy: !s.is_post_alonzo(), addr, coin, assets, datum: None, sref: None };
    let era = out_era(s);
    s.utxo.push(UEntry { byron_key: false, hash: h.clone(), ix, era, out: enc_out(&o) });
    (h, ix)
}
fn some_key_addr(s: &Scen) -> Vec<u8> {
    for e in &s.utxo {
        if let Some(o) = parse_out(&e.out) { if !o.addr.is_empty() && (o.addr[0] >> 4) & 1 == 0 && (o.addr[0] >> 4) < 8 { return o.addr; } }
    }
    let mut a = vec![0x61]; a.extend_from_slice(&[7u8; 28]); a
}

// ---------------------------------------------------------------- inputs / UTxO membership
pub fn ins_empty(s: &mut Scen, _r: &mut Rng) -> bool { if !shelley(s) { return false } let (t, _) = s.inputs(); s.set_inputs(t, &[]); true }
pub fn ins_add_missing(s: &mut Scen, r: &mut Rng) -> bool {
    if !shelley(s) { return false }
    let (t, mut ins) = s.inputs(); ins.push((rnd_hash(r, 32), r.below(3))); s.set_inputs(t, &ins); true
}
pub fn ins_add_present(s: &mut Scen, r: &mut Rng) -> bool {
    if !shelley(s) { return false }
    let a = some_key_addr(s);
    let coin = if r.chance(1, 3) { edge_amount(r) } else { r.range(1_000_000, 50_000_000) };
    let (h, ix) = fresh_utxo(s, r, coin, a, None);
    let (t, mut ins) = s.inputs(); ins.push((h, ix)); s.set_inputs(t, &ins); true
}
pub fn utxo_remove_input(s: &mut Scen, r: &mut Rng) -> bool {
    if !shelley(s) { return false }
    let (_, ins) = s.inputs();
    let Some(i) = pick_ix(r, ins.len()) else { return false };
    let Some(p) = s.uentry(&ins[i].0, ins[i].1) else { return false };
    s.utxo.remove(p); true
}
pub fn utxo_clear(s: &mut Scen, _r: &mut Rng) -> bool { s.utxo.clear(); true }
pub fn ins_dup(s: &mut Scen, r: &mut Rng) -> bool {
    if !shelley(s) { return false }
    let (t, mut ins) = s.inputs();
    let Some(i) = pick_ix(r, ins.len()) else { return false };
    let x = ins[i].clone(); ins.push(x); s.set_inputs(t, &ins); true
}
pub fn ref_add_missing(s: &mut Scen, r: &mut Rng) -> bool {
    if !s.is_post_alonzo() { return false }
    let (t, mut l) = s.inlist(18).unwrap_or((s.fam == Fam::Conway && false, vec![]));
    l.push((rnd_hash(r, 32), r.below(3))); s.put(18, enc_inputs(t, &l)); true
}
pub fn ref_add_present(s: &mut Scen, r: &mut Rng) -> bool {
    if !s.is_post_alonzo() { return false }
    let a = some_key_addr(s);
    let (h, ix) = fresh_utxo(s, r, 2_000_000, a, None);
    let (t, mut l) = s.inlist(18).unwrap_or((false, vec![]));
    l.push((h, ix)); s.put(18, enc_inputs(t, &l)); true
}
pub fn coll_add_missing(s: &mut Scen, r: &mut Rng) -> bool {
    if !s.has_scripts_era() { return false }
    let (t, mut l) = s.inlist(13).unwrap_or((false, vec![]));
    l.push((rnd_hash(r, 32), r.below(3))); s.put(13, enc_inputs(t, &l)); true
}

// ---------------------------------------------------------------- outputs
pub fn outs_empty(s: &mut Scen, _r: &mut Rng) -> bool { if !shelley(s) { return false } s.set_outputs(&[]); true }
pub fn out_coin_edge(s: &mut Scen, r: &mut Rng) -> bool {
    if !shelley(s) { return false }
    let mut o = s.outputs(); let Some(i) = pick_ix(r, o.len()) else { return false };
    o[i].coin = match r.below(4) { 0 => edge_amount(r), 1 => o[i].coin.wrapping_sub(1), 2 => o[i].coin.wrapping_add(1), _ => r.below(2_000_000) };
    s.set_outputs(&o); true
}
fn edit_assets(a: &mut Option<Assets<u64>>, r: &mut Rng, policies: &[Vec<u8>]) {
    let q = match r.below(5) { 0 => 0, 1 => 1, 2 | 3 => edge_amount(r), _ => r.below(1000) };
    let list = a.get_or_insert_with(Vec::new);
    if !list.is_empty() && r.chance(1, 2) {
        let pi = r.below(list.len() as u64) as usize;
        if !list[pi].1.is_empty() && r.chance(1, 2) { let ai = r.below(list[pi].1.len() as u64) as usize; list[pi].1[ai].1 = q; }
        else { list[pi].1.push((rb(r, 0, 5), q)); }
    } else {
        let p = if !policies.is_empty() && r.chance(2, 3) { r.pick(policies).clone() } else { r.bytes(28) };
        if let Some(e) = list.iter_mut().find(|e| e.0 == p) { e.1.push((rb(r, 1, 4), q)) }
        else { list.push((p, vec![(rb(r, 0, 5), q)])); }
    }
}
fn known_policies(s: &Scen) -> Vec<Vec<u8>> {
    let mut v = vec![];
    for o in s.outputs() { if let Some(a) = o.assets { for (p, _) in a { if !v.contains(&p) { v.push(p) } } } }
    for e in &s.utxo { if let Some(o) = parse_out(&e.out) { if let Some(a) = o.assets { for (p, _) in a { if !v.contains(&p) { v.push(p) } } } } }
    if let Some(m) = s.get(9).and_then(|m| parse_assets_i(m)) { for (p, _) in m { if !v.contains(&p) { v.push(p) } } }
    v
}
pub fn out_assets_edge(s: &mut Scen, r: &mut Rng) -> bool {
    if !shelley(s) { return false }
    let pol = known_policies(s);
    let mut o = s.outputs(); let Some(i) = pick_ix(r, o.len()) else { return false };
    edit_assets(&mut o[i].assets, r, &pol); s.set_outputs(&o); true
}
pub fn out_empty_multiasset(s: &mut Scen, r: &mut Rng) -> bool {
    if !shelley(s) { return false }
    let mut o = s.outputs(); let Some(i) = pick_ix(r, o.len()) else { return false };
    o[i].assets = Some(vec![]); s.set_outputs(&o); true
}
pub fn out_many_assets(s: &mut Scen, r: &mut Rng) -> bool {
    if !shelley(s) { return false }
    let mut o = s.outputs(); let Some(i) = pick_ix(r, o.len()) else { return false };
    let n = *r.pick(&[20u64, 100, 130, 160, 400]);
    let p = r.bytes(28);
    o[i].assets = Some(vec![(p, (0..n).map(|k| (vec![(k >> 8) as u8, k as u8, 7, 7, 7, 7, 7, 7, 7, 7, 7, 7, 7, 7, 7, 7, 7, 7, 7, 7, 7, 7, 7, 7, 7, 7, 7, 7, 7, 7, 7, 7], 1 + k)).collect())]);
    s.set_outputs(&o); true
}
pub fn out_addr_net(s: &mut Scen, r: &mut Rng) -> bool {
    if !shelley(s) { return false }
    let mut o = s.outputs(); let Some(i) = pick_ix(r, o.len()) else { return false };
    if o[i].addr.is_empty() { return false }
    o[i].addr[0] ^= 1; s.set_outputs(&o); true
}
pub const BYRON_ADDR: &str = "82d818582183581cff66e7549ee0706abe5ce63ba325f792f2c1145d918baf563db2b457a0001a2d1c1e6f";
pub fn out_addr_garbage(s: &mut Scen, r: &mut Rng) -> bool {
    if !shelley(s) { return false }
    let mut o = s.outputs(); let Some(i) = pick_ix(r, o.len()) else { return false };
    o[i].addr = match r.below(5) {
        0 => vec![], 1 => { let mut a = o[i].addr.clone(); a.truncate(r.below(29) as usize); a }
        2 => r.bytes(29), 3 => hex::decode(BYRON_ADDR).unwrap(),
        _ => { let mut a = vec![0xe1]; a.extend(r.bytes(28)); a }   // stake address
    };
    s.set_outputs(&o); true
}
pub fn out_legacy_toggle(s: &mut Scen, r: &mut Rng) -> bool {
    if !s.is_post_alonzo() { return false }
    let mut o = s.outputs(); let Some(i) = pick_ix(r, o.len()) else { return false };
    o[i].legacy = !o[i].legacy; o[i].datum = None; o[i].sref = None; s.set_outputs(&o); true
}
pub fn out_add(s: &mut Scen, r: &mut Rng) -> bool {
    if !shelley(s) { return false }
    let mut o = s.outputs();
    let a = if o.is_empty() { some_key_addr(s) } else { o[0].addr.clone() };
    o.push(OutIr { legacy: !s.is_post_alonzo() || r.chance(1, 3), addr: a, coin: r.range(900_000, 3_000_000), assets: None, datum: None, sref: None });
    s.set_outputs(&o); true
}
pub fn out_datum_hash(s: &mut Scen, r: &mut Rng) -> bool {
    if !s.has_scripts_era() { return false }
    let mut o = s.outputs(); let Some(i) = pick_ix(r, o.len()) else { return false };
    let h = c_bytes(&r.bytes(32));
    o[i].datum = if o[i].datum.is_some() && r.chance(1, 2) { None } else if o[i].legacy { Some(h) } else { Some(c_array(&[c_uint(0), h])) };
    s.set_outputs(&o); true
}

// ---------------------------------------------------------------- scalar body fields
pub fn fee_edge(s: &mut Scen, r: &mut Rng) -> bool {
    if !shelley(s) { return false }
    let f = s.fee();
    let v = match r.below(7) { 0 => 0, 1 => f.wrapping_sub(1), 2 => f.wrapping_add(1), 3 => u64::MAX, 4 => 1 << 63, 5 => f / 2, _ => edge_amount(r) };
    s.put(2, c_uint(v)); true
}
pub fn ttl_edge(s: &mut Scen, r: &mut Rng) -> bool {
    if !shelley(s) { return false }
    let slot = s.env.slot;
    match r.below(6) { 0 => s.del(3), 1 => s.put(3, c_uint(slot.wrapping_sub(1))), 2 => s.put(3, c_uint(slot)), 3 => s.put(3, c_uint(slot.wrapping_add(1))), 4 => s.put(3, c_uint(0)), _ => s.put(3, c_uint(u64::MAX)) }
    true
}
pub fn vstart_edge(s: &mut Scen, r: &mut Rng) -> bool {
    if !shelley(s) || s.fam == Fam::AC(Era::Shelley) { return false }
    let slot = s.env.slot;
    match r.below(5) { 0 => s.del(8), 1 => s.put(8, c_uint(slot.wrapping_sub(1))), 2 => s.put(8, c_uint(slot)), 3 => s.put(8, c_uint(slot.wrapping_add(1))), _ => s.put(8, c_uint(u64::MAX)) }
    true
}
pub fn netid_field(s: &mut Scen, r: &mut Rng) -> bool {
    if !s.has_scripts_era() { return false }
    match r.below(3) { 0 => s.del(15), 1 => s.put(15, c_uint(0)), _ => s.put(15, c_uint(1)) }
    true
}
pub fn mint_edge(s: &mut Scen, r: &mut Rng) -> bool {
    if !shelley(s) || matches!(s.fam, Fam::AC(Era::Shelley) | Fam::AC(Era::Allegra)) { return false }
    if s.get(9).is_some() && r.chance(1, 6) { s.del(9); return true }
    let pol = known_policies(s);
    let mut m = s.get(9).and_then(|m| parse_assets_i(m)).unwrap_or_default();
    let q: i128 = match r.below(8) { 0 => 1, 1 => -1, 2 => i64::MAX as i128, 3 => i64::MIN as i128, 4 => 0, 5 => (i64::MAX - 1) as i128, 6 => -(r.below(1000) as i128), _ => r.below(1000) as i128 };
    if !m.is_empty() && r.chance(1, 2) {
        let pi = r.below(m.len() as u64) as usize;
        if !m[pi].1.is_empty() && r.chance(1, 2) { let ai = r.below(m[pi].1.len() as u64) as usize; m[pi].1[ai].1 = q } else { m[pi].1.push((rb(r, 0, 4), q)) }
    } else {
        let p = if !pol.is_empty() && r.chance(2, 3) { r.pick(&pol).clone() } else { r.bytes(28) };
        if let Some(e) = m.iter_mut().find(|e| e.0 == p) { e.1.push((r.bytes(2), q)) } else { m.push((p, vec![(rb(r, 0, 4), q)])) }
    }
    s.put(9, enc_assets_i(&m)); true
}
pub fn aux_edge(s: &mut Scen, r: &mut Rng) -> bool {
    if !shelley(s) { return false }
    match r.below(5) {
        0 => { if s.get(7).is_none() { return false } s.del(7) }
        1 => { if s.aux.is_none() { return false } s.aux = None }
        2 => { let Some(h) = s.get(7).and_then(|h| as_bytes(h)) else { return false }; let mut h = h; if h.is_empty() { return false } let k = r.below(h.len() as u64) as usize; h[k] ^= 1 << r.below(8); s.put(7, c_bytes(&h)) }
        3 => { s.aux = Some(c_map(&[(c_uint(r.below(100)), c_uint(r.below(100)))])) }
        _ => { s.put(7, c_bytes(&r.bytes(32))) }
    }
    true
}
pub fn aux_consistent(s: &mut Scen, r: &mut Rng) -> bool {
    if !shelley(s) { return false }
    let a = c_map(&[(c_uint(r.below(100)), c_uint(r.below(100)))]);
    s.put(7, c_bytes(Hasher::<256>::hash(&a).as_ref())); s.aux = Some(a); true
}
pub fn sdh_edge(s: &mut Scen, r: &mut Rng) -> bool {
    if !s.has_scripts_era() { return false }
    match r.below(3) {
        0 => { if s.get(11).is_none() { return false } s.del(11) }
        1 => { let Some(mut h) = s.get(11).and_then(|h| as_bytes(h)) else { return false }; let k = r.below(h.len() as u64) as usize; h[k] ^= 1 << r.below(8); s.put(11, c_bytes(&h)) }
        _ => s.put(11, c_bytes(&r.bytes(32))),
    }
    true
}
pub fn reqsig_add(s: &mut Scen, r: &mut Rng) -> bool {
    if !s.has_scripts_era() { return false }
    let (tag, rest) = match s.get(14) { Some(raw) => { let (t, rest) = untag(raw); (t, arr_items(rest).unwrap_or_default()) } None => (None, vec![]) };
    let mut l = rest;
    let h = match r.below(3) {
        0 => r.bytes(28),
        _ => { // hash of an existing witness key, when there is one
            let ws = vkeys(s).1; if ws.is_empty() { r.bytes(28) } else { Hasher::<224>::hash(&r.pick(&ws).0).to_vec() } }
    };
    l.push(c_bytes(&h));
    let a = c_array(&l);
    s.put(14, if tag.is_some() { c_tag(258, &a) } else { a }); true
}

// ---------------------------------------------------------------- collateral
pub fn coll_drop(s: &mut Scen, r: &mut Rng) -> bool {
    if !s.has_scripts_era() || s.get(13).is_none() { return false }
    if r.chance(1, 2) { s.del(13) } else { let (t, _) = s.inlist(13).unwrap(); s.put(13, enc_inputs(t, &[])) }
    true
}
pub fn coll_add_present(s: &mut Scen, r: &mut Rng) -> bool {
    if !s.has_scripts_era() { return false }
    let mut a = some_key_addr(s);
    if r.chance(1, 4) && !a.is_empty() { a[0] |= 0x10 }   // script-locked collateral
    let pol = known_policies(s);
    let mut assets = None;
    if r.chance(1, 4) { edit_assets(&mut assets, r, &pol) }
    let coin = if r.chance(1, 3) { edge_amount(r) } else { r.range(1, 10_000_000) };
    let n = if r.chance(1, 5) { 4 } else { 1 };
    for _ in 0..n {
        let (h, ix) = fresh_utxo(s, r, coin, a.clone(), assets.clone());
        let (t, mut l) = s.inlist(13).unwrap_or((false, vec![]));
        l.push((h, ix)); s.put(13, enc_inputs(t, &l));
    }
    true
}
pub fn coll_utxo_edge(s: &mut Scen, r: &mut Rng) -> bool {
    let Some((_, l)) = s.inlist(13) else { return false };
    let Some(i) = pick_ix(r, l.len()) else { return false };
    let Some(p) = s.uentry(&l[i].0, l[i].1) else { return false };
    let Some(mut o) = parse_out(&s.utxo[p].out) else { return false };
    let pol = known_policies(s);
    match r.below(4) {
        0 => o.coin = edge_amount(r),
        1 => o.coin = r.below(3_000_000),
        2 => edit_assets(&mut o.assets, r, &pol),
        _ => { if o.addr.is_empty() { return false } o.addr[0] ^= 0x10 }
    }
    s.utxo[p].out = enc_out(&o); true
}
pub fn total_coll_edge(s: &mut Scen, r: &mut Rng) -> bool {
    if !s.is_post_alonzo() { return false }
    match r.below(4) { 0 => s.del(17), 1 => s.put(17, c_uint(edge_amount(r))), 2 => { let v = s.get(17).and_then(|v| as_u64(v)).unwrap_or(5_000_000); s.put(17, c_uint(v.wrapping_add(1))) } _ => s.put(17, c_uint(r.range(1, 9_000_000))) }
    true
}
/// Legacy-format outputs with a zero quantity (Babbage/Conway): collateral return and ordinary outputs;
/// a Plutus-script witness is added when there is none so that the collateral path is taken
pub fn legacy_zero_quantity(s: &mut Scen, r: &mut Rng) -> bool {
    if !s.is_post_alonzo() { return false }
    let z = Some(vec![(r.bytes(28), vec![(rb(r, 0, 4), 0u64), (rb(r, 1, 3), if r.chance(1, 2) { 0 } else { 3 })])]);
    let addr = some_key_addr(s);
    if r.chance(2, 3) {
        let coin = if r.chance(1, 2) { 0 } else { r.below(3_000_000) };
        s.put(16, enc_out(&OutIr { legacy: true, addr, coin, assets: z, datum: None, sref: None }));
        if s.get(13).is_none() {
            let (h, ix) = fresh_utxo(s, r, 9_000_000, some_key_addr(s), None);
            s.put(13, enc_inputs(false, &[(h, ix)]));
        }
        if s.wget(3).is_none() && s.wget(6).is_none() && s.wget(7).is_none() { s.wput(6, c_array(&[c_bytes(&r.bytes(12))])); }
    } else {
        let mut o = s.outputs();
        o.push(OutIr { legacy: true, addr, coin: 2_000_000, assets: z, datum: None, sref: None });
        s.set_outputs(&o);
    }
    true
}
pub fn coll_return_edge(s: &mut Scen, r: &mut Rng) -> bool {
    if !s.is_post_alonzo() { return false }
    if s.get(16).is_some() && r.chance(1, 4) { s.del(16); return true }
    let pol = known_policies(s);
    let mut o = s.get(16).and_then(|o| parse_out(o)).unwrap_or(OutIr { legacy: r.chance(1, 2), addr: some_key_addr(s), coin: 1_000_000, assets: None, datum: None, sref: None });
    match r.below(4) { 0 => o.coin = edge_amount(r), 1 => o.coin = r.below(6_000_000), 2 => edit_assets(&mut o.assets, r, &pol), _ => { o.legacy = !o.legacy; o.datum = None; o.sref = None } }
    s.put(16, enc_out(&o)); true
}

// ---------------------------------------------------------------- witnesses
/// (tagged, [(vkey, sig)])
pub fn vkeys(s: &Scen) -> (bool, Vec<(Vec<u8>, Vec<u8>)>) {
    let Some(raw) = s.wget(0) else { return (false, vec![]) };
    let (t, rest) = untag(raw);
    let mut out = vec![];
    for w in arr_items(rest).unwrap_or_default() {
        if let Some(p) = arr_items(&w) { if p.len() == 2 { if let (Some(a), Some(b)) = (as_bytes(&p[0]), as_bytes(&p[1])) { out.push((a, b)) } } }
    }
    (t == Some(258), out)
}
pub fn set_vkeys(s: &mut Scen, tagged: bool, ws: &[(Vec<u8>, Vec<u8>)]) {
    let a = c_array(&ws.iter().map(|(k, g)| c_array(&[c_bytes(k), c_bytes(g)])).collect::<Vec<_>>());
    s.wput(0, if tagged { c_tag(258, &a) } else { a });
}
pub fn wit_vkey_len(s: &mut Scen, r: &mut Rng) -> bool {
    if !shelley(s) { return false }
    let (t, mut ws) = vkeys(s); let Some(i) = pick_ix(r, ws.len()) else { return false };
    if r.chance(1, 2) { let n = *r.pick(&[0usize, 1, 31, 33, 64]); ws[i].0.resize(n, 0xAB) } else { let n = *r.pick(&[0usize, 1, 63, 65, 128]); ws[i].1.resize(n, 0xCD) }
    set_vkeys(s, t, &ws); true
}
pub fn wit_sig_flip(s: &mut Scen, r: &mut Rng) -> bool {
    if !shelley(s) { return false }
    let (t, mut ws) = vkeys(s); let Some(i) = pick_ix(r, ws.len()) else { return false };
    if ws[i].1.is_empty() { return false }
    let k = r.below(ws[i].1.len() as u64) as usize; ws[i].1[k] ^= 1 << r.below(8);
    set_vkeys(s, t, &ws); true
}
pub fn wit_vkey_remove(s: &mut Scen, r: &mut Rng) -> bool {
    if !shelley(s) || s.wget(0).is_none() { return false }
    let (t, mut ws) = vkeys(s);
    match r.below(3) { 0 => { s.wdel(0); return true } 1 => ws.clear(), _ => { let Some(i) = pick_ix(r, ws.len()) else { return false }; ws.remove(i); } }
    set_vkeys(s, t, &ws); true
}
pub fn wit_vkey_extra(s: &mut Scen, r: &mut Rng) -> bool {
    if !shelley(s) { return false }
    let (t, mut ws) = vkeys(s);
    let at = r.below(ws.len() as u64 + 1) as usize;
    let body_hash = Hasher::<256>::hash(&s.body_bytes());
    let mut seed = [0u8; 32]; seed.copy_from_slice(&r.bytes(32));
    let sk = SecretKey::from(seed);
    let good = r.chance(1, 2);
    let sig = if good { sk.sign(body_hash.as_ref()).as_ref().to_vec() } else { r.bytes(64) };
    ws.insert(at, (sk.public_key().as_ref().to_vec(), sig));
    set_vkeys(s, t, &ws); true
}
pub fn wit_drop_entry(s: &mut Scen, r: &mut Rng) -> bool {
    if !shelley(s) { return false }
    let ks: Vec<u64> = s.wits.iter().map(|e| e.0).filter(|k| *k != 0).collect();
    if ks.is_empty() { return false }
    let k = *r.pick(&ks);
    if r.chance(1, 3) { s.wput(k, c_array(&[])) } else { s.wdel(k) }
    true
}
pub fn wit_add_datum(s: &mut Scen, r: &mut Rng) -> bool {
    if !s.has_scripts_era() { return false }
    let mut l = s.wget(4).map(|raw| { let (_, rest) = untag(raw); arr_items(rest).unwrap_or_default() }).unwrap_or_default();
    l.push(c_uint(r.below(1000)));
    s.wput(4, c_array(&l)); true
}
pub fn wit_add_script(s: &mut Scen, r: &mut Rng) -> bool {
    if !shelley(s) { return false }
    let k = match s.fam { Fam::AC(Era::Alonzo) => *r.pick(&[1u64, 3]), Fam::Babbage => *r.pick(&[1u64, 3, 6]), Fam::Conway => *r.pick(&[1u64, 3, 6, 7]), _ => 1 };
    let mut l = s.wget(k).map(|raw| { let (_, rest) = untag(raw); arr_items(rest).unwrap_or_default() }).unwrap_or_default();
    if k == 1 { l.push(c_array(&[c_uint(0), c_bytes(&r.bytes(28))])) } else { l.push(c_bytes(&rb(r, 8, 8))) }
    s.wput(k, c_array(&l)); true
}
/// redeemers in list form: [[tag, index, data, [mem, steps]]]
fn redeemers(s: &Scen) -> Option<Vec<(u64, u64, Vec<u8>, u64, u64)>> {
    let raw = s.wget(5)?;
    let mut out = vec![];
    for it in arr_items(raw)? {
        let p = arr_items(&it)?; if p.len() != 4 { return None }
        let ex = arr_items(&p[3])?;
        out.push((as_u64(&p[0])?, as_u64(&p[1])?, p[2].clone(), as_u64(&ex[0])?, as_u64(&ex[1])?));
    }
    Some(out)
}
fn set_redeemers(s: &mut Scen, l: &[(u64, u64, Vec<u8>, u64, u64)]) {
    s.wput(5, c_array(&l.iter().map(|(t, i, d, m, st)| c_array(&[c_uint(*t), c_uint(*i), d.clone(), c_array(&[c_uint(*m), c_uint(*st)])])).collect::<Vec<_>>()));
}
pub fn redeemer_exunits(s: &mut Scen, r: &mut Rng) -> bool {
    let Some(mut l) = redeemers(s) else { return false }; let Some(i) = pick_ix(r, l.len()) else { return false };
    if r.chance(1, 2) { l[i].3 = edge_amount(r) } else { l[i].4 = edge_amount(r) }
    set_redeemers(s, &l); true
}
pub fn redeemer_ptr(s: &mut Scen, r: &mut Rng) -> bool {
    if !s.has_scripts_era() { return false }
    let mut l = redeemers(s).unwrap_or_default();
    match r.below(4) {
        0 => { let Some(i) = pick_ix(r, l.len()) else { return false }; l[i].1 = l[i].1.wrapping_add(1) & 0xffff_ffff }
        1 => { let Some(i) = pick_ix(r, l.len()) else { return false }; l[i].0 = (l[i].0 + 1) % 4 }
        2 => { let Some(i) = pick_ix(r, l.len()) else { return false }; l.remove(i); }
        _ => l.push((r.below(2), r.below(3), c_uint(0), 1000, 1000)),
    }
    set_redeemers(s, &l); true
}

// ---------------------------------------------------------------- UTxO contents
fn pick_input_utxo(s: &Scen, r: &mut Rng) -> Option<usize> {
    let (_, ins) = s.inputs(); let i = pick_ix(r, ins.len())?; s.uentry(&ins[i].0, ins[i].1)
}
pub fn utxo_coin_edge(s: &mut Scen, r: &mut Rng) -> bool {
    if !shelley(s) { return false }
    let Some(p) = pick_input_utxo(s, r) else { return false };
    let Some(mut o) = parse_out(&s.utxo[p].out) else { return false };
    o.coin = match r.below(3) { 0 => edge_amount(r), 1 => o.coin.wrapping_add(1), _ => o.coin.wrapping_sub(1) };
    s.utxo[p].out = enc_out(&o); true
}
pub fn utxo_assets_edge(s: &mut Scen, r: &mut Rng) -> bool {
    if !shelley(s) { return false }
    let Some(p) = pick_input_utxo(s, r) else { return false };
    let Some(mut o) = parse_out(&s.utxo[p].out) else { return false };
    let pol = known_policies(s);
    edit_assets(&mut o.assets, r, &pol);
    s.utxo[p].out = enc_out(&o); true
}
pub fn utxo_addr_edge(s: &mut Scen, r: &mut Rng) -> bool {
    if !shelley(s) { return false }
    let Some(p) = pick_input_utxo(s, r) else { return false };
    let Some(mut o) = parse_out(&s.utxo[p].out) else { return false };
    match r.below(5) {
        0 => { if o.addr.is_empty() { return false } o.addr[0] ^= 0x10 }          // key <-> script
        1 => o.addr = vec![],
        2 => { let n = r.below(29) as usize; o.addr.truncate(n) }
        3 => o.addr = hex::decode(BYRON_ADDR).unwrap(),
        _ => { if o.addr.len() < 29 { return false } let k = 1 + r.below(28) as usize; o.addr[k] ^= 1 }   // other key hash
    }
    s.utxo[p].out = enc_out(&o); true
}
pub fn utxo_wrong_era(s: &mut Scen, r: &mut Rng) -> bool {
    if !shelley(s) { return false }
    let Some(p) = pick_input_utxo(s, r) else { return false };
    let Some(mut o) = parse_out(&s.utxo[p].out) else { return false };
    let era = *r.pick(&[Era::Byron, Era::Shelley, Era::Mary, Era::Alonzo, Era::Babbage, Era::Conway]);
    match era {
        Era::Byron => {
            // [[#6.24(bytes), crc], amount]
            let a = hex::decode(BYRON_ADDR).unwrap();
            s.utxo[p].out = c_array(&[a, c_uint(o.coin)]);
        }
        Era::Shelley | Era::Mary | Era::Alonzo => {
            o.legacy = true; o.sref = None;
            if let Some(d) = &o.datum { if as_bytes(d).is_none() { o.datum = None } }
            s.utxo[p].out = enc_out(&o);
        }
        _ => { s.utxo[p].out = enc_out(&o); }
    }
    s.utxo[p].era = era; true
}
pub fn utxo_datum_edge(s: &mut Scen, r: &mut Rng) -> bool {
    if !s.has_scripts_era() { return false }
    let Some(p) = pick_input_utxo(s, r) else { return false };
    let Some(mut o) = parse_out(&s.utxo[p].out) else { return false };
    let h = c_bytes(&r.bytes(32));
    o.datum = if o.datum.is_some() { None } else if o.legacy { Some(h) } else { Some(c_array(&[c_uint(0), h])) };
    s.utxo[p].out = enc_out(&o); true
}

// ---------------------------------------------------------------- environment
pub fn slot_edge(s: &mut Scen, r: &mut Rng) -> bool {
    let ttl = s.get(3).and_then(|v| as_u64(v)); let vs = s.get(8).and_then(|v| as_u64(v));
    s.env.slot = match r.below(7) {
        0 => 0, 1 => u64::MAX, 2 => ttl.unwrap_or(5), 3 => ttl.unwrap_or(5).wrapping_add(1),
        4 => vs.unwrap_or(5), 5 => vs.unwrap_or(5).wrapping_sub(1), _ => r.edge_u64(),
    };
    true
}
pub fn env_netid(s: &mut Scen, r: &mut Rng) -> bool { s.env.netid = match r.below(3) { 0 => 0, 1 => 1, _ => r.byte() }; true }
pub fn env_magic(s: &mut Scen, r: &mut Rng) -> bool { s.env.magic = *r.pick(&[1u32, 2, 764824073, 0]); true }
pub fn env_acnt(s: &mut Scen, _r: &mut Rng) -> bool { s.env.acnt = if s.env.acnt.is_some() { None } else { Some((1, 1)) }; true }
pub fn pp_edge(s: &mut Scen, r: &mut Rng) -> bool {
    let e32 = edge_u32(r); let e64 = edge_amount(r); let which = r.below(12);
    macro_rules! post_shelley { ($p:ident) => { match which {
        0 => $p.minfee_a = e32, 1 => $p.minfee_b = e32, 2 => $p.max_transaction_size = *r.pick(&[0u32, 1, 100, 16384, u32::MAX]),
        3 => $p.ada_per_utxo_byte = e64, 4 => $p.max_value_size = *r.pick(&[0u32, 1, 10, 5000, u32::MAX]),
        5 => $p.collateral_percentage = e32, 6 => $p.max_collateral_inputs = *r.pick(&[0u32, 1, 3, u32::MAX]),
        7 => { $p.max_tx_ex_units.mem = e64 } 8 => { $p.max_tx_ex_units.steps = e64 }
        9 => { $p.minfee_a = u32::MAX; $p.minfee_b = u32::MAX } 10 => $p.ada_per_utxo_byte = *r.pick(&[0u64, 1, 4310, 1 << 56, 1 << 57, u64::MAX / 160]),
        _ => $p.collateral_percentage = *r.pick(&[0u32, 100, 150, 151, 1 << 20]),
    } } }
    match &mut s.env.pp {
        PP::Byron(p) => match which % 4 { 0 => p.summand = e64, 1 => p.multiplier = e64, 2 => p.max_tx_size = *r.pick(&[0u64, 1, 100, 4096, u64::MAX]), _ => { p.summand = u64::MAX; p.multiplier = 1 << 60 } },
        PP::Shelley(p) => match which % 8 {
            0 => p.minfee_a = e32, 1 => p.minfee_b = e32, 2 => p.max_transaction_size = *r.pick(&[0u32, 1, 100, 16384, u32::MAX]),
            3 => p.min_utxo_value = e64, 4 => p.key_deposit = e64, 5 => p.pool_deposit = e64, 6 => { p.minfee_a = u32::MAX; p.minfee_b = u32::MAX }
            _ => p.min_utxo_value = *r.pick(&[0u64, 26, 27, 1_000_000, 27 << 57, u64::MAX]),
        },
        PP::Alonzo(p) => post_shelley!(p),
        PP::Babbage(p) => post_shelley!(p),
        PP::Conway(p) => post_shelley!(p),
        _ => return false,
    }
    true
}

// ---------------------------------------------------------------- re-sign
/// Replace the key witnesses by one witness of a fresh key over the *current* body and lock every
/// key-locked input / collateral UTxO entry with that key. Apply last.
pub fn resign(s: &mut Scen, r: &mut Rng) -> bool {
    if !shelley(s) { return false }
    let mut seed = [0u8; 32]; seed.copy_from_slice(&r.bytes(32));
    let sk = SecretKey::from(seed);
    let pk = sk.public_key().as_ref().to_vec();
    let kh = Hasher::<224>::hash(&pk).to_vec();
    let mut refs = s.inputs().1;
    if let Some((_, l)) = s.inlist(13) { refs.extend(l) }
    for (h, ix) in refs {
        if let Some(p) = s.uentry(&h, ix) {
            if let Some(mut o) = parse_out(&s.utxo[p].out) {
                if o.addr.len() >= 29 && (o.addr[0] >> 4) < 8 && (o.addr[0] >> 4) & 1 == 0 {
                    o.addr[1..29].copy_from_slice(&kh);
                    s.utxo[p].out = enc_out(&o);
                }
            }
        }
    }
    // required signers must have a witness over the new body too: they become the fresh key
    // (phase-1 validation does not run the scripts that asked for them)
    if let Some(raw) = s.get(14).cloned() {
        let (tag, _) = untag(&raw);
        let a = c_array(&[c_bytes(&kh)]);
        s.put(14, if tag.is_some() { c_tag(258, &a) } else { a });
    }
    let body_hash = Hasher::<256>::hash(&s.body_bytes());
    let sig = sk.sign(body_hash.as_ref()).as_ref().to_vec();
    let (t, old) = vkeys(s);
    // keep the other witnesses' keys only where a native script may need them: drop them all (simplest, sound)
    let _ = old;
    set_vkeys(s, t, &[(pk, sig)]); true
}

// ---------------------------------------------------------------- Byron
fn bparts(s: &mut Scen) -> Option<&mut byron::Tx> { s.btx.as_mut() }
pub fn b_ins_empty(s: &mut Scen, _r: &mut Rng) -> bool { let Some(t) = bparts(s) else { return false }; t.inputs = pallas_codec::utils::MaybeIndefArray::Def(vec![]); true }
pub fn b_outs_empty(s: &mut Scen, _r: &mut Rng) -> bool { let Some(t) = bparts(s) else { return false }; t.outputs = pallas_codec::utils::MaybeIndefArray::Def(vec![]); true }
pub fn b_out_amount(s: &mut Scen, r: &mut Rng) -> bool {
    let e = edge_amount(r); let k = r.below(3);
    let Some(t) = bparts(s) else { return false };
    let mut o = t.outputs.clone().to_vec(); if o.is_empty() { return false }
    let i = (e as usize) % o.len();
    o[i].amount = match k { 0 => e, 1 => o[i].amount.wrapping_add(1), _ => 0 };
    t.outputs = pallas_codec::utils::MaybeIndefArray::Def(o); true
}
pub fn b_out_add(s: &mut Scen, r: &mut Rng) -> bool {
    let e = if r.chance(1, 2) { edge_amount(r) } else { r.range(1, 1_000_000) };
    let Some(t) = bparts(s) else { return false };
    let mut o = t.outputs.clone().to_vec(); if o.is_empty() { return false }
    let mut n = o[0].clone(); n.amount = e; o.push(n);
    t.outputs = pallas_codec::utils::MaybeIndefArray::Def(o); true
}
fn b_utxo_of_input(s: &Scen, r: &mut Rng) -> Option<usize> {
    let t = s.btx.as_ref()?; let ins = t.inputs.clone().to_vec(); let i = pick_ix(r, ins.len())?;
    match &ins[i] { byron::TxIn::Variant0(w) => s.uentry(w.0 .0.as_ref(), w.0 .1 as u64), _ => None }
}
pub fn b_utxo_amount(s: &mut Scen, r: &mut Rng) -> bool {
    let Some(p) = b_utxo_of_input(s, r) else { return false };
    let Some(it) = arr_items(&s.utxo[p].out) else { return false };
    let a = as_u64(&it[1]).unwrap_or(0);
    let v = match r.below(4) { 0 => edge_amount(r), 1 => a.wrapping_sub(1), 2 => a / 2, _ => r.below(400_000) };
    s.utxo[p].out = c_array(&[it[0].clone(), c_uint(v)]); true
}
pub fn b_utxo_remove(s: &mut Scen, r: &mut Rng) -> bool { let Some(p) = b_utxo_of_input(s, r) else { return false }; s.utxo.remove(p); true }
pub fn b_in_add(s: &mut Scen, r: &mut Rng) -> bool {
    if s.btx.is_none() { return false }
    // a second input spending a copy of the first UTxO entry (same address, so the same witness redeems it)
    let Some(p) = b_utxo_of_input(s, r) else { return false };
    let mut e = s.utxo[p].clone(); e.hash = r.bytes(32); e.ix = r.below(3);
    if r.chance(1, 2) { if let Some(it) = arr_items(&e.out) { e.out = c_array(&[it[0].clone(), c_uint(edge_amount(r))]) } }
    let h: pallas_crypto::hash::Hash<32> = e.hash.as_slice().into();
    let present = r.chance(3, 4);
    let t = s.btx.as_mut().unwrap();
    let mut ins = t.inputs.clone().to_vec();
    ins.push(byron::TxIn::Variant0(pallas_codec::utils::CborWrap((h, e.ix as u32))));
    t.inputs = pallas_codec::utils::MaybeIndefArray::Def(ins);
    if present { s.utxo.push(e) }
    true
}
pub fn b_utxo_addr(s: &mut Scen, r: &mut Rng) -> bool {
    let Some(p) = b_utxo_of_input(s, r) else { return false };
    let Some(it) = arr_items(&s.utxo[p].out) else { return false };
    let Some(ad) = arr_items(&it[0]) else { return false };
    let (_, wrapped) = untag(&ad[0]);
    let Some(payload) = as_bytes(wrapped) else { return false };
    let newp: Vec<u8> = match r.below(4) {
        0 => r.bytes(10),                                     // undecodable payload
        1 | 2 => { // change the address type: [root, attrs, type]
            let Some(mut pi) = arr_items(&payload) else { return false }; if pi.len() != 3 { return false }
            pi[2] = c_uint(*r.pick(&[0u64, 1, 2, 3, 7])); c_array(&pi) }
        _ => { let Some(mut pi) = arr_items(&payload) else { return false }; if pi.len() != 3 { return false }
               pi[0] = c_bytes(&r.bytes(28)); c_array(&pi) }
    };
    let na = c_array(&[c_tag(24, &c_bytes(&newp)), ad[1].clone()]);
    s.utxo[p].out = c_array(&[na, it[1].clone()]); true
}
pub fn b_wit_len(s: &mut Scen, r: &mut Rng) -> bool {
    if s.btx.is_none() { return false }
    let Some(i) = pick_ix(r, s.bwits.len()) else { return false };
    let pk_side = r.chance(1, 2);
    let n = if pk_side { *r.pick(&[0usize, 1, 31, 32, 33, 63, 65]) } else { *r.pick(&[0usize, 1, 63, 65, 128]) };
    let edit = |w: &mut pallas_codec::utils::CborWrap<(byron::PubKey, byron::Signature)>| {
        let (mut pk, mut sg): (Vec<u8>, Vec<u8>) = (w.0 .0.to_vec(), w.0 .1.to_vec());
        if pk_side { pk.resize(n, 0xAB) } else { sg.resize(n, 0xCD) }
        w.0 = (pk.into(), sg.into());
    };
    match &mut s.bwits[i] { byron::Twit::PkWitness(w) => edit(w), byron::Twit::RedeemWitness(w) => edit(w), _ => return false }
    true
}
pub fn b_wit_flip(s: &mut Scen, r: &mut Rng) -> bool {
    if s.btx.is_none() { return false }
    let Some(i) = pick_ix(r, s.bwits.len()) else { return false };
    let k = r.below(64) as usize; let bit = 1u8 << r.below(8);
    match &mut s.bwits[i] {
        byron::Twit::PkWitness(w) | byron::Twit::RedeemWitness(w) => { let mut sg = w.0 .1.to_vec(); if sg.len() <= k { return false } sg[k] ^= bit; w.0 .1 = sg.into() }
        _ => return false,
    }
    true
}
pub fn b_wit_remove(s: &mut Scen, r: &mut Rng) -> bool {
    if s.btx.is_none() { return false }
    let Some(i) = pick_ix(r, s.bwits.len()) else { return false }; s.bwits.remove(i); true
}
pub fn b_wit_swap_kind(s: &mut Scen, r: &mut Rng) -> bool {
    if s.btx.is_none() { return false }
    let Some(i) = pick_ix(r, s.bwits.len()) else { return false };
    s.bwits[i] = match s.bwits[i].clone() { byron::Twit::PkWitness(w) => byron::Twit::RedeemWitness(w), byron::Twit::RedeemWitness(w) => byron::Twit::PkWitness(w), o => o };
    true
}

// ---------------------------------------------------------------- targeted: sums that leave the integer range
/// the same (policy, asset) with two quantities whose sum leaves u64 / i64, placed in two outputs,
/// two spent UTxO entries, or a spent entry and the mint field
pub fn asset_pair_overflow(s: &mut Scen, r: &mut Rng) -> bool {
    if !shelley(s) || matches!(s.fam, Fam::AC(Era::Shelley) | Fam::AC(Era::Allegra)) { return false }
    let (q1, q2): (u64, u64) = *r.pick(&[(1u64 << 63, 1u64 << 63), (u64::MAX, 1), ((1u64 << 63) - 1, 1), ((1u64 << 63) - 1, (1u64 << 63) - 1), (u64::MAX, u64::MAX), (1u64 << 62, 1u64 << 62), (0, 5), (0, 0)]);
    let p = r.bytes(28); let n = rb(r, 0, 4);
    let one = |q: u64| Some(vec![(p.clone(), vec![(n.clone(), q)])]);
    match r.below(3) {
        0 => { // two outputs
            let mut o = s.outputs(); if o.is_empty() { return false }
            let mut x = o[0].clone(); x.assets = one(q1); x.coin = 2_000_000; x.datum = None; x.sref = None;
            let mut y = x.clone(); y.assets = one(q2);
            if r.chance(1, 2) { x.legacy = !s.is_post_alonzo() || r.chance(1, 2); y.legacy = x.legacy }
            o.push(x); o.push(y); s.set_outputs(&o);
        }
        1 => { // two spent entries
            let a = some_key_addr(s);
            let (h1, i1) = fresh_utxo(s, r, 2_000_000, a.clone(), one(q1));
            let (h2, i2) = fresh_utxo(s, r, 2_000_000, a, one(q2));
            let (t, mut ins) = s.inputs(); ins.push((h1, i1)); ins.push((h2, i2)); s.set_inputs(t, &ins);
        }
        _ => { // spent entry + mint of the same asset
            let a = some_key_addr(s);
            let (h1, i1) = fresh_utxo(s, r, 2_000_000, a, one(q1));
            let (t, mut ins) = s.inputs(); ins.push((h1, i1)); s.set_inputs(t, &ins);
            let mut m = s.get(9).and_then(|m| parse_assets_i(m)).unwrap_or_default();
            let q: i128 = *r.pick(&[1i128, i64::MAX as i128, -1, i64::MIN as i128, q2.min(i64::MAX as u64) as i128]);
            m.push((p.clone(), vec![(n.clone(), q)]));
            s.put(9, enc_assets_i(&m));
        }
    }
    true
}
/// Byron: shorten/lengthen a witness key AND re-derive the spent address root from it, so that the
/// witness still redeems the input and the key reaches signature verification
pub fn b_wit_len_consistent(s: &mut Scen, r: &mut Rng) -> bool {
    use pallas_addresses::byron::{AddrType, AddressPayload, SpendingData};
    if s.btx.is_none() { return false }
    let Some(i) = pick_ix(r, s.bwits.len()) else { return false };
    let n = *r.pick(&[0usize, 1, 31, 33, 64]);
    let (pk, redeem) = match &mut s.bwits[i] {
        byron::Twit::PkWitness(w) => { let mut pk = w.0 .0.to_vec(); pk.resize(n, 0xAB); w.0 .0 = pk.clone().into(); (pk, false) }
        byron::Twit::RedeemWitness(w) => { let mut pk = w.0 .0.to_vec(); pk.resize(n, 0xAB); w.0 .0 = pk.clone().into(); (pk, true) }
        _ => return false,
    };
    let Some(p) = b_utxo_of_input(s, r) else { return false };
    let Some(it) = arr_items(&s.utxo[p].out) else { return false };
    let Some(ad) = arr_items(&it[0]) else { return false };
    let (_, wrapped) = untag(&ad[0]);
    let Some(payload) = as_bytes(wrapped) else { return false };
    let Ok(dec) = pallas_codec::minicbor::decode::<AddressPayload>(&payload) else { return false };
    let (ty, sd) = if redeem { (AddrType::Redeem, SpendingData::Redeem(pk.into())) } else { (AddrType::PubKey, SpendingData::PubKey(pk.into())) };
    let np = AddressPayload::new(ty, sd, dec.attributes.clone());
    let Ok(newp) = pallas_codec::minicbor::to_vec(&np) else { return false };
    let na = c_array(&[c_tag(24, &c_bytes(&newp)), ad[1].clone()]);
    s.utxo[p].out = c_array(&[na, it[1].clone()]); true
}

/// Shelley-MA, rule level: large deposit counters for check_preservation_of_value
pub fn sh_counts(s: &mut Scen, r: &mut Rng) -> bool {
    if !matches!(s.fam, Fam::AC(Era::Shelley) | Fam::AC(Era::Allegra) | Fam::AC(Era::Mary)) { return false }
    let e = |r: &mut Rng| match r.below(4) { 0 => 0, 1 => r.below(5), 2 => 1u64 << r.range(20, 63), _ => edge_amount(r) };
    s.counts = Some((e(r), e(r), e(r))); true
}
pub fn all_mutators() -> Vec<(&'static str, Mutator)> {
    vec![
        ("ins_empty", ins_empty as Mutator), ("ins_add_missing", ins_add_missing), ("ins_add_present", ins_add_present),
        ("utxo_remove_input", utxo_remove_input), ("utxo_clear", utxo_clear), ("ins_dup", ins_dup),
        ("ref_add_missing", ref_add_missing), ("ref_add_present", ref_add_present), ("coll_add_missing", coll_add_missing),
        ("outs_empty", outs_empty), ("out_coin_edge", out_coin_edge), ("out_assets_edge", out_assets_edge),
        ("out_empty_multiasset", out_empty_multiasset), ("out_many_assets", out_many_assets), ("out_addr_net", out_addr_net),
        ("out_addr_garbage", out_addr_garbage), ("out_legacy_toggle", out_legacy_toggle), ("out_add", out_add), ("out_datum_hash", out_datum_hash),
        ("fee_edge", fee_edge), ("ttl_edge", ttl_edge), ("vstart_edge", vstart_edge), ("netid_field", netid_field), ("mint_edge", mint_edge),
        ("aux_edge", aux_edge), ("aux_consistent", aux_consistent), ("sdh_edge", sdh_edge), ("reqsig_add", reqsig_add),
        ("coll_drop", coll_drop), ("coll_add_present", coll_add_present), ("coll_utxo_edge", coll_utxo_edge),
        ("total_coll_edge", total_coll_edge), ("coll_return_edge", coll_return_edge), ("legacy_zero_quantity", legacy_zero_quantity),
        ("wit_vkey_len", wit_vkey_len), ("wit_sig_flip", wit_sig_flip), ("wit_vkey_remove", wit_vkey_remove), ("wit_vkey_extra", wit_vkey_extra),
        ("wit_drop_entry", wit_drop_entry), ("wit_add_datum", wit_add_datum), ("wit_add_script", wit_add_script),
        ("redeemer_exunits", redeemer_exunits), ("redeemer_ptr", redeemer_ptr),
        ("utxo_coin_edge", utxo_coin_edge), ("utxo_assets_edge", utxo_assets_edge), ("utxo_addr_edge", utxo_addr_edge),
        ("utxo_wrong_era", utxo_wrong_era), ("utxo_datum_edge", utxo_datum_edge),
        ("slot_edge", slot_edge), ("env_netid", env_netid), ("env_magic", env_magic), ("env_acnt", env_acnt), ("pp_edge", pp_edge),
        ("b_ins_empty", b_ins_empty), ("b_outs_empty", b_outs_empty), ("b_out_amount", b_out_amount), ("b_out_add", b_out_add),
        ("b_utxo_amount", b_utxo_amount), ("b_utxo_remove", b_utxo_remove), ("b_in_add", b_in_add), ("b_utxo_addr", b_utxo_addr),
        ("asset_pair_overflow", asset_pair_overflow), ("cert_inject", super::vcert::cert_inject), ("cert_inject", super::vcert::cert_inject),
        ("cert_two_registrations", super::vcert::cert_two_registrations), ("cstate_edit", super::vcert::cstate_edit), ("cstate_edit", super::vcert::cstate_edit),
        ("acnt_edge", super::vcert::acnt_edge), ("cert_pp_edge", super::vcert::cert_pp_edge), ("cert_slot_edge", super::vcert::cert_slot_edge), ("cert_retire_edge", super::vcert::cert_retire_edge), ("mint_boundary", super::vm2::mint_boundary), ("mint_boundary", super::vm2::mint_boundary),
        ("qty_boundary", super::vm2::qty_boundary), ("native_script_inject", super::vm2::native_script_inject), ("native_script_inject", super::vm2::native_script_inject),
        ("addr_tiny", super::vm2::addr_tiny), ("addr_tiny", super::vm2::addr_tiny), ("empty_collection", super::vm2::empty_collection), ("empty_collection", super::vm2::empty_collection), ("cert_gendeleg_edge", super::vcert::cert_gendeleg_edge), ("sh_counts", sh_counts), ("b_wit_len_consistent", b_wit_len_consistent), ("b_wit_len", b_wit_len), ("b_wit_flip", b_wit_flip), ("b_wit_remove", b_wit_remove), ("b_wit_swap_kind", b_wit_swap_kind),
    ]
}
