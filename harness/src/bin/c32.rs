//! C32: slot / epoch / wall-clock conversions of pallas-traverse::time over
//! wellknown::GenesisValues.
//!
//! case := (mode, Some Network | None, genesis record, (slot, epoch, sub_slot),
//!          (absolute_slot_to_relative slot, relative_slot_to_absolute epoch sub_slot,
//!           slot_to_wallclock slot, relative_slot_to_absolute(absolute_slot_to_relative slot),
//!           shelley_start_epoch))
//!
//! Oracle (the property itself, on the four well-known networks, slots < 2^40):
//!   slot-in-epoch < slots per epoch of the slot's era; converting back gives the
//!   slot; wallclock(slot+1) = wallclock(slot) + slot length of the slot's era;
//!   wallclock strictly increasing on slot pairs.
use pallas_traverse::wellknown::GenesisValues;
use pallas_traverse::MultiEraBlock;
use std::collections::HashMap;
use verif_harness::*;

const KEY_BYRON: &str = "byron-slot-mod-epoch-length-ge-slots-per-epoch";
const KEY_TESTNET: &str = "testnet-wallclock-step-1598399-1598400";
const LIMIT: u64 = 1 << 40;

fn panic_code(msg: &str) -> i64 {
    if msg.contains("with overflow") { 1 }
    else if msg.contains("divide by zero") || msg.contains("divisor of zero") { 2 }
    else if msg.contains("epoch length needs to be greater than zero") { 3 }
    else { 99 }
}

fn out_z(o: &Out<u64>) -> String {
    match o { Out::Ok(v) => format!("(Ok {})", v), Out::Err(_) => "(Err 0)".into(), Out::Panic(m) => format!("(Panic {})", panic_code(m)) }
}
fn out_pair(o: &Out<(u64, u64)>) -> String {
    match o { Out::Ok((a, b)) => format!("(Ok ({},{}))", a, b), Out::Err(_) => "(Err 0)".into(), Out::Panic(m) => format!("(Panic {})", panic_code(m)) }
}

fn coq_genesis(g: &GenesisValues) -> String {
    // numeric fields in the declaration order of struct GenesisValues
    format!("(mk_genesis {} {} {} {} {} {} {} {} {} {})", g.magic, g.network_id, g.byron_epoch_length, g.byron_slot_length,
        g.byron_known_slot, g.byron_known_time, g.shelley_epoch_length, g.shelley_slot_length, g.shelley_known_slot, g.shelley_known_time)
}

struct Ctx { mode: &'static str, oracle_only: bool, per_key: HashMap<String, u64>, oracle_evals: u64 }

impl Ctx {
    fn fail(&mut self, key: &str, text: String) {
        let c = self.per_key.entry(key.to_string()).or_insert(0);
        *c += 1;
        if *c <= 25 { emit_oracle_fail(key, &text); }
    }

    /// The property's predicate on one slot of a well-known network (implementation only).
    fn oracle_slot(&mut self, net: &str, g: &GenesisValues, slot: u64) {
        self.oracle_evals += 1;
        let byron = slot < g.shelley_known_slot;
        let (el, sl) = if byron { (g.byron_epoch_length as u64, g.byron_slot_length as u64) }
                       else { (g.shelley_epoch_length as u64, g.shelley_slot_length as u64) };
        let spe = el / sl;
        let in_byron_class = byron && slot % (g.byron_epoch_length as u64) >= spe;
        let kb = |other: &str| -> String { if in_byron_class { KEY_BYRON.to_string() } else { format!("{}:{}", other, net) } };
        match guard_total(|| g.absolute_slot_to_relative(slot)) {
            Out::Ok((e, r)) => {
                if r >= spe {
                    self.fail(&kb("slot-in-epoch-bound"), format!("net={} slot={} absolute_slot_to_relative=({},{}) slot-in-epoch >= slots per epoch {}", net, slot, e, r, spe));
                }
                match guard_total(|| g.relative_slot_to_absolute(e, r)) {
                    Out::Ok(back) => if back != slot {
                        self.fail(&kb("roundtrip"), format!("net={} slot={} absolute_slot_to_relative=({},{}) relative_slot_to_absolute={} expected {}", net, slot, e, r, back, slot));
                    },
                    Out::Panic(m) => self.fail(&kb("panic-rel-to-abs"), format!("net={} slot={} relative_slot_to_absolute({},{}) panicked: {}", net, slot, e, r, m)),
                    Out::Err(_) => {}
                }
            }
            Out::Panic(m) => self.fail(&kb("panic-abs-to-rel"), format!("net={} slot={} absolute_slot_to_relative panicked: {}", net, slot, m)),
            Out::Err(_) => {}
        }
        let w0 = guard_total(|| g.slot_to_wallclock(slot));
        let w1 = guard_total(|| g.slot_to_wallclock(slot + 1));
        match (&w0, &w1) {
            (Out::Ok(a), Out::Ok(b)) => {
                if *b != a.wrapping_add(sl) {
                    let key = if net == "testnet" && slot == 1598399 { KEY_TESTNET.to_string() } else { format!("wallclock-step:{}", net) };
                    self.fail(&key, format!("net={} wallclock({})={} wallclock({})={} expected an advance of {} s", net, slot, a, slot + 1, b, sl));
                }
            }
            _ => self.fail(&format!("panic-wallclock:{}", net), format!("net={} slot={} slot_to_wallclock panicked", net, slot)),
        }
    }

    /// strict monotonicity on a pair s1 < s2
    fn oracle_pair(&mut self, net: &str, g: &GenesisValues, s1: u64, s2: u64) {
        self.oracle_evals += 1;
        let a = guard_total(|| g.slot_to_wallclock(s1));
        let b = guard_total(|| g.slot_to_wallclock(s2));
        if let (Out::Ok(a), Out::Ok(b)) = (&a, &b) {
            if !(a < b) {
                let key = if net == "testnet" && s1 <= 1598399 && 1598399 < s2 { KEY_TESTNET.to_string() } else { format!("wallclock-order:{}", net) };
                self.fail(&key, format!("net={} wallclock({})={} is not below wallclock({})={}", net, s1, a, s2, b));
            }
            let same_era = (s1 < g.shelley_known_slot) == (s2 < g.shelley_known_slot);
            if same_era {
                let sl = if s1 < g.shelley_known_slot { g.byron_slot_length } else { g.shelley_slot_length } as u64;
                if b.wrapping_sub(*a) != (s2 - s1).wrapping_mul(sl) {
                    self.fail(&format!("wallclock-linear:{}", net), format!("net={} wallclock({})={} wallclock({})={} slot length {}", net, s1, a, s2, b, sl));
                }
            }
        } else {
            self.fail(&format!("panic-wallclock:{}", net), format!("net={} slot_to_wallclock panicked on {} or {}", net, s1, s2));
        }
    }

    fn case(&mut self, tag: &str, net: Option<&str>, g: &GenesisValues, slot: u64, e: u64, s: u64) {
        if self.oracle_only { return; }
        let rel = guard_total(|| g.absolute_slot_to_relative(slot));
        let abs = guard_total(|| g.relative_slot_to_absolute(e, s));
        let wall = guard_total(|| g.slot_to_wallclock(slot));
        let back = match &rel {
            Out::Ok((e2, r2)) => { let (e2, r2) = (*e2, *r2); guard_total(|| g.relative_slot_to_absolute(e2, r2)) }
            Out::Panic(m) => Out::Panic(m.clone()),
            Out::Err(x) => Out::Err(x.clone()),
        };
        let sse = guard_total(|| g.shelley_start_epoch());
        let n = match net { Some(n) => { let mut c = n.chars(); format!("(Some {}{})", c.next().unwrap().to_uppercase(), c.as_str()) } None => "None".into() };
        emit_case(tag, &format!("({},{},{},({},{},{}),({},{},{},{},{}))", self.mode, n, coq_genesis(g), slot, e, s,
            out_pair(&rel), out_z(&abs), out_z(&wall), out_z(&back), out_z(&sse)));
    }
}

/// (epoch, sub-slot) argument for relative_slot_to_absolute: mostly around what the forward map gives.
fn pick_rel(rng: &mut Rng, g: &GenesisValues, slot: u64) -> (u64, u64) {
    let base = match guard_total(|| g.absolute_slot_to_relative(slot)) { Out::Ok(p) => p, _ => (rng.below(500), rng.below(500_000)) };
    match rng.below(6) {
        0 => base,
        1 => (base.0.wrapping_add(1), 0),
        2 => (base.0.saturating_sub(1), base.1),
        3 => (rng.below(600), rng.below(432_000)),
        4 => (match guard_total(|| g.shelley_start_epoch()) { Out::Ok(e) => e.wrapping_add(rng.below(3)).wrapping_sub(1), _ => 0 }, rng.below(30_000)),
        _ => (rng.edge_u64(), rng.edge_u64()),
    }
}

fn boundary_slots(g: &GenesisValues) -> Vec<u64> {
    let mut v: Vec<u64> = vec![0, 1, 2, 19, 20, 21, LIMIT - 2, LIMIT - 1];
    let sks = g.shelley_known_slot;
    let bel = g.byron_epoch_length as u64;
    let bsl = (g.byron_slot_length as u64).max(1);
    let sel = (g.shelley_epoch_length as u64).max(1);
    let ssl = (g.shelley_slot_length as u64).max(1);
    let bspe = (bel / bsl).max(1);
    let sspe = (sel / ssl).max(1);
    let near = |v: &mut Vec<u64>, x: u64| { for d in [-2i64, -1, 0, 1, 2] { let y = x as i64 + d; if y >= 0 && (y as u64) < LIMIT { v.push(y as u64); } } };
    near(&mut v, sks);
    for k in [1u64, 2, 3, 19, 20, 21, 40, 73, 74, 207, 208] {
        near(&mut v, k * bspe);          // true Byron epoch boundaries
        near(&mut v, k * bel);           // multiples of the epoch length in seconds
        near(&mut v, sks + k * sspe);    // Shelley epoch boundaries
    }
    near(&mut v, sks.saturating_sub(bspe));
    // points asserted by the crate's own tests
    v.extend_from_slice(&[2160007, 4492800, 51580240, 54605026, 1031, 561595, 1598400, 48783593, 27680, 27556036, 86400, 38580791, 21600]);
    v.sort(); v.dedup(); v
}

fn random_slot(rng: &mut Rng, g: &GenesisValues) -> (u64, &'static str) {
    let sks = g.shelley_known_slot;
    let bspe = ((g.byron_epoch_length / g.byron_slot_length.max(1)) as u64).max(1);
    let sel = (g.shelley_epoch_length as u64).max(1);
    match rng.below(7) {
        0 => (rng.below(LIMIT), "uniform-2^40"),
        1 if sks > 0 => (rng.below(sks), "byron-uniform"),
        2 if sks > 0 => { let k = rng.below((sks / bspe).saturating_add(1)); (k.saturating_mul(bspe).saturating_add(rng.below(5)).saturating_sub(2).min(LIMIT - 1), "byron-epoch-boundary") }
        3 => { let k = rng.below(700); (sks.saturating_add(k * sel + rng.below(5)).saturating_sub(2).min(LIMIT - 1), "shelley-epoch-boundary") }
        4 => (sks.saturating_add(rng.below(200)).saturating_sub(100), "era-boundary"),
        5 => (sks.saturating_add(rng.below(400_000_000)), "shelley-uniform"),
        _ => { let k = rng.range(1, 40); (rng.below(1u64 << k), "log-uniform") }
    }
}

fn random_genesis(rng: &mut Rng) -> (GenesisValues, &'static str) {
    let mut g = GenesisValues::mainnet();
    g.magic = rng.below(1 << 32);
    g.network_id = rng.below(2);
    let wf = !rng.chance(1, 4);
    if wf {
        let sls = [1u32, 1, 2, 5, 20, 20, 60, 1000];
        g.byron_slot_length = *rng.pick(&sls);
        g.shelley_slot_length = *rng.pick(&sls);
        let bspe = rng.range(1, 30000) as u32;
        let sspe = rng.range(1, 500000) as u32;
        g.byron_epoch_length = g.byron_slot_length * bspe;
        g.shelley_epoch_length = g.shelley_slot_length * sspe;
        g.shelley_known_slot = rng.below(300) * bspe as u64;
        g.byron_known_slot = if rng.chance(1, 5) { rng.below(g.shelley_known_slot + 1) } else { 0 };
        g.byron_known_time = rng.below(1 << 31);
        g.shelley_known_time = if rng.bool() { g.byron_known_time + (g.shelley_known_slot - g.byron_known_slot) * g.byron_slot_length as u64 } else { rng.below(1 << 32) };
        (g, "generated-wf")
    } else {
        let small = |rng: &mut Rng| -> u32 { match rng.below(5) { 0 => 0, 1 => 1, 2 => rng.below(100) as u32, 3 => rng.next() as u32, _ => u32::MAX - rng.below(2) as u32 } };
        g.byron_slot_length = small(rng);
        g.byron_epoch_length = small(rng);
        g.shelley_slot_length = small(rng);
        g.shelley_epoch_length = small(rng);
        g.shelley_known_slot = if rng.bool() { rng.below(1 << 24) } else { rng.edge_u64() };
        g.byron_known_slot = if rng.bool() { 0 } else { rng.edge_u64() };
        g.byron_known_time = if rng.bool() { rng.below(1 << 32) } else { rng.edge_u64() };
        g.shelley_known_time = if rng.bool() { rng.below(1 << 32) } else { rng.edge_u64() };
        (g, "generated-malformed")
    }
}

fn repo_root() -> String {
    // the harness' Cargo.toml names the repository under test in its path dependencies
    let manifest = std::path::Path::new(env!("CARGO_MANIFEST_DIR")).join("Cargo.toml");
    if let Ok(t) = std::fs::read_to_string(manifest) {
        for line in t.lines() {
            if line.starts_with("pallas-traverse") {
                if let Some(i) = line.find("path = \"") {
                    let rest = &line[i + 8..];
                    if let Some(j) = rest.find("/pallas-traverse\"") { return rest[..j].to_string(); }
                }
            }
        }
    }
    "/repo".into()
}

fn main() {
    let args = args();
    let mut rng = Rng::new(args.seed);
    let thorough = args.tier == "thorough";
    // build mode: do u64 overflows panic in this build?
    let checked = matches!(guard_total(|| std::hint::black_box(u64::MAX) + std::hint::black_box(1u64)), Out::Panic(_));
    let mut cx = Ctx { mode: if checked { "Debug" } else { "Release" }, oracle_only: args.oracle_only, per_key: HashMap::new(), oracle_evals: 0 };

    let nets: Vec<(&str, GenesisValues)> = vec![
        ("mainnet", GenesisValues::mainnet()), ("testnet", GenesisValues::testnet()),
        ("preview", GenesisValues::preview()), ("preprod", GenesisValues::preprod()),
    ];
    // from_magic / default agree with the constructors (oracle only: the tie compares the records)
    for (name, g) in &nets {
        match GenesisValues::from_magic(g.magic) {
            Some(h) if coq_genesis(&h) == coq_genesis(g) => {}
            _ => cx.fail(&format!("from-magic:{}", name), format!("from_magic({}) is not {}()", g.magic, name)),
        }
    }

    // 1. deterministic boundary slots of every well-known network
    for (name, g) in &nets {
        for slot in boundary_slots(g) {
            cx.oracle_slot(name, g, slot);
            let (e, s) = pick_rel(&mut rng, g, slot);
            cx.case("boundary", Some(name), g, slot, e, s);
        }
        let sks = g.shelley_known_slot;
        if sks > 0 {
            for (a, b) in [(sks - 1, sks), (sks - 1, sks + 1), (0, sks), (sks - 1, sks + 20), (sks - 1, LIMIT - 1)] { cx.oracle_pair(name, g, a, b); }
        }
        cx.oracle_pair(name, g, 0, 1);
        cx.oracle_pair(name, g, sks, sks + 1);
    }
    emit_sample("mainnet slot 21600 -> absolute_slot_to_relative, and back; testnet wallclock 1598399, 1598400");

    // 2. dense oracle-only sweeps through the implementation (no model): around the era
    //    boundary and over the first Byron epochs of every network
    let span: u64 = if thorough { 2_000_000 } else { 60_000 };
    for (name, g) in &nets {
        let sks = g.shelley_known_slot;
        let lo = sks.saturating_sub(span);
        for slot in lo..sks + span { cx.oracle_slot(name, g, slot); }
        for slot in 0..span.min(sks) { cx.oracle_slot(name, g, slot); }
        for slot in (LIMIT - span / 10)..LIMIT { cx.oracle_slot(name, g, slot); }
    }

    // 3. random slots on the well-known networks (oracle + tie), random pairs (oracle)
    for i in 0..args.n {
        let (name, g) = &nets[rng.below(4) as usize];
        let (slot, tag) = random_slot(&mut rng, g);
        cx.oracle_slot(name, g, slot);
        let (e, s) = pick_rel(&mut rng, g, slot);
        if i < 3 { emit_sample(&format!("net={} slot={} rel-query=({},{})", name, slot, e, s)); }
        cx.case(tag, Some(name), g, slot, e, s);
        let (s2, _) = random_slot(&mut rng, g);
        if s2 != slot { cx.oracle_pair(name, g, slot.min(s2), slot.max(s2)); }
        let d = 1 + rng.below(50_000);
        if slot + d < LIMIT { cx.oracle_pair(name, g, slot, slot + d); }
    }

    // 4. generated genesis records and out-of-range slots: tie only (the property speaks
    //    about the well-known networks; these pin the arithmetic, the panics and the wrap-around)
    for _ in 0..args.n / 2 {
        let (g, tag) = random_genesis(&mut rng);
        let slot = match rng.below(4) { 0 => rng.edge_u64(), 1 => rng.below(LIMIT), _ => random_slot(&mut rng, &g).0 };
        let (e, s) = pick_rel(&mut rng, &g, slot);
        cx.case(tag, None, &g, slot, e, s);
    }
    for _ in 0..args.n / 8 {
        let (name, g) = &nets[rng.below(4) as usize];
        let slot = match rng.below(3) { 0 => rng.edge_u64(), 1 => u64::MAX / 20 - 5 + rng.below(10), _ => LIMIT + rng.below(u64::MAX - LIMIT) };
        let (e, s) = (rng.edge_u64(), rng.edge_u64());
        cx.case("huge-slot", Some(name), g, slot, e, s);
    }

    // 5. block-level entry points delegate to the genesis functions (oracle only)
    let td = format!("{}/test_data", repo_root());
    let mut blocks = 0u64;
    if let Ok(rd) = std::fs::read_dir(&td) {
        let mut files: Vec<_> = rd.filter_map(|e| e.ok()).map(|e| e.path()).filter(|p| p.extension().map(|x| x == "block").unwrap_or(false)).collect();
        files.sort();
        let g = GenesisValues::mainnet();
        for p in files {
            let Ok(txt) = std::fs::read_to_string(&p) else { continue };
            let Ok(bytes) = hex::decode(txt.trim()) else { continue };
            let r = guard_total(|| {
                let Ok(b) = MultiEraBlock::decode(&bytes) else { return None };
                let shelley_on = !matches!(b, MultiEraBlock::Byron(_) | MultiEraBlock::EpochBoundary(_));
                Some((shelley_on, b.slot(), b.epoch(&g), b.wallclock(&g)))
            });
            if let Out::Ok(Some((shelley_on, slot, ep, wc))) = r {
                blocks += 1;
                cx.oracle_evals += 1;
                if shelley_on && guard_total(|| g.absolute_slot_to_relative(slot) == ep).ok_or(false) != true {
                    cx.fail("block-epoch", format!("{}: MultiEraBlock::epoch = {:?} differs from absolute_slot_to_relative({})", p.display(), ep, slot));
                }
                if guard_total(|| g.slot_to_wallclock(slot) == wc).ok_or(false) != true {
                    cx.fail("block-wallclock", format!("{}: MultiEraBlock::wallclock = {} differs from slot_to_wallclock({})", p.display(), wc, slot));
                }
            }
        }
    }
    emit_stat("test_data_blocks", blocks);
    emit_stat("slots_and_pairs_oracle", cx.oracle_evals);
    let ks: Vec<(String, u64)> = cx.per_key.iter().map(|(k, v)| (k.clone(), *v)).collect();
    for (k, v) in ks { emit_stat(&format!("oracle_fail[{}]", k), v); }
}

trait OkOr<T> { fn ok_or(self, d: T) -> T; }
impl<T> OkOr<T> for Out<T> { fn ok_or(self, d: T) -> T { match self { Out::Ok(v) => v, _ => d } } }
