#!/usr/bin/env python3
"""C23 translator: pallas-network/src/miniprotocols/*/{client,server}.rs -> Generated/AgentTables.v

For every agent file that defines `fn has_agency`, the three decision functions are parsed and
evaluated (first-match semantics) on every state class / message class:

   has_agency            : state -> bool
   assert_outbound_state : state x message -> bool   (true = Ok(()))
   assert_inbound_state  : state x message -> bool

`enum State` / `enum Message` are read from the protocol's protocol.rs (or the agent file); a
message variant whose first field is `bool` (or an alias, e.g. `Blocking`) is split in
`V(true)` / `V(false)`. The initial state is read from `pub fn new`.

Accepted grammar (anything else -> exit 1 with a message; never guesses):
   has_agency  : match <self.state() | &self.0 | &self.state | self.0 | self.state> { SP => true|false, ... }
               | [!] matches!(<scrutinee>, SP)
   SP          : State::A [(..)] ( '|' State::B [(..)] )*  |  _
   out/inbound : match (<&self.0 | &self.state | self.state()>, msg) { (SP, MP) => Ok(()) | Err(..), ... , _ => Err(..) }
   MP          : Message::X [(args) | {fields}] ( '|' Message::Y .. )*  |  _      (no guards)

usage: agent_tables.py --repo R --out DIR     (writes DIR/AgentTables.v only when changed)
"""
import argparse
import os
import re
import sys

sys.path.insert(0, os.path.dirname(os.path.abspath(__file__)))
from apply_tables import Reject, strip_comments, tokenize, balanced, split_top, find_enum, bool_aliases, coq_str_list  # noqa: E402


def fn_body(src, name, where):
    ms = list(re.finditer(r"\bfn\s+%s\s*\(" % name, src))
    if len(ms) != 1:
        raise Reject("%s: expected exactly one `fn %s`, found %d" % (where, name, len(ms)))
    b = src.find("{", ms[0].end())
    semi = src.find(";", ms[0].end())
    if b < 0 or (0 <= semi < b):
        raise Reject("%s: fn %s has no body" % (where, name))
    e = balanced(src, b)
    return tokenize(src[b + 1:e - 1])


SCRUT = [["self", ".", "state", "(", ")"], ["&", "self", ".", "0"], ["&", "self", ".", "state"],
         ["self", ".", "0"], ["self", ".", "state"]]


def eat_scrutinee(toks, i, where):
    for s in sorted(SCRUT, key=len, reverse=True):
        if toks[i:i + len(s)] == s:
            return i + len(s)
    raise Reject("%s: unexpected scrutinee near %s" % (where, " ".join(toks[i:i + 8])))


def group_at(toks, i, where):
    o = toks[i]
    c = {"(": ")", "{": "}", "[": "]"}[o]
    d = 0
    for j in range(i, len(toks)):
        if toks[j] == o:
            d += 1
        elif toks[j] == c:
            d -= 1
            if d == 0:
                return toks[i + 1:j], j + 1
    raise Reject("%s: unbalanced %s" % (where, o))


def parse_state_pat(toks, states, where):
    """SP -> set of state names (None = wildcard)"""
    if toks == ["_"]:
        return None
    out = set()
    for alt in split_top(toks, "|"):
        if len(alt) < 3 or alt[0] not in ("State", "Self") or alt[1] != "::" or alt[2] not in states:
            raise Reject("%s: state pattern outside grammar: %s" % (where, " ".join(alt)))
        rest = alt[3:]
        if rest:
            if not (rest[0] in ("(", "{") and rest[-1] in (")", "}")):
                raise Reject("%s: state pattern outside grammar: %s" % (where, " ".join(alt)))
            for a in split_top(rest[1:-1]):
                a = [x for x in a if x not in ("ref", "mut")]
                if a in (["_"], [".."]) or (len(a) == 1 and re.match(r"^[a-z_]\w*$", a[0]) and a[0] not in ("true", "false")):
                    continue
                raise Reject("%s: refining sub-pattern in state pattern: %s" % (where, " ".join(alt)))
        out.add(alt[2])
    return out


def parse_msg_pat(toks, msgs, msg_fields, boolty, where):
    """MP -> list of (variant, first_bool|None)  (None = wildcard)"""
    if toks == ["_"]:
        return None
    out = []
    for alt in split_top(toks, "|"):
        if len(alt) < 3 or alt[0] != "Message" or alt[1] != "::" or alt[2] not in msgs:
            raise Reject("%s: message pattern outside grammar: %s" % (where, " ".join(alt)))
        name, rest, first = alt[2], alt[3:], None
        if rest:
            if not (rest[0] in ("(", "{") and rest[-1] in (")", "}")):
                raise Reject("%s: message pattern outside grammar: %s" % (where, " ".join(alt)))
            args = split_top(rest[1:-1])
            for k, a in enumerate(args):
                a = [x for x in a if x not in ("ref", "mut", "&", "*")]
                if a in (["_"], [".."]):
                    continue
                if len(a) == 1 and a[0] in ("true", "false"):
                    f = msg_fields[name]
                    if rest[0] != "(" or k != 0 or not f or f[0] not in boolty:
                        raise Reject("%s: literal sub-pattern only supported on a leading bool field: %s" % (where, " ".join(alt)))
                    first = a[0] == "true"
                    continue
                if len(a) == 1 and re.match(r"^[a-z_]\w*$", a[0]):
                    continue
                if rest[0] == "{" and len(a) == 3 and a[1] == ":" and re.match(r"^[a-z_]\w*$", a[2]) and a[2] not in ("true", "false"):
                    continue
                raise Reject("%s: refining sub-pattern in message pattern: %s" % (where, " ".join(alt)))
        out.append((name, first))
    return out


def parse_match_arms(toks, where):
    """toks = inside of `match X { ... }`; returns [(pattern tokens, body tokens)]"""
    arms, i = [], 0
    while i < len(toks):
        j, d = i, 0
        while j < len(toks) and not (toks[j] == "=>" and d == 0):
            if toks[j] in "({[":
                d += 1
            elif toks[j] in ")}]":
                d -= 1
            j += 1
        if j >= len(toks):
            raise Reject("%s: arm without `=>` near %s" % (where, " ".join(toks[i:i + 8])))
        pat = toks[i:j]
        if "if" in pat:
            raise Reject("%s: match guard: %s" % (where, " ".join(pat)))
        k = j + 1
        if toks[k] == "{":
            body, k = group_at(toks, k, where)
        else:
            k2, d = k, 0
            while k2 < len(toks) and not (toks[k2] == "," and d == 0):
                if toks[k2] in "({[":
                    d += 1
                elif toks[k2] in ")}]":
                    d -= 1
                k2 += 1
            body, k = toks[k:k2], k2
        if k < len(toks) and toks[k] == ",":
            k += 1
        arms.append((pat, body))
        i = k
    return arms


def parse_has_agency(toks, states, where):
    neg = False
    i = 0
    if toks[0] == "!":
        neg, i = True, 1
    if toks[i] == "matches" and toks[i + 1] == "!":
        inner, k = group_at(toks, i + 2, where)
        if k != len(toks):
            raise Reject("%s: has_agency: trailing tokens" % where)
        j = eat_scrutinee(inner, 0, where)
        if inner[j] != ",":
            raise Reject("%s: has_agency: matches! syntax" % where)
        sp = parse_state_pat(inner[j + 1:], states, where)
        if sp is None:
            raise Reject("%s: has_agency: wildcard in matches!" % where)
        return {s: ((s in sp) != neg) for s in states}
    if neg or toks[0] != "match":
        raise Reject("%s: has_agency body outside grammar: %s" % (where, " ".join(toks[:12])))
    j = eat_scrutinee(toks, 1, where)
    inner, k = group_at(toks, j, where)
    if k != len(toks):
        raise Reject("%s: has_agency: trailing tokens" % where)
    res = {}
    arms = parse_match_arms(inner, where)
    for s in states:
        for pat, body in arms:
            sp = parse_state_pat(pat, states, where)
            if sp is None or s in sp:
                if body not in (["true"], ["false"]):
                    raise Reject("%s: has_agency arm body outside grammar: %s" % (where, " ".join(body)))
                res[s] = body == ["true"]
                break
        else:
            raise Reject("%s: has_agency: no arm for %s" % (where, s))
    return res


def parse_assert(toks, states, classes, msgs, msg_fields, boolty, where):
    if toks[0] != "match" or toks[1] != "(":
        raise Reject("%s: body outside grammar: %s" % (where, " ".join(toks[:10])))
    scr, j = group_at(toks, 1, where)
    k = eat_scrutinee(scr, 0, where)
    if scr[k:] != [",", "msg"]:
        raise Reject("%s: scrutinee must be (<state>, msg): %s" % (where, " ".join(scr)))
    inner, k = group_at(toks, j, where)
    if k != len(toks):
        raise Reject("%s: trailing tokens after match" % where)
    arms = []
    for pat, body in parse_match_arms(inner, where):
        if body == ["Ok", "(", "(", ")", ")"]:
            val = True
        elif body[:2] == ["Err", "("] and body[-1] == ")":
            val = False
        else:
            raise Reject("%s: arm body outside grammar: %s" % (where, " ".join(body)))
        if pat == ["_"]:
            arms.append((None, None, val))
            continue
        if pat[0] != "(" or pat[-1] != ")":
            raise Reject("%s: arm pattern outside grammar: %s" % (where, " ".join(pat)))
        parts = split_top(pat[1:-1])
        if len(parts) != 2:
            raise Reject("%s: arm pattern must be a pair: %s" % (where, " ".join(pat)))
        arms.append((parse_state_pat(parts[0], states, where), parse_msg_pat(parts[1], msgs, msg_fields, boolty, where), val))
    table = {}
    for s in states:
        for c in classes:
            for sp, mp, val in arms:
                if (sp is None or s in sp) and (mp is None or any(v == c[0] and (b is None or b == c[1]) for v, b in mp)):
                    table[(s, c)] = val
                    break
            else:
                raise Reject("%s: no arm covers (%s, %s)" % (where, s, c))
    return table


def initial_state(src, states, where):
    m = re.search(r"\bpub\s+fn\s+new\s*\(", src)
    if not m:
        raise Reject("%s: no `pub fn new`" % where)
    b = src.find("{", m.end())
    e = balanced(src, b)
    found = re.findall(r"\bState\s*::\s*(\w+)", src[b:e])
    found = [f for f in found if f in states]
    if len(set(found)) != 1:
        raise Reject("%s: cannot determine the initial state in `new` (%s)" % (where, found))
    return found[0]


def translate_agent(pdir, proto, role, repo):
    path = os.path.join(pdir, proto, role + ".rs")
    where = os.path.relpath(path, repo)
    src = strip_comments(open(path).read())
    cut = re.search(r"#\s*\[\s*cfg\s*\(\s*test\s*\)\s*\]\s*mod\s+\w+\s*\{", src)
    if cut:
        src = src[:cut.start()]
    if not re.search(r"\bfn\s+has_agency\s*\(", src):
        return None
    psrc = src
    pp = os.path.join(pdir, proto, "protocol.rs")
    if os.path.exists(pp):
        psrc = strip_comments(open(pp).read())
    sv = find_enum(psrc, "State")
    mv = find_enum(psrc, "Message")
    states = [v for v, _, _ in sv]
    msgs = [v for v, _, _ in mv]
    msg_fields = {v: f for v, f, _ in mv}
    boolty = bool_aliases(psrc) | bool_aliases(src)
    classes = []
    for v in msgs:
        f = msg_fields[v]
        if f and f[0] in boolty:
            classes += [(v, True), (v, False)]
        else:
            classes.append((v, None))

    def cname(c):
        return c[0] if c[1] is None else "%s(%s)" % (c[0], "true" if c[1] else "false")

    agency = parse_has_agency(fn_body(src, "has_agency", where), states, where + " has_agency")
    outb = parse_assert(fn_body(src, "assert_outbound_state", where), states, classes, msgs, msg_fields, boolty, where + " assert_outbound_state")
    inb = parse_assert(fn_body(src, "assert_inbound_state", where), states, classes, msgs, msg_fields, boolty, where + " assert_inbound_state")
    init = initial_state(src, states, where)
    return {"proto": proto, "role": role, "path": where, "init": init, "states": states,
            "msgs": [cname(c) for c in classes],
            "agency": [(s, agency[s]) for s in states],
            "outbound": [(s, cname(c), outb[(s, c)]) for s in states for c in classes],
            "inbound": [(s, cname(c), inb[(s, c)]) for s in states for c in classes]}


def b(v):
    return "true" if v else "false"


def render(tables):
    o = []
    o.append("(* GENERATED by translators/agent_tables.py from pallas-network/src/miniprotocols — do not edit. *)")
    o.append("(* Per agent: has_agency, assert_outbound_state, assert_inbound_state as finite tables. *)")
    o.append("From Coq Require Import String List Bool.")
    o.append("Import ListNotations.")
    o.append("Open Scope string_scope.")
    o.append("")
    o.append("Record agent_table := {")
    o.append("  at_proto : string; at_role : string; at_init : string;")
    o.append("  at_states : list string; at_msgs : list string;")
    o.append("  at_agency : list (string * bool);")
    o.append("  at_outbound : list (string * string * bool);")
    o.append("  at_inbound : list (string * string * bool) }.")
    o.append("")
    for t in tables:
        nm = "%s_%s_table" % (t["proto"], t["role"])
        o.append("(* %s *)" % t["path"])
        o.append("Definition %s : agent_table := {|" % nm)
        o.append('  at_proto := "%s"; at_role := "%s"; at_init := "%s";' % (t["proto"], t["role"], t["init"]))
        o.append("  at_states := %s;" % coq_str_list(t["states"]))
        o.append("  at_msgs := %s;" % coq_str_list(t["msgs"]))
        o.append("  at_agency := [" + "; ".join('("%s", %s)' % (s, b(v)) for s, v in t["agency"]) + "];")
        o.append("  at_outbound := [")
        o.append(";\n".join('    ("%s", "%s", %s)' % (s, m, b(v)) for s, m, v in t["outbound"]))
        o.append("  ];")
        o.append("  at_inbound := [")
        o.append(";\n".join('    ("%s", "%s", %s)' % (s, m, b(v)) for s, m, v in t["inbound"]))
        o.append("  ] |}.")
        o.append("")
    o.append("Definition agent_tables : list agent_table :=")
    o.append("  [" + "; ".join("%s_%s_table" % (t["proto"], t["role"]) for t in tables) + "].")
    return "\n".join(o) + "\n"


def main():
    ap = argparse.ArgumentParser()
    ap.add_argument("--repo", default="/repo")
    ap.add_argument("--out", required=True)
    a = ap.parse_args()
    pdir = os.path.join(a.repo, "pallas-network", "src", "miniprotocols")
    try:
        if not os.path.isdir(pdir):
            raise Reject("no directory %s" % pdir)
        tables = []
        for proto in sorted(os.listdir(pdir)):
            if not os.path.isdir(os.path.join(pdir, proto)):
                continue
            for role in ("client", "server"):
                if os.path.exists(os.path.join(pdir, proto, role + ".rs")):
                    t = translate_agent(pdir, proto, role, a.repo)
                    if t:
                        tables.append(t)
        if not tables:
            raise Reject("no agent with `fn has_agency` under %s" % pdir)
    except Reject as ex:
        print("agent_tables: source outside the accepted grammar: %s" % ex, file=sys.stderr)
        sys.exit(1)
    text = render(tables)
    os.makedirs(a.out, exist_ok=True)
    outp = os.path.join(a.out, "AgentTables.v")
    if not os.path.exists(outp) or open(outp).read() != text:
        tmp = outp + ".tmp%d" % os.getpid()
        open(tmp, "w").write(text)
        os.replace(tmp, outp)
    print("agent_tables: %d agents" % len(tables))


if __name__ == "__main__":
    main()
