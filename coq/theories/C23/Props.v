(* C23 — property theorems only. Statements are pinned by props/C23.json. *)
From PV Require Import Lib.Base C24.Spec Generated.AgentTables C23.Model C23.Defs C23.Proofs.
From Coq Require Import String.
Open Scope string_scope.

(* (T) acceptance tables: for every agent, state and message class, send_message accepts
   (has_agency && assert_outbound_state) exactly when the specification lets this role send
   the message in that state, and recv_message accepts (!has_agency && assert_inbound_state)
   exactly when the peer may send it — over the tables regenerated from the source. *)
Theorem agent_tables_match_spec : forall a s m,
  In a agents -> In s (at_states (ag_table a)) -> In m (at_msgs (ag_table a)) ->
  (is_known a s m "send" = false ->
     can_send (ag_table a) s m = spec_can (ag_spec a) (a_proto a) (ag_role a) s m) /\
  (is_known a s m "recv" = false ->
     can_recv (ag_table a) s m = spec_can (ag_spec a) (a_proto a) (other (ag_role a)) s m).
Proof. exact tables_match_proof. Qed.

Theorem agent_agency_matches_spec : forall a s q r,
  In a agents -> In s (at_states (ag_table a)) -> In q (st_spec (a_proto a) s) ->
  spec_agency (ag_spec a) q = Some r -> r <> Nobody ->
  has_agency (ag_table a) s = agency_eqb r (ag_role a).
Proof. exact agency_match_proof. Qed.

Theorem agent_tables_cover_spec :
  (forall a, In a agents -> covers_ok a = true) /\
  (forall t, In t agent_tables -> in_scope (at_proto t) = true ->
     exists a, In a agents /\ a_proto a = at_proto t /\ a_role a = at_role t).
Proof. split; [exact covers_proof | exact agents_cover_tables_proof]. Qed.

(* trace level, any length: whenever an agent accepts a sequence of public method calls (with
   whatever the peer delivers), the specification accepts the messages that crossed the wire,
   each from the side that holds agency, and the agent ends in the state the specification
   prescribes. *)
Theorem agent_run_conforms : forall a ops s',
  In a agents ->
  Forall (fun o => In o (alphabet a) /\ is_call o = true) ops ->
  avoids_known23 a (at_init (ag_table a)) ops ->
  model_run a (at_init (ag_table a)) ops = Some s' ->
  exists q', spec_events a (sp_init (ag_spec a)) (events a (at_init (ag_table a)) ops) = Some q' /\
             In q' (st_spec (a_proto a) s').
Proof. exact run_conforms_proof. Qed.

(* at every reached (agent state, specification state): the low-level send/receive accept
   exactly what the specification permits there *)
Theorem agent_lowlevel_exact : forall a s q m,
  In a agents -> In (s, q) (reach a) -> In m (at_msgs (ag_table a)) ->
  (ag_low_send a = true -> is_known a s m "send" = false ->
     so_ok (step a s (LowSend m)) = is_some (spec_ev (ag_spec a) (a_proto a) (ag_role a) q m)) /\
  (ag_low_recv a = true -> is_known a s m "recv" = false ->
     so_ok (step a s (LowRecv m)) = is_some (spec_ev (ag_spec a) (a_proto a) (other (ag_role a)) q m)).
Proof. exact lowlevel_exact_proof. Qed.

(* ... and every transition the specification offers there is performed by some accepted operation *)
Theorem agent_methods_complete : forall a pq, In a agents -> In pq (reach a) -> complete_at a pq = true.
Proof. exact complete_proof. Qed.

(* non-vacuity: the exploration reaches every specification state (but the transient ones) *)
Theorem agent_reach_all_states : forall a, In a agents -> reaches_all a = true.
Proof. exact reaches_all_proof. Qed.

(* each known cell is a genuine counterexample over the regenerated tables *)
Theorem known23_refuted : forallb known_refuted known23 = true.
Proof. exact known23_all_refuted. Qed.

Example chainsync_client_run :
  let ops := [Call "send_find_intersect" ""; Call "recv_intersect_response" "IntersectFound";
              Call "send_request_next" ""; Call "recv_while_can_await" "AwaitReply";
              Call "recv_while_must_reply" "RollForward"; Call "send_done" ""] in
  model_run chainsync_client "Idle" ops = Some "Done" /\
  events chainsync_client "Idle" ops =
    [(true, "FindIntersect"); (false, "IntersectFound"); (true, "RequestNext"); (false, "AwaitReply");
     (false, "RollForward"); (true, "Done")].
Proof. vm_compute. split; reflexivity. Qed.
