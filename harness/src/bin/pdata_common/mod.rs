//! Shared by c07 / c08: Coq printers for PlutusData (type `pdata` of PV.C07.Model) and generators.
#![allow(dead_code)]
use pallas_codec::utils::{Int, KeyValuePairs, MaybeIndefArray};
use pallas_primitives::{BigInt, BoundedBytes, Constr, PlutusData};
use verif_harness::*;

pub type PD = PlutusData;

// ---------------------------------------------------------------- printing
pub fn coq_flag(indef: bool) -> &'static str { if indef { "true" } else { "false" } }
pub fn coq_bigint(i: &BigInt) -> String {
    match i {
        BigInt::Int(x) => format!("(BInt {})", coq_z(i128::from(*x))),
        BigInt::BigUInt(b) => format!("(BigUInt {})", coq_bytes(b)),
        BigInt::BigNInt(b) => format!("(BigNInt {})", coq_bytes(b)),
    }
}
pub fn mia_parts(m: &MaybeIndefArray<PD>) -> (bool, &Vec<PD>) {
    match m { MaybeIndefArray::Def(x) => (false, x), MaybeIndefArray::Indef(x) => (true, x) }
}
pub fn coq_pd(d: &PD) -> String {
    match d {
        PD::Constr(c) => {
            let (f, xs) = mia_parts(&c.fields);
            format!("(PConstr {} {} {} {})", c.tag, coq_opt(&c.any_constructor, |v| v.to_string()), coq_flag(f), coq_list(xs, coq_pd))
        }
        PD::Map(m) => {
            let (f, kvs) = match m { KeyValuePairs::Def(x) => (false, x), KeyValuePairs::Indef(x) => (true, x) };
            format!("(PMap {} {})", coq_flag(f), coq_list(kvs, |(k, v)| format!("({},{})", coq_pd(k), coq_pd(v))))
        }
        PD::Array(a) => { let (f, xs) = mia_parts(a); format!("(PArray {} {})", coq_flag(f), coq_list(xs, coq_pd)) }
        PD::BigInt(i) => format!("(PBigInt {})", coq_bigint(i)),
        PD::BoundedBytes(b) => format!("(PBytes {})", coq_bytes(b)),
    }
}

// ---------------------------------------------------------------- generators
pub const LENS: [usize; 12] = [0, 1, 2, 31, 63, 64, 65, 127, 128, 129, 192, 200];
pub fn gen_bytes(rng: &mut Rng) -> Vec<u8> {
    let len = if rng.chance(1, 2) { *rng.pick(&LENS) } else { rng.below(6) as usize };
    match rng.below(4) {
        0 => vec![0u8; len],
        1 => { let mut v = rng.bytes(len); if len > 0 { v[0] = 0; } v }
        _ => rng.bytes(len),
    }
}
pub fn int_of(v: i128) -> Int { Int::try_from(v).unwrap() }
/// the number (neg, mag) in a random representation; leading zeros added with probability 1/2
pub fn repr(rng: &mut Rng, neg: bool, mag: u128) -> BigInt {
    let fits_int = if neg { mag <= 1u128 << 64 } else { mag < 1u128 << 64 };
    if fits_int && rng.chance(1, 3) {
        return BigInt::Int(int_of(if neg { -(mag as i128) } else { mag as i128 }));
    }
    let mut bs: Vec<u8> = mag.to_be_bytes().iter().copied().skip_while(|b| *b == 0).collect();
    if rng.bool() { let z = rng.below(4) as usize; let mut p = vec![0u8; z]; p.extend(bs); bs = p; }
    let b = BoundedBytes::from(bs);
    if mag == 0 { if rng.bool() { BigInt::BigUInt(b) } else { BigInt::BigNInt(b) } }
    else if neg { BigInt::BigNInt(b) } else { BigInt::BigUInt(b) }
}
pub fn gen_mag(rng: &mut Rng) -> u128 {
    match rng.below(8) {
        0 => rng.below(3) as u128,
        1 => 255 + rng.below(3) as u128,
        2 => (1u128 << 63) - 1 + rng.below(3) as u128,
        3 => (1u128 << 64) - 2 + rng.below(4) as u128,
        4 => { let k = rng.below(100); (1u128 << k).wrapping_sub(1).wrapping_add(rng.below(3) as u128) }
        5 => rng.edge_u64() as u128,
        6 => ((rng.next() as u128) << 64 | rng.next() as u128) >> rng.below(128),
        _ => rng.below(70000) as u128,
    }
}
pub fn gen_bigint(rng: &mut Rng) -> BigInt {
    match rng.below(8) {
        0 => BigInt::BigUInt(BoundedBytes::from(gen_bytes(rng))),
        1 => BigInt::BigNInt(BoundedBytes::from(gen_bytes(rng))),
        2 => BigInt::Int(int_of(*rng.pick(&[0i128, 1, -1, 23, 24, -24, -25, 255, 256, -256, -257,
            i64::MAX as i128, i64::MIN as i128, i64::MAX as i128 + 1, i64::MIN as i128 - 1,
            u64::MAX as i128, -(1i128 << 64), -(1i128 << 64) + 1]))),
        3 => { let neg = rng.bool(); repr(rng, neg, 0) }
        _ => { let m = gen_mag(rng); let neg = rng.bool(); repr(rng, neg, m) }
    }
}
pub fn gen_tag(rng: &mut Rng) -> (u64, Option<u64>) {
    match rng.below(6) {
        0 => (121 + rng.below(7), None),
        1 => (*rng.pick(&[1280u64, 1281, 1399, 1400]), None),
        2 => (1280 + rng.below(121), None),
        3 => (102, Some(rng.below(140))),
        4 => (102, Some(rng.edge_u64())),
        _ => (121, None),
    }
}
pub fn gen_pd(rng: &mut Rng, depth: u32) -> PD {
    let k = if depth == 0 { 3 + rng.below(2) } else { rng.below(5) };
    let n = |rng: &mut Rng| if rng.chance(1, 12) { 24 + rng.below(3) as usize } else { rng.below(4) as usize };
    match k {
        0 => {
            let (tag, any_constructor) = gen_tag(rng);
            let len = n(rng);
            let sub = if len > 4 { 0 } else { depth - 1 };
            let xs: Vec<PD> = (0..len).map(|_| gen_pd(rng, sub)).collect();
            PD::Constr(Constr { tag, any_constructor, fields: if rng.bool() { MaybeIndefArray::Indef(xs) } else { MaybeIndefArray::Def(xs) } })
        }
        1 => {
            let len = n(rng);
            let sub = if len > 4 { 0 } else { depth - 1 };
            let kvs: Vec<(PD, PD)> = (0..len).map(|_| (gen_pd(rng, sub), gen_pd(rng, sub))).collect();
            PD::Map(if rng.bool() { KeyValuePairs::Indef(kvs) } else { KeyValuePairs::Def(kvs) })
        }
        2 => {
            let len = n(rng);
            let sub = if len > 4 { 0 } else { depth - 1 };
            let xs: Vec<PD> = (0..len).map(|_| gen_pd(rng, sub)).collect();
            PD::Array(if rng.bool() { MaybeIndefArray::Indef(xs) } else { MaybeIndefArray::Def(xs) })
        }
        3 => PD::BigInt(gen_bigint(rng)),
        _ => PD::BoundedBytes(BoundedBytes::from(gen_bytes(rng))),
    }
}
