(* C16 correspondence: a case is
   (max_n, x.data, bound_x, compare.data, impl iterations, impl estimation code, impl approx.data)
   estimation code: 0 = UNKNOWN, 1 = GT, 2 = LT. *)
From PV Require Import Lib.Base C16.Model.
Open Scope Z_scope.
Definition case : Type := (Z * Z * Z * Z * Z * Z * Z).
Definition case_out (c : case) : Z * Z * Z :=
  let '(max_n, x, b, cmp, _, _, _) := c in
  let r := ref_exp_cmp max_n x b cmp in (iterations r, est_code (estimation r), approx r).
Definition case_ok (c : case) : bool :=
  let '(max_n, x, b, cmp, it, e, ap) := c in
  let r := ref_exp_cmp max_n x b cmp in
  (iterations r =? it) && (est_code (estimation r) =? e) && (approx r =? ap).
