//! Adversarial PAYLOADS for C29 (oracle-only): the real behaviours are driven with concrete
//! pallas-network2 messages whose DATA is hostile (inverted / degenerate block ranges, empty and huge
//! point lists, extreme counts, long multi-byte refuse texts, hundreds of shared addresses, extreme
//! leios payloads ...) while the message ORDER is mostly protocol-valid, so the peer stays handshaken
//! and non-violating and the handlers behind the state machines are reached.  The Coq model abstracts
//! payloads away, so these histories are not compared with it: a panic is the failing input.
use super::*;
use pallas_network2::Behavior;
use std::collections::BTreeMap;
use std::net::Ipv6Addr;

pub fn adv_point(rng: &mut Rng) -> Point {
    match rng.below(9) {
        0 | 1 => Point::Origin,
        2 => Point::Specific(0, vec![]),
        3 => Point::Specific(50, vec![7; 32]),
        4 => Point::Specific(100, vec![1; 32]),
        5 => Point::Specific(u64::MAX, vec![0xff; 32]),
        6 => Point::Specific(u64::MAX - 1, vec![]),
        7 => { let n = rng.below(70) as usize; Point::Specific(rng.edge_u64(), rng.bytes(n)) }
        _ => Point::Specific(1 + rng.below(200), vec![3; 32]),
    }
}
pub fn adv_range(rng: &mut Rng) -> (Point, Point) {
    match rng.below(8) {
        0 => (Point::Specific(100, vec![1; 32]), Point::Specific(50, vec![2; 32])),          // inverted
        1 => (Point::Specific(7, vec![1; 32]), Point::Origin),                                // Origin as the end
        2 => (Point::Origin, Point::Origin),
        3 => { let p = adv_point(rng); (p.clone(), p) }                                        // equal
        4 => (Point::Specific(u64::MAX, vec![]), Point::Specific(0, vec![])),
        5 => (Point::Origin, Point::Specific(u64::MAX, vec![9; 32])),
        _ => (adv_point(rng), adv_point(rng)),
    }
}
pub fn adv_points(rng: &mut Rng) -> Vec<Point> {
    match rng.below(6) {
        0 => vec![],
        1 => vec![Point::Origin, Point::Origin],
        2 => { let p = adv_point(rng); vec![p.clone(), p.clone(), p] }
        3 => (0..300).map(|i| Point::Specific(u64::MAX - i, vec![i as u8; 32])).collect(),
        _ => (0..rng.below(6)).map(|_| adv_point(rng)).collect(),
    }
}
pub fn adv_tip(rng: &mut Rng) -> cs::Tip { cs::Tip(adv_point(rng), *rng.pick(&[0u64, 1, u64::MAX, 1 << 63])) }
pub fn adv_bytes(rng: &mut Rng) -> Vec<u8> {
    match rng.below(24) { 0..=3 => vec![], 4..=7 => vec![0xff], 8..=11 => vec![0x9f], 12 => rng.bytes(70_000), _ => { let n = rng.below(40) as usize; rng.bytes(n) } }
}
pub fn adv_cbor(rng: &mut Rng) -> AnyCbor { AnyCbor::from_raw_bytes(adv_bytes(rng)) }
/// list elements stay small
pub fn adv_cbor_s(rng: &mut Rng) -> AnyCbor { AnyCbor::from_raw_bytes(match rng.below(4) { 0 => vec![], 1 => vec![0xff], _ => rng.bytes(3) }) }
pub fn adv_header(rng: &mut Rng) -> cs::HeaderContent {
    cs::HeaderContent { variant: *rng.pick(&[0u8, 1, 6, 255]), byron_prefix: if rng.bool() { Some((*rng.pick(&[0u8, 1, 255]), rng.edge_u64())) } else { None }, cbor: adv_bytes(rng) }
}
pub fn adv_bitmaps(rng: &mut Rng) -> lf::Bitmaps {
    let mut m = BTreeMap::new();
    match rng.below(5) {
        0 => {}
        1 => { m.insert(0u16, u64::MAX); m.insert(u16::MAX, u64::MAX); }
        2 => { for i in 0..300u16 { m.insert(i.wrapping_mul(211), rng.edge_u64()); } }
        _ => { for _ in 0..rng.below(4) { m.insert(rng.next() as u16, rng.edge_u64()); } }
    }
    lf::Bitmaps(m)
}
/// distinct addresses: `k` numbers the address globally
pub fn adv_addrs(rng: &mut Rng, counter: &mut u32) -> Vec<psh::PeerAddress> {
    let n = match rng.below(7) { 0 => 0, 1 => 1, 2 => 60, 3 => 120, 4 => 255, 5 => 300, _ => rng.below(12) };
    let dup = rng.chance(1, 6);
    (0..n).map(|_| {
        if !dup { *counter += 1; }
        let k = *counter;
        if rng.chance(1, 5) { psh::PeerAddress::V6(Ipv6Addr::new(0x2001, 0xdb8, 0, 0, 0, 0, (k >> 16) as u16, k as u16), *rng.pick(&[0u16, 1, 3001, u16::MAX])) }
        else { psh::PeerAddress::V4(Ipv4Addr::new(172, 16 + ((k >> 16) & 15) as u8, (k >> 8) as u8, k as u8), *rng.pick(&[0u16, 3001, u16::MAX])) }
    }).collect()
}
pub const N_TEXTS: u64 = 10;
pub fn adv_text_k(k: u64) -> String {
    match k {
        0 => String::new(),
        1 => "x".repeat(63) + "\u{e9}\u{e9}",                 // a 2-byte char across byte 64
        2 => "ab".to_string() + &"\u{65e5}\u{672c}\u{8a9e}".repeat(40),  // 3-byte chars, byte 64 inside one
        3 => "x".repeat(61) + &"\u{1f600}".repeat(30),        // 4-byte chars across byte 64
        4 => "\u{1f600}".repeat(16) + "\u{e9}",               // exactly 64 bytes, then a 2-byte char
        5 => "y".repeat(5_000),
        6 => "\u{0}\n\t\u{202e}".repeat(20),
        7 => "\u{e9}".repeat(200),                            // only 2-byte chars (every odd offset is inside one)
        8 => "x".to_string() + &"\u{e9}".repeat(200),
        _ => "network magic mismatch".to_string(),
    }
}
pub fn adv_text(rng: &mut Rng) -> String { adv_text_k(rng.below(N_TEXTS)) }
pub fn adv_vdata(rng: &mut Rng) -> hs::n2n::VersionData {
    hs::n2n::VersionData::new(*rng.pick(&[MAINNET_MAGIC, MAINNET_MAGIC, 0, 2, u64::MAX]), rng.bool(),
        *rng.pick(&[None, Some(0u8), Some(1), Some(1), Some(255)]), *rng.pick(&[None, Some(false), Some(true)]))
}
pub fn adv_table(rng: &mut Rng, must_have_13: bool) -> hs::VersionTable<hs::n2n::VersionData> {
    let mut values = HashMap::new();
    match rng.below(5) {
        0 => {}
        1 => { for v in [0u64, 1, 7, 13, 14, 15, 16, u64::MAX] { values.insert(v, adv_vdata(rng)); } }
        2 => { for i in 0..200u64 { values.insert(i * 7919, adv_vdata(rng)); } }
        _ => { for _ in 0..rng.below(4) { values.insert(*rng.pick(&[0u64, 11, 13, 15, u64::MAX]), adv_vdata(rng)); } }
    }
    if must_have_13 { values.insert(13, hs::n2n::VersionData::new(MAINNET_MAGIC, false, Some(1), Some(false))); }
    hs::VersionTable { values }
}
pub fn adv_refuse(rng: &mut Rng) -> hs::RefuseReason {
    match rng.below(5) {
        0 => hs::RefuseReason::VersionMismatch(match rng.below(3) { 0 => vec![], 1 => vec![u64::MAX; 300], _ => vec![13, 13, 0] }),
        1 | 2 => hs::RefuseReason::HandshakeDecodeError(*rng.pick(&[0u64, 13, u64::MAX]), adv_text(rng)),
        _ => hs::RefuseReason::Refused(*rng.pick(&[0u64, 13, u64::MAX]), adv_text(rng)),
    }
}
pub fn adv_txids(rng: &mut Rng) -> Vec<tx::TxIdAndSize<tx::EraTxId>> {
    let n = match rng.below(5) { 0 => 0, 1 => 1, 2 => 1000, _ => rng.below(20) };
    (0..n).map(|i| tx::TxIdAndSize(tx::EraTxId(*rng.pick(&[0u16, 6, u16::MAX]), if i % 3 == 0 { vec![] } else { vec![i as u8; 32] }), *rng.pick(&[0u32, 1, u32::MAX]))).collect()
}
pub fn adv_txbodies(rng: &mut Rng) -> Vec<tx::EraTxBody> {
    let n = match rng.below(5) { 0 => 0, 1 => 1, 2 => 500, _ => rng.below(20) };
    (0..n).map(|i| tx::EraTxBody(*rng.pick(&[0u16, 6, u16::MAX]), if i % 2 == 0 { vec![] } else { rng.bytes(2) })).collect()
}
pub fn adv_count(rng: &mut Rng) -> u16 { *rng.pick(&[0u16, 1, 10, u16::MAX - 1, u16::MAX]) }
pub fn adv_cookie(rng: &mut Rng) -> u16 { *rng.pick(&[0u16, 1, 42, u16::MAX - 1, u16::MAX]) }

/// any message of any protocol, hostile data, no regard for the protocol state
pub fn adv_any(rng: &mut Rng, counter: &mut u32) -> AnyMessage {
    match rng.below(38) {
        0 => AnyMessage::Handshake(hs::Message::Propose(adv_table(rng, false))),
        1 => AnyMessage::Handshake(hs::Message::Accept(*rng.pick(&[0u64, 13, 15, u64::MAX]), adv_vdata(rng))),
        2 => AnyMessage::Handshake(hs::Message::Refuse(adv_refuse(rng))),
        3 => AnyMessage::Handshake(hs::Message::QueryReply(adv_table(rng, false))),
        4 => AnyMessage::KeepAlive(ka::Message::KeepAlive(adv_cookie(rng))),
        5 => AnyMessage::KeepAlive(ka::Message::ResponseKeepAlive(adv_cookie(rng))),
        6 => AnyMessage::KeepAlive(ka::Message::Done),
        7 => AnyMessage::PeerSharing(psh::Message::ShareRequest(*rng.pick(&[0u8, 1, 100, 255]))),
        8 => AnyMessage::PeerSharing(psh::Message::SharePeers(adv_addrs(rng, counter))),
        9 => AnyMessage::PeerSharing(psh::Message::Done),
        10 => AnyMessage::BlockFetch(bf::Message::RequestRange(adv_range(rng))),
        11 => AnyMessage::BlockFetch(bf::Message::ClientDone),
        12 => AnyMessage::BlockFetch(bf::Message::StartBatch),
        13 => AnyMessage::BlockFetch(bf::Message::NoBlocks),
        14 => AnyMessage::BlockFetch(bf::Message::Block(adv_bytes(rng))),
        15 => AnyMessage::BlockFetch(bf::Message::BatchDone),
        16 => AnyMessage::ChainSync(cs::Message::RequestNext),
        17 => AnyMessage::ChainSync(cs::Message::AwaitReply),
        18 => AnyMessage::ChainSync(cs::Message::RollForward(adv_header(rng), adv_tip(rng))),
        19 => AnyMessage::ChainSync(cs::Message::RollBackward(adv_point(rng), adv_tip(rng))),
        20 => AnyMessage::ChainSync(cs::Message::FindIntersect(adv_points(rng))),
        21 => AnyMessage::ChainSync(cs::Message::IntersectFound(adv_point(rng), adv_tip(rng))),
        22 => AnyMessage::ChainSync(cs::Message::IntersectNotFound(adv_tip(rng))),
        23 => AnyMessage::ChainSync(cs::Message::Done),
        24 => AnyMessage::TxSubmission(tx::Message::Init),
        25 => AnyMessage::TxSubmission(tx::Message::RequestTxIds(rng.bool(), adv_count(rng), adv_count(rng))),
        26 => AnyMessage::TxSubmission(tx::Message::ReplyTxIds(adv_txids(rng))),
        27 => AnyMessage::TxSubmission(tx::Message::RequestTxs(adv_txids(rng).into_iter().map(|x| x.0).collect())),
        28 => AnyMessage::TxSubmission(tx::Message::ReplyTxs(adv_txbodies(rng))),
        29 => AnyMessage::TxSubmission(tx::Message::Done),
        30 => AnyMessage::LeiosNotify(ln::Message::RequestNext),
        31 => AnyMessage::LeiosNotify(match rng.below(4) { 0 => ln::Message::BlockAnnouncement(adv_cbor(rng)), 1 => ln::Message::BlockOffer(adv_point(rng), *rng.pick(&[0u32, u32::MAX])),
                                        2 => ln::Message::BlockTxsOffer(adv_point(rng)), _ => ln::Message::Votes((0..*rng.pick(&[0usize, 1, 400])).map(|_| adv_cbor_s(rng)).collect()) }),
        32 => AnyMessage::LeiosNotify(ln::Message::Done),
        33 => AnyMessage::LeiosFetch(lf::Message::BlockRequest(adv_point(rng))),
        34 => AnyMessage::LeiosFetch(lf::Message::Block(adv_cbor(rng))),
        35 => AnyMessage::LeiosFetch(lf::Message::BlockTxsRequest(adv_point(rng), adv_bitmaps(rng))),
        36 => AnyMessage::LeiosFetch(lf::Message::BlockTxs { point: adv_point(rng), bitmaps: adv_bitmaps(rng), txs: (0..*rng.pick(&[0usize, 1, 300])).map(|_| adv_cbor_s(rng)).collect() }),
        _ => AnyMessage::LeiosFetch(lf::Message::Done),
    }
}

/// bounded Debug rendering: formatting stops once `n` bytes are written (payloads can be 100 kB)
struct Limited { buf: String, max: usize }
impl std::fmt::Write for Limited {
    fn write_str(&mut self, s: &str) -> std::fmt::Result {
        if self.buf.len() >= self.max { return Err(std::fmt::Error); }
        let room = self.max - self.buf.len();
        if s.len() <= room { self.buf.push_str(s); Ok(()) } else { let mut e = room; while !s.is_char_boundary(e) { e -= 1; } self.buf.push_str(&s[..e]); self.buf.push_str("..."); self.max = 0; Err(std::fmt::Error) }
    }
}
fn short<T: std::fmt::Debug>(x: &T, n: usize) -> String { use std::fmt::Write; let mut w = Limited { buf: String::new(), max: n }; let _ = write!(w, "{:?}", x); w.buf }

pub struct RawLog { pub hist: Vec<String>, pub failed: bool, pub label: String }
impl RawLog {
    pub fn new(label: String) -> Self { RawLog { hist: vec![], failed: false, label } }
    /// run one call under catch_unwind; a panic is reported with the history (last call in full)
    pub fn call<F: FnOnce()>(&mut self, side: &str, desc_short: String, desc_full: String, f: F) {
        if self.failed { return; }
        self.hist.push(desc_short);
        if let Out_::Panic(msg) = guard_total(f) {
            self.failed = true;
            let msg: String = msg.chars().map(|c| if c.is_control() { ' ' } else { c }).take(400).collect();
            let m: String = msg.chars().filter(|c| c.is_ascii_alphanumeric() || *c == ' ' || *c == '_').take(48).collect();
            let tail: Vec<String> = self.hist.iter().rev().skip(1).take(14).rev().cloned().collect();
            emit_oracle_fail(&format!("panic:{}:{}", side, m.trim().replace(' ', "-")),
                &format!("{} ({} calls; regenerate with the same --seed/--tier) ... {} ; LAST CALL {} panicked: {}", self.label, self.hist.len(), tail.join("; "), desc_full, msg));
        }
    }
}

// ---------------------------------------------------------------- responder
/// a protocol-valid next step for responder peer `p` in protocol-state classes `v`, with hostile data
fn resp_valid_step(rng: &mut Rng, b: &mut ResponderBehavior, log: &mut RawLog, p: i64, v: &[i64], counter: &mut u32) {
    let id = rpid(p);
    // v = [conn, hs, ka, ps, bf, cs, tx, ln, lf, viol, errc]
    let recv = |b: &mut ResponderBehavior, log: &mut RawLog, m: AnyMessage| { let d = short(&m, 140); let f = short(&m, 700); let id = id.clone();
        log.call("responder", format!("Recv({},{})", p, d), format!("handle_io(Recv({}, [{}]))", p, f), || { b.handle_io(InterfaceEvent::Recv(id, vec![m])); drain_resp(b); }); };
    let sent = |b: &mut ResponderBehavior, log: &mut RawLog, m: AnyMessage| { let d = short(&m, 140); let f = short(&m, 700); let id = id.clone();
        log.call("responder", format!("Sent({},{})", p, d), format!("handle_io(Sent({}, {}))", p, f), || { b.handle_io(InterfaceEvent::Sent(id, m)); drain_resp(b); }); };
    if v[1] == 0 { let ok = rng.chance(4, 5); return recv(b, log, AnyMessage::Handshake(hs::Message::Propose(adv_table(rng, ok)))); }
    if v[1] == 1 {
        if rng.chance(1, 4) { return sent(b, log, AnyMessage::Handshake(hs::Message::Refuse(adv_refuse(rng)))); }
        return sent(b, log, AnyMessage::Handshake(hs::Message::Accept(13, hs::n2n::VersionData::new(MAINNET_MAGIC, false, Some(1), Some(false)))));
    }
    match rng.below(7) {
        0 => match v[2] { 2 => sent(b, log, AnyMessage::KeepAlive(ka::Message::ResponseKeepAlive(adv_cookie(rng)))), 3 => {}, _ => recv(b, log, AnyMessage::KeepAlive(ka::Message::KeepAlive(adv_cookie(rng)))) },
        1 => match v[3] {
            2 => { let l = adv_addrs(rng, counter); let l2 = l.clone(); let id2 = id.clone();
                   log.call("responder", format!("ProvidePeers({},{} addrs)", p, l.len()), format!("execute(ProvidePeers({}, {} addresses))", p, l.len()), || { b.execute(ResponderCommand::ProvidePeers(id2, l2)); drain_resp(b); });
                   sent(b, log, AnyMessage::PeerSharing(psh::Message::SharePeers(l))) }
            3 => {}
            _ => recv(b, log, AnyMessage::PeerSharing(psh::Message::ShareRequest(*rng.pick(&[0u8, 1, 100, 255])))),
        },
        2 => match v[4] {
            0 => recv(b, log, AnyMessage::BlockFetch(bf::Message::RequestRange(adv_range(rng)))),
            1 => { if rng.bool() { let blocks: Vec<Vec<u8>> = (0..*rng.pick(&[0usize, 1, 50])).map(|_| rng.bytes(2)).collect(); let n = blocks.len(); let id2 = id.clone();
                       log.call("responder", format!("ProvideBlocks({},{})", p, n), format!("execute(ProvideBlocks({}, {} blocks))", p, n), || { b.execute(ResponderCommand::ProvideBlocks(id2, blocks)); drain_resp(b); }); }
                   sent(b, log, AnyMessage::BlockFetch(if rng.bool() { bf::Message::NoBlocks } else { bf::Message::StartBatch })) }
            2 | 3 => sent(b, log, AnyMessage::BlockFetch(if rng.bool() { bf::Message::Block(adv_bytes(rng)) } else { bf::Message::BatchDone })),
            _ => {}
        },
        3 => match v[5] {
            8 => sent(b, log, AnyMessage::ChainSync(if rng.chance(1, 4) { cs::Message::IntersectNotFound(adv_tip(rng)) } else { cs::Message::IntersectFound(adv_point(rng), adv_tip(rng)) })),
            6 => sent(b, log, AnyMessage::ChainSync(match rng.below(3) { 0 => cs::Message::AwaitReply, 1 => cs::Message::RollBackward(adv_point(rng), adv_tip(rng)), _ => cs::Message::RollForward(adv_header(rng), adv_tip(rng)) })),
            7 => sent(b, log, AnyMessage::ChainSync(if rng.bool() { cs::Message::RollBackward(adv_point(rng), adv_tip(rng)) } else { cs::Message::RollForward(adv_header(rng), adv_tip(rng)) })),
            9 => {}
            _ => recv(b, log, AnyMessage::ChainSync(if rng.bool() { cs::Message::FindIntersect(adv_points(rng)) } else { cs::Message::RequestNext })),
        },
        4 => match v[6] {
            0 => sent(b, log, AnyMessage::TxSubmission(tx::Message::Init)),
            1 => sent(b, log, AnyMessage::TxSubmission(if rng.bool() { tx::Message::RequestTxIds(rng.bool(), adv_count(rng), adv_count(rng)) } else { tx::Message::RequestTxs(adv_txids(rng).into_iter().map(|x| x.0).collect()) })),
            2 | 3 => recv(b, log, AnyMessage::TxSubmission(tx::Message::ReplyTxIds(adv_txids(rng)))),
            4 => recv(b, log, AnyMessage::TxSubmission(tx::Message::ReplyTxs(adv_txbodies(rng)))),
            _ => {}
        },
        5 => match v[7] {
            2 => sent(b, log, AnyMessage::LeiosNotify(match rng.below(4) { 0 => ln::Message::BlockAnnouncement(adv_cbor(rng)), 1 => ln::Message::BlockOffer(adv_point(rng), *rng.pick(&[0u32, u32::MAX])),
                    2 => ln::Message::BlockTxsOffer(adv_point(rng)), _ => ln::Message::Votes((0..*rng.pick(&[0usize, 1, 400])).map(|_| adv_cbor_s(rng)).collect()) })),
            3 => {}
            _ => recv(b, log, AnyMessage::LeiosNotify(ln::Message::RequestNext)),
        },
        _ => match v[8] {
            2 => sent(b, log, AnyMessage::LeiosFetch(lf::Message::Block(adv_cbor(rng)))),
            3 => sent(b, log, AnyMessage::LeiosFetch(lf::Message::BlockTxs { point: adv_point(rng), bitmaps: adv_bitmaps(rng), txs: (0..*rng.pick(&[0usize, 1, 300])).map(|_| adv_cbor_s(rng)).collect() })),
            4 => {}
            _ => recv(b, log, AnyMessage::LeiosFetch(if rng.bool() { lf::Message::BlockRequest(adv_point(rng)) } else { lf::Message::BlockTxsRequest(adv_point(rng), adv_bitmaps(rng)) })),
        },
    }
}

pub fn raw_responder(rng: &mut Rng, label: String, len: usize) {
    let cfg = RCfg { max_err: rng.below(3) as u32, max_ip: *rng.pick(&[1usize, 10, 10]), vers: if rng.bool() { vec![(13, MAINNET_MAGIC as i64)] } else { vec![(11, 2), (13, MAINNET_MAGIC as i64), (15, MAINNET_MAGIC as i64)] } };
    let mut b = new_responder(&cfg);
    let mut log = RawLog::new(format!("{} cfg={:?}", label, cfg));
    let npeers = 4i64;
    let mut counter = 0u32;
    for _ in 0..len {
        if log.failed { break; }
        let p = rng.below(npeers as u64) as i64;
        let snap = b.peers.get(&rpid(p)).map(resp_peer_snapshot);
        let r = rng.below(100);
        if r < 8 || snap.is_none() && r < 60 {
            log.call("responder", format!("Connected({})", p), format!("handle_io(Connected({}))", p), || { b.handle_io(InterfaceEvent::Connected(rpid(p))); drain_resp(&mut b); });
        } else if r < 16 {
            let idle = rng.bool();
            log.call("responder", "Housekeeping".into(), "housekeeping".into(), || { if idle { b.handle_io(InterfaceEvent::Idle) } else { b.execute(ResponderCommand::Housekeeping) }; drain_resp(&mut b); });
        } else if r < 19 {
            log.call("responder", format!("Disconnected({})", p), format!("handle_io(Disconnected({}))", p), || { b.handle_io(InterfaceEvent::Disconnected(rpid(p))); drain_resp(&mut b); });
        } else if r < 21 {
            log.call("responder", format!("Error({})", p), format!("handle_io(Error({}))", p), || { b.handle_io(InterfaceEvent::Error(rpid(p), InterfaceError::Other("e".into()))); drain_resp(&mut b); });
        } else if r < 29 {
            // hostile data regardless of the protocol state (may flag a violation), in either direction
            let m = adv_any(rng, &mut counter); let d = short(&m, 140); let f = short(&m, 700);
            if rng.bool() { log.call("responder", format!("Recv({},{})", p, d), format!("handle_io(Recv({}, [{}]))", p, f), || { b.handle_io(InterfaceEvent::Recv(rpid(p), vec![m])); drain_resp(&mut b); }); }
            else { log.call("responder", format!("Sent({},{})", p, d), format!("handle_io(Sent({}, {}))", p, f), || { b.handle_io(InterfaceEvent::Sent(rpid(p), m)); drain_resp(&mut b); }); }
        } else if r < 33 {
            let cmd = match rng.below(8) {
                0 => ResponderCommand::ProvideIntersection(rpid(p), adv_point(rng), adv_tip(rng)),
                1 => ResponderCommand::ProvideHeader(rpid(p), adv_header(rng), adv_tip(rng)),
                2 => ResponderCommand::ProvideRollback(rpid(p), adv_point(rng), adv_tip(rng)),
                3 => ResponderCommand::ProvideEbAnnouncement(rpid(p), adv_cbor(rng)),
                4 => ResponderCommand::ProvideEbOffer(rpid(p), adv_point(rng), *rng.pick(&[0u32, u32::MAX])),
                5 => ResponderCommand::ProvideVotes(rpid(p), (0..*rng.pick(&[0usize, 300])).map(|_| adv_cbor_s(rng)).collect()),
                6 => ResponderCommand::ProvideEbTxs(rpid(p), adv_point(rng), adv_bitmaps(rng), (0..*rng.pick(&[0usize, 300])).map(|_| adv_cbor_s(rng)).collect()),
                _ => ResponderCommand::ProvideEb(rpid(p), adv_cbor(rng)),
            };
            let d = short(&cmd, 140); let f = short(&cmd, 700);
            log.call("responder", format!("execute({})", d), format!("execute({})", f), || { b.execute(cmd); drain_resp(&mut b); });
        } else if let Some(v) = snap {
            resp_valid_step(rng, &mut b, &mut log, p, &v, &mut counter);
        }
    }
}

// ---------------------------------------------------------------- initiator
fn init_valid_step(rng: &mut Rng, b: &mut InitiatorBehavior, log: &mut RawLog, p: i64, v: &[i64], counter: &mut u32) {
    let id = pid(p);
    // v = [conn, tag, hs, ka, ps, bf, cs, tx, ln, lf, viol, errc, csync]
    let recv = |b: &mut InitiatorBehavior, log: &mut RawLog, m: AnyMessage| { let d = short(&m, 140); let f = short(&m, 700); let id = id.clone();
        log.call("initiator", format!("Recv({},{})", p, d), format!("handle_io(Recv({}, [{}]))", p, f), || { b.handle_io(InterfaceEvent::Recv(id, vec![m])); drain_init(b); }); };
    let sent = |b: &mut InitiatorBehavior, log: &mut RawLog, m: AnyMessage| { let d = short(&m, 140); let f = short(&m, 700); let id = id.clone();
        log.call("initiator", format!("Sent({},{})", p, d), format!("handle_io(Sent({}, {}))", p, f), || { b.handle_io(InterfaceEvent::Sent(id, m)); drain_init(b); }); };
    if v[0] == 0 || v[0] == 1 || v[0] == 4 {
        return log.call("initiator", format!("Connected({})", p), format!("handle_io(Connected({}))", p), || { b.handle_io(InterfaceEvent::Connected(id.clone())); drain_init(b); });
    }
    if v[2] == 0 { return sent(b, log, AnyMessage::Handshake(hs::Message::Propose(adv_table(rng, true)))); }
    if v[2] == 1 {
        return recv(b, log, AnyMessage::Handshake(match rng.below(10) {
            0 | 3 | 4 => hs::Message::Refuse(adv_refuse(rng)), 1 => hs::Message::QueryReply(adv_table(rng, false)),
            2 => hs::Message::Accept(*rng.pick(&[0u64, u64::MAX]), adv_vdata(rng)),
            _ => hs::Message::Accept(*rng.pick(&[13u64, 15, 15, 16]), hs::n2n::VersionData::new(MAINNET_MAGIC, false, *rng.pick(&[Some(1u8), Some(1), Some(255), Some(0), None]), Some(false))),
        }));
    }
    match rng.below(7) {
        0 => match v[3] { 2 => recv(b, log, AnyMessage::KeepAlive(ka::Message::ResponseKeepAlive(adv_cookie(rng)))), 3 => {}, _ => sent(b, log, AnyMessage::KeepAlive(ka::Message::KeepAlive(adv_cookie(rng)))) },
        1 => match v[4] { 2 => recv(b, log, AnyMessage::PeerSharing(psh::Message::SharePeers(adv_addrs(rng, counter)))), 3 => {}, _ => sent(b, log, AnyMessage::PeerSharing(psh::Message::ShareRequest(*rng.pick(&[0u8, 1, 100, 255])))) },
        2 => match v[5] {
            0 => sent(b, log, AnyMessage::BlockFetch(bf::Message::RequestRange(adv_range(rng)))),
            1 => recv(b, log, AnyMessage::BlockFetch(if rng.chance(1, 3) { bf::Message::NoBlocks } else { bf::Message::StartBatch })),
            2 | 3 => recv(b, log, AnyMessage::BlockFetch(if rng.chance(2, 3) { bf::Message::Block(adv_bytes(rng)) } else { bf::Message::BatchDone })),
            _ => {}
        },
        3 => match v[6] {
            8 => recv(b, log, AnyMessage::ChainSync(if rng.chance(1, 4) { cs::Message::IntersectNotFound(adv_tip(rng)) } else { cs::Message::IntersectFound(adv_point(rng), adv_tip(rng)) })),
            6 => recv(b, log, AnyMessage::ChainSync(match rng.below(3) { 0 => cs::Message::AwaitReply, 1 => cs::Message::RollBackward(adv_point(rng), adv_tip(rng)), _ => cs::Message::RollForward(adv_header(rng), adv_tip(rng)) })),
            7 => recv(b, log, AnyMessage::ChainSync(if rng.bool() { cs::Message::RollBackward(adv_point(rng), adv_tip(rng)) } else { cs::Message::RollForward(adv_header(rng), adv_tip(rng)) })),
            9 => {}
            _ => sent(b, log, AnyMessage::ChainSync(if rng.bool() { cs::Message::FindIntersect(adv_points(rng)) } else { cs::Message::RequestNext })),
        },
        4 => match v[7] {
            0 => sent(b, log, AnyMessage::TxSubmission(tx::Message::Init)),
            1 => recv(b, log, AnyMessage::TxSubmission(if rng.bool() { tx::Message::RequestTxIds(rng.bool(), adv_count(rng), adv_count(rng)) } else { tx::Message::RequestTxs(adv_txids(rng).into_iter().map(|x| x.0).collect()) })),
            2 | 3 => sent(b, log, AnyMessage::TxSubmission(tx::Message::ReplyTxIds(adv_txids(rng)))),
            4 => sent(b, log, AnyMessage::TxSubmission(tx::Message::ReplyTxs(adv_txbodies(rng)))),
            _ => {}
        },
        5 => match v[8] {
            2 => recv(b, log, AnyMessage::LeiosNotify(match rng.below(4) { 0 => ln::Message::BlockAnnouncement(adv_cbor(rng)), 1 => ln::Message::BlockOffer(adv_point(rng), *rng.pick(&[0u32, u32::MAX])),
                    2 => ln::Message::BlockTxsOffer(adv_point(rng)), _ => ln::Message::Votes((0..*rng.pick(&[0usize, 1, 400])).map(|_| adv_cbor_s(rng)).collect()) })),
            3 => {}
            _ => sent(b, log, AnyMessage::LeiosNotify(ln::Message::RequestNext)),
        },
        _ => match v[9] {
            2 => recv(b, log, AnyMessage::LeiosFetch(lf::Message::Block(adv_cbor(rng)))),
            3 => recv(b, log, AnyMessage::LeiosFetch(lf::Message::BlockTxs { point: adv_point(rng), bitmaps: adv_bitmaps(rng), txs: (0..*rng.pick(&[0usize, 1, 300])).map(|_| adv_cbor_s(rng)).collect() })),
            4 => {}
            _ => sent(b, log, AnyMessage::LeiosFetch(if rng.bool() { lf::Message::BlockRequest(adv_point(rng)) } else { lf::Message::BlockTxsRequest(adv_point(rng), adv_bitmaps(rng)) })),
        },
    }
}

fn init_cmd(rng: &mut Rng, b: &mut InitiatorBehavior, log: &mut RawLog, npeers: i64) {
    let p = 1 + rng.below(npeers as u64) as i64;
    let cmd = match rng.below(12) {
        0 | 1 | 2 => InitiatorCommand::IncludePeer(pid(p)),
        3 => InitiatorCommand::StartSync(adv_points(rng)),
        4 | 5 => InitiatorCommand::ContinueSync(pid(p)),
        6 => InitiatorCommand::RequestBlocks(adv_range(rng)),
        7 => InitiatorCommand::FetchEb(pid(p), adv_point(rng)),
        8 => InitiatorCommand::FetchEbTxs(pid(p), adv_point(rng), adv_bitmaps(rng)),
        9 => InitiatorCommand::SendTx(pid(p), tx::EraTxId(u16::MAX, adv_bytes(rng)), tx::EraTxBody(0, adv_bytes(rng))),
        10 => InitiatorCommand::BanPeer(pid(p)),
        _ => InitiatorCommand::DemotePeer(pid(p)),
    };
    let d = short(&cmd, 140); let f = short(&cmd, 700);
    log.call("initiator", format!("execute({})", d), format!("execute({})", f), || { b.execute(cmd); drain_init(b); });
}

pub fn raw_initiator(rng: &mut Rng, label: String, len: usize) {
    // half of the histories run with a (nearly) full promotion table
    let cfg = if rng.bool() { PCfg { max_peers: 100, max_warm: 50, max_hot: 10, max_err: 1 } }
              else { PCfg { max_peers: rng.range(1, 3) as usize, max_warm: rng.range(1, 2) as usize, max_hot: rng.range(0, 1) as usize, max_err: rng.below(2) as u32 } };
    let mut b = new_initiator(cfg.max_peers, cfg.max_warm, cfg.max_hot, cfg.max_err);
    let mut log = RawLog::new(format!("{} cfg={:?}", label, cfg));
    let npeers = 5i64;
    let mut counter = 0u32;
    let hk = |b: &mut InitiatorBehavior, log: &mut RawLog, idle: bool| log.call("initiator", "Housekeeping".into(), "housekeeping".into(), || { if idle { b.handle_io(InterfaceEvent::Idle) } else { b.execute(InitiatorCommand::Housekeeping) }; drain_init(b); });
    for q in 1..=npeers { let id = pid(q); log.call("initiator", format!("IncludePeer({})", q), format!("execute(IncludePeer({}))", q), || { b.execute(InitiatorCommand::IncludePeer(id)); drain_init(&mut b); }); }
    hk(&mut b, &mut log, false);
    for _ in 0..len {
        if log.failed { break; }
        let p = 1 + rng.below(npeers as u64) as i64;
        let snap = b.peers.get(&pid(p)).map(init_peer_snapshot);
        let r = rng.below(100);
        if r < 16 { hk(&mut b, &mut log, rng.chance(1, 3)); }
        else if r < 28 { init_cmd(rng, &mut b, &mut log, npeers + 1); }
        else if r < 32 { log.call("initiator", format!("Disconnected({})", p), format!("handle_io(Disconnected({}))", p), || { b.handle_io(InterfaceEvent::Disconnected(pid(p))); drain_init(&mut b); }); }
        else if r < 34 { log.call("initiator", format!("Error({})", p), format!("handle_io(Error({}))", p), || { b.handle_io(InterfaceEvent::Error(pid(p), InterfaceError::Other("e".into()))); drain_init(&mut b); }); }
        else if r < 42 {
            let m = adv_any(rng, &mut counter); let d = short(&m, 140); let f = short(&m, 700);
            if rng.bool() { log.call("initiator", format!("Recv({},{})", p, d), format!("handle_io(Recv({}, [{}]))", p, f), || { b.handle_io(InterfaceEvent::Recv(pid(p), vec![m])); drain_init(&mut b); }); }
            else { log.call("initiator", format!("Sent({},{})", p, d), format!("handle_io(Sent({}, {}))", p, f), || { b.handle_io(InterfaceEvent::Sent(pid(p), m)); drain_init(&mut b); }); }
        } else if let Some(v) = snap { init_valid_step(rng, &mut b, &mut log, p, &v, &mut counter); }
    }
}

/// directed: several peers return more than 100 addresses between two housekeeping passes while a further
/// peer is still available for a request; and a full promotion table with a peer that got no slot
pub fn raw_directed(rng: &mut Rng) {
    for (k, per_peer) in [(0usize, 60usize), (1, 120), (2, 255)] {
        let mut b = new_initiator(100, 50, 10, 1);
        let mut log = RawLog::new(format!("raw-directed discovery-overflow #{} ({} addresses per peer)", k, per_peer));
        let mut counter = 1000u32;
        let vd = hs::n2n::VersionData::new(MAINNET_MAGIC, false, Some(1), Some(false));
        let mut step = |log: &mut RawLog, b: &mut InitiatorBehavior, d: String, f: Box<dyn FnOnce(&mut InitiatorBehavior)>| log.call("initiator", d.clone(), d, || { f(b); drain_init(b); });
        for q in 1..=4i64 { step(&mut log, &mut b, format!("IncludePeer({})", q), Box::new(move |b| b.execute(InitiatorCommand::IncludePeer(pid(q))))); }
        step(&mut log, &mut b, "Housekeeping".into(), Box::new(|b| b.execute(InitiatorCommand::Housekeeping)));
        let shake = |log: &mut RawLog, b: &mut InitiatorBehavior, q: i64, vd: hs::n2n::VersionData| {
            log.call("initiator", format!("Connected({})", q), format!("Connected({})", q), || { b.handle_io(InterfaceEvent::Connected(pid(q))); drain_init(b); });
            let mut values = HashMap::new(); values.insert(13u64, vd.clone());
            log.call("initiator", format!("Sent({},Propose)", q), format!("Sent({},Propose)", q), || { b.handle_io(InterfaceEvent::Sent(pid(q), AnyMessage::Handshake(hs::Message::Propose(hs::VersionTable { values })))); drain_init(b); });
            log.call("initiator", format!("Recv({},Accept)", q), format!("Recv({},Accept(13))", q), || { b.handle_io(InterfaceEvent::Recv(pid(q), vec![AnyMessage::Handshake(hs::Message::Accept(13, vd))])); drain_init(b); });
        };
        for q in 1..=3i64 { shake(&mut log, &mut b, q, vd.clone()); }
        step(&mut log, &mut b, "Housekeeping".into(), Box::new(|b| b.execute(InitiatorCommand::Housekeeping)));
        for q in 1..=3i64 {
            log.call("initiator", format!("Sent({},ShareRequest)", q), format!("Sent({},ShareRequest(100))", q), || { b.handle_io(InterfaceEvent::Sent(pid(q), AnyMessage::PeerSharing(psh::Message::ShareRequest(100)))); drain_init(&mut b); });
            let l: Vec<psh::PeerAddress> = (0..per_peer).map(|_| { counter += 1; psh::PeerAddress::V4(Ipv4Addr::new(172, 20, (counter >> 8) as u8, counter as u8), 3001) }).collect();
            log.call("initiator", format!("Recv({},SharePeers({}))", q, per_peer), format!("Recv({},SharePeers({} distinct addresses))", q, per_peer), || { b.handle_io(InterfaceEvent::Recv(pid(q), vec![AnyMessage::PeerSharing(psh::Message::SharePeers(l))])); drain_init(&mut b); });
        }
        shake(&mut log, &mut b, 4, vd.clone());
        for _ in 0..3 { step(&mut log, &mut b, "Housekeeping".into(), Box::new(|b| b.execute(InitiatorCommand::Housekeeping))); }
        let _ = rng.next();
    }
    // every hostile refuse text, both reason kinds, on both sides of the handshake
    for k in 0..N_TEXTS {
        for kind in 0..2 {
            let reason = || if kind == 0 { hs::RefuseReason::Refused(13, adv_text_k(k)) } else { hs::RefuseReason::HandshakeDecodeError(u64::MAX, adv_text_k(k)) };
            let mut values = HashMap::new(); values.insert(13u64, hs::n2n::VersionData::new(MAINNET_MAGIC, false, Some(1), Some(false)));
            let table = hs::VersionTable { values };
            {
                let mut b = new_initiator(100, 50, 10, 1);
                let mut log = RawLog::new(format!("raw-directed refuse-text #{} kind {} (initiator)", k, kind));
                let t = table.clone(); let r = reason();
                log.call("initiator", "IncludePeer(1)".into(), "IncludePeer(1)".into(), || { b.execute(InitiatorCommand::IncludePeer(pid(1))); b.execute(InitiatorCommand::Housekeeping); drain_init(&mut b); });
                log.call("initiator", "Connected(1)".into(), "Connected(1)".into(), || { b.handle_io(InterfaceEvent::Connected(pid(1))); drain_init(&mut b); });
                log.call("initiator", "Sent(1,Propose)".into(), "Sent(1,Propose)".into(), || { b.handle_io(InterfaceEvent::Sent(pid(1), AnyMessage::Handshake(hs::Message::Propose(t)))); drain_init(&mut b); });
                let d = short(&r, 300);
                log.call("initiator", format!("Recv(1,Refuse({}))", d), format!("handle_io(Recv(1, [Refuse({})]))", d), || { b.handle_io(InterfaceEvent::Recv(pid(1), vec![AnyMessage::Handshake(hs::Message::Refuse(r))])); b.execute(InitiatorCommand::Housekeeping); drain_init(&mut b); });
            }
            {
                let mut b = new_responder(&RCfg { max_err: 1, max_ip: 10, vers: vec![(13, MAINNET_MAGIC as i64)] });
                let mut log = RawLog::new(format!("raw-directed refuse-text #{} kind {} (responder)", k, kind));
                let t = table.clone(); let r = reason();
                log.call("responder", "Connected(1)".into(), "Connected(1)".into(), || { b.handle_io(InterfaceEvent::Connected(rpid(1))); drain_resp(&mut b); });
                log.call("responder", "Recv(1,Propose)".into(), "Recv(1,Propose)".into(), || { b.handle_io(InterfaceEvent::Recv(rpid(1), vec![AnyMessage::Handshake(hs::Message::Propose(t))])); drain_resp(&mut b); });
                let d = short(&r, 300);
                log.call("responder", format!("Sent(1,Refuse({}))", d), format!("handle_io(Sent(1, Refuse({})))", d), || { b.handle_io(InterfaceEvent::Sent(rpid(1), AnyMessage::Handshake(hs::Message::Refuse(r)))); b.execute(ResponderCommand::Housekeeping); drain_resp(&mut b); });
            }
        }
    }
    // full promotion table: a peer that gets no slot, disconnects of slot holders, housekeeping, re-includes
    for max_peers in [1usize, 2, 3] {
        for order in 0..4u32 {
            let mut b = new_initiator(max_peers, 1, 1, 0);
            let mut log = RawLog::new(format!("raw-directed table-full max_peers={} variant {}", max_peers, order));
            let mut call = |d: String, f: Box<dyn FnOnce(&mut InitiatorBehavior)>| log.call("initiator", d.clone(), d, || { f(&mut b); drain_init(&mut b); });
            for q in 1..=(max_peers as i64 + 2) { call(format!("IncludePeer({})", q), Box::new(move |b| b.execute(InitiatorCommand::IncludePeer(pid(q))))); }
            call("Housekeeping".into(), Box::new(|b| b.execute(InitiatorCommand::Housekeeping)));
            let x = if order % 2 == 0 { 1 } else { max_peers as i64 + 1 };
            call(format!("Connected({})", x), Box::new(move |b| b.handle_io(InterfaceEvent::Connected(pid(x)))));
            if order >= 2 { call(format!("Error({})", x), Box::new(move |b| b.handle_io(InterfaceEvent::Error(pid(x), InterfaceError::Other("e".into()))))); }
            call(format!("Disconnected({})", x), Box::new(move |b| b.handle_io(InterfaceEvent::Disconnected(pid(x)))));
            call("Housekeeping".into(), Box::new(|b| b.execute(InitiatorCommand::Housekeeping)));
            call(format!("Disconnected({})", max_peers as i64 + 2), Box::new(move |b| b.handle_io(InterfaceEvent::Disconnected(pid(max_peers as i64 + 2)))));
            call("Idle".into(), Box::new(|b| b.handle_io(InterfaceEvent::Idle)));
            call(format!("IncludePeer({})", max_peers as i64 + 2), Box::new(move |b| b.execute(InitiatorCommand::IncludePeer(pid(max_peers as i64 + 2)))));
            call(format!("BanPeer({})", 1), Box::new(|b| b.execute(InitiatorCommand::BanPeer(pid(1)))));
            call("Housekeeping".into(), Box::new(|b| b.execute(InitiatorCommand::Housekeeping)));
            call(format!("IncludePeer({})", 1), Box::new(|b| b.execute(InitiatorCommand::IncludePeer(pid(1)))));
            call("Housekeeping".into(), Box::new(|b| b.execute(InitiatorCommand::Housekeeping)));
        }
    }
}
