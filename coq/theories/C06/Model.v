(* C06 model: the minicbor-derive attribute semantics (minicbor-derive 0.16.2, encode.rs /
   decode.rs) for the shapes the era model.rs files use, as generic codecs over a small
   [schema] datatype:

     #[derive(Encode, Decode)] struct, array encoding, fields #[n(0)] .. #[n(k-1)], a field of
       type Option<T> may be absent at the end of the array or null in the middle   (SArray)
     #[cbor(flat)] enum: [index, field0, field1, ..]                                  (SFlat)
     #[cbor(index_only)] enum: the bare index                                          (SIndexOnly)
     Vec<T>                                                                            (SVec)
     u8..u64, i64, byte strings, bool                                                  (leaves)

   Encoder, as generated: array struct = array(m+1) where m is the highest index of a field
   that is not nil (nil = an Option that is None), then the fields 0..m (None as null);
   flat enum = array(1 + number of fields), index (Encoder::i64), all fields (see c_flat).
   Decoder, as generated: [d.array()?] then position i decodes field i ([Option<T>::decode]:
   null => None), positions beyond the last field are skipped, fields not reached are None
   if optional and a missing_value error otherwise; flat enum: definite array, non-empty,
   [d.i64()?] selects the arm.

   Not modelled (differential only): #[cbor(map)] structs, gaps in the index sequence,
   #[cbor(with/tag/transparent/default)], the hand-written codecs, KeepRaw. *)
From PV Require Import Lib.Base Cbor.Item Cbor.Enc Cbor.Dec Cbor.Api.
Open Scope Z_scope.

Inductive value : Type :=
| VInt (n : Z)
| VBytes (b : list Z)
| VBool (b : bool)
| VNone
| VSome (v : value)
| VList (l : list value)             (* Vec<T> *)
| VRec (fs : list value)             (* struct: one value per field, in index order *)
| VVar (idx : Z) (fs : list value).  (* enum arm with its fields *)

(* a codec for one Rust type *)
Record codec : Type := Codec {
  c_enc : value -> list Z;
  c_dec : list Z -> dres (value * list Z);
  c_ty : value -> Prop               (* the values of the Rust type *)
}.

Definition u64_max1 : Z := 18446744073709551616.
Definition i64_half : Z := 9223372036854775808.

(* ---- leaves ---- *)
Definition enc_uint (v : value) : list Z := match v with VInt n => e_uint n | _ => [] end.
Definition c_uint (bound : Z) : codec :=
  Codec enc_uint (fun bs => dmap (fun p => (VInt (fst p), snd p)) (d_uint bound bs))
        (fun v => exists n, v = VInt n /\ 0 <= n < bound).
Definition enc_int (v : value) : list Z := match v with VInt n => e_int n | _ => [] end.
Definition c_i64 : codec :=
  Codec enc_int (fun bs => dmap (fun p => (VInt (fst p), snd p)) (d_i64 bs))
        (fun v => exists n, v = VInt n /\ - i64_half <= n < i64_half).
Definition enc_bytes (v : value) : list Z := match v with VBytes b => e_bytes b | _ => [] end.
Definition c_bytes : codec :=
  Codec enc_bytes (fun bs => dmap (fun p => (VBytes (fst p), snd p)) (d_bytes bs))
        (fun v => exists b, v = VBytes b /\ bytes_wf b /\ len b < u64_max1).
Definition enc_bool (v : value) : list Z := match v with VBool b => e_bool b | _ => [] end.
Definition c_bool : codec :=
  Codec enc_bool (fun bs => dmap (fun p => (VBool (fst p), snd p)) (d_bool bs))
        (fun v => exists b, v = VBool b).

(* ---- Vec<T> ---- *)
Definition enc_vec (c : codec) (v : value) : list Z :=
  match v with VList l => e_vec (c_enc c) l | _ => [] end.
Definition c_vec (c : codec) : codec :=
  Codec (enc_vec c) (fun bs => dmap (fun p => (VList (fst p), snd p)) (d_vec (c_dec c) bs))
        (fun v => exists l, v = VList l /\ Forall (c_ty c) l /\ len l < u64_max1).

(* ---- fields of an array-encoded struct / enum arm ---- *)
Definition field : Type := (bool * codec)%type.    (* is Option<T>, codec of T *)

Definition is_nil (f : field) (v : value) : bool :=
  fst f && match v with VNone => true | _ => false end.

(* Encode::encode of one field: Option<T> writes null for None *)
Definition enc_field (f : field) (v : value) : list Z :=
  if fst f then match v with VSome x => c_enc (snd f) x | _ => e_null end
  else c_enc (snd f) v.

(* Decode::decode of one field: Option<T>::decode = null -> None *)
Definition dec_field (f : field) (bs : list Z) : dres (value * list Z) :=
  if fst f then
    dbind (d_option (c_dec (snd f)) bs) (fun '(o, r) =>
      DOk (match o with Some x => VSome x | None => VNone end, r))
  else c_dec (snd f) bs.

Definition field_ty (f : field) (v : value) : Prop :=
  if fst f then v = VNone \/ exists x, v = VSome x /\ c_ty (snd f) x
  else c_ty (snd f) v.

(* highest index of a non-nil field, plus one (0 when every field is nil) *)
Fixpoint live_len (fs : list field) (vs : list value) : nat :=
  match fs, vs with
  | f :: fs', v :: vs' =>
    match live_len fs' vs' with
    | O => if is_nil f v then O else 1%nat
    | S k => S (S k)
    end
  | _, _ => O
  end.

(* the first n fields *)
Fixpoint enc_fields (n : nat) (fs : list field) (vs : list value) : list Z :=
  match n, fs, vs with
  | S n', f :: fs', v :: vs' => enc_field f v ++ enc_fields n' fs' vs'
  | _, _, _ => []
  end.

(* one well-formed item, consumed (Decoder::skip on well-formed input) *)
Definition skip_one (bs : list Z) : dres (unit * list Z) :=
  dbind (decode bs) (fun '(_, r) => DOk (tt, r)).

(* for i in 0..n { match i { idx => field, _ => skip } }, then the missing-field checks:
   with the indices 0..k-1 the i-th round meets the i-th field *)
Fixpoint dec_fields (fs : list field) (n : Z) (bs : list Z) : dres (list value * list Z) :=
  match fs with
  | [] => dbind (seq_loop skip_one (budget bs) n bs) (fun '(_, r) => DOk ([], r))
  | f :: fs' =>
    if n <=? 0 then
      (* array exhausted: an Option field defaults to None, any other is missing_value *)
      if fst f then dbind (dec_fields fs' n bs) (fun '(vs, r) => DOk (VNone :: vs, r)) else DErr
    else
      dbind (dec_field f bs) (fun '(v, r) =>
      dbind (dec_fields fs' (n - 1) r) (fun '(vs, r') => DOk (v :: vs, r')))
  end.

(* elements until the break (indefinite array): same loop, the length is not known up front *)
Fixpoint dec_fields_indef (fuel : nat) (fs : list field) (bs : list Z) : dres (list value * list Z) :=
  match fuel with
  | O => DErr
  | S k =>
    match bs with
    | [] => DEoi
    | b :: r0 =>
      if b =? break_byte then
        (if forallb fst fs then DOk (map (fun _ => VNone) fs, r0) else DErr)
      else
        match fs with
        | [] => dbind (skip_one bs) (fun '(_, r) => dec_fields_indef k [] r)
        | f :: fs' =>
          dbind (dec_field f bs) (fun '(v, r) =>
          dbind (dec_fields_indef k fs' r) (fun '(vs, r') => DOk (v :: vs, r')))
        end
    end
  end.

(* ---- #[derive] struct, array encoding ---- *)
Definition enc_struct (fs : list field) (v : value) : list Z :=
  match v with
  | VRec vs => let n := live_len fs vs in e_array (Z.of_nat n) ++ enc_fields n fs vs
  | _ => []
  end.
Definition dec_struct (fs : list field) (bs : list Z) : dres (value * list Z) :=
  dbind (d_array bs) (fun '(l, r) =>
    dbind (match l with
           | Some n => dec_fields fs n r
           | None => dec_fields_indef (budget r) fs r
           end) (fun '(vs, r') => DOk (VRec vs, r'))).
Definition struct_ty (fs : list field) (v : value) : Prop :=
  exists vs, v = VRec vs /\ Forall2 field_ty fs vs.
Definition c_struct (fs : list field) : codec := Codec (enc_struct fs) (dec_struct fs) (struct_ty fs).

(* ---- #[cbor(flat)] enum: [idx, fields..] ----
   The generated encoder of an enum arm asks [Encode::is_nil(&field)] with [field : &Option<T>]
   (a pattern binding), i.e. on [&&Option<T>]; minicbor's [impl Encode for &T] does not forward
   [is_nil], so the answer is always false: an arm never drops trailing None fields, it writes
   all its fields (None as null). (Found by the differential run; structs do drop them.) *)
Definition arm : Type := (Z * list field)%type.
Fixpoint find_arm (idx : Z) (arms : list arm) : option (list field) :=
  match arms with
  | [] => None
  | (i, fs) :: t => if i =? idx then Some fs else find_arm idx t
  end.
Definition enc_flat (arms : list arm) (v : value) : list Z :=
  match v with
  | VVar idx vs =>
    match find_arm idx arms with
    | Some fs => let n := length fs in e_array (1 + Z.of_nat n) ++ e_int idx ++ enc_fields n fs vs
    | None => []
    end
  | _ => []
  end.
Definition dec_flat (arms : list arm) (bs : list Z) : dres (value * list Z) :=
  dbind (d_array bs) (fun '(l, r) =>
    match l with
    | None => DErr                       (* "flat enum requires definite-length array" *)
    | Some n =>
      if n =? 0 then DErr                (* "flat enum requires non-empty array" *)
      else
        dbind (d_i64 r) (fun '(idx, r1) =>
          match find_arm idx arms with
          | None => DErr                 (* unknown_variant *)
          | Some fs => dbind (dec_fields fs (n - 1) r1) (fun '(vs, r') => DOk (VVar idx vs, r'))
          end)
    end).
Definition flat_ty (arms : list arm) (v : value) : Prop :=
  exists idx vs fs, v = VVar idx vs /\ find_arm idx arms = Some fs /\ Forall2 field_ty fs vs /\
                    - i64_half <= idx < i64_half.
Definition c_flat (arms : list arm) : codec := Codec (enc_flat arms) (dec_flat arms) (flat_ty arms).

(* ---- #[cbor(index_only)] enum: the bare index ---- *)
Definition enc_index (v : value) : list Z := match v with VVar idx _ => e_int idx | _ => [] end.
Definition dec_index (idxs : list Z) (bs : list Z) : dres (value * list Z) :=
  dbind (d_i64 bs) (fun '(idx, r) => if existsb (Z.eqb idx) idxs then DOk (VVar idx [], r) else DErr).
Definition c_index (idxs : list Z) : codec :=
  Codec enc_index (dec_index idxs)
        (fun v => exists idx, v = VVar idx [] /\ In idx idxs /\ - i64_half <= idx < i64_half).

(* ---------------------------------------------------------------- schemas *)
Inductive schema : Type :=
| SUInt (bits : Z)                            (* 8, 16, 32, 64 *)
| SInt64
| SBytes
| SBool
| SVec (s : schema)
| SArray (fields : list (bool * schema))      (* struct, #[n(0)] .. #[n(k-1)] *)
| SFlat (arms : list (Z * list (bool * schema)))
| SIndexOnly (idxs : list Z).

Fixpoint codec_of (s : schema) : codec :=
  match s with
  | SUInt bits => c_uint (2 ^ bits)
  | SInt64 => c_i64
  | SBytes => c_bytes
  | SBool => c_bool
  | SVec s' => c_vec (codec_of s')
  | SArray fields => c_struct (map (fun f => (fst f, codec_of (snd f))) fields)
  | SFlat arms => c_flat (map (fun a => (fst a, map (fun f => (fst f, codec_of (snd f))) (snd a))) arms)
  | SIndexOnly idxs => c_index idxs
  end.

Definition enc_schema (s : schema) (v : value) : list Z := c_enc (codec_of s) v.
Definition dec_schema (s : schema) (bs : list Z) : dres (value * list Z) := c_dec (codec_of s) bs.
Definition has_type (v : value) (s : schema) : Prop := c_ty (codec_of s) v.

(* decidable side conditions: integer widths, distinct enum indices within i64 *)
Fixpoint nodupb (l : list Z) : bool :=
  match l with [] => true | x :: t => negb (existsb (Z.eqb x) t) && nodupb t end.
Definition idx_ok (i : Z) : bool := (- i64_half <=? i) && (i <? i64_half).

Fixpoint wf_schema (s : schema) : bool :=
  match s with
  | SUInt bits => (bits =? 8) || (bits =? 16) || (bits =? 32) || (bits =? 64)
  | SInt64 | SBytes | SBool => true
  | SVec s' => wf_schema s'
  | SArray fields => (len fields <? 65536) && forallb (fun f => wf_schema (snd f)) fields
  | SFlat arms =>
    nodupb (map fst arms) && forallb (fun a => idx_ok (fst a)) arms &&
    forallb (fun a => (len (snd a) <? 65536) && forallb (fun f => wf_schema (snd f)) (snd a)) arms
  | SIndexOnly idxs => nodupb idxs && forallb idx_ok idxs
  end.
