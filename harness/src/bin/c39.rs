//! C39: validate_txs updates the caller's CertState atomically.
//! case := (table, s0, txs, result, s_after)
//!   table   : observed behaviour of the real `validate_tx` along the in-order
//!             application: ((state id, txix, tx id), (state id after, error id option))
//!   s0      : id of the caller's CertState before the call
//!   txs     : tx ids of the sequence
//!   result  : None = Ok, Some e = Err (error id), Some (-2) = panic
//!   s_after : id of the caller's CertState after the real `validate_txs`
//! State ids are interned canonical renderings of CertState (every map sorted).
//! Oracle (independent of the Coq model): on Err/panic the rendering is unchanged,
//! on Ok it equals the rendering after applying validate_tx to every transaction
//! in order (each of them succeeding); an Err is the first failing transaction's.
use pallas_codec::minicbor;
use pallas_codec::utils::Bytes;
use pallas_crypto::hash::Hash;
use pallas_primitives::alonzo::{
    Certificate, ExUnitPrices, ExUnits, Nonce, NonceVariant, RationalNumber, Relay, StakeCredential, TransactionBody,
    TransactionOutput, Tx, Value,
};
use pallas_primitives::PoolMetadata;
use pallas_traverse::{Era, MultiEraInput, MultiEraOutput, MultiEraTx};
use pallas_validate::phase1::{validate_tx, validate_txs};
use pallas_validate::utils::{
    AccountState, AlonzoProtParams, ByronProtParams, CertPointer, CertState, Environment, MultiEraProtocolParameters,
    PoolParam, ShelleyProtParams, UTxOs,
};
use std::borrow::Cow;
use std::collections::HashMap;
use std::str::FromStr;
use verif_harness::*;

fn leak<T>(v: T) -> &'static T { Box::leak(Box::new(v)) }

fn repo() -> String { std::env::var("VERIF_REPO").unwrap_or_else(|_| "/repo".into()) }

fn load_tx(name: &str) -> &'static [u8] {
    let p = format!("{}/test_data/{}.tx", repo(), name);
    let s = std::fs::read_to_string(&p).unwrap_or_else(|e| panic!("cannot read {}: {}", p, e));
    leak(hex::decode(s.trim()).expect("fixture hex")).as_slice()
}

// ---- as in pallas-validate/tests/common.rs ----
fn minted_tx_from_cbor(tx_cbor: &'static [u8]) -> Tx<'static> { minicbor::decode::<Tx>(tx_cbor).unwrap() }

fn add_utxo_for_alonzo_compatible_tx(utxos: &mut UTxOs<'static>, tx_body: &TransactionBody, info: &[(&str, Value)]) {
    for (tx_in, (address, amount)) in std::iter::zip(tx_body.inputs.clone(), info) {
        let multi_era_in: MultiEraInput = MultiEraInput::AlonzoCompatible(Box::new(Cow::Owned(tx_in)));
        let address_bytes: Bytes = Bytes::from(hex::decode(address).expect("address hex"));
        let tx_out = TransactionOutput { address: address_bytes, amount: amount.clone(), datum_hash: None };
        let multi_era_out: MultiEraOutput = MultiEraOutput::AlonzoCompatible(Box::new(Cow::Owned(tx_out)), Era::Alonzo);
        utxos.insert(multi_era_in, multi_era_out);
    }
}

/// chrono is not a dependency of the harness: take the DateTime value
/// (2017-09-23T21:44:51Z) out of the library's own Byron conversion.
fn byron_pp() -> ByronProtParams {
    ByronProtParams {
        block_version: (0, 0, 0), start_time: 1506203091, script_version: 0, slot_duration: 20000, max_block_size: 2000000,
        max_header_size: 2000000, max_tx_size: 4096, max_proposal_size: 700, mpc_thd: 20000000000000,
        heavy_del_thd: 300000000000, update_vote_thd: 1000000000000, update_proposal_thd: 100000000000000,
        update_implicit: 10000, soft_fork_rule: (900000000000000, 600000000000000, 50000000000000), summand: 155381,
        multiplier: 44, unlock_stake_epoch: 18446744073709551615,
    }
}

fn rn(n: u64, d: u64) -> RationalNumber { RationalNumber { numerator: n, denominator: d } }

// hardcoded_environment_values!() of tests/shelley_ma.rs
fn shelley_env(max_tx_size: u32, block_slot: u64) -> Environment {
    let start = MultiEraProtocolParameters::Byron(byron_pp()).system_start();
    Environment {
        prot_params: MultiEraProtocolParameters::Shelley(ShelleyProtParams {
            system_start: start, epoch_length: 432000, slot_length: 1, minfee_b: 155381, minfee_a: 44,
            max_block_body_size: 65536, max_transaction_size: max_tx_size, max_block_header_size: 1100,
            key_deposit: 2000000, pool_deposit: 500000000, maximum_epoch: 18, desired_number_of_stake_pools: 150,
            pool_pledge_influence: rn(1, 1), expansion_rate: rn(1, 1), treasury_growth_rate: rn(1, 1),
            decentralization_constant: rn(1, 1),
            extra_entropy: Nonce { variant: NonceVariant::NeutralNonce, hash: None },
            protocol_version: (0, 2), min_utxo_value: 1000000, min_pool_cost: 340000000,
        }),
        prot_magic: 764824073, block_slot, network_id: 1,
        acnt: Some(AccountState { treasury: 261_254_564_000_000, reserves: 0 }),
    }
}

// mary3_env() of tests/shelley_ma.rs
fn mary3_env(block_slot: u64) -> Environment {
    let start = MultiEraProtocolParameters::Byron(byron_pp()).system_start();
    Environment {
        prot_params: MultiEraProtocolParameters::Shelley(ShelleyProtParams {
            system_start: start, epoch_length: 432000, slot_length: 1, minfee_b: 155381, minfee_a: 44,
            max_block_body_size: 65536, max_transaction_size: 16384, max_block_header_size: 1100,
            key_deposit: 2_000_000, pool_deposit: 500_000_000, maximum_epoch: 18, desired_number_of_stake_pools: 500,
            pool_pledge_influence: rn(3, 10), expansion_rate: rn(3, 1000), treasury_growth_rate: rn(2, 10),
            decentralization_constant: rn(0, 1),
            extra_entropy: Nonce { variant: NonceVariant::NeutralNonce, hash: None },
            protocol_version: (4, 0), min_utxo_value: 1_000_000, min_pool_cost: 340_000_000,
        }),
        prot_magic: 764824073, block_slot, network_id: 1,
        acnt: Some(AccountState { treasury: 374_930_989_230_000, reserves: 12_618_536_190_580_000 }),
    }
}

// mk_params_epoch_334() of tests/alonzo.rs (cost model omitted: the fixture used has no script)
fn alonzo_env(block_slot: u64) -> Environment {
    let start = MultiEraProtocolParameters::Byron(byron_pp()).system_start();
    Environment {
        prot_params: MultiEraProtocolParameters::Alonzo(AlonzoProtParams {
            system_start: start, epoch_length: 432000, slot_length: 1, minfee_a: 44, minfee_b: 155381,
            max_block_body_size: 65536, max_transaction_size: 16384, max_block_header_size: 1100, key_deposit: 2000000,
            pool_deposit: 500000000, maximum_epoch: 18, desired_number_of_stake_pools: 500,
            pool_pledge_influence: rn(3, 10), expansion_rate: rn(3, 1000), treasury_growth_rate: rn(2, 10),
            decentralization_constant: rn(0, 1),
            extra_entropy: Nonce { variant: NonceVariant::NeutralNonce, hash: None },
            protocol_version: (6, 0), min_pool_cost: 340000000, ada_per_utxo_byte: 34482,
            cost_models_for_script_languages: Default::default(),
            execution_costs: ExUnitPrices { mem_price: rn(577, 10000), step_price: rn(721, 10000000) },
            max_tx_ex_units: ExUnits { mem: 10000000, steps: 10000000000 },
            max_block_ex_units: ExUnits { mem: 50000000, steps: 40000000000 },
            max_value_size: 5000, collateral_percentage: 150, max_collateral_inputs: 3,
        }),
        prot_magic: 764824073, block_slot, network_id: 1,
        acnt: Some(AccountState { treasury: 261_254_564_000_000, reserves: 0 }),
    }
}

fn mary2_pool_operator() -> Hash<28> { Hash::from_str("59EBE72AE96462018FBE04633100F90B3066688D85F00F3BD254707F").unwrap() }
fn mary2_owner() -> Hash<28> { Hash::from_str("FB2B631DB76384F64DD94B47F97FC8C2A206764C17A1DE7DA2F70E83").unwrap() }
fn mary2_pool_param() -> PoolParam {
    PoolParam {
        vrf_keyhash: Hash::from_str("1EFB798F239B9B02DEB4636A3AB1962AF43512595FCB82276E11971E684E49B7").unwrap(),
        pledge: 1000000000, cost: 340000000, margin: rn(3, 100),
        reward_account: hex::decode("E1FB2B631DB76384F64DD94B47F97FC8C2A206764C17A1DE7DA2F70E83").unwrap().into(),
        pool_owners: vec![mary2_owner()],
        relays: vec![Relay::SingleHostAddr(Some(3001), Some(hex::decode("C22614BB").unwrap().into()), None)],
        pool_metadata: Some(PoolMetadata {
            url: "https://cardapool.com/a.json".to_string(),
            hash: "01F708549816C9A075FF96E9682C11A5F5C7F4E147862A663BDEECE0716AB76E".to_string().try_into().unwrap(),
        }),
    }
}

// ---- canonical rendering of CertState: every map as a sorted list ----
fn sorted<I: Iterator<Item = String>>(it: I) -> String { let mut v: Vec<String> = it.collect(); v.sort(); v.join(",") }
fn ptr_s(p: &CertPointer) -> String { format!("ptr({},{},{})", p.slot, p.tx_ix, p.cert_ix) }
fn canon(cs: &CertState) -> String {
    let p = &cs.pstate;
    let d = &cs.dstate;
    format!(
        "pool_params=[{}] fut_pool_params=[{}] retiring=[{}] rewards=[{}] delegations=[{}] ptrs=[{}] fut_gen_delegs=[{}] gen_delegs=[{}] ir_reserves=[{}] ir_treasury=[{}]",
        sorted(p.pool_params.iter().map(|(k, v)| format!("{:?}=>{:?}", k, v))),
        sorted(p.fut_pool_params.iter().map(|(k, v)| format!("{:?}=>{:?}", k, v))),
        sorted(p.retiring.iter().map(|(k, v)| format!("{:?}=>{:?}", k, v))),
        sorted(d.rewards.iter().map(|(k, v)| format!("{:?}=>{:?}", k, v))),
        sorted(d.delegations.iter().map(|(k, v)| format!("{:?}=>{:?}", k, v))),
        sorted(d.ptrs.iter().map(|(k, v)| format!("{}=>{:?}", ptr_s(k), v))),
        sorted(d.fut_gen_delegs.iter().map(|(k, v)| format!("{:?}=>{:?}", k, v))),
        sorted(d.gen_delegs.iter().map(|(k, v)| format!("{:?}=>{:?}", k, v))),
        sorted(d.inst_rewards.0.iter().map(|(k, v)| format!("{:?}=>{:?}", k, v))),
        sorted(d.inst_rewards.1.iter().map(|(k, v)| format!("{:?}=>{:?}", k, v))),
    )
}

struct Interner { map: HashMap<String, i64> }
impl Interner {
    fn id(&mut self, s: &str) -> i64 {
        if let Some(v) = self.map.get(s) { return *v; }
        let v = self.map.len() as i64;
        self.map.insert(s.to_string(), v);
        v
    }
}

struct Fx { name: String, tx: &'static Tx<'static>, era: Era }

fn reencode_body(mtx: &Tx<'static>, f: impl FnOnce(&mut TransactionBody)) -> Tx<'static> {
    let mut out = mtx.clone();
    let mut body: TransactionBody = mtx.transaction_body.clone().unwrap();
    f(&mut body);
    let mut buf: Vec<u8> = Vec::new();
    minicbor::encode(&body, &mut buf).expect("encode body");
    let buf: &'static [u8] = leak(buf).as_slice();
    out.transaction_body = minicbor::decode(buf).expect("decode body");
    out
}

fn cred(rng: &mut Rng, small: bool) -> StakeCredential {
    let mut b = [0u8; 28];
    if small { b[27] = rng.below(4) as u8; } else { for x in b.iter_mut() { *x = rng.byte(); } }
    if rng.chance(1, 5) { StakeCredential::ScriptHash(Hash::from(b)) } else { StakeCredential::AddrKeyhash(Hash::from(b)) }
}

fn initial_state(rng: &mut Rng) -> CertState {
    let mut cs = CertState::default();
    if rng.chance(2, 3) { cs.dstate.rewards.insert(StakeCredential::AddrKeyhash(mary2_owner()), 0); }
    if rng.chance(1, 2) { cs.pstate.pool_params.insert(mary2_pool_operator(), mary2_pool_param()); }
    if rng.chance(1, 2) {
        for _ in 0..rng.below(4) {
            let c = cred(rng, true);
            cs.dstate.rewards.insert(c.clone(), rng.below(3));
            if rng.bool() { cs.dstate.delegations.insert(c.clone(), mary2_pool_operator()); }
            if rng.bool() { cs.dstate.ptrs.insert(CertPointer { slot: rng.below(100), tx_ix: rng.below(3) as u32, cert_ix: rng.below(3) as u32 }, c); }
        }
        if rng.bool() { cs.pstate.retiring.insert(mary2_pool_operator(), 200 + rng.below(50)); }
        if rng.bool() {
            let mut p = mary2_pool_param();
            p.cost += rng.below(1000);
            cs.pstate.fut_pool_params.insert(mary2_pool_operator(), p);
        }
        if rng.bool() { cs.dstate.inst_rewards.0.insert(cred(rng, true), rng.below(1000)); }
        if rng.bool() { cs.dstate.inst_rewards.1.insert(cred(rng, true), rng.below(1000)); }
        if rng.bool() {
            cs.dstate.gen_delegs.insert(Bytes::from(rng.bytes(28)), (Bytes::from(rng.bytes(28)), Hash::from([rng.byte(); 32])));
        }
    }
    cs
}

fn main() {
    let args = args();
    let mut rng = Rng::new(args.seed);
    let probe = args.extra.iter().any(|a| a == "--probe");

    // ---- fixtures (tests/shelley_ma.rs, tests/alonzo.rs) ----
    let base: Vec<(&str, Era, Vec<(&str, Value)>)> = vec![
        ("shelley1", Era::Shelley, vec![("0129bb156d52d014bb444a14138cbee36044c6faed37d0c2d49d2358315c465cbf8c5536970e8a29bb7adcda0d663b20007d481813694c64ef", Value::Coin(2332267427205))]),
        ("shelley2", Era::Shelley, vec![("7165c197d565e88a20885e535f93755682444d3c02fd44dd70883fe89e", Value::Coin(2000000))]),
        ("shelley3", Era::Shelley, vec![("61c96001f4a4e10567ac18be3c47663a00a858f51c56779e94993d30ef", Value::Coin(10000000))]),
        ("mary1", Era::Mary, vec![("611489ac0c22c04abc9c6de7f95d71e1ba2c95c9b4e2f6f2900f682285", Value::Coin(3500000))]),
        ("mary2", Era::Mary, vec![("018e8f7a7073b8a95a4c1f1cf412b1042fca4945b89eb11754b3481b29fb2b631db76384f64dd94b47f97fc8c2a206764c17a1de7da2f70e83", Value::Coin(1_507_817_955))]),
        ("mary3", Era::Mary, vec![("014faace6b1de3b825da7c7f4308917822049cdedb5868f7623f892d4e39cf0461807b986a6477205e376dac280d7f150eb497025f67c49757", Value::Coin(627_760_000))]),
        ("allegra1", Era::Mary, vec![("61b651c2062463499961b9cd594da399a5ec910fceb5c63f9eb55a224a", Value::Coin(96_400_000))]),
        ("alonzo1", Era::Alonzo, vec![("018c9ae79bca586ac36dcfdbbf4d2826c685a6969411c338c14973cc7f7bdb37706cd03711fe64747f8cfcfd574c7445cc0378781e77a8cc00", Value::Coin(1549646822))]),
    ];
    let mut utxos: UTxOs<'static> = UTxOs::new();
    let mut pool: Vec<Fx> = vec![];
    for (name, era, info) in &base {
        let tx: &'static Tx<'static> = leak(minted_tx_from_cbor(load_tx(name)));
        add_utxo_for_alonzo_compatible_tx(&mut utxos, &tx.transaction_body, info);
        pool.push(Fx { name: name.to_string(), tx, era: *era });
    }
    let nbase = pool.len();
    // ---- tampered variants: same inputs, so the same UTxO set serves them ----
    for i in 0..nbase {
        let (name, tx, era) = (pool[i].name.clone(), pool[i].tx, pool[i].era);
        // fails before the certificates are looked at
        pool.push(Fx { name: format!("{}-no-ttl", name), tx: leak(reencode_body(tx, |b| b.ttl = None)), era });
        // certificates (if any) are applied to the working state, THEN a later check fails
        pool.push(Fx { name: format!("{}-fee-1", name), tx: leak(reencode_body(tx, |b| b.fee = 1)), era });
        // extra stake registrations: recorded in the working state, then value / witness checks fail
        for k in 0..2u8 {
            let mut h = [0u8; 28];
            h[27] = k;
            let c = StakeCredential::AddrKeyhash(Hash::from(h));
            pool.push(Fx {
                name: format!("{}-plus-stake-reg{}", name, k),
                tx: leak(reencode_body(tx, |b| {
                    let mut v = b.certificates.clone().unwrap_or_default();
                    if k == 0 { v.push(Certificate::StakeRegistration(c.clone())); } else { v.insert(0, Certificate::StakeRegistration(c.clone())); }
                    b.certificates = Some(v);
                })),
                era,
            });
        }
        // a deregistration of a credential that initial states sometimes hold with zero rewards
        let mut h = [0u8; 28];
        h[27] = 1;
        let c = StakeCredential::AddrKeyhash(Hash::from(h));
        pool.push(Fx {
            name: format!("{}-plus-stake-dereg", name),
            tx: leak(reencode_body(tx, |b| {
                let mut v = b.certificates.clone().unwrap_or_default();
                v.push(Certificate::StakeDeregistration(c.clone()));
                b.certificates = Some(v);
            })),
            era,
        });
    }
    let metxs: Vec<MultiEraTx<'static>> = pool.iter().map(|f| MultiEraTx::from_alonzo_compatible(f.tx, f.era)).collect();

    let envs: Vec<(&str, Environment)> = vec![
        ("shelley-5281340", shelley_env(4096, 5281340)),
        ("shelley-16k-5281340", shelley_env(16384, 5281340)),
        ("shelley-16k-19282133", shelley_env(16384, 19282133)),
        ("mary3env-29035358", mary3_env(29_035_358)),
        ("mary3env-19282133", mary3_env(19282133)),
        ("mary3env-5281340", mary3_env(5281340)),
        ("shelley-16k-late", shelley_env(16384, 9999999999)),
        ("alonzo-44237276", alonzo_env(44237276)),
    ];

    if probe {
        for (en, env) in &envs {
            for (i, f) in pool.iter().enumerate() {
                let mut cs = CertState::default();
                cs.dstate.rewards.insert(StakeCredential::AddrKeyhash(mary2_owner()), 0);
                cs.pstate.pool_params.insert(mary2_pool_operator(), mary2_pool_param());
                let before = canon(&cs);
                let r = validate_tx(&metxs[i], 0, env, &utxos, &mut cs);
                eprintln!("{:24} {:28} {:?} changed={}", en, f.name, r.map_err(|e| format!("{:?}", e)), canon(&cs) != before);
            }
        }
        return;
    }

    let mut states = Interner { map: HashMap::new() };
    let mut errors = Interner { map: HashMap::new() };
    let (mut n_ok_changed, mut n_err_dirty, mut n_err, mut n_ok) = (0u64, 0u64, 0u64, 0u64);

    // which fixtures succeed in which environment (from a default-ish state), to aim the generator
    let mut good: Vec<Vec<usize>> = vec![];
    for (_, env) in &envs {
        let mut g = vec![];
        for i in 0..pool.len() {
            for with_pool in [true, false] {
                let mut cs = CertState::default();
                cs.dstate.rewards.insert(StakeCredential::AddrKeyhash(mary2_owner()), 0);
                if with_pool { cs.pstate.pool_params.insert(mary2_pool_operator(), mary2_pool_param()); }
                if let Out::Ok(()) = guard(|| validate_tx(&metxs[i], 0, env, &utxos, &mut cs).map_err(|e| format!("{:?}", e))) {
                    if !g.contains(&i) { g.push(i); }
                }
            }
        }
        good.push(g);
    }

    for it in 0..=args.n {
        let ei = if it % 8 == 7 { rng.below(envs.len() as u64) as usize } else { *rng.pick(&[0usize, 1, 2, 2, 3, 3, 4, 4, 5, 5]) };
        let (ename, env) = &envs[ei];
        let len = if it == 0 { 0 } else { match rng.below(6) { 0 => 1, 1 => 2, 2 | 3 => rng.range(3, 6) as usize, _ => rng.range(6, 14) as usize } };
        let shape = *rng.pick(&[0u64, 0, 1, 1, 2, 3, 4]);
        let g = &good[ei];
        let mut seq: Vec<usize> = vec![];
        for k in 0..len {
            let want_good = match shape {
                0 => true,                       // every transaction from the succeeding set
                1 => k + 1 < len,                // succeeding ones, a failing one last
                2 => rng.chance(4, 5),
                3 => rng.chance(1, 2),
                _ => k > 0,                      // a failing one first
            };
            if want_good && !g.is_empty() { seq.push(*rng.pick(g)); } else { seq.push(rng.below(pool.len() as u64) as usize); }
        }
        let txs: Vec<MultiEraTx<'static>> = seq.iter().map(|&i| metxs[i].clone()).collect();
        let init = initial_state(&mut rng);
        let describe = |seq: &[usize]| format!("env={} initial=[{}] txs=[{}]", ename, canon(&init), seq.iter().map(|&i| pool[i].name.clone()).collect::<Vec<_>>().join(","));

        // reference: validate_tx applied in order on a private copy
        let mut d = init.clone();
        let mut table: Vec<String> = vec![];
        let mut first_err: Option<(usize, String)> = None;
        for (k, tx) in txs.iter().enumerate() {
            let sb = states.id(&canon(&d));
            let r = guard(|| validate_tx(tx, k as u32, env, &utxos, &mut d).map_err(|e| format!("{:?}", e)));
            let sa = states.id(&canon(&d));
            let e = match r { Out::Ok(()) => None, Out::Err(e) => Some(e), Out::Panic(p) => Some(format!("panic: {}", p)) };
            table.push(format!("(({},{},{}),({},{}))", sb, k, seq[k], sa, coq_opt(&e.as_ref().map(|e| errors.id(e)), |i| coq_z(*i))));
            if let Some(e) = e { first_err = Some((k, e)); break; }
        }
        let fold_final = canon(&d);

        // the real call
        let mut cs = init.clone();
        let before = canon(&cs);
        let r = guard(|| validate_txs(&txs, env, &utxos, &mut cs).map_err(|e| format!("{:?}", e)));
        let after = canon(&cs);
        let res: Option<i64> = match &r {
            Out::Ok(()) => None,
            Out::Err(e) => Some(errors.id(e)),
            Out::Panic(_) => Some(-2),
        };
        match (&r, &first_err) {
            (Out::Ok(()), None) => {
                n_ok += 1;
                if after != fold_final {
                    emit_oracle_fail("ok-state-differs-from-fold", &format!("{} validate_txs=Ok state-after=[{}] in-order application gives [{}]", describe(&seq), after, fold_final));
                }
                if after != before { n_ok_changed += 1; }
            }
            (Out::Ok(()), Some((k, e))) => {
                emit_oracle_fail("ok-despite-failing-tx", &format!("{} validate_txs=Ok but transaction #{} fails with {} when applied in order; state-after=[{}]", describe(&seq), k, e, after));
            }
            (Out::Err(e), fe) => {
                n_err += 1;
                if after != before {
                    emit_oracle_fail("state-changed-on-error", &format!("{} validate_txs=Err({}) state-before=[{}] state-after=[{}]", describe(&seq), e, before, after));
                }
                match fe {
                    None => emit_oracle_fail("err-despite-all-valid", &format!("{} validate_txs=Err({}) but every transaction succeeds when applied in order", describe(&seq), e)),
                    Some((k, fe)) => {
                        if fe != e { emit_oracle_fail("wrong-error", &format!("{} validate_txs=Err({}) but the first failing transaction (#{}) fails with {}", describe(&seq), e, k, fe)); }
                        if fold_final != before { n_err_dirty += 1; }
                    }
                }
            }
            (Out::Panic(p), _) => {
                emit_oracle_fail("panic", &format!("{} validate_txs panicked: {}", describe(&seq), p));
                if after != before {
                    emit_oracle_fail("state-changed-on-error", &format!("{} validate_txs panicked, state-before=[{}] state-after=[{}]", describe(&seq), before, after));
                }
            }
        }
        if it < 3 { emit_sample(&format!("{} -> {:?}", describe(&seq), res)); }
        if !args.oracle_only {
            let tag = if len == 0 { "trivial-empty" } else {
                match (&first_err, fold_final != before) {
                    (None, true) => "all-valid-state-changed",
                    (None, false) => "all-valid-state-unchanged",
                    (Some(_), true) => "failing-tx-after-working-state-changed",
                    (Some((0, _)), false) => "first-tx-fails",
                    (Some(_), false) => "failing-tx-working-state-unchanged",
                }
            };
            let s0 = states.id(&before);
            let s1 = states.id(&after);
            emit_case(tag, &format!("([{}],{},{},{},{})", table.join(";"), s0, coq_list(&seq, |i| i.to_string()), coq_opt(&res, |i| coq_z(*i)), s1));
        }
    }
    emit_stat("ok", n_ok);
    emit_stat("ok_state_changed", n_ok_changed);
    emit_stat("err", n_err);
    emit_stat("err_with_dirty_working_state", n_err_dirty);
    emit_stat("distinct_states", states.map.len() as u64);
}
