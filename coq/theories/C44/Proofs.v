From PV Require Import Lib.Base C44.Model.
Open Scope Z_scope.

(* ---------- big-endian bytes ---------- *)
Lemma be_snoc bs b : be (bs ++ [b]) = be bs * 256 + b.
Proof. unfold be. rewrite fold_left_app. reflexivity. Qed.

Lemma be_be8 v : 0 <= v < 2 ^ 64 -> be (be8 v) = v.
Proof.
  intros H. unfold be, be8. cbn [fold_left].
  change (2 ^ 56) with 72057594037927936. change (2 ^ 48) with 281474976710656.
  change (2 ^ 40) with 1099511627776. change (2 ^ 32) with 4294967296.
  change (2 ^ 24) with 16777216. change (2 ^ 16) with 65536. change (2 ^ 8) with 256.
  change (2 ^ 64) with 18446744073709551616 in H. lia.
Qed.

Lemma u64_to_bigint_exact_proof v : 0 <= v < 2 ^ 64 -> ubig_val (u64_to_bigint v) = Some v.
Proof.
  intros H. unfold u64_to_bigint. destruct (v <=? i64_max) eqn:E; cbn [ubig_val]; [reflexivity|].
  rewrite be_be8 by exact H. reflexivity.
Qed.

Lemma u64_small_is_int v : 0 <= v <= i64_max -> u64_to_bigint v = UInt v.
Proof. intros H. unfold u64_to_bigint. destruct (v <=? i64_max) eqn:E; [reflexivity|lia]. Qed.

Lemma map_bigint_exact_proof b : pbig_wf b -> ubig_val (map_bigint b) = Some (pbig_val b).
Proof.
  destruct b as [z|bs|bs]; cbn [pbig_wf map_bigint pbig_val]; intros H; try reflexivity.
  unfold i64_min, i64_max.
  destruct ((- 2 ^ 63 <=? z) && (z <=? 2 ^ 63 - 1)) eqn:E1; cbn [ubig_val]; [reflexivity|].
  destruct (0 <=? z) eqn:E2; cbn [ubig_val].
  - rewrite be_be8; [reflexivity|]. change (2 ^ 64) with 18446744073709551616 in *. lia.
  - rewrite be_be8; [f_equal; lia|]. change (2 ^ 64) with 18446744073709551616 in *. lia.
Qed.

Lemma map_bigint_small_proof z : i64_min <= z <= i64_max -> map_bigint (PInt z) = UInt z.
Proof.
  intros H. cbn [map_bigint]. destruct ((i64_min <=? z) && (z <=? i64_max)) eqn:E; [reflexivity|lia].
Qed.

Lemma map_bigint_large_proof z : z < i64_min \/ i64_max < z ->
  exists bs, (map_bigint (PInt z) = UBigU bs \/ map_bigint (PInt z) = UBigN bs) /\ length bs = 8%nat.
Proof.
  intros H. cbn [map_bigint]. destruct ((i64_min <=? z) && (z <=? i64_max)) eqn:E; [lia|].
  destruct (0 <=? z); eexists; split; [left; reflexivity|reflexivity|right; reflexivity|reflexivity].
Qed.

(* the pre-fix code truncates: kept as the replayable refutation *)
Lemma map_bigint_unfixed_refuted_proof :
  exists b, pbig_wf b /\ ubig_val (map_bigint_unfixed b) <> Some (pbig_val b).
Proof. exists (PInt (2 ^ 63)). split; [cbn; lia|]. vm_compute. discriminate. Qed.

(* ---------- nested induction principle for pdata ---------- *)
Section pdata_ind_nested.
  Variable P : pdata -> Prop.
  Hypothesis HC : forall t a fs, Forall P fs -> P (PConstr t a fs).
  Hypothesis HM : forall kvs, Forall (fun kv => P (fst kv) /\ P (snd kv)) kvs -> P (PMap kvs).
  Hypothesis HA : forall xs, Forall P xs -> P (PArr xs).
  Hypothesis HB : forall b, P (PBig b).
  Hypothesis HY : forall bs, P (PBytes bs).
  Fixpoint pdata_ind_nested (d : pdata) : P d :=
    match d with
    | PConstr t a fs =>
        HC t a fs ((fix go (l : list pdata) : Forall P l :=
                      match l with [] => Forall_nil _ | x :: r => Forall_cons x (pdata_ind_nested x) (go r) end) fs)
    | PMap kvs =>
        HM kvs ((fix go (l : list (pdata * pdata)) : Forall (fun kv => P (fst kv) /\ P (snd kv)) l :=
                   match l with
                   | [] => Forall_nil _
                   | kv :: r => Forall_cons kv (conj (pdata_ind_nested (fst kv)) (pdata_ind_nested (snd kv))) (go r)
                   end) kvs)
    | PArr xs =>
        HA xs ((fix go (l : list pdata) : Forall P l :=
                  match l with [] => Forall_nil _ | x :: r => Forall_cons x (pdata_ind_nested x) (go r) end) xs)
    | PBig b => HB b
    | PBytes bs => HY bs
    end.
End pdata_ind_nested.

Lemma map_datum_sem_proof d : pdata_wf d -> usem (map_datum d) = psem d.
Proof.
  induction d as [t a fs IH | kvs IH | xs IH | b | bs] using pdata_ind_nested; intros Hwf.
  - cbn [map_datum usem psem]. cbn [pdata_wf] in Hwf. destruct Hwf as [Ht Hfs].
    rewrite Z.mod_small by exact Ht. f_equal. rewrite map_map.
    induction IH as [|x r Hx _ IHr]; [reflexivity|]. cbn [map]. destruct Hfs as [Hx' Hr'].
    f_equal; [apply Hx; exact Hx' | apply IHr; exact Hr'].
  - cbn [map_datum usem psem]. cbn [pdata_wf] in Hwf. f_equal. rewrite map_map.
    induction IH as [|kv r [Hk Hv] _ IHr]; [reflexivity|]. cbn [map fst snd]. destruct Hwf as [[Hk' Hv'] Hr'].
    f_equal; [f_equal; [apply Hk; exact Hk' | apply Hv; exact Hv'] | apply IHr; exact Hr'].
  - cbn [map_datum usem psem]. cbn [pdata_wf] in Hwf. f_equal. rewrite map_map.
    induction IH as [|x r Hx _ IHr]; [reflexivity|]. cbn [map]. destruct Hwf as [Hx' Hr'].
    f_equal; [apply Hx; exact Hx' | apply IHr; exact Hr'].
  - cbn [map_datum usem psem pdata_wf] in *. rewrite map_bigint_exact_proof by exact Hwf. reflexivity.
  - reflexivity.
Qed.

(* ---------- tx level ---------- *)
Lemma txin_eqb_spec a b : txin_eqb a b = true <-> a = b.
Proof.
  destruct a as [h1 i1], b as [h2 i2]. unfold txin_eqb. cbn [fst snd].
  rewrite andb_true_iff, list_eqb_Z_spec, Z.eqb_eq. split; [intros [-> ->]; reflexivity | intros H; inversion H; auto].
Qed.

Lemma insert_set_In x y l : In y (insert_set x l) <-> y = x \/ In y l.
Proof.
  induction l as [|z r IH]; cbn [insert_set In]; [intuition|].
  destruct (txin_eqb x z) eqn:E.
  - apply txin_eqb_spec in E. subst z. cbn [In]. intuition.
  - destruct (txin_lt x z); cbn [In]; rewrite ?IH; intuition.
Qed.

Lemma sorted_set_In_proof y l : In y (sorted_set l) <-> In y l.
Proof.
  induction l as [|x r IH]; cbn [sorted_set fold_right In]; [reflexivity|].
  fold (sorted_set r). rewrite insert_set_In, IH. intuition.
Qed.

(* no duplicates in the mapped input list *)
Lemma lex_lt_irrefl a : lex_lt a a = false.
Proof. induction a as [|x a IH]; cbn [lex_lt]; [reflexivity|]. rewrite Z.ltb_irrefl. exact IH. Qed.

Lemma lex_lt_trans a b c : lex_lt a b = true -> lex_lt b c = true -> lex_lt a c = true.
Proof.
  revert b c; induction a as [|x a IH]; intros [|y b] [|z c]; cbn [lex_lt]; try discriminate; try reflexivity.
  destruct (x <? y) eqn:E1; destruct (y <? z) eqn:E2; destruct (y <? x) eqn:E3; destruct (z <? y) eqn:E4;
    try discriminate; intros H1 H2;
    destruct (x <? z) eqn:E5; try reflexivity; destruct (z <? x) eqn:E6; try lia.
  eapply IH; eassumption.
Qed.

Lemma lex_lt_eq_false a b : list_eqb Z.eqb a b = true -> lex_lt a b = false.
Proof. intros H. apply list_eqb_Z_spec in H. subst. apply lex_lt_irrefl. Qed.

Lemma txin_lt_trans a b c : txin_lt a b = true -> txin_lt b c = true -> txin_lt a c = true.
Proof.
  destruct a as [h1 i1], b as [h2 i2], c as [h3 i3]. unfold txin_lt. cbn [fst snd].
  rewrite !orb_true_iff, !andb_true_iff.
  intros [H1|[H1 H1']] [H2|[H2 H2']].
  - left. eapply lex_lt_trans; eassumption.
  - apply list_eqb_Z_spec in H2. subst. left. exact H1.
  - apply list_eqb_Z_spec in H1. subst. left. exact H2.
  - apply list_eqb_Z_spec in H1. apply list_eqb_Z_spec in H2. subst. right. split; [apply list_eqb_Z_spec; reflexivity|lia].
Qed.

Lemma txin_lt_irrefl a : txin_lt a a = false.
Proof.
  destruct a as [h i]. unfold txin_lt. cbn [fst snd]. rewrite lex_lt_irrefl, Z.ltb_irrefl, andb_false_r. reflexivity.
Qed.

(* strict total order on inputs: trichotomy *)
Lemma lex_total a b : lex_lt a b = true \/ list_eqb Z.eqb a b = true \/ lex_lt b a = true.
Proof.
  revert b; induction a as [|x a IH]; intros [|y b]; cbn [lex_lt list_eqb]; auto.
  destruct (x <? y) eqn:E1; [auto|]. destruct (y <? x) eqn:E2; [auto|].
  assert (x = y) by lia. subst. rewrite Z.eqb_refl. cbn [andb]. apply IH.
Qed.

Lemma txin_total a b : txin_lt a b = true \/ txin_eqb a b = true \/ txin_lt b a = true.
Proof.
  destruct a as [h1 i1], b as [h2 i2]. unfold txin_lt, txin_eqb. cbn [fst snd].
  destruct (lex_total h1 h2) as [H|[H|H]].
  - left. rewrite H. reflexivity.
  - rewrite H. assert (H' : list_eqb Z.eqb h2 h1 = true) by (apply list_eqb_Z_spec; apply list_eqb_Z_spec in H; congruence).
    rewrite H'. rewrite (lex_lt_eq_false _ _ H), (lex_lt_eq_false _ _ H'). cbn [orb andb].
    destruct (i1 <? i2) eqn:E1; [auto|]. destruct (i2 <? i1) eqn:E2; [auto|]. right; left. lia.
  - right; right. rewrite H. reflexivity.
Qed.

Inductive strictly_sorted : list txin -> Prop :=
| ss_nil : strictly_sorted []
| ss_one x : strictly_sorted [x]
| ss_cons x y r : txin_lt x y = true -> strictly_sorted (y :: r) -> strictly_sorted (x :: y :: r).

Lemma insert_set_sorted x l : strictly_sorted l -> strictly_sorted (insert_set x l).
Proof.
  induction 1 as [|y|y z r Hyz Hs IH]; cbn [insert_set].
  - constructor.
  - destruct (txin_eqb x y) eqn:E; [constructor|]. destruct (txin_lt x y) eqn:L.
    + constructor; [exact L|constructor].
    + destruct (txin_total x y) as [H|[H|H]]; try congruence. constructor; [exact H|constructor].
  - destruct (txin_eqb x y) eqn:E; [constructor; assumption|]. destruct (txin_lt x y) eqn:L.
    + constructor; [exact L|constructor; assumption].
    + assert (Hyx : txin_lt y x = true) by (destruct (txin_total x y) as [H|[H|H]]; congruence).
      cbn [insert_set] in IH. destruct (txin_eqb x z) eqn:E2.
      * constructor; assumption.
      * destruct (txin_lt x z) eqn:L2.
        -- constructor; [exact Hyx|exact IH].
        -- constructor; [exact Hyz|exact IH].
Qed.

Lemma sorted_set_sorted_proof l : strictly_sorted (sorted_set l).
Proof.
  induction l as [|x r IH]; cbn [sorted_set fold_right]; [constructor|]. apply insert_set_sorted. exact IH.
Qed.

Lemma map_out_exact o :
  let '(addr, coin, mas) := o in
  0 <= coin < 2 ^ 64 ->
  let '(addr', coin', mas') := map_out o in
  addr' = addr /\ ubig_val coin' = Some coin /\ map fst mas' = map fst mas.
Proof.
  destruct o as [[addr coin] mas]. intros H. cbn [map_out]. split; [reflexivity|]. split.
  - apply u64_to_bigint_exact_proof; exact H.
  - rewrite map_map. reflexivity.
Qed.

Lemma map_idx_id l : Forall (fun i : txin => 0 <= snd i < 2 ^ 32) l ->
  map (fun i : txin => (fst i, snd i mod 2 ^ 32)) l = l.
Proof.
  induction 1 as [|[h i] r Hi _ IH]; [reflexivity|]. cbn [map fst snd] in *.
  rewrite Z.mod_small by exact Hi. rewrite IH. reflexivity.
Qed.

Lemma map_tx_preserves_proof t :
  0 <= r_fee t < 2 ^ 64 ->
  Forall (fun i : txin => 0 <= snd i < 2 ^ 32) (r_inputs t) ->
  Forall (fun o : rout => 0 <= snd (fst o) < 2 ^ 64) (r_outputs t) ->
  let m := map_tx t in
  m_hash m = r_hash t /\ ubig_val (m_fee m) = Some (r_fee t) /\
  m_start m = r_start t /\ m_ttl m = r_ttl t /\ m_ok m = r_ok t /\
  (forall i, In i (m_inputs m) <-> In i (r_inputs t)) /\ strictly_sorted (m_inputs m) /\
  map (fun o : mout => (fst (fst o), ubig_val (snd (fst o)))) (m_outputs m)
    = map (fun o : rout => (fst (fst o), Some (snd (fst o)))) (r_outputs t).
Proof.
  intros Hfee Hin Hout m. subst m. unfold map_tx. cbn [m_hash m_fee m_start m_ttl m_ok m_inputs m_outputs].
  assert (Hss : Forall (fun i : txin => 0 <= snd i < 2 ^ 32) (sorted_set (r_inputs t))).
  { rewrite Forall_forall in *. intros i Hi. apply Hin. apply sorted_set_In_proof. exact Hi. }
  pose proof (map_idx_id _ Hss) as Hmap. unfold txin in Hmap. rewrite Hmap. clear Hmap.
  repeat split; try reflexivity.
  - apply u64_to_bigint_exact_proof; exact Hfee.
  - apply sorted_set_In_proof.
  - apply sorted_set_In_proof.
  - apply sorted_set_sorted_proof.
  - rewrite map_map. induction Hout as [|[[a c] mas] r Hc _ IH]; [reflexivity|].
    cbn [map map_out fst snd] in *. rewrite u64_to_bigint_exact_proof by exact Hc. f_equal. exact IH.
Qed.
