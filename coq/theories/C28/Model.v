(* C28 model: the initiator machine of P2p/Initiator.v in closed loop with its
   environment: a network interface that confirms every emitted Send with a
   Sent event (immediately in [Sync] mode, whenever the schedule says so - but
   in per-peer FIFO order - in [Async] mode) and spec-conformant responders
   whose messages are delivered by Recv events.  The wire of every peer is
   tracked with the protocol specifications of P2p/Spec.v: a message emitted by
   the initiator enters the wire when it is emitted.  [exec] replays a schedule
   and reports the first emitted message the specification does not permit.
   Definitions only. *)
From PV Require Export Lib.Base P2p.Proto P2p.Initiator P2p.Spec.
Open Scope Z_scope.

Inductive link := LDown | LUp | LErr.
(* per-peer environment state: link, "the initiator's peer state belongs to this connection",
   the specification state of the wire, emitted-but-unconfirmed Sends (oldest first) *)
Record penv := mkPE { lk : link; synced : bool; wire : pspec; pend : list msg }.
Definition penv0 : penv := mkPE LDown false w0 [].
Definition env : Type := list (Z * penv).

Fixpoint eget (p : Z) (e : env) : penv :=
  match e with [] => penv0 | (q, x) :: r => if q =? p then x else eget p r end.
Fixpoint eset (p : Z) (x : penv) (e : env) : env :=
  match e with [] => [(p, x)] | (q, y) :: r => if q =? p then (q, x) :: r else (q, y) :: eset p x r end.

Inductive mode := Sync | Async.

Inductive verdict :=
| VFine                                   (* every emitted message was permitted *)
| VEnv (i : Z)                            (* the schedule breaks an environment assumption at step i *)
| VPanic (i : Z)
| VViolation (i : Z) (p : Z) (m : msg) (unconfirmed : bool).
     (* step i emitted m to p, which the specification does not permit; [unconfirmed]: an earlier
        emission of the same protocol to p was still waiting for its Sent confirmation *)

Definition same_proto (m : msg) (l : list msg) : bool := existsb (fun x => proto_of x =? proto_of m) l.

(* put one emitted message on the wire, or report it; [e0] is the environment at the start of the
   step and only serves the classification: was an emission of the same protocol to that peer,
   made in an earlier step, still unconfirmed? *)
Definition emit_one (i : Z) (e0 e : env) (p : Z) (m : msg) : env + verdict :=
  let x := eget p e in
  match cstep (wire x) m with
  | Some w' => inl (eset p (mkPE (lk x) (synced x) w' (pend x ++ [m])) e)
  | None => inr (VViolation i p m (same_proto m (pend (eget p e0))))
  end.

Definition sends (outs : list output) : list (Z * msg) :=
  flat_map (fun o => match o with OSend p m => [(p, m)] | _ => [] end) outs.

(* Async mode: all Sends of one step, in emission order *)
Fixpoint emit_all (i : Z) (e0 e : env) (l : list (Z * msg)) : env + verdict :=
  match l with
  | [] => inl e
  | (p, m) :: rest => match emit_one i e0 e p m with inl e1 => emit_all i e0 e1 rest | inr v => inr v end
  end.

(* the environment's side of one schedule event; None = the event breaks an assumption *)
Fixpoint recv_all (w : pspec) (pn : list msg) (ms : list msg) : option pspec :=
  match ms with
  | [] => Some w
  | m :: rest => if same_proto m pn then None
                 else match sstep w m with Some w' => recv_all w' pn rest | None => None end
  end.

Definition env_event (md : mode) (e : env) (ev : event) : option env :=
  match ev with
  | EConnected p =>
      let x := eget p e in
      match lk x with LDown => Some (eset p (mkPE LUp true w0 []) e) | _ => None end
  | EDisconnected p => Some (eset p (mkPE LDown false w0 []) e)
  | EError p =>
      let x := eget p e in
      Some (eset p (mkPE (match lk x with LUp => LErr | l => l end) (synced x) (wire x) (pend x)) e)
  | ERecv p ms =>
      let x := eget p e in
      match lk x with
      | LUp => match recv_all (wire x) (pend x) ms with
               | Some w' => Some (eset p (mkPE LUp (synced x) w' (pend x)) e)
               | None => None
               end
      | _ => None
      end
  | ESent p m =>
      match md with
      | Sync => None                                   (* confirmations are implicit in Sync mode *)
      | Async =>
          let x := eget p e in
          match lk x, pend x with
          | LUp, m0 :: rest =>
              if list_eqb Z.eqb (msg_code m0) (msg_code m)
              then Some (eset p (mkPE LUp (synced x) (wire x) rest) e) else None
          | _, _ => None
          end
      end
  | EInclude p =>
      let x := eget p e in
      Some (eset p (mkPE (lk x) false (wire x) (pend x)) e)
  | _ => Some e
  end.

(* Sync mode: every Send of the step just taken goes on the wire and is confirmed by its Sent event,
   in emission order, before the next schedule event *)
Fixpoint settle (c : cfg) (i : Z) (e0 : env) (st : ist) (e : env) (l : list (Z * msg)) : (ist * env) + verdict :=
  match l with
  | [] => inl (st, e)
  | (p, m) :: rest =>
      match emit_one i e0 e p m with
      | inr v => inr v
      | inl e1 =>
          match step c st (ESent p m) with
          | Ok (st1, _) =>
              let x := eget p e1 in
              settle c i e0 st1 (eset p (mkPE (lk x) (synced x) (wire x) (tl (pend x))) e1) rest
          | _ => inr (VPanic i)
          end
      end
  end.

Fixpoint exec (md : mode) (c : cfg) (i : Z) (st : ist) (e : env) (evs : list event) : verdict :=
  match evs with
  | [] => VFine
  | ev :: rest =>
      match env_event md e ev with
      | None => VEnv i
      | Some e1 =>
          match step c st ev with
          | Ok (st1, outs) =>
              match md with
              | Async => match emit_all i e1 e1 (sends outs) with
                         | inr v => v
                         | inl e2 => exec md c (i + 1) st1 e2 rest
                         end
              | Sync => match settle c i e1 st1 e1 (sends outs) with
                        | inr v => v
                        | inl (st2, e2) => exec md c (i + 1) st2 e2 rest
                        end
              end
          | _ => VPanic i
          end
      end
  end.

Definition is_violation (v : verdict) : bool := match v with VViolation _ _ _ _ => true | _ => false end.
Definition wf_cfg (c : cfg) : Prop := 0 <= max_peers c /\ 0 <= max_warm c /\ 0 <= max_hot c.
