(* C18 — property theorems only. Statements are pinned by props/C18.json. *)
From PV Require Import Lib.Base C18.Model C18.Proofs C18.Bech32 C18.Bech32Proofs C18.Strings C18.Bech32Addr.
Open Scope Z_scope.

(* varuint::write then varuint::read returns the number and leaves the cursor
   exactly behind it, for every u64 and every following bytes. *)
Theorem varuint_roundtrip : forall n r, 0 <= n < 2 ^ 64 ->
  varuint_read (varuint_write n ++ r) = Ok (n, r).
Proof.
  intros n r Hn. apply varuint_roundtrip_proof.
  assert (E : 2 ^ 64 = u64_max + 1) by reflexivity. lia.
Qed.

(* ten rounds of the write loop are enough for a u64; output is 1..11 bytes *)
Theorem varuint_write_fuel_ok : forall n, 0 <= n < 2 ^ 64 ->
  varuint_write_opt n = Some (varuint_write n) /\ bytes_wf (varuint_write n) /\
  (1 <= length (varuint_write n) <= 11)%nat.
Proof.
  intros n Hn. assert (E : 2 ^ 64 = u64_max + 1) by reflexivity.
  assert (H : 0 <= n <= u64_max) by lia. split.
  - unfold varuint_write. destruct (varuint_write_opt n) eqn:W; [reflexivity|].
    exfalso. exact (write_fuel_ok n H W).
  - apply write_wf, H.
Qed.

(* the reader on arbitrary bytes: never panics, only error is end-of-buffer,
   result fits u64 (over-large values saturate), consumes >= 1 byte *)
Theorem varuint_read_total : forall bs, bytes_wf bs ->
  match varuint_read bs with
  | Ok (v, rest) => 0 <= v <= u64_max /\
                    exists k, (k <= length bs)%nat /\ rest = skipn k bs /\ (0 < k)%nat
  | Err e => e = E_VARUINT_EOF
  | Panic _ => False
  end.
Proof. intros bs H. apply read_go_total; [unfold u64_max; lia | exact H]. Qed.

Theorem pointer_roundtrip : forall a b c r, u64 a -> u64 b -> u64 c ->
  pointer_parse (pointer_to_vec a b c ++ r) = Ok (a, b, c).
Proof. exact pointer_roundtrip_proof. Qed.

(* header byte = typeid * 16 + network id, it is the first byte of to_vec, and
   both nibbles are read back by the parser's own functions *)
Theorem header_faithful : forall a net, 0 <= net < 16 ->
  addr_network a = Some (network_from net) ->
  to_header a = typeid a * 16 + net /\ to_header a / 16 = typeid a /\ to_header a mod 16 = net /\
  parse_network (to_header a) = network_from net /\ hd 0 (to_vec a) = to_header a.
Proof. exact header_faithful_proof. Qed.

(* from_bytes (to_vec a) = Ok a: all 8 Shelley types, both stake types, every
   4-bit network, any hashes, any u64 pointer; p8 (the Byron arm) is arbitrary *)
Theorem addr_bytes_roundtrip : forall p8 a net, 0 <= net < 16 -> addr_wf a ->
  addr_network a = Some (network_from net) -> from_bytes p8 (to_vec a) = Ok a.
Proof. exact addr_bytes_roundtrip_proof. Qed.

(* the parser ignores trailing bytes, so the same holds with any suffix *)
Theorem addr_bytes_roundtrip_trailing : forall p8 a net r, 0 <= net < 16 -> addr_wf a ->
  addr_network a = Some (network_from net) -> from_bytes p8 (to_vec a ++ r) = Ok a.
Proof. exact addr_bytes_roundtrip_suffix. Qed.

Theorem from_bytes_no_panic : forall p8 bs,
  (forall h p, is_panic (p8 h p) = false) -> is_panic (from_bytes p8 bs) = false.
Proof. exact from_bytes_no_panic_proof. Qed.

(* hex: decode . encode = id on byte strings; encode . decode = id on lowercase text *)
Theorem hex_roundtrip : forall bs, bytes_wf bs -> hex_decode (hex_encode bs) = Some bs.
Proof. exact hex_roundtrip_proof. Qed.
Theorem hex_encode_injective : forall a b, bytes_wf a -> bytes_wf b -> hex_encode a = hex_encode b -> a = b.
Proof. exact hex_encode_inj. Qed.
Theorem hex_decode_inverse : forall s bs, hex_decode s = Some bs ->
  bytes_wf bs /\ (forallb lower_hexb s = true -> hex_encode bs = s).
Proof. exact hex_decode_sound. Qed.

Theorem addr_hex_roundtrip : forall p8 a net, 0 <= net < 16 -> addr_wf a ->
  addr_network a = Some (network_from net) -> from_hex p8 (to_hex a) = Ok a.
Proof. exact addr_hex_roundtrip_proof. Qed.

Theorem hrp_matches_network : forall a net, 0 <= net < 16 ->
  addr_network a = Some (network_from net) ->
  hrp a = if net =? 0 then Ok (hrp_base a ++ s_test)
          else if net =? 1 then Ok (hrp_base a) else Err E_UNKNOWN_HRP.
Proof. exact hrp_matches_network_proof. Qed.

(* ---- bech32 (crate bech32 0.11.1 as pallas calls it), executable Gallina ---- *)
(* 8->5 then 5->8 regrouping gives the bytes back, for every byte string *)
Theorem bech32_regroup_roundtrip : forall bs, bytes_wf bs -> from5 (to5 bs) = bs.
Proof. exact regroup_roundtrip. Qed.

(* a freshly created checksum verifies: polymod is GF(2)-linear *)
Theorem bech32_polymod_checksum : forall h fes, Forall fe (hrp_expand h ++ fes) ->
  polymod (hrp_expand h ++ fes ++ create_checksum h fes) = 1.
Proof. exact polymod_checksum. Qed.

(* decode . encode = id for every valid lower-case hrp and every byte string
   (whenever encode succeeds, i.e. the string has at most 1023 characters) *)
Theorem bech32_roundtrip : forall h d s, hrp_valid h -> bytes_wf d ->
  bech32_encode h d = Some s -> bech32_decode s = Some (h, d).
Proof. exact bech32_roundtrip_proof. Qed.
Theorem bech32_encode_succeeds : forall h d, blen h + 1 + (8 * blen d + 4) / 5 + 6 <= 1023 ->
  exists s, bech32_encode h d = Some s.
Proof. exact bech32_encode_some. Qed.

(* generic form kept: any codec with the round-trip premise (valid lower-case hrp,
   <= 64 data bytes) gives the string-level round trips *)
Theorem addr_bech32_roundtrip_generic :
  forall (enc : list Z -> list Z -> list Z) (dec : list Z -> option (list Z * list Z))
         (b58 : list Z -> outcome address) (p8 : Z -> list Z -> outcome address),
  (forall h d, hrp_valid h -> bytes_wf d -> blen d <= 64 -> dec (enc h d) = Some (h, d)) ->
  forall a net, 0 <= net <= 1 -> addr_wf a -> addr_network a = Some (network_from net) ->
  to_bech32 enc a = Ok (enc (hrp_base a ++ (if net =? 0 then s_test else [])) (to_vec a)) /\
  from_bech32 dec p8 (enc (hrp_base a ++ (if net =? 0 then s_test else [])) (to_vec a)) = Ok a /\
  from_str dec b58 p8 (to_string enc a) = Ok a.
Proof. exact addr_bech32_roundtrip_sec. Qed.

(* CLOSED: with the Gallina bech32, for testnet / mainnet addresses: to_bech32 uses
   the network's hrp, from_bech32 inverts it, and from_str (to_string a) = a
   (from_str tries bech32 first, so the base58 and Byron arms are arbitrary) *)
Theorem addr_bech32_roundtrip :
  forall (b58 : list Z -> outcome address) (p8 : Z -> list Z -> outcome address) a net,
  0 <= net <= 1 -> addr_wf a -> addr_network a = Some (network_from net) ->
  to_bech32 enc_total a = Ok (enc_total (hrp_base a ++ (if net =? 0 then s_test else [])) (to_vec a)) /\
  from_bech32 bech32_decode p8 (enc_total (hrp_base a ++ (if net =? 0 then s_test else [])) (to_vec a)) = Ok a /\
  from_str bech32_decode b58 p8 (to_string enc_total a) = Ok a.
Proof. exact addr_bech32_closed. Qed.

(* ---- non-vacuity ---- *)
Definition ex_hash (k : Z) : list Z := map (fun i => (i * 7 + k) mod 256) (zrangeZ 0 28).
Definition ex_addr : address :=
  Shelley (network_from 5) (PayScript (ex_hash 3)) (DelPointer u64_max 127 128).
Example ex_addr_ok :
  addr_wf ex_addr /\ addr_network ex_addr = Some (network_from 5) /\
  to_header ex_addr = 85 /\ length (to_vec ex_addr) = 42%nat /\
  from_bytes (fun _ _ => Err 0) (to_vec ex_addr) = Ok ex_addr /\
  varuint_write u64_max = [129; 255; 255; 255; 255; 255; 255; 255; 255; 127] /\
  (* over-large value: saturates and stops consuming in the middle *)
  varuint_read [130; 128; 128; 128; 128; 128; 128; 128; 128; 128; 0] = Ok (u64_max, [0]).
Proof.
  repeat split; try (vm_compute; reflexivity); try (vm_compute; intros; discriminate).
  - apply bytes_wfb_spec. vm_compute. reflexivity.
Qed.
(* BIP-173 test vectors "a12uel5l" and "A12UEL5L"; a mixed-case one is rejected *)
Example bech32_vectors :
  bech32_encode [97] [] = Some [97;49;50;117;101;108;53;108] /\
  bech32_decode [65;49;50;85;69;76;53;76] = Some ([65], []) /\
  bech32_decode [97;49;50;85;69;76;53;76] = None /\
  hrp_valid (s_addr ++ s_test).
Proof.
  repeat split; try (vm_compute; reflexivity); try discriminate; try (vm_compute; discriminate).
  repeat constructor; vm_compute; try discriminate; reflexivity.
Qed.
