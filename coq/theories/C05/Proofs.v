(* C05 proofs: every identity hash of the model is H over (prefix ++ the exact
   consumed wire bytes); the consumed bytes are the encoding of the decoded item
   (Cbor.Laws.enc_dec), so the hash never depends on a re-encoder. *)
From PV Require Import Lib.Base Cbor.Item Cbor.Enc Cbor.Dec Cbor.HeadLaws Cbor.Laws Cbor.Api C05.Model.
Open Scope Z_scope.

(* ------------------------------------------------------------- consumed *)
Lemma consumed_app p r : consumed (p ++ r) r = p.
Proof.
  unfold consumed. rewrite app_length.
  replace (length p + length r - length r)%nat with (length p) by lia.
  rewrite firstn_app, Nat.sub_diag, firstn_all. cbn [firstn]. apply app_nil_r.
Qed.

Lemma consumed_decode bs i r :
  decode bs = DOk (i, r) -> consumed bs r = encode_item i /\ bs = consumed bs r ++ r /\ wf_item i = true.
Proof. intros Hd. apply decode_sound in Hd as [-> Hwf]. rewrite consumed_app. auto. Qed.

Lemma kr_typed_inv {T} (view : item -> option T) bs k r :
  kr_decode (typed view) bs = DOk (k, r) ->
  exists i, decode bs = DOk (i, r) /\ view i = Some (kr_inner k) /\ kr_raw k = consumed bs r.
Proof.
  unfold kr_decode, typed. intros Hk. apply dbind_ok in Hk as ([v r'] & Ht & Hk).
  cbv beta iota in Hk. inversion Hk; subst; clear Hk.
  apply dbind_ok in Ht as ([i r''] & Hd & Ht). cbv beta iota in Ht.
  destruct (view i) eqn:Ev; [|discriminate]. inversion Ht; subst. exists i. cbn [kr_inner kr_raw]. auto.
Qed.

Lemma kr_encode_raw {T} (enc : T -> list Z) k : kr_raw k <> [] -> kr_encode enc k = kr_raw k.
Proof. unfold kr_encode. destruct (kr_raw k); [congruence|reflexivity]. Qed.

Lemma enc_pair_prefix t e : t = 0 \/ t = 1 -> enc_pair t e = [130; t] ++ e.
Proof. intros [-> | ->]; reflexivity. Qed.

Lemma original_hash_raw H {T} (enc : T -> list Z) a k :
  kr_raw k <> [] -> original_hash H enc a k = H (digest_len a) (prefix a ++ kr_raw k).
Proof.
  intros Hne.
  destruct a; cbn [original_hash digest_len prefix]; unfold hash_cbor, hash, hash_tagged;
    rewrite ?(kr_encode_raw enc k Hne), ?enc_pair_prefix by auto; reflexivity.
Qed.

Lemma compute_hash_spec_proof H {T} (enc : T -> list Z) a v :
  compute_hash H enc a v = H (digest_len a) (prefix a ++ enc v).
Proof.
  destruct a; cbn [compute_hash digest_len prefix]; unfold hash_cbor, hash_tagged_cbor;
    rewrite ?enc_pair_prefix by auto; reflexivity.
Qed.

(* ------------------------------------------------------------- main theorems *)
Theorem hash_over_wire_proof H {T} (view : item -> option T) (enc : T -> list Z) a bs k r :
  kr_decode (typed view) bs = DOk (k, r) ->
  original_hash H enc a k = H (digest_len a) (prefix a ++ consumed bs r).
Proof.
  intros Hk. apply kr_typed_inv in Hk as (i & Hd & _ & Hraw).
  apply consumed_decode in Hd as (Hc & _ & Hwf).
  assert (Hne : kr_raw k <> []) by (rewrite Hraw, Hc; apply encode_item_nonempty, Hwf).
  rewrite (original_hash_raw H enc a k Hne), Hraw. reflexivity.
Qed.

Theorem wire_is_encoding_proof {T} (view : item -> option T) bs k r :
  kr_decode (typed view) bs = DOk (k, r) ->
  exists i, view i = Some (kr_inner k) /\ wf_item i = true /\
            consumed bs r = encode_item i /\ kr_raw k = encode_item i /\ bs = encode_item i ++ r.
Proof.
  intros Hk. apply kr_typed_inv in Hk as (i & Hd & Hv & Hraw).
  apply consumed_decode in Hd as (Hc & Hbs & Hwf). exists i.
  repeat split; try assumption; congruence.
Qed.

Theorem hash_indep_proof H {T1 T2} (view1 : item -> option T1) (view2 : item -> option T2)
    (enc1 : T1 -> list Z) (enc2 : T2 -> list Z) a bs1 bs2 k1 k2 r1 r2 :
  kr_decode (typed view1) bs1 = DOk (k1, r1) -> kr_decode (typed view2) bs2 = DOk (k2, r2) ->
  consumed bs1 r1 = consumed bs2 r2 ->
  original_hash H enc1 a k1 = original_hash H enc2 a k2.
Proof.
  intros H1 H2 Hc.
  rewrite (hash_over_wire_proof H view1 enc1 a bs1 k1 r1 H1),
          (hash_over_wire_proof H view2 enc2 a bs2 k2 r2 H2), Hc. reflexivity.
Qed.

Theorem noncanonical_as_is_proof H {T} (view : item -> option T) (enc : T -> list Z) a i v r :
  wf_item i = true -> view i = Some v ->
  exists k, kr_decode (typed view) (encode_item i ++ r) = DOk (k, r) /\ kr_inner k = v /\
            kr_raw k = encode_item i /\
            original_hash H enc a k = H (digest_len a) (prefix a ++ encode_item i).
Proof.
  intros Hwf Hv. exists (KR (encode_item i) v).
  assert (Hk : kr_decode (typed view) (encode_item i ++ r) = DOk (KR (encode_item i) v, r)).
  { unfold kr_decode, typed. rewrite decode_complete by exact Hwf. cbn [dbind]. cbv beta iota.
    rewrite Hv. cbn [dbind]. cbv beta iota. rewrite consumed_app. reflexivity. }
  split; [exact Hk|]. split; [reflexivity|]. split; [reflexivity|].
  rewrite (hash_over_wire_proof H view enc a _ _ _ Hk), consumed_app. reflexivity.
Qed.

(* ------------------------------------------------------------- slices *)
Lemma slice_refl a : slice_of a a.
Proof. exists [], []. rewrite app_nil_r. reflexivity. Qed.

Lemma slice_trans a b c : slice_of a b -> slice_of b c -> slice_of a c.
Proof.
  intros (p1 & q1 & ->) (p2 & q2 & ->). exists (p2 ++ p1), (q1 ++ q2).
  rewrite <- !app_assoc. reflexivity.
Qed.

Lemma slice_mid a p q : slice_of a (p ++ a ++ q).
Proof. exists p, q. reflexivity. Qed.

Lemma slice_concat {A} (f : A -> list Z) xs x : In x xs -> slice_of (f x) (concat (map f xs)).
Proof.
  intros Hin. apply in_split in Hin as (l1 & l2 & ->).
  exists (concat (map f l1)), (concat (map f l2)).
  rewrite map_app, concat_app. cbn [map concat]. reflexivity.
Qed.

Lemma slice_app_l a p : slice_of a (a ++ p).
Proof. exists [], p. reflexivity. Qed.

Lemma slice_app_r a p : slice_of a (p ++ a).
Proof. exists p, []. rewrite app_nil_r. reflexivity. Qed.

(* ------------------------------------------------------------- structure *)
Lemma kr_item_sound : dec_sound_for kr_item kr_raw raw_ok.
Proof.
  intros bs k r Hk. unfold kr_item, kr_decode in Hk.
  apply dbind_ok in Hk as ([i r'] & Hd & Hk). cbv beta iota in Hk. inversion Hk; subst; clear Hk.
  apply consumed_decode in Hd as (Hc & Hbs & Hwf). cbn [kr_raw].
  split; [exact Hbs|]. split; cbn [kr_raw kr_inner]; assumption.
Qed.

Lemma raw_ok_nonempty k : raw_ok k -> kr_raw k <> [].
Proof. intros [-> Hwf]. apply encode_item_nonempty, Hwf. Qed.

Lemma ohash_spec H a k : raw_ok k -> ohash H a k = H (digest_len a) (prefix a ++ kr_raw k).
Proof. intros Hk. apply original_hash_raw, raw_ok_nonempty, Hk. Qed.

Lemma dec_fields_sound bs fs r :
  dec_fields bs = DOk (fs, r) ->
  forall f, In f fs -> raw_ok f /\ slice_of (kr_raw f) bs.
Proof.
  unfold dec_fields, d_vec. intros Hd. apply dbind_ok in Hd as ([l r0] & Hl & Hd).
  cbv beta iota in Hd. unfold d_array in Hl. apply d_len_sound in Hl. destruct l as [n|].
  - destruct Hl as (w & -> & Hfit).
    apply (seq_loop_sound kr_item kr_raw raw_ok kr_item_sound) in Hd as (-> & HP & _); [|apply Hfit].
    intros f Hin. split; [rewrite Forall_forall in HP; apply HP, Hin|].
    eapply slice_trans; [apply (slice_concat kr_raw), Hin|]. apply slice_mid.
  - subst bs. apply (until_loop_sound kr_item kr_raw raw_ok kr_item_sound) in Hd as (-> & HP).
    intros f Hin. split; [rewrite Forall_forall in HP; apply HP, Hin|].
    eapply slice_trans; [apply (slice_concat kr_raw), Hin|].
    exists (enc_indef MajArray), (break_byte :: r). reflexivity.
Qed.

Lemma elems_sound k fs :
  elems k = DOk fs -> forall f, In f fs -> raw_ok f /\ slice_of (kr_raw f) (kr_raw k).
Proof.
  unfold elems. destruct (dec_fields (kr_raw k)) as [[fs' r]| |] eqn:E; cbn [dmap]; try discriminate.
  intros Hf; inversion Hf; subst; clear Hf. cbn [fst]. eapply dec_fields_sound, E.
Qed.

Lemma nth_elem_sound n k f :
  nth_elem n k = DOk f -> raw_ok f /\ slice_of (kr_raw f) (kr_raw k).
Proof.
  unfold nth_elem. intros Hn. apply dbind_ok in Hn as (fs & He & Hn).
  destruct (nth_error fs n) eqn:En; [|discriminate]. inversion Hn; subst; clear Hn.
  eapply elems_sound; [exact He|]. eapply nth_error_In, En.
Qed.

Lemma d_sint_suffix half bs v r : d_sint half bs = DOk (v, r) -> exists p, bs = p ++ r.
Proof.
  unfold d_sint. destruct bs as [|b t]; [discriminate|]. intros Hd.
  apply dbind_ok in Hd as ([[w n] r'] & He & Hd). cbv beta iota in Hd.
  apply expect_arg_sound in He as (m & _ & Hbs & _).
  destruct (n <? half); [|discriminate].
  destruct (b <? 32); inversion Hd; subst; eexists; exact Hbs.
Qed.

Lemma kr_i64_sound : dec_sound_for (kr_decode d_i64) kr_raw (fun _ => True).
Proof.
  intros bs k r Hk. unfold kr_decode in Hk.
  apply dbind_ok in Hk as ([v r'] & Hd & Hk). cbv beta iota in Hk. inversion Hk; subst; clear Hk.
  unfold d_i64 in Hd. apply d_sint_suffix in Hd as (p & ->). cbn [kr_raw]. rewrite consumed_app. auto.
Qed.

Definition entry_enc (e : keepraw Z * keepraw item) : list Z := kr_raw (fst e) ++ kr_raw (snd e).

Lemma dec_entries_sound bs es r :
  dec_entries bs = DOk (es, r) ->
  forall e, In e es -> raw_ok (snd e) /\ slice_of (kr_raw (snd e)) bs.
Proof.
  unfold dec_entries. intros Hd. apply dbind_ok in Hd as ([l r0] & Hl & Hd).
  cbv beta iota in Hd. unfold d_map in Hl. apply d_len_sound in Hl.
  pose proof (pair_dec_sound _ _ _ _ _ _ kr_i64_sound kr_item_sound) as Hp.
  assert (Hsl : forall e, slice_of (kr_raw (snd e)) (entry_enc e)) by (intros e; apply slice_app_r).
  destruct l as [n|].
  - destruct Hl as (w & -> & Hfit).
    apply (seq_loop_sound _ _ _ Hp) in Hd as (-> & HP & _); [|apply Hfit].
    intros e Hin. rewrite Forall_forall in HP. split; [apply (HP e Hin)|].
    eapply slice_trans; [apply Hsl|]. eapply slice_trans; [apply (slice_concat entry_enc), Hin|].
    apply slice_mid.
  - subst bs. apply (until_loop_sound _ _ _ Hp) in Hd as (-> & HP).
    intros e Hin. rewrite Forall_forall in HP. split; [apply (HP e Hin)|].
    eapply slice_trans; [apply Hsl|]. eapply slice_trans; [apply (slice_concat entry_enc), Hin|].
    exists (enc_indef MajMap), (break_byte :: r). reflexivity.
Qed.

Lemma lookup_last_in key (es : list (keepraw Z * keepraw item)) (acc : option (keepraw item)) k :
  fold_left (fun (acc : option (keepraw item)) (e : keepraw Z * keepraw item) =>
               if kr_inner (fst e) =? key then Some (snd e) else acc) es acc = Some k ->
  acc = Some k \/ exists e, In e es /\ snd e = k.
Proof.
  revert acc. induction es as [|e es IH]; intros acc; cbn [fold_left]; [auto|].
  intros Hf. apply IH in Hf as [Hf|(e' & Hin & He)].
  - destruct (kr_inner (fst e) =? key); [|auto]. inversion Hf; subst. right. exists e. split; [left|]; reflexivity.
  - right. exists e'. split; [right; exact Hin|exact He].
Qed.

Lemma field_sound key k k' :
  field key k = DOk (Some k') -> raw_ok k' /\ slice_of (kr_raw k') (kr_raw k).
Proof.
  unfold field. destruct (dec_entries (kr_raw k)) as [[es r]| |] eqn:E; cbn [dmap]; try discriminate.
  intros Hf; inversion Hf as [Hl]; clear Hf. cbn [fst] in Hl. unfold lookup_last in Hl.
  apply lookup_last_in in Hl as [Hl|(e & Hin & <-)]; [discriminate|].
  eapply dec_entries_sound; [exact E|exact Hin].
Qed.

Lemma set_elems_sound b k fs :
  set_elems b k = DOk fs -> forall f, In f fs -> raw_ok f /\ slice_of (kr_raw f) (kr_raw k).
Proof.
  unfold set_elems. intros Hs. apply dbind_ok in Hs as (t & _ & Hs).
  destruct (b && ctype_eqb t TTag).
  - apply dbind_ok in Hs as ([tg r] & Ht & Hs). cbv beta iota in Hs.
    destruct (tg =? 258); [|discriminate].
    destruct (dec_fields r) as [[fs' r']| |] eqn:E; cbn [dmap] in Hs; try discriminate.
    inversion Hs; subst; clear Hs. cbn [fst]. intros f Hin.
    apply d_tag_sound in Ht as (w & Hraw & _).
    destruct (dec_fields_sound _ _ _ E f Hin) as [Hok Hsl]. split; [exact Hok|].
    eapply slice_trans; [exact Hsl|]. rewrite Hraw. apply slice_app_r.
  - apply elems_sound, Hs.
Qed.

Lemma opt_set_elems_sound b o fs :
  opt_set_elems b o = DOk fs ->
  forall f, In f fs -> raw_ok f /\ exists k, o = Some k /\ slice_of (kr_raw f) (kr_raw k).
Proof.
  destruct o as [k|]; cbn [opt_set_elems].
  - intros Hs f Hin. destruct (set_elems_sound _ _ _ Hs f Hin) as [Hok Hsl]. split; [exact Hok|].
    exists k. auto.
  - intros Hs; inversion Hs; subst. intros f [].
Qed.

Lemma map_dres_sound {A B} (f : A -> dres B) l ys :
  map_dres f l = DOk ys -> forall y, In y ys -> exists x, In x l /\ f x = DOk y.
Proof.
  revert ys. induction l as [|x t IH]; intros ys; cbn [map_dres].
  - intros Hm; inversion Hm; subst. intros y [].
  - intros Hm. apply dbind_ok in Hm as (y0 & Hy0 & Hm). apply dbind_ok in Hm as (ys0 & Hys0 & Hm).
    inversion Hm; subst; clear Hm. intros y [<-|Hin].
    + exists x. split; [left; reflexivity|exact Hy0].
    + destruct (IH _ Hys0 y Hin) as (x' & Hin' & Hx'). exists x'. split; [right; exact Hin'|exact Hx'].
Qed.

Lemma hashed_slice_intro H a bs k :
  raw_ok k -> slice_of (kr_raw k) bs -> hashed_slice H a bs (ohash H a k).
Proof. intros Hok Hsl. exists k. split; [exact Hok|]. split; [exact Hsl|]. apply ohash_spec, Hok. Qed.

Lemma hashed_slice_eq H a bs k h :
  raw_ok k -> slice_of (kr_raw k) bs -> h = ohash H a k -> hashed_slice H a bs h.
Proof. intros Hok Hsl ->. apply hashed_slice_intro; assumption. Qed.

Lemma Forall_map_intro {A B} (P : B -> Prop) (f : A -> B) l :
  (forall x, In x l -> P (f x)) -> Forall P (map f l).
Proof. intros Hx. apply Forall_forall. intros y Hy. apply in_map_iff in Hy as (x & <- & Hin). apply Hx, Hin. Qed.

Theorem dec_tx_over_wire_proof H c bs t :
  dec_tx H c bs = DOk t ->
  hashed_slice H ATxBody bs (txh_id t) /\
  Forall (hashed_slice H APlutusData bs) (txh_datums t) /\
  Forall (hashed_slice H ANativeScript bs) (txh_scripts t).
Proof.
  unfold dec_tx. intros Hd. apply dbind_ok in Hd as ([fs r] & Hf & Hd). cbv beta iota in Hd.
  destruct fs as [|body [|wits rest]]; try discriminate.
  apply dbind_ok in Hd as (ns & Hns & Hd). apply dbind_ok in Hd as (pd & Hpd & Hd).
  apply dbind_ok in Hd as (nsl & Hnsl & Hd). apply dbind_ok in Hd as (pdl & Hpdl & Hd).
  inversion Hd; subst; clear Hd. cbn [txh_id txh_datums txh_scripts].
  destruct (dec_fields_sound _ _ _ Hf body (or_introl eq_refl)) as [Hbok Hbsl].
  destruct (dec_fields_sound _ _ _ Hf wits (or_intror (or_introl eq_refl))) as [Hwok Hwsl].
  split; [eapply hashed_slice_eq; [exact Hbok|exact Hbsl|reflexivity]|]. split.
  - apply Forall_map_intro. intros f Hin.
    destruct (opt_set_elems_sound _ _ _ Hpdl f Hin) as [Hok (k & -> & Hsl)].
    apply field_sound in Hpd as [_ Hksl].
    eapply hashed_slice_eq; [exact Hok| |reflexivity].
    eapply slice_trans; [exact Hsl|]. eapply slice_trans; [exact Hksl|exact Hwsl].
  - apply Forall_map_intro. intros f Hin.
    destruct (opt_set_elems_sound _ _ _ Hnsl f Hin) as [Hok (k & -> & Hsl)].
    apply field_sound in Hns as [_ Hksl].
    eapply hashed_slice_eq; [exact Hok| |reflexivity].
    eapply slice_trans; [exact Hsl|]. eapply slice_trans; [exact Hksl|exact Hwsl].
Qed.

Theorem dec_byron_tx_over_wire_proof H bs t :
  dec_byron_tx H bs = DOk t -> hashed_slice H AByronTx bs (txh_id t).
Proof.
  unfold dec_byron_tx. intros Hd. apply dbind_ok in Hd as ([fs r] & Hf & Hd). cbv beta iota in Hd.
  destruct fs as [|tx [|w rest]]; try discriminate. inversion Hd; subst; clear Hd. cbn [txh_id].
  destruct (dec_fields_sound _ _ _ Hf tx (or_introl eq_refl)) as [Hok Hsl].
  eapply hashed_slice_eq; [exact Hok|exact Hsl|reflexivity].
Qed.

Theorem dec_block_over_wire_proof H bs hh ids :
  dec_block H bs = DOk (hh, ids) ->
  exists tag, probe bs = Some tag /\
    hashed_slice H (header_kind tag) bs hh /\ Forall (hashed_slice H (tx_kind tag) bs) ids.
Proof.
  unfold dec_block. destruct (probe bs) as [tag|] eqn:Ep; [|discriminate]. intros Hd.
  exists tag. split; [reflexivity|].
  apply dbind_ok in Hd as ([n r0] & Ha & Hd). cbv beta iota in Hd.
  destruct n as [n|]; [|discriminate].
  destruct (n =? 2) eqn:En; [|discriminate].
  apply dbind_ok in Hd as ([era r1] & Hu & Hd). cbv beta iota in Hd.
  apply dbind_ok in Hd as ([fs r2] & Hf & Hd). cbv beta iota in Hd.
  destruct fs as [|hdr [|f1 rest]]; try discriminate.
  assert (Hr1 : slice_of r1 bs).
  { unfold d_array in Ha. apply d_len_sound in Ha as (w & -> & _).
    unfold d_u16 in Hu. apply d_uint_sound in Hu as (w' & -> & _).
    rewrite app_assoc. apply slice_app_r. }
  destruct (dec_fields_sound _ _ _ Hf hdr (or_introl eq_refl)) as [Hhok Hhsl].
  destruct (dec_fields_sound _ _ _ Hf f1 (or_intror (or_introl eq_refl))) as [Hfok Hfsl].
  assert (Hh : hashed_slice H (header_kind tag) bs (ohash H (header_kind tag) hdr)).
  { eapply hashed_slice_eq; [exact Hhok| |reflexivity]. eapply slice_trans; [exact Hhsl|exact Hr1]. }
  destruct (tag =? 0) eqn:E0.
  - inversion Hd; subst; clear Hd. split; [exact Hh|constructor].
  - destruct (tag =? 1) eqn:E1.
    + apply dbind_ok in Hd as (payloads & Hp & Hd). apply dbind_ok in Hd as (ps & Hps & Hd).
      apply dbind_ok in Hd as (txs & Htxs & Hd). inversion Hd; subst; clear Hd.
      split; [exact Hh|]. apply Forall_map_intro. intros tx Hin.
      destruct (map_dres_sound _ _ _ Htxs tx Hin) as (p & Hpin & Hn).
      apply nth_elem_sound in Hn as [Hok Hsl]. eapply hashed_slice_eq; [exact Hok| |reflexivity].
      destruct (elems_sound _ _ Hps p Hpin) as [_ Hpsl].
      apply nth_elem_sound in Hp as [_ Hplsl].
      eapply slice_trans; [exact Hsl|]. eapply slice_trans; [exact Hpsl|].
      eapply slice_trans; [exact Hplsl|]. eapply slice_trans; [exact Hfsl|exact Hr1].
    + apply dbind_ok in Hd as (bodies & Hb & Hd). inversion Hd; subst; clear Hd.
      split; [exact Hh|]. apply Forall_map_intro. intros b Hin.
      destruct (elems_sound _ _ Hb b Hin) as [Hok Hsl]. eapply hashed_slice_eq; [exact Hok| |reflexivity].
      eapply slice_trans; [exact Hsl|]. eapply slice_trans; [exact Hfsl|exact Hr1].
Qed.

Theorem dec_single_over_wire_proof H a bs k r :
  kr_item bs = DOk (k, r) -> hashed_slice H a bs (ohash H a k) /\ bs = kr_raw k ++ r.
Proof.
  intros Hk. apply kr_item_sound in Hk as [Hbs Hok]. split; [|exact Hbs].
  eapply hashed_slice_eq; [exact Hok| |reflexivity]. rewrite Hbs. apply slice_app_l.
Qed.
