//! C03: CBOR helper wrappers round-trip and preserve original encodings
//! (+ the differential validation of the shared Coq CBOR core against minicbor).
//!
//! Streams (all from one PRNG):
//!  * CaseDec  bytes -> value -> bytes, per concrete wrapper type of the catalogue
//!  * CaseEnc  value -> bytes -> value
//!  * CaseItem / CaseCore  core: item encoder / reference parser / Decoder::skip
//! Oracle (independent of the model):
//!  * decode(encode(v)) == v (KeepRaw compared on the inner value, its raw must be the encoding)
//!  * form-preserving types re-encode the consumed slice exactly
//!  * decode(re-encoding of a decoded value) == that value
//!  * mutating a KeepRaw makes it re-encode from the new content
#[path = "../cborgen.rs"]
mod cborgen;
use cborgen::{encode, gen_item, head, mutate, parse_item, to_coq, Item, PErr, W};
use pallas_codec::minicbor::{self, Decoder};
use pallas_codec::utils::*;
use verif_harness::*;

// ------------------------------------------------------------------ the value trait
trait Hv: Sized + Clone + minicbor::Decode<'static, ()> + minicbor::Encode<()> {
    fn ty() -> String;
    /// form-preserving: re-encodes every accepted byte string exactly
    fn exact() -> bool;
    fn val(&self) -> String;
    /// the value expected back from decode(encode(self))
    fn back(&self) -> String { self.val() }
    /// the same value with every KeepRaw inside detached from the input buffer (`to_owned()`);
    /// None when the type carries no borrowed raw bytes
    fn detached(&self) -> Option<Self> { None }
    /// does the type contain a KeepRaw?
    fn has_raw() -> bool { false }
    fn gen(rng: &mut Rng, depth: u32) -> Self;
    /// bytes that the decoder (mostly) accepts, with arbitrary head forms
    fn wire(rng: &mut Rng, depth: u32) -> Vec<u8>;
}

fn enc<T: minicbor::Encode<()>>(v: &T) -> Vec<u8> { minicbor::to_vec(v).expect("encode") }

fn uint_wire(rng: &mut Rng) -> Vec<u8> {
    let n = match rng.below(4) { 0 => rng.below(24), 1 => *rng.pick(&[23u64, 24, 255, 256, 65535, 65536, 0xffff_ffff, 0x1_0000_0000, u64::MAX]), 2 => rng.below(300), _ => rng.edge_u64() };
    head(0, W::pick(rng, n), n)
}

impl Hv for u64 {
    fn ty() -> String { "TyU64".into() }
    fn exact() -> bool { false }
    fn val(&self) -> String { format!("(VNum 0 {})", self) }
    fn gen(rng: &mut Rng, _: u32) -> Self { rng.edge_u64() }
    fn wire(rng: &mut Rng, _: u32) -> Vec<u8> { uint_wire(rng) }
}

impl Hv for AnyUInt {
    fn ty() -> String { "TyAnyUInt".into() }
    fn exact() -> bool { true }
    fn val(&self) -> String {
        match self {
            AnyUInt::MajorByte(x) => format!("(VNum 1 {})", x),
            AnyUInt::U8(x) => format!("(VNum 2 {})", x),
            AnyUInt::U16(x) => format!("(VNum 3 {})", x),
            AnyUInt::U32(x) => format!("(VNum 4 {})", x),
            AnyUInt::U64(x) => format!("(VNum 5 {})", x),
        }
    }
    fn gen(rng: &mut Rng, _: u32) -> Self {
        let small = |rng: &mut Rng| *rng.pick(&[0u64, 1, 5, 23, 24, 25, 200, 255]);
        match rng.below(11) {
            0 | 1 => AnyUInt::MajorByte(rng.below(24) as u8),
            2 => AnyUInt::MajorByte(*rng.pick(&[24u8, 25, 31, 64, 128, 255])), // not an immediate value
            3 | 4 => AnyUInt::U8(small(rng) as u8),
            5 => AnyUInt::U16(if rng.bool() { small(rng) as u16 } else { rng.next() as u16 }),
            6 => AnyUInt::U16(*rng.pick(&[255u16, 256, 65535])),
            7 => AnyUInt::U32(if rng.bool() { small(rng) as u32 } else { rng.next() as u32 }),
            8 => AnyUInt::U32(*rng.pick(&[65535u32, 65536, u32::MAX])),
            9 => AnyUInt::U64(if rng.bool() { small(rng) } else { rng.edge_u64() }),
            _ => AnyUInt::U64(*rng.pick(&[u32::MAX as u64, 1 << 32, u64::MAX])),
        }
    }
    fn wire(rng: &mut Rng, _: u32) -> Vec<u8> { uint_wire(rng) }
}

impl Hv for AnyCbor {
    fn ty() -> String { "TyAnyCbor".into() }
    fn exact() -> bool { true }
    fn val(&self) -> String { format!("(VBytes {})", coq_bytes(self.raw_bytes())) }
    fn gen(rng: &mut Rng, depth: u32) -> Self { AnyCbor::from_raw_bytes(encode(&gen_item(rng, depth))) }
    fn wire(rng: &mut Rng, depth: u32) -> Vec<u8> { encode(&gen_item(rng, depth)) }
}

impl Hv for Bytes {
    fn ty() -> String { "TyBytes".into() }
    fn exact() -> bool { false }
    fn val(&self) -> String { format!("(VBytes {})", coq_bytes(self)) }
    fn gen(rng: &mut Rng, _: u32) -> Self { let l = *rng.pick(&[0usize, 1, 23, 24, 28, 40]); Bytes::from(rng.bytes(l)) }
    fn wire(rng: &mut Rng, _: u32) -> Vec<u8> {
        let l = *rng.pick(&[0usize, 1, 5, 23, 24, 30]);
        let b = rng.bytes(l);
        if rng.chance(1, 10) { return encode(&Item::BytesIndef(vec![(W::W0, b)])) }
        encode(&Item::Bytes(W::pick(rng, l as u64), b))
    }
}

impl Hv for Int {
    fn ty() -> String { "TyInt".into() }
    fn exact() -> bool { false }
    fn val(&self) -> String { format!("(VNum 0 {})", coq_z(i128::from(*self))) }
    fn gen(rng: &mut Rng, _: u32) -> Self {
        let m = rng.edge_u64() as i128;
        Int::try_from(if rng.bool() { m } else { -1 - m }).unwrap()
    }
    fn wire(rng: &mut Rng, _: u32) -> Vec<u8> { let mut v = uint_wire(rng); if rng.bool() { v[0] |= 0x20 } v }
}

impl Hv for EmptyMap {
    fn ty() -> String { "TyEmptyMap".into() }
    fn exact() -> bool { false }
    fn val(&self) -> String { "VUnit".into() }
    fn gen(_: &mut Rng, _: u32) -> Self { EmptyMap }
    fn wire(rng: &mut Rng, depth: u32) -> Vec<u8> { if rng.bool() { vec![0xa0] } else { encode(&gen_item(rng, depth)) } }
}

impl<T: Hv + Clone> Hv for KeepRaw<'static, T> {
    fn ty() -> String { format!("(TyKeepRaw {})", T::ty()) }
    fn exact() -> bool { true }
    fn val(&self) -> String { format!("(VRaw {} {})", coq_bytes(self.raw_cbor()), (**self).val()) }
    fn back(&self) -> String {
        let raw = if self.raw_cbor().is_empty() { enc(&**self) } else { self.raw_cbor().to_vec() };
        format!("(VRaw {} {})", coq_bytes(&raw), (**self).back())
    }
    fn detached(&self) -> Option<Self> { Some(self.clone().to_owned()) }
    fn has_raw() -> bool { true }
    fn gen(rng: &mut Rng, depth: u32) -> Self { KeepRaw::from(T::gen(rng, depth)) }
    fn wire(rng: &mut Rng, depth: u32) -> Vec<u8> { T::wire(rng, depth) }
}

/// number of elements and depth of the children: mostly 0..3, rarely 24 flat ones (W8 length head)
fn count(rng: &mut Rng, depth: u32) -> (u64, u32) {
    if depth == 0 { (rng.below(2), 0) }
    else if rng.chance(1, 16) { (24, 0) }
    else { (rng.below(4), depth - 1) }
}

fn list_val<T: Hv>(indef: bool, xs: &[T], back: bool) -> String {
    format!("(VList {} {})", coq_bool(indef), coq_list(xs, |x| if back { x.back() } else { x.val() }))
}
fn detach_vec<T: Hv>(xs: &[T]) -> Option<Vec<T>> {
    if !T::has_raw() { return None }
    xs.iter().map(|x| x.detached()).collect()
}
fn gen_vec<T: Hv>(rng: &mut Rng, depth: u32) -> Vec<T> {
    let (n, d) = count(rng, depth);
    (0..n).map(|_| T::gen(rng, d)).collect()
}
fn array_wire<T: Hv>(rng: &mut Rng, depth: u32) -> Vec<u8> {
    let (n, d) = count(rng, depth);
    let indef = rng.chance(1, 3);
    let mut v = if indef { vec![0x9f] } else { head(4, W::pick(rng, n), n) };
    for _ in 0..n { v.extend(T::wire(rng, d)) }
    if indef { v.push(0xff) }
    v
}

impl<T: Hv> Hv for Vec<T> {
    fn ty() -> String { format!("(TyVec {})", T::ty()) }
    fn exact() -> bool { false }
    fn val(&self) -> String { list_val(false, self, false) }
    fn back(&self) -> String { list_val(false, self, true) }
    fn detached(&self) -> Option<Self> { detach_vec(self) }
    fn has_raw() -> bool { T::has_raw() }
    fn gen(rng: &mut Rng, depth: u32) -> Self { gen_vec(rng, depth) }
    fn wire(rng: &mut Rng, depth: u32) -> Vec<u8> { array_wire::<T>(rng, depth) }
}

impl<T: Hv> Hv for MaybeIndefArray<T> {
    fn ty() -> String { format!("(TyMia {})", T::ty()) }
    fn exact() -> bool { T::exact() }
    fn val(&self) -> String { match self { MaybeIndefArray::Def(x) => list_val(false, x, false), MaybeIndefArray::Indef(x) => list_val(true, x, false) } }
    fn back(&self) -> String { match self { MaybeIndefArray::Def(x) => list_val(false, x, true), MaybeIndefArray::Indef(x) => list_val(true, x, true) } }
    fn has_raw() -> bool { T::has_raw() }
    fn detached(&self) -> Option<Self> { match self { MaybeIndefArray::Def(x) => detach_vec(x).map(MaybeIndefArray::Def), MaybeIndefArray::Indef(x) => detach_vec(x).map(MaybeIndefArray::Indef) } }
    fn gen(rng: &mut Rng, depth: u32) -> Self { let v = gen_vec(rng, depth); if rng.bool() { MaybeIndefArray::Def(v) } else { MaybeIndefArray::Indef(v) } }
    fn wire(rng: &mut Rng, depth: u32) -> Vec<u8> { array_wire::<T>(rng, depth) }
}

impl<T: Hv + Clone> Hv for Nullable<T> {
    fn ty() -> String { format!("(TyNullable {})", T::ty()) }
    fn exact() -> bool { T::exact() }
    fn val(&self) -> String { match self { Nullable::Some(x) => format!("(VSome {})", x.val()), Nullable::Null => "VNull".into(), Nullable::Undefined => "VUndef".into() } }
    fn back(&self) -> String { match self { Nullable::Some(x) => format!("(VSome {})", x.back()), Nullable::Null => "VNull".into(), Nullable::Undefined => "VUndef".into() } }
    fn has_raw() -> bool { T::has_raw() }
    fn detached(&self) -> Option<Self> { if !T::has_raw() { return None } match self { Nullable::Some(x) => x.detached().map(Nullable::Some), Nullable::Null => Some(Nullable::Null), Nullable::Undefined => Some(Nullable::Undefined) } }
    fn gen(rng: &mut Rng, depth: u32) -> Self { match rng.below(4) { 0 => Nullable::Null, 1 => Nullable::Undefined, _ => Nullable::Some(T::gen(rng, depth)) } }
    fn wire(rng: &mut Rng, depth: u32) -> Vec<u8> { match rng.below(4) { 0 => vec![0xf6], 1 => vec![0xf7], _ => T::wire(rng, depth) } }
}

fn set_wire<T: Hv>(rng: &mut Rng, depth: u32) -> Vec<u8> {
    let mut v = vec![];
    if rng.chance(2, 3) { let t = if rng.chance(1, 10) { *rng.pick(&[259u64, 24, 0]) } else { 258 }; v.extend(head(6, W::pick(rng, t), t)) }
    v.extend(array_wire::<T>(rng, depth));
    v
}
impl<T: Hv> Hv for Set<T> {
    fn ty() -> String { format!("(TySet {})", T::ty()) }
    fn exact() -> bool { false }
    fn val(&self) -> String { list_val(false, self, false) }
    fn back(&self) -> String { list_val(false, self, true) }
    fn has_raw() -> bool { T::has_raw() }
    fn detached(&self) -> Option<Self> { detach_vec(self).map(Set::from) }
    fn gen(rng: &mut Rng, depth: u32) -> Self { Set::from(gen_vec(rng, depth)) }
    fn wire(rng: &mut Rng, depth: u32) -> Vec<u8> { set_wire::<T>(rng, depth) }
}
impl<T: Hv> Hv for NonEmptySet<T> {
    fn ty() -> String { format!("(TySet {})", T::ty()) }
    fn exact() -> bool { false }
    fn val(&self) -> String { list_val(false, self, false) }
    fn back(&self) -> String { list_val(false, self, true) }
    fn has_raw() -> bool { T::has_raw() }
    fn detached(&self) -> Option<Self> { detach_vec(self).and_then(NonEmptySet::from_vec) }
    fn gen(rng: &mut Rng, depth: u32) -> Self { let mut v: Vec<T> = gen_vec(rng, depth); if v.is_empty() { v.push(T::gen(rng, 0)) } NonEmptySet::from_vec(v).unwrap() }
    fn wire(rng: &mut Rng, depth: u32) -> Vec<u8> { set_wire::<T>(rng, depth) }
}

impl<T: Hv> Hv for CborWrap<T> {
    fn ty() -> String { format!("(TyCborWrap {})", T::ty()) }
    fn exact() -> bool { false }
    fn val(&self) -> String { self.0.val() }
    fn back(&self) -> String { self.0.back() }
    fn has_raw() -> bool { T::has_raw() }
    fn detached(&self) -> Option<Self> { self.0.detached().map(CborWrap) }
    fn gen(rng: &mut Rng, depth: u32) -> Self { CborWrap(T::gen(rng, depth)) }
    fn wire(rng: &mut Rng, depth: u32) -> Vec<u8> {
        let t = if rng.chance(1, 8) { *rng.pick(&[0u64, 23, 258]) } else { 24 };
        let mut inner = T::wire(rng, depth);
        if rng.chance(1, 8) { inner.push(rng.byte()) } // trailing bytes inside the wrapped string are ignored
        let mut v = head(6, W::pick(rng, t), t);
        v.extend(head(2, W::pick(rng, inner.len() as u64), inner.len() as u64));
        v.extend(inner);
        v
    }
}

impl<T: Hv, const N: u64> Hv for TagWrap<T, N> {
    fn ty() -> String { format!("(TyTagWrap {} {})", N, T::ty()) }
    fn exact() -> bool { false }
    fn val(&self) -> String { self.0.val() }
    fn back(&self) -> String { self.0.back() }
    fn has_raw() -> bool { T::has_raw() }
    fn detached(&self) -> Option<Self> { self.0.detached().map(TagWrap) }
    fn gen(rng: &mut Rng, depth: u32) -> Self { TagWrap(T::gen(rng, depth)) }
    fn wire(rng: &mut Rng, depth: u32) -> Vec<u8> {
        let t = if rng.chance(1, 8) { rng.below(300) } else { N };
        let mut v = head(6, W::pick(rng, t), t);
        v.extend(T::wire(rng, depth));
        v
    }
}

impl<T: Hv> Hv for ZeroOrOneArray<T> {
    fn ty() -> String { format!("(TyZoo {})", T::ty()) }
    fn exact() -> bool { false }
    fn val(&self) -> String { match &**self { None => "VNone".into(), Some(x) => format!("(VSome {})", x.val()) } }
    fn back(&self) -> String { match &**self { None => "VNone".into(), Some(x) => format!("(VSome {})", x.back()) } }
    fn gen(rng: &mut Rng, depth: u32) -> Self {
        // no public constructor: obtained by decoding
        if rng.bool() {
            let mut v = vec![0x81];
            v.extend(enc(&T::gen(rng, depth)));
            let b: &'static [u8] = Box::leak(v.into_boxed_slice());
            if let Ok(z) = minicbor::decode::<Self>(b) { return z }
        }
        minicbor::decode::<Self>(&[0x80]).expect("zoo")
    }
    fn wire(rng: &mut Rng, depth: u32) -> Vec<u8> {
        let n = *rng.pick(&[0u64, 1, 1, 1, 2]);
        if rng.chance(1, 10) { return vec![0x9f, 0xff] }
        let mut v = head(4, W::pick(rng, n), n);
        for _ in 0..n { v.extend(T::wire(rng, depth)) }
        v
    }
}

impl<T: Hv> Hv for OrderPreservingProperties<T> {
    fn ty() -> String { format!("(TyOpp {})", T::ty()) }
    fn exact() -> bool { false }
    fn val(&self) -> String { list_val(false, self, false) }
    fn back(&self) -> String { list_val(false, self, true) }
    fn gen(rng: &mut Rng, depth: u32) -> Self { OrderPreservingProperties::from(gen_vec::<T>(rng, depth)) }
    fn wire(rng: &mut Rng, depth: u32) -> Vec<u8> {
        let n = rng.below(4);
        if rng.chance(1, 10) { return vec![0xbf, 0xff] }
        let mut v = head(5, W::pick(rng, n), n);
        for _ in 0..n { v.extend(T::wire(rng, depth)) }
        v
    }
}

fn pairs_val<K: Hv, V: Hv>(indef: bool, xs: &[(K, V)], back: bool) -> String {
    format!("(VPairs {} {})", coq_bool(indef), coq_list(xs, |(k, v)| if back { format!("({},{})", k.back(), v.back()) } else { format!("({},{})", k.val(), v.val()) }))
}
fn detach_pairs<K: Hv, V: Hv>(xs: &[(K, V)]) -> Option<Vec<(K, V)>> {
    if !(K::has_raw() || V::has_raw()) { return None }
    xs.iter().map(|(k, v)| {
        let k2 = if K::has_raw() { k.detached()? } else { k.clone() };
        let v2 = if V::has_raw() { v.detached()? } else { v.clone() };
        Some((k2, v2))
    }).collect()
}
fn gen_pairs<K: Hv, V: Hv>(rng: &mut Rng, depth: u32) -> Vec<(K, V)> {
    let (n, d) = count(rng, depth);
    (0..n).map(|_| (K::gen(rng, d), V::gen(rng, d))).collect()
}
fn map_wire<K: Hv, V: Hv>(rng: &mut Rng, depth: u32) -> Vec<u8> {
    let (n, d) = count(rng, depth);
    let indef = rng.chance(1, 3);
    let mut v = if indef { vec![0xbf] } else { head(5, W::pick(rng, n), n) };
    for _ in 0..n { v.extend(K::wire(rng, d)); v.extend(V::wire(rng, d)) }
    if indef { v.push(0xff) }
    v
}
impl<K: Hv + Clone, V: Hv + Clone> Hv for KeyValuePairs<K, V> {
    fn ty() -> String { format!("(TyKvp {} {})", K::ty(), V::ty()) }
    fn exact() -> bool { K::exact() && V::exact() }
    fn val(&self) -> String { match self { KeyValuePairs::Def(x) => pairs_val(false, x, false), KeyValuePairs::Indef(x) => pairs_val(true, x, false) } }
    fn back(&self) -> String { match self { KeyValuePairs::Def(x) => pairs_val(false, x, true), KeyValuePairs::Indef(x) => pairs_val(true, x, true) } }
    fn has_raw() -> bool { K::has_raw() || V::has_raw() }
    fn detached(&self) -> Option<Self> { match self { KeyValuePairs::Def(x) => detach_pairs(x).map(KeyValuePairs::Def), KeyValuePairs::Indef(x) => detach_pairs(x).map(KeyValuePairs::Indef) } }
    fn gen(rng: &mut Rng, depth: u32) -> Self { let v = gen_pairs(rng, depth); if rng.bool() { KeyValuePairs::Def(v) } else { KeyValuePairs::Indef(v) } }
    fn wire(rng: &mut Rng, depth: u32) -> Vec<u8> { map_wire::<K, V>(rng, depth) }
}
impl<K: Hv + Clone, V: Hv + Clone> Hv for NonEmptyKeyValuePairs<K, V> {
    fn ty() -> String { format!("(TyKvp {} {})", K::ty(), V::ty()) }
    fn exact() -> bool { K::exact() && V::exact() }
    fn val(&self) -> String { match self { NonEmptyKeyValuePairs::Def(x) => pairs_val(false, x, false), NonEmptyKeyValuePairs::Indef(x) => pairs_val(true, x, false) } }
    fn back(&self) -> String { match self { NonEmptyKeyValuePairs::Def(x) => pairs_val(false, x, true), NonEmptyKeyValuePairs::Indef(x) => pairs_val(true, x, true) } }
    fn has_raw() -> bool { K::has_raw() || V::has_raw() }
    fn detached(&self) -> Option<Self> { match self { NonEmptyKeyValuePairs::Def(x) => detach_pairs(x).map(NonEmptyKeyValuePairs::Def), NonEmptyKeyValuePairs::Indef(x) => detach_pairs(x).map(NonEmptyKeyValuePairs::Indef) } }
    fn gen(rng: &mut Rng, depth: u32) -> Self {
        let mut v: Vec<(K, V)> = gen_pairs(rng, depth);
        if v.is_empty() { v.push((K::gen(rng, 0), V::gen(rng, 0))) }
        if rng.bool() { NonEmptyKeyValuePairs::Def(v) } else { NonEmptyKeyValuePairs::Indef(v) }
    }
    fn wire(rng: &mut Rng, depth: u32) -> Vec<u8> { map_wire::<K, V>(rng, depth) }
}

// ------------------------------------------------------------------ running one case
enum Res { Ok(String, usize, Vec<u8>), Eoi, Err, Panic(String) }
fn coq_res(r: &Res) -> String {
    match r {
        Res::Ok(v, n, re) => format!("(COk {} {} {})", v, n, coq_bytes(re)),
        Res::Eoi => "CEoi".into(),
        Res::Err => "CErr".into(),
        Res::Panic(_) => "CPanic".into(),
    }
}

/// decode with the real codec; on success also re-encode the decoded value
fn decode_real<T: Hv>(input: &'static [u8]) -> (Res, Option<T>) {
    match guard(move || {
        let mut d = Decoder::new(input);
        match d.decode::<T>() {
            Ok(v) => { let re = enc(&v); Ok((Res::Ok(v.val(), d.position(), re), Some(v))) }
            Err(e) => Ok((if e.is_end_of_input() { Res::Eoi } else { Res::Err }, None)),
        }
    }) {
        Out::Ok(x) => x,
        Out::Err(e) => (Res::Panic(e), None),
        Out::Panic(p) => (Res::Panic(p), None),
    }
}

/// `b` is `a` with the length heads of some definite arrays / maps replaced by the minimal head
/// (everything else, including integer / string / tag head widths, identical)
fn eq_mod_container_heads(a: &Item, b: &Item) -> bool {
    let wok = |wa: &W, wb: &W, n: usize| wb == wa || *wb == W::min_for(n as u64);
    match (a, b) {
        (Item::Array(wa, xs), Item::Array(wb, ys)) =>
            xs.len() == ys.len() && wok(wa, wb, xs.len()) && xs.iter().zip(ys).all(|(x, y)| eq_mod_container_heads(x, y)),
        (Item::ArrayIndef(xs), Item::ArrayIndef(ys)) =>
            xs.len() == ys.len() && xs.iter().zip(ys).all(|(x, y)| eq_mod_container_heads(x, y)),
        (Item::Map(wa, xs), Item::Map(wb, ys)) =>
            xs.len() == ys.len() && wok(wa, wb, xs.len())
                && xs.iter().zip(ys).all(|((k, v), (k2, v2))| eq_mod_container_heads(k, k2) && eq_mod_container_heads(v, v2)),
        (Item::MapIndef(xs), Item::MapIndef(ys)) =>
            xs.len() == ys.len()
                && xs.iter().zip(ys).all(|((k, v), (k2, v2))| eq_mod_container_heads(k, k2) && eq_mod_container_heads(v, v2)),
        (Item::Tag(wa, ta, x), Item::Tag(wb, tb, y)) => wa == wb && ta == tb && eq_mod_container_heads(x, y),
        (x, y) => x == y,
    }
}

fn parse_all(bytes: &[u8]) -> Option<Item> {
    let mut d = Decoder::new(bytes);
    match parse_item(&mut d) { Ok(i) if d.position() == bytes.len() => Some(i), _ => None }
}

/// why did an exact type not reproduce its input? (the key of the ORACLE_FAIL line)
fn classify_reencode(slice: &[u8], re: &[u8], ty: &str) -> String {
    if let (Some(a), Some(b)) = (parse_all(slice), parse_all(re)) {
        if slice != re && eq_mod_container_heads(&a, &b) {
            return "reencode/definite-container-nonminimal-length-head".into();
        }
    }
    format!("reencode/{}", ty)
}

fn has_bad_majorbyte(val: &str) -> bool {
    let mut rest = val;
    while let Some(p) = rest.find("(VNum 1 ") {
        let tail = &rest[p + 8..];
        let num: String = tail.chars().take_while(|c| c.is_ascii_digit()).collect();
        if num.parse::<u64>().map(|n| n > 23).unwrap_or(false) { return true }
        rest = tail;
    }
    false
}

fn run_dec<T: Hv>(bytes: Vec<u8>, tag: &str, oo: bool) {
    let input: &'static [u8] = Box::leak(bytes.into_boxed_slice());
    let (res, _v) = decode_real::<T>(input);
    match &res {
        Res::Panic(p) => emit_oracle_fail(&format!("panic/{}", T::ty()), &format!("ty={} input={} panicked: {}", T::ty(), hex(input), p)),
        Res::Ok(val, pos, re) => {
            let slice = &input[..*pos];
            if T::exact() && re != slice {
                emit_oracle_fail(&classify_reencode(slice, re, &T::ty()),
                    &format!("ty={} input={} consumed={} re-encoded={} (expected the consumed bytes)", T::ty(), hex(input), pos, hex(re)));
            }
            // the re-encoding decodes back to the same value
            let re_static: &'static [u8] = Box::leak(re.clone().into_boxed_slice());
            match decode_real::<T>(re_static) {
                (Res::Ok(val2, pos2, _), _) if pos2 == re.len() && strip_raw(&val2) == strip_raw(val) && (&val2 == val || T::ty().contains("KeepRaw")) => {}
                (other, _) => emit_oracle_fail(&format!("redecode/{}", T::ty()),
                    &format!("ty={} input={} decoded={} re-encoded={} which decodes to {}", T::ty(), hex(input), val, hex(re), coq_res(&other))),
            }
        }
        _ => {}
    }
    if !oo { emit_case(tag, &format!("(CaseDec {} {} {})", T::ty(), coq_bytes(input), coq_res(&res))) }
    // owned / detached life cycle: clone, to_owned and clone-of-owned keep the original bytes
    if let (Res::Ok(_, _, re), Some(v)) = (&res, &_v) {
        let mut variants: Vec<(&str, T)> = vec![("clone", v.clone())];
        if let Some(d) = v.detached() { variants.push(("to_owned-clone", d.clone())); variants.push(("to_owned", d)); }
        for (what, x) in variants {
            let b = match guard_total(|| enc(&x)) { Out::Ok(b) => b, _ => { emit_oracle_fail(&format!("lifecycle-panic/{}", what), &format!("ty={} input={} encode of {} panicked", T::ty(), hex(input), what)); continue } };
            if &b != re {
                emit_oracle_fail(&format!("lifecycle/{}", what), &format!("ty={} input={} decoded value re-encodes {} but its {} re-encodes {} (the captured bytes must be preserved)", T::ty(), hex(input), hex(re), what, hex(&b)));
            }
            if !oo && what != "clone" {
                let stat: &'static [u8] = Box::leak(b.clone().into_boxed_slice());
                emit_case("lifecycle", &format!("(CaseEnc {} {} {} {})", T::ty(), x.val(), coq_bytes(&b), coq_res(&decode_real::<T>(stat).0)));
            }
        }
    }
}

/// drop the raw fields "(VRaw [..] x)" -> "(VRaw x)" for comparing inner values only
fn strip_raw(v: &str) -> String {
    let mut out = String::new();
    let mut rest = v;
    while let Some(p) = rest.find("(VRaw [") {
        out.push_str(&rest[..p + 6]);
        let tail = &rest[p + 6..];
        let close = tail.find(']').unwrap();
        rest = &tail[close + 1..];
    }
    out.push_str(rest);
    out
}

fn run_enc<T: Hv>(v: T, tag: &str, oo: bool) {
    let val = v.val();
    let back = v.back();
    let bytes = match guard_total(|| enc(&v)) {
        Out::Ok(b) => b,
        _ => { emit_oracle_fail(&format!("panic-encode/{}", T::ty()), &format!("ty={} value={} encode panicked", T::ty(), val)); return }
    };
    let input: &'static [u8] = Box::leak(bytes.clone().into_boxed_slice());
    let (res, _) = decode_real::<T>(input);
    let ok = matches!(&res, Res::Ok(v2, pos, _) if *v2 == back && *pos == bytes.len());
    if !ok {
        let key = if has_bad_majorbyte(&val) { "roundtrip/anyuint-majorbyte-above-23".to_string() } else { format!("roundtrip/{}", T::ty()) };
        emit_oracle_fail(&key, &format!("ty={} value={} encoded={} decodes to {} (expected {})", T::ty(), val, hex(&bytes), coq_res(&res), back));
    }
    if !oo { emit_case(tag, &format!("(CaseEnc {} {} {} {})", T::ty(), val, coq_bytes(&bytes), coq_res(&res))) }
    // built values (From<T>, raw empty): clone and to_owned encode the same bytes
    let mut variants: Vec<(&str, T)> = vec![("clone", v.clone())];
    if let Some(d) = v.detached() { variants.push(("to_owned", d)) }
    for (what, x) in variants {
        if let Out::Ok(b) = guard_total(|| enc(&x)) {
            if b != bytes {
                emit_oracle_fail(&format!("lifecycle/built-{}", what), &format!("ty={} value={} encodes {} but its {} encodes {}", T::ty(), val, hex(&bytes), what, hex(&b)));
            }
        }
    }
}

/// KeepRaw: decode, mutate through deref_mut, re-encode: must come from the new content
fn run_keepraw_mutation<T: Hv + Clone>(rng: &mut Rng, depth: u32, oo: bool) {
    let bytes = T::wire(rng, depth);
    let input: &'static [u8] = Box::leak(bytes.into_boxed_slice());
    let Ok(mut k) = minicbor::decode::<KeepRaw<'static, T>>(input) else { return };
    let newv = T::gen(rng, depth);
    *k = newv.clone();
    let after = enc(&k);
    let expect = enc(&newv);
    if after != expect {
        emit_oracle_fail("keepraw-mutation", &format!("ty={} input={} after deref_mut assignment of {} encodes {} (expected {})", T::ty(), hex(input), newv.val(), hex(&after), hex(&expect)));
    }
    if !k.raw_cbor().is_empty() {
        emit_oracle_fail("keepraw-mutation", &format!("ty={} input={} raw not cleared by deref_mut", T::ty(), hex(input)));
    }
    // the same through a detached value: to_owned keeps the bytes, a later mutation drops them
    if let Ok(k0) = minicbor::decode::<KeepRaw<'static, T>>(input) {
        let before = enc(&k0);
        let mut owned = k0.clone().to_owned();
        if enc(&owned) != before || owned.raw_cbor() != k0.raw_cbor() {
            emit_oracle_fail("lifecycle/to_owned", &format!("ty={} input={} to_owned() changed the encoding: {} -> {}", T::ty(), hex(input), hex(&before), hex(&enc(&owned))));
        }
        *owned = newv.clone();
        let after2 = enc(&owned);
        if after2 != expect {
            emit_oracle_fail("lifecycle/mutate-after-to_owned", &format!("ty={} input={} to_owned then assignment of {} encodes {} (expected {})", T::ty(), hex(input), newv.val(), hex(&after2), hex(&expect)));
        }
        if !oo { emit_case("lifecycle-mutated", &format!("(CaseEnc {} {} {} {})", <KeepRaw<'static, T>>::ty(), owned.val(), coq_bytes(&after2), coq_res(&decode_real::<KeepRaw<'static, T>>(Box::leak(after2.clone().into_boxed_slice())).0))) }
    }
    if !oo { emit_case("keepraw-mutated", &format!("(CaseEnc {} {} {} {})", <KeepRaw<'static, T>>::ty(), k.val(), coq_bytes(&after), coq_res(&decode_real::<KeepRaw<'static, T>>(Box::leak(after.clone().into_boxed_slice())).0))) }
}

/// serde round trip of a KeepRaw (Serialize writes the inner value, Deserialize builds one without raw):
/// the result must encode from its content
fn run_keepraw_serde(rng: &mut Rng, oo: bool) {
    type T = MaybeIndefArray<u64>;
    let bytes = <T as Hv>::wire(rng, 2);
    let input: &'static [u8] = Box::leak(bytes.into_boxed_slice());
    let Ok(k) = minicbor::decode::<KeepRaw<'static, T>>(input) else { return };
    let Ok(js) = serde_json::to_string(&k) else { return };
    let Ok(k2) = serde_json::from_str::<KeepRaw<'static, T>>(&js) else {
        emit_oracle_fail("lifecycle/serde", &format!("input={} json={} does not deserialize", hex(input), js)); return };
    let expect = enc(&*k);
    let got = enc(&k2);
    if got != expect || k2.val() != format!("(VRaw [] {})", (*k).val()) {
        emit_oracle_fail("lifecycle/serde", &format!("input={} serde round trip encodes {} (expected the canonical {}), value {}", hex(input), hex(&got), hex(&expect), k2.val()));
    }
    if !oo { emit_case("lifecycle-serde", &format!("(CaseEnc {} {} {} {})", <KeepRaw<'static, T>>::ty(), k2.val(), coq_bytes(&got), coq_res(&decode_real::<KeepRaw<'static, T>>(Box::leak(got.clone().into_boxed_slice())).0))) }
}

// ------------------------------------------------------------------ core streams
fn skip_real(input: &[u8]) -> String {
    let b = input.to_vec();
    match guard(move || { let mut d = Decoder::new(&b); match d.skip() { Ok(()) => Ok(format!("(SOk {})", d.position())), Err(e) => Ok(if e.is_end_of_input() { "SEoi".to_string() } else { "SErr".to_string() }) } }) {
        Out::Ok(s) => s,
        _ => "SPanic".into(),
    }
}
fn ref_real(input: &[u8]) -> String {
    let b = input.to_vec();
    match guard(move || { let mut d = Decoder::new(&b); match parse_item(&mut d) { Ok(i) => Ok(format!("(ROk {} {})", to_coq(&i), d.position())), Err(PErr::Eoi) => Ok("REoi".to_string()), Err(PErr::Err) => Ok("RErr".to_string()) } }) {
        Out::Ok(s) => s,
        _ => "RPanic".into(),
    }
}

fn run_item(i: &Item, tag: &str, oo: bool) {
    let bytes = encode(i);
    // the encoder's bytes are accepted by minicbor, consuming exactly the item
    let sk = skip_real(&bytes);
    if sk != format!("(SOk {})", bytes.len()) {
        emit_oracle_fail("core/skip-item", &format!("item={} bytes={} Decoder::skip gives {}", to_coq(i), hex(&bytes), sk));
    }
    let rf = ref_real(&bytes);
    if rf != format!("(ROk {} {})", to_coq(i), bytes.len()) {
        emit_oracle_fail("core/reparse-item", &format!("item={} bytes={} reference parser gives {}", to_coq(i), hex(&bytes), rf));
    }
    if !oo { emit_case(tag, &format!("(CaseItem {} {})", to_coq(i), coq_bytes(&bytes))) }
}
fn run_core(bytes: &[u8], tag: &str, oo: bool) {
    let rf = ref_real(bytes);
    let sk = skip_real(bytes);
    if rf.contains("Panic") || sk.contains("Panic") {
        emit_oracle_fail("core/panic", &format!("input={} ref={} skip={}", hex(bytes), rf, sk));
        return;
    }
    // a well-formed item is skipped exactly
    if let Some(rest) = rf.strip_prefix("(ROk ") {
        let pos = rest.trim_end_matches(')').rsplit(' ').next().unwrap().to_string();
        if sk != format!("(SOk {})", pos) {
            emit_oracle_fail("core/skip-vs-parse", &format!("input={} parsed {} but Decoder::skip gives {}", hex(bytes), rf, sk));
        }
    }
    if !oo { emit_case(tag, &format!("(CaseCore {} {} {})", coq_bytes(bytes), rf, sk)) }
}

// ------------------------------------------------------------------ catalogue
type T7 = KeepRaw<'static, AnyUInt>;
type T8 = KeepRaw<'static, Vec<u64>>;
type T9 = KeepRaw<'static, MaybeIndefArray<u64>>;
type T10 = MaybeIndefArray<AnyUInt>;
type T11 = MaybeIndefArray<u64>;
type T12 = MaybeIndefArray<MaybeIndefArray<AnyUInt>>;
type T13 = KeyValuePairs<AnyUInt, AnyUInt>;
type T14 = KeyValuePairs<u64, Bytes>;
type T15 = KeyValuePairs<AnyUInt, MaybeIndefArray<KeyValuePairs<AnyUInt, AnyCbor>>>;
type T16 = NonEmptyKeyValuePairs<AnyUInt, KeepRaw<'static, u64>>;
type T17 = Nullable<AnyUInt>;
type T18 = Nullable<MaybeIndefArray<AnyUInt>>;
type T19 = Nullable<u64>;
type T20 = Set<u64>;
type T21 = NonEmptySet<AnyUInt>;
type T22 = Set<KeepRaw<'static, Bytes>>;
type T23 = CborWrap<MaybeIndefArray<AnyUInt>>;
type T24 = TagWrap<u64, 30>;
type T25 = TagWrap<AnyCbor, 258>;
type T26 = ZeroOrOneArray<AnyUInt>;
type T27 = OrderPreservingProperties<u64>;
type T28 = Vec<AnyCbor>;
type T29 = KeepRaw<'static, KeyValuePairs<AnyUInt, Nullable<AnyUInt>>>;
type T30 = MaybeIndefArray<KeepRaw<'static, MaybeIndefArray<Int>>>;

macro_rules! for_type {
    ($k:expr, $f:ident, $($args:expr),*) => {
        match $k {
            0 => $f::<u64>($($args),*), 1 => $f::<AnyUInt>($($args),*), 2 => $f::<AnyCbor>($($args),*),
            3 => $f::<Bytes>($($args),*), 4 => $f::<Int>($($args),*), 5 => $f::<EmptyMap>($($args),*),
            6 => $f::<T7>($($args),*), 7 => $f::<T8>($($args),*), 8 => $f::<T9>($($args),*),
            9 => $f::<T10>($($args),*), 10 => $f::<T11>($($args),*), 11 => $f::<T12>($($args),*),
            12 => $f::<T13>($($args),*), 13 => $f::<T14>($($args),*), 14 => $f::<T15>($($args),*),
            15 => $f::<T16>($($args),*), 16 => $f::<T17>($($args),*), 17 => $f::<T18>($($args),*),
            18 => $f::<T19>($($args),*), 19 => $f::<T20>($($args),*), 20 => $f::<T21>($($args),*),
            21 => $f::<T22>($($args),*), 22 => $f::<T23>($($args),*), 23 => $f::<T24>($($args),*),
            24 => $f::<T25>($($args),*), 25 => $f::<T26>($($args),*), 26 => $f::<T27>($($args),*),
            27 => $f::<T28>($($args),*), 28 => $f::<T29>($($args),*), _ => $f::<T30>($($args),*),
        }
    };
}
const NTYPES: u64 = 30;

fn stream_dec<T: Hv>(rng: &mut Rng, oo: bool) {
    let depth = rng.below(4) as u32;
    let bytes = T::wire(rng, depth);
    match rng.below(8) {
        0 => { let m = mutate(rng, &bytes); run_dec::<T>(m, "dec-mutated", oo) }
        1 => { let mut b = bytes; b.extend(rng.bytes(2)); run_dec::<T>(b, "dec-trailing", oo) }
        _ => run_dec::<T>(bytes, "dec-wire", oo),
    }
}
fn stream_enc<T: Hv>(rng: &mut Rng, oo: bool) {
    let depth = rng.below(4) as u32;
    let v = T::gen(rng, depth);
    run_enc::<T>(v, "enc-value", oo);
}
fn fixed_dec<T: Hv>(bytes: Vec<u8>, oo: bool) { run_dec::<T>(bytes, "boundary", oo) }

fn main() {
    let args = args();
    let mut rng = Rng::new(args.seed);
    let oo = args.oracle_only;

    // ---- deterministic boundary inputs (the refutation witnesses first) ----
    fixed_dec::<AnyUInt>(vec![0x18, 0x05], oo);
    fixed_dec::<T13>(vec![0xb8, 0x01, 0x01, 0x02], oo);
    fixed_dec::<T10>(vec![0x98, 0x01, 0x05], oo);
    for n in [0u64, 1, 23, 24, 255, 256, 65535, 65536, 0xffff_ffff, 0x1_0000_0000, u64::MAX] {
        for w in cborgen::ALL_W { if w.fits(n) {
            fixed_dec::<AnyUInt>(head(0, w, n), oo);
            fixed_dec::<u64>(head(0, w, n), oo);
            fixed_dec::<T7>(head(0, w, n), oo);
            fixed_dec::<T17>(head(0, w, n), oo);
            fixed_dec::<Int>(head(1, w, n), oo);
        } }
    }
    for b in [vec![0xf6], vec![0xf7], vec![0xf4], vec![0xff], vec![], vec![0x18], vec![0x9f, 0xff], vec![0xbf, 0xff], vec![0x80], vec![0xa0], vec![0x9f, 0x01, 0x02, 0xff], vec![0x82, 0x01, 0x02], vec![0xd9, 0x01, 0x02, 0x80], vec![0xd9, 0x01, 0x02, 0x9f, 0xff], vec![0xd8, 0x18, 0x41, 0x05]] {
        for k in 0..NTYPES { for_type!(k, fixed_dec, b.clone(), oo) }
    }
    for b in [vec![0x9f, 0x01, 0x02, 0xff], vec![0x98, 0x02, 0x01, 0x18, 0x02], vec![0x9f, 0x9f, 0x01, 0xff, 0xff], vec![0x9f, 0x9f, 0x01, 0xff, 0xff, 0xff]] {
        fixed_dec::<T8>(b.clone(), oo);
        fixed_dec::<T9>(b.clone(), oo);
        fixed_dec::<T30>(b.clone(), oo);
        fixed_dec::<KeepRaw<'static, MaybeIndefArray<MaybeIndefArray<u64>>>>(b.clone(), oo);
        fixed_dec::<CborWrap<KeepRaw<'static, MaybeIndefArray<u64>>>>({ let mut v = vec![0xd8, 0x18]; v.extend(cborgen::head(2, W::min_for(b.len() as u64), b.len() as u64)); v.extend(&b); v }, oo);
    }
    for x in [0u8, 23, 24, 255] {
        run_enc::<AnyUInt>(AnyUInt::MajorByte(x), "boundary", oo);
        run_enc::<AnyUInt>(AnyUInt::U8(x), "boundary", oo);
        run_enc::<AnyUInt>(AnyUInt::U16(x as u16), "boundary", oo);
        run_enc::<AnyUInt>(AnyUInt::U32(x as u32), "boundary", oo);
        run_enc::<AnyUInt>(AnyUInt::U64(x as u64), "boundary", oo);
    }

    // chunk of the wrong major type, truncated (the major type is tested before the length is read)
    for b in [vec![0x7f, 0x1a, 0x15, 0x77, 0xf5], vec![0x5f, 0x1a, 0x00], vec![0x5f, 0x38], vec![0x7f, 0x38, 0x00],
              vec![0x5f, 0x3b, 0x01, 0x02], vec![0x5f, 0x79, 0x00], vec![0x7f, 0x59, 0x00], vec![0x5f, 0x5f, 0xff, 0xff]] {
        run_core(&b, "core-boundary", oo);
    }

    // ---- random streams ----
    for i in 0..args.n {
        match rng.below(10) {
            0..=3 => { let k = rng.below(NTYPES); for_type!(k, stream_dec, &mut rng, oo) }
            4..=5 => { let k = rng.below(NTYPES); for_type!(k, stream_enc, &mut rng, oo) }
            6 => { match rng.below(4) { 0 => run_keepraw_mutation::<AnyUInt>(&mut rng, 2, oo), 1 => run_keepraw_mutation::<MaybeIndefArray<u64>>(&mut rng, 2, oo), 2 => run_keepraw_serde(&mut rng, oo), _ => run_keepraw_mutation::<T13>(&mut rng, 2, oo) } }
            7 => { let d = rng.below(4) as u32; let it = gen_item(&mut rng, d); if i < 40 { emit_sample(&format!("item {} = {}", to_coq(&it), hex(&encode(&it)))) } run_item(&it, "core-item", oo) }
            8 => { let d = rng.below(4) as u32; let it = gen_item(&mut rng, d); let mut b = encode(&it); for _ in 0..=rng.below(2) { b = mutate(&mut rng, &b) } run_core(&b, "core-mutated", oo) }
            _ => { let l = rng.below(10) as usize; let mut b = rng.bytes(l); if !b.is_empty() && rng.bool() { b[0] = *rng.pick(&[0x9fu8, 0xbf, 0x5f, 0x7f, 0x82, 0xa1, 0xc1, 0xd8, 0xf8, 0xf9, 0xff, 0x38, 0x3b, 0x1c, 0x78, 0x61]) } run_core(&b, "core-random", oo) }
        }
    }
}
