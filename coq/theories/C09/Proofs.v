(* C09 proofs: no modelled entry point reaches a panic site. *)
From PV Require Import Lib.Base Cbor.Item Cbor.Enc Cbor.Dec Cbor.Laws Cbor.Api C09.Model.
From PV Require C18.Model C18.Props C19.Model C19.Props.
Open Scope Z_scope.

Lemma read_go_no_panic bs : forall o, is_panic (C18.Model.read_go o bs) = false.
Proof.
  induction bs as [|b t IH]; intros o; cbn [C18.Model.read_go]; [reflexivity|]. cbv zeta.
  match goal with |- context [if ?c then _ else _] => destruct c end; [reflexivity|].
  match goal with |- context [if ?c then _ else _] => destruct c end; [reflexivity|apply IH].
Qed.

Lemma varuint_no_panic bs : is_panic (varuint_read bs) = false.
Proof. apply read_go_no_panic. Qed.

Lemma bind_no_panic {A B} (o : outcome A) (f : A -> outcome B) :
  is_panic o = false -> (forall a, is_panic (f a) = false) -> is_panic (C18.Model.bind o f) = false.
Proof. destruct o; cbn; auto. Qed.

Lemma pointer_no_panic bs : is_panic (pointer_parse bs) = false.
Proof.
  unfold pointer_parse, C18.Model.pointer_parse, C18.Model.varuint_read.
  apply bind_no_panic; [apply read_go_no_panic|]. intros [a r1].
  apply bind_no_panic; [apply read_go_no_panic|]. intros [b r2].
  apply bind_no_panic; [apply read_go_no_panic|]. intros [c r3]. reflexivity.
Qed.

Lemma address_no_panic bs : is_panic (address_from_bytes bs) = false.
Proof.
  unfold address_from_bytes, C19.Model.address_from_bytes.
  apply C18.Props.from_bytes_no_panic. intros h p. unfold C19.Model.parse_type_8.
  pose proof (C19.Props.byron_from_bytes_never_panics C19.Model.skip_item (h :: p)) as Hb.
  destruct (C19.Model.from_bytes C19.Model.skip_item (h :: p)); cbn in *; congruence.
Qed.

Lemma class_of_no_panic {A} (o : outcome A) : is_panic o = false -> is_panic (class_of o) = false.
Proof. destruct o; cbn; auto. Qed.

Lemma class_of_dres_no_panic {A} (o : dres A) : is_panic (class_of_dres o) = false.
Proof. destruct o; reflexivity. Qed.

Lemma drain_no_panic (buf r : list Z) : is_panic (drain_to buf (len buf - len r)) = false.
Proof.
  unfold drain_to. destruct (len buf - len r <=? len buf) eqn:E; [reflexivity|].
  unfold len in E. lia.
Qed.

Section Total.
  Variable era_block era_tx era_header : Z -> list Z -> outcome unit.
  Variable payload : Z -> Z -> Z -> list Z -> dres (list Z).
  Hypothesis Hblock : forall k bs, is_panic (era_block k bs) = false.
  Hypothesis Htx : forall k bs, is_panic (era_tx k bs) = false.
  Hypothesis Hheader : forall k bs, is_panic (era_header k bs) = false.

  Lemma block_no_panic bs : is_panic (block_decode era_block bs) = false.
  Proof.
    unfold block_decode. destruct (block_era bs) as [|e|]; [| |reflexivity].
    - pose proof (Hblock 0 bs). destruct (era_block 0 bs); cbn in *; congruence.
    - pose proof (Hblock e bs). destruct (era_block e bs); cbn in *; congruence.
  Qed.

  Lemma tx_no_panic bs : is_panic (tx_decode era_tx bs) = false.
  Proof.
    unfold tx_decode.
    pose proof (Htx 0 bs) as H0. pose proof (Htx 1 bs) as H1.
    pose proof (Htx 2 bs) as H2. pose proof (Htx 3 bs) as H3.
    destruct (era_tx 0 bs); cbn in *; try congruence.
    destruct (era_tx 1 bs); cbn in *; try congruence.
    destruct (era_tx 2 bs); cbn in *; try congruence.
    destruct (era_tx 3 bs); cbn in *; congruence.
  Qed.

  Lemma header_no_panic tag subtag bs : is_panic (header_decode era_header tag subtag bs) = false.
  Proof.
    unfold header_decode. cbv zeta.
    match goal with |- context [era_header ?k bs] => pose proof (Hheader k bs) as Hk; destruct (era_header k bs) end;
      cbn in *; congruence.
  Qed.

  Lemma channel_no_panic stack proto buf : is_panic (channel_decode payload stack proto buf) = false.
  Proof.
    unfold channel_decode. destruct (msg_decode payload stack proto buf) as [[label r]| |].
    - pose proof (drain_no_panic buf r) as Hd. destruct (drain_to buf (len buf - len r)); cbn in *; congruence.
    - reflexivity.
    - destruct (stack =? 1); reflexivity.
  Qed.

  Theorem decoders_total_proof ep bs :
    is_panic (model_decode era_block era_tx era_header payload ep bs) = false.
  Proof.
    destruct ep; cbn [model_decode].
    - apply class_of_no_panic, address_no_panic.
    - apply class_of_no_panic, pointer_no_panic.
    - apply class_of_no_panic, varuint_no_panic.
    - reflexivity.
    - apply block_no_panic.
    - apply tx_no_panic.
    - apply header_no_panic.
    - apply class_of_dres_no_panic.
    - apply class_of_no_panic, channel_no_panic.
  Qed.
End Total.

Lemma variant_dispatch_total_proof known bs : is_panic (variant_dispatch known false bs) = false.
Proof.
  unfold variant_dispatch. destruct (msg_head bs) as [[label r]| |]; try reflexivity.
  destruct (mem label known); reflexivity.
Qed.

Lemma variant_dispatch_old_refuted_proof :
  exists bs, variant_dispatch [0; 1; 2; 3; 4; 5; 6] true bs = Panic P_UNREACHABLE.
Proof. exists [130; 7; 0]. vm_compute. reflexivity. Qed.

(* the probe only ever answers with an era the block decoder has an arm for *)
Lemma probe_range_proof bs : match block_era bs with PEra e => 1 <= e <= 7 | _ => True end.
Proof.
  unfold block_era. destruct (tok_array2 bs) as [r|]; [|exact I].
  destruct (d_datatype r) as [t| |]; try exact I.
  destruct (ctype_eqb t TU8); [|exact I].
  destruct (d_u8 r) as [[v r']| |] eqn:E; try exact I.
  destruct (v =? 0) eqn:E0; [exact I|]. destruct (v <=? 7) eqn:E7; [|exact I].
  unfold d_u8 in E. apply d_uint_range in E. lia.
Qed.

(* the nesting depth an input can force is linear in its length: no constant stack suffices *)
Lemma nest_wf n : wf_item (nest n) = true.
Proof. induction n as [|k IH]; cbn [nest wf_item forallb]; [reflexivity|]. rewrite IH. reflexivity. Qed.

Lemma nest_fuel n : fuel_of (nest n) = S n.
Proof. induction n as [|k IH]; [reflexivity|]. cbn [nest fuel_of fold_right]. rewrite IH. lia. Qed.

Lemma nest_length n : length (encode_item (nest n)) = S n.
Proof.
  induction n as [|k IH]; [reflexivity|].
  cbn [nest encode_item map concat]. rewrite app_nil_r, app_length, IH. reflexivity.
Qed.

Lemma unbounded_nesting_proof (d : nat) :
  exists bs i, length bs = S d /\ Cbor.Dec.decode bs = DOk (i, []) /\ fuel_of i = S d.
Proof.
  exists (encode_item (nest d)), (nest d). split; [apply nest_length|]. split; [|apply nest_fuel].
  rewrite <- (app_nil_r (encode_item (nest d))) at 1. apply Cbor.Laws.decode_complete, nest_wf.
Qed.
