(* C44 model: pallas-utxorpc/src/shared.rs (macro body shared by v1alpha and
   v1beta) — numeric conversions, Plutus datum mapping, and the tx-level field
   projection of Mapper::map_tx (v1alpha/mod.rs, v1beta/mod.rs). *)
From PV Require Import Lib.Base.
Open Scope Z_scope.

(* ---- source side: pallas_primitives::alonzo::{PlutusData, BigInt} ---- *)
Inductive pbig :=
| PInt (z : Z)            (* minicbor Int: -2^64 <= z < 2^64 *)
| PBigU (bs : list Z)     (* tag 2 bytes *)
| PBigN (bs : list Z).    (* tag 3 bytes *)

Inductive pdata :=
| PConstr (tag : Z) (anyc : option Z) (fields : list pdata)
| PMap (kvs : list (pdata * pdata))
| PArr (xs : list pdata)
| PBig (b : pbig)
| PBytes (bs : list Z).

(* ---- target side: u5c::{PlutusData, BigInt}; UNone/UEmpty = unset oneof ---- *)
Inductive ubig :=
| UNone
| UInt (z : Z)            (* i64 *)
| UBigU (bs : list Z)
| UBigN (bs : list Z).

Inductive udata :=
| UEmpty
| UConstr (tag anyc : Z) (fields : list udata)
| UMap (kvs : list (udata * udata))
| UArr (xs : list udata)
| UBig (b : ubig)
| UBytes (bs : list Z).

Definition i64_min := - 2 ^ 63.
Definition i64_max := 2 ^ 63 - 1.

(* u64::to_be_bytes *)
Definition be8 (v : Z) : list Z :=
  [ (v / 2 ^ 56) mod 256; (v / 2 ^ 48) mod 256; (v / 2 ^ 40) mod 256; (v / 2 ^ 32) mod 256;
    (v / 2 ^ 24) mod 256; (v / 2 ^ 16) mod 256; (v / 2 ^ 8) mod 256; v mod 256 ].

(* fn u64_to_bigint(value: u64) *)
Definition u64_to_bigint (v : Z) : ubig :=
  if v <=? i64_max then UInt v else UBigU (be8 v).

(* fn i64_to_bigint(value: i64) *)
Definition i64_to_bigint (v : Z) : ubig := UInt v.

(* Mapper::map_plutus_bigint (after fix: values outside i64 become big-integer bytes) *)
Definition map_bigint (b : pbig) : ubig :=
  match b with
  | PInt z =>
      if (i64_min <=? z) && (z <=? i64_max) then UInt z
      else if 0 <=? z then UBigU (be8 z)
      else UBigN (be8 (-1 - z))
  | PBigU bs => UBigU bs
  | PBigN bs => UBigN bs
  end.

(* the code before the fix: `i128::from(x.0) as i64` (two's-complement truncation) *)
Definition wrap_i64 (z : Z) : Z := (z + 2 ^ 63) mod 2 ^ 64 - 2 ^ 63.
Definition map_bigint_unfixed (b : pbig) : ubig :=
  match b with
  | PInt z => UInt (wrap_i64 z)
  | PBigU bs => UBigU bs
  | PBigN bs => UBigN bs
  end.

(* Mapper::map_plutus_datum / map_plutus_constr / map_plutus_map / map_plutus_array.
   `tag: x.tag as u32`, `any_constructor.unwrap_or_default()` *)
Fixpoint map_datum (d : pdata) : udata :=
  match d with
  | PConstr tag anyc fs =>
      UConstr (tag mod 2 ^ 32) (match anyc with Some a => a | None => 0 end) (map map_datum fs)
  | PMap kvs => UMap (map (fun kv => (map_datum (fst kv), map_datum (snd kv))) kvs)
  | PArr xs => UArr (map map_datum xs)
  | PBig b => UBig (map_bigint b)
  | PBytes bs => UBytes bs
  end.

(* ---- meaning of both sides in one semantic domain ---- *)
Definition be (bs : list Z) : Z := fold_left (fun acc b => acc * 256 + b) bs 0.

Inductive sem :=
| SConstr (tag anyc : Z) (fields : list sem)
| SMap (kvs : list (sem * sem))
| SArr (xs : list sem)
| SInt (z : Z)
| SBytes (bs : list Z)
| SUnset.

Definition pbig_val (b : pbig) : Z :=
  match b with PInt z => z | PBigU bs => be bs | PBigN bs => -1 - be bs end.
Definition ubig_val (b : ubig) : option Z :=
  match b with UNone => None | UInt z => Some z | UBigU bs => Some (be bs) | UBigN bs => Some (-1 - be bs) end.

Fixpoint psem (d : pdata) : sem :=
  match d with
  | PConstr tag anyc fs => SConstr tag (match anyc with Some a => a | None => 0 end) (map psem fs)
  | PMap kvs => SMap (map (fun kv => (psem (fst kv), psem (snd kv))) kvs)
  | PArr xs => SArr (map psem xs)
  | PBig b => SInt (pbig_val b)
  | PBytes bs => SBytes bs
  end.

Fixpoint usem (d : udata) : sem :=
  match d with
  | UEmpty => SUnset
  | UConstr tag anyc fs => SConstr tag anyc (map usem fs)
  | UMap kvs => SMap (map (fun kv => (usem (fst kv), usem (snd kv))) kvs)
  | UArr xs => SArr (map usem xs)
  | UBig b => match ubig_val b with Some z => SInt z | None => SUnset end
  | UBytes bs => SBytes bs
  end.

(* well-formed source data: what the pallas decoder can produce *)
Definition pbig_wf (b : pbig) : Prop :=
  match b with PInt z => - 2 ^ 64 <= z < 2 ^ 64 | _ => True end.
Fixpoint pdata_wf (d : pdata) : Prop :=
  match d with
  | PConstr tag _ fs => 0 <= tag < 2 ^ 32 /\ (fix all l := match l with [] => True | x :: r => pdata_wf x /\ all r end) fs
  | PMap kvs => (fix all l := match l with [] => True | kv :: r => (pdata_wf (fst kv) /\ pdata_wf (snd kv)) /\ all r end) kvs
  | PArr xs => (fix all l := match l with [] => True | x :: r => pdata_wf x /\ all r end) xs
  | PBig b => pbig_wf b
  | PBytes _ => True
  end.

(* ---- tx level: the fields the property names ---- *)
Definition txin : Type := (list Z * Z).                              (* tx hash, index *)
Definition rasset : Type := (list Z * Z).                            (* name, quantity u64 *)
Definition rout : Type := (list Z * Z * list (list Z * list rasset)). (* address, coin, per-policy assets *)
Record rtx := mk_rtx { r_hash : list Z; r_inputs : list txin; r_outputs : list rout;
                       r_fee : Z; r_start : Z; r_ttl : Z; r_ok : bool }.
Definition masset : Type := (list Z * ubig).
Definition mout : Type := (list Z * ubig * list (list Z * list masset)).
Record mtx := mk_mtx { m_hash : list Z; m_inputs : list txin; m_outputs : list mout;
                       m_fee : ubig; m_start : Z; m_ttl : Z; m_ok : bool }.

(* lexicographic order on byte lists, then index: the order of MultiEraTx::inputs_sorted_set *)
Fixpoint lex_lt (a b : list Z) : bool :=
  match a, b with
  | [], [] => false
  | [], _ :: _ => true
  | _ :: _, [] => false
  | x :: a', y :: b' => if x <? y then true else if y <? x then false else lex_lt a' b'
  end.
Definition txin_eqb (a b : txin) : bool := list_eqb Z.eqb (fst a) (fst b) && (snd a =? snd b).
Definition txin_lt (a b : txin) : bool :=
  lex_lt (fst a) (fst b) || (list_eqb Z.eqb (fst a) (fst b) && (snd a <? snd b)).
Fixpoint insert_set (x : txin) (l : list txin) : list txin :=
  match l with
  | [] => [x]
  | y :: r => if txin_eqb x y then l else if txin_lt x y then x :: l else y :: insert_set x r
  end.
Definition sorted_set (l : list txin) : list txin := fold_right insert_set [] l.

Definition map_out (o : rout) : mout :=
  let '(addr, coin, mas) := o in
  (addr, u64_to_bigint coin,
   map (fun pa => (fst pa, map (fun a => (fst a, u64_to_bigint (snd a))) (snd pa))) mas).

(* Mapper::map_tx restricted to hash, inputs, outputs, fee, validity, successful;
   `output_index: input.index() as u32` *)
Definition map_tx (t : rtx) : mtx :=
  mk_mtx (r_hash t)
         (map (fun i => (fst i, snd i mod 2 ^ 32)) (sorted_set (r_inputs t)))
         (map map_out (r_outputs t))
         (u64_to_bigint (r_fee t)) (r_start t) (r_ttl t) (r_ok t).
