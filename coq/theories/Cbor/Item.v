(* CBOR core — item syntax.

   The AST records the head form that is actually on the wire: every head
   carries the [width] of its argument (so non-minimal heads such as
   [18 05] or [b8 01] are distinct values), definite and indefinite
   strings/arrays/maps are distinct constructors, and major type 7 (simple
   values and floats) is kept as raw bits.

   Bytes are [Z] in [0,256) as in [Lib.Base]. *)
From PV Require Import Lib.Base.
Open Scope Z_scope.

(* Width of the head argument: in the initial byte (0..23), or in the
   following 1/2/4/8 bytes (additional information 24/25/26/27). *)
Inductive width : Type := W0 | W8 | W16 | W32 | W64.

Definition width_eqb (a b : width) : bool :=
  match a, b with
  | W0, W0 | W8, W8 | W16, W16 | W32, W32 | W64, W64 => true
  | _, _ => false
  end.

(* number of argument bytes following the initial byte *)
Definition width_nbytes (w : width) : nat :=
  match w with W0 => 0 | W8 => 1 | W16 => 2 | W32 => 4 | W64 => 8 end%nat.

(* additional-information value of the initial byte (for W0 it is the argument) *)
Definition width_info (w : width) : Z :=
  match w with W0 => 0 | W8 => 24 | W16 => 25 | W32 => 26 | W64 => 27 end.

(* exclusive upper bound of the argument *)
Definition width_bound (w : width) : Z :=
  match w with
  | W0 => 24 | W8 => 256 | W16 => 65536 | W32 => 4294967296
  | W64 => 18446744073709551616
  end.

Definition arg_fitsb (w : width) (n : Z) : bool := (0 <=? n) && (n <? width_bound w).
Definition arg_fits (w : width) (n : Z) : Prop := 0 <= n < width_bound w.

(* the shortest width that can hold n (what minicbor's Encoder always writes) *)
Definition min_width (n : Z) : width :=
  if n <? 24 then W0 else if n <? 256 then W8 else if n <? 65536 then W16
  else if n <? 4294967296 then W32 else W64.

Inductive major : Type :=
| MajUInt | MajNInt | MajBytes | MajText | MajArray | MajMap | MajTag | MajSimple.

Definition major_code (m : major) : Z :=
  match m with
  | MajUInt => 0 | MajNInt => 1 | MajBytes => 2 | MajText => 3
  | MajArray => 4 | MajMap => 5 | MajTag => 6 | MajSimple => 7
  end.

Definition major_eqb (a b : major) : bool := major_code a =? major_code b.

Definition major_of_code (c : Z) : major :=
  if c =? 0 then MajUInt else if c =? 1 then MajNInt else if c =? 2 then MajBytes
  else if c =? 3 then MajText else if c =? 4 then MajArray else if c =? 5 then MajMap
  else if c =? 6 then MajTag else MajSimple.

Inductive item : Type :=
| UInt (w : width) (n : Z)                       (* major 0, value n *)
| NInt (w : width) (n : Z)                       (* major 1, value -1 - n *)
| Bytes (w : width) (b : list Z)                 (* major 2, definite; w = width of the length *)
| BytesIndef (chunks : list (width * list Z))    (* 5f chunk* ff, each chunk a definite byte string *)
| Text (w : width) (b : list Z)                  (* major 3, definite; b is the UTF-8 *)
| TextIndef (chunks : list (width * list Z))     (* 7f chunk* ff *)
| Array (w : width) (xs : list item)             (* major 4, definite; w = width of the count *)
| ArrayIndef (xs : list item)                    (* 9f item* ff *)
| Map (w : width) (kvs : list (item * item))     (* major 5, definite; count = number of pairs *)
| MapIndef (kvs : list (item * item))            (* bf (key value)* ff *)
| Tag (w : width) (t : Z) (x : item)             (* major 6 *)
| Simple (w : width) (n : Z).                    (* major 7: W0 -> simple 0..23 (20 false, 21 true,
                                                    22 null, 23 undefined); W8 -> f8 n;
                                                    W16/W32/W64 -> f9/fa/fb with the float's raw bits *)

Definition CFalse := Simple W0 20.
Definition CTrue := Simple W0 21.
Definition CNull := Simple W0 22.
Definition CUndefined := Simple W0 23.
Definition F16 (bits : Z) := Simple W16 bits.
Definition F32 (bits : Z) := Simple W32 bits.
Definition F64 (bits : Z) := Simple W64 bits.

(* ---- induction principle that reaches through the nested lists ---- *)
Section ItemInd.
  Variable P : item -> Prop.
  Hypothesis HUInt : forall w n, P (UInt w n).
  Hypothesis HNInt : forall w n, P (NInt w n).
  Hypothesis HBytes : forall w b, P (Bytes w b).
  Hypothesis HBytesIndef : forall cs, P (BytesIndef cs).
  Hypothesis HText : forall w b, P (Text w b).
  Hypothesis HTextIndef : forall cs, P (TextIndef cs).
  Hypothesis HArray : forall w xs, Forall P xs -> P (Array w xs).
  Hypothesis HArrayIndef : forall xs, Forall P xs -> P (ArrayIndef xs).
  Hypothesis HMap : forall w kvs, Forall (fun kv => P (fst kv) /\ P (snd kv)) kvs -> P (Map w kvs).
  Hypothesis HMapIndef : forall kvs, Forall (fun kv => P (fst kv) /\ P (snd kv)) kvs -> P (MapIndef kvs).
  Hypothesis HTag : forall w t x, P x -> P (Tag w t x).
  Hypothesis HSimple : forall w n, P (Simple w n).

  Fixpoint item_ind' (i : item) : P i :=
    let fix go (xs : list item) : Forall P xs :=
      match xs with
      | [] => Forall_nil _
      | x :: r => Forall_cons x (item_ind' x) (go r)
      end in
    let fix gop (kvs : list (item * item)) : Forall (fun kv => P (fst kv) /\ P (snd kv)) kvs :=
      match kvs with
      | [] => Forall_nil _
      | (k, v) :: r => Forall_cons (k, v) (conj (item_ind' k) (item_ind' v)) (gop r)
      end in
    match i with
    | UInt w n => HUInt w n
    | NInt w n => HNInt w n
    | Bytes w b => HBytes w b
    | BytesIndef cs => HBytesIndef cs
    | Text w b => HText w b
    | TextIndef cs => HTextIndef cs
    | Array w xs => HArray w xs (go xs)
    | ArrayIndef xs => HArrayIndef xs (go xs)
    | Map w kvs => HMap w kvs (gop kvs)
    | MapIndef kvs => HMapIndef kvs (gop kvs)
    | Tag w t x => HTag w t x (item_ind' x)
    | Simple w n => HSimple w n
    end.
End ItemInd.

(* ---- UTF-8 validity, as checked by Rust's [core::str::from_utf8]
        (no overlong forms, no surrogates, nothing above U+10FFFF) ---- *)
Definition utf8_cont (b : Z) : bool := (128 <=? b) && (b <=? 191).
Definition in_rng (lo hi b : Z) : bool := (lo <=? b) && (b <=? hi).

Fixpoint utf8_valid (l : list Z) : bool :=
  match l with
  | [] => true
  | b0 :: t0 =>
    if in_rng 0 127 b0 then utf8_valid t0
    else if in_rng 194 223 b0 then
      match t0 with
      | b1 :: t1 => utf8_cont b1 && utf8_valid t1
      | _ => false
      end
    else if in_rng 224 239 b0 then
      match t0 with
      | b1 :: b2 :: t2 =>
        (if b0 =? 224 then in_rng 160 191 b1
         else if b0 =? 237 then in_rng 128 159 b1
         else utf8_cont b1) && utf8_cont b2 && utf8_valid t2
      | _ => false
      end
    else if in_rng 240 244 b0 then
      match t0 with
      | b1 :: b2 :: b3 :: t3 =>
        (if b0 =? 240 then in_rng 144 191 b1
         else if b0 =? 244 then in_rng 128 143 b1
         else utf8_cont b1) && utf8_cont b2 && utf8_cont b3 && utf8_valid t3
      | _ => false
      end
    else false
  end.

(* ---- well-formedness ---- *)
Definition len {A} (l : list A) : Z := Z.of_nat (length l).

Definition wf_bchunk (c : width * list Z) : bool :=
  arg_fitsb (fst c) (len (snd c)) && bytes_wfb (snd c).
Definition wf_tchunk (c : width * list Z) : bool :=
  arg_fitsb (fst c) (len (snd c)) && bytes_wfb (snd c) && utf8_valid (snd c).

Fixpoint wf_item (i : item) : bool :=
  match i with
  | UInt w n => arg_fitsb w n
  | NInt w n => arg_fitsb w n
  | Bytes w b => arg_fitsb w (len b) && bytes_wfb b
  | BytesIndef cs => forallb wf_bchunk cs
  | Text w b => arg_fitsb w (len b) && bytes_wfb b && utf8_valid b
  | TextIndef cs => forallb wf_tchunk cs
  | Array w xs => arg_fitsb w (len xs) && forallb wf_item xs
  | ArrayIndef xs => forallb wf_item xs
  | Map w kvs => arg_fitsb w (len kvs) && forallb (fun '(k, v) => wf_item k && wf_item v) kvs
  | MapIndef kvs => forallb (fun '(k, v) => wf_item k && wf_item v) kvs
  | Tag w t x => arg_fitsb w t && wf_item x
  | Simple w n => arg_fitsb w n
  end.

(* all heads of the item (recursively) use the shortest width — what
   minicbor's Encoder produces; indefinite forms are allowed *)
Definition min_chunk (c : width * list Z) : bool := width_eqb (fst c) (min_width (len (snd c))).
Fixpoint minimal_item (i : item) : bool :=
  match i with
  | UInt w n | NInt w n => width_eqb w (min_width n)
  | Bytes w b | Text w b => width_eqb w (min_width (len b))
  | BytesIndef cs | TextIndef cs => forallb min_chunk cs
  | Array w xs => width_eqb w (min_width (len xs)) && forallb minimal_item xs
  | ArrayIndef xs => forallb minimal_item xs
  | Map w kvs => width_eqb w (min_width (len kvs)) && forallb (fun '(k, v) => minimal_item k && minimal_item v) kvs
  | MapIndef kvs => forallb (fun '(k, v) => minimal_item k && minimal_item v) kvs
  | Tag w t x => width_eqb w (min_width t) && minimal_item x
  | Simple w n => match w with W0 | W8 => width_eqb w (min_width n) | _ => true end
  end.

(* nesting depth = fuel needed by the decoder *)
Fixpoint fuel_of (i : item) : nat :=
  match i with
  | Array _ xs | ArrayIndef xs => S (fold_right (fun x m => Nat.max (fuel_of x) m) O xs)
  | Map _ kvs | MapIndef kvs =>
    S (fold_right (fun '(k, v) m => Nat.max (Nat.max (fuel_of k) (fuel_of v)) m) O kvs)
  | Tag _ _ x => S (fuel_of x)
  | _ => 1%nat
  end.

(* decidable equality on items (used by Run.v files to compare model output
   with the item the harness printed) *)
Section ListEqb.
  Context {A : Type} (eqb : A -> A -> bool).
  Fixpoint leqb (l1 l2 : list A) : bool :=
    match l1, l2 with
    | [], [] => true
    | x :: r1, y :: r2 => eqb x y && leqb r1 r2
    | _, _ => false
    end.
End ListEqb.

Definition chunk_eqb (a b : width * list Z) : bool :=
  width_eqb (fst a) (fst b) && list_eqb Z.eqb (snd a) (snd b).

Fixpoint item_eqb (a b : item) : bool :=
  match a, b with
  | UInt w n, UInt w' n' | NInt w n, NInt w' n' | Simple w n, Simple w' n' =>
    width_eqb w w' && (n =? n')
  | Bytes w x, Bytes w' x' | Text w x, Text w' x' => width_eqb w w' && list_eqb Z.eqb x x'
  | BytesIndef c, BytesIndef c' | TextIndef c, TextIndef c' => leqb chunk_eqb c c'
  | Array w xs, Array w' xs' => width_eqb w w' && leqb item_eqb xs xs'
  | ArrayIndef xs, ArrayIndef xs' => leqb item_eqb xs xs'
  | Map w kvs, Map w' kvs' =>
    width_eqb w w' &&
    leqb (fun '(k, v) '(k', v') => item_eqb k k' && item_eqb v v') kvs kvs'
  | MapIndef kvs, MapIndef kvs' =>
    leqb (fun '(k, v) '(k', v') => item_eqb k k' && item_eqb v v') kvs kvs'
  | Tag w t x, Tag w' t' x' => width_eqb w w' && (t =? t') && item_eqb x x'
  | _, _ => false
  end.
