(* C22 correspondence. A case carries a message (as a term of the model's message
   type), and the bytes the implementation's Encode wrote for it ([None] = the encoder
   returned an error). [case_ok]: the message is inside the theorems' domain ([wf]),
   the model encoder writes the same bytes, and the model decoder reads them back to
   the same message consuming everything.
   The same constructor serves both stacks (the codecs are the same text); the
   peersharing case carries the port bound of the stack (2^32 / 2^16).
   [CDec]: arbitrary (mutated / truncated) bytes through the model decoder against the
   implementation's decoder: same class (ok / end of input / error), same bytes
   consumed, same re-encoding of the decoded message. *)
From PV Require Import Lib.Base Cbor.Item Cbor.Enc Cbor.Dec Cbor.Api C22.Model.
Open Scope Z_scope.

Definition beqb := list_eqb Z.eqb.
Definition opt_eqb {A} (e : A -> A -> bool) (a b : option A) : bool :=
  match a, b with Some x, Some y => e x y | None, None => true | _, _ => false end.
Definition pair_eqb {A B} (ea : A -> A -> bool) (eb : B -> B -> bool) (a b : A * B) : bool :=
  ea (fst a) (fst b) && eb (snd a) (snd b).

Definition point_eqb (a b : point) : bool :=
  match a, b with
  | Origin, Origin => true
  | Specific s h, Specific s' h' => (s =? s') && beqb h h'
  | _, _ => false
  end.
Definition tip_eqb (a b : tip) : bool :=
  let '(Tip p n) := a in let '(Tip p' n') := b in point_eqb p p' && (n =? n').

Definition ka_eqb (a b : ka_msg) : bool :=
  match a, b with
  | KaKeepAlive c, KaKeepAlive c' | KaResponse c, KaResponse c' => c =? c'
  | KaDone, KaDone => true
  | _, _ => false
  end.

Definition bf_eqb (a b : bf_msg) : bool :=
  match a, b with
  | BfRequestRange x y, BfRequestRange x' y' => point_eqb x x' && point_eqb y y'
  | BfClientDone, BfClientDone | BfStartBatch, BfStartBatch | BfNoBlocks, BfNoBlocks
  | BfBatchDone, BfBatchDone => true
  | BfBlock x, BfBlock x' => beqb x x'
  | _, _ => false
  end.

Definition cs_eqb {C} (ec : C -> C -> bool) (a b : cs_msg C) : bool :=
  match a, b with
  | CsRequestNext, CsRequestNext | CsAwaitReply, CsAwaitReply | CsDone, CsDone => true
  | CsRollForward c t, CsRollForward c' t' => ec c c' && tip_eqb t t'
  | CsRollBackward p t, CsRollBackward p' t' | CsIntersectFound p t, CsIntersectFound p' t' =>
    point_eqb p p' && tip_eqb t t'
  | CsFindIntersect ps, CsFindIntersect ps' => list_eqb point_eqb ps ps'
  | CsIntersectNotFound t, CsIntersectNotFound t' => tip_eqb t t'
  | _, _ => false
  end.
Definition header_eqb (a b : header) : bool :=
  (hvariant a =? hvariant b) && opt_eqb (pair_eqb Z.eqb Z.eqb) (hprefix a) (hprefix b) &&
  beqb (hcbor a) (hcbor b).

Definition txid_eqb : txid -> txid -> bool := pair_eqb Z.eqb beqb.
Definition ts_eqb (a b : ts_msg) : bool :=
  match a, b with
  | TsInit, TsInit | TsDone, TsDone => true
  | TsRequestTxIds x y z, TsRequestTxIds x' y' z' => Bool.eqb x x' && (y =? y') && (z =? z')
  | TsReplyTxIds l, TsReplyTxIds l' => list_eqb (pair_eqb txid_eqb Z.eqb) l l'
  | TsRequestTxs l, TsRequestTxs l' => list_eqb txid_eqb l l'
  | TsReplyTxs l, TsReplyTxs l' => list_eqb txid_eqb l l'
  | _, _ => false
  end.

Definition pa_eqb (a b : peer_addr) : bool :=
  match a, b with
  | PaV4 x y, PaV4 x' y' | PaV6 x y, PaV6 x' y' => (x =? x') && (y =? y')
  | _, _ => false
  end.
Definition ps_eqb (a b : ps_msg) : bool :=
  match a, b with
  | PsShareRequest n, PsShareRequest n' => n =? n'
  | PsSharePeers l, PsSharePeers l' => list_eqb pa_eqb l l'
  | PsDone, PsDone => true
  | _, _ => false
  end.

Definition refuse_eqb (a b : refuse) : bool :=
  match a, b with
  | RVersionMismatch l, RVersionMismatch l' => beqb l l'
  | RDecodeError v s, RDecodeError v' s' | RRefused v s, RRefused v' s' => (v =? v') && beqb s s'
  | _, _ => false
  end.
Definition hs_eqb {D} (ed : D -> D -> bool) (a b : hs_msg D) : bool :=
  match a, b with
  | HsPropose t, HsPropose t' | HsQueryReply t, HsQueryReply t' => list_eqb (pair_eqb Z.eqb ed) t t'
  | HsAccept v d, HsAccept v' d' => (v =? v') && ed d d'
  | HsRefuse x, HsRefuse x' => refuse_eqb x x'
  | _, _ => false
  end.
Definition n2n_eqb (a b : n2n_data) : bool :=
  (nd_magic a =? nd_magic b) && Bool.eqb (nd_init_only a) (nd_init_only b) &&
  opt_eqb Z.eqb (nd_peer_sharing a) (nd_peer_sharing b) && opt_eqb Bool.eqb (nd_query a) (nd_query b).
Definition n2c_eqb : n2c_data -> n2c_data -> bool := pair_eqb Z.eqb (opt_eqb Bool.eqb).

Definition ls_eqb (a b : ls_msg) : bool :=
  match a, b with
  | LsAcquire p, LsAcquire p' | LsReAcquire p, LsReAcquire p' => opt_eqb point_eqb p p'
  | LsFailure c, LsFailure c' => c =? c'
  | LsQuery x, LsQuery x' | LsResult x, LsResult x' => beqb x x'
  | LsAcquired, LsAcquired | LsRelease, LsRelease | LsDone, LsDone => true
  | _, _ => false
  end.

Definition ltx_eqb (a b : ltx_msg) : bool :=
  match a, b with
  | LtxSubmitTx e t, LtxSubmitTx e' t' => (e =? e') && beqb t t'
  | LtxRejectTx x, LtxRejectTx x' | LtxRejectText x, LtxRejectText x' => beqb x x'
  | LtxAcceptTx, LtxAcceptTx | LtxDone, LtxDone => true
  | _, _ => false
  end.

Definition tm_eqb (a b : tm_msg) : bool :=
  match a, b with
  | TmDone, TmDone | TmAcquire, TmAcquire | TmRelease, TmRelease | TmAwaitAcquire, TmAwaitAcquire
  | TmRequestNextTx, TmRequestNextTx | TmRequestSizeAndCapacity, TmRequestSizeAndCapacity => true
  | TmAcquired s, TmAcquired s' => s =? s'
  | TmResponseNextTx t, TmResponseNextTx t' => opt_eqb (pair_eqb Z.eqb beqb) t t'
  | TmRequestHasTx i, TmRequestHasTx i' => beqb i i'
  | TmResponseHasTx x, TmResponseHasTx x' => Bool.eqb x x'
  | TmResponseSizeAndCapacity x y z, TmResponseSizeAndCapacity x' y' z' => (x =? x') && (y =? y') && (z =? z')
  | _, _ => false
  end.

Definition ln_eqb (a b : ln_msg) : bool :=
  match a, b with
  | LnRequestNext, LnRequestNext | LnDone, LnDone => true
  | LnBlockAnnouncement h, LnBlockAnnouncement h' => beqb h h'
  | LnBlockOffer p s, LnBlockOffer p' s' => point_eqb p p' && (s =? s')
  | LnBlockTxsOffer p, LnBlockTxsOffer p' => point_eqb p p'
  | LnVotes l, LnVotes l' => list_eqb beqb l l'
  | _, _ => false
  end.

Definition bm_eqb : bitmaps -> bitmaps -> bool := list_eqb (pair_eqb Z.eqb Z.eqb).
Definition lf_eqb (a b : lf_msg) : bool :=
  match a, b with
  | LfBlockRequest p, LfBlockRequest p' => point_eqb p p'
  | LfBlock x, LfBlock x' => beqb x x'
  | LfBlockTxsRequest p m, LfBlockTxsRequest p' m' => point_eqb p p' && bm_eqb m m'
  | LfBlockTxs p m t, LfBlockTxs p' m' t' => point_eqb p p' && bm_eqb m m' && list_eqb beqb t t'
  | LfDone, LfDone => true
  | _, _ => false
  end.

Definition dmq_eqb (a b : dmq_msg) : bool :=
  beqb (dq_id a) (dq_id b) && beqb (dq_body a) (dq_body b) && (dq_kes_period a =? dq_kes_period b) &&
  (dq_expires_at a =? dq_expires_at b) && beqb (dq_kes_sig a) (dq_kes_sig b) && beqb (dq_kes_vk a) (dq_kes_vk b) &&
  (dq_issue a =? dq_issue b) && (dq_start_kes a =? dq_start_kes b) && beqb (dq_cert_sig a) (dq_cert_sig b) &&
  beqb (dq_cold_vk a) (dq_cold_vk b).
Definition dmq_reason_eqb (a b : dmq_reason) : bool :=
  match a, b with
  | DrInvalid s, DrInvalid s' | DrOther s, DrOther s' => beqb s s'
  | DrAlreadyReceived, DrAlreadyReceived | DrExpired, DrExpired => true
  | _, _ => false
  end.
Definition lms_eqb (a b : lms_msg) : bool :=
  match a, b with
  | LmsSubmit x, LmsSubmit y => dmq_eqb x y
  | LmsReject x, LmsReject y => dmq_reason_eqb x y
  | LmsAccept, LmsAccept | LmsDone, LmsDone => true
  | _, _ => false
  end.
Definition lmn_eqb (a b : lmn_msg) : bool :=
  match a, b with
  | LmnRequestNonBlocking, LmnRequestNonBlocking | LmnRequestBlocking, LmnRequestBlocking
  | LmnClientDone, LmnClientDone => true
  | LmnReplyNonBlocking l h, LmnReplyNonBlocking l' h' => list_eqb dmq_eqb l l' && Bool.eqb h h'
  | LmnReplyBlocking l, LmnReplyBlocking l' => list_eqb dmq_eqb l l'
  | _, _ => false
  end.
Definition lq_eqb (a b : lq_req) : bool :=
  match a, b with
  | LqBlock e t, LqBlock e' t' => (e =? e') && (t =? t')
  | LqHardFork t, LqHardFork t' => t =? t'
  | LqSystemStart, LqSystemStart | LqChainBlockNo, LqChainBlockNo | LqChainPoint, LqChainPoint => true
  | _, _ => false
  end.

(* ---- decoder differential: arbitrary (mutated / truncated) input against the model
        decoder. The implementation result is canonicalised by the harness to the
        re-encoding of the decoded message and the number of bytes consumed. ---- *)
Inductive dr : Type := ROk (reenc : list Z) (consumed : Z) | REoi | RErr.
Definition to_dr {M} (enc : M -> list Z) (bs : list Z) (x : dres (M * list Z)) : dr :=
  match x with DOk (m, r) => ROk (enc m) (len bs - len r) | DEoi => REoi | DErr => RErr end.
Definition dr_eqb (a b : dr) : bool :=
  match a, b with
  | ROk x n, ROk y m => beqb x y && (n =? m)
  | REoi, REoi | RErr, RErr => true
  | _, _ => false
  end.
(* 0 keepalive, 1 blockfetch, 2/3/4 chainsync header/block/skipped, 5 txsubmission,
   6/7 peersharing with u32/u16 ports, 8/9 handshake n2n/n2c, 10 localstate, 11 txmonitor,
   12 leiosnotify, 13 leiosfetch, 14 localmsgsubmission, 15 localmsgnotification *)
Definition dec_run (k : Z) (bs : list Z) : dr :=
  if k =? 0 then to_dr ka_enc bs (ka_dec bs)
  else if k =? 1 then to_dr bf_enc bs (bf_dec bs)
  else if k =? 2 then to_dr csh_enc bs (csh_dec bs)
  else if k =? 3 then to_dr csb_enc bs (csb_dec bs)
  else if k =? 4 then to_dr css_enc bs (css_dec bs)
  else if k =? 5 then to_dr ts_enc bs (ts_dec bs)
  else if k =? 6 then to_dr ps_enc bs (ps_dec u32b bs)
  else if k =? 7 then to_dr ps_enc bs (ps_dec u16b bs)
  else if k =? 8 then to_dr hsn_enc bs (hsn_dec bs)
  else if k =? 9 then to_dr hsc_enc bs (hsc_dec bs)
  else if k =? 10 then to_dr ls_enc bs (ls_dec bs)
  else if k =? 11 then to_dr tm_enc bs (tm_dec bs)
  else if k =? 12 then to_dr ln_enc bs (ln_dec bs)
  else if k =? 13 then to_dr lf_enc bs (lf_dec bs)
  else if k =? 14 then to_dr lms_enc bs (lms_dec bs)
  else to_dr lmn_enc bs (lmn_dec bs).

(* ---- cases ---- *)
Inductive case : Type :=
| CKa (m : ka_msg) (bs : list Z)
| CBf (m : bf_msg) (bs : list Z)
| CCsH (m : cs_msg header) (bs : option (list Z))
| CCsB (m : cs_msg (list Z)) (bs : list Z)
| CCsS (m : cs_msg unit) (bs : list Z)
| CTs (m : ts_msg) (bs : list Z)
| CPs (pb : Z) (m : ps_msg) (bs : list Z)
| CHsN (m : hs_msg n2n_data) (bs : list Z)
| CHsC (m : hs_msg n2c_data) (bs : list Z)
| CLs (m : ls_msg) (bs : list Z)
| CLtx (m : ltx_msg) (bs : list Z)
| CTm (m : tm_msg) (bs : list Z)
| CLn (m : ln_msg) (bs : list Z)
| CLf (m : lf_msg) (bs : list Z)
| CLms (m : lms_msg) (bs : list Z)
| CLmn (m : lmn_msg) (bs : list Z)
| CLq (m : lq_req) (bs : list Z)
| CDec (k : Z) (bs : list Z) (res : dr).

Section Chk.
  Context {M : Type} (wf : M -> bool) (enc : M -> list Z) (dec : list Z -> dres (M * list Z))
          (eqb : M -> M -> bool).
  Definition dec_back (m : M) (bs : list Z) : bool :=
    match dec bs with DOk (m', []) => eqb m' m | _ => false end.
  Definition chk (m : M) (bs : list Z) : bool := wf m && beqb (enc m) bs && dec_back m bs.
  (* model bytes, and whether the model decoder reads the *implementation's* bytes back *)
  Definition out (m : M) (bs : list Z) : list Z * bool := (enc m, dec_back m bs).
End Chk.

Definition case_ok (c : case) : bool :=
  match c with
  | CKa m bs => chk ka_wf ka_enc ka_dec ka_eqb m bs
  | CBf m bs => chk bf_wf bf_enc bf_dec bf_eqb m bs
  | CCsH m (Some bs) => negb (csh_enc_err m) && chk csh_wf csh_enc csh_dec (cs_eqb header_eqb) m bs
  | CCsH m None => csh_enc_err m          (* the encoder refuses: outside the theorem's domain *)
  | CCsB m bs => chk csb_wf csb_enc csb_dec (cs_eqb beqb) m bs
  | CCsS m bs => chk css_wf css_enc css_dec (cs_eqb (fun _ _ => true)) m bs
  | CTs m bs => chk ts_wf ts_enc ts_dec ts_eqb m bs
  | CPs pb m bs => chk (ps_wf pb) ps_enc (ps_dec pb) ps_eqb m bs
  | CHsN m bs => chk hsn_wf hsn_enc hsn_dec (hs_eqb n2n_eqb) m bs
  | CHsC m bs => chk hsc_wf hsc_enc hsc_dec (hs_eqb n2c_eqb) m bs
  | CLs m bs => chk ls_wf ls_enc ls_dec ls_eqb m bs
  | CLtx m bs => chk ltx_wf ltx_enc ltx_dec ltx_eqb m bs
  | CTm m bs => chk tm_wf tm_enc tm_dec tm_eqb m bs
  | CLn m bs => chk ln_wf ln_enc ln_dec ln_eqb m bs
  | CLf m bs => chk lf_wf lf_enc lf_dec lf_eqb m bs
  | CLms m bs => chk lms_wf lms_enc lms_dec lms_eqb m bs
  | CLmn m bs => chk lmn_wf lmn_enc lmn_dec lmn_eqb m bs
  | CLq m bs => chk lq_wf lq_enc lq_dec lq_eqb m bs
  | CDec k bs res => dr_eqb (dec_run k bs) res
  end.

Definition case_out (c : case) : list Z * bool * option dr :=
  let o (x : list Z * bool) := (x, @None dr) in
  match c with
  | CKa m bs => o (out ka_enc ka_dec ka_eqb m bs)
  | CBf m bs => o (out bf_enc bf_dec bf_eqb m bs)
  | CCsH m (Some bs) => o (out csh_enc csh_dec (cs_eqb header_eqb) m bs)
  | CCsH m None => o (csh_enc m, csh_enc_err m)
  | CCsB m bs => o (out csb_enc csb_dec (cs_eqb beqb) m bs)
  | CCsS m bs => o (out css_enc css_dec (cs_eqb (fun _ _ => true)) m bs)
  | CTs m bs => o (out ts_enc ts_dec ts_eqb m bs)
  | CPs pb m bs => o (out ps_enc (ps_dec pb) ps_eqb m bs)
  | CHsN m bs => o (out hsn_enc hsn_dec (hs_eqb n2n_eqb) m bs)
  | CHsC m bs => o (out hsc_enc hsc_dec (hs_eqb n2c_eqb) m bs)
  | CLs m bs => o (out ls_enc ls_dec ls_eqb m bs)
  | CLtx m bs => o (out ltx_enc ltx_dec ltx_eqb m bs)
  | CTm m bs => o (out tm_enc tm_dec tm_eqb m bs)
  | CLn m bs => o (out ln_enc ln_dec ln_eqb m bs)
  | CLf m bs => o (out lf_enc lf_dec lf_eqb m bs)
  | CLms m bs => o (out lms_enc lms_dec lms_eqb m bs)
  | CLmn m bs => o (out lmn_enc lmn_dec lmn_eqb m bs)
  | CLq m bs => o (out lq_enc lq_dec lq_eqb m bs)
  | CDec k bs _ => (([], true), Some (dec_run k bs))
  end.
