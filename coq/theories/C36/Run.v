(* C36 correspondence. case = (kind, era, p1, p2, p3, p4, p5, p6, p7, observed), all Z.
   era: 0 Shelley-MA, 1 Alonzo, 2 Babbage, 3 Conway.  aux length: -1 = no auxiliary data.
   kind 0  check_min_fee / check_fees through the hook: p = (fee, a, b, size); observed class
           0 Ok, 1 FeeBelowMin, 9 other error, -1 panic
   kind 1  check_tx_size through the hook: p = (size, max); observed 0 Ok / 2 MaxTxSizeExceeded
   kind 2  the validator's size function: p = (body len, wits len, aux len); observed = size
   kind 3  MultiEraTx::size: same p; observed = size
   kind 4  validate_tx on an otherwise valid fixture (only fee / fee parameters / size limit
           moved): p = (body len, wits len, aux len, fee, a, b, max); observed 1 accepted / 0 rejected *)
From PV Require Import Lib.Base C36.Model.
Open Scope Z_scope.
Definition case : Type := (Z * Z * Z * Z * Z * Z * Z * Z * Z * Z).
Definition aux_of (x : Z) : option Z := if x <? 0 then None else Some x.
Definition case_out (c : case) : Z :=
  let '(kind, era, p1, p2, p3, p4, p5, p6, p7, obs) := c in
  if kind =? 0 then check_min_fee p1 p2 p3 p4
  else if kind =? 1 then check_tx_size p1 p2
  else if kind =? 2 then validator_size era p1 p2 (aux_of p3)
  else if kind =? 3 then traverse_size p1 p2 (aux_of p3)
  else if fee_and_size_ok era p1 p2 (aux_of p3) p4 p5 p6 p7 then 1 else 0.
Definition case_ok (c : case) : bool :=
  let '(kind, era, p1, p2, p3, p4, p5, p6, p7, obs) := c in case_out c =? obs.
