//! C14: constant-time memeq/memcmp vs ordinary comparisons.
//! case := (a, b, memeq result, memcmp result as -1/0/1)
use pallas_crypto::memsec::{memcmp, memeq};
use std::cmp::Ordering;
use verif_harness::*;

fn ord_z(o: Ordering) -> i32 { match o { Ordering::Less => -1, Ordering::Equal => 0, Ordering::Greater => 1 } }

fn run(a: &[u8], b: &[u8], tag: &str, oracle_only: bool) {
    assert_eq!(a.len(), b.len());
    let eq = unsafe { memeq(a.as_ptr(), b.as_ptr(), a.len()) };
    let cmp = unsafe { memcmp(a.as_ptr(), b.as_ptr(), a.len()) };
    if eq != (a == b) {
        emit_oracle_fail("memeq", &format!("a={} b={} memeq={} expected={}", hex(a), hex(b), eq, a == b));
    }
    if cmp != a.cmp(b) {
        emit_oracle_fail("memcmp", &format!("a={} b={} memcmp={:?} expected={:?}", hex(a), hex(b), cmp, a.cmp(b)));
    }
    if !oracle_only {
        emit_case(tag, &format!("({},{},{},{})", coq_bytes(a), coq_bytes(b), coq_bool(eq), coq_z(ord_z(cmp))));
    }
}

fn main() {
    let args = args();
    let mut rng = Rng::new(args.seed);
    let thorough = args.tier == "thorough";
    // exhaustive length 1: all 65 536 pairs go to the oracle; a 1/16 (quick) slice goes to the model too
    let mut n1 = 0u64;
    for x in 0..=255u8 { for y in 0..=255u8 {
        let to_model = thorough || ((x as u32 * 256 + y as u32 + args.seed as u32) % 16 == 0) || x == y
            || x.wrapping_sub(y) == 1 || y.wrapping_sub(x) == 1;
        run(&[x], &[y], "len1", args.oracle_only || !to_model);
        n1 += 1;
    } }
    emit_stat("len1_pairs_oracle", n1);
    // length 2: thorough = all 2^32 pairs through the oracle only, sampled into the model
    if thorough {
        let mut n2 = 0u64;
        for v in 0..=u32::MAX {
            let a = [(v >> 24) as u8, (v >> 16) as u8];
            let b = [(v >> 8) as u8, v as u8];
            let eq = unsafe { memeq(a.as_ptr(), b.as_ptr(), 2) };
            let cmp = unsafe { memcmp(a.as_ptr(), b.as_ptr(), 2) };
            if eq != (a == b) || cmp != a.cmp(&b) {
                emit_oracle_fail("len2", &format!("a={} b={} memeq={} memcmp={:?}", hex(&a), hex(&b), eq, cmp));
                if n2 > 20 { break; }
                n2 += 1;
            }
        }
        emit_stat("len2_pairs_oracle", 1u64 << 32);
    }
    for i in 0..args.n {
        let len = match rng.below(5) { 0 => 2, 1 => rng.range(1, 4) as usize, 2 => rng.range(5, 40) as usize, 3 => 32, _ => rng.range(41, 300) as usize };
        let a = rng.bytes(len);
        let mut b = a.clone();
        let tag;
        match rng.below(6) {
            0 => { tag = "equal"; }
            1 => { b = rng.bytes(len); tag = "random"; }
            2 => { let k = rng.below(len as u64) as usize; b[k] = b[k].wrapping_add(1 + rng.below(255) as u8); tag = "one-byte-differs"; }
            3 => { let k = rng.below(len as u64) as usize; for j in k..len { b[j] = rng.byte(); } tag = "shared-prefix"; }
            4 => { let k = rng.below(len as u64) as usize; for j in 0..=k { b[j] = rng.byte(); } tag = "shared-suffix"; }
            _ => { let k = rng.below(len as u64) as usize; b[k] = if rng.bool() { b[k].wrapping_add(1) } else { b[k].wrapping_sub(1) };
                   if k + 1 < len { b[k + 1] = if rng.bool() { 0 } else { 255 }; } tag = "adjacent-extremes"; }
        }
        if i < 3 { emit_sample(&format!("a={} b={}", hex(&a), hex(&b))); }
        run(&a, &b, tag, args.oracle_only);
    }
}
