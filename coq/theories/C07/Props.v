(* C07 — property theorems only. Statements are pinned by vp/check.py. *)
From PV Require Import Lib.Base Cbor.Item Cbor.Enc Cbor.Dec Cbor.Api C07.Model.
Open Scope Z_scope.

Theorem placeholder_strip0_idem : forall l, strip0 (strip0 l) = strip0 l.
Proof.
  induction l as [|x t IH]; [reflexivity|]. cbn [strip0]. destruct (x =? 0) eqn:E; [exact IH|].
  cbn [strip0]. rewrite E. reflexivity.
Qed.
