(* C07 proofs, part 2: decode (encode d) = d.
   - first-byte / datatype facts for every head the encoder writes;
   - BoundedBytes: 64-byte chunking re-assembles ([chunks64_concat], [d_bounded_enc]);
   - containers (MaybeIndefArray, KeyValuePairs, Constr) for any element codec;
   - PlutusData by nested induction, exact for the values the decoder can produce
     ([strict_pdata]), up to the library's equality for every well-formed value. *)
From PV Require Import Lib.Base Cbor.Item Cbor.Enc Cbor.Dec Cbor.HeadLaws Cbor.Laws Cbor.Api C07.Model C07.Order.
Open Scope Z_scope.

(* ------------------------------------------------------------------ first byte of a head *)
Definition head_info (w : width) (n : Z) : Z := match w with W0 => n | _ => width_info w end.

Lemma enc_head_cons m w n :
  exists t, enc_head m w n = (major_code m * 32 + head_info w n) :: t /\ (w <> W0 -> t <> []).
Proof.
  destruct w; cbn [enc_head head_info width_info width_nbytes be_bytes]; eexists; (split; [reflexivity|]);
    intros H; try congruence; intros E; apply (f_equal (@length Z)) in E; rewrite app_length in E; cbn in E; lia.
Qed.

Lemma head_info_range w n : arg_fits w n -> 0 <= head_info w n <= 27.
Proof. unfold arg_fits. destruct w; cbn [head_info width_info width_bound]; lia. Qed.

Lemma range_cases (lo : Z) (n : nat) (P : Z -> Prop) :
  (forall k, (k < n)%nat -> P (lo + Z.of_nat k)) -> forall b, lo <= b < lo + Z.of_nat n -> P b.
Proof. intros H b Hb. replace b with (lo + Z.of_nat (Z.to_nat (b - lo))) by lia. apply H. lia. Qed.

Definition res_is (p : ctype -> bool) (x : dres ctype) : bool :=
  match x with DOk t => p t | _ => false end.

Lemma type_tag b r : 192 <= b < 192 + 28 -> type_of_byte b r = DOk TTag.
Proof.
  revert b. apply (range_cases 192 28). intros k Hk.
  do 28 (destruct k as [|k]; [reflexivity|]). lia.
Qed.
Lemma type_bytes b r : 64 <= b < 64 + 28 -> type_of_byte b r = DOk TBytes.
Proof.
  revert b. apply (range_cases 64 28). intros k Hk.
  do 28 (destruct k as [|k]; [reflexivity|]). lia.
Qed.
Lemma type_array b r : 128 <= b < 128 + 28 -> type_of_byte b r = DOk TArray.
Proof.
  revert b. apply (range_cases 128 28). intros k Hk.
  do 28 (destruct k as [|k]; [reflexivity|]). lia.
Qed.
Lemma type_map b r : 160 <= b < 160 + 28 -> type_of_byte b r = DOk TMap.
Proof.
  revert b. apply (range_cases 160 28). intros k Hk.
  do 28 (destruct k as [|k]; [reflexivity|]). lia.
Qed.
Lemma type_uint b r : 0 <= b < 0 + 28 -> res_is is_int_type (type_of_byte b r) = true.
Proof.
  revert b. apply (range_cases 0 28). intros k Hk.
  do 28 (destruct k as [|k]; [reflexivity|]). lia.
Qed.
Lemma type_nint b r : 32 <= b < 32 + 28 -> (56 <= b -> r <> []) -> res_is is_int_type (type_of_byte b r) = true.
Proof.
  revert b. apply (range_cases 32 28 (fun b => (56 <= b -> r <> []) -> res_is is_int_type (type_of_byte b r) = true)).
  intros k Hk Hr.
  do 24 (destruct k as [|k]; [reflexivity|]).
  destruct r as [|x r]; [exfalso; apply Hr; [lia|reflexivity]|].
  do 4 (destruct k as [|k];
        [unfold type_of_byte; match goal with |- context [byteb ?b] => change (byteb b) with true end;
         cbv -[Z.ltb]; destruct (x <? 128); reflexivity|]).
  lia.
Qed.

(* datatype of an encoded head *)
Lemma dt_head m w n r :
  arg_fits w n ->
  exists t, enc_head m w n = (major_code m * 32 + head_info w n) :: t /\ (w <> W0 -> t <> []) /\
            d_datatype (enc_head m w n ++ r) = type_of_byte (major_code m * 32 + head_info w n) (t ++ r).
Proof.
  intros Hf. destruct (enc_head_cons m w n) as (t & E & Hne). exists t. split; [exact E|]. split; [exact Hne|].
  rewrite E. reflexivity.
Qed.

Lemma dt_tag w n r : arg_fits w n -> d_datatype (enc_head MajTag w n ++ r) = DOk TTag.
Proof.
  intros Hf. destruct (dt_head MajTag w n r Hf) as (t & _ & _ & ->). pose proof (head_info_range w n Hf).
  apply type_tag. cbn [major_code]. lia.
Qed.
Lemma dt_bytes w n r : arg_fits w n -> d_datatype (enc_head MajBytes w n ++ r) = DOk TBytes.
Proof.
  intros Hf. destruct (dt_head MajBytes w n r Hf) as (t & _ & _ & ->). pose proof (head_info_range w n Hf).
  apply type_bytes. cbn [major_code]. lia.
Qed.
Lemma dt_array w n r : arg_fits w n -> d_datatype (enc_head MajArray w n ++ r) = DOk TArray.
Proof.
  intros Hf. destruct (dt_head MajArray w n r Hf) as (t & _ & _ & ->). pose proof (head_info_range w n Hf).
  apply type_array. cbn [major_code]. lia.
Qed.
Lemma dt_map w n r : arg_fits w n -> d_datatype (enc_head MajMap w n ++ r) = DOk TMap.
Proof.
  intros Hf. destruct (dt_head MajMap w n r Hf) as (t & _ & _ & ->). pose proof (head_info_range w n Hf).
  apply type_map. cbn [major_code]. lia.
Qed.
Lemma dt_uint w n r : arg_fits w n -> res_is is_int_type (d_datatype (enc_head MajUInt w n ++ r)) = true.
Proof.
  intros Hf. destruct (dt_head MajUInt w n r Hf) as (t & _ & _ & ->). pose proof (head_info_range w n Hf).
  apply type_uint. cbn [major_code]. lia.
Qed.
Lemma dt_nint w n r : arg_fits w n -> res_is is_int_type (d_datatype (enc_head MajNInt w n ++ r)) = true.
Proof.
  intros Hf. destruct (dt_head MajNInt w n r Hf) as (t & _ & Hne & ->). pose proof (head_info_range w n Hf) as Hr.
  apply type_nint; [cbn [major_code]; lia|]. cbn [major_code]. intros H56.
  assert (Hw : w <> W0). { intros ->. unfold arg_fits in Hf. cbn [head_info width_bound] in *. lia. }
  specialize (Hne Hw). destruct t; [congruence|discriminate].
Qed.

Definition u64 (n : Z) : Prop := 0 <= n < 18446744073709551616.
Lemma u64b_spec n : u64b n = true <-> u64 n.
Proof. unfold u64b, u64. lia. Qed.

(* ------------------------------------------------------------------ Int *)
Lemma d_int_e_int n r :
  -18446744073709551616 <= n < 18446744073709551616 -> d_int (e_int n ++ r) = DOk (n, r).
Proof.
  intros Hn. unfold e_int, d_int, enc_head_min.
  destruct (0 <=? n) eqn:Es.
  - assert (Hfit : arg_fits (min_width n) n) by (apply min_width_fits; lia).
    pose proof (expect_arg_enc is_int_major MajUInt _ n r eq_refl Hfit) as He.
    destruct (enc_head_cons MajUInt (min_width n) n) as (t & E & _).
    pose proof (head_info_range _ _ Hfit) as Hr.
    rewrite E in *. cbn [app] in *. rewrite He. cbn [dbind]. cbn [major_code] in *.
    destruct (0 * 32 + head_info (min_width n) n <? 32) eqn:E2; [reflexivity|lia].
  - assert (Hfit : arg_fits (min_width (-1 - n)) (-1 - n)) by (apply min_width_fits; lia).
    pose proof (expect_arg_enc is_int_major MajNInt _ (-1 - n) r eq_refl Hfit) as He.
    destruct (enc_head_cons MajNInt (min_width (-1 - n)) (-1 - n)) as (t & E & _).
    pose proof (head_info_range _ _ Hfit) as Hr.
    rewrite E in *. cbn [app] in *. rewrite He. cbn [dbind]. cbn [major_code] in *.
    destruct (1 * 32 + head_info (min_width (-1 - n)) (-1 - n) <? 32) eqn:E2; [lia|].
    f_equal. f_equal. lia.
Qed.

Lemma dt_e_int n r :
  -18446744073709551616 <= n < 18446744073709551616 -> res_is is_int_type (d_datatype (e_int n ++ r)) = true.
Proof.
  intros Hn. unfold e_int, enc_head_min. destruct (0 <=? n) eqn:Es.
  - apply dt_uint, min_width_fits. lia.
  - apply dt_nint, min_width_fits. lia.
Qed.

(* ------------------------------------------------------------------ BoundedBytes *)
Lemma chunks_aux_concat fuel : forall l, (length l <= fuel)%nat -> concat (chunks_aux fuel l) = l.
Proof.
  induction fuel as [|f IH]; intros l Hl.
  - destruct l; [reflexivity|cbn in Hl; lia].
  - destruct l as [|x t]; [reflexivity|]. cbn [chunks_aux concat]. rewrite IH.
    + apply firstn_skipn.
    + rewrite skipn_length. cbn [length] in *. lia.
Qed.

Lemma chunks64_concat l : concat (chunks64 l) = l.
Proof. apply chunks_aux_concat. lia. Qed.

Lemma bytes_wf_firstn n l : bytes_wf l -> bytes_wf (firstn n l).
Proof. intros H. rewrite <- (firstn_skipn n l) in H. apply bytes_wf_app in H. apply H. Qed.
Lemma bytes_wf_skipn n l : bytes_wf l -> bytes_wf (skipn n l).
Proof. intros H. rewrite <- (firstn_skipn n l) in H. apply bytes_wf_app in H. apply H. Qed.

Lemma chunks_aux_Forall fuel : forall l,
  bytes_wf l -> Forall (fun c => bytes_wf c /\ 1 <= len c <= 64) (chunks_aux fuel l).
Proof.
  induction fuel as [|f IH]; intros l Hl; [constructor|].
  destruct l as [|x t]; [constructor|]. cbn [chunks_aux]. constructor.
  - split; [apply bytes_wf_firstn, Hl|]. unfold len. rewrite firstn_length. cbn [length]. lia.
  - apply IH, bytes_wf_skipn, Hl.
Qed.

(* every chunk but the last has exactly 64 bytes (the Haskell chunking) *)
Lemma chunks_aux_S f x t :
  chunks_aux (S f) (x :: t) = firstn 64 (x :: t) :: chunks_aux f (skipn 64 (x :: t)).
Proof. reflexivity. Qed.

Lemma chunks_aux_full fuel : forall l c cs,
  chunks_aux fuel l = c :: cs -> cs <> [] -> len c = 64.
Proof.
  destruct fuel as [|f]; intros l c cs H Hne; [discriminate|].
  destruct l as [|x t]; [discriminate|]. rewrite chunks_aux_S in H.
  assert (Hc : c = firstn 64 (x :: t)) by congruence.
  assert (Hcs : cs = chunks_aux f (skipn 64 (x :: t))) by congruence. clear H. subst c cs.
  unfold len. rewrite firstn_length.
  destruct (Nat.le_gt_cases 64 (length (x :: t))) as [Hge|Hlt]; [lia|].
  exfalso. apply Hne. rewrite skipn_all2 by lia. destruct f; reflexivity.
Qed.

Lemma d_bytes_e_bytes c r : bytes_wf c -> u64 (len c) -> d_bytes (e_bytes c ++ r) = DOk (c, r).
Proof.
  intros Hc Hl. unfold e_bytes, enc_head_min. rewrite <- app_assoc. apply d_bytes_enc; [|exact Hc].
  apply min_width_fits. exact Hl.
Qed.

Lemma e_bytes_first c : u64 (len c) -> exists b t, e_bytes c = b :: t /\ b <> break_byte.
Proof.
  intros Hl. unfold e_bytes, enc_head_min.
  destruct (enc_head_first MajBytes (min_width (len c)) (len c) (min_width_fits _ Hl)) as (b & t & E & Hb).
  exists b, (t ++ c). rewrite E. split; [reflexivity|]. unfold break_byte. lia.
Qed.

Lemma d_bounded_indef rest :
  d_bounded (95 :: rest) = dbind (until_loop d_bytes (budget rest) rest) (fun '(cs, r') => DOk (concat cs, r')).
Proof. reflexivity. Qed.

Lemma d_bounded_enc b r : bytes_wf b -> d_bounded (enc_bounded b ++ r) = DOk (b, r).
Proof.
  intros Hb. unfold enc_bounded. destruct (len b <=? 64) eqn:E.
  - assert (Hl : u64 (len b)) by (pose proof (len_nonneg b); unfold u64; lia).
    assert (Hfit : arg_fits (min_width (len b)) (len b)) by (apply min_width_fits, Hl).
    unfold e_bytes, enc_head_min. rewrite <- app_assoc.
    pose proof (expect_arg_enc (major_eqb MajBytes) MajBytes _ (len b) (b ++ r) (major_eqb_refl _) Hfit) as He.
    destruct (enc_head_cons MajBytes (min_width (len b)) (len b)) as (t & Eh & _).
    pose proof (head_info_range _ _ Hfit) as Hr.
    destruct (initial_byte MajBytes (head_info (min_width (len b)) (len b)) ltac:(lia)) as (Hbb & Hm & Hi).
    rewrite Eh in *. cbn [app] in *. unfold d_bounded.
    rewrite Hbb, Hm, Hi, major_eqb_refl. cbn [negb].
    destruct (head_info (min_width (len b)) (len b) =? 31) eqn:E31; [lia|].
    rewrite He. cbn [dbind]. apply take_app, Hb.
  - change (enc_indef MajBytes) with [95]. cbn [app]. rewrite d_bounded_indef.
    change e_end with [break_byte]. rewrite <- app_assoc. cbn [app].
    pose proof (chunks_aux_Forall (length b) b Hb) as Hcs. fold (chunks64 b) in Hcs.
    assert (Hall : Forall (fun c => (forall r, d_bytes (e_bytes c ++ r) = DOk (c, r)) /\
                                    exists b0 t, e_bytes c = b0 :: t /\ b0 <> break_byte) (chunks64 b)).
    { eapply Forall_impl; [|exact Hcs]. intros c [Hc Hl]. assert (u64 (len c)) by (unfold u64; lia).
      split; [intros r'; apply d_bytes_e_bytes; assumption|apply e_bytes_first; assumption]. }
    rewrite (until_loop_complete d_bytes e_bytes (chunks64 b) Hall).
    + cbn [dbind]. rewrite chunks64_concat. reflexivity.
    + apply budget_app_ge. eapply Forall_impl; [|exact Hall]. intros c [_ (b0 & t & -> & _)]. discriminate.
Qed.

Lemma dt_bounded b r :
  res_is (fun t => ctype_eqb t TBytes || ctype_eqb t TBytesIndef) (d_datatype (enc_bounded b ++ r)) = true.
Proof.
  unfold enc_bounded. destruct (len b <=? 64) eqn:E.
  - unfold e_bytes, enc_head_min. rewrite <- app_assoc. rewrite dt_bytes; [reflexivity|].
    apply min_width_fits. pose proof (len_nonneg b). lia.
  - reflexivity.
Qed.

(* ------------------------------------------------------------------ BigInt *)
Lemma d_bigint_enc i r : wf_bigint i = true -> d_bigint (enc_bigint i ++ r) = DOk (i, r).
Proof.
  destruct i as [n|b|b]; cbn [wf_bigint enc_bigint]; intros Hwf.
  - unfold int_rangeb in Hwf. assert (Hn : -18446744073709551616 <= n < 18446744073709551616) by lia.
    unfold d_bigint. pose proof (dt_e_int n r Hn) as Ht.
    destruct (d_datatype (e_int n ++ r)) as [t| |]; cbn [res_is] in Ht; try discriminate.
    cbn [dbind]. rewrite Ht. rewrite d_int_e_int by exact Hn. reflexivity.
  - apply bytes_wfb_spec in Hwf. change (e_tag 2) with [194]. cbn [app]. unfold d_bigint.
    change (d_datatype (194 :: enc_bounded b ++ r)) with (DOk TTag). cbn [dbind is_int_type].
    change (ctype_eqb TTag TTag) with true. cbn iota.
    change (d_tag (194 :: enc_bounded b ++ r)) with (DOk (2, enc_bounded b ++ r)). cbn [dbind].
    change (2 =? 2) with true. cbn iota. rewrite d_bounded_enc by exact Hwf. reflexivity.
  - apply bytes_wfb_spec in Hwf. change (e_tag 3) with [195]. cbn [app]. unfold d_bigint.
    change (d_datatype (195 :: enc_bounded b ++ r)) with (DOk TTag). cbn [dbind is_int_type].
    change (ctype_eqb TTag TTag) with true. cbn iota.
    change (d_tag (195 :: enc_bounded b ++ r)) with (DOk (3, enc_bounded b ++ r)). cbn [dbind].
    change (3 =? 2) with false. change (3 =? 3) with true. cbn iota. rewrite d_bounded_enc by exact Hwf. reflexivity.
Qed.

(* ------------------------------------------------------------------ containers *)
Definition elem_ok {A} (dec : list Z -> dres (A * list Z)) (enc : A -> list Z) (x : A) : Prop :=
  (forall r, dec (enc x ++ r) = DOk (x, r)) /\ exists b t, enc x = b :: t /\ b <> break_byte.

Lemma elem_ok_nonempty {A} dec (enc : A -> list Z) xs :
  Forall (elem_ok dec enc) xs -> Forall (fun x => enc x <> []) xs.
Proof. apply Forall_impl. intros x [_ (b & t & -> & _)]. discriminate. Qed.

Lemma d_mia_enc {A} (dec : list Z -> dres (A * list Z)) (enc : A -> list Z) indef xs r :
  Forall (elem_ok dec enc) xs -> u64 (len xs) ->
  d_mia dec (enc_mia enc indef xs ++ r) = DOk ((indef, xs), r).
Proof.
  intros Hxs Hl. unfold enc_mia, d_mia. destruct indef.
  - change e_begin_array with (enc_indef MajArray). change e_end with [break_byte].
    rewrite <- !app_assoc. cbn [app].
    change (d_datatype (enc_indef MajArray ++ concat (map enc xs) ++ break_byte :: r)) with (DOk TArrayIndef).
    cbn [dbind]. change (ctype_eqb TArrayIndef TArray) with false. change (ctype_eqb TArrayIndef TArrayIndef) with true.
    cbn iota. unfold d_vec, d_array. rewrite d_len_indef by auto. cbn [dbind].
    rewrite (until_loop_complete dec enc xs Hxs); [reflexivity|].
    apply budget_app_ge. apply (elem_ok_nonempty dec). exact Hxs.
  - assert (Hfit : arg_fits (min_width (len xs)) (len xs)) by (apply min_width_fits, Hl).
    unfold e_vec at 1, e_array, enc_head_min. rewrite <- !app_assoc. rewrite dt_array by exact Hfit.
    cbn [dbind]. change (ctype_eqb TArray TArray) with true. cbn iota.
    rewrite d_vec_e_vec; [reflexivity| |exact (proj2 Hl)].
    eapply Forall_impl; [|exact Hxs]. intros x [H1 (b & t & E & _)]. split; [exact H1|]. rewrite E. discriminate.
Qed.

Definition pair_enc {A} (enc : A -> list Z) (kv : A * A) : list Z := enc (fst kv) ++ enc (snd kv).

Lemma pair_ok {A} (dec : list Z -> dres (A * list Z)) (enc : A -> list Z) kv :
  elem_ok dec enc (fst kv) -> elem_ok dec enc (snd kv) -> elem_ok (pair_dec dec dec) (pair_enc enc) kv.
Proof.
  destruct kv as [k v]. cbn [fst snd]. intros [Hk (b & t & E & Hb)] [Hv _]. split.
  - intros r. unfold pair_enc. cbn [fst snd]. apply (pair_dec_complete dec dec enc enc); assumption.
  - exists b, (t ++ enc v). unfold pair_enc. cbn [fst snd]. rewrite E. split; [reflexivity|exact Hb].
Qed.

Lemma d_kvp_enc {A} (dec : list Z -> dres (A * list Z)) (enc : A -> list Z) (indef : bool) kvs r :
  Forall (fun kv => elem_ok dec enc (fst kv) /\ elem_ok dec enc (snd kv)) kvs -> u64 (len kvs) ->
  d_kvp dec ((if indef then e_begin_map ++ concat (map (pair_enc enc) kvs) ++ e_end
              else e_map (len kvs) ++ concat (map (pair_enc enc) kvs)) ++ r) = DOk ((indef, kvs), r).
Proof.
  intros Hk Hl.
  assert (Hp : Forall (elem_ok (pair_dec dec dec) (pair_enc enc)) kvs).
  { eapply Forall_impl; [|exact Hk]. intros kv [H1 H2]. apply pair_ok; assumption. }
  unfold d_kvp. destruct indef.
  - change e_begin_map with (enc_indef MajMap). change e_end with [break_byte].
    rewrite <- !app_assoc. cbn [app].
    change (d_datatype (enc_indef MajMap ++ concat (map (pair_enc enc) kvs) ++ break_byte :: r)) with (DOk TMapIndef).
    cbn [dbind]. unfold d_map_pairs, d_map. rewrite d_len_indef by auto. cbn [dbind].
    rewrite (until_loop_complete (pair_dec dec dec) (pair_enc enc) kvs Hp).
    + cbn [dbind]. reflexivity.
    + apply budget_app_ge. apply (elem_ok_nonempty (pair_dec dec dec)). exact Hp.
  - assert (Hfit : arg_fits (min_width (len kvs)) (len kvs)) by (apply min_width_fits, Hl).
    unfold e_map, enc_head_min. rewrite <- !app_assoc. rewrite dt_map by exact Hfit. cbn [dbind].
    unfold d_map_pairs, d_map. rewrite d_len_enc by exact Hfit. cbn [dbind].
    rewrite (seq_loop_complete (pair_dec dec dec) (pair_enc enc) kvs).
    + cbn [dbind]. reflexivity.
    + eapply Forall_impl; [|exact Hp]. intros kv [H _]. exact H.
    + pose proof (budget_app_ge (pair_enc enc) kvs r (elem_ok_nonempty _ _ _ Hp)). lia.
Qed.

Lemma d_constr_enc {A} (dec : list Z -> dres (A * list Z)) (enc : A -> list Z) tag anyc (indef : bool) fs r :
  Forall (elem_ok dec enc) fs -> u64 (len fs) ->
  is_constr_tag tag = true -> (tag = 102 -> exists c, anyc = Some c /\ u64 c) -> (tag <> 102 -> anyc = None) ->
  d_constr dec ((e_tag tag ++ (if tag =? 102 then e_array 2 ++ e_uint (opt_default anyc) ++ enc_mia enc indef fs
                               else enc_mia enc indef fs)) ++ r) = DOk ((tag, anyc, indef, fs), r).
Proof.
  intros Hfs Hl Htag H102 Hn102. unfold is_constr_tag in Htag.
  assert (Ht : u64 tag) by (unfold u64; lia).
  unfold d_constr, e_tag, enc_head_min. rewrite <- !app_assoc.
  rewrite d_tag_enc by (apply min_width_fits, Ht). cbn [dbind].
  destruct (tag =? 102) eqn:E102.
  - assert (tag = 102) by lia. subst tag. destruct (H102 eq_refl) as (c & -> & Hc). cbn [opt_default].
    change ((121 <=? 102) && (102 <=? 127) || (1280 <=? 102) && (102 <=? 1400)) with false. cbn iota.
    unfold e_array, enc_head_min, d_array. rewrite <- !app_assoc.
    rewrite d_len_enc by (apply min_width_fits; unfold u64; lia). cbn [dbind].
    change (negb (2 =? 2)) with false. cbn iota.
    rewrite d_u64_e_uint by exact Hc. cbn [dbind]. rewrite d_mia_enc by assumption. reflexivity.
  - rewrite (Hn102 ltac:(lia)).
    destruct ((121 <=? tag) && (tag <=? 127) || (1280 <=? tag) && (tag <=? 1400)) eqn:Er; [|lia].
    rewrite d_mia_enc by assumption. reflexivity.
Qed.

(* ------------------------------------------------------------------ PlutusData *)
Definition strict (d : pdata) : Prop := strict_pdata d = true.

Lemma enc_map_pairs kvs :
  concat (map (fun kv : pdata * pdata => let '(k, v) := kv in enc_pdata k ++ enc_pdata v) kvs) =
  concat (map (pair_enc enc_pdata) kvs).
Proof. f_equal. apply map_ext. intros [k v]. reflexivity. Qed.

Lemma enc_mia_first {A} (enc : A -> list Z) indef xs :
  u64 (len xs) -> exists b t, enc_mia enc indef xs = b :: t /\ b <> break_byte.
Proof.
  intros Hl. unfold enc_mia. destruct indef.
  - exists 159. eexists. split; [reflexivity|]. unfold break_byte. lia.
  - unfold e_vec, e_array, enc_head_min.
    destruct (enc_head_first MajArray (min_width (len xs)) (len xs) (min_width_fits _ Hl)) as (b & t & E & Hb).
    rewrite E. exists b. eexists. split; [reflexivity|]. unfold break_byte. lia.
Qed.

Lemma enc_first d : wf d -> exists b t, enc_pdata d = b :: t /\ b <> break_byte.
Proof.
  unfold wf. destruct d as [tag anyc indef fs|indef kvs|indef xs|i|bs]; cbn [wf_pdata enc_pdata]; intros Hwf.
  - repeat (apply andb_true_iff in Hwf as [Hwf ?]).
    assert (Ht : u64 tag).
    { unfold constr_index in Hwf. unfold u64.
      destruct ((121 <=? tag) && (tag <=? 127)) eqn:E1; [lia|].
      destruct ((1280 <=? tag) && (tag <=? 1400)) eqn:E2; [lia|].
      destruct (tag =? 102) eqn:E3; [lia|discriminate]. }
    unfold e_tag, enc_head_min.
    destruct (enc_head_first MajTag (min_width tag) tag (min_width_fits _ Ht)) as (b & t & E & Hb).
    rewrite E. exists b. eexists. split; [reflexivity|]. unfold break_byte. lia.
  - apply andb_true_iff in Hwf as [Hl _]. apply u64b_spec in Hl. destruct indef.
    + exists 191. eexists. split; [reflexivity|]. unfold break_byte. lia.
    + unfold e_map, enc_head_min.
      destruct (enc_head_first MajMap (min_width (len kvs)) (len kvs) (min_width_fits _ Hl)) as (b & t & E & Hb).
      rewrite E. exists b. eexists. split; [reflexivity|]. unfold break_byte. lia.
  - apply andb_true_iff in Hwf as [Hl _]. apply u64b_spec in Hl. apply enc_mia_first. exact Hl.
  - destruct i as [n|b|b]; cbn [enc_bigint wf_bigint] in *.
    + unfold int_rangeb in Hwf. unfold e_int, enc_head_min. destruct (0 <=? n) eqn:E.
      * assert (Hu : u64 n) by (unfold u64; lia).
        destruct (enc_head_first MajUInt (min_width n) n (min_width_fits _ Hu)) as (b & t & Eh & Hb).
        rewrite Eh. exists b, t. split; [reflexivity|]. unfold break_byte. lia.
      * assert (Hu : u64 (-1 - n)) by (unfold u64; lia).
        destruct (enc_head_first MajNInt (min_width (-1 - n)) (-1 - n) (min_width_fits _ Hu)) as (b & t & Eh & Hb).
        rewrite Eh. exists b, t. split; [reflexivity|]. unfold break_byte. lia.
    + exists 194. eexists. split; [reflexivity|]. unfold break_byte. lia.
    + exists 195. eexists. split; [reflexivity|]. unfold break_byte. lia.
  - unfold enc_bounded. destruct (len bs <=? 64) eqn:E.
    + apply e_bytes_first. pose proof (len_nonneg bs). unfold u64. lia.
    + exists 95. eexists. split; [reflexivity|]. unfold break_byte. lia.
Qed.

Lemma fold_max_le {A} (f : A -> nat) xs x : In x xs -> (f x <= fold_right (fun y m => Nat.max (f y) m) O xs)%nat.
Proof.
  induction xs as [|y t IH]; [intros []|]. intros [->|H]; cbn [fold_right]; [lia|]. specialize (IH H). lia.
Qed.

Lemma dt_enc_mia {A} (enc : A -> list Z) indef xs r :
  u64 (len xs) ->
  res_is (fun t => ctype_eqb t TArray || ctype_eqb t TArrayIndef) (d_datatype (enc_mia enc indef xs ++ r)) = true.
Proof.
  intros Hl. unfold enc_mia. destruct indef; [reflexivity|].
  unfold e_vec, e_array, enc_head_min. rewrite <- app_assoc. rewrite dt_array; [reflexivity|]. apply min_width_fits, Hl.
Qed.

Lemma depth_constr t c i fs : depth (PConstr t c i fs) = S (fold_right (fun x m => Nat.max (depth x) m) O fs).
Proof. reflexivity. Qed.
Lemma depth_array i xs : depth (PArray i xs) = S (fold_right (fun x m => Nat.max (depth x) m) O xs).
Proof. reflexivity. Qed.
Lemma depth_map i kvs :
  depth (PMap i kvs) =
  S (fold_right (fun (kv : pdata * pdata) m => let '(k, v) := kv in Nat.max (Nat.max (depth k) (depth v)) m) O kvs).
Proof. reflexivity. Qed.
Lemma depth_pos d : (1 <= depth d)%nat.
Proof. destruct d; cbn; lia. Qed.

(* the exact round trip, at any sufficient fuel and before any continuation of the input *)
Lemma d_pdata_enc d : wf d -> strict d -> forall f r, (depth d <= f)%nat ->
  d_pdata f (enc_pdata d ++ r) = DOk (d, r).
Proof.
  induction d as [tag anyc indef fs IH|indef kvs IH|indef xs IH|i|bs] using pdata_ind';
    intros Hwf Hst f r Hf; (destruct f as [|f]; [match type of Hf with (depth ?d <= _)%nat => pose proof (depth_pos d) as Hp end; exfalso; apply (Nat.lt_irrefl 0); eapply Nat.lt_le_trans; [exact Hp|exact Hf]|]); cbn [d_pdata].
  - (* Constr *)
    pose proof (wf_constr _ _ _ _ Hwf) as Wfs.
    unfold wf in Hwf. cbn [wf_pdata] in Hwf. unfold strict in Hst. cbn [strict_pdata] in Hst.
    apply andb_true_iff in Hwf as [Hwf _]. apply andb_true_iff in Hwf as [Hwf Hl].
    apply andb_true_iff in Hwf as [Hix Hc]. apply u64b_spec in Hl.
    apply andb_true_iff in Hst as [Hs1 Hs2]. apply forallb_Forall in Hs2.
    assert (Hok : Forall (elem_ok (d_pdata f) enc_pdata) fs).
    { rewrite Forall_forall in *. intros x Hx. split.
      - intros r'. apply IH; [exact Hx|apply Wfs, Hx|apply Hs2, Hx|].
        rewrite depth_constr in Hf. pose proof (fold_max_le depth fs x Hx). lia.
      - apply enc_first. auto. }
    assert (Htag : is_constr_tag tag = true /\ u64 tag).
    { unfold constr_index in Hix. unfold is_constr_tag, u64.
      destruct ((121 <=? tag) && (tag <=? 127)) eqn:E1; [lia|].
      destruct ((1280 <=? tag) && (tag <=? 1400)) eqn:E2; [lia|].
      destruct (tag =? 102) eqn:E3; [lia|discriminate]. }
    destruct Htag as [Htag Hu].
    cbn [enc_pdata].
    set (body := if tag =? 102 then e_array 2 ++ e_uint (opt_default anyc) ++ enc_mia enc_pdata indef fs
                 else enc_mia enc_pdata indef fs).
    assert (H1 : d_datatype ((e_tag tag ++ body) ++ r) = DOk TTag).
    { unfold e_tag, enc_head_min. rewrite <- app_assoc. apply dt_tag, min_width_fits, Hu. }
    assert (H2 : d_tag ((e_tag tag ++ body) ++ r) = DOk (tag, body ++ r)).
    { unfold e_tag, enc_head_min. rewrite <- app_assoc. apply d_tag_enc, min_width_fits, Hu. }
    rewrite H1. cbn [dbind]. change (ctype_eqb TTag TTag) with true. cbn iota. rewrite H2. cbn [dbind].
    assert (H23 : (tag =? 2) || (tag =? 3) = false) by (unfold is_constr_tag in Htag; lia). rewrite H23, Htag.
    subst body.
    rewrite (d_constr_enc (d_pdata f) enc_pdata tag anyc indef fs r Hok Hl Htag).
    + reflexivity.
    + intros ->. unfold constr_index in Hix. cbn in Hix. destruct anyc as [c|]; [|discriminate].
      exists c. split; [reflexivity|]. apply u64b_spec. exact Hc.
    + intros Hne. destruct (tag =? 102) eqn:E; [lia|]. destruct anyc; [discriminate|reflexivity].
  - (* Map *)
    pose proof (wf_map _ _ Hwf) as Wk.
    unfold wf in Hwf. cbn [wf_pdata] in Hwf. unfold strict in Hst. cbn [strict_pdata] in Hst.
    apply andb_true_iff in Hwf as [Hl _]. apply u64b_spec in Hl. apply forallb_Forall in Hst.
    assert (Hok : Forall (fun kv => elem_ok (d_pdata f) enc_pdata (fst kv) /\ elem_ok (d_pdata f) enc_pdata (snd kv)) kvs).
    { rewrite Forall_forall in *. intros [k v] Hx. destruct (IH _ Hx) as [IHk IHv]. destruct (Wk _ Hx) as [Wkk Wkv].
      specialize (Hst _ Hx). cbn beta iota in Hst. apply andb_true_iff in Hst as [Sk Sv]. cbn [fst snd] in *.
      assert (Hd : (Nat.max (depth k) (depth v) <= f)%nat).
      { rewrite depth_map in Hf.
        pose proof (fold_max_le (fun kv : pdata * pdata => let '(k, v) := kv in Nat.max (depth k) (depth v)) kvs (k, v) Hx) as Hm.
        cbn beta iota in Hm.
        assert (Heq : forall l, fold_right (fun (kv : pdata * pdata) m => let '(k0, v0) := kv in Nat.max (Nat.max (depth k0) (depth v0)) m) O l =
                      fold_right (fun y m => Nat.max (let '(k0, v0) := y in Nat.max (depth k0) (depth v0)) m) O l).
        { induction l as [|[k0 v0] t IHl]; [reflexivity|]. cbn [fold_right]. rewrite IHl. reflexivity. }
        rewrite Heq in Hf. lia. }
      split; (split; [intros r'; (apply IHk || apply IHv); auto; lia|apply enc_first; assumption]). }
    cbn [enc_pdata]. rewrite enc_map_pairs.
    assert (Hdt : res_is (fun t => ctype_eqb t TMap || ctype_eqb t TMapIndef)
              (d_datatype ((if indef then e_begin_map ++ concat (map (pair_enc enc_pdata) kvs) ++ e_end
                            else e_map (len kvs) ++ concat (map (pair_enc enc_pdata) kvs)) ++ r)) = true).
    { destruct indef; [reflexivity|]. unfold e_map, enc_head_min. rewrite <- app_assoc. rewrite dt_map; [reflexivity|].
      apply min_width_fits, Hl. }
    destruct (d_datatype _) as [t| |] eqn:Et; cbn [res_is] in Hdt; try discriminate. cbn [dbind].
    assert (Hnt : ctype_eqb t TTag = false /\ is_int_type t = false) by (destruct t; try discriminate; split; reflexivity).
    destruct Hnt as [-> ->]. rewrite Hdt.
    rewrite (d_kvp_enc (d_pdata f) enc_pdata indef kvs r Hok Hl). reflexivity.
  - (* Array *)
    pose proof (wf_array _ _ Hwf) as Wxs.
    unfold wf in Hwf. cbn [wf_pdata] in Hwf. unfold strict in Hst. cbn [strict_pdata] in Hst.
    apply andb_true_iff in Hwf as [Hl _]. apply u64b_spec in Hl. apply forallb_Forall in Hst.
    assert (Hok : Forall (elem_ok (d_pdata f) enc_pdata) xs).
    { rewrite Forall_forall in *. intros x Hx. split.
      - intros r'. apply IH; [exact Hx|apply Wxs, Hx|apply Hst, Hx|].
        rewrite depth_array in Hf. pose proof (fold_max_le depth xs x Hx). lia.
      - apply enc_first. auto. }
    cbn [enc_pdata]. pose proof (dt_enc_mia enc_pdata indef xs r Hl) as Hdt.
    destruct (d_datatype _) as [t| |] eqn:Et; cbn [res_is] in Hdt; try discriminate. cbn [dbind].
    assert (Hnt : ctype_eqb t TTag = false /\ is_int_type t = false /\
                  ctype_eqb t TMap || ctype_eqb t TMapIndef = false /\
                  ctype_eqb t TBytes || ctype_eqb t TBytesIndef = false)
      by (destruct t; try discriminate; repeat split; reflexivity).
    destruct Hnt as (-> & -> & -> & ->). rewrite Hdt.
    rewrite (d_mia_enc (d_pdata f) enc_pdata indef xs r Hok Hl). reflexivity.
  - (* BigInt *)
    unfold wf in Hwf. cbn [wf_pdata] in Hwf. cbn [enc_pdata].
    pose proof (d_bigint_enc i r Hwf) as Hd.
    destruct i as [n|b|b]; cbn [enc_bigint wf_bigint] in *.
    + unfold int_rangeb in Hwf. pose proof (dt_e_int n r ltac:(lia)) as Ht.
      destruct (d_datatype (e_int n ++ r)) as [t| |]; cbn [res_is] in Ht; try discriminate. cbn [dbind].
      assert (Hnt : ctype_eqb t TTag = false) by (destruct t; try discriminate; reflexivity).
      rewrite Hnt, Ht, Hd. reflexivity.
    + change (e_tag 2) with [194] in *. cbn [app] in *.
      change (d_datatype (194 :: enc_bounded b ++ r)) with (DOk TTag). cbn [dbind].
      change (ctype_eqb TTag TTag) with true. cbn iota.
      change (d_tag (194 :: enc_bounded b ++ r)) with (DOk (2, enc_bounded b ++ r)). cbn [dbind].
      change ((2 =? 2) || (2 =? 3)) with true. cbn iota. rewrite Hd. reflexivity.
    + change (e_tag 3) with [195] in *. cbn [app] in *.
      change (d_datatype (195 :: enc_bounded b ++ r)) with (DOk TTag). cbn [dbind].
      change (ctype_eqb TTag TTag) with true. cbn iota.
      change (d_tag (195 :: enc_bounded b ++ r)) with (DOk (3, enc_bounded b ++ r)). cbn [dbind].
      change ((3 =? 2) || (3 =? 3)) with true. cbn iota. rewrite Hd. reflexivity.
  - (* BoundedBytes *)
    apply wf_bytes in Hwf. cbn [enc_pdata]. pose proof (dt_bounded bs r) as Hdt.
    destruct (d_datatype _) as [t| |] eqn:Et; cbn [res_is] in Hdt; try discriminate. cbn [dbind].
    assert (Hnt : ctype_eqb t TTag = false /\ is_int_type t = false /\
                  ctype_eqb t TMap || ctype_eqb t TMapIndef = false)
      by (destruct t; try discriminate; repeat split; reflexivity).
    destruct Hnt as (-> & -> & ->). rewrite Hdt. rewrite d_bounded_enc by exact Hwf. reflexivity.
Qed.

(* ------------------------------------------------------------------ fuel: the default budget suffices *)
Lemma fold_max_concat {A} (f : A -> nat) (enc : A -> list Z) xs :
  Forall (fun x => (f x <= length (enc x))%nat) xs ->
  (fold_right (fun y m => Nat.max (f y) m) O xs <= length (concat (map enc xs)))%nat.
Proof.
  induction 1 as [|x t Hx _ IH]; [cbn; lia|]. cbn [fold_right map concat]. rewrite app_length. lia.
Qed.

Lemma enc_mia_length {A} (enc : A -> list Z) indef xs :
  (S (length (concat (map enc xs))) <= length (enc_mia enc indef xs))%nat.
Proof.
  unfold enc_mia. destruct indef.
  - cbn [e_begin_array app length]. rewrite app_length. lia.
  - unfold e_vec, e_array, enc_head_min. rewrite app_length, enc_head_length. lia.
Qed.

Lemma depth_le_length d : (depth d <= length (enc_pdata d))%nat.
Proof.
  induction d as [tag anyc indef fs IH|indef kvs IH|indef xs IH|i|bs] using pdata_ind'; cbn [depth enc_pdata].
  - pose proof (fold_max_concat depth enc_pdata fs IH) as Hm.
    pose proof (enc_mia_length enc_pdata indef fs) as Hl.
    rewrite app_length. destruct (tag =? 102); [rewrite !app_length|]; lia.
  - rewrite enc_map_pairs.
    assert (Hm : (fold_right (fun (kv : pdata * pdata) m => let '(k, v) := kv in Nat.max (Nat.max (depth k) (depth v)) m) O kvs
                  <= length (concat (map (pair_enc enc_pdata) kvs)))%nat).
    { induction IH as [|[k v] t [Hk Hv] _ IHt]; [cbn; lia|]. cbn [fst snd] in *.
      cbn [fold_right map concat]. unfold pair_enc at 1. cbn [fst snd]. rewrite !app_length. lia. }
    destruct indef.
    + cbn [e_begin_map app length]. rewrite app_length. lia.
    + unfold e_map, enc_head_min. rewrite app_length, enc_head_length. lia.
  - pose proof (fold_max_concat depth enc_pdata xs IH) as Hm.
    pose proof (enc_mia_length enc_pdata indef xs) as Hl. lia.
  - destruct i as [n|b|b]; cbn [enc_bigint].
    + unfold e_int, enc_head_min. destruct (0 <=? n); rewrite enc_head_length; lia.
    + rewrite app_length. cbn. lia.
    + rewrite app_length. cbn. lia.
  - unfold enc_bounded. destruct (len bs <=? 64).
    + unfold e_bytes, enc_head_min. rewrite app_length, enc_head_length. lia.
    + cbn. lia.
Qed.

Lemma decode_enc_strict d r : wf d -> strict d -> decode_pdata (enc_pdata d ++ r) = DOk (d, r).
Proof.
  intros Hwf Hst. unfold decode_pdata. apply d_pdata_enc; [assumption|assumption|].
  unfold budget. rewrite app_length. pose proof (depth_le_length d). lia.
Qed.

(* ------------------------------------------------------------------ all well-formed values *)
(* what the decoder returns for the encoding of d: any_constructor dropped on the compact tags *)
Fixpoint canon_anyc (d : pdata) : pdata :=
  match d with
  | PConstr tag anyc i fs => PConstr tag (if tag =? 102 then anyc else None) i (map canon_anyc fs)
  | PMap i kvs => PMap i (map (fun kv => let '(k, v) := kv in (canon_anyc k, canon_anyc v)) kvs)
  | PArray i xs => PArray i (map canon_anyc xs)
  | _ => d
  end.

Lemma constr_index_canon tag anyc : constr_index tag (if tag =? 102 then anyc else None) = constr_index tag anyc.
Proof.
  unfold constr_index. destruct (tag =? 102) eqn:E; [reflexivity|].
  destruct ((121 <=? tag) && (tag <=? 127)); [reflexivity|]. destruct ((1280 <=? tag) && (tag <=? 1400)); reflexivity.
Qed.

Lemma concat_map_ext_Forall {A} (f g : A -> list Z) l :
  Forall (fun x => f x = g x) l -> concat (map f l) = concat (map g l).
Proof. intros H. f_equal. apply map_ext_Forall. exact H. Qed.

Lemma enc_canon d : enc_pdata (canon_anyc d) = enc_pdata d.
Proof.
  induction d as [tag anyc indef fs IH|indef kvs IH|indef xs IH|i|bs] using pdata_ind'; cbn [canon_anyc enc_pdata];
    try reflexivity.
  - assert (Hm : forall i, enc_mia enc_pdata i (map canon_anyc fs) = enc_mia enc_pdata i fs).
    { intros i. unfold enc_mia, e_vec. rewrite len_map, map_map. rewrite (concat_map_ext_Forall _ enc_pdata fs IH). reflexivity. }
    rewrite Hm. destruct (tag =? 102); reflexivity.
  - rewrite len_map, map_map. f_equal.
    assert (Hc : concat (map (fun x : pdata * pdata => let '(k, v) := let '(k, v) := x in (canon_anyc k, canon_anyc v) in
                                enc_pdata k ++ enc_pdata v) kvs) =
                 concat (map (fun kv : pdata * pdata => let '(k, v) := kv in enc_pdata k ++ enc_pdata v) kvs)).
    { apply concat_map_ext_Forall. eapply Forall_impl; [|exact IH]. intros [k v] [Hk Hv]. cbn [fst snd] in *.
      rewrite Hk, Hv. reflexivity. }
    rewrite Hc. reflexivity.
  - unfold enc_mia, e_vec. rewrite len_map, map_map. rewrite (concat_map_ext_Forall _ enc_pdata xs IH). reflexivity.
Qed.

Lemma strict_canon d : strict_pdata (canon_anyc d) = true.
Proof.
  induction d as [tag anyc indef fs IH|indef kvs IH|indef xs IH|i|bs] using pdata_ind';
    cbn [canon_anyc strict_pdata]; try reflexivity.
  - apply andb_true_iff. split; [destruct (tag =? 102); reflexivity|].
    rewrite forallb_map. apply forallb_Forall. exact IH.
  - rewrite forallb_map. apply forallb_Forall. eapply Forall_impl; [|exact IH].
    intros [k v] [Hk Hv]. cbn [fst snd] in *. rewrite Hk, Hv. reflexivity.
  - rewrite forallb_map. apply forallb_Forall. exact IH.
Qed.

Lemma norm_canon d : norm (canon_anyc d) = norm d.
Proof.
  induction d as [tag anyc indef fs IH|indef kvs IH|indef xs IH|i|bs] using pdata_ind';
    cbn [canon_anyc norm]; try reflexivity.
  - unfold constr_index_tot. rewrite constr_index_canon. f_equal. rewrite map_map. apply map_ext_Forall. exact IH.
  - f_equal. rewrite map_map. apply map_ext_Forall. eapply Forall_impl; [|exact IH].
    intros [k v] [Hk Hv]. cbn [fst snd] in *. rewrite Hk, Hv. reflexivity.
  - f_equal. rewrite map_map. apply map_ext_Forall. exact IH.
Qed.

Lemma wf_canon d : wf d -> wf (canon_anyc d).
Proof.
  unfold wf.
  induction d as [tag anyc indef fs IH|indef kvs IH|indef xs IH|i|bs] using pdata_ind';
    cbn [canon_anyc wf_pdata]; intros Hwf; try exact Hwf.
  - rewrite constr_index_canon, len_map, forallb_map.
    apply andb_true_iff in Hwf as [Hwf Hfs]. apply andb_true_iff in Hwf as [Hwf Hl].
    apply andb_true_iff in Hwf as [Hix Hc].
    apply andb_true_iff. split; [apply andb_true_iff; split; [apply andb_true_iff; split|]|];
      [exact Hix|destruct (tag =? 102); [exact Hc|reflexivity]|exact Hl|].
    apply forallb_Forall. apply forallb_Forall in Hfs. rewrite Forall_forall in *. intros x Hx. apply IH; auto.
  - rewrite len_map, forallb_map. apply andb_true_iff in Hwf as [Hl Hk]. rewrite Hl. cbn [andb].
    apply forallb_Forall. apply forallb_Forall in Hk. rewrite Forall_forall in *. intros [k v] Hx.
    destruct (IH _ Hx) as [IHk IHv]. specialize (Hk _ Hx). cbn beta iota in Hk. apply andb_true_iff in Hk as [Wk Wv].
    cbn [fst snd] in *. rewrite IHk, IHv by assumption. reflexivity.
  - rewrite len_map, forallb_map. apply andb_true_iff in Hwf as [Hl Hk]. rewrite Hl. cbn [andb].
    apply forallb_Forall. apply forallb_Forall in Hk. rewrite Forall_forall in *. intros x Hx. apply IH; auto.
Qed.

(* every well-formed value: the decoder returns the value with any_constructor dropped on the
   compact tags, which the library's equality does not distinguish from the original *)
Lemma decode_enc_wf d r :
  wf d -> decode_pdata (enc_pdata d ++ r) = DOk (canon_anyc d, r) /\ pdata_eqb (canon_anyc d) d = true.
Proof.
  intros Hwf. split.
  - rewrite <- enc_canon. apply decode_enc_strict; [apply wf_canon, Hwf|apply strict_canon].
  - unfold pdata_eqb. assert (H : pdata_cmp (canon_anyc d) d = Eq).
    { apply pdata_cmp_eq_norm; [apply wf_canon, Hwf|exact Hwf|apply norm_canon]. }
    rewrite H. reflexivity.
Qed.

Lemma canon_strict_id d : strict d -> canon_anyc d = d.
Proof.
  unfold strict.
  induction d as [tag anyc indef fs IH|indef kvs IH|indef xs IH|i|bs] using pdata_ind';
    cbn [canon_anyc strict_pdata]; intros Hst; try reflexivity.
  - apply andb_true_iff in Hst as [H1 H2]. apply forallb_Forall in H2. f_equal.
    + destruct (tag =? 102); [reflexivity|]. destruct anyc; [discriminate|reflexivity].
    + rewrite <- (map_id fs) at 2. apply map_ext_Forall. rewrite Forall_forall in *. intros x Hx. apply IH; auto.
  - apply forallb_Forall in Hst. f_equal. rewrite <- (map_id kvs) at 2. apply map_ext_Forall.
    rewrite Forall_forall in *. intros [k v] Hx. destruct (IH _ Hx) as [IHk IHv]. specialize (Hst _ Hx).
    cbn beta iota in Hst. apply andb_true_iff in Hst as [Sk Sv]. cbn [fst snd] in *. rewrite IHk, IHv by assumption. reflexivity.
  - apply forallb_Forall in Hst. f_equal. rewrite <- (map_id xs) at 2. apply map_ext_Forall.
    rewrite Forall_forall in *. intros x Hx. apply IH; auto.
Qed.

(* the Haskell chunking: every chunk except the last has exactly 64 bytes *)
Lemma chunks_aux_all_full fuel : forall l pre c post,
  chunks_aux fuel l = pre ++ c :: post -> post <> [] -> len c = 64.
Proof.
  induction fuel as [|f IH]; intros l pre c post H Hne.
  - destruct pre; discriminate.
  - destruct l as [|x t]; [destruct pre; discriminate|]. rewrite chunks_aux_S in H.
    destruct pre as [|p pre'].
    + cbn [app] in H. apply (chunks_aux_full (S f) (x :: t) c post); [rewrite chunks_aux_S; exact H|exact Hne].
    + cbn [app] in H. assert (H' : chunks_aux f (skipn 64 (x :: t)) = pre' ++ c :: post) by congruence.
      apply (IH _ _ _ _ H' Hne).
Qed.

Lemma chunks64_spec b :
  bytes_wf b ->
  concat (chunks64 b) = b /\ Forall (fun c => bytes_wf c /\ 1 <= len c <= 64) (chunks64 b) /\
  (forall pre c post, chunks64 b = pre ++ c :: post -> post <> [] -> len c = 64).
Proof.
  intros Hb. split; [apply chunks64_concat|]. split; [apply chunks_aux_Forall, Hb|].
  intros pre c post. apply chunks_aux_all_full.
Qed.
