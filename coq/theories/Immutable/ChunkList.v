(* Shared by C42 / C43: which chunk files an immutable-db read considers, and in
   which order (pallas-hardano/src/storage/immutable/mod.rs,
   build_stack_of_chunk_names + ChunkReaders).  Definitions only.

   A chunk name is the decimal value of the file stem.  The Rust sorts the stems
   as Strings; for the equal-width decimal stems the cardano-node writes
   ("01285", "01836", ...) that is the numeric order — this is an assumption of
   the model (listed in props/C42.json / C43.json). *)
From PV Require Import Lib.Base.
Open Scope Z_scope.

(* chunks.sort() *)
Fixpoint insert_name (x : Z) (l : list Z) : list Z :=
  match l with
  | [] => [x]
  | y :: r => if x <=? y then x :: l else y :: insert_name x r
  end.
Definition sort_names (l : list Z) : list Z := fold_right insert_name [] l.

(* let mut chunks = ...collect(); chunks.sort(); chunks.pop(); chunks.reverse(); *)
Definition build_stack (names : list Z) : list Z := rev (removelast (sort_names names)).

(* ChunkReaders::next: self.1.pop() — takes names from the END of the vector *)
Definition pop_order (stack : list Z) : list Z := rev stack.

(* `.map_while(Result::ok).flatten()` over the chunk readers: stop silently at the
   first chunk whose reader cannot be opened, otherwise concatenate the items. *)
Fixpoint flatten_while {C I} (open_items : C -> option (list I)) (l : list C) : list I :=
  match l with
  | [] => []
  | c :: r => match open_items c with
              | Some its => its ++ flatten_while open_items r
              | None => []
              end
  end.
