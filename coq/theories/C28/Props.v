(* C28 — property theorems. Statements are pinned by props/C28.json. *)
From PV Require Import Lib.Base C28.Model C28.Refuted C28.Abs C28.Refine C28.Visitors C28.Emit C28.Inv C28.Proofs C28.AsyncInv C28.AsyncProofs.
Open Scope Z_scope.

(* Schedules that confirm every Send before the next command / housekeeping pass / interface event
   (what the crate's tests exercise): whatever the commands, the peers, the responders' (conformant)
   replies, errors, disconnects and re-connects, the hash iteration orders and the configuration,
   every message the initiator emits is permitted by its mini-protocol's specification in the state
   the wire is in.  (VEnv = the schedule itself breaks an environment assumption; VPanic is C29.) *)
Theorem initiator_conformant_sync : forall c evs, is_violation (exec Sync c 0 init [] evs) = false.
Proof. intros c evs. apply exec_sync_conformant, SInv_init. Qed.

(* the invariant behind it is inductive from every state that satisfies it *)
Theorem initiator_conformant_sync_step : forall c evs i st e, SInv st e -> is_violation (exec Sync c i st e evs) = false.
Proof. exact exec_sync_conformant. Qed.

(* the implementation's per-protocol state machines refine the specification, in both directions of the wire *)
Theorem apply_refines_spec_client : forall s w m w', Rel s w -> cstep w m = Some w' -> Rel (apply_msg s m) w'.
Proof. exact rel_client_step. Qed.
Theorem apply_refines_spec_server : forall s w m w', Rel s w -> sstep w m = Some w' -> Rel (apply_msg s m) w'.
Proof. exact rel_server_step. Qed.

(* every emitter fires only in a state in which the specification lets the client send that message *)
Theorem emitters_permitted : forall s w m, Rel s w -> Acc s -> epre s m -> exists w', cstep w m = Some w'.
Proof. exact epre_permitted. Qed.

(* The unrestricted statement is refuted: with delayed Sent confirmations a second housekeeping pass /
   command reaches an emitter whose previous emission is unconfirmed and emits the message again.
   One witness per protocol emitter (each is replayed on the real crate by the harness). *)
Theorem initiator_conformant_refuted : exists c evs, wf_cfg c /\ is_violation (exec Async c 0 init [] evs) = true.
Proof.
  exists cfgB, (setup 15 ++ [EHousekeeping [] []; EHousekeeping [] []]).
  split; [unfold wf_cfg, cfgB; cbn; lia | rewrite keepalive_twice; reflexivity].
Qed.
Theorem double_keepalive_refuted : exists evs i, exec Async cfgB 0 init [] evs = VViolation i 1 (KaKeepAlive 65535) true.
Proof. eexists. eexists. exact keepalive_twice. Qed.
Theorem double_peersharing_refuted : exists evs i, exec Async cfgB 0 init [] evs = VViolation i 1 (PsRequest 100) true.
Proof. eexists. eexists. exact peersharing_twice. Qed.
Theorem double_blockfetch_refuted : exists evs i, exec Async cfgB 0 init [] evs = VViolation i 1 (BfRequestRange 3) true.
Proof. eexists. eexists. exact blockfetch_twice. Qed.
Theorem double_chainsync_refuted : exists evs i, exec Async cfgB 0 init [] evs = VViolation i 1 CsRequestNext true.
Proof. eexists. eexists. exact chainsync_next_twice. Qed.
Theorem double_chainsync_find_refuted : exists evs i, exec Async cfgB 0 init [] evs = VViolation i 1 (CsFindIntersect 1) true.
Proof. eexists. eexists. exact chainsync_find_twice. Qed.
Theorem double_leiosnotify_refuted : exists evs i, exec Async cfgB 0 init [] evs = VViolation i 1 LnRequestNext true.
Proof. eexists. eexists. exact leiosnotify_twice. Qed.
Theorem double_leiosfetch_refuted : exists evs i, exec Async cfgB 0 init [] evs = VViolation i 1 (LfBlockRequest 4) true.
Proof. eexists. eexists. exact leiosfetch_twice. Qed.

(* Arbitrarily delayed confirmations (Async schedules: Sent events at any later time but in per-peer FIFO
   order, conformant responders answering only confirmed requests, errors, disconnects, re-connects and
   re-includes at any time): EVERY message the initiator emits that the specification does not permit lies
   in the known class - an emission of the same protocol to the same peer, made in an earlier step, was
   still waiting for its Sent confirmation when the step began (flag [true] of the verdict).  Schedules that
   break an environment assumption end in VEnv at that point, so the statement covers every well-formed prefix. *)
Theorem initiator_violation_only_in_known_class : forall c evs i p m u,
  exec Async c 0 init [] evs = VViolation i p m u -> u = true.
Proof. intros c evs i p m u H. exact (async_known_class c evs 0 init [] SInvA_init i p m u H). Qed.

(* the same from every state that satisfies the asynchronous invariant *)
Theorem initiator_violation_only_in_known_class_step : forall c evs i st e, SInvA st e ->
  forall j p m u, exec Async c i st e evs = VViolation j p m u -> u = true.
Proof. exact async_known_class. Qed.

(* contrapositive reading: outside the known class the initiator is conformant *)
Theorem initiator_conformant_outside_known_class : forall c evs,
  (forall i p m, exec Async c 0 init [] evs <> VViolation i p m true) -> is_violation (exec Async c 0 init [] evs) = false.
Proof.
  intros c evs H. pose proof (initiator_violation_only_in_known_class c evs) as K.
  destruct (exec Async c 0 init [] evs) as [| | |i p m u]; try reflexivity.
  exfalso. rewrite (K i p m u eq_refl) in H. exact (H i p m eq_refl).
Qed.

(* non-vacuity: a sync schedule that is executed to its end, through all emitters *)
Example sync_schedule_runs :
  exec Sync cfgB 0 init []
    [EInclude 1; EStartSync 1; ERequestBlocks 2; EFetchEb 1 3; EHousekeeping [] []; EConnected 1; ERecv 1 [HsAccept 15 1];
     EHousekeeping [] []; ERecv 1 [KaResponse 65535; PsPeers [2; 3]; LnOffer 4; LfBlock 5]; EHousekeeping [] [];
     ERecv 1 [CsIntersectFound 2; BfStartBatch]; EContinueSync 1; ERecv 1 [CsRollForward 7; BfBlock 1; BfBatchDone];
     EDemote 1; EHousekeeping [] []; EError 1; EBan 1; EDisconnected 1; EHousekeeping [] []] = VFine.
Proof. vm_compute. reflexivity. Qed.

(* non-vacuity: an async schedule with delayed confirmations, a re-include while connected and tag commands,
   executed to its end without any violation *)
Example async_schedule_runs :
  exec Async cfgB 0 init []
    [EInclude 1; EStartSync 1; EHousekeeping [] []; EConnected 1; ESent 1 (HsPropose [(13, 764824073)]); ERecv 1 [HsAccept 15 1];
     EHousekeeping [] []; ESent 1 (KaKeepAlive 65535); ERecv 1 [KaResponse 65535]; ESent 1 (PsRequest 100);
     EContinueSync 1; ESent 1 (CsFindIntersect 1); ESent 1 LnRequestNext; ERecv 1 [CsIntersectFound 2; LnOffer 3];
     EContinueSync 1; EInclude 1; ESent 1 CsRequestNext; ERecv 1 [CsAwaitReply]; EContinueSync 1; EBan 1;
     ERecv 1 [CsRollForward 5]; EContinueSync 1; ESent 1 CsRequestNext; EError 1; EDemote 1; EDisconnected 1; EHousekeeping [] []] = VFine.
Proof. vm_compute. reflexivity. Qed.
