#!/usr/bin/env python3
"""Translator: pallas-traverse/src/wellknown.rs  ->  coq/theories/Generated/Wellknown.v

Accepted grammar (anything else is an error, exit 1 with a message):

  * `pub const NAME: u64 = <int>;`                       integer constants
  * `pub struct GenesisValues { pub f: u32|u64|String, ... }`
        numeric fields become fields of the Coq record `genesis` (type Z) in
        declaration order; `String` fields (block hashes) are dropped;
        `genesis_fits` checks every numeric field against its declared width
  * inside `impl GenesisValues { ... }`:
        `pub fn NAME() -> Self { GenesisValues { f: <value>, ... } }`
            <value> ::= <int literal, `_` separators and u32/u64 suffix allowed>
                      | <CONST name declared above>
                      | "<text>" .to_string()                (String fields only)
            every struct field must be given exactly once, no `..base`
        `pub fn from_magic(magic: u64) -> Option<GenesisValues> { match magic {
             CONST => Some(Self::name()), ... _ => None, } }`
  * `impl Default for GenesisValues { fn default() -> Self { Self::NAME() } }`
  * `use ...;` lines, attributes `#[...]`, comments

Output (written only when the content changed):
  Record genesis, one Definition per constructor function, `Inductive network`
  with one constructor per function, `genesis_of`, `well_known`, `from_magic`,
  `default_genesis`, `genesis_fits`, `genesis_eqb`.
"""
import argparse
import os
import re
import sys


def die(msg):
    sys.stderr.write("translators/wellknown.py: " + msg + "\n")
    print("translators/wellknown.py: " + msg)
    sys.exit(1)


def strip_comments(src):
    out, i, n = [], 0, len(src)
    while i < n:
        if src.startswith("//", i):
            j = src.find("\n", i)
            i = n if j < 0 else j
        elif src.startswith("/*", i):
            j = src.find("*/", i + 2)
            if j < 0:
                die("unterminated block comment")
            i = j + 2
        elif src[i] == '"':
            j = i + 1
            while j < n and src[j] != '"':
                if src[j] == "\\":
                    die("escape sequence inside a string literal is outside the accepted grammar")
                j += 1
            if j >= n:
                die("unterminated string literal")
            out.append(src[i:j + 1])
            i = j + 1
        else:
            out.append(src[i])
            i += 1
    return "".join(out)


TOKEN = re.compile(r'\s*(?:("[^"]*")|([A-Za-z_][A-Za-z_0-9]*)|([0-9][0-9_]*(?:u32|u64)?)|(::|->|=>|[{}()\[\]<>,;:=.#!&]))')


def tokenize(src):
    toks, i, n = [], 0, len(src)
    while True:
        while i < n and src[i].isspace():
            i += 1
        if i >= n:
            break
        m = TOKEN.match(src, i)
        if not m or m.end() == i:
            die("unexpected character %r near: %s" % (src[i], src[i:i + 40].replace("\n", " ")))
        if m.group(1) is not None:
            toks.append(("str", m.group(1)[1:-1]))
        elif m.group(2) is not None:
            toks.append(("id", m.group(2)))
        elif m.group(3) is not None:
            toks.append(("int", m.group(3)))
        else:
            toks.append(("p", m.group(4)))
        i = m.end()
    return toks


class P:
    def __init__(self, toks):
        self.t, self.i = toks, 0

    def peek(self, k=0):
        return self.t[self.i + k] if self.i + k < len(self.t) else ("eof", "")

    def next(self):
        x = self.peek()
        self.i += 1
        return x

    def ctx(self):
        return " ".join(v for _, v in self.t[max(0, self.i - 6):self.i + 6])

    def expect(self, kind, val=None):
        k, v = self.next()
        if k != kind or (val is not None and v != val):
            die("expected %s %s, found %r near: %s" % (kind, val or "", v, self.ctx()))
        return v

    def accept(self, kind, val=None):
        k, v = self.peek()
        if k == kind and (val is None or v == val):
            self.i += 1
            return True
        return False


def parse_int(tok):
    s = tok.replace("_", "")
    width = None
    for suf in ("u32", "u64"):
        if s.endswith(suf):
            width = suf
            s = s[:-3]
    if not s.isdigit():
        die("bad integer literal %r" % tok)
    return int(s), width


WIDTH = {"u32": 32, "u64": 64}


def skip_attr(p):
    # #[ ... ] with balanced brackets
    p.expect("p", "#")
    p.accept("p", "!")
    p.expect("p", "[")
    depth = 1
    while depth:
        k, v = p.next()
        if k == "eof":
            die("unterminated attribute")
        if (k, v) == ("p", "["):
            depth += 1
        elif (k, v) == ("p", "]"):
            depth -= 1


def parse(src):
    p = P(tokenize(strip_comments(src)))
    consts = {}          # name -> value
    const_order = []
    fields = None        # list of (name, type)
    ctors = []           # list of (fn name, {field: value})
    from_magic = None    # list of (const name, ctor name)
    default = None

    def parse_value(ftype):
        k, v = p.peek()
        if k == "int":
            p.next()
            val, w = parse_int(v)
            if ftype == "String":
                die("integer given for String field")
            if w is not None and w != ftype:
                die("literal suffix %s on a %s field" % (w, ftype))
            return val
        if k == "id":
            p.next()
            if v not in consts:
                die("value %r is not a declared integer constant" % v)
            if ftype == "String":
                die("constant given for String field")
            return consts[v]
        if k == "str":
            p.next()
            p.expect("p", ".")
            p.expect("id", "to_string")
            p.expect("p", "(")
            p.expect("p", ")")
            if ftype != "String":
                die("string given for numeric field")
            return v
        die("unsupported field value near: " + p.ctx())

    def parse_ctor_body(name):
        p.expect("p", "{")
        p.expect("id", "GenesisValues")
        p.expect("p", "{")
        vals = {}
        ftypes = dict(fields)
        while not p.accept("p", "}"):
            f = p.expect("id")
            if f not in ftypes:
                die("fn %s: unknown field %s" % (name, f))
            if f in vals:
                die("fn %s: field %s given twice" % (name, f))
            p.expect("p", ":")
            vals[f] = parse_value(ftypes[f])
            if not p.accept("p", ","):
                p.expect("p", "}")
                break
        p.expect("p", "}")
        missing = [f for f, _ in fields if f not in vals]
        if missing:
            die("fn %s: fields not given: %s" % (name, ", ".join(missing)))
        for f, t in fields:
            if t in WIDTH and not (0 <= vals[f] < 2 ** WIDTH[t]):
                die("fn %s: value of %s does not fit %s" % (name, f, t))
        return vals

    def parse_from_magic():
        p.expect("p", "(")
        arg = p.expect("id")
        p.expect("p", ":")
        p.expect("id", "u64")
        p.expect("p", ")")
        p.expect("p", "->")
        p.expect("id", "Option")
        p.expect("p", "<")
        p.expect("id", "GenesisValues")
        p.expect("p", ">")
        p.expect("p", "{")
        p.expect("id", "match")
        p.expect("id", arg)
        p.expect("p", "{")
        arms = []
        while True:
            k, v = p.next()
            if k == "id" and v == "_":
                p.expect("p", "=>")
                p.expect("id", "None")
                p.accept("p", ",")
                break
            if k != "id" or v not in consts:
                die("from_magic: arm pattern %r is not a declared constant" % v)
            p.expect("p", "=>")
            p.expect("id", "Some")
            p.expect("p", "(")
            p.expect("id", "Self")
            p.expect("p", "::")
            c = p.expect("id")
            p.expect("p", "(")
            p.expect("p", ")")
            p.expect("p", ")")
            p.expect("p", ",")
            arms.append((v, c))
        p.expect("p", "}")
        p.expect("p", "}")
        return arms

    while p.peek()[0] != "eof":
        k, v = p.peek()
        if (k, v) == ("p", "#"):
            skip_attr(p)
        elif (k, v) == ("id", "use"):
            while p.next() != ("p", ";"):
                if p.peek()[0] == "eof":
                    die("unterminated use")
        elif (k, v) == ("id", "pub") and p.peek(1) == ("id", "const"):
            p.next(); p.next()
            name = p.expect("id")
            p.expect("p", ":")
            ty = p.expect("id")
            if ty != "u64":
                die("const %s: type %s is outside the accepted grammar (u64 only)" % (name, ty))
            p.expect("p", "=")
            val, w = parse_int(p.expect("int"))
            if w not in (None, "u64") or not (0 <= val < 2 ** 64):
                die("const %s: bad literal" % name)
            p.expect("p", ";")
            if name in consts:
                die("const %s declared twice" % name)
            consts[name] = val
            const_order.append(name)
        elif (k, v) == ("id", "pub") and p.peek(1) == ("id", "struct"):
            p.next(); p.next()
            p.expect("id", "GenesisValues")
            p.expect("p", "{")
            if fields is not None:
                die("struct GenesisValues declared twice")
            fields = []
            while not p.accept("p", "}"):
                if p.peek() == ("p", "#"):
                    skip_attr(p)
                    continue
                p.expect("id", "pub")
                f = p.expect("id")
                p.expect("p", ":")
                t = p.expect("id")
                if t not in ("u32", "u64", "String"):
                    die("struct field %s: type %s is outside the accepted grammar" % (f, t))
                fields.append((f, t))
                if not p.accept("p", ","):
                    p.expect("p", "}")
                    break
        elif (k, v) == ("id", "impl") and p.peek(1) == ("id", "GenesisValues"):
            p.next(); p.next()
            if fields is None:
                die("impl GenesisValues before the struct")
            p.expect("p", "{")
            while not p.accept("p", "}"):
                if p.peek() == ("p", "#"):
                    skip_attr(p)
                    continue
                p.expect("id", "pub")
                p.expect("id", "fn")
                name = p.expect("id")
                if name == "from_magic":
                    if from_magic is not None:
                        die("from_magic declared twice")
                    from_magic = parse_from_magic()
                    continue
                p.expect("p", "(")
                p.expect("p", ")")
                p.expect("p", "->")
                p.expect("id", "Self")
                if name in [c for c, _ in ctors]:
                    die("fn %s declared twice" % name)
                ctors.append((name, parse_ctor_body(name)))
        elif (k, v) == ("id", "impl") and p.peek(1) == ("id", "Default"):
            p.next(); p.next()
            p.expect("id", "for")
            p.expect("id", "GenesisValues")
            p.expect("p", "{")
            p.expect("id", "fn")
            p.expect("id", "default")
            p.expect("p", "(")
            p.expect("p", ")")
            p.expect("p", "->")
            p.expect("id", "Self")
            p.expect("p", "{")
            p.expect("id", "Self")
            p.expect("p", "::")
            default = p.expect("id")
            p.expect("p", "(")
            p.expect("p", ")")
            p.expect("p", "}")
            p.expect("p", "}")
        else:
            die("item outside the accepted grammar near: " + p.ctx())

    if fields is None:
        die("struct GenesisValues not found")
    if not ctors:
        die("no constructor functions found")
    names = [c for c, _ in ctors]
    for cn, c in (from_magic or []):
        if c not in names:
            die("from_magic refers to unknown constructor %s" % c)
    if default is not None and default not in names:
        die("Default refers to unknown constructor %s" % default)
    return consts, const_order, fields, ctors, from_magic, default


COQ_RESERVED = {"magic": "magic"}


def render(consts, const_order, fields, ctors, from_magic, default):
    num = [(f, t) for f, t in fields if t in WIDTH]
    dropped = [f for f, t in fields if t == "String"]
    o = []
    o.append("(* GENERATED by translators/wellknown.py from pallas-traverse/src/wellknown.rs.")
    o.append("   Do not edit: regenerated (when the source changed) on every ./check C32 run.")
    o.append("   String fields dropped: %s. *)" % (", ".join(dropped) or "none"))
    o.append("From PV Require Import Lib.Base.")
    o.append("Open Scope Z_scope.")
    o.append("")
    for c in const_order:
        o.append("Definition %s : Z := %d." % (c, consts[c]))
    o.append("")
    o.append("(* struct GenesisValues: numeric fields in declaration order (%s) *)"
             % ", ".join("%s:%s" % ft for ft in num))
    o.append("Record genesis : Type := mk_genesis {")
    o.append(";\n".join("  %s : Z" % f for f, _ in num))
    o.append("}.")
    o.append("")
    o.append("(* every field within the width the Rust struct declares for it *)")
    o.append("Definition genesis_fits (g : genesis) : bool :=")
    o.append("  " + " &&\n  ".join("((0 <=? %s g) && (%s g <? 2 ^ %d))" % (f, f, WIDTH[t]) for f, t in num) + ".")
    o.append("")
    o.append("Definition genesis_eqb (a b : genesis) : bool :=")
    o.append("  " + " &&\n  ".join("(%s a =? %s b)" % (f, f) for f, _ in num) + ".")
    o.append("")
    for name, vals in ctors:
        o.append("(* GenesisValues::%s() *)" % name)
        o.append("Definition %s : genesis := {|" % name)
        o.append(";\n".join("  %s := %d" % (f, vals[f]) for f, _ in num))
        o.append("|}.")
        o.append("")
    o.append("Inductive network : Type := %s." % " | ".join(n.capitalize() for n, _ in ctors))
    o.append("Definition genesis_of (n : network) : genesis :=")
    o.append("  match n with %s end." % " | ".join("%s => %s" % (n.capitalize(), n) for n, _ in ctors))
    o.append("Definition all_networks : list network := [%s]." % "; ".join(n.capitalize() for n, _ in ctors))
    o.append("Definition well_known : list genesis := map genesis_of all_networks.")
    o.append("")
    if from_magic is not None:
        o.append("(* GenesisValues::from_magic: first matching arm wins *)")
        o.append("Definition from_magic (m : Z) : option genesis :=")
        body = "None"
        for cn, c in reversed(from_magic):
            body = "if m =? %s then Some %s else %s" % (cn, c, body)
        o.append("  %s." % body)
        o.append("")
    if default is not None:
        o.append("Definition default_genesis : genesis := %s." % default)
        o.append("")
    return "\n".join(o)


def main():
    ap = argparse.ArgumentParser()
    ap.add_argument("--repo", default="/repo")
    ap.add_argument("--out", required=True)
    a = ap.parse_args()
    path = os.path.join(a.repo, "pallas-traverse", "src", "wellknown.rs")
    if not os.path.exists(path):
        die("source file not found: " + path)
    text = render(*parse(open(path).read()))
    os.makedirs(a.out, exist_ok=True)
    dst = os.path.join(a.out, "Wellknown.v")
    if not os.path.exists(dst) or open(dst).read() != text:
        tmp = dst + ".tmp%d" % os.getpid()
        open(tmp, "w").write(text)
        os.replace(tmp, dst)
        print("regenerated " + dst)
    else:
        print("unchanged " + dst)


if __name__ == "__main__":
    main()
