(* C15 correspondence: exp / ln / pow of FixedDecimal at precision 34 against the
   Gallina reference, digit for digit (the whole `data` integer is compared). *)
From PV Require Import Lib.Base Fixed.Model.
Open Scope Z_scope.

Inductive case : Type :=
| CExp (x res : Z)
| CLn (x : Z) (res : outcome Z)       (* Panic 1: "ln of a value in (-inf,0] is undefined" *)
| CPow (b e : Z) (res : outcome Z).   (* Panic 1: "zero to a negative power is undefined" *)

Definition outcome_eqb (a b : outcome Z) : bool :=
  match a, b with
  | Ok x, Ok y => x =? y
  | Err x, Err y => x =? y
  | Panic x, Panic y => x =? y
  | _, _ => false
  end.
Definition ln_out (x : Z) : outcome Z := match ref_ln x with Some v => Ok v | None => Panic 1 end.

Definition case_out (c : case) : outcome Z :=
  match c with
  | CExp x _ => Ok (ref_exp x)
  | CLn x _ => ln_out x
  | CPow b e _ => ref_pow b e
  end.
Definition case_ok (c : case) : bool :=
  match c with
  | CExp x res => ref_exp x =? res
  | CLn x res => outcome_eqb (ln_out x) res
  | CPow b e res => outcome_eqb (ref_pow b e) res
  end.
