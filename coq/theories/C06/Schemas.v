(* C06: hand-written schemas of the four test types that the harness derives itself with the
   same minicbor-derive (they exercise every modelled derive shape in every optional-field
   combination). The schemas of the pallas types are GENERATED: Generated/Schemas.v. *)
From Coq Require String.
From PV Require Import Lib.Base C06.Model.
Open Scope Z_scope.
Import Coq.Strings.String.StringSyntax.
Local Open Scope string_scope.

(* struct OptTail { #[n(0)] a: u64, #[n(1)] b: Option<u32>, #[n(2)] c: Option<Bytes>,
                    #[n(3)] d: Option<bool>, #[n(4)] e: Option<Vec<u16>> } *)
Definition s_opt_tail : schema :=
  SArray [(0, (false, SUInt 64)); (1, (true, SUInt 32)); (2, (true, SBytes)); (3, (true, SBool)); (4, (true, SVec (SUInt 16)))].
(* #[cbor(flat)] enum FlatOpt: 0 A(u8, Option<i64>), 3 B, 5 C(Option<u64>, Option<bool>) *)
Definition s_flat_opt : schema :=
  SFlat [(0, [(0, (false, SUInt 8)); (1, (true, SInt64))]); (3, []); (5, [(0, (true, SUInt 64)); (1, (true, SBool))])].
(* struct Nested { #[n(0)] x: Vec<OptTail>, #[n(1)] y: Option<FlatOpt> } *)
Definition s_nested : schema := SArray [(0, (false, SVec s_opt_tail)); (1, (true, s_flat_opt))].
(* #[cbor(map)] struct MapOpt { #[n(0)] a: u64, #[n(2)] b: Option<u32>, #[n(5)] c: Option<Bytes>,
                                #[n(9)] d: Vec<u16>, #[n(11)] e: Option<bool> } *)
Definition s_map_opt : schema :=
  SMap [(0, (false, SUInt 64)); (2, (true, SUInt 32)); (5, (true, SBytes)); (9, (false, SVec (SUInt 16))); (11, (true, SBool))].

Definition test_schemas : list (String.string * schema) :=
  [("test::OptTail", s_opt_tail); ("test::FlatOpt", s_flat_opt); ("test::Nested", s_nested); ("test::MapOpt", s_map_opt)].
