(* Facts about the chunk-name handling shared by C42 / C43. *)
From PV Require Import Lib.Base Immutable.ChunkList.
From Coq Require Import Sorting.Sorted Sorting.Permutation.
Open Scope Z_scope.

Lemma insert_name_perm x l : Permutation (x :: l) (insert_name x l).
Proof.
  induction l as [|y r IH]; cbn [insert_name]; [reflexivity|].
  destruct (x <=? y); [reflexivity|].
  rewrite perm_swap. constructor. exact IH.
Qed.

Lemma sort_names_perm l : Permutation l (sort_names l).
Proof.
  induction l as [|x r IH]; cbn [sort_names fold_right]; [constructor|].
  fold (sort_names r). rewrite <- insert_name_perm. constructor. exact IH.
Qed.

Lemma insert_name_sorted x l : StronglySorted Z.le l -> StronglySorted Z.le (insert_name x l).
Proof.
  induction 1 as [|y r Hs IH Hy]; cbn [insert_name]; [repeat constructor|].
  destruct (x <=? y) eqn:E.
  - constructor; [constructor; assumption|]. constructor; [lia|].
    rewrite Forall_forall in *. intros z Hz. specialize (Hy z Hz). lia.
  - constructor; [exact IH|]. rewrite Forall_forall in *. intros z Hz.
    apply (Permutation_in _ (Permutation_sym (insert_name_perm x r))) in Hz.
    destruct Hz as [<-|Hz]; [lia | apply Hy, Hz].
Qed.

Lemma sort_names_sorted l : StronglySorted Z.le (sort_names l).
Proof.
  induction l as [|x r IH]; cbn [sort_names fold_right]; [constructor|].
  apply insert_name_sorted, IH.
Qed.

(* the read order: every name but the greatest, increasing *)
Lemma pop_order_build_stack names : pop_order (build_stack names) = removelast (sort_names names).
Proof. unfold pop_order, build_stack. apply rev_involutive. Qed.

Lemma flatten_while_all {C I} (f : C -> option (list I)) (g : C -> list I) l :
  (forall c, In c l -> f c = Some (g c)) -> flatten_while f l = concat (map g l).
Proof.
  induction l as [|c r IH]; intros H; [reflexivity|]. cbn [flatten_while map concat].
  rewrite (H c (or_introl eq_refl)). f_equal. apply IH. intros c' Hc. apply H. right; exact Hc.
Qed.
