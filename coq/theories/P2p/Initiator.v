(* P2p/Initiator.v — shared by C27/C28/C29.
   pallas-network2/src/behavior/initiator/{mod,promotion,connection,handshake,
   keepalive,discovery,blockfetch,chainsync,leiosnotify,leiosfetch}.rs as an
   event-driven state machine, transcribed branch for branch.  Peer ids are
   integers; HashSet<PeerId> is a list kept duplicate-free by [sadd]; the
   HashMap of peers is an association list.  The two places where the Rust
   iterates a hash container (the housekeeping loop over `peers`, and
   `discovered.iter().take(n)`) take the iteration order from the event
   (`order`, `dorder`), so the machine is a function; theorems quantify over
   arbitrary orders.  Every usize/u32 arithmetic step that can overflow in a
   debug build, every `assert!`/`expect`, is an explicit [Panic].
   Definitions only. *)
From PV Require Import Lib.Base P2p.Proto.
Open Scope Z_scope.

Definition bind {A B} (o : outcome A) (f : A -> outcome B) : outcome B :=
  match o with Ok a => f a | Err e => Err e | Panic p => Panic p end.
Notation "x <- e ;; f" := (bind e (fun x => f)) (at level 61, e at next level, right associativity).

(* panic classes *)
Definition P_SUB_PEERS := 1.   (* max_peers - total_peers()            promotion.rs peer_deficit / required_cold_peers *)
Definition P_SUB_WARM := 2.    (* max_warm_peers - warm_peers.len()    promotion.rs required_warm_peers *)
Definition P_SUB_HOT := 3.     (* max_hot_peers - hot_peers.len()      promotion.rs required_hot_peers *)
Definition P_ERRC := 4.        (* error_count += 1 (u32)               mod.rs on_errored *)
Definition P_SUB_HWM := 5.     (* high_water_mark - discovered.len()   discovery.rs request_peers *)
(* class 6 was the assert!(handshake == Propose) of handshake.rs propose_handshake, repaired in /repo 70b2de7a *)
Definition P_LF_EXPECT := 7.   (* .expect("index just found")          leiosfetch.rs visit_housekeeping *)

Definition usub (cls a b : Z) : outcome Z := if a <? b then Panic cls else Ok (a - b).

(* ---- sets ---- *)
Definition mem (p : Z) (l : list Z) : bool := existsb (Z.eqb p) l.
Definition sadd (p : Z) (l : list Z) : list Z := if mem p l then l else l ++ [p].
Definition srem (p : Z) (l : list Z) : list Z := filter (fun q => negb (q =? p)) l.
Definition len (l : list Z) : Z := Z.of_nat (length l).

(* ---- per-peer state (InitiatorState) ---- *)
Inductive tag := TCold | TWarm | THot | TBanned.
Definition tag_code (t : tag) : Z := match t with TCold => 0 | TWarm => 1 | THot => 2 | TBanned => 3 end.

Record pstate := mkP {
  conn : conn_state; tg : tag;
  hs : hs_state; ka : ka_state; ps : ps_state; bf : bf_state; cs : cs_state;
  tx : tx_state; ln : ln_state; lf : lf_state;
  viol : bool; errc : Z; csync : bool }.

Definition pnew : pstate :=
  mkP CNew TCold HsSPropose (KaSClient None) (PsSIdle None) BfSIdle (CsSIdle CdNew) TxSInit
      (LnSIdle None) (LfSIdle None) false 0 false.

Definition set_conn c s := mkP c (tg s) (hs s) (ka s) (ps s) (bf s) (cs s) (tx s) (ln s) (lf s) (viol s) (errc s) (csync s).
Definition set_tg t s := mkP (conn s) t (hs s) (ka s) (ps s) (bf s) (cs s) (tx s) (ln s) (lf s) (viol s) (errc s) (csync s).
Definition set_hs x s := mkP (conn s) (tg s) x (ka s) (ps s) (bf s) (cs s) (tx s) (ln s) (lf s) (viol s) (errc s) (csync s).
Definition set_ka x s := mkP (conn s) (tg s) (hs s) x (ps s) (bf s) (cs s) (tx s) (ln s) (lf s) (viol s) (errc s) (csync s).
Definition set_ps x s := mkP (conn s) (tg s) (hs s) (ka s) x (bf s) (cs s) (tx s) (ln s) (lf s) (viol s) (errc s) (csync s).
Definition set_bf x s := mkP (conn s) (tg s) (hs s) (ka s) (ps s) x (cs s) (tx s) (ln s) (lf s) (viol s) (errc s) (csync s).
Definition set_cs x s := mkP (conn s) (tg s) (hs s) (ka s) (ps s) (bf s) x (tx s) (ln s) (lf s) (viol s) (errc s) (csync s).
Definition set_tx x s := mkP (conn s) (tg s) (hs s) (ka s) (ps s) (bf s) (cs s) x (ln s) (lf s) (viol s) (errc s) (csync s).
Definition set_ln x s := mkP (conn s) (tg s) (hs s) (ka s) (ps s) (bf s) (cs s) (tx s) x (lf s) (viol s) (errc s) (csync s).
Definition set_lf x s := mkP (conn s) (tg s) (hs s) (ka s) (ps s) (bf s) (cs s) (tx s) (ln s) x (viol s) (errc s) (csync s).
Definition set_viol x s := mkP (conn s) (tg s) (hs s) (ka s) (ps s) (bf s) (cs s) (tx s) (ln s) (lf s) x (errc s) (csync s).
Definition set_errc x s := mkP (conn s) (tg s) (hs s) (ka s) (ps s) (bf s) (cs s) (tx s) (ln s) (lf s) (viol s) x (csync s).
Definition set_csync x s := mkP (conn s) (tg s) (hs s) (ka s) (ps s) (bf s) (cs s) (tx s) (ln s) (lf s) (viol s) (errc s) x.

Definition is_init (s : pstate) : bool := match conn s with CInitialized => true | _ => false end.
(* version().and_then(peer_sharing).unwrap_or(0) > 0 *)
Definition supports_ps (s : pstate) : bool := match hs s with HsSAccepted _ p => p >? 0 | _ => false end.
(* accepted_version >= LEIOS_MIN_VERSION (= 15) *)
Definition supports_leios (s : pstate) : bool := match hs s with HsSAccepted v _ => v >=? 15 | _ => false end.

(* InitiatorState::apply_msg *)
Definition via {S} (r : option S) (setter : S -> pstate -> pstate) (s : pstate) : pstate :=
  match r with Some n => setter n s | None => set_viol true s end.
Definition apply_msg (s : pstate) (m : msg) : pstate :=
  match proto_of m with
  | 0 => via (hs_apply (hs s) m) set_hs s
  | 8 => via (ka_apply (ka s) m) set_ka s
  | 10 => via (ps_apply (ps s) m) set_ps s
  | 3 => via (bf_apply (bf s) m) set_bf s
  | 2 => via (cs_apply (cs s) m) set_cs s
  | 4 => via (tx_apply (tx s) m) set_tx s
  | 18 => via (ln_apply (ln s) m) set_ln s
  | _ => via (lf_apply (lf s) m) set_lf s
  end.

(* InitiatorState::reset: everything but error_count *)
Definition reset (s : pstate) : pstate :=
  mkP CNew TCold HsSPropose (KaSClient None) (PsSIdle None) BfSIdle (CsSIdle CdNew) TxSInit
      (LnSIdle None) (LfSIdle None) false (errc s) false.

(* ---- PromotionBehavior ---- *)
Record cfg := mkCfg { max_peers : Z; max_warm : Z; max_hot : Z; max_err : Z }.
Record promo := mkPromo { cold : list Z; warm : list Z; hot : list Z; banned : list Z }.
Definition promo0 : promo := mkPromo [] [] [] [].

Definition total (pr : promo) : Z := len (cold pr) + len (warm pr) + len (hot pr).

(* ban_pid: remove from hot, warm, cold; insert into banned *)
Definition ban_pid (p : Z) (pr : promo) : promo :=
  mkPromo (srem p (cold pr)) (srem p (warm pr)) (srem p (hot pr)) (sadd p (banned pr)).
(* ban_peer *)
Definition ban_peer (p : Z) (pr : promo) (st : pstate) : promo * pstate :=
  (ban_pid p pr, set_tg TBanned st).

(* promote_cold_peer: cold.take(pid) succeeded (caller checked contains) *)
Definition promote_cold (p : Z) (pr : promo) (st : pstate) : promo * pstate :=
  if mem p (cold pr)
  then (mkPromo (srem p (cold pr)) (sadd p (warm pr)) (hot pr) (banned pr), set_tg TWarm st)
  else (pr, st).
Definition promote_warm (p : Z) (pr : promo) (st : pstate) : promo * pstate :=
  if mem p (warm pr)
  then (mkPromo (cold pr) (srem p (warm pr)) (sadd p (hot pr)) (banned pr), set_tg THot st)
  else (pr, st).

Definition categorize (c : cfg) (p : Z) (pr : promo) (st : pstate) : outcome (promo * pstate) :=
  if viol st && negb (mem p (banned pr)) then Ok (ban_peer p pr st)
  else if (errc st >? max_err c) && negb (mem p (banned pr)) then Ok (ban_peer p pr st)
  else
    rw <- usub P_SUB_WARM (max_warm c) (len (warm pr)) ;;
    if (rw >? 0) && mem p (cold pr) then Ok (promote_cold p pr st)
    else
      rh <- usub P_SUB_HOT (max_hot c) (len (hot pr)) ;;
      if (rh >? 0) && mem p (warm pr) && is_init st then Ok (promote_warm p pr st)
      else Ok (pr, st).

Definition on_peer_discovered (c : cfg) (p : Z) (pr : promo) (st : pstate) : outcome (promo * pstate) :=
  if mem p (banned pr) then Ok (pr, st)
  else
    (* hot_peers.remove(pid); warm_peers.remove(pid) *)
    let pr1 := mkPromo (cold pr) (srem p (warm pr)) (srem p (hot pr)) (banned pr) in
    rc <- usub P_SUB_PEERS (max_peers c) (total pr1) ;;
    if rc >? 0
    then Ok (mkPromo (sadd p (cold pr1)) (warm pr1) (hot pr1) (banned pr1), set_tg TCold st)
    else Ok (pr1, st).

(* ---- ConnectionBehavior ---- *)
Definition needs_connection (s : pstate) : bool :=
  match conn s with
  | CConnected | CConnecting | CInitialized | CErrored => false
  | _ => match tg s with TWarm | THot => true | TBanned | TCold => false end
  end.
Definition needs_disconnect (s : pstate) : bool :=
  match conn s with
  | CErrored => true
  | CNew | CConnecting | CDisconnected => false
  | CConnected | CInitialized => match tg s with TCold | TBanned => true | TWarm | THot => false end
  end.

(* ---- state of the other sub-behaviours ---- *)
Record aux := mkAux {
  disc : list Z;                 (* DiscoveryBehavior.discovered *)
  bfq : list Z;                  (* BlockFetchBehavior.requests *)
  csi : option Z;                (* ChainSyncBehavior.intersection *)
  lfq : list (Z * (Z * Z)) }.    (* LeiosFetchBehavior.requests: (pid, (kind 0 Block | 1 BlockTxs, eb)) *)
Definition aux0 : aux := mkAux [] [] None [].
Definition set_disc x a := mkAux x (bfq a) (csi a) (lfq a).
Definition set_bfq x a := mkAux (disc a) x (csi a) (lfq a).
Definition set_csi x a := mkAux (disc a) (bfq a) x (lfq a).
Definition set_lfq x a := mkAux (disc a) (bfq a) (csi a) x.

Definition HWM := 100.          (* DiscoveryConfig::default().high_water_mark *)
Definition KA_TOKEN := 65535.   (* KeepaliveBehavior::default().token *)

(* a visitor step: (aux, peer state, outputs so far) *)
Definition vst : Type := aux * pstate * list output.
Definition emit (o : output) (v : vst) : vst := let '(a, s, out) := v in (a, s, out ++ [o]).

(* connection.rs visit_housekeeping *)
Definition v_conn_hk (p : Z) (v : vst) : outcome vst :=
  let '(a, s, out) := v in
  let v1 := if needs_connection s then (a, set_conn CConnecting s, out ++ [OConnect p]) else v in
  let '(a1, s1, out1) := v1 in
  Ok (if needs_disconnect s1 then (a1, s1, out1 ++ [ODisconnect p]) else v1).
(* connection.rs visit_errored *)
Definition v_conn_err (p : Z) (v : vst) : outcome vst :=
  let '(a, s, out) := v in
  Ok (if needs_disconnect s then emit (ODisconnect p) v else v).

(* handshake.rs visit_connected: propose_handshake *)
Definition v_hs_connected (p : Z) (v : vst) : outcome vst :=
  let '(a, s, out) := v in
  match hs s with
  | HsSPropose => Ok (emit (OSend p (HsPropose [(13, 764824073)])) v)
  | _ => Ok v      (* handshake already progressed: warn and skip the proposal (was an assert! before the repair) *)
  end.
(* handshake.rs visit_inbound_msg: needs_handshake / check_confirmation *)
Definition v_hs_inbound (p : Z) (v : vst) : outcome vst :=
  let '(a, s, out) := v in
  match conn s with
  | CConnected =>
      match hs s with
      | HsSAccepted num d => Ok (a, set_conn CInitialized s, out ++ [OEvent p 1 [num; d]])
      | _ => Ok v
      end
  | _ => Ok v
  end.

(* keepalive.rs send_keepalive *)
Definition v_ka_hk (p : Z) (v : vst) : outcome vst :=
  let '(a, s, out) := v in
  if negb (is_init s) then Ok v
  else match ka s with
       | KaSClient _ => Ok (emit (OSend p (KaKeepAlive KA_TOKEN)) v)
       | _ => Ok v
       end.

(* discovery.rs *)
Definition ps_peer_supports (s : pstate) : bool := is_init s && supports_ps s.
Definition ps_peer_available (s : pstate) : bool :=
  ps_peer_supports s && match ps s with PsSIdle None => true | _ => false end.
Definition v_disc_hk (p : Z) (v : vst) : outcome vst :=
  let '(a, s, out) := v in
  if negb (len (disc a) <? HWM) then Ok v
  else if negb (ps_peer_available s) then Ok v
  else
    amount <- usub P_SUB_HWM HWM (len (disc a)) ;;
    Ok (emit (OSend p (PsRequest (amount mod 256))) v).
Definition v_disc_inbound (p : Z) (v : vst) : outcome vst :=
  let '(a, s, out) := v in
  if ps_peer_supports s then
    match ps s with
    | PsSIdle (Some peers) => Ok (set_disc (fold_left (fun d q => sadd q d) peers (disc a)) a, set_ps PsSDone s, out)
    | _ => Ok v
    end
  else Ok v.

(* blockfetch.rs *)
Definition v_bf_inbound (p : Z) (v : vst) : outcome vst :=
  let '(a, s, out) := v in
  match bf s with
  | BfSStreaming (Some b) => Ok (emit (OEvent p 5 [b]) v)
  | _ => Ok v
  end.
Definition bf_peer_available (s : pstate) : bool :=
  is_init s && match bf s with BfSIdle => true | _ => false end.
Definition v_bf_hk (p : Z) (v : vst) : outcome vst :=
  let '(a, s, out) := v in
  match bfq a with
  | [] => Ok v
  | r :: rest => if bf_peer_available s
                 then Ok (set_bfq rest a, s, out ++ [OSend p (BfRequestRange r)])
                 else Ok v
  end.

(* chainsync.rs *)
Definition cs_syncing (s : pstate) : bool := negb (cs_is_new (cs s)).
Definition cs_should_sync (s : pstate) : bool :=
  is_init s && match tg s with THot => true | _ => false end.
Definition v_cs_inbound (p : Z) (v : vst) : outcome vst :=
  let '(a, s, out) := v in
  if negb (cs_syncing s) then Ok v
  else
    let '(c', d) := cs_drain (cs s) in
    match d with
    | None => Ok v
    | Some data =>
        let s' := set_cs c' s in
        match data with
        | CdContent h => Ok (a, s', out ++ [OEvent p 3 [h]])
        | CdRollback pt => Ok (a, s', out ++ [OEvent p 4 [pt]])
        | CdIntersection pt => Ok (a, s', out ++ [OEvent p 2 [pt]])
        | CdNoIntersection => Ok (a, set_viol true s', out)
        | _ => Ok (a, s', out)
        end
    end.
Definition v_cs_tagged (p : Z) (v : vst) : outcome vst :=
  let '(a, s, out) := v in
  if negb (cs_syncing s) then Ok v
  else if negb (cs_is_idle (cs s)) then Ok v
  else if csync s then Ok (emit (OSend p CsRequestNext) v) else Ok v.
Definition v_cs_hk (p : Z) (v : vst) : outcome vst :=
  let '(a, s, out) := v in
  match csi a with
  | None => Ok v
  | Some k => if negb (cs_should_sync s) then Ok v
              else if cs_syncing s then Ok v
              else Ok (emit (OSend p (CsFindIntersect k)) v)
  end.

(* leiosnotify.rs *)
Definition leios_ready (s : pstate) : bool := is_init s && supports_leios s.
Definition v_ln_inbound (p : Z) (v : vst) : outcome vst :=
  let '(a, s, out) := v in
  let '(l', n) := ln_drain (ln s) in
  match n with
  | Some (k, x) => Ok (a, set_ln l' s, out ++ [OEvent p 7 [k; x]])
  | None => Ok v
  end.
Definition v_ln_hk (p : Z) (v : vst) : outcome vst :=
  let '(a, s, out) := v in
  if negb (leios_ready s) then Ok v
  else match ln s with
       | LnSIdle None => Ok (emit (OSend p LnRequestNext) v)
       | _ => Ok v
       end.

(* leiosfetch.rs *)
Definition lf_msg (r : Z * Z) : msg := if fst r =? 0 then LfBlockRequest (snd r) else LfBlockTxsRequest (snd r).
Fixpoint lf_position (p : Z) (q : list (Z * (Z * Z))) : option nat :=
  match q with
  | [] => None
  | (p', _) :: r => if p' =? p then Some O else option_map S (lf_position p r)
  end.
Fixpoint remove_nth {A} (n : nat) (l : list A) : option (A * list A) :=
  match l, n with
  | [], _ => None
  | x :: r, O => Some (x, r)
  | x :: r, S k => match remove_nth k r with Some (y, r') => Some (y, x :: r') | None => None end
  end.
Definition lf_purge (p : Z) (a : aux) : aux :=
  set_lfq (filter (fun e => negb (fst e =? p)) (lfq a)) a.
Definition v_lf_inbound (p : Z) (v : vst) : outcome vst :=
  let '(a, s, out) := v in
  let '(l', r) := lf_drain (lf s) in
  match r with
  | Some (eb, (k, x)) => Ok (a, set_lf l' s, out ++ [OEvent p 8 [eb; k; x]])
  | None => Ok v
  end.
Definition lf_peer_available (s : pstate) : bool :=
  is_init s && supports_leios s && match lf s with LfSIdle None => true | _ => false end.
Definition v_lf_hk (p : Z) (v : vst) : outcome vst :=
  let '(a, s, out) := v in
  if negb (lf_peer_available s) then Ok v
  else match lf_position p (lfq a) with
       | None => Ok v
       | Some idx =>
           match remove_nth idx (lfq a) with
           | Some ((_, req), rest) => Ok (set_lfq rest a, s, out ++ [OSend p (lf_msg req)])
           | None => Panic P_LF_EXPECT
           end
       end.
Definition v_lf_purge (p : Z) (v : vst) : outcome vst :=
  let '(a, s, out) := v in Ok (lf_purge p a, s, out).

(* ---- the behaviour ---- *)
Record ist := mkI { pr : promo; ax : aux; peers : list (Z * pstate) }.
Definition init : ist := mkI promo0 aux0 [].

Fixpoint lookup (p : Z) (l : list (Z * pstate)) : option pstate :=
  match l with
  | [] => None
  | (q, s) :: r => if q =? p then Some s else lookup p r
  end.
(* HashMap::insert *)
Fixpoint insert (p : Z) (s : pstate) (l : list (Z * pstate)) : list (Z * pstate) :=
  match l with
  | [] => [(p, s)]
  | (q, s') :: r => if q =? p then (q, s) :: r else (q, s') :: insert p s r
  end.

(* all_visitors! for one peer: promotion first (no outputs), then the rest in macro order *)
(* the visitors after promotion, in macro order *)
Definition hk_rest (p : Z) (v : vst) : outcome vst :=
  v1 <- v_conn_hk p v ;;
  v2 <- v_ka_hk p v1 ;;
  v3 <- v_disc_hk p v2 ;;
  v4 <- v_bf_hk p v3 ;;
  v5 <- v_cs_hk p v4 ;;
  v6 <- v_ln_hk p v5 ;;
  v_lf_hk p v6.
Definition visit_hk (c : cfg) (p : Z) (pr0 : promo) (v : vst) : outcome (promo * vst) :=
  let '(a, s, out) := v in
  r <- categorize c p pr0 s ;;
  let '(pr1, s1) := r in
  v7 <- hk_rest p (a, s1, out) ;;
  Ok (pr1, v7).

Definition inbound_rest (p : Z) (v : vst) : outcome vst :=
  v1 <- v_hs_inbound p v ;;
  v2 <- v_disc_inbound p v1 ;;
  v3 <- v_bf_inbound p v2 ;;
  v4 <- v_cs_inbound p v3 ;;
  v5 <- v_ln_inbound p v4 ;;
  v_lf_inbound p v5.
Definition visit_inbound (c : cfg) (p : Z) (pr0 : promo) (v : vst) : outcome (promo * vst) :=
  let '(a, s, out) := v in
  r <- categorize c p pr0 s ;;
  let '(pr1, s1) := r in
  v6 <- inbound_rest p (a, s1, out) ;;
  Ok (pr1, v6).

(* a step result: new state and the outputs pushed to the outbound queue, in order *)
Definition res : Type := ist * list output.

(* on_inbound_msg for one message *)
Definition on_inbound (c : cfg) (p : Z) (r : res) (m : msg) : outcome res :=
  let '(st, out) := r in
  match lookup p (peers st) with
  | None => Ok r
  | Some s =>
      x <- visit_inbound c p (pr st) (ax st, apply_msg s m, out) ;;
      let '(pr1, (a1, s1, out1)) := x in
      Ok (mkI pr1 a1 (insert p s1 (peers st)), out1)
  end.
Fixpoint on_inbound_all (c : cfg) (p : Z) (r : res) (ms : list msg) : outcome res :=
  match ms with
  | [] => Ok r
  | m :: rest => r1 <- on_inbound c p r m ;; on_inbound_all c p r1 rest
  end.

(* on_outbound_msg: apply_msg; no sub-behaviour implements visit_outbound_msg *)
Definition on_outbound (p : Z) (st : ist) (m : msg) : outcome res :=
  match lookup p (peers st) with
  | None => Ok (st, [])
  | Some s => Ok (mkI (pr st) (ax st) (insert p (apply_msg s m) (peers st)), [])
  end.

Definition on_connected (p : Z) (st : ist) : outcome res :=
  match lookup p (peers st) with
  | None => Ok (st, [])
  | Some s =>
      v <- v_hs_connected p (ax st, set_conn CConnected s, []) ;;
      let '(a1, s1, out1) := v in
      Ok (mkI (pr st) a1 (insert p s1 (peers st)), out1)
  end.

Definition on_disconnected (p : Z) (st : ist) : outcome res :=
  match lookup p (peers st) with
  | None => Ok (st, [])
  | Some s =>
      v <- v_lf_purge p (ax st, reset (set_conn CDisconnected s), []) ;;
      let '(a1, s1, out1) := v in
      Ok (mkI (pr st) a1 (insert p s1 (peers st)), out1)
  end.

Definition U32_MAX := 4294967295.
Definition on_errored (p : Z) (st : ist) : outcome res :=
  match lookup p (peers st) with
  | None => Ok (st, [])
  | Some s =>
      if errc s >=? U32_MAX then Panic P_ERRC
      else
        v1 <- v_conn_err p (ax st, set_errc (errc s + 1) (set_conn CErrored s), []) ;;
        v2 <- v_lf_purge p v1 ;;
        let '(a1, s1, out1) := v2 in
        Ok (mkI (pr st) a1 (insert p s1 (peers st)), out1)
  end.

(* on_tagged *)
Definition on_tagged (p : Z) (tagger : pstate -> pstate) (st : ist) : outcome res :=
  match lookup p (peers st) with
  | None => Ok (st, [])
  | Some s =>
      v <- v_cs_tagged p (ax st, tagger s, []) ;;
      let '(a1, s1, out1) := v in
      Ok (mkI (pr st) a1 (insert p s1 (peers st)), out1)
  end.

(* on_discovered: fresh state, visit_discovered (promotion only), peers.insert *)
Definition on_discovered (c : cfg) (p : Z) (st : ist) : outcome ist :=
  r <- on_peer_discovered c p (pr st) pnew ;;
  let '(pr1, s1) := r in
  Ok (mkI pr1 (ax st) (insert p s1 (peers st))).

(* the housekeeping loop over `peers`, in the iteration order given *)
Fixpoint hk_loop (c : cfg) (order : list Z) (r : res) : outcome res :=
  match order with
  | [] => Ok r
  | p :: rest =>
      let '(st, out) := r in
      match lookup p (peers st) with
      | None => hk_loop c rest r
      | Some s =>
          x <- visit_hk c p (pr st) (ax st, s, out) ;;
          let '(pr1, (a1, s1, out1)) := x in
          hk_loop c rest (mkI pr1 a1 (insert p s1 (peers st)), out1)
      end
  end.

(* is [l1] a duplicate-free enumeration of the set [l2]? *)
Fixpoint nodupb (l : list Z) : bool :=
  match l with [] => true | x :: r => negb (mem x r) && nodupb r end.
Definition same_set (l1 l2 : list Z) : bool :=
  nodupb l1 && (length l1 =? length l2)%nat && forallb (fun x => mem x l2) l1.
Definition canon (given actual : list Z) : list Z := if same_set given actual then given else actual.

Fixpoint discover_all (c : cfg) (new : list Z) (st : ist) : outcome ist :=
  match new with
  | [] => Ok st
  | p :: rest =>
      match lookup p (peers st) with
      | Some _ => discover_all c rest st
      | None => st1 <- on_discovered c p st ;; discover_all c rest st1
      end
  end.

(* move_discovered_into_promotion; drain_new_peers(deficit) takes the first
   `deficit` elements of the set's iteration order *)
Definition move_discovered (c : cfg) (dorder : list Z) (st : ist) : outcome ist :=
  deficit <- usub P_SUB_PEERS (max_peers c) (total (pr st)) ;;
  if deficit =? 0 then Ok st
  else
    let d := canon dorder (disc (ax st)) in
    let new := firstn (Z.to_nat deficit) d in
    let rest := skipn (Z.to_nat deficit) d in
    let st1 := mkI (pr st) (set_disc rest (ax st)) (peers st) in
    match new with
    | [] => Ok st
    | _ => discover_all c new st1
    end.

(* `peers.keys()` as the default visiting order *)
Definition keys (st : ist) : list Z := map fst (peers st).

Definition housekeeping (c : cfg) (order dorder : list Z) (st : ist) : outcome res :=
  r <- hk_loop c (canon order (keys st)) (st, []) ;;
  let '(st1, out) := r in
  st2 <- move_discovered c dorder st1 ;;
  Ok (st2, out).

(* ---- commands (execute) and interface events (handle_io) ---- *)
Inductive event :=
| EInclude (p : Z) | EBan (p : Z) | EDemote (p : Z)
| EHousekeeping (order dorder : list Z)          (* InitiatorCommand::Housekeeping and InterfaceEvent::Idle *)
| EStartSync (k : Z) | EContinueSync (p : Z) | ERequestBlocks (r : Z)
| ESendTx (p : Z) | EFetchEb (p x : Z) | EFetchEbTxs (p x : Z)
| EConnected (p : Z) | EDisconnected (p : Z) | EError (p : Z)
| ERecv (p : Z) (ms : list msg) | ESent (p : Z) (m : msg).

Definition step (c : cfg) (st : ist) (e : event) : outcome res :=
  match e with
  | EInclude p => st1 <- on_discovered c p st ;; Ok (st1, [])
  | EStartSync k => Ok (mkI (pr st) (set_csi (Some k) (ax st)) (peers st), [])
  | EContinueSync p => on_tagged p (set_csync true) st
  | ERequestBlocks r => Ok (mkI (pr st) (set_bfq (bfq (ax st) ++ [r]) (ax st)) (peers st), [])
  | EHousekeeping order dorder => housekeeping c order dorder st
  | EBan p => on_tagged p (set_tg TBanned) (mkI (ban_pid p (pr st)) (ax st) (peers st))
  | EDemote p => on_tagged p (set_tg TCold) st
  | ESendTx _ => Ok (st, [])
  | EFetchEb p x => Ok (mkI (pr st) (set_lfq (lfq (ax st) ++ [(p, (0, x))]) (ax st)) (peers st), [])
  | EFetchEbTxs p x => Ok (mkI (pr st) (set_lfq (lfq (ax st) ++ [(p, (1, x))]) (ax st)) (peers st), [])
  | EConnected p => on_connected p st
  | EDisconnected p => on_disconnected p st
  | ERecv p ms => on_inbound_all c p (st, []) ms
  | ESent p m => on_outbound p st m
  | EError p => on_errored p st
  end.

(* run a history; outputs of every step are collected per step *)
Fixpoint run (c : cfg) (st : ist) (evs : list event) : outcome (ist * list (list output)) :=
  match evs with
  | [] => Ok (st, [])
  | e :: rest =>
      r <- step c st e ;;
      let '(st1, out) := r in
      r2 <- run c st1 rest ;;
      let '(st2, outs) := r2 in
      Ok (st2, out :: outs)
  end.
