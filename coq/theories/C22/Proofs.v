(* C22 proofs, part 1: generic "one well-formed item" / round-trip lemmas over the
   minicbor call models; Point, Tip, keepalive, blockfetch, chainsync, txsubmission. *)
From PV Require Import Lib.Base Cbor.Item Cbor.Enc Cbor.Dec Cbor.HeadLaws Cbor.Laws Cbor.Api Cbor.Skip Cbor.SkipLaws C22.Model.
Open Scope Z_scope.

Ltac rng := unfold u8b, u16b, u32b, u64b, u128b, u64_bound in *; lia.

Lemma in_u_spec b n : in_u b n = true <-> 0 <= n < b.
Proof. unfold in_u. lia. Qed.

Lemma wf_bytes_spec b : wf_bytes b = true <-> bytes_wf b /\ len b < u64b.
Proof. unfold wf_bytes. rewrite andb_true_iff, bytes_wfb_spec, Z.ltb_lt. tauto. Qed.

Lemma wf_text_spec s : wf_text s = true <-> bytes_wf s /\ len s < u64b /\ utf8_valid s = true.
Proof. unfold wf_text. rewrite andb_true_iff, wf_bytes_spec. tauto. Qed.

(* ------------------------------------------------------------ one well-formed item *)
Definition is_enc (bs : list Z) : Prop := exists i, bs = encode_item i /\ wf_item i = true.

Lemma is_enc_items parts :
  Forall is_enc parts -> exists xs, parts = map encode_item xs /\ forallb wf_item xs = true.
Proof.
  induction 1 as [|p ps (i & -> & Hi) _ (xs & -> & Hxs)].
  - exists []. split; reflexivity.
  - exists (i :: xs). split; [reflexivity|]. cbn [forallb]. rewrite Hi, Hxs. reflexivity.
Qed.

Lemma fits_min n : 0 <= n < u64b -> arg_fitsb (min_width n) n = true.
Proof. intros H. apply arg_fitsb_spec, min_width_fits. rng. Qed.

Lemma is_enc_array parts :
  Forall is_enc parts -> len parts < u64b -> is_enc (e_array (len parts) ++ concat parts).
Proof.
  intros H Hl. apply is_enc_items in H as (xs & -> & Hxs).
  exists (Array (min_width (len xs)) xs). split.
  - cbn [encode_item]. unfold e_array, enc_head_min, len. rewrite map_length. reflexivity.
  - cbn [wf_item]. rewrite Hxs, fits_min; [reflexivity|]. pose proof (len_nonneg xs).
    unfold len in *. rewrite map_length in Hl. lia.
Qed.

Lemma is_enc_array_indef parts :
  Forall is_enc parts -> is_enc (e_begin_array ++ concat parts ++ e_end).
Proof.
  intros H. apply is_enc_items in H as (xs & -> & Hxs).
  exists (ArrayIndef xs). split; [reflexivity|exact Hxs].
Qed.

Lemma is_enc_arr1 a : is_enc a -> is_enc (e_array 1 ++ a).
Proof. intros Ha. pose proof (is_enc_array [a]) as H. cbn [concat] in H. rewrite app_nil_r in H. apply H; [repeat constructor; assumption|cbn; rng]. Qed.
Lemma is_enc_arr2 a b : is_enc a -> is_enc b -> is_enc (e_array 2 ++ a ++ b).
Proof. intros Ha Hb. pose proof (is_enc_array [a; b]) as H. cbn [concat] in H. rewrite app_nil_r in H. apply H; [repeat constructor; assumption|cbn; rng]. Qed.
Lemma is_enc_arr3 a b c : is_enc a -> is_enc b -> is_enc c -> is_enc (e_array 3 ++ a ++ b ++ c).
Proof. intros Ha Hb Hc. pose proof (is_enc_array [a; b; c]) as H. cbn [concat] in H. rewrite app_nil_r in H. apply H; [repeat constructor; assumption|cbn; rng]. Qed.
Lemma is_enc_arr4 a b c d : is_enc a -> is_enc b -> is_enc c -> is_enc d -> is_enc (e_array 4 ++ a ++ b ++ c ++ d).
Proof. intros Ha Hb Hc Hd. pose proof (is_enc_array [a; b; c; d]) as H. cbn [concat] in H. rewrite app_nil_r in H. apply H; [repeat constructor; assumption|cbn; rng]. Qed.
Lemma is_enc_arr6 a b c d e f :
  is_enc a -> is_enc b -> is_enc c -> is_enc d -> is_enc e -> is_enc f ->
  is_enc (e_array 6 ++ a ++ b ++ c ++ d ++ e ++ f).
Proof. intros Ha Hb Hc Hd He Hf. pose proof (is_enc_array [a; b; c; d; e; f]) as H. cbn [concat] in H. rewrite app_nil_r in H. apply H; [repeat constructor; assumption|cbn; rng]. Qed.
Lemma is_enc_arr0 : is_enc (e_array 0).
Proof. pose proof (is_enc_array []) as H. cbn [concat] in H. rewrite app_nil_r in H. apply H; [constructor|cbn; rng]. Qed.

Lemma is_enc_uint n : 0 <= n < u64b -> is_enc (e_uint n).
Proof. intros H. exists (UInt (min_width n) n). split; [reflexivity|]. apply fits_min, H. Qed.
Lemma is_enc_bool b : is_enc (e_bool b).
Proof. destruct b; [exists CTrue|exists CFalse]; split; reflexivity. Qed.
Lemma is_enc_null : is_enc e_null.
Proof. exists CNull. split; reflexivity. Qed.
Lemma is_enc_bytes b : wf_bytes b = true -> is_enc (e_bytes b).
Proof.
  intros H. apply wf_bytes_spec in H as [Hb Hl]. exists (Bytes (min_width (len b)) b). split; [reflexivity|].
  cbn [wf_item]. rewrite fits_min by (pose proof (len_nonneg b); lia).
  apply bytes_wfb_spec in Hb. rewrite Hb. reflexivity.
Qed.
Lemma is_enc_str s : wf_text s = true -> is_enc (e_str s).
Proof.
  intros H. apply wf_text_spec in H as (Hb & Hl & Hu). exists (Text (min_width (len s)) s). split; [reflexivity|].
  cbn [wf_item]. rewrite fits_min by (pose proof (len_nonneg s); lia).
  apply bytes_wfb_spec in Hb. rewrite Hb, Hu. reflexivity.
Qed.
Lemma is_enc_tag t a : 0 <= t < u64b -> is_enc a -> is_enc (e_tag t ++ a).
Proof.
  intros Ht (i & -> & Hi). exists (Tag (min_width t) t i). split; [reflexivity|].
  cbn [wf_item]. rewrite fits_min, Hi by exact Ht. reflexivity.
Qed.
Lemma is_enc_cbor_bytes b : wf_bytes b = true -> is_enc (e_cbor_bytes b).
Proof. intros H. apply is_enc_tag; [rng|apply is_enc_bytes, H]. Qed.
Lemma is_item_spec x : is_item x = true ->
  exists i, x = encode_item i /\ wf_item i = true /\ 2 * len x + 2 < u64_max.
Proof.
  unfold is_item. intros H. apply andb_true_iff in H as [H Hs]. apply Z.ltb_lt in Hs.
  destruct (decode_all x) as [i| |] eqn:E; try discriminate.
  apply decode_all_sound in E as [-> Hi]. exists i. auto.
Qed.
Lemma is_enc_raw x : is_item x = true -> is_enc x.
Proof. intros H. apply is_item_spec in H as (i & -> & Hi & _). exists i. auto. Qed.
Lemma is_enc_vec {A} (enc : A -> list Z) xs :
  Forall (fun x => is_enc (enc x)) xs -> len xs < u64b -> is_enc (e_vec enc xs).
Proof.
  intros H Hl. unfold e_vec. replace (len xs) with (len (map enc xs)) by (unfold len; rewrite map_length; reflexivity).
  apply is_enc_array; [apply Forall_map, H|]. unfold len in *. rewrite map_length. exact Hl.
Qed.
Lemma is_enc_indef_vec {A} (enc : A -> list Z) xs :
  Forall (fun x => is_enc (enc x)) xs -> is_enc (e_indef_vec enc xs).
Proof. intros H. unfold e_indef_vec. apply is_enc_array_indef, Forall_map, H. Qed.

(* ------------------------------------------------------------ decoder / encoder call laws *)
Lemma d_array_e n r : 0 <= n < u64b -> d_array (e_array n ++ r) = DOk (Some n, r).
Proof. intros H. unfold d_array, e_array, enc_head_min. apply d_len_enc, min_width_fits. rng. Qed.
Lemma d_map_e n r : 0 <= n < u64b -> d_map (e_map n ++ r) = DOk (Some n, r).
Proof. intros H. unfold d_map, e_map, enc_head_min. apply d_len_enc, min_width_fits. rng. Qed.
Lemma d_array_begin r : d_array (e_begin_array ++ r) = DOk (None, r).
Proof. apply (d_len_indef MajArray). auto. Qed.
Lemma d_map_begin r : d_map (e_begin_map ++ r) = DOk (None, r).
Proof. apply (d_len_indef MajMap). auto. Qed.

Lemma d_uint_e b n r : 0 <= n < b -> b <= u64b -> d_uint b (e_uint n ++ r) = DOk (n, r).
Proof. intros H Hb. unfold e_uint, enc_head_min. apply d_uint_enc; [apply min_width_fits; rng|lia]. Qed.
Lemma d_u8_e n r : 0 <= n < u8b -> d_u8 (e_uint n ++ r) = DOk (n, r).
Proof. intros H. apply d_uint_e; rng. Qed.
Lemma d_u16_e n r : 0 <= n < u16b -> d_u16 (e_uint n ++ r) = DOk (n, r).
Proof. intros H. apply d_uint_e; rng. Qed.
Lemma d_u32_e n r : 0 <= n < u32b -> d_u32 (e_uint n ++ r) = DOk (n, r).
Proof. intros H. apply d_uint_e; rng. Qed.
Lemma d_u64_e n r : 0 <= n < u64b -> d_u64 (e_uint n ++ r) = DOk (n, r).
Proof. intros H. apply d_uint_e; rng. Qed.
Lemma d_bool_e b r : d_bool (e_bool b ++ r) = DOk (b, r).
Proof. destruct b; reflexivity. Qed.
Lemma d_tag_e t r : 0 <= t < u64b -> d_tag (e_tag t ++ r) = DOk (t, r).
Proof. intros H. unfold e_tag, enc_head_min. apply d_tag_enc, min_width_fits. rng. Qed.
Lemma d_bytes_e b r : wf_bytes b = true -> d_bytes (e_bytes b ++ r) = DOk (b, r).
Proof.
  intros H. apply wf_bytes_spec in H as [Hb Hl]. unfold e_bytes, enc_head_min. rewrite <- app_assoc.
  apply d_bytes_enc; [apply min_width_fits; pose proof (len_nonneg b); rng|exact Hb].
Qed.
Lemma d_anytag_bytes_e b r : wf_bytes b = true -> d_anytag_bytes (e_cbor_bytes b ++ r) = DOk (b, r).
Proof. intros H. unfold d_anytag_bytes, e_cbor_bytes. rewrite <- app_assoc, d_tag_e by rng. cbn [dbind]. apply d_bytes_e, H. Qed.
Lemma d_tag24_bytes_e b r : wf_bytes b = true -> d_tag24_bytes (e_cbor_bytes b ++ r) = DOk (b, r).
Proof. intros H. unfold d_tag24_bytes, e_cbor_bytes. rewrite <- app_assoc, d_tag_e by rng. cbn [dbind Z.eqb Pos.eqb]. apply d_bytes_e, H. Qed.

Lemma d_str_e s r : wf_text s = true -> d_str (e_str s ++ r) = DOk (s, r).
Proof.
  intros H. apply wf_text_spec in H as (Hb & Hl & Hu).
  assert (Hfit : arg_fits (min_width (len s)) (len s)) by (apply min_width_fits; pose proof (len_nonneg s); rng).
  unfold e_str, enc_head_min. rewrite <- app_assoc.
  pose proof (expect_arg_enc (major_eqb MajText) MajText _ (len s) (s ++ r) (major_eqb_refl _) Hfit) as He.
  pose proof (dec_head_enc MajText _ (len s) (s ++ r) Hfit) as Hd.
  destruct (enc_head_first MajText _ (len s) Hfit) as (b0 & t & E & Hb0).
  rewrite E in *. cbn [app] in *. unfold d_str.
  unfold dec_head in Hd. destruct (byteb b0) eqn:Hbb; cbn [negb] in *; [|discriminate].
  assert (Hm : major_of_code (b0 / 32) = MajText /\ (b0 mod 32 =? 31) = false).
  { destruct (b0 mod 32 <? 24) eqn:E1; [inversion Hd; split; [reflexivity|lia]|].
    destruct (b0 mod 32 =? 31) eqn:E2; [inversion Hd|].
    destruct (width_of_info (b0 mod 32)); [|discriminate].
    apply dbind_ok in Hd as ([a r'] & _ & Hd). inversion Hd; auto. }
  destruct Hm as [Hm H31]. rewrite Hm, H31, major_eqb_refl. cbn [negb andb]. rewrite He. cbn [dbind].
  rewrite take_app by exact Hb. cbn [dbind]. rewrite Hu. reflexivity.
Qed.

Lemma d_raw_e x r : is_item x = true -> d_raw (x ++ r) = DOk (x, r).
Proof.
  intros H. apply is_item_spec in H as (i & -> & Hi & Hs).
  unfold d_raw, d_skip_slice. rewrite skip_item by assumption. cbn [dbind].
  rewrite app_length. replace (length (encode_item i) + length r - length r)%nat with (length (encode_item i)) by lia.
  rewrite firstn_app, Nat.sub_diag, firstn_all. cbn [firstn]. rewrite app_nil_r. reflexivity.
Qed.

(* first byte of an encoded item is never the break *)
Definition nobreak (bs : list Z) : Prop := exists b t, bs = b :: t /\ b <> break_byte.
Lemma is_enc_nobreak bs : is_enc bs -> nobreak bs.
Proof. intros (i & -> & Hi). apply encode_item_first, Hi. Qed.
Lemma nobreak_nonempty bs : nobreak bs -> bs <> [].
Proof. intros (b & t & -> & _). discriminate. Qed.

(* round trip of one value: [rt dec enc x] *)
Definition rt {A} (dec : list Z -> dres (A * list Z)) (enc : A -> list Z) (x : A) : Prop :=
  forall r, dec (enc x ++ r) = DOk (x, r).

Lemma d_vec_def {A} (dec : list Z -> dres (A * list Z)) (enc : A -> list Z) xs r :
  Forall (fun x => rt dec enc x /\ is_enc (enc x)) xs -> len xs < u64b ->
  d_vec dec (e_vec enc xs ++ r) = DOk (xs, r).
Proof.
  intros H Hl. apply d_vec_e_vec; [|exact Hl].
  eapply Forall_impl; [|exact H]. intros x [Hr He]. split; [exact Hr|apply nobreak_nonempty, is_enc_nobreak, He].
Qed.

Lemma d_vec_indef {A} (dec : list Z -> dres (A * list Z)) (enc : A -> list Z) xs r :
  Forall (fun x => rt dec enc x /\ is_enc (enc x)) xs ->
  d_vec dec (e_indef_vec enc xs ++ r) = DOk (xs, r).
Proof.
  intros H. unfold d_vec, e_indef_vec. rewrite <- !app_assoc, d_array_begin. cbn [dbind].
  assert (Hr : Forall (fun x => (forall r, dec (enc x ++ r) = DOk (x, r)) /\
                                exists b t, enc x = b :: t /\ b <> break_byte) xs).
  { eapply Forall_impl; [|exact H]. intros x [Hx He]. split; [exact Hx|apply is_enc_nobreak, He]. }
  change (e_end ++ r) with (break_byte :: r).
  apply until_loop_complete; [exact Hr|].
  apply ready_nonempty in Hr as [_ Hne]. apply (budget_app_ge enc xs (break_byte :: r)) in Hne. lia.
Qed.

Ltac wf_hyps :=
  repeat match goal with
  | H : _ && _ = true |- _ => apply andb_true_iff in H; destruct H
  | H : in_u _ _ = true |- _ => apply in_u_spec in H
  | H : (_ <? _) = true |- _ => apply Z.ltb_lt in H
  end.

Ltac enc_base := first
  [ apply is_enc_arr0 | apply is_enc_arr1 | apply is_enc_arr2 | apply is_enc_arr3 | apply is_enc_arr4 | apply is_enc_arr6
  | apply is_enc_uint; rng | apply is_enc_bool | apply is_enc_null | apply is_enc_bytes; assumption
  | apply is_enc_cbor_bytes; assumption | apply is_enc_str; assumption | apply is_enc_raw; assumption
  | assumption ].

Ltac dec_base := first
  [ rewrite d_array_e by rng | rewrite d_u8_e by rng | rewrite d_u16_e by rng | rewrite d_u32_e by rng
  | rewrite d_u64_e by rng | rewrite d_bool_e | rewrite d_anytag_bytes_e by assumption
  | rewrite d_tag24_bytes_e by assumption | rewrite d_bytes_e by assumption | rewrite d_str_e by assumption
  | rewrite d_raw_e by assumption | rewrite d_tag_e by rng ].
Ltac dnorm := cbn [dbind Z.eqb Pos.eqb len_is orb andb].

(* ---- Point, Tip ---- *)
Lemma point_enc p : wf_point p = true -> is_enc (enc_point p).
Proof. destruct p as [|s h]; cbn [wf_point enc_point]; intros H; wf_hyps; repeat enc_base. Qed.
Lemma point_rt p r : wf_point p = true -> dec_point (enc_point p ++ r) = DOk (p, r).
Proof.
  destruct p as [|s h]; cbn [wf_point enc_point]; intros H; wf_hyps; unfold dec_point;
    rewrite <- ?app_assoc; repeat (dec_base; dnorm); reflexivity.
Qed.
Lemma tip_enc t : wf_tip t = true -> is_enc (enc_tip t).
Proof. destruct t as [p n]; cbn [wf_tip enc_tip]; intros H; wf_hyps. apply is_enc_arr2; [apply point_enc; assumption|enc_base]. Qed.
Lemma tip_rt t r : wf_tip t = true -> dec_tip (enc_tip t ++ r) = DOk (t, r).
Proof.
  destruct t as [p n]; cbn [wf_tip enc_tip]; intros H; wf_hyps. unfold dec_tip.
  rewrite <- ?app_assoc. dec_base; dnorm. rewrite point_rt by assumption. dnorm. dec_base; dnorm. reflexivity.
Qed.

Ltac enc_tac := repeat first [ enc_base | apply point_enc; assumption | apply tip_enc; assumption ].
Ltac dec_tac := rewrite <- ?app_assoc;
  repeat (first [ dec_base | rewrite point_rt by assumption | rewrite tip_rt by assumption ]; dnorm); try reflexivity.

(* ---- keepalive ---- *)
Lemma ka_wellformed m : ka_wf m = true -> is_enc (ka_enc m).
Proof. destruct m; cbn [ka_wf ka_enc]; intros H; wf_hyps; enc_tac. Qed.
Lemma ka_dec_enc m r : ka_wf m = true -> ka_dec (ka_enc m ++ r) = DOk (m, r).
Proof. destruct m; cbn [ka_wf ka_enc]; intros H; wf_hyps; unfold ka_dec; dec_tac. Qed.

(* ---- blockfetch ---- *)
Lemma bf_wellformed m : bf_wf m = true -> is_enc (bf_enc m).
Proof. destruct m; cbn [bf_wf bf_enc]; intros H; wf_hyps; enc_tac. Qed.
Lemma bf_dec_enc m r : bf_wf m = true -> bf_dec (bf_enc m ++ r) = DOk (m, r).
Proof. destruct m; cbn [bf_wf bf_enc]; intros H; wf_hyps; unfold bf_dec; dec_tac. Qed.

Lemma Forall_wf {A} (wf : A -> bool) (P : A -> Prop) l :
  (forall x, wf x = true -> P x) -> forallb wf l = true -> Forall P l.
Proof. intros H Hl. apply forallb_Forall in Hl. eapply Forall_impl; [|exact Hl]. exact H. Qed.

(* ---- chainsync, for any content codec ---- *)
Section CsProofs.
  Context {C : Type} (encC : C -> list Z) (decC : list Z -> dres (C * list Z)) (wfC : C -> bool).
  Hypothesis HencC : forall c, wfC c = true -> is_enc (encC c).
  Hypothesis HrtC : forall c r, wfC c = true -> decC (encC c ++ r) = DOk (c, r).

  Lemma cs_wellformed m : cs_wf wfC m = true -> is_enc (cs_enc encC m).
  Proof.
    destruct m; cbn [cs_wf cs_enc]; intros H; wf_hyps; enc_tac.
    - apply HencC; assumption.
    - apply is_enc_vec; [|assumption].
      eapply Forall_wf; [|eassumption]. intros p Hp. apply point_enc, Hp.
  Qed.

  Lemma cs_dec_enc m r : cs_wf wfC m = true -> cs_dec decC (cs_enc encC m ++ r) = DOk (m, r).
  Proof.
    destruct m; cbn [cs_wf cs_enc]; intros H; wf_hyps; unfold cs_dec; dec_tac.
    - rewrite HrtC by assumption. dnorm. dec_tac.
    - rewrite d_vec_def; [reflexivity| |assumption].
      eapply Forall_wf; [|eassumption]. intros p Hp. split; [intros r'; apply point_rt, Hp|apply point_enc, Hp].
  Qed.
End CsProofs.

(* HeaderContent *)
Lemma header_enc h : wf_header h = true -> is_enc (enc_header h).
Proof.
  destruct h as [v pre c]. unfold wf_header, enc_header. cbn [hvariant hprefix hcbor]. intros H. wf_hyps.
  destruct (v =? 0) eqn:Ev.
  - destruct pre as [[a b]|]; [|discriminate]. wf_hyps.
    assert (E : e_array 2 ++ e_uint a ++ e_uint b ++ e_cbor_bytes c =
                (e_array 2 ++ e_uint a ++ e_uint b) ++ e_cbor_bytes c) by (rewrite <- !app_assoc; reflexivity).
    rewrite E. apply is_enc_arr2; [enc_tac|]. apply is_enc_arr2; [apply is_enc_arr2; enc_tac|enc_tac].
  - destruct pre; [discriminate|]. enc_tac.
Qed.
Lemma header_rt h r : wf_header h = true -> dec_header (enc_header h ++ r) = DOk (h, r).
Proof.
  destruct h as [v pre c]. unfold wf_header, enc_header, dec_header. cbn [hvariant hprefix hcbor]. intros H. wf_hyps.
  destruct (v =? 0) eqn:Ev.
  - destruct pre as [[a b]|]; [|discriminate]. wf_hyps. apply Z.eqb_eq in Ev. subst v. dec_tac.
  - destruct pre; [discriminate|]. rewrite <- ?app_assoc. dec_base. dnorm. dec_base. cbn [dbind]. rewrite Ev. dec_tac.
Qed.
Lemma blockc_enc b : wf_bytes b = true -> is_enc (enc_blockc b).
Proof. intros H. unfold enc_blockc. enc_tac. Qed.
Lemma blockc_rt b r : wf_bytes b = true -> dec_blockc (enc_blockc b ++ r) = DOk (b, r).
Proof. intros H. unfold enc_blockc, dec_blockc. dec_tac. Qed.
Lemma skipped_enc (u : unit) : (fun _ : unit => true) u = true -> is_enc (enc_skipped u).
Proof. intros _. unfold enc_skipped. enc_tac. Qed.
Lemma skipped_rt (u : unit) r : (fun _ : unit => true) u = true -> dec_skipped (enc_skipped u ++ r) = DOk (u, r).
Proof.
  intros _. destruct u. unfold dec_skipped, enc_skipped. change e_null with (encode_item CNull).
  rewrite skip_item; [reflexivity|reflexivity|vm_compute; reflexivity].
Qed.

Lemma csh_wellformed m : csh_wf m = true -> is_enc (csh_enc m).
Proof. exact (cs_wellformed enc_header dec_header wf_header header_enc header_rt m). Qed.
Lemma csh_dec_enc m r : csh_wf m = true -> csh_dec (csh_enc m ++ r) = DOk (m, r).
Proof. exact (cs_dec_enc enc_header dec_header wf_header header_enc header_rt m r). Qed.
Lemma csh_no_err m : csh_wf m = true -> csh_enc_err m = false.
Proof.
  destruct m; try reflexivity. cbn [csh_wf cs_wf csh_enc_err]. intros H. wf_hyps.
  destruct c as [v pre b]. unfold wf_header, header_enc_err in *. cbn [hvariant hprefix hcbor] in *. wf_hyps.
  destruct (v =? 0); [destruct pre; [reflexivity|discriminate]|reflexivity].
Qed.
Lemma csb_wellformed m : csb_wf m = true -> is_enc (csb_enc m).
Proof. exact (cs_wellformed enc_blockc dec_blockc wf_bytes blockc_enc blockc_rt m). Qed.
Lemma csb_dec_enc m r : csb_wf m = true -> csb_dec (csb_enc m ++ r) = DOk (m, r).
Proof. exact (cs_dec_enc enc_blockc dec_blockc wf_bytes blockc_enc blockc_rt m r). Qed.
Lemma css_wellformed m : css_wf m = true -> is_enc (css_enc m).
Proof. exact (cs_wellformed enc_skipped dec_skipped (fun _ => true) skipped_enc skipped_rt m). Qed.
Lemma css_dec_enc m r : css_wf m = true -> css_dec (css_enc m ++ r) = DOk (m, r).
Proof. exact (cs_dec_enc enc_skipped dec_skipped (fun _ => true) skipped_enc skipped_rt m r). Qed.

(* ---- txsubmission ---- *)
Lemma txid_enc x : wf_txid x = true -> is_enc (enc_txid x).
Proof. destruct x as [era id]; unfold wf_txid, enc_txid; cbn [fst snd]; intros H; wf_hyps; enc_tac. Qed.
Lemma txid_rt x r : wf_txid x = true -> dec_txid (enc_txid x ++ r) = DOk (x, r).
Proof. destruct x as [era id]; unfold wf_txid, enc_txid, dec_txid; cbn [fst snd]; intros H; wf_hyps; dec_tac. Qed.
Lemma txid_size_enc x : wf_txid_size x = true -> is_enc (enc_txid_size x).
Proof.
  destruct x as [id s]; unfold wf_txid_size, enc_txid_size; cbn [fst snd]; intros H; wf_hyps.
  apply is_enc_arr2; [apply txid_enc; assumption|enc_tac].
Qed.
Lemma txid_size_rt x r : wf_txid_size x = true -> dec_txid_size (enc_txid_size x ++ r) = DOk (x, r).
Proof.
  destruct x as [id s]; unfold wf_txid_size, enc_txid_size, dec_txid_size; cbn [fst snd]; intros H; wf_hyps.
  dec_tac. rewrite txid_rt by assumption. dnorm. dec_tac.
Qed.
Lemma txbody_enc x : wf_txbody x = true -> is_enc (enc_txbody x).
Proof. destruct x as [era b]; unfold wf_txbody, enc_txbody; cbn [fst snd]; intros H; wf_hyps; enc_tac. Qed.
Lemma txbody_rt x r : wf_txbody x = true -> dec_txbody (enc_txbody x ++ r) = DOk (x, r).
Proof. destruct x as [era b]; unfold wf_txbody, enc_txbody, dec_txbody; cbn [fst snd]; intros H; wf_hyps; dec_tac. Qed.

Lemma Forall_rt_enc {A} (wf : A -> bool) (dec : list Z -> dres (A * list Z)) (enc : A -> list Z) l :
  (forall x, wf x = true -> is_enc (enc x)) -> (forall x r, wf x = true -> dec (enc x ++ r) = DOk (x, r)) ->
  forallb wf l = true -> Forall (fun x => rt dec enc x /\ is_enc (enc x)) l.
Proof. intros He Hr. apply Forall_wf. intros x Hx. split; [intros r; apply Hr, Hx|apply He, Hx]. Qed.
Lemma Forall_enc {A} (wf : A -> bool) (enc : A -> list Z) l :
  (forall x, wf x = true -> is_enc (enc x)) -> forallb wf l = true -> Forall (fun x => is_enc (enc x)) l.
Proof. intros He. apply Forall_wf. exact He. Qed.

Lemma ts_wellformed m : ts_wf m = true -> is_enc (ts_enc m).
Proof.
  destruct m; cbn [ts_wf ts_enc]; intros H; wf_hyps; enc_tac; apply is_enc_indef_vec.
  - eapply Forall_enc; [apply txid_size_enc|assumption].
  - eapply Forall_enc; [apply txid_enc|assumption].
  - eapply Forall_enc; [apply txbody_enc|assumption].
Qed.
Lemma ts_dec_enc m r : ts_wf m = true -> ts_dec (ts_enc m ++ r) = DOk (m, r).
Proof.
  destruct m; cbn [ts_wf ts_enc]; intros H; wf_hyps; unfold ts_dec; dec_tac.
  - rewrite d_vec_indef; [reflexivity|]. eapply Forall_rt_enc; [apply txid_size_enc|apply txid_size_rt|assumption].
  - rewrite d_vec_indef; [reflexivity|]. eapply Forall_rt_enc; [apply txid_enc|apply txid_rt|assumption].
  - rewrite d_vec_indef; [reflexivity|]. eapply Forall_rt_enc; [apply txbody_enc|apply txbody_rt|assumption].
Qed.
