//! Shelley-MA certificates (shared by c33 / c38): CBOR builders and mutators for the certificate field
//! and for the certificate state, the replay text of a certificate state, and the Coq terms
//! (`cert` list, `cstate`) of PV.C33.Model.
#![allow(dead_code)]
use super::va::{zh, zname};
use super::vc::*;
use pallas_primitives::alonzo::{self, Certificate, InstantaneousRewardSource, InstantaneousRewardTarget};
use pallas_primitives::{RationalNumber, StakeCredential};
use pallas_traverse::Era;
use pallas_validate::utils::{CertPointer, CertState, PoolParam};
use verif_harness::{coq_list, hex, Rng};

// ---------------------------------------------------------------- Coq terms
pub fn cred_z(c: &StakeCredential) -> String {
    match c { StakeCredential::AddrKeyhash(h) => format!("(2 * {})", zh(h.as_ref())), StakeCredential::ScriptHash(h) => format!("(2 * {} + 1)", zh(h.as_ref())) }
}
pub fn certs_term(certs: &Option<Vec<Certificate>>) -> String {
    match certs {
        None => "None".into(),
        Some(l) => format!("(Some {})", coq_list(l, |c| match c {
            Certificate::StakeRegistration(s) => format!("(CReg {})", cred_z(s)),
            Certificate::StakeDeregistration(s) => format!("(CDereg {})", cred_z(s)),
            Certificate::StakeDelegation(s, p) => format!("(CDeleg {} {})", cred_z(s), zh(p.as_ref())),
            Certificate::PoolRegistration { operator, cost, .. } => format!("(CPoolReg {} {})", zh(operator.as_ref()), cost),
            Certificate::PoolRetirement(p, e) => format!("(CPoolRet {} {})", zh(p.as_ref()), e),
            Certificate::GenesisKeyDelegation(g, d, v) => format!("(CGenDeleg {} {} {})", zname(g.as_slice()), zname(d.as_slice()), zh(v.as_ref())),
            Certificate::MoveInstantaneousRewardsCert(m) => {
                let t = matches!(m.source, InstantaneousRewardSource::Treasury);
                let tg = match &m.target {
                    InstantaneousRewardTarget::StakeCredentials(kv) => format!("(Some {})", coq_list(&kv.iter().collect::<Vec<_>>(), |(k, v)| format!("({},{})", cred_z(k), verif_harness::coq_z(**v)))),
                    InstantaneousRewardTarget::OtherAccountingPot(_) => "None".into(),
                };
                format!("(CMir {} {})", if t { "true" } else { "false" }, tg)
            }
        })),
    }
}
pub fn cstate_term(cs: &CertState) -> String {
    let d = &cs.dstate;
    let mut rw: Vec<String> = d.rewards.iter().map(|(k, v)| format!("({},{})", cred_z(k), v)).collect(); rw.sort();
    let mut pt: Vec<String> = d.ptrs.iter().map(|(k, v)| format!("(({},{},{}),{})", k.slot, k.tx_ix, k.cert_ix, cred_z(v))).collect(); pt.sort();
    let mut pl: Vec<String> = cs.pstate.pool_params.keys().map(|k| zh(k.as_ref())).collect(); pl.sort();
    let mut ge: Vec<String> = d.gen_delegs.iter().map(|(k, v)| format!("({},({},{}))", zname(k.as_slice()), zname(v.0.as_slice()), zh(v.1.as_ref()))).collect(); ge.sort();
    let mut fg: Vec<String> = d.fut_gen_delegs.iter().map(|(k, v)| format!("(({},{}),({},{}))", k.0, zname(k.1.as_slice()), zname(v.0.as_slice()), zh(v.1.as_ref()))).collect(); fg.sort();
    let mut ir: Vec<String> = d.inst_rewards.0.iter().map(|(k, v)| format!("({},{})", cred_z(k), v)).collect(); ir.sort();
    let mut it: Vec<String> = d.inst_rewards.1.iter().map(|(k, v)| format!("({},{})", cred_z(k), v)).collect(); it.sort();
    let j = |v: &Vec<String>| format!("[{}]", v.join(";"));
    format!("(Build_cstate {} {} {} {} {} {} {})", j(&rw), j(&pt), j(&pl), j(&ge), j(&fg), j(&ir), j(&it))
}

// ---------------------------------------------------------------- replay text of a certificate state
fn cred_txt(c: &StakeCredential) -> String { match c { StakeCredential::AddrKeyhash(h) => format!("k{}", hex(h.as_ref())), StakeCredential::ScriptHash(h) => format!("s{}", hex(h.as_ref())) } }
fn cred_of(t: &str) -> Option<StakeCredential> {
    let b = hex::decode(&t[1..]).ok()?; if b.len() != 28 { return None }
    Some(if t.starts_with('s') { StakeCredential::ScriptHash(b.as_slice().into()) } else { StakeCredential::AddrKeyhash(b.as_slice().into()) })
}
pub fn dummy_pool_param() -> PoolParam {
    PoolParam { vrf_keyhash: [7u8; 32].as_slice().into(), pledge: 1, cost: 340_000_000, margin: RationalNumber { numerator: 1, denominator: 10 },
                reward_account: vec![0xe1; 29].into(), pool_owners: vec![], relays: vec![], pool_metadata: None }
}
pub fn cs_text(cs: &CertState) -> String {
    let d = &cs.dstate;
    let j = |mut v: Vec<String>| { v.sort(); v.join("|") };
    format!("r:{};p:{};g:{};f:{};ir:{};it:{};pt:{}",
        j(d.rewards.iter().map(|(k, v)| format!("{}={}", cred_txt(k), v)).collect()),
        j(cs.pstate.pool_params.keys().map(|k| hex(k.as_ref())).collect()),
        j(d.gen_delegs.iter().map(|(k, v)| format!("{}={}/{}", hex(k.as_slice()), hex(v.0.as_slice()), hex(v.1.as_ref()))).collect()),
        j(d.fut_gen_delegs.iter().map(|(k, v)| format!("{}/{}={}/{}", k.0, hex(k.1.as_slice()), hex(v.0.as_slice()), hex(v.1.as_ref()))).collect()),
        j(d.inst_rewards.0.iter().map(|(k, v)| format!("{}={}", cred_txt(k), v)).collect()),
        j(d.inst_rewards.1.iter().map(|(k, v)| format!("{}={}", cred_txt(k), v)).collect()),
        j(d.ptrs.iter().map(|(k, v)| format!("{}/{}/{}={}", k.slot, k.tx_ix, k.cert_ix, cred_txt(v))).collect()))
}
pub fn cs_parse(t: &str) -> Option<CertState> {
    let mut cs = CertState::default();
    for part in t.split(';') {
        let (tag, body) = part.split_once(':')?;
        for e in body.split('|').filter(|e| !e.is_empty()) {
            match tag {
                "r" => { let (k, v) = e.split_once('=')?; cs.dstate.rewards.insert(cred_of(k)?, v.parse().ok()?); }
                "p" => { let b = hex::decode(e).ok()?; if b.len() != 28 { return None } cs.pstate.pool_params.insert(b.as_slice().into(), dummy_pool_param()); }
                "g" => { let (k, v) = e.split_once('=')?; let (d, vr) = v.split_once('/')?; let vb = hex::decode(vr).ok()?; if vb.len() != 32 { return None }
                         cs.dstate.gen_delegs.insert(hex::decode(k).ok()?.into(), (hex::decode(d).ok()?.into(), vb.as_slice().into())); }
                "f" => { let (k, v) = e.split_once('=')?; let (sl, g) = k.split_once('/')?; let (d, vr) = v.split_once('/')?; let vb = hex::decode(vr).ok()?; if vb.len() != 32 { return None }
                         cs.dstate.fut_gen_delegs.insert((sl.parse().ok()?, hex::decode(g).ok()?.into()), (hex::decode(d).ok()?.into(), vb.as_slice().into())); }
                "ir" => { let (k, v) = e.split_once('=')?; cs.dstate.inst_rewards.0.insert(cred_of(k)?, v.parse().ok()?); }
                "it" => { let (k, v) = e.split_once('=')?; cs.dstate.inst_rewards.1.insert(cred_of(k)?, v.parse().ok()?); }
                "pt" => { let (k, v) = e.split_once('=')?; let p: Vec<&str> = k.split('/').collect(); if p.len() != 3 { return None }
                          cs.dstate.ptrs.insert(CertPointer { slot: p[0].parse().ok()?, tx_ix: p[1].parse().ok()?, cert_ix: p[2].parse().ok()? }, cred_of(v)?); }
                _ => return None,
            }
        }
    }
    Some(cs)
}

// ---------------------------------------------------------------- mutators
fn shelley_ma(s: &Scen) -> bool { matches!(s.fam, Fam::AC(Era::Shelley) | Fam::AC(Era::Allegra) | Fam::AC(Era::Mary)) }
fn cred_cbor(kind: u8, h: &[u8]) -> Vec<u8> { c_array(&[c_uint(kind as u64), c_bytes(h)]) }
/// credentials / pools the scenario already mentions (state and existing certificates), plus fresh ones
fn pick_cred(s: &Scen, r: &mut Rng) -> (u8, Vec<u8>) {
    let mut known: Vec<(u8, Vec<u8>)> = s.cs.dstate.rewards.keys().map(|k| match k { StakeCredential::AddrKeyhash(h) => (0u8, h.to_vec()), StakeCredential::ScriptHash(h) => (1u8, h.to_vec()) }).collect();
    known.sort();
    if let Some(raw) = s.get(4) { if let Some(items) = arr_items(raw) { for it in items { if let Some(p) = arr_items(&it) { if p.len() >= 2 { if let Some(c) = arr_items(&p[1]) { if c.len() == 2 { if let (Some(k), Some(h)) = (as_u64(&c[0]), as_bytes(&c[1])) { known.push((k as u8, h)) } } } } } } } }
    if !known.is_empty() && r.chance(2, 3) { r.pick(&known).clone() } else { (r.below(2) as u8, r.bytes(28)) }
}
fn pick_pool(s: &Scen, r: &mut Rng) -> Vec<u8> {
    let mut known: Vec<Vec<u8>> = s.cs.pstate.pool_params.keys().map(|k| k.to_vec()).collect(); known.sort();
    if !known.is_empty() && r.chance(3, 4) { r.pick(&known).clone() } else { r.bytes(28) }
}
fn edge_epoch(s: &Scen, r: &mut Rng) -> u64 {
    // current epoch of the block slot on mainnet, +- boundaries
    let slot = s.env.slot; let cur = if slot < 4492800 { slot * 20 / 432000 } else { 208 + (slot - 4492800) / 432000 };
    let emax = match &s.env.pp { pallas_validate::utils::MultiEraProtocolParameters::Shelley(p) => p.maximum_epoch, _ => 18 };
    match r.below(8) { 0 => cur, 1 => cur.wrapping_add(1), 2 => cur.wrapping_add(emax), 3 => cur.wrapping_add(emax).wrapping_add(1), 4 => cur.wrapping_sub(1), 5 => 0, 6 => u64::MAX, _ => r.edge_u64() }
}
fn edge_delta(r: &mut Rng) -> i128 {
    match r.below(8) { 0 => 0, 1 => 1, 2 => -1, 3 => i64::MAX as i128, 4 => i64::MIN as i128, 5 => r.below(1_000_000_000) as i128, 6 => -(r.below(1000) as i128), _ => (1i128 << 62) + r.below(3) as i128 }
}
pub fn one_cert(s: &Scen, r: &mut Rng) -> Vec<u8> {
    match r.below(9) {
        0 | 1 => { let (k, h) = pick_cred(s, r); c_array(&[c_uint(0), cred_cbor(k, &h)]) }
        2 => { let (k, h) = pick_cred(s, r); c_array(&[c_uint(1), cred_cbor(k, &h)]) }
        3 => { let (k, h) = pick_cred(s, r); c_array(&[c_uint(2), cred_cbor(k, &h), c_bytes(&pick_pool(s, r))]) }
        4 => { let cost = *r.pick(&[0u64, 1, 339_999_999, 340_000_000, 340_000_001, u64::MAX]);
               c_array(&[c_uint(3), c_bytes(&pick_pool(s, r)), c_bytes(&r.bytes(32)), c_uint(r.below(1000)), c_uint(cost), c_tag(30, &c_array(&[c_uint(1), c_uint(10)])),
                         c_bytes(&{ let mut a = vec![0xe1]; a.extend(r.bytes(28)); a }), c_array(&[]), c_array(&[]), vec![C_NULL]]) }
        5 => c_array(&[c_uint(4), c_bytes(&pick_pool(s, r)), c_uint(edge_epoch(s, r))]),
        6 => { let mut gk: Vec<Vec<u8>> = s.cs.dstate.gen_delegs.keys().map(|k| k.to_vec()).collect(); gk.sort();
               let g = if !gk.is_empty() && r.chance(3, 4) { r.pick(&gk).clone() } else { r.bytes(28) };
               let mut dv: Vec<(Vec<u8>, Vec<u8>)> = s.cs.dstate.gen_delegs.values().map(|v| (v.0.to_vec(), v.1.to_vec())).collect(); dv.sort();
               let (d, v) = if !dv.is_empty() && r.chance(1, 3) { r.pick(&dv).clone() } else { (r.bytes(28), r.bytes(32)) };
               c_array(&[c_uint(5), c_bytes(&g), c_bytes(&d), c_bytes(&v)]) }
        _ => { let src = r.below(2);
               let tgt = if r.chance(1, 5) { c_uint(r.below(1_000_000)) } else {
                   let n = 1 + r.below(3); let mut kv = vec![];
                   for _ in 0..n { let (k, h) = pick_cred(s, r); let key = cred_cbor(k, &h); if kv.iter().any(|(kk, _): &(Vec<u8>, Vec<u8>)| *kk == key) { continue } kv.push((key, c_int(edge_delta(r)))) }
                   c_map(&kv) };
               c_array(&[c_uint(6), c_array(&[c_uint(src), tgt])]) }
    }
}
/// add (or replace / clear) certificates in the body
pub fn cert_inject(s: &mut Scen, r: &mut Rng) -> bool {
    if !shelley_ma(s) { return false }
    let mut l = s.get(4).and_then(|raw| arr_items(raw)).unwrap_or_default();
    match r.below(6) {
        0 if !l.is_empty() => { let k = r.below(l.len() as u64) as usize; l.remove(k); }
        1 => { let c = one_cert(s, r); l.insert(0, c) }
        2 => { let c = one_cert(s, r); let d = c.clone(); l.push(c); l.push(d) }       // the same certificate twice
        _ => { let n = 1 + r.below(2); for _ in 0..n { let c = one_cert(s, r); l.push(c) } }
    }
    if l.is_empty() { s.del(4) } else { s.put(4, c_array(&l)) }
    true
}
/// two stake registrations of fresh credentials in one transaction (the deposits are taken from the first output)
pub fn cert_two_registrations(s: &mut Scen, r: &mut Rng) -> bool {
    if !shelley_ma(s) { return false }
    let mut l = s.get(4).and_then(|raw| arr_items(raw)).unwrap_or_default();
    l.push(c_array(&[c_uint(0), cred_cbor(0, &r.bytes(28))])); l.push(c_array(&[c_uint(0), cred_cbor(0, &r.bytes(28))]));
    if r.chance(1, 2) { l.push(c_array(&[c_uint(0), cred_cbor(1, &r.bytes(28))])) }
    s.put(4, c_array(&l)); true
}
/// populate / edit the certificate state the transaction is validated against
pub fn cstate_edit(s: &mut Scen, r: &mut Rng) -> bool {
    if !shelley_ma(s) { return false }
    let (k, h) = pick_cred(s, r);
    let cred = if k == 1 { StakeCredential::ScriptHash(h.as_slice().into()) } else { StakeCredential::AddrKeyhash(h.as_slice().into()) };
    match r.below(8) {
        0 => { s.cs.dstate.rewards.insert(cred, *r.pick(&[0u64, 0, 1, 5_000_000])); }
        1 => { s.cs.dstate.rewards.remove(&cred); }
        2 => { let p = pick_pool(s, r); s.cs.pstate.pool_params.insert(p.as_slice().into(), dummy_pool_param()); }
        3 => { let g = r.bytes(28); s.cs.dstate.gen_delegs.insert(g.into(), (r.bytes(28).into(), r.bytes(32).as_slice().into())); }
        4 => { let v = edge_amount(r); if r.chance(1, 2) { s.cs.dstate.inst_rewards.0.insert(cred, v); } else { s.cs.dstate.inst_rewards.1.insert(cred, v); } }
        5 => { s.cs.dstate.ptrs.insert(CertPointer { slot: s.env.slot, tx_ix: 0, cert_ix: r.below(3) as u32 }, cred); }
        6 => { let mut gk: Vec<Vec<u8>> = s.cs.dstate.gen_delegs.keys().map(|k| k.to_vec()).collect(); gk.sort();
               let g = if gk.is_empty() { r.bytes(28) } else { r.pick(&gk).clone() };
               s.cs.dstate.fut_gen_delegs.insert((r.edge_u64(), g.into()), (r.bytes(28).into(), r.bytes(32).as_slice().into())); }
        _ => { s.cs = CertState::default(); }
    }
    true
}
pub fn acnt_edge(s: &mut Scen, r: &mut Rng) -> bool {
    if !shelley_ma(s) { return false }
    s.env.acnt = Some((edge_amount(r), edge_amount(r))); true
}
pub fn cert_pp_edge(s: &mut Scen, r: &mut Rng) -> bool {
    match &mut s.env.pp {
        pallas_validate::utils::MultiEraProtocolParameters::Shelley(p) => {
            if r.chance(1, 2) { p.maximum_epoch = *r.pick(&[0u64, 1, 18, u64::MAX, u64::MAX - 200, 1 << 63]) } else { p.min_pool_cost = *r.pick(&[0u64, 1, 340_000_000, 340_000_001, u64::MAX]) }
            true
        }
        _ => false,
    }
}
/// slots around epoch boundaries and the stability window (MIR deadline, retirement epochs)
pub fn cert_slot_edge(s: &mut Scen, r: &mut Rng) -> bool {
    if !shelley_ma(s) { return false }
    let e = 209 + r.below(300); let first = 4492800 + (e - 208) * 432000;
    s.env.slot = match r.below(9) {
        0 => first, 1 => first - 1, 2 => first - 129600, 3 => first - 129601, 4 => first - 129599,
        5 => u64::MAX, 6 => u64::MAX - 129600, 7 => u64::MAX - 432000 * r.below(3), _ => r.below(4492800),
    };
    // keep the ttl rule out of the way
    if let Some(ttl) = s.get(3).and_then(|v| as_u64(v)) { if ttl < s.env.slot { s.put(3, c_uint(u64::MAX)) } }
    true
}
/// targeted: a retirement of a registered pool with a huge maximum_epoch (`cepoch + emax`)
pub fn cert_retire_edge(s: &mut Scen, r: &mut Rng) -> bool {
    if !shelley_ma(s) { return false }
    let p = r.bytes(28); s.cs.pstate.pool_params.insert(p.as_slice().into(), dummy_pool_param());
    let e = edge_epoch(s, r);
    let mut l = s.get(4).and_then(|raw| arr_items(raw)).unwrap_or_default();
    l.push(c_array(&[c_uint(4), c_bytes(&p), c_uint(e)])); s.put(4, c_array(&l));
    if let pallas_validate::utils::MultiEraProtocolParameters::Shelley(pp) = &mut s.env.pp { pp.maximum_epoch = *r.pick(&[18u64, 0, u64::MAX, u64::MAX - 300, 1 << 63]) }
    true
}
/// targeted: a genesis key delegation of a known genesis key at a slot near u64::MAX (`slot + stab_win`)
pub fn cert_gendeleg_edge(s: &mut Scen, r: &mut Rng) -> bool {
    if !shelley_ma(s) { return false }
    let g = r.bytes(28); s.cs.dstate.gen_delegs.insert(g.clone().into(), (r.bytes(28).into(), r.bytes(32).as_slice().into()));
    let mut l = s.get(4).and_then(|raw| arr_items(raw)).unwrap_or_default();
    l.push(c_array(&[c_uint(5), c_bytes(&g), c_bytes(&r.bytes(28)), c_bytes(&r.bytes(32))])); s.put(4, c_array(&l));
    if r.chance(2, 3) { s.env.slot = u64::MAX - r.below(200_000); s.put(3, c_uint(u64::MAX)); }
    true
}
