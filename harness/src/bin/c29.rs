//! C29: the initiator and responder behaviours never panic on peer-driven input.
//! Random histories (<= 300 events) over several peers: arbitrary, including protocol-violating,
//! messages of all eight mini-protocols, connection errors, disconnects and (re)connects in any
//! order, commands interleaved.  Every call goes through catch_unwind; the oracle is "no call
//! panicked".  case := CInit cfg steps | CResp rcfg steps   (see coq/theories/C29/Run.v)
#[path = "p2p_common/mod.rs"]
mod p2p;
use p2p::*;
use p2p::Out;
use verif_harness::*;

fn panic_key(side: &str, msg: &str) -> String {
    let m: String = msg.chars().filter(|c| c.is_ascii_alphanumeric() || *c == ' ' || *c == '_').take(48).collect();
    format!("panic:{}:{}", side, m.trim().replace(' ', "-"))
}

fn run_init<F: FnMut(&mut InitDriver, usize) -> Option<Ev>>(cfg: PCfg, mut next: F, snap_every: usize, tag: &str, to_model: bool) {
    let mut d = InitDriver::new(cfg);
    let mut recs: Vec<String> = vec![];
    let mut hist: Vec<String> = vec![];
    let mut i = 0usize;
    while let Some(ev) = next(&mut d, i) {
        i += 1;
        hist.push(ev.short());
        let o = d.step(ev);
        if let Some(msg) = &o.panic {
            emit_oracle_fail(&panic_key("initiator", msg), &format!("cfg={:?} history=[{}] the last call panicked: {}", cfg, hist.join("; "), msg));
            if to_model { recs.push(format!("({},[],([],[],[],[]),None,true)", o.ev.coq(&o.order, &o.dorder))); }
            break;
        }
        if to_model {
            let snap = init_snapshot(&d.b);
            let with_snap = snap_every > 0 && i % snap_every == 0;
            recs.push(format!("({},{},{},{},false)", o.ev.coq(&o.order, &o.dorder), coq_outs(&o.outs), snap.coq_sets(),
                if with_snap { format!("(Some {})", snap.coq_peers()) } else { "None".into() }));
        }
    }
    if to_model { emit_case(tag, &format!("(CInit {} [{}])", cfg.coq(), recs.join(";"))); }
}

fn run_resp<F: FnMut(&mut RespDriver, usize) -> Option<REv>>(cfg: &RCfg, mut next: F, snap_every: usize, tag: &str, to_model: bool) {
    let mut d = RespDriver::new(cfg);
    let mut recs: Vec<String> = vec![];
    let mut hist: Vec<String> = vec![];
    let mut i = 0usize;
    while let Some(ev) = next(&mut d, i) {
        i += 1;
        hist.push(ev.short());
        let o = d.step(ev);
        if let Some(msg) = &o.panic {
            emit_oracle_fail(&panic_key("responder", msg), &format!("cfg={:?} history=[{}] the last call panicked: {}", cfg, hist.join("; "), msg));
            if to_model { recs.push(format!("({},[],None,true)", o.ev.coq(&o.order))); }
            break;
        }
        if to_model {
            let with_snap = snap_every > 0 && i % snap_every == 0;
            recs.push(format!("({},{},{},false)", o.ev.coq(&o.order), coq_outs(&o.outs),
                if with_snap { format!("(Some {})", coq_snap(&d.snapshot())) } else { "None".into() }));
        }
    }
    if to_model { emit_case(tag, &format!("(CResp {} [{}])", cfg.coq(), recs.join(";"))); }
}

const M: i64 = 764824073;

/// chaos generator for the initiator: half plausible (adaptive), half arbitrary interface events
fn chaos_init(rng: &mut Rng, d: &InitDriver, npeers: i64) -> Ev {
    if rng.chance(1, 2) { return gen_init_event(rng, d, npeers); }
    let p = 1 + rng.below(npeers as u64) as i64;
    match rng.below(10) {
        0 | 1 => Ev::Connected(p),
        2 => Ev::Disconnected(p),
        3 => Ev::Error(p),
        4 | 5 | 6 => { let n = 1 + rng.below(4); Ev::Recv(p, (0..n).map(|_| any_msg(rng, npeers)).collect()) }
        7 | 8 => Ev::Sent(p, any_msg(rng, npeers)),
        _ => Ev::Include(p),
    }
}

fn main() {
    let args = args();
    let mut rng = Rng::new(args.seed);
    let to_model = !args.oracle_only;

    // ---- corpus / directed histories
    let directed: Vec<Vec<Ev>> = vec![
        // a second Connected after the handshake has progressed
        vec![Ev::Include(1), Ev::Hk(false), Ev::Connected(1), Ev::Sent(1, Msg::HsPropose(vec![(13, M)])), Ev::Connected(1)],
        vec![Ev::Include(1), Ev::Connected(1), Ev::Recv(1, vec![Msg::HsPropose(vec![(13, M)])]), Ev::Connected(1)],
        vec![Ev::Include(1), Ev::Hk(false), Ev::Connected(1), Ev::Sent(1, Msg::HsPropose(vec![(13, M)])), Ev::Recv(1, vec![Msg::HsAccept(13, 1)]), Ev::Hk(false), Ev::Connected(1), Ev::Hk(false)],
        // limits at zero, everything at once
        vec![Ev::Include(1), Ev::Include(2), Ev::Hk(false), Ev::Include(1), Ev::Ban(1), Ev::Hk(true), Ev::Error(1), Ev::Error(1), Ev::Hk(false), Ev::Disconnected(1), Ev::Include(1), Ev::Hk(false)],
        // leios fetch queue: request, purge, request
        vec![Ev::Include(1), Ev::Hk(false), Ev::Connected(1), Ev::Sent(1, Msg::HsPropose(vec![(13, M)])), Ev::Recv(1, vec![Msg::HsAccept(15, 1)]),
             Ev::FetchEb(2, 1), Ev::FetchEb(1, 2), Ev::FetchEbTxs(1, 3), Ev::Hk(false), Ev::Error(1), Ev::Hk(false)],
        // leios fetch: a single queued request (index 0 is the last element), then a second round
        vec![Ev::Include(1), Ev::Hk(false), Ev::Connected(1), Ev::Sent(1, Msg::HsPropose(vec![(13, M)])), Ev::Recv(1, vec![Msg::HsAccept(15, 1)]),
             Ev::FetchEb(1, 2), Ev::Hk(false), Ev::Sent(1, Msg::LfBlockRequest(2)), Ev::Recv(1, vec![Msg::LfBlock(5)]), Ev::FetchEbTxs(1, 3), Ev::FetchEb(2, 4), Ev::Hk(true)],
        // block fetch and chain sync queues with a peer that errors in between
        vec![Ev::StartSync(1), Ev::RequestBlocks(2), Ev::Include(1), Ev::Hk(false), Ev::Connected(1), Ev::Sent(1, Msg::HsPropose(vec![(13, M)])), Ev::Recv(1, vec![Msg::HsAccept(13, 1)]),
             Ev::Hk(false), Ev::Hk(false), Ev::Sent(1, Msg::BfRequestRange(2)), Ev::Recv(1, vec![Msg::BfStartBatch, Msg::BfBlock(1), Msg::PsPeers(vec![4, 5, 6])]), Ev::Error(1), Ev::ContinueSync(1), Ev::Hk(false), Ev::Disconnected(1), Ev::Hk(false)],
    ];
    for seq in &directed {
        for cfg in [PCfg { max_peers: 3, max_warm: 2, max_hot: 1, max_err: 1 }, PCfg { max_peers: 0, max_warm: 0, max_hot: 0, max_err: 0 }, PCfg { max_peers: 100, max_warm: 50, max_hot: 10, max_err: 1 }] {
            let mut it = seq.clone().into_iter();
            run_init(cfg, |_, _| it.next(), 1, "directed-initiator", to_model);
        }
    }
    let rdirected: Vec<Vec<REv>> = vec![
        vec![REv::Connected(1), REv::Recv(1, vec![Msg::HsPropose(vec![(13, M)])]), REv::Sent(1, Msg::HsAccept(13, 1)), REv::Recv(1, vec![Msg::KaKeepAlive(7)]), REv::Hk(false), REv::Error(1), REv::Error(1), REv::Hk(true), REv::Disconnected(1), REv::Disconnected(1)],
        vec![REv::Connected(1), REv::Recv(1, vec![Msg::HsPropose(vec![(7, 1), (14, 5)])]), REv::Recv(1, vec![Msg::HsPropose(vec![])]), REv::Hk(false), REv::Connected(1)],
        (0..14).map(|i| REv::Connected(i)).chain((0..14).map(|i| REv::Disconnected(i))).chain((0..3).map(|i| REv::Disconnected(i))).collect(),
        vec![REv::Disconnected(5), REv::Error(5), REv::Sent(5, Msg::TxInit), REv::Ban(5), REv::Connected(5), REv::Hk(false)],
    ];
    for seq in &rdirected {
        for cfg in [RCfg { max_err: 1, max_ip: 10, vers: vec![(13, M)] }, RCfg { max_err: 0, max_ip: 1, vers: vec![(13, M), (15, M)] }, RCfg { max_err: 1, max_ip: 0, vers: vec![] }] {
            let mut it = seq.clone().into_iter();
            run_resp(&cfg, |_, _| it.next(), 1, "directed-responder", to_model);
        }
    }

    // ---- adversarial payloads (oracle-only: the model abstracts payloads away), generated in every run
    {
        let mut r3 = Rng::new(args.seed ^ 0x5EED_DA7A);
        p2p::raw::raw_directed(&mut r3);
        let nraw = if args.tier == "thorough" { 4000 } else { 400 };
        for k in 0..nraw {
            let mut rr = Rng::new(r3.next());
            if k % 2 == 0 { p2p::raw::raw_responder(&mut rr, format!("raw-responder #{} seed={} tier={}", k, args.seed, args.tier), 150); }
            else { p2p::raw::raw_initiator(&mut rr, format!("raw-initiator #{} seed={} tier={}", k, args.seed, args.tier), 150); }
        }
        emit_stat("raw_payload_histories_oracle", nraw as u64 + 15);
    }
    // ---- random histories
    for i in 0..args.n {
        let mut r2 = Rng::new(rng.next());
        if i % 2 == 0 {
            let npeers = *rng.pick(&[2i64, 3, 5, 8]);
            let len = *rng.pick(&[40usize, 120, 300]);
            let cfg = match rng.below(4) {
                0 => PCfg { max_peers: 100, max_warm: 50, max_hot: 10, max_err: 1 },
                1 => PCfg { max_peers: rng.range(0, 4) as usize, max_warm: rng.range(0, 2) as usize, max_hot: rng.range(0, 1) as usize, max_err: 0 },
                _ => PCfg { max_peers: rng.range(1, 8) as usize, max_warm: rng.range(1, 5) as usize, max_hot: rng.range(1, 3) as usize, max_err: rng.below(3) as u32 },
            };
            if i < 4 { emit_sample(&format!("initiator cfg={:?} npeers={} len={}", cfg, npeers, len)); }
            let snap_every = if len <= 40 { 1 } else { 30 };
            run_init(cfg, |d, k| if k >= len { None } else { Some(chaos_init(&mut r2, d, npeers)) }, snap_every, &format!("random-initiator-{}", len), to_model);
        } else {
            let npeers = *rng.pick(&[3i64, 20, 40]);
            let len = *rng.pick(&[40usize, 120, 300]);
            let cfg = match rng.below(3) {
                0 => RCfg { max_err: 1, max_ip: 10, vers: vec![(13, M)] },
                1 => RCfg { max_err: rng.below(3) as u32, max_ip: rng.range(0, 3) as usize, vers: vec![(13, M), (15, M)] },
                _ => RCfg { max_err: 0, max_ip: 12, vers: vec![(11, 2), (13, M), (14, M)] },
            };
            if i < 4 { emit_sample(&format!("responder cfg={:?} npeers={} len={}", cfg, npeers, len)); }
            let snap_every = if len <= 40 { 1 } else { 30 };
            run_resp(&cfg, |d, k| if k >= len { None } else { Some(gen_resp_event(&mut r2, d, npeers)) }, snap_every, &format!("random-responder-{}", len), to_model);
        }
    }
}
