//! C17: FixedDecimal operators, rounding, comparison, printing, parsing.
//! Cases are constructors of `case` in coq/theories/C17/Run.v.  The oracle uses
//! its own big integers (fixed_common/big.rs), not dashu and not the model.
use pallas_math::math::{FixedDecimal, FixedPrecision};
use std::cmp::Ordering;
use verif_harness::*;
#[path = "fixed_common/big.rs"]
mod big;
use big::Big;

const PRECS: [u64; 8] = [0, 1, 2, 3, 18, 34, 35, 40];

fn mk(ds: &str, p: u64) -> FixedDecimal { FixedDecimal::from_str(ds, p).expect("valid data string") }

/// normalised decimal string of an integer: no leading zeros, no "-0"
fn norm(s: &str) -> String { Big::parse(s).expect("digits").to_string() }

/// what the exact decimal expansion of data / 10^p looks like (independent of the crate)
fn expected_display(ds: &str, p: u64) -> String {
    let ds = norm(ds);
    let (neg, digits) = match ds.strip_prefix('-') { Some(r) => (true, r.to_string()), None => (false, ds.clone()) };
    let p = p as usize;
    let mut d = digits;
    while d.len() < p + 1 { d.insert(0, '0'); }
    let (i, f) = d.split_at(d.len() - p);
    format!("{}{}.{}", if neg { "-" } else { "" }, i, if p == 0 { "0" } else { f })
}

/// read `data` back from the printed form ("[-]I.F" with |F| = precision, "I.0" at precision 0)
fn data_of(d: &FixedDecimal, ctx: &str) -> Option<String> {
    let s = d.to_string();
    let p = d.precision() as usize;
    let (neg, body) = match s.strip_prefix('-') { Some(r) => (true, r), None => (false, s.as_str()) };
    let parts: Vec<&str> = body.split('.').collect();
    let ok = parts.len() == 2 && !parts[0].is_empty() && parts[0].bytes().all(|c| c.is_ascii_digit())
        && parts[1].bytes().all(|c| c.is_ascii_digit())
        && (if p == 0 { parts[1] == "0" } else { parts[1].len() == p });
    if !ok {
        emit_oracle_fail("display-shape", &format!("{}: printed form {:?} at precision {} is not [-]I.F with {} fractional digits", ctx, s, p, p));
        return None;
    }
    let ds = format!("{}{}{}", if neg { "-" } else { "" }, parts[0], if p == 0 { "" } else { parts[1] });
    let ds = norm(&ds);
    // parse/print round trip through the crate's own equality
    match guard_total(|| mk(&ds, p as u64) == *d) {
        Out::Ok(true) => {}
        _ => emit_oracle_fail("display-parse-roundtrip", &format!("{}: from_str({:?},{}) != value printed as {:?}", ctx, ds, p, s)),
    }
    Some(ds)
}

fn rand_digits(rng: &mut Rng, n: usize) -> String {
    let mut s = String::new();
    for i in 0..n { let d = if i == 0 { 1 + rng.below(9) } else { rng.below(10) }; s.push((b'0' + d as u8) as char); }
    s
}

/// a data value at precision p: zero, small (|x| < 1), integral, half-way, half-way +-1, near-integral, random
fn gen_data(rng: &mut Rng, p: u64) -> (String, &'static str) {
    let pu = p as usize;
    let m = Big::pow10(pu);
    let (mag, tag): (Big, &'static str) = match rng.below(12) {
        0 => (Big::zero(), "zero"),
        1 => { let n = if pu == 0 { 1 } else { rng.range(1, pu as u64) as usize }; (Big::parse(&rand_digits(rng, n)).unwrap(), "small") }
        2 => { let kd = rng.range(1, 25) as usize; (Big::parse(&rand_digits(rng, kd)).unwrap().mul(&m), "integral") }
        3 | 4 => {
            let kd = rng.range(0, 20) as usize;
            let kk = if kd == 0 { Big::zero() } else { Big::parse(&rand_digits(rng, kd)).unwrap() };
            let half = if pu == 0 { Big::zero() } else { Big::pow10(pu - 1).mul_small(5) };
            (kk.mul(&m).add(&half), "half-way")
        }
        5 => {
            let kd = rng.range(0, 20) as usize;
            let kk = if kd == 0 { Big::zero() } else { Big::parse(&rand_digits(rng, kd)).unwrap() };
            let half = if pu == 0 { Big::zero() } else { Big::pow10(pu - 1).mul_small(5) };
            let v = kk.mul(&m).add(&half);
            let v = if rng.bool() { v.add(&Big::from_u64(1)) } else { v.sub(&Big::from_u64(1)) };
            (v.abs(), "half-way+-1")
        }
        6 => {
            let kd = rng.range(1, 20) as usize;
            let v = Big::parse(&rand_digits(rng, kd)).unwrap().mul(&m);
            let v = if rng.bool() { v.add(&Big::from_u64(1)) } else { v.sub(&Big::from_u64(1)) };
            (v.abs(), "near-integral")
        }
        _ => { let n = rng.range(1, pu as u64 + 30) as usize; (Big::parse(&rand_digits(rng, n)).unwrap(), "random") }
    };
    let v = if rng.bool() { mag.neg() } else { mag };
    (v.to_string(), tag)
}

/// operand for arithmetic at precision 34, magnitudes 1e-34 .. 1e12
fn gen_operand(rng: &mut Rng) -> String {
    match rng.below(8) {
        0 => gen_data(rng, 34).0,
        1 => { let k = rng.range(0, 1000) as i128 - 500; Big::from_i128(k).mul(&Big::pow10(34)).to_string() }
        2 => { let k = rng.range(0, 2000) as i128 - 1000; Big::from_i128(k).mul(&Big::pow10(17)).to_string() }
        3 => { let k = rng.range(0, 6) as i128 - 3; k.to_string() }
        _ => {
            let n = rng.range(1, 46) as usize;
            let v = Big::parse(&rand_digits(rng, n)).unwrap();
            (if rng.bool() { v.neg() } else { v }).to_string()
        }
    }
}

fn out_data(o: Out<FixedDecimal>, ctx: &str) -> Out<String> {
    match o {
        Out::Ok(d) => match data_of(&d, ctx) { Some(s) => Out::Ok(s), None => Out::Err("shape".into()) },
        Out::Err(e) => Out::Err(e),
        Out::Panic(p) => Out::Panic(p),
    }
}
fn coq_outcome(o: &Out<String>) -> String {
    match o { Out::Ok(s) => format!("(Ok {})", coq_z(s)), Out::Err(_) => "(Err 1)".into(), Out::Panic(_) => "(Panic 1)".into() }
}
fn same(a: &Out<String>, b: &Out<String>) -> bool {
    match (a, b) { (Out::Ok(x), Out::Ok(y)) => x == y, (Out::Panic(_), Out::Panic(_)) => true, (Out::Err(_), Out::Err(_)) => true, _ => false }
}

fn arith_case(op: u64, a: &str, b: &str, tag: &str, oracle_only: bool) {
    let names = ["add", "sub", "mul", "div", "neg"];
    let name = names[op as usize];
    let ctx = format!("{} a={} b={} (precision 34)", name, a, b);
    let (x, y) = (mk(a, 34), mk(b, 34));
    // by reference, by value, and the two assign forms must all agree
    let by_ref = out_data(guard_total(|| match op { 0 => &x + &y, 1 => &x - &y, 2 => &x * &y, 3 => &x / &y, _ => -&x }), &ctx);
    let by_val = out_data(guard_total(|| { let (x, y) = (x.clone(), y.clone()); match op { 0 => x + y, 1 => x - y, 2 => x * y, 3 => x / y, _ => -x } }), &ctx);
    let assign = out_data(guard_total(|| { let mut r = x.clone(); let y = y.clone(); match op { 0 => r += y, 1 => r -= y, 2 => r *= y, 3 => r /= y, _ => { r = -r; } } r }), &ctx);
    let assign_ref = out_data(guard_total(|| { let mut v = x.clone(); { let mut r = &mut v; match op { 0 => r += &y, 1 => r -= &y, 2 => r *= &y, 3 => r /= &y, _ => {} } } if op == 4 { v = -v; } v }), &ctx);
    if !(same(&by_ref, &by_val) && same(&by_ref, &assign) && same(&by_ref, &assign_ref)) {
        emit_oracle_fail(&format!("{}-variants", name), &format!("{}: &a op &b = {}, a op b = {}, a op= b = {}, &mut a op= &b = {}", ctx,
            coq_outcome(&by_ref), coq_outcome(&by_val), coq_outcome(&assign), coq_outcome(&assign_ref)));
    }
    // oracle on exact integers
    let (ba, bb) = (Big::parse(a).unwrap(), Big::parse(b).unwrap());
    let s = Big::pow10(34);
    let one = Big::from_u64(1);
    match &by_ref {
        Out::Ok(rs) => {
            let r = Big::parse(rs).unwrap();
            let ok = match op {
                0 => r == ba.add(&bb),
                1 => r == ba.sub(&bb),
                2 => { let pr = ba.mul(&bb); r.mul(&s).le(&pr) && pr.lt(&r.add(&one).mul(&s)) }
                3 => {
                    if bb.is_zero() { false } else {
                        let lhs = ba.abs().mul(&s);
                        let mag_ok = r.abs().mul(&bb.abs()).le(&lhs) && lhs.lt(&r.abs().add(&one).mul(&bb.abs()));
                        let sign_ok = r.is_zero() || (r.is_neg() == (ba.is_neg() != bb.is_neg()));
                        mag_ok && sign_ok
                    }
                }
                _ => r == ba.neg(),
            };
            if !ok { emit_oracle_fail(name, &format!("{}: result data {} is not the exact {}", ctx, rs,
                ["sum", "difference", "floor of the product", "truncated quotient", "negation"][op as usize])); }
        }
        Out::Panic(msg) => {
            if !(op == 3 && bb.is_zero()) { emit_oracle_fail(&format!("{}-panic", name), &format!("{}: panicked: {}", ctx, msg)); }
        }
        Out::Err(_) => {}
    }
    if !oracle_only {
        emit_case(tag, &format!("CArith {} {} {} {}", op, coq_z(a), coq_z(b), coq_outcome(&by_ref)));
    }
}

fn round_case(op: u64, p: u64, ds: &str, tag: &str, oracle_only: bool) {
    let names = ["round", "floor", "ceil", "trunc"];
    let name = names[op as usize];
    let ctx = format!("{} precision={} data={} ({})", name, p, ds, expected_display(ds, p));
    let x = mk(ds, p);
    let r = out_data(guard_total(|| match op { 0 => x.round(), 1 => x.floor(), 2 => x.ceil(), _ => x.trunc() }), &ctx);
    let key = if p == 0 { format!("{}-precision0", name) } else { name.to_string() };
    match &r {
        Out::Ok(rs) => {
            let (d, r) = (Big::parse(ds).unwrap(), Big::parse(rs).unwrap());
            let m = Big::pow10(p as usize);
            let integral = r.divrem(&m).1.is_zero();
            let ok = integral && match op {
                0 => { let dist2 = r.sub(&d).abs().mul_small(2); dist2.le(&m) && (dist2 != m || d.abs().lt(&r.abs())) }
                1 => r.le(&d) && d.lt(&r.add(&m)),
                2 => d.le(&r) && r.sub(&m).lt(&d),
                _ => r.abs().le(&d.abs()) && d.abs().lt(&r.abs().add(&m)) && (r.is_zero() || r.is_neg() == d.is_neg()),
            };
            if !ok { emit_oracle_fail(&key, &format!("{}: returned data {} ({}) which is not the {} of the value", ctx, rs, expected_display(rs, p),
                ["nearest integer (ties away from zero)", "largest integer <= x", "smallest integer >= x", "integer part toward zero"][op as usize])); }
            if !oracle_only { emit_case(tag, &format!("CRound {} {} {} {}", op, p, coq_z(ds), coq_z(rs))); }
        }
        Out::Panic(msg) => emit_oracle_fail(&format!("{}-panic", key), &format!("{}: panicked: {}", ctx, msg)),
        Out::Err(_) => {}
    }
}

fn cmp_case(p1: u64, d1: &str, p2: u64, d2: &str, tag: &str, oracle_only: bool) {
    let (x, y) = (mk(d1, p1), mk(d2, p2));
    let pc = x.partial_cmp(&y);
    let eq = x == y;
    let code = match pc { Some(Ordering::Less) => -1, Some(Ordering::Equal) => 0, Some(Ordering::Greater) => 1, None => 2 };
    if p1 == p2 {
        let want = Big::parse(d1).unwrap().cmp(&Big::parse(d2).unwrap());
        let ops_ok = (x < y) == (want == Ordering::Less) && (x <= y) == (want != Ordering::Greater)
            && (x > y) == (want == Ordering::Greater) && (x >= y) == (want != Ordering::Less) && (x != y) == (want != Ordering::Equal);
        if pc != Some(want) || eq != (want == Ordering::Equal) || !ops_ok {
            emit_oracle_fail("cmp", &format!("precision={} a={} b={}: partial_cmp={:?} eq={} exact order={:?}", p1, d1, d2, pc, eq, want));
        }
    }
    if !oracle_only {
        emit_case(tag, &format!("CCmp {} {} {} {} {} {}", p1, coq_z(d1), p2, coq_z(d2), coq_z(code), coq_bool(eq)));
    }
}

fn display_case(p: u64, ds: &str, tag: &str, oracle_only: bool) {
    let x = mk(ds, p);
    match guard_total(|| x.to_string()) {
        Out::Ok(s) => {
            let want = expected_display(ds, p);
            if s != want { emit_oracle_fail("display", &format!("precision={} data={}: printed {:?}, exact decimal expansion is {:?}", p, ds, s, want)); }
            if !oracle_only { emit_case(tag, &format!("CDisplay {} {} {}", p, coq_z(ds), coq_bytes(s.as_bytes()))); }
        }
        Out::Panic(msg) => emit_oracle_fail("display-panic", &format!("precision={} data={}: panicked: {}", p, ds, msg)),
        Out::Err(_) => {}
    }
}

fn from_str_case(s: &str, p: u64, tag: &str, oracle_only: bool) {
    assert!(s.is_ascii());
    let ctx = format!("from_str({:?}, {})", s, p);
    let r = guard(|| FixedDecimal::from_str(s, p).map_err(|e| e.to_string()));
    let r = out_data(r, &ctx);
    let valid = Big::parse(s);
    match (&r, &valid) {
        (Out::Ok(ds), Some(v)) => { if *ds != v.to_string() { emit_oracle_fail("from_str", &format!("{}: data {} expected {}", ctx, ds, v.to_string())); } }
        (Out::Err(_), None) => {}
        (Out::Ok(ds), None) => emit_oracle_fail("from_str-accepts", &format!("{}: accepted as {} but is not -?[0-9]+", ctx, ds)),
        (Out::Err(_), Some(_)) => emit_oracle_fail("from_str-rejects", &format!("{}: rejected a valid integer string", ctx)),
        (Out::Panic(m), _) => emit_oracle_fail("from_str-panic", &format!("{}: panicked: {}", ctx, m)),
    }
    if !oracle_only { emit_case(tag, &format!("CFromStr {} {}", coq_bytes(s.as_bytes()), coq_outcome(&r))); }
}

fn from_int_case(n: i128, tag: &str, oracle_only: bool) {
    let r = if n < 0 || (n <= i64::MAX as i128 && n % 2 == 0) { guard_total(|| FixedDecimal::from(n as i64)) } else { guard_total(|| FixedDecimal::from(n as u64)) };
    let ctx = format!("FixedDecimal::from({})", n);
    match out_data(r, &ctx) {
        Out::Ok(ds) => {
            let want = Big::from_i128(n).mul(&Big::pow10(34)).to_string();
            if ds != want { emit_oracle_fail("from-int", &format!("{}: data {} expected {}", ctx, ds, want)); }
            if !oracle_only { emit_case(tag, &format!("CFromInt {} {}", coq_z(n), coq_z(&ds))); }
        }
        Out::Panic(m) => emit_oracle_fail("from-int-panic", &format!("{}: panicked: {}", ctx, m)),
        Out::Err(_) => {}
    }
}

fn main() {
    let args = args();
    let mut rng = Rng::new(args.seed);
    let oo = args.oracle_only;
    let s34 = Big::pow10(34).to_string();

    // ---- deterministic sweep (every run): every precision 0..=40, fractional parts at the rounding
    // boundaries and at the machine-word boundaries (2^31, 2^32, 2^63, 2^64, 2^127, 2^128 and +-1),
    // integer parts {0, 1, large}, both signs ----
    let thorough = args.tier == "thorough";
    let one = Big::from_u64(1);
    let words: Vec<Big> = ["2147483648", "4294967296", "9223372036854775808", "18446744073709551616",
        "170141183460469231731687303715884105728", "340282366920938463463374607431768211456"].iter().map(|w| Big::parse(w).unwrap()).collect();
    let large_int = Big::parse("12345678901234567890123").unwrap();
    let mut sweep_i = 0u64;
    for p in 0u64..=40 {
        let m = Big::pow10(p as usize);
        let half = if p == 0 { Big::zero() } else { Big::pow10(p as usize - 1).mul_small(5) };
        let mut fr: Vec<Big> = vec![Big::zero(), one.clone(), m.divrem_small(4).0, half.sub(&one), half.clone(), half.add(&one), m.sub(&one)];
        for w in &words { fr.push(w.sub(&one)); fr.push(w.clone()); fr.push(w.add(&one)); }
        fr.push(words[0].clone().sub(&Big::from_u64(2))); // 2^31 - 2
        let mut fracs: Vec<Big> = Vec::new();
        for f in fr { if !f.is_neg() && f.lt(&m) && !fracs.contains(&f) { fracs.push(f); } }
        for f in &fracs {
            for (ii, ip) in [Big::zero(), one.clone(), large_int.clone()].iter().enumerate() {
                for sign in [false, true] {
                    let v = ip.mul(&m).add(f);
                    let v = if sign { v.neg() } else { v };
                    let ds = v.to_string();
                    sweep_i += 1;
                    // round on every value; floor/ceil/trunc, Display and comparison on a rotating third (all in thorough)
                    round_case(0, p, &ds, "sweep-round", oo);
                    if thorough || (sweep_i % 3) as usize == ii {
                        for op in 1..4 { if thorough || op == 1 + sweep_i % 3 { round_case(op, p, &ds, "sweep-floor-ceil-trunc", oo); } }
                        display_case(p, &ds, "sweep-display", oo);
                        let nb = v.add(&Big::from_i128(if sweep_i % 2 == 0 { 1 } else { -1 })).to_string();
                        cmp_case(p, &ds, p, &nb, "sweep-cmp-adjacent", oo);
                    }
                }
            }
        }
        // raw data values at the machine-word boundaries, whatever the precision
        for (wi, w) in words.iter().enumerate() {
            for d in [-1i128, 0, 1] {
                for sign in [false, true] {
                    if !thorough && sign != ((p + wi as u64 + (d + 1) as u64) % 2 == 0) { continue; }
                    let v = w.add(&Big::from_i128(d));
                    let v = if sign { v.neg() } else { v };
                    let ds = v.to_string();
                    sweep_i += 1;
                    let op = if thorough { 4 } else { (sweep_i + wi as u64) % 4 };
                    for o in 0..4 { if op == 4 || op == o { round_case(o, p, &ds, "sweep-word-data", oo); } }
                    if thorough || sweep_i % 4 == 0 { display_case(p, &ds, "sweep-word-data-display", oo); }
                }
            }
        }
    }
    // ---- mul / div operands whose raw values sit at the i32/u32/i64/u64/i128/u128 boundaries, and tiny
    // operands of opposite sign (products that floor to -1, quotients that truncate to 0) ----
    let mut bvals: Vec<Big> = vec![one.clone(), Big::from_u64(3), Big::parse("5000000000000000").unwrap(), Big::pow10(17), Big::pow10(33),
        Big::pow10(34).sub(&one), Big::pow10(34)];
    for w in &words { bvals.push(w.sub(&one)); bvals.push(w.clone()); bvals.push(w.add(&one)); }
    let mut k = 0u64;
    for a in &bvals {
        for b in &bvals {
            for (sa, sb) in [(false, false), (true, false), (false, true), (true, true)] {
                k += 1;
                // every opposite-sign pair and a rotating half of the same-sign pairs (all in thorough)
                if !(thorough || sa != sb || k % 4 == 0) { continue; }
                let (x, y) = (if sa { a.neg() } else { a.clone() }, if sb { b.neg() } else { b.clone() });
                arith_case(2, &x.to_string(), &y.to_string(), "word-boundary-mul", oo);
                if thorough || k % 2 == 1 { arith_case(3, &x.to_string(), &y.to_string(), "word-boundary-div", oo); }
            }
        }
    }
    for (a, b) in [("-3", "5000000000000000"), ("3", "-5000000000000000"), ("-1", "1"), ("1", "-9223372036854775807"), ("-9223372036854775808", "1"),
                   ("-9223372036854775808", "9223372036854775807"), ("9223372036854775807", "-9223372036854775807"), ("-7", "1000000000000000000000000000000000"),
                   ("-1", "9999999999999999999999999999999999"), ("-1", "10000000000000000000000000000000000"), ("-1", "10000000000000000000000000000000001")] {
        arith_case(2, a, b, "tiny-opposite-sign-mul", oo);
        arith_case(2, b, a, "tiny-opposite-sign-mul", oo);
        arith_case(3, a, b, "tiny-opposite-sign-div", oo);
        arith_case(3, b, a, "tiny-opposite-sign-div", oo);
    }
    for (a, b) in [("0", "0"), ("1", "1"), ("-1", "1"), ("1", "-1"), ("-1", "-1"), (s34.as_str(), "3"), (s34.as_str(), "-3"),
                   ("-7", s34.as_str()), ("5", "0"), ("0", "0"), ("-5", "0"), ("99999999999999999", "100000000000000000"),
                   ("-99999999999999999", "100000000000000000"), ("100000000000000000", "100000000000000000")] {
        for op in 0..5 { arith_case(op, a, b, "boundary-arith", oo); }
    }
    for n in [0i128, 1, -1, 2, i64::MAX as i128, i64::MIN as i128, i64::MAX as i128 + 1, u64::MAX as i128, 10, -10] {
        from_int_case(n, "from-int", oo);
    }
    for s in ["", "-", "+1", "1.0", "1e5", " 1", "1 ", "--1", "1-", "a", "1_000", "0x10", "-0", "0", "007", "-007", "1\n", "\n1", "/", ":", "1/", "1:", "-/", "9", "-9",
              "123456789012345678901234567890123456789012345678901234567890"] {
        from_str_case(s, *rng.pick(&PRECS), "from_str-fixed", oo);
    }

    // ---- random stream ----
    for i in 0..args.n {
        match rng.below(10) {
            0..=3 => {
                // arithmetic at the default precision
                let op = rng.below(5);
                let a = gen_operand(&mut rng);
                let mut b = gen_operand(&mut rng);
                let mut tag = ["add", "sub", "mul", "div", "neg"][op as usize].to_string();
                if op == 3 {
                    match rng.below(8) {
                        0 => { b = "0".into(); tag = "div-by-zero".into(); }
                        1 => { // exact quotient: a = b * k / 10^34 is not needed; make a a multiple of b
                            let k = rng.range(0, 2000) as i128 - 1000;
                            let bb = Big::parse(&b).unwrap();
                            let aa = bb.mul(&Big::from_i128(k));
                            arith_case(3, &aa.to_string(), &b, "div-exact", oo);
                            continue;
                        }
                        _ => {}
                    }
                }
                if i < 3 { emit_sample(&format!("{} a={} b={}", tag, a, b)); }
                arith_case(op, &a, &b, &tag, oo);
            }
            4..=6 => {
                let p = if rng.chance(1, 6) { rng.range(0, 50) } else { *rng.pick(&PRECS) };
                let (ds, shape) = gen_data(&mut rng, p);
                let op = rng.below(4);
                let tag = format!("{}-{}", ["round", "floor", "ceil", "trunc"][op as usize], shape);
                round_case(op, p, &ds, &tag, oo);
            }
            7 => {
                let p = *rng.pick(&PRECS);
                let (d1, _) = gen_data(&mut rng, p);
                match rng.below(5) {
                    0 => cmp_case(p, &d1, p, &d1, "cmp-equal", oo),
                    1 => { let d2 = Big::parse(&d1).unwrap().add(&Big::from_i128(if rng.bool() { 1 } else { -1 })).to_string(); cmp_case(p, &d1, p, &d2, "cmp-adjacent", oo) }
                    2 => { let d2 = Big::parse(&d1).unwrap().neg().to_string(); cmp_case(p, &d1, p, &d2, "cmp-negated", oo) }
                    3 => { let p2 = *rng.pick(&PRECS); let (d2, _) = gen_data(&mut rng, p2); cmp_case(p, &d1, p2, &d2, if p == p2 { "cmp-random" } else { "cmp-cross-precision" }, oo) }
                    _ => { let (d2, _) = gen_data(&mut rng, p); cmp_case(p, &d1, p, &d2, "cmp-random", oo) }
                }
            }
            8 => {
                let p = if rng.chance(1, 6) { rng.range(0, 50) } else { *rng.pick(&PRECS) };
                let (ds, shape) = gen_data(&mut rng, p);
                display_case(p, &ds, &format!("display-{}", shape), oo);
            }
            _ => {
                let p = *rng.pick(&PRECS);
                let mut s = String::new();
                if rng.bool() { s.push('-'); }
                for _ in 0..rng.below(4) { s.push('0'); }
                let nd = rng.range(1, 45) as usize;
                s.push_str(&rand_digits(&mut rng, nd));
                if rng.chance(1, 2) {
                    from_str_case(&s, p, "from_str-valid", oo);
                } else {
                    let bad = *rng.pick(&[b' ', b'+', b'-', b'.', b'_', b'e', b'E', b',', b'x', b'a', b'/', b':', b'\n', 0u8, 127u8]);
                    let pos = rng.below(s.len() as u64 + 1) as usize;
                    let mut t = s.clone().into_bytes();
                    if rng.bool() || pos >= t.len() { t.insert(pos, bad); } else { t[pos] = bad; }
                    from_str_case(&String::from_utf8(t).unwrap(), p, "from_str-malformed", oo);
                }
            }
        }
    }
}
