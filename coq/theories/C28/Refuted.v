(* C28 findings: witnesses (replayed on the real crate by harness/src/bin/c28.rs, "directed-async-known-class")
   that the unrestricted statement fails: when a second housekeeping pass / command reaches an emitter
   while its previous emission to that peer is still waiting for the Sent confirmation, the same
   client message is emitted twice, which the protocol does not permit. *)
From PV Require Import Lib.Base C28.Model.
Open Scope Z_scope.

Definition cfgB := mkCfg 3 2 1 1.
Definition setup (v : Z) : list event :=
  [EInclude 1; EHousekeeping [] []; EConnected 1; ESent 1 (HsPropose [(13, 764824073)]); ERecv 1 [HsAccept v 1]].
Definition confirm3 : list event := [ESent 1 (KaKeepAlive 65535); ESent 1 (PsRequest 100); ESent 1 LnRequestNext].

Lemma keepalive_twice :
  exec Async cfgB 0 init [] (setup 15 ++ [EHousekeeping [] []; EHousekeeping [] []]) = VViolation 6 1 (KaKeepAlive 65535) true.
Proof. vm_compute. reflexivity. Qed.
Lemma peersharing_twice :
  exec Async cfgB 0 init [] (setup 15 ++ [EHousekeeping [] []; ESent 1 (KaKeepAlive 65535); EHousekeeping [] []])
  = VViolation 7 1 (PsRequest 100) true.
Proof. vm_compute. reflexivity. Qed.
Lemma leiosnotify_twice :
  exec Async cfgB 0 init [] (setup 15 ++ [EHousekeeping [] []; ESent 1 (KaKeepAlive 65535); ESent 1 (PsRequest 100); EHousekeeping [] []])
  = VViolation 8 1 LnRequestNext true.
Proof. vm_compute. reflexivity. Qed.
Lemma leiosfetch_twice :
  exec Async cfgB 0 init [] (setup 15 ++ [EHousekeeping [] []] ++ confirm3 ++ [EFetchEb 1 3; EFetchEb 1 4; EHousekeeping [] []; EHousekeeping [] []])
  = VViolation 12 1 (LfBlockRequest 4) true.
Proof. vm_compute. reflexivity. Qed.
Lemma blockfetch_twice :
  exec Async cfgB 0 init [] (setup 15 ++ [EHousekeeping [] []] ++ confirm3 ++ [ERequestBlocks 2; ERequestBlocks 3; EHousekeeping [] []; EHousekeeping [] []])
  = VViolation 12 1 (BfRequestRange 3) true.
Proof. vm_compute. reflexivity. Qed.
Lemma chainsync_find_twice :
  exec Async cfgB 0 init [] (setup 15 ++ [EHousekeeping [] []] ++ confirm3 ++ [EStartSync 1; EHousekeeping [] []; EHousekeeping [] []])
  = VViolation 11 1 (CsFindIntersect 1) true.
Proof. vm_compute. reflexivity. Qed.
Lemma chainsync_next_twice :
  exec Async cfgB 0 init [] (setup 15 ++ [EHousekeeping [] []] ++ confirm3 ++
     [EStartSync 1; EHousekeeping [] []; ESent 1 (CsFindIntersect 1); ERecv 1 [CsIntersectFound 2]; EContinueSync 1; EDemote 1])
  = VViolation 14 1 CsRequestNext true.
Proof. vm_compute. reflexivity. Qed.
