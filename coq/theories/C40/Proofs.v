(* C40 proofs: totality of build outside the known class, the built transaction reflects
   the staged content, redeemers point at their targets, id = H(body bytes). *)
From PV Require Import Lib.Base C40.Model C40.Spec C40.SortFacts.
From Coq Require Import Sorting.Sorted.
Open Scope Z_scope.

(* ---------- the zero-dropping, sorting conversion of asset maps ---------- *)
Lemma norm_inner_In l n q : In (n, q) (norm_inner l) <-> In (n, q) l /\ q <> 0.
Proof.
  unfold norm_inner. rewrite isort_In, filter_In. cbn. split; intros [H1 H2]; split; auto; lia.
Qed.

Lemma norm_inner_sorted l : names_sorted (norm_inner l).
Proof. apply isort_Sorted. intros a b. apply bytes_leb_total. Qed.

Lemma norm_amap_In m p l' :
  In (p, l') (norm_amap m) <-> l' <> [] /\ exists l, In (p, l) m /\ l' = norm_inner l.
Proof.
  unfold norm_amap. rewrite isort_In, filter_In, in_map_iff. cbn. split.
  - intros [[e [He Hin]] Hne]. inversion He; subst. split.
    + destruct (norm_inner (snd e)); discriminate.
    + exists (snd e). split; [destruct e; exact Hin|reflexivity].
  - intros [Hne [l [Hin Heq]]]. split.
    + exists (p, l). split; [cbn [fst snd]; rewrite Heq; reflexivity|exact Hin].
    + destruct l'; [congruence|reflexivity].
Qed.

Lemma norm_amap_reflects m : amap_reflects m (norm_amap m).
Proof.
  split; [|split].
  - intros p nm q. unfold entry_in. split.
    + intros [l' [Hin Hq]]. apply norm_amap_In in Hin as [_ [l [Hin Heq]]]. subst l'.
      apply norm_inner_In in Hq as [Hq Hz]. split; [exists l; auto|exact Hz].
    + intros [[l [Hin Hq]] Hz]. exists (norm_inner l). split.
      * apply norm_amap_In. split; [|exists l; auto].
        intros He. assert (Hx : In (nm, q) (norm_inner l)) by (apply norm_inner_In; auto).
        rewrite He in Hx. contradiction.
      * apply norm_inner_In. auto.
  - apply isort_Sorted. intros a b. lia.
  - intros p l Hin. apply norm_amap_In in Hin as [Hne [l0 [_ Heq]]]. subst l. split; [exact Hne|apply norm_inner_sorted].
Qed.

Lemma conv_amap_fixed m : conv_amap false m = Ok (norm_amap m).
Proof. reflexivity. Qed.

(* ---------- outputs ---------- *)
Lemma build_output_reflects o a : build_output false o = Ok a -> out_reflects o a.
Proof.
  unfold build_output. rewrite conv_amap_fixed. intros H.
  destruct (o_datum o) as [d|] eqn:Ed; [destruct (d_inline d) eqn:Ei; destruct (d_ok d) eqn:Eok|]; try discriminate;
    (destruct (o_script o) as [s|] eqn:Es; [destruct ((s_kind s =? 0) && negb (s_ok s)) eqn:Ek|]; try discriminate);
    inversion H; subst; unfold out_reflects; rewrite ?Ed, ?Es; cbn [option_map]; rewrite ?Ei;
    (split; [reflexivity|split; [reflexivity|split; [apply norm_amap_reflects|split; reflexivity]]]).
Qed.

Lemma build_output_no_panic o : is_panic (build_output false o) = false.
Proof.
  unfold build_output. rewrite conv_amap_fixed.
  destruct (o_datum o) as [d|]; [destruct (d_inline d); destruct (d_ok d)|];
    try reflexivity; (destruct (o_script o) as [s|]; [destruct ((s_kind s =? 0) && negb (s_ok s))|]); reflexivity.
Qed.

Lemma build_outputs_reflects l : forall al, build_outputs false l = Ok al -> Forall2 out_reflects l al.
Proof.
  induction l as [|o r IH]; cbn [build_outputs]; intros al H.
  - inversion H; subst. constructor.
  - destruct (build_output false o) as [a| |] eqn:Eo; try discriminate.
    destruct (build_outputs false r) as [ar| |] eqn:Er; try discriminate.
    inversion H; subst. constructor; [apply build_output_reflects; exact Eo|apply IH; reflexivity].
Qed.

Lemma build_outputs_no_panic l : is_panic (build_outputs false l) = false.
Proof.
  induction l as [|o r IH]; cbn [build_outputs]; [reflexivity|].
  pose proof (build_output_no_panic o) as Ho. destruct (build_output false o); cbn in Ho; try discriminate; try reflexivity.
  destruct (build_outputs false r); cbn in *; try discriminate; reflexivity.
Qed.

(* ---------- redeemers ---------- *)
Lemma build_rdmr_points ins pols pr a : build_rdmr ins pols pr = Ok a -> rdmr_points ins pols pr a.
Proof.
  destruct pr as [pu r]. unfold build_rdmr.
  destruct (r_ex r) as [[mem steps]|] eqn:Ee; [|discriminate].
  destruct (r_ok r); cbn [negb]; [|discriminate].
  destruct pu as [i|p].
  - destruct (position (fun x => input_eqb x i) ins) as [ix|] eqn:P; [|discriminate].
    intros H. inversion H; subst. apply position_nth in P as [x [Hn Hx]]. apply input_eqb_eq in Hx. subst x.
    cbn. rewrite Nat2Z.id. repeat split; auto; lia.
  - destruct (position (fun x => x =? p) pols) as [ix|] eqn:P; [|discriminate].
    intros H. inversion H; subst. apply position_nth in P as [x [Hn Hx]]. apply Z.eqb_eq in Hx. subst x.
    cbn. rewrite Nat2Z.id. repeat split; auto; lia.
Qed.

Lemma build_rdmrs_points ins pols l : forall al,
  build_rdmrs ins pols l = Ok al -> Forall2 (rdmr_points ins pols) l al.
Proof.
  induction l as [|x r IH]; cbn [build_rdmrs]; intros al H.
  - inversion H; subst. constructor.
  - destruct (build_rdmr ins pols x) as [a| |] eqn:Ex; try discriminate.
    destruct (build_rdmrs ins pols r) as [ar| |] eqn:Er; try discriminate.
    inversion H; subst. constructor; [apply build_rdmr_points; exact Ex|apply IH; reflexivity].
Qed.

Lemma build_rdmrs_no_panic ins pols l :
  (forall pr, In pr l -> r_ex (snd pr) <> None) -> is_panic (build_rdmrs ins pols l) = false.
Proof.
  induction l as [|x r IH]; cbn [build_rdmrs]; intros Hex; [reflexivity|].
  assert (Hx : is_panic (build_rdmr ins pols x) = false).
  { destruct x as [pu rr]. unfold build_rdmr. specialize (Hex (pu, rr) (or_introl eq_refl)). cbn in Hex.
    destruct (r_ex rr) as [[m s]|]; [|congruence].
    destruct (negb (r_ok rr)); [reflexivity|].
    destruct pu as [i|p]; [destruct (position (fun x => input_eqb x i) ins)|destruct (position (fun x => x =? p) pols)]; reflexivity. }
  destruct (build_rdmr ins pols x); cbn in Hx; try discriminate; try reflexivity.
  assert (Hr : is_panic (build_rdmrs ins pols r) = false) by (apply IH; intros pr Hin; apply Hex; right; exact Hin).
  destruct (build_rdmrs ins pols r); cbn in *; try discriminate; reflexivity.
Qed.

(* ---------- build ---------- *)
Lemma build_head_no_panic st : is_panic (build_head false st) = false.
Proof.
  unfold build_head.
  pose proof (build_outputs_no_panic (s_outputs st)) as Ho.
  destruct (build_outputs false (s_outputs st)) as [outs| |]; cbn in Ho; try discriminate; try reflexivity.
  rewrite conv_amap_fixed.
  destruct (s_net st) as [n|]; [destruct ((n =? 0) || (n =? 1)); [|reflexivity]|];
    (destruct (s_collout st) as [o|];
     [pose proof (build_output_no_panic o) as Hc; destruct (build_output false o); cbn in Hc; try discriminate; try reflexivity|]);
    destruct (existsb _ (s_scripts st)); try reflexivity; destruct (existsb _ (s_datums st)); reflexivity.
Qed.

Lemma build_no_panic st : has_exunits st -> is_panic (build false st) = false.
Proof.
  intros Hex. unfold build.
  pose proof (build_head_no_panic st) as Hh.
  destruct (build_head false st) as [[[[outs mint] net] cr]| |]; cbn in Hh; try discriminate; try reflexivity.
  pose proof (build_rdmrs_no_panic (sorted_inputs false st) (map fst mint) (s_rdmrs st) Hex) as Hr.
  destruct (build_rdmrs _ _ (s_rdmrs st)); cbn in Hr; try discriminate; reflexivity.
Qed.

Lemma build_head_ok st outs mint net cr :
  build_head false st = Ok (outs, mint, net, cr) ->
  Forall2 out_reflects (s_outputs st) outs /\ mint = norm_amap (s_mint st) /\ net = s_net st /\
  (match s_collout st, cr with
   | Some o, Some a => out_reflects o a
   | None, None => True
   | _, _ => False
   end) /\
  (forall e, In e (s_scripts st) -> s_kind (snd e) = 0 -> s_ok (snd e) = true) /\
  (forall e, In e (s_datums st) -> snd (snd e) = true) /\
  (forall n, s_net st = Some n -> n = 0 \/ n = 1).
Proof.
  unfold build_head.
  destruct (build_outputs false (s_outputs st)) as [o1| |] eqn:Eo; try discriminate.
  rewrite conv_amap_fixed.
  destruct (match s_net st with None => Ok None | Some n => if (n =? 0) || (n =? 1) then Ok (Some n) else Err E_NETWORK end)
    as [n1| |] eqn:En; try discriminate.
  destruct (match s_collout st with None => Ok None
            | Some o => match build_output false o with Ok a => Ok (Some a) | Err e => Err e | Panic p => Panic p end end)
    as [c1| |] eqn:Ec; try discriminate.
  destruct (existsb (fun e => (s_kind (snd e) =? 0) && negb (s_ok (snd e))) (s_scripts st)) eqn:Es; try discriminate.
  destruct (existsb (fun e => negb (snd (snd e))) (s_datums st)) eqn:Ed; try discriminate.
  intros H. inversion H; subst. repeat split.
  - apply build_outputs_reflects. exact Eo.
  - destruct (s_net st) as [n|]; [destruct ((n =? 0) || (n =? 1)); inversion En; reflexivity|inversion En; reflexivity].
  - destruct (s_collout st) as [o|].
    + destruct (build_output false o) as [a| |] eqn:Ea; inversion Ec; subst. apply build_output_reflects. exact Ea.
    + inversion Ec; subst. exact I.
  - intros e Hin Hk. destruct (s_ok (snd e)) eqn:Eok; [reflexivity|].
    assert (Hx : existsb (fun e => (s_kind (snd e) =? 0) && negb (s_ok (snd e))) (s_scripts st) = true).
    { apply existsb_exists. exists e. split; [exact Hin|]. rewrite Hk, Eok. reflexivity. }
    congruence.
  - intros e Hin. destruct (snd (snd e)) eqn:Eok; [reflexivity|].
    assert (Hx : existsb (fun e => negb (snd (snd e))) (s_datums st) = true).
    { apply existsb_exists. exists e. split; [exact Hin|]. rewrite Eok. reflexivity. }
    congruence.
  - intros n Hn. rewrite Hn in En. destruct ((n =? 0) || (n =? 1)) eqn:E01; [lia|discriminate].
Qed.

Lemma build_ok st t : build false st = Ok t ->
  exists outs mint net cr rdmrs,
    build_head false st = Ok (outs, mint, net, cr) /\
    build_rdmrs (sorted_inputs false st) (map fst mint) (s_rdmrs st) = Ok rdmrs /\
    t = mkAtx (sorted_inputs false st) outs (match s_fee st with Some f => f | None => 0 end) (s_ifrom st) (s_vfrom st)
              mint (s_lv st) (s_colls st) (s_signers st) net cr (s_refs st)
              (scripts_of_kind 0 st) (scripts_of_kind 1 st) (scripts_of_kind 2 st) (scripts_of_kind 3 st)
              (map (fun e => fst (snd e)) (s_datums st)) rdmrs (s_aux st).
Proof.
  unfold build. destruct (build_head false st) as [[[[outs mint] net] cr]| |] eqn:Eh; try discriminate.
  destruct (build_rdmrs _ _ (s_rdmrs st)) as [rd| |] eqn:Er; try discriminate.
  intros H. inversion H; subst. exists outs, mint, net, cr, rd. auto.
Qed.

Lemma scripts_of_kind_In k st b :
  In b (scripts_of_kind k st) <-> exists key s, In (key, s) (s_scripts st) /\ s_kind s = k /\ s_bytes s = b.
Proof.
  unfold scripts_of_kind. rewrite in_map_iff. split.
  - intros [[key s] [Hb Hin]]. apply filter_In in Hin as [Hin Hk]. cbn in *. exists key, s. repeat split; auto; lia.
  - intros [key [s [Hin [Hk Hb]]]]. exists (key, s). split; [exact Hb|]. apply filter_In. split; [exact Hin|cbn; lia].
Qed.

(* ---------- refutations (closed witnesses; each is a failing input of the real code) ---------- *)
Definition rd (ex : option (Z * Z)) : rdmr := mkRdmr (1, 0) true ex.

(* mint +5 then -5 of one asset: NonZeroInt::try_from(0).unwrap() *)
Lemma prefix_cancelling_mint_panics :
  pipeline true [OInput (1, 0); OMint 1 [97] 5; OMint 1 [97] (-5)] = Panic P_UNWRAP_ERR.
Proof. vm_compute. reflexivity. Qed.

(* an output holding an asset with amount 0: PositiveCoin::try_from(0).unwrap() *)
Lemma prefix_zero_asset_panics :
  pipeline true [OInput (1, 0); OOutput (mkOutput (29, 0) 1000000 [(1, [([97], 0)])] None None)] = Panic P_UNWRAP_ERR.
Proof. vm_compute. reflexivity. Qed.

(* a duplicated input before the target: the redeemer index counts the duplicate *)
Lemma prefix_duplicate_input_pointer :
  exists t, pipeline true [OInput (1, 0); OInput (1, 0); OInput (2, 0); OSpendRdmr (2, 0) (rd (Some (1, 2)))] = Ok t /\
            t_rdmrs t = [(0, 2, (1, 0), 1, 2)] /\ t_inputs t = [(1, 0); (1, 0); (2, 0)].
Proof. eexists. split; [vm_compute; reflexivity|]. split; reflexivity. Qed.

(* a redeemer staged without ex-units: todo!() -- still in the code *)
Lemma todo_exunits_panics :
  pipeline false [OInput (1, 0); OSpendRdmr (1, 0) (rd None)] = Panic P_TODO.
Proof. vm_compute. reflexivity. Qed.

(* ---------- the headline facts ---------- *)
Lemma build_reflects st t : build false st = Ok t -> reflects st t.
Proof.
  intros H. apply build_ok in H as [outs [mint [net [cr [rdmrs [Hh [Hr Ht]]]]]]].
  apply build_head_ok in Hh as [Ho [Hm [Hn [Hc _]]]]. subst t mint net. unfold reflects; cbn.
  destruct (sorted_inputs_spec st) as [Hs Hi].
  split; [exact Hs|]. split; [exact Hi|]. split; [exact Ho|]. split; [reflexivity|]. split; [reflexivity|].
  split; [reflexivity|]. split; [apply norm_amap_reflects|]. split; [reflexivity|]. split; [reflexivity|].
  split; [reflexivity|]. split; [reflexivity|]. split; [exact Hc|].
  split; [intros b; apply scripts_of_kind_In|]. split; [intros b; apply scripts_of_kind_In|].
  split; [intros b; apply scripts_of_kind_In|]. split; [intros b; apply scripts_of_kind_In|].
  repeat split; reflexivity.
Qed.

Lemma build_points st t : build false st = Ok t ->
  Forall2 (rdmr_points (t_inputs t) (map fst (t_mint t))) (s_rdmrs st) (t_rdmrs t).
Proof.
  intros H. apply build_ok in H as [outs [mint [net [cr [rdmrs [Hh [Hr Ht]]]]]]]. subst t. cbn.
  apply build_rdmrs_points. exact Hr.
Qed.
