(* C15, analytic side: on (0,1] the reference exp is within 3.1e-24 below the real
   exponential.  Exact-rational partial-sum bound (ErrorBound.v) + Taylor-Lagrange
   for exp (lemma exp_taylor of C16/Proofs.v, via Coquelicot). *)
From Coq Require Import Reals Lra Psatz QArith Qreals.
From PV Require Import Lib.Base Fixed.Model Fixed.Proofs C15.Proofs C15.ErrorBound.
From PV Require C16.Proofs.
Open Scope R_scope.

Lemma Q2R_inject_Z z : Q2R (inject_Z z) = IZR z.
Proof. unfold Q2R, inject_Z. cbn [Qnum Qden]. rewrite Rinv_1. ring. Qed.

Lemma zfact_fact k : zfact k = Z.of_nat (fact k).
Proof.
  induction k as [|k IH]; [reflexivity|]. cbn [zfact]. rewrite IH. change (fact (S k)) with (S k * fact k)%nat.
  rewrite Nat2Z.inj_mul. reflexivity.
Qed.

Lemma IZR_PREC_pos : 0 < IZR PREC.
Proof. apply IZR_lt. exact PREC_pos. Qed.

Lemma Q2R_qterm x k :
  Q2R (qterm x k) = IZR PREC * ((IZR x / IZR PREC) ^ k / INR (fact k)).
Proof.
  pose proof IZR_PREC_pos as HP. pose proof (C16.Proofs.fact_pos_R k) as Hf.
  assert (HW : ~ (inject_Z (W k) == 0)%Q).
  { intros H. unfold Qeq, inject_Z in H. cbn [Qnum Qden] in H. pose proof (W_pos k). lia. }
  unfold qterm. rewrite Q2R_div by exact HW. rewrite !Q2R_inject_Z.
  unfold W. rewrite !mult_IZR, <- !pow_IZR, zfact_fact, <- INR_IZR_INZ.
  assert (Hpk : IZR PREC ^ k <> 0) by (apply pow_nonzero; lra).
  unfold Rdiv. rewrite Rpow_mult_distr. rewrite (pow_inv (IZR PREC) k).
  field. split; lra.
Qed.

Lemma Q2R_qsum x n : Q2R (qsum x n) = IZR PREC * C16.Proofs.P (IZR x / IZR PREC) n.
Proof.
  induction n as [|n IH].
  - cbn [qsum]. rewrite Q2R_qterm. unfold C16.Proofs.P. cbn [sum_f_R0]. reflexivity.
  - cbn [qsum]. rewrite Q2R_plus, IH, Q2R_qterm, C16.Proofs.P_S. ring.
Qed.

Lemma ref_exp_unit x : (0 < x <= ONE)%Z -> ref_exp x = fst (mp_exp_taylor 1000 x EPS).
Proof.
  intros Hx. pose proof PREC_pos as HP. unfold ref_exp, ref_exp_it.
  destruct (x =? 0)%Z eqn:E0; [lia|]. destruct (x <? 0)%Z eqn:E1; [lia|].
  unfold ref_exp_pos_it.
  assert (Hn : div_round_ceil x PREC = 1%Z).
  { unfold div_round_ceil. unfold ONE in Hx. destruct (Z.eq_dec x PREC) as [->|Hne].
    - rewrite Z.quot_same, Z.rem_same by lia. reflexivity.
    - rewrite Z.quot_small, Z.rem_small by lia. destruct (x =? 0)%Z eqn:E2; [lia|]. reflexivity. }
  rewrite Hn, Z.quot_1_r. destruct (mp_exp_taylor 1000 x EPS) as [r it]. cbn [fst].
  apply ipow_one.
Qed.

(* |ref_exp x / 10^34 - e^(x/10^34)| on (0,1]: never above, at most 3.1e-24 below *)
Lemma exp_error_unit_proof x : (0 < x <= ONE)%Z ->
  let X := IZR x / IZR PREC in
  IZR (ref_exp x) / IZR PREC <= exp X /\
  exp X - IZR (ref_exp x) / IZR PREC <= 31 / 10 * / 10 ^ 24.
Proof.
  intros Hx X. pose proof IZR_PREC_pos as HP.
  rewrite ref_exp_unit by exact Hx.
  destruct (exp_taylor_partial_sum_proof x ltac:(lia)) as (n & Hn & Hn24 & [Hlo Hhi] & Hterm).
  set (r := fst (mp_exp_taylor 1000 x EPS)) in *.
  apply Qle_Rle in Hlo. apply Qle_Rle in Hhi. apply Qlt_Rlt in Hterm.
  rewrite Q2R_qsum in Hlo, Hhi. rewrite Q2R_qterm in Hterm. rewrite Q2R_inject_Z in Hlo.
  rewrite Q2R_plus, Q2R_mult, !Q2R_inject_Z in Hhi. rewrite Q2R_plus, Q2R_inject_Z in Hterm.
  replace (Q2R 3) with 3 in * by (unfold Q2R; cbn; lra).
  fold X in Hlo, Hhi, Hterm.
  assert (HX : 0 < X <= 1).
  { unfold X. split; [apply Rdiv_lt_0_compat; [apply IZR_lt; lia | exact HP]|].
    apply (Rmult_le_reg_r (IZR PREC)); [exact HP|]. unfold Rdiv. rewrite Rmult_assoc, Rinv_l by lra.
    rewrite Rmult_1_r, Rmult_1_l. apply IZR_le. unfold ONE in Hx. lia. }
  destruct (C16.Proofs.exp_taylor X n ltac:(lra)) as (z & Hz & Heq).
  assert (Hez : 1 <= exp z <= 3).
  { split.
    - rewrite <- exp_0. left. apply exp_increasing. lra.
    - apply Rle_trans with (exp 1); [|exact exp_le_3]. left. apply exp_increasing. lra. }
  pose proof (C16.Proofs.term_nonneg X (S n) ltac:(lra)) as Ht.
  set (T := X ^ S n / INR (fact (S n))) in *.
  assert (HnR : IZR (Z.of_nat n) <= 24) by (apply IZR_le; lia).
  assert (HEPS : IZR EPS = 10 ^ 10) by (unfold EPS; lra).
  assert (HPR : IZR PREC = 10 ^ 34) by (unfold PREC; lra).
  assert (HTe : 0 <= T * exp z <= 3 * T) by (split; nra).
  assert (HPT : 0 <= IZR PREC * (T * exp z) <= 3 * (IZR PREC * T)) by (split; nra).
  assert (Hexp : IZR PREC * exp X = IZR PREC * C16.Proofs.P X n + IZR PREC * (T * exp z)) by (rewrite Heq; ring).
  rewrite HEPS in Hterm.
  split.
  - apply (Rmult_le_reg_r (IZR PREC)); [exact HP|]. unfold Rdiv at 1. rewrite Rmult_assoc, Rinv_l, Rmult_1_r by lra.
    rewrite (Rmult_comm (exp X)). lra.
  - assert (Hu : IZR PREC * exp X - IZR r <= 72 + 3 * (10 ^ 10 + 3)) by lra.
    apply (Rmult_le_reg_r (IZR PREC)); [exact HP|].
    replace ((exp X - IZR r / IZR PREC) * IZR PREC) with (IZR PREC * exp X - IZR r) by (field; lra).
    rewrite HPR in *. lra.
Qed.
