(* C12 correspondence. One case = one (construction, depth, master seed, period) state of a
   real Sum{d}Kes / Sum{d}CompactKes key: the harness's classification of everything the
   real code produced; the model must produce exactly the same.
   case := Case variant d k t refused m seed_after pk buf period topk sig rt upd_ok gv sigs vexps
     variant 0 = SumKes, 1 = SumCompactKes; k = master seed number; t = successful updates done;
     refused = update() calls made after that which returned KeyCannotBeUpdatedMore (the
     model must refuse each of them too; everything below is observed AFTER them);
     m = message number signed; seed_after = caller's seed bytes after keygen;
     pk = key returned by keygen; buf = key buffer slots after t updates; period =
     get_period(); topk = to_pk(); sig = sign(m).to_bytes() as slots; rt = from_bytes
     of those bytes gives back an equal signature; upd_ok = the next update() is Ok;
     gv = verdicts of verifying sig under pk and m at periods 0, 1, 2, ... (length gv of them);
     sigs = signature byte strings (slots) used by the verification experiments;
     vexps = V period pk message-number index-into-sigs (from_bytes+verify is Ok). *)
From PV Require Export Lib.Base Kes.Model Kes.Interp C12.Model.
Open Scope Z_scope.

(* (constructors rather than tuples: a 15-tuple literal elaborates far too slowly) *)
Inductive vexp : Type := V (period : Z) (pk : cls) (m : Z) (sig_index : Z) (verdict : bool).
Inductive case : Type :=
  Case (variant d k t refused m : Z) (seed_after pk : cls) (buf : list cls) (period : Z) (topk : cls)
       (sig : list cls) (rt upd_ok : bool) (gv : list bool) (sigs : list (list cls)) (vexps : list vexp).

Definition is_some {A} (o : option A) : bool := match o with Some _ => true | None => false end.

Definition verify_bytes (variant : Z) (d : nat) (bytes : list term) (p : Z) (pk : term) (m : Z) : bool :=
  if variant =? 0
  then match sumsig_from_bytes d bytes with Some sg => verify_sum d sg p pk m | None => false end
  else match cmpsig_from_bytes d bytes with Some sg => verify_cmp d sg p pk m | None => false end.

Definition sign_bytes (variant : Z) (d : nat) (k : key) (m : Z) : list term * bool :=
  if variant =? 0
  then let sg := sign_sum_key d k m in
       let bs := sumsig_to_bytes sg in
       (bs, match sumsig_from_bytes d bs with Some sg' => list_eqb term_eqb (sumsig_to_bytes sg') bs | None => false end)
  else let sg := sign_cmp_key d k m in
       let bs := cmpsig_to_bytes sg in
       (bs, match cmpsig_from_bytes d bs with Some sg' => list_eqb term_eqb (cmpsig_to_bytes sg') bs | None => false end).

(* j further update() calls, each of which must be refused; the key the caller is left with *)
Fixpoint refused_calls (d : nat) (j : nat) (k : key) : option key :=
  match j with
  | O => Some k
  | S j' => match refused_calls d j' k with
            | None => None
            | Some k' => let '(k'', ok) := update d k' in if ok then None else Some k''
            end
  end.

(* the model's view of one state *)
Definition model_state (variant : Z) (d : nat) (k : Z) (t refused : nat) (m : Z)
  : option (term * term * list term * Z * term * list term * bool * bool) :=
  let '(k0, pk, sa) := keygen d (repeat junk (ksize d)) (Master k) in
  match updates d t k0 with
  | None => None
  | Some ky0 =>
      match refused_calls d refused ky0 with
      | None => None
      | Some ky =>
          let '(bs, rt) := sign_bytes variant d ky m in
          Some (sa, pk, key_buf ky, get_period ky, to_pk d ky, bs, rt, snd (update d ky))
      end
  end.

Definition case_ok (c : case) : bool :=
  let '(Case variant d k t refused m seed_after pk buf period topk sig rt upd_ok gv sigs vexps) := c in
  let dn := Z.to_nat d in
  let I := interp dn in
  match model_state variant dn k (Z.to_nat t) (Z.to_nat refused) m with
  | None => false
  | Some (sa', pk', buf', period', topk', sig', rt', upd') =>
      term_eqb sa' (I seed_after) && term_eqb pk' (I pk) && list_eqb term_eqb buf' (map I buf)
      && (period' =? period) && term_eqb topk' (I topk) && list_eqb term_eqb sig' (map I sig)
      && Bool.eqb rt' rt && Bool.eqb upd' upd_ok
      && list_eqb Bool.eqb (map (fun p => verify_bytes variant dn (map I sig) p (I pk) m) (zrange 0 (length gv))) gv
      && forallb (fun e : vexp =>
           let '(V p pkc m' si verdict) := e in
           Bool.eqb (verify_bytes variant dn (map I (nth (Z.to_nat si) sigs [])) p (I pkc) m') verdict) vexps
  end.

Definition case_out (c : case) :=
  let '(Case variant d k t refused m seed_after pk buf period topk sig rt upd_ok gv sigs vexps) := c in
  let dn := Z.to_nat d in
  let I := interp dn in
  match model_state variant dn k (Z.to_nat t) (Z.to_nat refused) m with
  | None => None
  | Some (sa', pk', buf', period', topk', sig', rt', upd') =>
      Some (abstr sa', abstr pk', map abstr buf', period', abstr topk', map abstr sig', rt', upd',
            map (fun p => verify_bytes variant dn (map I sig) p (I pk) m) (zrange 0 (length gv)),
            map (fun e : vexp =>
              let '(V p pkc m' si verdict) := e in
              verify_bytes variant dn (map I (nth (Z.to_nat si) sigs [])) p (I pkc) m') vexps)
  end.
