(* C16 — soundness of ref_exp_cmp for x >= 0 over the reals.
   Structure: (1) Taylor–Lagrange for exp (Coquelicot); (2) the bound d on the
   truncation error of the n-th term; (3) the loop invariant
        rop_k <= S*P_k(X) <= rop_k + D_k,   err_k <= T_(k+1) <= err_k + d_k
   (4) the two conclusions at exit. *)
From Coq Require Import Reals Lra Psatz.
From Coquelicot Require Import Coquelicot.
From PV Require Import Lib.Base C16.Model C16.ProofsZ.
Open Scope R_scope.

(* ---------------------------------------------------------------- exp and its Taylor sums *)
Definition P (X : R) (k : nat) : R := sum_f_R0 (fun m => X ^ m / INR (fact m)) k.

Lemma exp_taylor : forall X n, 0 < X ->
  exists z, 0 < z < X /\ exp X = P X n + X ^ (S n) / INR (fact (S n)) * exp z.
Proof.
  intros X n HX.
  assert (Hd : forall t, 0 <= t <= X -> forall k, (k <= S n)%nat -> ex_derive_n exp k t).
  { intros t _ k _. destruct k as [|k]; [exact I|]. exists (exp t). exact (is_derive_n_exp (S k) t). }
  destruct (Taylor_Lagrange exp n 0 X HX Hd) as [z [Hz Heq]].
  exists z. split; [exact Hz|].
  rewrite Heq. unfold P. f_equal.
  + apply sum_eq. intros i _.
    rewrite (is_derive_n_unique _ _ _ _ (is_derive_n_exp i 0)).
    rewrite exp_0, Rminus_0_r. ring.
  + rewrite (is_derive_n_unique _ _ _ _ (is_derive_n_exp (S n) z)).
    rewrite Rminus_0_r. reflexivity.
Qed.

Lemma fact_pos_R : forall n, 0 < INR (fact n).
Proof. intros n. apply lt_0_INR, lt_O_fact. Qed.

Lemma term_nonneg : forall X m, 0 <= X -> 0 <= X ^ m / INR (fact m).
Proof.
  intros X m HX. apply Rmult_le_pos; [apply pow_le; exact HX|].
  left. apply Rinv_0_lt_compat, fact_pos_R.
Qed.

Lemma P_S : forall X k, P X (S k) = P X k + X ^ (S k) / INR (fact (S k)).
Proof. intros. reflexivity. Qed.

Lemma P_ge_1 : forall X k, 0 <= X -> 1 <= P X k.
Proof.
  intros X k HX. induction k as [|k IH].
  - unfold P. cbn. lra.
  - rewrite P_S. pose proof (term_nonneg X (S k) HX). lra.
Qed.

Lemma P_le_exp : forall X k, 0 < X -> P X k <= exp X.
Proof.
  intros X k HX. destruct (exp_taylor X k HX) as [z [Hz Heq]].
  rewrite Heq. pose proof (term_nonneg X (S k) ltac:(lra)) as Ht.
  pose proof (exp_pos z). nra.
Qed.

(* ---------------------------------------------------------------- truncation error bounds *)
(* d X i bounds T_(i+1) - t_(i+1): every iteration multiplies the inherited
   error by X/(i+2) and loses less than one more unit in the single floor *)
Fixpoint d (X : R) (i : nat) : R :=
  match i with O => 0 | S i' => d X i' * X / INR (i' + 2) + 1 end.
(* D X k = d 0 + ... + d (k-1): accumulated in rop after k iterations *)
Fixpoint D (X : R) (k : nat) : R :=
  match k with O => 0 | S k' => D X k' + d X k' end.

Lemma P_shift : forall X i c, 0 <= X -> INR (i + 1) <= c -> P X i * X / c + 1 <= P X (S i).
Proof.
  intros X i. induction i as [|i IH]; intros c HX Hc.
  - unfold P. cbn in *. assert (Hc' : 1 <= c) by lra.
    assert (X / c <= X).
    { apply Rle_div_l; [lra|]. nra. }
    unfold Rdiv in *. lra.
  - assert (E1 : INR (S i + 1) = INR i + 2) by (rewrite plus_INR, S_INR; simpl; lra).
    assert (E2 : INR (i + 1) = INR i + 1) by (rewrite plus_INR; simpl; lra).
    assert (E3 : INR (S (S i)) = INR i + 2) by (rewrite !S_INR; lra).
    pose proof (pos_INR i) as Hi0.
    assert (Hc1 : INR (i + 1) <= c) by lra.
    specialize (IH c HX Hc1).
    rewrite (P_S X (S i)). rewrite (P_S X i) at 1.
    assert (Hc0 : 0 < c) by lra.
    (* X^(S i)/ (S i)! * X / c <= X^(S (S i)) / (S (S i))! *)
    assert (Hterm : X ^ (S i) / INR (fact (S i)) * X / c <= X ^ (S (S i)) / INR (fact (S (S i)))).
    { replace (fact (S (S i))) with ((S (S i)) * fact (S i))%nat by reflexivity.
      rewrite mult_INR.
      pose proof (fact_pos_R (S i)) as Hf.
      assert (Hs : 0 < INR (S (S i))) by (apply lt_0_INR; lia).
      assert (Hle : INR (S (S i)) <= c) by lra.
      replace (X ^ S (S i)) with (X ^ S i * X) by (cbn; ring).
      assert (Hp : 0 <= X ^ S i * X) by (apply Rmult_le_pos; [apply pow_le|]; assumption).
      unfold Rdiv.
      replace (X ^ S i * / INR (fact (S i)) * X * / c) with ((X ^ S i * X) * / INR (fact (S i)) * / c) by ring.
      rewrite Rinv_mult. 
      replace (X ^ S i * X * (/ INR (S (S i)) * / INR (fact (S i)))) with ((X ^ S i * X) * / INR (fact (S i)) * / INR (S (S i))) by ring.
      apply Rmult_le_compat_l.
      - apply Rmult_le_pos; [exact Hp|]. left. apply Rinv_0_lt_compat, Hf.
      - apply Rinv_le_contravar; assumption. }
    unfold Rdiv in *. lra.
Qed.

Lemma d_nonneg : forall X i, 0 <= X -> 0 <= d X i.
Proof.
  intros X i HX. induction i as [|i IH]; cbn [d]; [lra|].
  assert (0 < INR (i + 2)) by (apply lt_0_INR; lia).
  assert (0 <= d X i * X / INR (i + 2)).
  { apply Rmult_le_pos; [nra|]. left. apply Rinv_0_lt_compat. assumption. }
  lra.
Qed.

Lemma d_le_P : forall X i, 0 <= X -> d X (S i) <= P X i.
Proof.
  intros X i HX. induction i as [|i IH].
  - cbn. unfold P. cbn. lra.
  - cbn [d] in *.
    assert (Hc : 0 < INR (S i + 2)) by (apply lt_0_INR; lia).
    pose proof (P_shift X i (INR (S i + 2)) HX) as Hs.
    assert (Hle : INR (i + 1) <= INR (S i + 2)) by (apply le_INR; lia).
    specialize (Hs Hle).
    assert (Hmono : (d X i * X / INR (i + 2) + 1) * X / INR (S i + 2) <= P X i * X / INR (S i + 2)).
    { unfold Rdiv. apply Rmult_le_compat_r; [left; apply Rinv_0_lt_compat; exact Hc|].
      apply Rmult_le_compat_r; [exact HX|]. exact IH. }
    lra.
Qed.

Lemma d_le_exp : forall X i, 0 < X -> d X i <= exp X.
Proof.
  intros X i HX. destruct i as [|i].
  - cbn. left. apply exp_pos.
  - eapply Rle_trans; [apply d_le_P; lra|apply P_le_exp; exact HX].
Qed.

Lemma D_le : forall X k, 0 < X -> D X k <= INR k * exp X.
Proof.
  intros X k HX. induction k as [|k IH].
  - cbn. lra.
  - cbn [D]. rewrite S_INR. pose proof (d_le_exp X k HX). lra.
Qed.

Lemma D_nonneg : forall X k, 0 <= X -> 0 <= D X k.
Proof.
  intros X k HX. induction k as [|k IH]; cbn [D]; [lra|]. pose proof (d_nonneg X k HX). lra.
Qed.

(* ---------------------------------------------------------------- Z <-> R glue *)
Lemma IZR_div_bounds : forall a m : Z, (0 < m)%Z ->
  IZR (a / m) * IZR m <= IZR a < (IZR (a / m) + 1) * IZR m.
Proof.
  intros a m Hm.
  pose proof (Z.mul_div_le a m Hm) as H1.
  pose proof (Z.mul_succ_div_gt a m Hm) as H2.
  split.
  - rewrite <- mult_IZR. apply IZR_le. lia.
  - replace 1 with (IZR 1) by reflexivity. rewrite <- plus_IZR, <- mult_IZR. apply IZR_lt. lia.
Qed.

Lemma INR_IZR_nat : forall n, INR n = IZR (Z.of_nat n).
Proof. intros. apply INR_IZR_INZ. Qed.

(* ---------------------------------------------------------------- the loop *)
Section Loop.
  Variables max_n x bound cmp : Z.
  Hypothesis Hx : (0 < x)%Z.

  Let Sr : R := IZR PREC.
  Let X : R := IZR x / Sr.
  (* T j = S * X^j / j!  : the exact j-th term at scale S *)
  Let T (j : nat) : R := Sr * (X ^ j / INR (fact j)).

  Lemma Sr_pos : 0 < Sr.
  Proof. unfold Sr. apply IZR_lt. exact PREC_pos. Qed.

  Lemma X_pos : 0 < X.
  Proof. unfold X. apply Rdiv_lt_0_compat; [apply IZR_lt; exact Hx|exact Sr_pos]. Qed.

  Lemma T_nonneg : forall j, 0 <= T j.
  Proof.
    intros j. unfold T. apply Rmult_le_pos; [left; exact Sr_pos|].
    apply term_nonneg. left. exact X_pos.
  Qed.

  Lemma T_S : forall j, T (S j) = T j * X / INR (j + 1).
  Proof.
    intros j. unfold T.
    replace (fact (S j)) with ((S j) * fact j)%nat by reflexivity.
    rewrite mult_INR. replace (j + 1)%nat with (S j) by lia.
    pose proof (fact_pos_R j). assert (0 < INR (S j)) by (apply lt_0_INR; lia).
    cbn [pow]. field. split; lra.
  Qed.

  Lemma SP_S : forall k, Sr * P X (S k) = Sr * P X k + T (S k).
  Proof. intros k. rewrite P_S. unfold T. ring. Qed.

  (* state at the head of the loop after k completed iterations *)
  Definition Inv (k : nat) (rop n divisor err : Z) : Prop :=
    n = Z.of_nat k /\ divisor = ((Z.of_nat k + 1) * PREC)%Z /\ (0 <= err)%Z /\
    IZR err <= T (S k) <= IZR err + d X k /\
    IZR rop <= Sr * P X k <= IZR rop + D X k.

  Lemma Inv_init : Inv 0 ONE 0 ONE x.
  Proof.
    pose proof Sr_pos as HS.
    unfold Inv. rewrite ONE_PREC.
    split; [reflexivity|]. split; [cbn; ring|]. split; [lia|].
    assert (HT1 : T 1 = IZR x).
    { unfold T, X. cbn. field. lra. }
    assert (HP0 : Sr * P X 0 = IZR PREC).
    { unfold P. cbn. fold Sr. field. }
    rewrite HT1, HP0. cbn [d D]. split; split; lra.
  Qed.

  (* what the result guarantees; k' = number of iterations *)
  Definition Post (r : result) : Prop :=
    exists k', iterations r = Z.of_nat k' /\
      IZR (approx r) <= Sr * P X k' <= IZR (approx r) + D X k' /\
      (estimation r = LT -> IZR cmp < Sr * exp X) /\
      (estimation r = GT -> exp X <= IZR bound ->
         Sr * exp X <= IZR cmp - 1 + D X k' + d X k' * IZR bound).

  Lemma loop_post : forall fuel k rop n divisor err,
    Inv k rop n divisor err ->
    Post (cmp_loop fuel max_n x bound cmp rop n divisor err).
  Proof.
    induction fuel as [|fuel IH]; intros k rop n divisor err HI.
    - destruct HI as (Hn & Hdv & He & HT & HR).
      exists k. cbn. repeat split; try tauto; try discriminate.
    - cbn [cmp_loop].
      destruct (negb (n <? max_n)) eqn:E1.
      { destruct HI as (Hn & Hdv & He & HT & HR).
        exists k. cbn. repeat split; try tauto; try discriminate. }
      destruct (Z.abs err <? Z.abs EPS) eqn:E2.
      { destruct HI as (Hn & Hdv & He & HT & HR).
        exists k. cbn. repeat split; try tauto; try discriminate. }
      destruct HI as (Hn & Hdv & He & HT & HR).
      (* the new error term *)
      assert (Hdiv' : (divisor + ONE = (Z.of_nat k + 2) * PREC)%Z).
      { rewrite Hdv, ONE_PREC. ring. }
      rewrite Hdiv'.
      rewrite (err_step err x (Z.of_nat k + 2) He ltac:(lia) ltac:(lia)).
      set (err' := ((err * x) / (PREC * (Z.of_nat k + 2)))%Z).
      assert (He' : (0 <= err')%Z) by (apply err_step_nonneg; lia).
      rewrite (Z.abs_eq err' He').
      pose proof Sr_pos as HS. pose proof X_pos as HX.
      assert (Hk2 : 0 < INR (k + 2)) by (apply lt_0_INR; lia).
      assert (Hk2Z : IZR (Z.of_nat k + 2) = INR (k + 2)).
      { rewrite INR_IZR_nat. f_equal. lia. }
      (* err' in reals: err*X/(k+2) - 1 < err' <= err*X/(k+2) *)
      assert (Herr' : IZR err' <= IZR err * X / INR (k + 2) < IZR err' + 1).
      { pose proof (IZR_div_bounds (err * x) (PREC * (Z.of_nat k + 2)) ltac:(pose proof PREC_pos; lia)) as [B1 B2].
        fold err' in B1, B2. rewrite !mult_IZR in B1, B2. rewrite Hk2Z in B1, B2. fold Sr in B1, B2.
        assert (Hq : IZR err * X / INR (k + 2) = IZR err * IZR x / (Sr * INR (k + 2))).
        { unfold X. field. split; lra. }
        rewrite Hq.
        assert (Hden : 0 < Sr * INR (k + 2)) by (apply Rmult_lt_0_compat; assumption).
        split.
        - apply Rle_div_r; [exact Hden|]. exact B1.
        - apply Rlt_div_l; [exact Hden|]. exact B2. }
      assert (HT2 : T (S (S k)) = T (S k) * X / INR (k + 2)).
      { rewrite T_S. do 2 f_equal. lia. }
      assert (HTnew : IZR err' <= T (S (S k)) <= IZR err' + d X (S k)).
      { rewrite HT2. cbn [d].
        assert (Hm1 : IZR err * X / INR (k + 2) <= T (S k) * X / INR (k + 2)).
        { unfold Rdiv. apply Rmult_le_compat_r; [left; apply Rinv_0_lt_compat; exact Hk2|].
          apply Rmult_le_compat_r; [lra|]. tauto. }
        assert (Hm2 : T (S k) * X / INR (k + 2) <= (IZR err + d X k) * X / INR (k + 2)).
        { unfold Rdiv. apply Rmult_le_compat_r; [left; apply Rinv_0_lt_compat; exact Hk2|].
          apply Rmult_le_compat_r; [lra|]. tauto. }
        unfold Rdiv in *. split; lra. }
      assert (HRnew : IZR (rop + err) <= Sr * P X (S k) <= IZR (rop + err) + D X (S k)).
      { rewrite SP_S, plus_IZR. cbn [D]. lra. }
      destruct (cmp >? rop + err + err' * bound)%Z eqn:E3.
      { (* GT *)
        exists (S k). cbn [iterations approx estimation]. split; [lia|]. split; [exact HRnew|].
        split; [discriminate|]. intros _ HB.
        destruct (exp_taylor X (S k) HX) as [z [Hz Heq]].
        assert (Hcmp : IZR (rop + err) + IZR err' * IZR bound + 1 <= IZR cmp).
        { rewrite <- mult_IZR, <- plus_IZR. replace 1 with (IZR 1) by reflexivity.
          rewrite <- plus_IZR. apply IZR_le. lia. }
        assert (Hez : exp z <= IZR bound).
        { eapply Rle_trans; [|exact HB]. left. apply exp_increasing. tauto. }
        assert (Hrem : Sr * (X ^ S (S k) / INR (fact (S (S k))) * exp z) <= (IZR err' + d X (S k)) * IZR bound).
        { fold (T (S (S k))).
          replace (Sr * (X ^ S (S k) / INR (fact (S (S k))) * exp z)) with (T (S (S k)) * exp z) by (unfold T; ring).
          pose proof (T_nonneg (S (S k))). pose proof (exp_pos z).
          apply Rmult_le_compat; lra. }
        rewrite Heq. rewrite Rmult_plus_distr_l.
        cbn [D] in *. lra. }
      destruct (cmp <? rop + err - err' * bound)%Z eqn:E4.
      { (* LT *)
        exists (S k). cbn [iterations approx estimation]. split; [lia|]. split; [exact HRnew|].
        split; [|discriminate]. intros _.
        assert (Hcmp : IZR cmp < IZR (rop + err)).
        { apply IZR_lt. nia. }
        pose proof (P_le_exp X (S k) HX) as Hple.
        assert (Sr * P X (S k) <= Sr * exp X) by (apply Rmult_le_compat_l; lra).
        lra. }
      replace (Z.of_nat k + 2)%Z with (Z.of_nat (S k) + 1)%Z by lia.
      apply (IH (S k)). unfold Inv. repeat split; try lia; try tauto.
  Qed.

  Lemma ref_exp_cmp_post : Post (ref_exp_cmp max_n x bound cmp).
  Proof. unfold ref_exp_cmp. apply (loop_post _ 0%nat). exact Inv_init. Qed.
End Loop.

(* ---------------------------------------------------------------- closed statements *)
Lemma loop_err0 : forall fuel max_n x bound cmp rop n divisor,
  cmp_loop fuel max_n x bound cmp rop n divisor 0 = mkResult n UNKNOWN rop.
Proof.
  intros [|fuel] max_n x bound cmp rop n divisor; [reflexivity|].
  cbn [cmp_loop]. destruct (negb (n <? max_n)%Z); [reflexivity|].
  assert (E : (Z.abs 0 <? Z.abs EPS)%Z = true).
  { pose proof EPS_pos. apply Z.ltb_lt. lia. }
  rewrite E. reflexivity.
Qed.

Lemma exp_cmp_lt_sound_proof : forall max_n x bound cmp,
  (0 <= x)%Z ->
  estimation (ref_exp_cmp max_n x bound cmp) = LT ->
  IZR cmp / IZR PREC < exp (IZR x / IZR PREC).
Proof.
  intros max_n x bound cmp Hx Hlt.
  assert (HS : 0 < IZR PREC) by (apply IZR_lt; exact PREC_pos).
  destruct (Z.eq_dec x 0) as [->|Hx0].
  - unfold ref_exp_cmp in Hlt. rewrite loop_err0 in Hlt. discriminate.
  - destruct (ref_exp_cmp_post max_n x bound cmp ltac:(lia)) as (k' & _ & _ & HLT & _).
    apply Rlt_div_l; [exact HS|]. rewrite Rmult_comm. exact (HLT Hlt).
Qed.

Lemma exp_cmp_gt_margin_proof : forall max_n x bound cmp,
  (0 <= x)%Z -> exp (IZR x / IZR PREC) <= IZR bound ->
  estimation (ref_exp_cmp max_n x bound cmp) = GT ->
  (IZR cmp + IZR (bound * (iterations (ref_exp_cmp max_n x bound cmp) + bound))) / IZR PREC
    > exp (IZR x / IZR PREC).
Proof.
  intros max_n x bound cmp Hx HB Hgt.
  assert (HS : 0 < IZR PREC) by (apply IZR_lt; exact PREC_pos).
  assert (Hb : 0 <= IZR bound).
  { pose proof (exp_pos (IZR x / IZR PREC)). lra. }
  destruct (Z.eq_dec x 0) as [->|Hx0].
  - unfold ref_exp_cmp in Hgt. rewrite loop_err0 in Hgt. discriminate.
  - assert (Hx' : (0 < x)%Z) by lia.
    destruct (ref_exp_cmp_post max_n x bound cmp Hx') as (k' & Hit & _ & _ & HGT).
    specialize (HGT Hgt HB).
    assert (HX : 0 < IZR x / IZR PREC) by (apply Rdiv_lt_0_compat; [apply IZR_lt; exact Hx'|exact HS]).
    pose proof (D_le _ k' HX) as HD. pose proof (d_le_exp _ k' HX) as Hd.
    pose proof (d_nonneg (IZR x / IZR PREC) k' ltac:(lra)) as Hd0.
    rewrite Hit. rewrite mult_IZR, plus_IZR, <- INR_IZR_nat.
    set (B := IZR bound) in *. set (E := exp (IZR x / IZR PREC)) in *.
    assert (HB0 : 0 <= B) by exact Hb.
    pose proof (pos_INR k') as Hk.
    assert (H1 : D (IZR x / IZR PREC) k' <= INR k' * B) by nra.
    assert (H2 : d (IZR x / IZR PREC) k' * B <= B * B) by nra.
    apply Rlt_gt. apply Rlt_div_r; [exact HS|]. rewrite Rmult_comm. lra.
Qed.

Lemma exp_cmp_approx_proof : forall max_n x bound cmp,
  (0 <= x)%Z ->
  let r := ref_exp_cmp max_n x bound cmp in
  let X := IZR x / IZR PREC in
  (0 <= iterations r)%Z /\
  IZR (approx r) / IZR PREC <= P X (Z.to_nat (iterations r)) /\
  P X (Z.to_nat (iterations r)) <= (IZR (approx r) + IZR (iterations r) * exp X) / IZR PREC /\
  IZR (approx r) / IZR PREC <= exp X.
Proof.
  intros max_n x bound cmp Hx r X.
  assert (HS : 0 < IZR PREC) by (apply IZR_lt; exact PREC_pos).
  destruct (Z.eq_dec x 0) as [E0|Hx0].
  - subst r X. subst x. unfold ref_exp_cmp. rewrite loop_err0. cbn [iterations approx].
    rewrite ONE_PREC. replace (IZR 0 / IZR PREC) with 0 by (unfold Rdiv; ring).
    rewrite exp_0. unfold P. cbn. split; [lia|]. repeat split.
    + right. field. lra.
    + right. field. lra.
    + right. field. lra.
  - assert (Hx' : (0 < x)%Z) by lia.
    destruct (ref_exp_cmp_post max_n x bound cmp Hx') as (k' & Hit & [HA1 HA2] & _ & _).
    fold r in Hit, HA1, HA2. fold X in HA1, HA2.
    assert (HX : 0 < X) by (apply Rdiv_lt_0_compat; [apply IZR_lt; exact Hx'|exact HS]).
    rewrite Hit, Nat2Z.id, <- INR_IZR_nat.
    pose proof (D_le X k' HX) as HD. pose proof (P_le_exp X k' HX) as HP.
    split; [lia|]. repeat split.
    + apply Rle_div_l; [exact HS|]. lra.
    + apply Rle_div_r; [exact HS|]. lra.
    + apply Rle_div_l; [exact HS|]. nra.
Qed.

Lemma exp_cmp_iterations_proof : forall max_n x bound cmp,
  (0 <= max_n)%Z -> (0 <= iterations (ref_exp_cmp max_n x bound cmp) <= max_n)%Z.
Proof.
  intros max_n x bound cmp Hm. unfold ref_exp_cmp.
  assert (G : forall fuel rop n divisor err, (0 <= n <= max_n)%Z ->
            (0 <= iterations (cmp_loop fuel max_n x bound cmp rop n divisor err) <= max_n)%Z).
  { induction fuel as [|fuel IH]; intros rop n divisor err Hn; cbn [cmp_loop]; [cbn; lia|].
    destruct (negb (n <? max_n)%Z) eqn:E1; [cbn; lia|].
    destruct (Z.abs err <? Z.abs EPS)%Z; [cbn; lia|].
    destruct (cmp >? _)%Z; [cbn; lia|].
    destruct (cmp <? _)%Z; [cbn; lia|].
    apply IH. lia. }
  apply G. lia.
Qed.

(* ---------------------------------------------------------------- the refutations *)
Definition wit_x : Z := 14142135624438057269185.       (* = floor(sqrt(2*10^34*(10^10+1))) *)
Definition wit_cmp : Z := 10000000000014142135624448057269186.

Lemma exp_cmp_gt_refuted_proof :
  (0 <= wit_x)%Z /\ exp (IZR wit_x / IZR PREC) <= IZR 3 /\
  estimation (ref_exp_cmp 2 wit_x 3 wit_cmp) = GT /\
  IZR wit_cmp / IZR PREC < exp (IZR wit_x / IZR PREC).
Proof.
  assert (HS : 0 < IZR PREC) by (apply IZR_lt; exact PREC_pos).
  assert (HX : 0 < IZR wit_x / IZR PREC).
  { apply Rdiv_lt_0_compat; [apply IZR_lt; reflexivity|exact HS]. }
  split; [discriminate|]. split; [|split].
  - apply Rle_trans with (exp 1); [|exact exp_le_3].
    assert (Hle : IZR wit_x / IZR PREC <= 1).
    { apply Rle_div_l; [exact HS|]. rewrite Rmult_1_l. apply IZR_le. vm_compute. discriminate. }
    destruct Hle as [Hlt|Heq]; [left; apply exp_increasing; exact Hlt|rewrite Heq; right; reflexivity].
  - vm_compute. reflexivity.
  - eapply Rlt_le_trans; [|apply (P_le_exp _ 3 HX)].
    assert (HZ : (wit_cmp * (6 * (PREC * PREC)) <
                  6 * (PREC * PREC * PREC) + 6 * (PREC * PREC) * wit_x + 3 * PREC * (wit_x * wit_x) + wit_x * wit_x * wit_x)%Z).
    { vm_compute. reflexivity. }
    apply IZR_lt in HZ.
    rewrite !plus_IZR, !mult_IZR in HZ.
    set (s := IZR PREC) in *. set (xr := IZR wit_x) in *. set (c := IZR wit_cmp) in *.
    assert (HP3 : P (xr / s) 3 = (6 * (s * s * s) + 6 * (s * s) * xr + 3 * s * (xr * xr) + xr * xr * xr) / (6 * (s * s * s))).
    { unfold P. cbn. field. lra. }
    rewrite HP3.
    replace (c / s) with ((c * (6 * (s * s))) / (6 * (s * s * s))) by (field; lra).
    assert (Hden : 0 < 6 * (s * s * s)).
    { assert (0 < s * s) by nra. nra. }
    unfold Rdiv. apply Rmult_lt_compat_r; [apply Rinv_0_lt_compat; exact Hden|]. exact HZ.
Qed.

Lemma exp_cmp_sound_outside_margin_proof : forall max_n x bound cmp,
  (0 <= x)%Z -> exp (IZR x / IZR PREC) <= IZR bound ->
  let r := ref_exp_cmp max_n x bound cmp in
  ~ (exp (IZR x / IZR PREC) - IZR (bound * (iterations r + bound)) / IZR PREC < IZR cmp / IZR PREC
       <= exp (IZR x / IZR PREC)) ->
  (estimation r = GT -> IZR cmp / IZR PREC > exp (IZR x / IZR PREC)) /\
  (estimation r = LT -> IZR cmp / IZR PREC < exp (IZR x / IZR PREC)).
Proof.
  intros max_n x bound cmp Hx HB r Hout. split.
  - intros Hgt. pose proof (exp_cmp_gt_margin_proof max_n x bound cmp Hx HB Hgt) as HM.
    fold r in HM. unfold Rdiv in *. rewrite Rmult_plus_distr_r in HM.
    apply Rnot_le_gt. intros Hle. apply Hout. split; lra.
  - apply exp_cmp_lt_sound_proof. exact Hx.
Qed.
