(* C19 — property theorems (stage 1: the tree before the fix). *)
From PV Require Import Lib.Base Cbor.Dec.
From PV Require Import C19.Model C19.Proofs.
Open Scope Z_scope.

(* mainnet test vector 3 of byron.rs (Ae2tdPwUPEZLs4H...), checksum xor 1 *)
Definition vector3_payload : list Z :=
  [131;88;28;241;25;57;244;35;56;213;158;33;186;160;134;69;172;31;0;56;213;238;150;159;153;254;152;244;2;254;121;160;0].
Definition vector3_bad : list Z :=
  [130;216;24;88;33] ++ vector3_payload ++ [26;201;214;78;90].

Theorem byron_bad_crc_refuted :
  exists bs a, from_bytes_unchecked skip_item bs = Ok a /\ crc32 (fst a) <> snd a.
Proof.
  exists vector3_bad, (vector3_payload, 3386265178). split; [vm_compute; reflexivity|].
  vm_compute. discriminate.
Qed.

Example crc32_check_value :
  crc32 [49;50;51;52;53;54;55;56;57] = 3421780262 /\ crc32 vector3_payload = 3386265179.
Proof. split; vm_compute; reflexivity. Qed.
