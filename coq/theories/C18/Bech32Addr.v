(* C18: the bech32 oracle of Strings.v discharged with the Gallina bech32. *)
From PV Require Import Lib.Base C18.Model C18.Proofs C18.Bech32 C18.Bech32Proofs C18.Strings.
Open Scope Z_scope.

(* pallas encode_bech32: bech32::encode(..).expect(..); the None (too long) arm
   would be a panic and is unreachable for addresses (<= 62 bytes) *)
Definition enc_total (h d : list Z) : list Z :=
  match bech32_encode h d with Some s => s | None => [] end.

Lemma enc_total_roundtrip h d : hrp_valid h -> bytes_wf d -> blen d <= 64 ->
  bech32_decode (enc_total h d) = Some (h, d).
Proof.
  intros Hh Hd Hl. unfold enc_total.
  destruct (bech32_encode_some h d) as [s Hs].
  { destruct Hh as (_ & Hb & _). assert (0 <= blen d) by (unfold blen; lia). lia. }
  rewrite Hs. apply (bech32_roundtrip_proof h d s Hh Hd Hs).
Qed.

Lemma addr_bech32_closed b58 p8 a net : 0 <= net <= 1 -> addr_wf a ->
  addr_network a = Some (network_from net) ->
  to_bech32 enc_total a = Ok (enc_total (hrp_base a ++ (if net =? 0 then s_test else [])) (to_vec a)) /\
  from_bech32 bech32_decode p8 (enc_total (hrp_base a ++ (if net =? 0 then s_test else [])) (to_vec a)) = Ok a /\
  from_str bech32_decode b58 p8 (to_string enc_total a) = Ok a.
Proof. apply addr_bech32_roundtrip_sec. exact enc_total_roundtrip. Qed.
