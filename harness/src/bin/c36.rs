//! C36: fee and size limits use the ledger's transaction size.
//!
//! Per rule (hook): check_min_fee / check_fees and check_tx_size of the four
//! post-Byron validators on generated (fee, a, b, size, max); the three size
//! functions and MultiEraTx::size on every fixture and on variants with the
//! auxiliary data removed / replaced / grown and the validity flag flipped.
//! End to end: validate_tx on every valid post-Byron fixture with the size
//! limit at ledger size / one below, the fee parameters chosen so that the
//! minimum fee is exactly the fee paid / one more, and (re-signable fixtures)
//! the transaction itself re-priced to min / min-1 with an output absorbing the
//! difference.  The ledger size used by the oracle is the harness's own:
//! length of the serialized transaction minus the validity flag byte.
//!
//! case := (kind, era, p1..p7, observed)   — see coq/theories/C36/Run.v
mod val_common;
use pallas_codec::minicbor;
use pallas_primitives::{alonzo, babbage, conway};
use pallas_traverse::{Era, MultiEraTx};
use pallas_validate::phase1::validate_tx;
use pallas_validate::utils::{MultiEraProtocolParameters as PP, UTxOs, ValidationError};
use val_common::mutate::*;
use val_common::*;
use verif_harness::*;

fn era_code(e: EraK) -> i64 { match e { EraK::ShelleyMA => 0, EraK::Alonzo => 1, EraK::Babbage => 2, EraK::Conway => 3, _ => -9 } }
fn era_name(e: EraK) -> &'static str { match e { EraK::Alonzo => "alonzo", EraK::Babbage => "babbage", EraK::Conway => "conway", EraK::ShelleyMA => "shelley_ma", EraK::Byron => "byron" } }

fn with_params(pp: &PP, a: u32, b: u32, max: u32) -> PP {
    let mut p = pp.clone();
    match &mut p {
        PP::Shelley(x) => { x.minfee_a = a; x.minfee_b = b; x.max_transaction_size = max; }
        PP::Alonzo(x) => { x.minfee_a = a; x.minfee_b = b; x.max_transaction_size = max; }
        PP::Babbage(x) => { x.minfee_a = a; x.minfee_b = b; x.max_transaction_size = max; }
        PP::Conway(x) => { x.minfee_a = a; x.minfee_b = b; x.max_transaction_size = max; }
        _ => {}
    }
    p
}
fn params_of(pp: &PP) -> (u32, u32, u32) {
    match pp {
        PP::Shelley(x) => (x.minfee_a, x.minfee_b, x.max_transaction_size),
        PP::Alonzo(x) => (x.minfee_a, x.minfee_b, x.max_transaction_size),
        PP::Babbage(x) => (x.minfee_a, x.minfee_b, x.max_transaction_size),
        PP::Conway(x) => (x.minfee_a, x.minfee_b, x.max_transaction_size),
        _ => (0, 0, 0),
    }
}

fn class_of(r: &Out<()>) -> i64 {
    match r {
        Out::Ok(_) => 0,
        Out::Err(e) => if e.contains("FeeBelowMin") || e.contains("FeesBelowMin") { 1 } else if e.contains("MaxTxSizeExceeded") { 2 } else { 9 },
        Out::Panic(_) => -1,
    }
}
fn e(r: Result<(), ValidationError>) -> Result<(), String> { r.map_err(|e| format!("{e:?}")) }

/// (body len, wits len, aux len or -1, ledger size) from the raw bytes
fn lens(tx: &[u8]) -> (i64, i64, i64, i64) {
    let p = split(tx);
    assert!(p.head.len() == 1 && (p.tail[0] == 0xf5 || p.tail[0] == 0xf4), "4-element tx expected");
    let aux = if p.tail[1..] == [0xf6] { -1 } else { (p.tail.len() - 1) as i64 };
    (p.body.len() as i64, p.wits.len() as i64, aux, tx.len() as i64 - 1)
}

/// the era's fee rule on a body with the given fee
fn fee_rule(era: EraK, body: &[u8], pp: &PP, size: u32) -> Option<Out<()>> {
    use pallas_validate::phase1 as p1;
    match (era, pp) {
        (EraK::ShelleyMA, PP::Shelley(pp)) => { let b: alonzo::TransactionBody = minicbor::decode(body).ok()?; Some(guard(|| e(p1::shelley_ma::verif::check_fees(&b, &size, pp)))) }
        (EraK::Alonzo, PP::Alonzo(pp)) => { let b: alonzo::TransactionBody = minicbor::decode(body).ok()?; Some(guard(|| e(p1::alonzo::verif::check_min_fee(&b, &size, pp)))) }
        (EraK::Babbage, PP::Babbage(pp)) => { let b: babbage::TransactionBody = minicbor::decode(body).ok()?; Some(guard(|| e(p1::babbage::verif::check_min_fee(&b, &size, pp)))) }
        (EraK::Conway, PP::Conway(pp)) => { let b: conway::TransactionBody = minicbor::decode(body).ok()?; Some(guard(|| e(p1::conway::verif::check_min_fee(&b, &size, pp)))) }
        _ => None,
    }
}
fn size_rule(era: EraK, pp: &PP, size: u32) -> Option<Out<()>> {
    use pallas_validate::phase1 as p1;
    match (era, pp) {
        (EraK::ShelleyMA, PP::Shelley(pp)) => Some(guard(|| e(p1::shelley_ma::verif::check_tx_size(&size, pp)))),
        (EraK::Alonzo, PP::Alonzo(pp)) => Some(guard(|| e(p1::alonzo::verif::check_tx_size(&size, pp)))),
        (EraK::Babbage, PP::Babbage(pp)) => Some(guard(|| e(p1::babbage::verif::check_tx_size(&size, pp)))),
        (EraK::Conway, PP::Conway(pp)) => Some(guard(|| e(p1::conway::verif::check_tx_size(&size, pp)))),
        _ => None,
    }
}
/// (validator size function, MultiEraTx::size) on tx bytes
fn size_fns(era: EraK, tx: &[u8]) -> Option<(Out<i64>, Out<i64>)> {
    use pallas_validate::utils as u;
    match era {
        EraK::ShelleyMA | EraK::Alonzo => {
            let m: alonzo::Tx = minicbor::decode(tx).ok()?;
            let te = if era == EraK::Alonzo { Era::Alonzo } else { Era::Mary };
            Some((guard_total(|| u::get_alonzo_comp_tx_size(&m) as i64), guard_total(|| MultiEraTx::from_alonzo_compatible(&m, te).size() as i64)))
        }
        EraK::Babbage => {
            let m: babbage::Tx = minicbor::decode(tx).ok()?;
            Some((guard(|| u::get_babbage_tx_size(&m).map(|x| x as i64).ok_or("None".to_string())), guard_total(|| MultiEraTx::from_babbage(&m).size() as i64)))
        }
        EraK::Conway => {
            let m: conway::Tx = minicbor::decode(tx).ok()?;
            Some((guard(|| u::get_conway_tx_size(&m).map(|x| x as i64).ok_or("None".to_string())), guard_total(|| MultiEraTx::from_conway(&m).size() as i64)))
        }
        _ => None,
    }
}
fn out_i(o: &Out<i64>) -> i64 { match o { Out::Ok(v) => *v, Out::Err(_) => -2, Out::Panic(_) => -1 } }

struct Ctx { oracle_only: bool, n: [u64; 5], acc: u64, rej_fee: u64, rej_size: u64, rej_other: u64 }

fn case(cx: &mut Ctx, tag: &str, kind: i64, era: EraK, p: [i128; 7], obs: i64) {
    cx.n[kind as usize] += 1;
    if !cx.oracle_only {
        emit_case(tag, &format!("({},{},{},{},{},{},{},{},{},{})", kind, era_code(era), coq_z(p[0]), coq_z(p[1]), coq_z(p[2]), coq_z(p[3]), coq_z(p[4]), coq_z(p[5]), coq_z(p[6]), coq_z(obs)));
    }
}

fn run_fee_rule(cx: &mut Ctx, era: EraK, body0: &RawMap, pp0: &PP, fee: u64, a: u32, b: u32, size: u32, tag: &str) {
    let mut body = body0.clone();
    body.set(2, enc_u64(fee));
    let pp = with_params(pp0, a, b, 16384);
    let r = match fee_rule(era, &body.encode(), &pp, size) { Some(r) => r, None => { emit_stat("fee_rule_undecodable", 1); return; } };
    let c = class_of(&r);
    let min = b as u128 + a as u128 * size as u128;
    let expect_ok = fee as u128 >= min;
    if (c == 0) != expect_ok {
        let what = if c == -1 { "panic" } else if expect_ok { if fee as u128 == min { "fee-at-minimum-rejected" } else { "fee-above-minimum-rejected" } } else { "fee-below-minimum-accepted" };
        emit_oracle_fail(&format!("rule:{}:min-fee:{}", era_name(era), what),
            &format!("fee rule of {} with fee={} minfee_a={} minfee_b={} size={} (minimum {}) answers {}", era_name(era), fee, a, b, size, min,
                match &r { Out::Ok(_) => "Ok".to_string(), Out::Err(x) => x.clone(), Out::Panic(p) => format!("PANIC {p}") }));
    }
    case(cx, tag, 0, era, [fee as i128, a as i128, b as i128, size as i128, 0, 0, 0], c);
}

fn run_size_rule(cx: &mut Ctx, era: EraK, pp0: &PP, size: u32, max: u32) {
    let pp = with_params(pp0, 44, 155381, max);
    let r = size_rule(era, &pp, size).unwrap();
    let c = class_of(&r);
    if (c == 0) != (size <= max) {
        emit_oracle_fail(&format!("rule:{}:max-size:{}", era_name(era), if size <= max { "size-within-limit-rejected" } else { "size-above-limit-accepted" }),
            &format!("check_tx_size of {} with size={} max_transaction_size={} answers class {}", era_name(era), size, max, c));
    }
    case(cx, "rule-max-size", 1, era, [size as i128, max as i128, 0, 0, 0, 0, 0], c);
}

fn run_size_fns(cx: &mut Ctx, era: EraK, tx: &[u8], tag: &str, what: &str) {
    let (b, w, aux, s) = lens(tx);
    let (v, t) = match size_fns(era, tx) { Some(x) => x, None => { emit_stat("size_variant_undecodable", 1); return; } };
    let (v, t) = (out_i(&v), out_i(&t));
    if v != s {
        emit_oracle_fail(&format!("size:{}:validator-size-differs-from-ledger-size:{:+}:{}", era_name(era), v - s, if aux < 0 { "no-aux" } else { "aux" }),
            &format!("{} ({}): the validator's size function gives {} but the serialized transaction without the validity flag has {} bytes (body {}, witnesses {}, aux {}); tx={}", what, era_name(era), v, s, b, w, aux, hex(tx)));
    }
    if t != s {
        emit_oracle_fail(&format!("size:{}:traverse-size-differs-from-ledger-size:{:+}", era_name(era), t - s),
            &format!("{} ({}): MultiEraTx::size gives {} but the serialized transaction without the validity flag has {} bytes; tx={}", what, era_name(era), t, s, hex(tx)));
    }
    case(cx, &format!("size-fn-{tag}"), 2, era, [b as i128, w as i128, aux as i128, 0, 0, 0, 0], v);
    case(cx, &format!("size-traverse-{tag}"), 3, era, [b as i128, w as i128, aux as i128, 0, 0, 0, 0], t);
}

#[allow(clippy::too_many_arguments)]
fn run_e2e(cx: &mut Ctx, f: &Fixture, tx: &[u8], rekeyed: bool, a: u32, b: u32, max: u32, tag: &str, what: &str) {
    let (bl, wl, aux, s) = lens(tx);
    let fee = body_fee(&RawMap::parse(&split(tx).body));
    let mut res: Option<Out<()>> = None;
    (f.run)(tx, &mut |metx, utxos, env, cs| {
        let env2 = env_with(env, with_params(env.prot_params(), a, b, max));
        let u2;
        let u: &UTxOs = if rekeyed { u2 = rekey_utxos(utxos).expect("rekey"); &u2 } else { utxos };
        res = Some(guard(|| e(validate_tx(metx, 0, &env2, u, cs))));
    });
    let r = res.expect("ran");
    let accepted = matches!(r, Out::Ok(_));
    match class_of(&r) { 0 => cx.acc += 1, 1 => cx.rej_fee += 1, 2 => cx.rej_size += 1, _ => cx.rej_other += 1 }
    let min = b as u128 + a as u128 * s as u128;
    let fee_ok = fee as u128 >= min;
    let size_ok = s <= max as i64;
    let rtxt = match &r { Out::Ok(_) => "accepted".to_string(), Out::Err(x) => format!("rejected with {x}"), Out::Panic(p) => format!("PANIC {p}") };
    let detail = format!("fixture {} ({}): fee={} minfee_a={} minfee_b={} ledger size={} (minimum fee {}) max_transaction_size={}: {}; tx={}", f.name, what, fee, a, b, s, min, max, rtxt, hex(tx));
    if accepted && !fee_ok { emit_oracle_fail(&format!("e2e:{}:fee-below-minimum-accepted", era_name(f.era)), &detail); }
    if accepted && !size_ok { emit_oracle_fail(&format!("e2e:{}:size-above-limit-accepted", era_name(f.era)), &detail); }
    if !accepted && fee_ok && size_ok {
        let k = match class_of(&r) { 1 => if fee as u128 == min { "fee-at-minimum-rejected" } else { "fee-above-minimum-rejected" }, 2 => if s == max as i64 { "size-at-limit-rejected" } else { "size-below-limit-rejected" }, -1 => "panic", _ => "rejected-by-another-rule" };
        emit_oracle_fail(&format!("e2e:{}:{}", era_name(f.era), k), &detail);
    }
    case(cx, tag, 4, f.era, [bl as i128, wl as i128, aux as i128, fee as i128, a as i128, b as i128, max as i128], if accepted { 1 } else { 0 });
}

/// re-price a re-signable fixture: fee := target, output `k` absorbs the difference
fn reprice(tx: &[u8], new_fee: u64) -> Option<Vec<u8>> {
    let p = split(tx);
    let mut body = RawMap::parse(&p.body);
    let wits = RawMap::parse(&p.wits);
    let fee = body_fee(&body);
    let mut outs = body_outputs(&body);
    // the output with the most ada absorbs the difference
    let k = (0..outs.len()).max_by_key(|i| value_coin(&output_value(&outs[*i])))?;
    let v = output_value(&outs[k]);
    let coin = value_coin(&v) as i128 + fee as i128 - new_fee as i128;
    if coin < 0 || coin > u64::MAX as i128 { return None; }
    outs[k] = output_with_value(&outs[k], &value_with_coin(&v, coin as u64));
    // keep the original framing of the outputs array
    body.set(1, encode_array(false, &outs));
    body.set(2, enc_u64(new_fee));
    Some(finish(&p, body, wits))
}

fn main() {
    let args = args();
    let mut rng = Rng::new(args.seed);
    let thorough = args.tier == "thorough";
    let mut cx = Ctx { oracle_only: args.oracle_only, n: [0; 5], acc: 0, rej_fee: 0, rej_size: 0, rej_other: 0 };
    let fx: Vec<Fixture> = fixtures().into_iter().filter(|f| f.era != EraK::Byron).collect();

    // base body + parameters per era for the rule level
    let mut bases: Vec<(EraK, RawMap, PP)> = vec![];
    for (era, name) in [(EraK::ShelleyMA, "shelley1"), (EraK::Alonzo, "alonzo1"), (EraK::Babbage, "babbage3"), (EraK::Conway, "conway3")] {
        let f = fx.iter().find(|f| f.name == name).unwrap();
        let tx = load_tx(f);
        let mut pp = None;
        (f.run)(&tx, &mut |_m, _u, env, _c| { pp = Some(env.prot_params().clone()); });
        bases.push((era, RawMap::parse(&split(&tx).body), pp.unwrap()));
    }

    // corpus: `fee <era 0..3> <fee> <a> <b> <size>` lines
    let corpus = std::env::var("VERIF_DIR").unwrap_or_else(|_| "/verif".into()) + "/corpus/C36";
    if let Ok(rd) = std::fs::read_dir(&corpus) {
        let mut files: Vec<_> = rd.filter_map(|x| x.ok()).map(|x| x.path()).collect();
        files.sort();
        for p in files { for line in std::fs::read_to_string(&p).unwrap_or_default().lines() {
            let t: Vec<&str> = line.split_whitespace().collect();
            if t.len() == 6 && t[0] == "fee" {
                let (era, body, pp) = &bases[t[1].parse::<usize>().unwrap()];
                run_fee_rule(&mut cx, *era, body, pp, t[2].parse().unwrap(), t[3].parse().unwrap(), t[4].parse().unwrap(), t[5].parse().unwrap(), "corpus");
            }
        } }
    }

    // ---- rules
    for i in 0..args.n {
        let (era, body, pp) = &bases[rng.below(4) as usize];
        let era = *era;
        let (a, b, size): (u32, u32, u32) = match rng.below(8) {
            0 | 1 | 2 => (44, 155381, rng.range(100, 16384) as u32),
            3 => (rng.below(200) as u32, rng.below(1 << 20) as u32, rng.below(1 << 16) as u32),
            4 => (rng.edge_u64() as u32, rng.edge_u64() as u32, rng.edge_u64() as u32),
            5 => (1 << rng.range(10, 31), rng.below(1 << 20) as u32, 1 << rng.range(1, 22)),            // product around 2^32
            6 => (u32::MAX - rng.below(2) as u32, u32::MAX - rng.below(2) as u32, u32::MAX - rng.below(2) as u32),
            _ => (rng.next() as u32, rng.next() as u32, rng.next() as u32),
        };
        let min = b as u128 + a as u128 * size as u128;
        let fee: u64 = match rng.below(8) {
            0 | 1 => min as u64,
            2 | 3 => (min as u64).saturating_sub(1),
            4 => (min as u64).saturating_add(1),
            5 => (min % (1u128 << 32)) as u64,            // what a u32 computation would give
            6 => rng.edge_u64(),
            _ => rng.below(min as u64 + 2),
        };
        if i < 3 { emit_sample(&format!("fee rule era={} fee={} a={} b={} size={}", era_name(era), fee, a, b, size)); }
        run_fee_rule(&mut cx, era, body, pp, fee, a, b, size, &format!("rule-min-fee-{}", era_name(era)));
        if i % 4 == 0 {
            let max = match rng.below(4) { 0 => 16384, 1 => rng.edge_u64() as u32, _ => rng.range(0, 20000) as u32 };
            let sz = match rng.below(5) { 0 => max, 1 => max.saturating_sub(1), 2 => max.saturating_add(1), 3 => rng.edge_u64() as u32, _ => rng.range(0, 20000) as u32 };
            run_size_rule(&mut cx, era, pp, sz, max);
        }
    }

    // ---- sizes and end to end, per fixture
    for f in &fx {
        let tx = load_tx(f);
        let p = split(&tx);
        run_size_fns(&mut cx, f.era, &tx, "fixture", &format!("fixture {}", f.name));
        // variants: aux removed / small / grown; validity flag false
        let mut variants: Vec<(String, Vec<u8>)> = vec![];
        variants.push(("no-aux".into(), vec![p.tail[0], 0xf6]));
        variants.push(("aux-small".into(), vec![p.tail[0], 0xa1, 0x00, 0x01]));
        for _ in 0..(if thorough { 12 } else { 3 }) {
            let n = match rng.below(3) { 0 => rng.range(0, 23), 1 => rng.range(24, 255), _ => rng.range(256, 3000) } as usize;
            let mut aux = vec![0xa1, 0x00];
            aux.extend(enc_bytes(&rng.bytes(n.min(64))));
            if n > 64 { aux = vec![0xa1, 0x00, 0x9f]; for _ in 0..(n / 64) { aux.extend(enc_bytes(&rng.bytes(64))); } aux.push(0xff); }
            let mut t = vec![p.tail[0]]; t.extend(aux);
            variants.push(("aux-grown".into(), t));
        }
        variants.push(("flag-false".into(), { let mut t = p.tail.clone(); t[0] = 0xf4; t }));
        for (name, tail) in &variants {
            let v = join(&Parts { head: p.head.clone(), body: p.body.clone(), wits: p.wits.clone(), tail: tail.clone() });
            run_size_fns(&mut cx, f.era, &v, name, &format!("fixture {} variant {}", f.name, name));
        }

        // end to end on the unmodified transaction: limits moved
        let (_, _, _, s) = lens(&tx);
        let s = s as u32;
        let fee = body_fee(&RawMap::parse(&p.body));
        let mut pr = (0u32, 0u32, 0u32);
        (f.run)(&tx, &mut |_m, _u, env, _c| { pr = params_of(env.prot_params()); });
        let (a0, b0, max0) = pr;
        let tagp = format!("e2e-{}", era_name(f.era));
        run_e2e(&mut cx, f, &tx, false, a0, b0, max0, &format!("{tagp}-orig"), "unchanged");
        for (mx, w) in [(s, "size limit = ledger size"), (s - 1, "size limit = ledger size - 1"), (s + 1, "size limit = ledger size + 1")] {
            run_e2e(&mut cx, f, &tx, false, a0, b0, mx, &format!("{tagp}-size-limit"), w);
        }
        // fee parameters such that minimum = fee, fee + 1, fee - 1 (a kept when possible)
        let mut choices: Vec<(u32, i128)> = vec![];
        for a in [a0, 1u32, 0, (fee / s as u64).min(u32::MAX as u64) as u32, rng.range(1, 400) as u32] {
            let b = fee as i128 - a as i128 * s as i128;
            choices.push((a, b));
        }
        for (a, b) in choices {
            for d in [0i128, 1, -1] {
                let bb = b + d;
                if bb < 0 || bb > u32::MAX as i128 { continue; }
                run_e2e(&mut cx, f, &tx, false, a, bb as u32, max0.max(s), &format!("{tagp}-fee-params"), &format!("minimum fee = fee paid {:+}", d));
            }
        }
        // both at once
        let b = fee as i128 - a0 as i128 * s as i128;
        if (0..=u32::MAX as i128).contains(&b) {
            run_e2e(&mut cx, f, &tx, false, a0, b as u32, s, &format!("{tagp}-both-at-boundary"), "minimum fee = fee paid and size limit = ledger size");
        }
        // re-priced and re-signed (fee := minimum of the re-priced transaction; fixpoint on the size)
        let mut resignable = false;
        {
            let t0 = finish(&p, RawMap::parse(&p.body), RawMap::parse(&p.wits));
            (f.run)(&t0, &mut |metx, utxos, env, cs| {
                if let Some(u2) = rekey_utxos(utxos) { resignable = matches!(guard(|| e(validate_tx(metx, 0, env, &u2, cs))), Out::Ok(_)); }
            });
        }
        if resignable {
            let mut target = b0 as u64 + a0 as u64 * s as u64;
            let mut cur: Option<Vec<u8>> = None;
            for _ in 0..6 {
                match reprice(&tx, target) {
                    Some(t) => { let (_, _, _, s2) = lens(&t); let m2 = b0 as u64 + a0 as u64 * s2 as u64; cur = Some(t); if m2 == target { break; } target = m2; }
                    None => { cur = None; break; }
                }
            }
            if let Some(t) = cur {
                let (_, _, _, s2) = lens(&t);
                if b0 as u64 + a0 as u64 * s2 as u64 == target {
                    run_e2e(&mut cx, f, &t, true, a0, b0, max0.max(s2 as u32), &format!("{tagp}-repriced-min"), "re-priced to the minimum fee");
                    if let Some(t1) = reprice(&tx, target - 1) {
                        let (_, _, _, s3) = lens(&t1);
                        if s3 == s2 { run_e2e(&mut cx, f, &t1, true, a0, b0, max0.max(s2 as u32), &format!("{tagp}-repriced-min-1"), "re-priced to the minimum fee - 1"); }
                    }
                    run_e2e(&mut cx, f, &t, true, a0, b0, s2 as u32, &format!("{tagp}-repriced-min-size-limit"), "re-priced to the minimum fee, size limit = ledger size");
                }
            } else { emit_stat("reprice_failed", 1); }
        }
    }
    emit_stat("fee_rule_cases", cx.n[0]);
    emit_stat("size_rule_cases", cx.n[1]);
    emit_stat("size_fn_cases", cx.n[2] + cx.n[3]);
    emit_stat("e2e_cases", cx.n[4]);
    emit_stat("e2e_accepted", cx.acc);
    emit_stat("e2e_rejected_fee", cx.rej_fee);
    emit_stat("e2e_rejected_size", cx.rej_size);
    emit_stat("e2e_rejected_other", cx.rej_other);
}
