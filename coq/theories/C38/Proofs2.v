(* C38 proofs, part 2: acceptance by each era validator implies each of its rules. *)
From PV Require Import Lib.Base C33.Model C33.ModelPA C33.Proofs C38.Model C38.Proofs.
Open Scope Z_scope.

Ltac split_checks H := repeat (apply Forall_cons_iff in H as [?C H]).

(* ================================================================ Byron *)
Lemma byron_rules t u e : t_era t = 0 -> Forall (fun c => c = Ok tt) (byron_checks t u e) -> rules_byron t u e.
Proof.
  intros Et H. unfold byron_checks in H. split_checks H.
  unfold rules_byron. repeat split.
  - apply fail_if_ok, is_nil_false in C. exact C.
  - unfold R_inputs_in_utxo. rewrite Et. cbn [Z.eqb].
    apply fail_if_ok, negb_false in C1. rewrite forallb_forall in C1. apply Forall_forall. intros i Hi.
    specialize (C1 i Hi). unfold resolves. destruct (lookup true i u); [eauto | discriminate].
  - apply fail_if_ok, is_nil_false in C0. exact C0.
  - apply fail_if_ok, existsb_false in C2. eapply Forall_impl; [|exact C2]. cbn. intros a Ha. lia.
  - apply fail_if_ok in C4. unfold R_byron_size. lia.
Qed.

(* ================================================================ Shelley-MA *)
Lemma sh_network_ok t e : sh_check_network_id t e = Ok tt -> R_outputs_network t e.
Proof.
  unfold sh_check_network_id, R_outputs_network. induction (t_outputs t) as [|o r IH]; intros H; [constructor|].
  destruct (o_addr o) as [net p| |] eqn:Ea; try discriminate.
  destruct (negb (net =? e_netid e)) eqn:En; [discriminate|]. apply negb_false, Z.eqb_eq in En. subst.
  constructor; [eauto | apply IH; exact H].
Qed.
Lemma shelley_rules dev t u e : wf_params (e_pp e) = true -> 1 <= t_era t <= 3 ->
  Forall (fun c => c = Ok tt) (shelley_checks dev t u e) -> rules_shelley t u e.
Proof.
  intros Hw Et H. unfold shelley_checks in H. split_checks H.
  unfold rules_shelley. repeat split.
  - apply fail_if_ok, is_nil_false in C. exact C.
  - unfold R_inputs_in_utxo. replace (t_era t =? 0) with false by lia.
    apply fail_if_ok, negb_false in C0. apply forallb_in_utxo; exact C0.
  - unfold sh_check_ttl in C1. unfold R_ttl. destruct (t_ttl t) as [ttl|]; [|discriminate].
    apply fail_if_ok in C1. exists ttl. split; [reflexivity | lia].
  - apply fail_if_ok in C2. unfold R_tx_size, as_u32 in *. lia.
  - unfold sh_check_min_lovelace_era in C3. unfold R_min_ada_shelley.
    destruct (is_nil (t_outputs t)) eqn:En.
    { destruct (t_outputs t); [constructor | discriminate]. }
    replace ((1 <=? t_era t) && (t_era t <=? 3)) with true in C3 by lia.
    unfold sh_check_min_lovelace in C3. apply fail_if_ok, existsb_false in C3.
    eapply Forall_impl; [|exact C3]. cbn. intros o Ho. unfold sh_min_lovelace in Ho.
    destruct (o_val o) as [c|c ma]; cbn [coin_of] in Ho; [lia|].
    destruct (cadd64 (o_words o) 27) as [sz|] eqn:E1; [|discriminate]. apply cadd64_val in E1.
    destruct (cmul64 sz (p_min_utxo_value (e_pp e) / 27)) as [m|] eqn:E2; [|discriminate]. apply cmul64_val in E2.
    subst. lia.
  - unfold sh_check_fees in C6. rewrite (min_fee_val dev _ _ Hw) in C6. cbn [bind] in C6.
    apply fail_if_ok in C6. unfold R_min_fee. lia.
  - apply sh_network_ok; exact C7.
  - eapply check_aux_ok; exact C8.
  - unfold sh_check_minting in C10. unfold R_mint_witnessed_shelley. intros m pol a Hm Hin. rewrite Hm in C10.
    apply fail_if_ok, negb_false in C10. eapply forallb_In in C10; [|exact Hin]. cbn in C10.
    apply existsb_exists in C10 as (n & Hn & E). apply Z.eqb_eq in E. eauto.
Qed.

(* ================================================================ Alonzo *)
Lemma al_coll_assets_ok c u fee pct : al_coll_assets c u fee pct = Ok tt ->
  forall i o, In i c -> lookup false i u = Some o -> is_alonzo_c o = true ->
    fee * pct <= coin_of (u_val o) * 100 /\ (forall c' ma, u_val o = VMulti c' ma -> ma = []).
Proof.
  induction c as [|j r IH]; cbn [al_coll_assets]; intros H i o Hi Ho Ha; [destruct Hi|].
  apply bind_ok_u in H as (oj & Hoj & H). apply ok_or_ok in Hoj. apply bind_ok_u in H as ([] & H1 & H2).
  destruct Hi as [<-|Hi]; [|eapply IH; eauto].
  rewrite Ho in Hoj. inversion Hoj; subst. rewrite Ha in H1.
  apply bind_ok_u in H1 as (b & Hb & H1). apply pct_below_val in Hb. subst b.
  destruct (coin_of (u_val oj) * 100 <? fee * pct) eqn:E; [discriminate|]. split; [lia|].
  intros c' ma Hv. rewrite Hv in H1. destruct ma; [reflexivity | discriminate].
Qed.
Lemma al_input_datums_ok ins u : forall ds ds', al_input_datums ins u ds = Ok ds' ->
  map snd ds' = map snd ds /\
  forall i o h, In i ins -> lookup false i u = Some o -> is_alonzo_c o = true -> u_datum o = DHash h -> In h (map snd ds).
Proof.
  induction ins as [|j r IH]; cbn [al_input_datums]; intros ds ds' H.
  - inversion H; subst. split; [reflexivity | intros ? ? ? []].
  - destruct (lookup false j u) as [oj|] eqn:Ej; [|discriminate]. destruct (is_alonzo_c oj) eqn:Ea; [|discriminate].
    destruct (datum_hash_of (u_datum oj)) as [hj|] eqn:Ed.
    + apply bind_ok in H as (ds1 & H1 & H). apply ok_or_ok, mark_datum_spec in H1 as [Hin Hm].
      apply IH in H as [Hm2 Hall]. split; [congruence|].
      intros i o h [<-|Hi] Ho Hao Hd.
      * rewrite Ej in Ho. inversion Ho; subst. rewrite Hd in Ed. cbn in Ed. inversion Ed; subst. exact Hin.
      * rewrite <- Hm. eapply Hall; eauto.
    + apply IH in H as [Hm2 Hall]. split; [exact Hm2|].
      intros i o h [<-|Hi] Ho Hao Hd.
      * rewrite Ej in Ho. inversion Ho; subst. rewrite Hd in Ed. discriminate.
      * eapply Hall; eauto.
Qed.
Lemma map_snd_fresh l : map snd (fresh l) = l.
Proof. unfold fresh. rewrite map_map. cbn. apply map_id. Qed.

Lemma alonzo_rules dev t u e : wf_params (e_pp e) = true -> t_era t = 4 ->
  Forall (fun c => c = Ok tt) (alonzo_checks dev t u e) -> rules_alonzo t u e.
Proof.
  intros Hw Et H. unfold alonzo_checks in H. split_checks H.
  (* pieces of check_fee and check_witness_set *)
  unfold al_check_fee in C2. apply bind_ok_u in C2 as ([] & Cfee & Ccoll).
  unfold al_check_witness_set in C9.
  apply bind_ok_u in C9 as ([] & Wscripts & C9). apply bind_ok_u in C9 as ([] & Wdatums & C9).
  apply bind_ok_u in C9 as ([] & Wptrs & _).
  unfold al_check_ins_coll_in_utxos in C0. apply bind_ok_u in C0 as ([] & Cins & Ccol).
  unfold rules_alonzo. repeat match goal with |- _ /\ _ => split end.
  - apply fail_if_ok, is_nil_false in C. exact C.
  - unfold R_inputs_in_utxo. rewrite Et. cbn [Z.eqb]. apply fail_if_ok, negb_false in Cins. apply forallb_in_utxo; exact Cins.
  - intros c Hc. rewrite Hc in Ccol. cbn [opt_list] in Ccol. apply fail_if_ok, negb_false in Ccol. apply forallb_in_utxo; exact Ccol.
  - eapply check_validity_ok; exact C1.
  - eapply check_min_fee_ok; eauto.
  - intros Hp. rewrite Hp in Ccoll. unfold al_check_collaterals in Ccoll.
    apply bind_ok_u in Ccoll as (c & Hc & Ccoll). apply ok_or_ok in Hc.
    apply bind_ok_u in Ccoll as ([] & Hn & Ccoll). apply bind_ok_u in Ccoll as ([] & Ha & _).
    apply coll_number_ok in Hn as [Hne Hmax]. exists c. repeat split; try assumption.
    eapply coll_address_ok; exact Ha.
  - intros Hp c i o Hc Hi Ho Ha. rewrite Hp in Ccoll. unfold al_check_collaterals in Ccoll.
    apply bind_ok_u in Ccoll as (c' & Hc' & Ccoll). apply ok_or_ok in Hc'. rewrite Hc in Hc'. inversion Hc'; subst c'.
    apply bind_ok_u in Ccoll as ([] & _ & Ccoll). apply bind_ok_u in Ccoll as ([] & _ & Hassets).
    eapply al_coll_assets_ok; eauto.
  - eapply min_lovelace_ok; [|exact C4]. intros o m Hf Hm. unfold al_min_lovelace in Hf.
    destruct (cadd64 (o_words o) _) as [sz|] eqn:E1; [|discriminate]. apply cadd64_val in E1. apply cmul64_val in Hf. subst. lia.
  - eapply check_val_size_ok; exact C5.
  - eapply check_network_ok; exact C6.
  - apply fail_if_ok in C7. unfold R_tx_size, as_u32 in *. lia.
  - eapply check_ex_units_ok; exact C8.
  - eapply check_ex_units_ok; exact C8.
  - (* mint witnessed: check_minting *)
    unfold al_check_minting in C13. intros m pol a Hm Hin. rewrite Hm in C13.
    apply fail_if_ok, negb_false in C13. eapply forallb_In in C13; [|exact Hin]. cbn in C13.
    apply in_or_app. apply orb_true_iff in C13 as [H1|H1]; apply mem_z_In in H1; auto.
  - (* script inputs witnessed *)
    unfold al_check_needed_scripts in Wscripts. apply bind_ok_u in Wscripts as ([] & W1 & _).
    apply fail_if_ok, negb_false in W1. rewrite !map_snd_fresh in W1.
    intros i o net h Hi Ho Hown Ha.
    eapply forallb_In in W1; [|unfold al_input_script_hashes; eapply filter_map_In; [exact Hi | eapply script_hash_of_spec; eauto]].
    apply in_or_app. apply orb_true_iff in W1 as [H1|H1]; apply mem_z_In in H1; auto.
  - (* no extraneous scripts *)
    unfold al_check_needed_scripts in Wscripts. apply bind_ok_u in Wscripts as ([] & _ & W).
    apply bind_ok_u in W as ([] & _ & W). apply bind_ok_u in W as ([] & Wn & Wv).
    apply fail_if_ok in Wn. apply fail_if_ok in Wv.
    assert (Hmm : forall n1 n2 l, mark n2 (mark n1 (fresh l)) = mark (n1 ++ n2) (fresh l)).
    { intros n1 n2 l. unfold mark, fresh. rewrite !map_map. apply map_ext. intros x. cbn.
      f_equal. unfold mem_z. rewrite existsb_app. reflexivity. }
    rewrite Hmm in Wn, Wv.
    intros h Hh _. apply in_app_or in Hh.
    assert (Hin : In h (al_input_script_hashes t u ++ match t_mint t with Some m => map fst m | None => [] end)).
    { destruct Hh as [Hh|Hh]; [eapply unmarked_false in Wn | eapply unmarked_false in Wv]; eauto. }
    apply in_app_or in Hin as [Hin|Hin].
    + left. apply filter_map_inv in Hin as (i & Hi & Hs). apply script_hash_of_inv in Hs as (o & n & ? & ? & ?).
      exists i, o, n. auto.
    + right. destruct (t_mint t) as [m|]; [|destruct Hin]. apply in_map_iff in Hin as ([p a] & E & Hin). cbn in E. subst.
      exists m, a. auto.
  - (* input datums *)
    unfold al_check_datums in Wdatums. apply bind_ok_u in Wdatums as (ds & Hds & _).
    apply al_input_datums_ok in Hds as [_ Hall]. rewrite map_snd_fresh in Hall. exact Hall.
  - unfold R_redeemers. eapply ptrs_coincide_ok; exact Wptrs.
  - eapply check_aux_ok; exact C11.
  - unfold al_check_sdh in C12. unfold R_script_integrity_legacy. destruct (t_sdh t) as [h|].
    + destruct (w_datums t), (w_redeemers t); try discriminate.
      apply fail_if_ok, negb_false, mem_z_In in C12. repeat split; [exact C12 | discriminate | discriminate].
    + apply fail_if_ok, negb_false, andb_true_iff in C12 as [H1 H2].
      split; [destruct (w_datums t) as [[|]|] | destruct (w_redeemers t) as [[|]|]]; cbn in *; try reflexivity; discriminate.
Qed.

(* ================================================================ Babbage / Conway *)
Lemma pa_input_datums_ok cw ins u : forall ds ds', pa_input_datums cw ins u ds = Ok ds' ->
  map snd ds' = map snd ds /\
  forall i o h, In i ins -> lookup false i u = Some o -> (if cw then true else own_era false o) = true ->
    u_datum o = DHash h -> In h (map snd ds).
Proof.
  induction ins as [|j r IH]; cbn [pa_input_datums]; intros ds ds' H.
  - inversion H; subst. split; [reflexivity | intros ? ? ? []].
  - apply bind_ok in H as (oj & Hoj & H). apply ok_or_ok in Hoj.
    destruct (negb cw && negb (own_era false oj)) eqn:Eg; [discriminate|].
    destruct (datum_hash_of (u_datum oj)) as [hj|] eqn:Ed.
    + apply bind_ok in H as (ds1 & H1 & H). apply ok_or_ok, mark_datum_spec in H1 as [Hin Hm].
      apply IH in H as [Hm2 Hall]. split; [congruence|].
      intros i o h [<-|Hi] Ho Hl Hd.
      * rewrite Hoj in Ho. inversion Ho; subst. rewrite Hd in Ed. cbn in Ed. inversion Ed; subst. exact Hin.
      * rewrite <- Hm. eapply Hall; eauto.
    + apply IH in H as [Hm2 Hall]. split; [exact Hm2|].
      intros i o h [<-|Hi] Ho Hl Hd.
      * rewrite Hoj in Ho. inversion Ho; subst. rewrite Hd in Ed. discriminate.
      * eapply Hall; eauto.
Qed.
Lemma In_filter_sub {A} (f : A -> bool) l x : In x (filter f l) -> In x l.
Proof. intros H. apply filter_In in H. tauto. Qed.

Lemma In_avail pp l : In l ((if p_cm_v1 pp then [1] else []) ++ (if p_cm_v2 pp then [2] else []) ++ (if p_cm_v3 pp then [3] else [])) ->
  (l = 1 /\ p_cm_v1 pp = true) \/ (l = 2 /\ p_cm_v2 pp = true) \/ (l = 3 /\ p_cm_v3 pp = true).
Proof.
  rewrite !in_app_iff. destruct (p_cm_v1 pp), (p_cm_v2 pp), (p_cm_v3 pp); cbn; intuition.
Qed.

Lemma pa_rules dev cw t u e : wf_params (e_pp e) = true -> t_era t <> 0 ->
  Forall (fun c => c = Ok tt) (pa_checks dev cw t u e) -> rules_pa cw t u e.
Proof.
  intros Hw Et H. unfold pa_checks in H. split_checks H.
  unfold pa_check_all_ins in C0. apply bind_ok_u in C0 as ([] & Cins & C0). apply bind_ok_u in C0 as ([] & Ccol & Cref).
  unfold pa_check_fee in C2. apply bind_ok_u in C2 as ([] & Cfee & Ccoll).
  unfold pa_check_witness_set in C11.
  apply bind_ok_u in C11 as ([] & Wscripts & C11). apply bind_ok_u in C11 as ([] & Wdatums & C11).
  apply bind_ok_u in C11 as (needed & Wneeded & C11). apply bind_ok_u in C11 as ([] & Wptrs & _).
  unfold pa_check_needed_scripts in Wscripts.
  apply bind_ok_u in Wscripts as ([] & S1 & Wscripts). apply bind_ok_u in Wscripts as ([] & S2 & Wscripts).
  apply bind_ok_u in Wscripts as ([] & Un & Wscripts). apply bind_ok_u in Wscripts as ([] & U1 & Wscripts).
  apply bind_ok_u in Wscripts as ([] & U2 & U3).
  apply fail_if_ok in Un, U1, U2, U3. apply fail_if_ok, negb_false in S1. apply fail_if_ok, negb_false in S2.
  rewrite !map_snd_fresh in S1, S2.
  unfold rules_pa. repeat match goal with |- _ /\ _ => split end.
  - apply fail_if_ok, is_nil_false in C. exact C.
  - unfold R_inputs_in_utxo. replace (t_era t =? 0) with false by lia.
    apply fail_if_ok, negb_false in Cins. apply forallb_in_utxo; exact Cins.
  - intros c Hc. rewrite Hc in Ccol. cbn [opt_list] in Ccol. apply fail_if_ok, negb_false in Ccol. apply forallb_in_utxo; exact Ccol.
  - intros c Hc. rewrite Hc in Cref. cbn [opt_list] in Cref. apply fail_if_ok, negb_false in Cref. apply forallb_in_utxo; exact Cref.
  - eapply check_validity_ok; exact C1.
  - eapply check_min_fee_ok; eauto.
  - intros Hp. rewrite Hp in Ccoll. unfold pa_check_collaterals in Ccoll.
    apply bind_ok_u in Ccoll as (c & Hc & Ccoll). apply ok_or_ok in Hc.
    apply bind_ok_u in Ccoll as ([] & Hn & Ccoll). apply bind_ok_u in Ccoll as ([] & Ha & _).
    apply coll_number_ok in Hn as [Hne Hmax]. exists c. repeat split; try assumption.
    eapply coll_address_ok; exact Ha.
  - intros Hp c ci a Hc Hci Ha. rewrite Hp in Ccoll. unfold pa_check_collaterals in Ccoll.
    apply bind_ok_u in Ccoll as (c' & Hc' & Ccoll). apply ok_or_ok in Hc'. rewrite Hc in Hc'. inversion Hc'; subst c'.
    apply bind_ok_u in Ccoll as ([] & _ & Ccoll). apply bind_ok_u in Ccoll as ([] & _ & Hassets).
    unfold pa_coll_assets in Hassets. rewrite Hc in Hassets.
    apply bind_ok_u in Hassets as ([] & _ & Hassets). rewrite Hci in Hassets. cbn [bind] in Hassets.
    apply bind_ok_u in Hassets as (paid & Hpaid & Hassets). apply lovelace_diff_val in Hpaid.
    apply bind_ok_u in Hassets as (b & _ & Hassets). apply bind_ok_u in Hassets as ([] & _ & Hassets).
    rewrite Ha in Hassets. apply fail_if_ok, negb_false, Z.eqb_eq in Hassets. subst.
    destruct (t_coll_return t); [rewrite out_value_coin|]; reflexivity.
  - eapply min_lovelace_ok; [|exact C4]. intros o m Hf Hm. unfold pa_min_lovelace in Hf.
    destruct (cadd64 (o_words o) 160) as [sz|] eqn:E1; [|discriminate]. apply cadd64_val in E1. apply cmul64_val in Hf. subst. lia.
  - eapply check_val_size_ok; exact C5.
  - eapply check_network_ok; exact C6.
  - apply fail_if_ok in C7. unfold R_tx_size, as_u32 in *. lia.
  - eapply check_ex_units_ok; exact C8.
  - eapply check_ex_units_ok; exact C8.
  - unfold pa_check_minting in C9. intros m pol a Hm Hin. rewrite Hm in C9.
    apply fail_if_ok, negb_false in C9. eapply forallb_In in C9; [|exact Hin]. cbn in C9. apply mem_z_In in C9.
    unfold pa_scripts, native_hashes. rewrite !in_app_iff in *. tauto.
  - intros i o net h Hi Ho Hown Ha.
    eapply forallb_In in S1; [|eapply filter_map_In; [exact Hi | eapply script_hash_of_spec; eauto]].
    unfold pa_scripts, native_hashes. rewrite !in_app_iff.
    rewrite !orb_true_iff in S1. rewrite !mem_z_In in S1.
    destruct S1 as [[[[S|S]|S]|S]|S]; try (apply In_filter_sub in S); auto.
    destruct cw; [rewrite map_snd_fresh in S; apply In_filter_sub in S; auto | destruct S].
  - intros h Hh Hnr.
    assert (Hin : In h (filter_map (script_hash_of (own_era cw) u) (t_inputs t) ++ match t_mint t with Some m => map fst m | None => [] end)).
    { unfold pa_scripts, native_hashes in Hh. rewrite !in_app_iff in Hh.
      assert (Hf : forall l, In h l -> In h (filter (fun h0 => negb (mem_z h0 (ref_script_hashes cw t u))) l)).
      { intros l Hl. apply filter_In. split; [exact Hl|]. destruct (mem_z h (ref_script_hashes cw t u)) eqn:E; [|reflexivity].
        apply mem_z_In in E. contradiction. }
      destruct Hh as [Hh|[Hh|[Hh|Hh]]].
      - eapply unmarked_false in Un; eauto.
      - eapply unmarked_false in U1; eauto.
      - eapply unmarked_false in U2; eauto.
      - destruct cw; [|destruct Hh]. eapply unmarked_false in U3; eauto. }
    apply in_app_or in Hin as [Hin|Hin].
    + left. apply filter_map_inv in Hin as (i & Hi & Hs). apply script_hash_of_inv in Hs as (o & n & ? & ? & ?).
      exists i, o, n. auto.
    + right. destruct (t_mint t) as [m|]; [|destruct Hin]. apply in_map_iff in Hin as ([p a] & E & Hin). cbn in E. subst.
      exists m, a. auto.
  - unfold pa_check_datums in Wdatums. apply bind_ok_u in Wdatums as (ds & Hds & _).
    apply pa_input_datums_ok in Hds as [_ Hall]. rewrite map_snd_fresh in Hall.
    intros i o h Hi Ho Hl Hd. eapply Hall; eauto. destruct cw; exact Hl.
  - exists needed. split; [exact Wneeded | unfold R_redeemers; eapply ptrs_coincide_ok; exact Wptrs].
  - unfold pa_check_languages in C12. intros l Hl. destruct cw.
    + apply fail_if_ok, existsb_false in C12. rewrite Forall_forall in C12. specialize (C12 l Hl). cbn in C12.
      apply andb_false_iff in C12 as [E|E]; apply negb_false, mem_z_In in E; [right; apply In_avail; exact E | left; exact E].
    + apply fail_if_ok, existsb_false in C12. rewrite Forall_forall in C12. specialize (C12 l Hl). cbn in C12.
      apply negb_false, mem_z_In, filter_In in C12 as [Hb Ha]. apply mem_z_In in Ha. split; assumption.
  - eapply check_aux_ok; exact C13.
  - unfold pa_check_sdh in C14. destruct cw.
    + unfold R_script_integrity_conway. destruct (t_sdh t) as [h|].
      * apply fail_if_ok, negb_false, mem_z_In in C14. exact C14.
      * apply fail_if_ok, negb_false in C14. destruct (tx_languages true t u); [reflexivity | discriminate].
    + unfold R_script_integrity_legacy. destruct (t_sdh t) as [h|].
      * destruct (w_datums t), (w_redeemers t); try discriminate.
        apply fail_if_ok, negb_false, mem_z_In in C14. repeat split; [exact C14 | discriminate | discriminate].
      * apply fail_if_ok, negb_false, andb_true_iff in C14 as [H1 H2].
        split; [destruct (w_datums t) as [[|]|] | destruct (w_redeemers t) as [[|]|]]; cbn in *; try reflexivity; discriminate.
Qed.

(* ================================================================ all eras *)
Lemma accept_all_rules dev t u e : wf_params (e_pp e) = true -> validate dev t u e = Ok tt -> all_rules t u e.
Proof.
  intros Hw H. apply validate_ok in H. unfold all_rules, era_checks in *.
  destruct (Z.eq_dec (t_era t) 0) as [E|N0]; [rewrite E in *; apply byron_rules; assumption|].
  destruct (Z.eq_dec (t_era t) 1) as [E|N1]; [rewrite E in *; eapply shelley_rules; eauto; lia|].
  destruct (Z.eq_dec (t_era t) 2) as [E|N2]; [rewrite E in *; eapply shelley_rules; eauto; lia|].
  destruct (Z.eq_dec (t_era t) 3) as [E|N3]; [rewrite E in *; eapply shelley_rules; eauto; lia|].
  destruct (Z.eq_dec (t_era t) 4) as [E|N4]; [rewrite E in *; eapply alonzo_rules; eauto|].
  destruct (Z.eq_dec (t_era t) 5) as [E|N5]; [rewrite E in *; eapply pa_rules; eauto; lia|].
  destruct (Z.eq_dec (t_era t) 6) as [E|N6]; [rewrite E in *; eapply pa_rules; eauto; lia|].
  remember (t_era t) as te. clear - N0 N1 N2 N3 N4 N5 N6.
  repeat match goal with |- match ?x with _ => _ end => destruct x end; try exact I; lia.
Qed.
