(* C06 proofs, part 1: the leaf codecs and Vec<T> satisfy the codec law. *)
From PV Require Import Lib.Base Cbor.Item Cbor.Enc Cbor.Dec Cbor.HeadLaws Cbor.Laws Cbor.Api C06.Model.
Open Scope Z_scope.

(* the law of a codec: decoding an encoding gives the value back and leaves the rest, and
   the encoding is never taken for a null by Option<T>::decode *)
Definition codec_ok (c : codec) : Prop :=
  forall v r, c_ty c v ->
    c_dec c (c_enc c v ++ r) = DOk (v, r) /\ not_null (c_enc c v) r /\ c_enc c v <> [].

Lemma cons_of_length {A} (l : list A) : (0 < length l)%nat -> exists x t, l = x :: t.
Proof. destruct l; cbn; [lia|eauto]. Qed.

(* a head of major type 0..6 is never a null (and its type is always known) *)
Lemma head_not_null m w n e r :
  arg_fits w n -> major_code m <= 6 -> not_null (enc_head m w n ++ e) r.
Proof.
  intros Hf Hm. unfold arg_fits in Hf. unfold not_null.
  assert (Hrest : forall k, (0 < k)%nat -> exists x t, (be_bytes k n ++ e) ++ r = x :: t).
  { intros k Hk. apply cons_of_length. rewrite !app_length, be_bytes_length. lia. }
  destruct m; cbn [major_code] in Hm; try lia;
  destruct w; cbn [enc_head width_info width_bound width_nbytes major_code] in *;
  try (destruct (Hrest 1%nat ltac:(lia)) as (x1 & t1 & E1));
  try (destruct (Hrest 2%nat ltac:(lia)) as (x2 & t2 & E2));
  try (destruct (Hrest 4%nat ltac:(lia)) as (x4 & t4 & E4));
  try (destruct (Hrest 8%nat ltac:(lia)) as (x8 & t8 & E8));
  cbn [app d_datatype]; rewrite <- ?app_comm_cons, ?E1, ?E2, ?E4, ?E8; unfold type_of_byte, byteb;
  repeat match goal with
         | |- context [if ?c then _ else _] => let E := fresh "E" in destruct c eqn:E; try lia
         end;
  try (eexists; split; [reflexivity|reflexivity]).
Qed.

Lemma head_not_null0 m w n r : arg_fits w n -> major_code m <= 6 -> not_null (enc_head m w n) r.
Proof. intros Hf Hm. rewrite <- (app_nil_r (enc_head m w n)). apply head_not_null; assumption. Qed.

Lemma enc_head_nonempty m w n : enc_head m w n <> [].
Proof. destruct w; discriminate. Qed.

Lemma c_uint_ok bound : 0 < bound <= u64_max1 -> codec_ok (c_uint bound).
Proof.
  intros Hb v r (n & -> & Hn). cbn [c_dec c_enc c_uint enc_uint]. unfold e_uint, enc_head_min, u64_max1 in *.
  assert (Hfit : arg_fits (min_width n) n) by (apply min_width_fits; lia).
  rewrite d_uint_enc by (try exact Hfit; lia). cbn [dmap fst snd].
  split; [reflexivity|]. split; [apply head_not_null0; [exact Hfit|cbn; lia]|apply enc_head_nonempty].
Qed.

Lemma c_i64_ok : codec_ok c_i64.
Proof.
  intros v r (n & -> & Hn). cbn [c_dec c_enc c_i64 enc_int]. unfold i64_half in Hn.
  rewrite e_int_d_i64 by lia. cbn [dmap fst snd]. split; [reflexivity|].
  unfold e_int, enc_head_min. destruct (0 <=? n) eqn:E.
  - assert (Hfit : arg_fits (min_width n) n) by (apply min_width_fits; lia).
    split; [apply head_not_null0; [exact Hfit|cbn; lia]|apply enc_head_nonempty].
  - assert (Hfit : arg_fits (min_width (-1 - n)) (-1 - n)) by (apply min_width_fits; lia).
    split; [apply head_not_null0; [exact Hfit|cbn; lia]|apply enc_head_nonempty].
Qed.

Lemma c_bytes_ok : codec_ok c_bytes.
Proof.
  intros v r (b & -> & Hb & Hl). cbn [c_dec c_enc c_bytes enc_bytes]. unfold e_bytes, enc_head_min, u64_max1 in *.
  assert (Hfit : arg_fits (min_width (len b)) (len b)) by (apply min_width_fits; pose proof (len_nonneg b); lia).
  rewrite <- app_assoc, d_bytes_enc by assumption. cbn [dmap fst snd].
  split; [reflexivity|]. split; [apply head_not_null; [exact Hfit|cbn; lia]|].
  intros E. apply app_eq_nil in E as [E _]. exact (enc_head_nonempty _ _ _ E).
Qed.

Lemma c_bool_ok : codec_ok c_bool.
Proof.
  intros v r (b & ->). cbn [c_dec c_enc c_bool enc_bool]. unfold e_bool.
  destruct b; (split; [reflexivity|]); (split; [eexists; split; reflexivity|discriminate]).
Qed.

Lemma c_vec_ok c : codec_ok c -> codec_ok (c_vec c).
Proof.
  intros Hc v r (l & -> & Hl & Hlen). cbn [c_dec c_enc c_vec enc_vec].
  assert (Hxs : Forall (fun x => (forall r, c_dec c (c_enc c x ++ r) = DOk (x, r)) /\ c_enc c x <> []) l).
  { eapply Forall_impl; [|exact Hl]. intros x Hx. split.
    - intros r0. apply (Hc x r0 Hx).
    - apply (Hc x [] Hx). }
  rewrite (d_vec_e_vec (c_dec c) (c_enc c) l r Hxs Hlen). cbn [dmap fst snd].
  split; [reflexivity|]. unfold e_vec, e_array, enc_head_min.
  assert (Hfit : arg_fits (min_width (len l)) (len l))
    by (apply min_width_fits; pose proof (len_nonneg l); unfold u64_max1 in Hlen; lia).
  split; [apply head_not_null; [exact Hfit|cbn; lia]|].
  intros E. apply app_eq_nil in E as [E _]. exact (enc_head_nonempty _ _ _ E).
Qed.

(* String *)
Lemma d_str_enc w b r :
  arg_fits w (len b) -> bytes_wf b -> utf8_valid b = true ->
  d_str (enc_head MajText w (len b) ++ b ++ r) = DOk (b, r).
Proof.
  intros Hfit Hb Hu.
  pose proof (expect_arg_enc (major_eqb MajText) MajText w (len b) (b ++ r) (major_eqb_refl _) Hfit) as He.
  pose proof (dec_head_enc MajText w (len b) (b ++ r) Hfit) as Hd.
  destruct (enc_head_first MajText w (len b) Hfit) as (b0 & t & E & Hb0).
  rewrite E in *. cbn [app] in *. unfold d_str.
  unfold dec_head in Hd. destruct (byteb b0) eqn:Hbb; cbn [negb] in *; [|discriminate].
  assert (Hm : major_of_code (b0 / 32) = MajText /\ (b0 mod 32 =? 31) = false).
  { destruct (b0 mod 32 <? 24) eqn:E1; [inversion Hd; split; [reflexivity|lia]|].
    destruct (b0 mod 32 =? 31) eqn:E2; [inversion Hd|].
    destruct (width_of_info (b0 mod 32)); [|discriminate].
    apply dbind_ok in Hd as ([a r'] & _ & Hd). inversion Hd; auto. }
  destruct Hm as [Hm H31]. rewrite Hm, H31, major_eqb_refl. cbn [negb andb]. rewrite He. cbn [dbind].
  rewrite (take_app b r Hb). cbn [dbind]. rewrite Hu. reflexivity.
Qed.

Lemma c_text_ok : codec_ok c_text.
Proof.
  intros v r (b & -> & Hb & Hu & Hl). cbn [c_dec c_enc c_text enc_text]. unfold e_str, enc_head_min, u64_max1 in *.
  assert (Hfit : arg_fits (min_width (len b)) (len b)) by (apply min_width_fits; pose proof (len_nonneg b); lia).
  rewrite <- app_assoc, d_str_enc by assumption. cbn [dmap fst snd].
  split; [reflexivity|]. split; [apply head_not_null; [exact Hfit|cbn; lia]|].
  intros E. apply app_eq_nil in E as [E _]. exact (enc_head_nonempty _ _ _ E).
Qed.

(* #[cbor(tag(t))] *)
Lemma c_tag_ok t c : 0 <= t < u64_max1 -> codec_ok c -> codec_ok (c_tag t c).
Proof.
  intros Ht Hc v r Hty. cbn [c_dec c_enc c_ty c_tag] in *. unfold e_tag, enc_head_min, u64_max1 in *.
  assert (Hfit : arg_fits (min_width t) t) by (apply min_width_fits; lia).
  rewrite <- app_assoc, d_tag_enc by exact Hfit. cbn [dbind]. rewrite Z.eqb_refl.
  destruct (Hc v r Hty) as (Hd & _ & _). split; [exact Hd|].
  split; [apply head_not_null; [exact Hfit|cbn; lia]|].
  intros E. apply app_eq_nil in E as [E _]. exact (enc_head_nonempty _ _ _ E).
Qed.

(* opaque leaf *)
Lemma consumed_app p r : consumed (p ++ r) r = p.
Proof.
  unfold consumed. rewrite app_length.
  replace (length p + length r - length r)%nat with (length p) by lia.
  rewrite firstn_app, Nat.sub_diag, firstn_all. cbn [firstn]. apply app_nil_r.
Qed.

Lemma c_raw_ok : codec_ok c_raw.
Proof.
  intros v r (i & -> & Hwf & Hnn). cbn [c_dec c_enc c_raw enc_raw].
  rewrite decode_complete by exact Hwf. cbn [dbind]. rewrite consumed_app.
  split; [reflexivity|]. split; [apply Hnn|apply encode_item_nonempty, Hwf].
Qed.
