(* C04 correspondence: a case is (decoder kind, input bytes, implementation result).
   kind: 0 PositiveCoin, 1 NonZeroInt, 2 Option<PositiveCoin> (the donation field type),
         3 conway::Value, 4 conway::Mint.
   The implementation result is canonicalised by the harness to
   COk (flattened value) (bytes consumed) | CEoi | CErr | CPanic. *)
From PV Require Import Lib.Base Cbor.Item Cbor.Enc Cbor.Dec Cbor.Api C04.Model.
Open Scope Z_scope.

Inductive cres : Type := COk (out : list Z) (consumed : Z) | CEoi | CErr | CPanic.

Definition flat_assets (a : list (list Z * Z)) : list Z :=
  len a :: flat_map (fun nq => len (fst nq) :: fst nq ++ [snd nq]) a.
Definition flat_multiasset (m : multiasset) : list Z :=
  len m :: flat_map (fun pa => fst pa ++ flat_assets (snd pa)) m.
Definition flat_value (v : value) : list Z :=
  match v with
  | VCoin c => [0; c]
  | VMulti c m => 1 :: c :: flat_multiasset m
  end.
Definition flat_option (o : option Z) : list Z := match o with None => [0] | Some v => [1; v] end.

Definition to_cres {A} (flat : A -> list Z) (bs : list Z) (x : dres (A * list Z)) : cres :=
  match x with
  | DOk (a, r) => COk (flat a) (len bs - len r)
  | DEoi => CEoi
  | DErr => CErr
  end.

Definition model_run (kind : Z) (bs : list Z) : cres :=
  if kind =? 0 then to_cres (fun v => [v]) bs (dec_positive_coin bs)
  else if kind =? 1 then to_cres (fun v => [v]) bs (dec_nonzero_int bs)
  else if kind =? 2 then to_cres flat_option bs (dec_donation bs)
  else if kind =? 3 then to_cres flat_value bs (dec_value bs)
  else to_cres flat_multiasset bs (dec_mint bs).

Definition cres_eqb (a b : cres) : bool :=
  match a, b with
  | COk o n, COk o' n' => list_eqb Z.eqb o o' && (n =? n')
  | CEoi, CEoi | CErr, CErr | CPanic, CPanic => true
  | _, _ => false
  end.

Definition case : Type := (Z * list Z * cres).
Definition case_out (c : case) : cres := let '(k, bs, _) := c in model_run k bs.
Definition case_ok (c : case) : bool := let '(k, bs, r) := c in cres_eqb (model_run k bs) r.
