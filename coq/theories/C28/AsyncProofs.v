(* C28, delayed confirmations (Async schedules): housekeeping and the theorem [async_known_class]. *)
From PV Require Import Lib.Base P2p.Proto P2p.Initiator P2p.Spec C27.Proofs C28.Model
  C28.Abs C28.Refine C28.Visitors C28.Emit C28.SettleBlock C28.Inv C28.Events C28.Blocks C28.Proofs.
From PV Require Import C28.AsyncSpec C28.AsyncRelU C28.AsyncInv C28.AsyncEvents C28.AsyncRecv.
Open Scope Z_scope.

(* ---- housekeeping: connection states only move to Connecting ---- *)
Lemma hk_loop_conn c order : forall st out st' out', hk_loop c order (st, out) = Ok (st', out') ->
  forall q s, lookup q (peers st) = Some s -> exists s1, lookup q (peers st') = Some s1 /\ (connected s1 -> connected s).
Proof.
  induction order as [|p rest IH]; intros st out st' out' H q s L; cbn [hk_loop] in H.
  - inversion H; subst. eauto.
  - destruct (lookup p (peers st)) as [sp|] eqn:Lp; [|eapply IH; eassumption].
    unfold visit_hk in H.
    destruct (categorize c p (pr st) sp) as [[pr1 sc]| |] eqn:Cg; cbn [bind] in H; try discriminate.
    destruct (hk_rest p (ax st, sc, out)) as [[[a1 s1] out1]| |] eqn:Hr; cbn [bind] in H; try discriminate.
    pose proof (categorize_conn _ _ _ _ _ _ Cg) as CC. pose proof (kv_hk_rest p _ _ _ _ _ _ Hr) as KC.
    destruct (Z.eq_dec q p) as [->|N].
    + rewrite Lp in L. inversion L; subst sp.
      destruct (IH _ _ _ _ H p s1) as (s2 & L2 & C2); [cbn [peers]; apply lookup_insert_eq|].
      exists s2. split; [exact L2|]. intros X. apply C2 in X. apply (kconn_connected sc s1 KC) in X.
      unfold connected in *. rewrite CC in X. exact X.
    + eapply IH; [exact H|]. cbn [peers]. rewrite lookup_insert_neq by exact N. exact L.
Qed.

(* ---- discovery adds fresh, unconnected peers only ---- *)
Definition fresh_okA (st st' : ist) : Prop :=
  (forall q s, lookup q (peers st) = Some s -> lookup q (peers st') = Some s) /\
  (forall q, lookup q (peers st) = None ->
     lookup q (peers st') = None \/ exists s1, lookup q (peers st') = Some s1 /\ DefaultProto s1 /\ conn s1 = CNew) /\
  (NoDup (map fst (peers st)) -> NoDup (map fst (peers st'))).
Lemma discovered_conn c p pr0 pr1 s1 : on_peer_discovered c p pr0 pnew = Ok (pr1, s1) -> DefaultProto s1 /\ conn s1 = CNew.
Proof.
  unfold on_peer_discovered. destruct (mem p (banned pr0)); [intros H; inversion H; subst; split; [apply default_pnew | reflexivity]|].
  destruct (usub _ _ _) as [rc| |]; cbn [bind]; try discriminate.
  destruct (rc >? 0); intros H; inversion H; subst; split; try apply default_pnew; reflexivity.
Qed.
Lemma discover_all_freshA c new : forall st st', discover_all c new st = Ok st' -> fresh_okA st st'.
Proof.
  induction new as [|p rest IH]; intros st st' H; cbn [discover_all] in H.
  - inversion H; subst. repeat split; auto.
  - destruct (lookup p (peers st)) as [s|] eqn:L; [apply IH, H|].
    destruct (on_discovered c p st) as [st1| |] eqn:D; cbn [bind] in H; try discriminate.
    unfold on_discovered in D. destruct (on_peer_discovered c p (pr st) pnew) as [[pr1 s1]| |] eqn:O; cbn [bind] in D; try discriminate.
    inversion D; subst st1. clear D. destruct (discovered_conn _ _ _ _ _ O) as [Df NI].
    destruct (IH _ _ H) as (A & B & C). cbn [peers] in *. repeat split.
    + intros q s Lq. apply A. destruct (Z.eq_dec q p) as [->|N]; [congruence|]. rewrite lookup_insert_neq by exact N. exact Lq.
    + intros q Lq. destruct (Z.eq_dec q p) as [->|N].
      * right. exists s1. split; [apply A, lookup_insert_eq | split; assumption].
      * apply B. rewrite lookup_insert_neq by exact N. exact Lq.
    + intros ND. apply C. apply nodup_insert, ND.
Qed.
Lemma move_discovered_freshA c dorder st st' : move_discovered c dorder st = Ok st' -> fresh_okA st st'.
Proof.
  unfold move_discovered. destruct (usub _ _ _) as [d| |]; cbn [bind]; try discriminate.
  destruct (d =? 0); [intros H; inversion H; subst; repeat split; auto|].
  destruct (firstn _ _) as [|x l] eqn:F; [intros H; inversion H; subst; repeat split; auto|].
  intros H. apply discover_all_freshA in H. exact H.
Qed.

Lemma housekeeping_async c i st e order dorder st1 outs :
  SInvA st e -> housekeeping c order dorder st = Ok (st1, outs) ->
  step_ok i (emit_all i e e (sends outs)) st1.
Proof.
  intros [ND PO]. unfold housekeeping.
  destruct (hk_loop c (canon order (keys st)) (st, [])) as [[stl outl]| |] eqn:HL; cbn [bind]; try discriminate.
  destruct (move_discovered c dorder stl) as [stm| |] eqn:MD; cbn [bind]; try discriminate.
  intros H; inversion H; subst. clear H.
  destruct (hk_blocks c _ (canon_NoDup order (keys st) ND) _ _ _ _ HL) as (K & LK & blocks & S & NB & IB & FB).
  pose proof (hk_loop_conn c _ _ _ _ _ HL) as LC.
  destruct (move_discovered_freshA _ _ _ _ MD) as (FA & FB2 & FC).
  cbn [sends flat_map app] in S. rewrite S.
  apply emit_blocks.
  - exact NB.
  - intros b _. reflexivity.
  - apply FC. unfold keys in K. rewrite K. exact ND.
  - intros q. unfold peer_okA. pose proof (PO q) as Pq.
    destruct (lookup q (peers st)) as [s|] eqn:L.
    + destruct (LK q s L) as (s1 & L1 & S1). destruct (LC q s L) as (s1' & L1' & C1). rewrite L1 in L1'. inversion L1'; subst s1'.
      rewrite (FA q s1 L1). eapply ainv_PF; [exact Pq | apply SFi_PF, S1 | exact C1].
    + assert (Ll : lookup q (peers stl) = None).
      { apply lookup_None_keys. rewrite K. apply lookup_None_keys, L. }
      destruct (FB2 q Ll) as [X|(s1 & X & Df & Cn)]; rewrite X; [exact Pq|].
      destruct Pq as [P W].
      assert (NI : is_init s1 = false) by (unfold is_init; rewrite Cn; reflexivity).
      split; [intros _; split; [exact Df | exact P]|].
      split; [intros [Y|Y]; congruence|].
      exists (wire (eget q e)). rewrite P. split; [reflexivity|].
      split; [intros Lv; rewrite (W Lv); split; [apply rel_default, Df | apply acc_default_new; assumption]|].
      intros _. left. destruct Df as (_&_&_&_&D5&_). exact D5.
  - rewrite Forall_forall in FB |- *. intros b Ib. destruct (FB b Ib) as (s & L & F & N).
    destruct (LK _ s L) as (s1 & L1 & S1). exists s1. split; [apply FA, L1|]. split; [|exact N].
    eapply Forall_impl; [|exact F]. cbn. intros m [Nz Ep]. split; [exact Nz|]. eapply epre_SFi; [apply SFi_sym, S1 | exact Ep].
Qed.

(* ---- one schedule step ---- *)
Theorem async_step c i st e ev e1 st1 outs :
  SInvA st e -> env_event Async e ev = Some e1 -> step c st ev = Ok (st1, outs) ->
  step_ok i (emit_all i e1 e1 (sends outs)) st1.
Proof.
  intros I EV ST. destruct ev; cbn [step] in ST.
  - destruct (on_discovered c p st) as [st'| |] eqn:D; cbn [bind] in ST; try discriminate. inversion ST; subst.
    cbn [sends flat_map]. eapply include_async; eassumption.
  - cbn [env_event] in EV. inversion EV; subst.
    eapply tagged_async; [exact (I : SInvA (mkI (ban_pid p (pr st)) (ax st) (peers st)) e1) | | exact ST].
    intros s. split; [repeat split | reflexivity].
  - cbn [env_event] in EV. inversion EV; subst. eapply tagged_async; [exact I | | exact ST]. intros s. split; [repeat split | reflexivity].
  - cbn [env_event] in EV. inversion EV; subst. eapply housekeeping_async; eassumption.
  - cbn [env_event] in EV. inversion EV; subst. inversion ST; subst. cbn [sends flat_map emit_all step_ok]. exact I.
  - cbn [env_event] in EV. inversion EV; subst. eapply tagged_async; [exact I | | exact ST]. intros s. split; [repeat split | reflexivity].
  - cbn [env_event] in EV. inversion EV; subst. inversion ST; subst. cbn [sends flat_map emit_all step_ok]. exact I.
  - cbn [env_event] in EV. inversion EV; subst. inversion ST; subst. cbn [sends flat_map emit_all step_ok]. exact I.
  - cbn [env_event] in EV. inversion EV; subst. inversion ST; subst. cbn [sends flat_map emit_all step_ok]. exact I.
  - cbn [env_event] in EV. inversion EV; subst. inversion ST; subst. cbn [sends flat_map emit_all step_ok]. exact I.
  - eapply connected_async; eassumption.
  - eapply disconnected_async; eassumption.
  - eapply errored_async; eassumption.
  - eapply recv_async; eassumption.
  - eapply sent_async; eassumption.
Qed.

Lemma SInvA_init : SInvA init [].
Proof. split; [constructor|]. intros p. cbn. split; [reflexivity | intros Y; discriminate]. Qed.

Theorem async_known_class c : forall evs i st e, SInvA st e ->
  forall j p m u, exec Async c i st e evs = VViolation j p m u -> u = true.
Proof.
  induction evs as [|ev rest IH]; intros i st e I j p m u H; cbn [exec] in H; [discriminate|].
  destruct (env_event Async e ev) as [e1|] eqn:EV; [|discriminate].
  destruct (step c st ev) as [[st1 outs]| |] eqn:ST; try discriminate.
  pose proof (async_step c i st e ev e1 st1 outs I EV ST) as OK.
  destruct (emit_all i e1 e1 (sends outs)) as [e2|v]; cbn [step_ok] in OK.
  - eapply IH; eassumption.
  - destruct OK as (p' & m' & ->). inversion H; subst. reflexivity.
Qed.
