(* CBOR core — encoder. [encode_item] writes exactly the head forms the
   item records. *)
From PV Require Import Lib.Base Cbor.Item.
Open Scope Z_scope.

(* k big-endian bytes of n (n taken mod 256^k) *)
Fixpoint be_bytes (k : nat) (n : Z) : list Z :=
  match k with
  | O => []
  | S k' => be_bytes k' (n / 256) ++ [n mod 256]
  end.

(* value of a big-endian byte list *)
Definition be_val (l : list Z) : Z := fold_left (fun a b => a * 256 + b) l 0.

(* initial byte + argument bytes *)
Definition enc_head (m : major) (w : width) (n : Z) : list Z :=
  match w with
  | W0 => [major_code m * 32 + n]
  | _ => (major_code m * 32 + width_info w) :: be_bytes (width_nbytes w) n
  end.

(* initial byte of an indefinite-length string/array/map (info 31) *)
Definition enc_indef (m : major) : list Z := [major_code m * 32 + 31].
Definition break_byte : Z := 255.

(* head with the shortest argument form: what [minicbor::Encoder::{u64,array,map,tag,bytes,..}] write *)
Definition enc_head_min (m : major) (n : Z) : list Z := enc_head m (min_width n) n.

Definition enc_chunk (m : major) (c : width * list Z) : list Z :=
  enc_head m (fst c) (len (snd c)) ++ snd c.

Fixpoint encode_item (i : item) : list Z :=
  match i with
  | UInt w n => enc_head MajUInt w n
  | NInt w n => enc_head MajNInt w n
  | Bytes w b => enc_head MajBytes w (len b) ++ b
  | BytesIndef cs => enc_indef MajBytes ++ concat (map (enc_chunk MajBytes) cs) ++ [break_byte]
  | Text w b => enc_head MajText w (len b) ++ b
  | TextIndef cs => enc_indef MajText ++ concat (map (enc_chunk MajText) cs) ++ [break_byte]
  | Array w xs => enc_head MajArray w (len xs) ++ concat (map encode_item xs)
  | ArrayIndef xs => enc_indef MajArray ++ concat (map encode_item xs) ++ [break_byte]
  | Map w kvs =>
    enc_head MajMap w (len kvs) ++ concat (map (fun '(k, v) => encode_item k ++ encode_item v) kvs)
  | MapIndef kvs =>
    enc_indef MajMap ++ concat (map (fun '(k, v) => encode_item k ++ encode_item v) kvs) ++ [break_byte]
  | Tag w t x => enc_head MajTag w t ++ encode_item x
  | Simple w n => enc_head MajSimple w n
  end.

Definition encode_pair (kv : item * item) : list Z := encode_item (fst kv) ++ encode_item (snd kv).
Definition encode_items (xs : list item) : list Z := concat (map encode_item xs).
Definition encode_pairs (kvs : list (item * item)) : list Z := concat (map encode_pair kvs).
