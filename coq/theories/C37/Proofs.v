From PV Require Import Lib.Base C37.Model.
Open Scope Z_scope.

Lemma sum_units_spec : forall l mem steps mem' steps',
  sum_units l mem steps = Some (mem', steps') ->
  mem' = mem + total_mem l /\ steps' = steps + total_steps l.
Proof.
  induction l as [|[m s] r IH]; intros mem steps mem' steps' H; cbn [sum_units] in H.
  - inversion H; subst. cbn. lia.
  - unfold checked_add in H.
    destruct (mem + m <=? U64_MAX) eqn:E1; [|discriminate].
    destruct (steps + s <=? U64_MAX) eqn:E2; [|discriminate].
    apply IH in H. cbn [total_mem total_steps fold_right fst snd] in *.
    fold (total_mem r) in *. fold (total_steps r) in *. lia.
Qed.

Lemma total_mem_nonneg l : Forall (fun p => 0 <= fst p /\ 0 <= snd p) l -> 0 <= total_mem l.
Proof. induction 1 as [|p r [Hp _] _ IH]; cbn; [lia|]. fold (total_mem r). lia. Qed.
Lemma total_steps_nonneg l : Forall (fun p => 0 <= fst p /\ 0 <= snd p) l -> 0 <= total_steps l.
Proof. induction 1 as [|p r [_ Hp] _ IH]; cbn; [lia|]. fold (total_steps r). lia. Qed.

Lemma sum_units_complete : forall l mem steps,
  Forall (fun p => 0 <= fst p /\ 0 <= snd p) l ->
  mem + total_mem l <= U64_MAX -> steps + total_steps l <= U64_MAX ->
  sum_units l mem steps = Some (mem + total_mem l, steps + total_steps l).
Proof.
  induction l as [|[m s] r IH]; intros mem steps Hnn Hm Hs; cbn [sum_units].
  - cbn. f_equal. f_equal; lia.
  - inversion Hnn as [|? ? [Hm0 Hs0] Hr]; subst. cbn [fst snd] in *.
    pose proof (total_mem_nonneg r Hr). pose proof (total_steps_nonneg r Hr).
    cbn [total_mem total_steps fold_right fst snd] in *.
    fold (total_mem r) in *. fold (total_steps r) in *.
    unfold checked_add.
    destruct (mem + m <=? U64_MAX) eqn:E1; [|lia].
    destruct (steps + s <=? U64_MAX) eqn:E2; [|lia].
    rewrite IH by (auto; lia). f_equal. f_equal; lia.
Qed.

Lemma budget_verdict_ok : forall l maxm maxs,
  budget_verdict l maxm maxs = V_OK -> total_mem l <= maxm /\ total_steps l <= maxs.
Proof.
  intros l maxm maxs H. unfold budget_verdict in H.
  destruct (sum_units l 0 0) as [[mem steps]|] eqn:E; [|discriminate].
  apply sum_units_spec in E. destruct E as [-> ->].
  destruct ((0 + total_mem l >? maxm) || (0 + total_steps l >? maxs)) eqn:C; [discriminate|].
  lia.
Qed.

Lemma budget_verdict_complete : forall l maxm maxs,
  Forall (fun p => 0 <= fst p /\ 0 <= snd p) l ->
  maxm <= U64_MAX -> maxs <= U64_MAX ->
  total_mem l <= maxm -> total_steps l <= maxs ->
  budget_verdict l maxm maxs = V_OK.
Proof.
  intros l maxm maxs Hnn Hmm Hms Hm Hs. unfold budget_verdict.
  rewrite sum_units_complete by (auto; lia).
  destruct ((0 + total_mem l >? maxm) || (0 + total_steps l >? maxs)) eqn:C; [lia|reflexivity].
Qed.

Lemma budget_verdict_codes l maxm maxs :
  budget_verdict l maxm maxs = V_OK \/ budget_verdict l maxm maxs = V_EXCEEDED.
Proof.
  unfold budget_verdict. destruct (sum_units l 0 0) as [[m s]|]; auto.
  destruct ((m >? maxm) || (s >? maxs)); auto.
Qed.

Lemma alonzo_accept has rdm maxm maxs :
  0 <= maxm -> 0 <= maxs ->
  check_tx_ex_units_alonzo has rdm maxm maxs = V_OK ->
  total_mem (units_of rdm) <= maxm /\ total_steps (units_of rdm) <= maxs.
Proof.
  intros Hm Hs H. unfold check_tx_ex_units_alonzo in H.
  destruct rdm as [l|]; cbn [is_some units_of] in *.
  - rewrite orb_true_r in H. apply budget_verdict_ok; assumption.
  - cbn. lia.
Qed.

Lemma conway_accept has rdm maxm maxs :
  0 <= maxm -> 0 <= maxs ->
  check_tx_ex_units_conway has rdm maxm maxs = V_OK ->
  total_mem (units_of_conway rdm) <= maxm /\ total_steps (units_of_conway rdm) <= maxs.
Proof.
  intros Hm Hs H. unfold check_tx_ex_units_conway in H.
  destruct rdm as [[l|l]|]; cbn [is_some units_of_conway] in *.
  - rewrite orb_true_r in H. apply budget_verdict_ok; assumption.
  - rewrite orb_true_r in H. apply budget_verdict_ok; assumption.
  - cbn. lia.
Qed.

(* refutations for the code before the repairs *)
Lemma conway_old_refuted :
  exists has rdm maxm maxs, 0 <= maxm /\ 0 <= maxs /\ has = true /\
    check_tx_ex_units_conway_old has rdm maxm maxs = V_OK /\
    total_mem (units_of_conway rdm) > maxm.
Proof.
  exists true, (Some (RList [(14000001, 10000000000)])), 14000000, 10000000000.
  repeat split; try lia; vm_compute; reflexivity.
Qed.

Lemma conway_old_refscript_refuted :
  exists rdm maxm maxs, 0 <= maxm /\ 0 <= maxs /\
    check_tx_ex_units_conway_old false rdm maxm maxs = V_OK /\
    total_steps (units_of_conway rdm) > maxs.
Proof.
  exists (Some (RMap [(1, 10000000001)])), 14000000, 10000000000.
  repeat split; try lia; vm_compute; reflexivity.
Qed.

Lemma alonzo_old_wrap_refuted :
  exists rdm maxm maxs, 0 <= maxm <= U64_MAX /\ 0 <= maxs <= U64_MAX /\
    Forall (fun p => 0 <= fst p <= U64_MAX /\ 0 <= snd p <= U64_MAX) (units_of rdm) /\
    check_tx_ex_units_alonzo_old_release true rdm maxm maxs = V_OK /\
    total_mem (units_of rdm) > maxm.
Proof.
  exists (Some [(9223372036854775808, 1); (9223372036854775808, 1)]), 10000000, 10000000000.
  split; [unfold U64_MAX; lia|]. split; [unfold U64_MAX; lia|].
  split; [repeat constructor; cbn; unfold U64_MAX; lia|].
  split; vm_compute; reflexivity.
Qed.
