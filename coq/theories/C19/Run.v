(* C19 correspondence: the implementation's observations, recomputed by the model. *)
From PV Require Import Lib.Base Cbor.Dec.
From PV Require Import C19.Model C19.Base58.
From PV Require C18.Model.
Open Scope Z_scope.

Inductive case :=
(* ByronAddress::from_decoded(payload): addr.payload bytes and addr.crc (CRC of the `crc` crate) *)
| CFromDecoded (p : list Z) (c : Z)
(* ByronAddress::new(p, c).to_vec() *)
| CEnc (p : list Z) (c : Z) (vec : list Z)
(* ByronAddress::from_bytes(bs) *)
| CDec (bs : list Z) (res : outcome (list Z * Z))
(* ByronAddress::from_base58(base58(bs)), |bs| <= 132 (base58 text made by the harness) *)
| CB58 (bs : list Z) (res : outcome (list Z * Z))
(* ByronAddress::new(p, c).to_base58() *)
| CB58Enc (p : list Z) (c : Z) (s : list Z)
(* ByronAddress::from_base58 on an arbitrary string *)
| CB58Dec (s : list Z) (res : outcome (list Z * Z))
(* Address::from_bytes(bs) with a type-8 header: the Byron content, or the error class *)
| CAddr (bs : list Z) (res : outcome (list Z * Z)).

Definition m_from_bytes := from_bytes skip_item.
Definition m_address_from_bytes (bs : list Z) : outcome (list Z * Z) :=
  match address_from_bytes skip_item bs with
  | Ok (C18.Model.Byron p c) => Ok (p, c)
  | Ok _ => Err (-1)
  | Err e => Err e
  | Panic p => Panic p
  end.

Definition byron_eqb (x y : list Z * Z) : bool :=
  C18.Model.bytes_eqb (fst x) (fst y) && (snd x =? snd y).
Definition res_eqb := C18.Model.outcome_eqb byron_eqb.

Inductive out := OCrc (c : Z) | OVec (v : list Z) | ORes (r : outcome (list Z * Z)).
Definition case_out (c : case) : out :=
  match c with
  | CFromDecoded p _ => OCrc (crc32 p)
  | CEnc p c _ => OVec (byron_to_vec (p, c))
  | CDec bs _ => ORes (m_from_bytes bs)
  | CB58 bs _ => ORes (m_from_bytes bs)
  | CB58Enc p c _ => OVec (to_base58 b58_encode (p, c))
  | CB58Dec s _ => ORes (from_base58 skip_item pallas_decode_base58 s)
  | CAddr bs _ => ORes (m_address_from_bytes bs)
  end.
Definition case_ok (c : case) : bool :=
  match c with
  | CFromDecoded p c => crc32 p =? c
  | CEnc p c vec => C18.Model.bytes_eqb (byron_to_vec (p, c)) vec
  | CDec bs res => res_eqb (m_from_bytes bs) res
  | CB58 bs res => res_eqb (m_from_bytes bs) res
  | CB58Enc p c s => C18.Model.bytes_eqb (to_base58 b58_encode (p, c)) s
  | CB58Dec s res => res_eqb (from_base58 skip_item pallas_decode_base58 s) res
  | CAddr bs res => res_eqb (m_address_from_bytes bs) res
  end.
