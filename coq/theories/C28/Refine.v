(* C28 proofs, part B (Refine): see Proofs.v for the theorem [exec_sync_conformant]. *)
From PV Require Import Lib.Base P2p.Proto P2p.Initiator P2p.Spec C27.Proofs C28.Model.
From PV Require Import C28.Abs.
Open Scope Z_scope.

Lemma rel_server_step s w m w' : Rel s w -> sstep w m = Some w' -> Rel (apply_msg s m) w'.
Proof.
  intros R H. pose proof R as (R1 & R2 & R3 & R4 & R5 & R6 & R7).
  destruct m; cbn [sstep] in H; try discriminate; unfold apply_msg; cbn [proto_of].
  - (* HsAccept *) destruct (w_hs w) eqn:E; try discriminate. inversion H; subst.
    destruct (hs s) eqn:E2; cbn in R1; try congruence. cbn. apply (Rel_set_hs (HsSAccepted v ps)), R.
  - (* HsRefuse *) destruct (w_hs w) eqn:E; try discriminate. inversion H; subst.
    destruct (hs s) eqn:E2; cbn in R1; try congruence. cbn. apply (Rel_set_hs (HsSRejected k)), R.
  - (* HsQueryReply *) destruct (w_hs w) eqn:E; try discriminate. inversion H; subst.
    destruct (hs s) eqn:E2; cbn in R1; try congruence. cbn. apply (Rel_set_hs HsSQueryReply), R.
  - (* KaResponse *) gd H. destruct (w_ka w) eqn:E; try discriminate. inversion H; subst.
    destruct (ka s) eqn:E2; cbn in R2; try congruence. cbn. apply (Rel_set_ka (KaSClient (Some c))), R.
  - (* PsPeers *) gd H. destruct (w_ps w) eqn:E; try discriminate. inversion H; subst.
    destruct (ps s) eqn:E2; cbn.
    + destruct R3 as [R3|R3]; [congruence | try rewrite E2 in R3; cbn in R3; congruence].
    + apply (Rel_set_ps (PsSIdle (Some l))), R.
    + apply Rel_set_viol. apply Rel_ps_done; assumption.
  - (* BfStartBatch *) gd H. destruct (w_bf w) eqn:E; try discriminate. inversion H; subst.
    destruct (bf s) eqn:E2; cbn in R4; try congruence. cbn. apply (Rel_set_bf (BfSStreaming None)), R.
  - (* BfNoBlocks *) gd H. destruct (w_bf w) eqn:E; try discriminate. inversion H; subst.
    destruct (bf s) eqn:E2; cbn in R4; try congruence. cbn. apply (Rel_set_bf BfSIdle), R.
  - (* BfBlock *) gd H. destruct (w_bf w) eqn:E; try discriminate. inversion H; subst.
    destruct (bf s) eqn:E2; cbn in R4; try congruence. cbn.
    unfold Rel. cbn. repeat split; try assumption. congruence.
  - (* BfBatchDone *) gd H. destruct (w_bf w) eqn:E; try discriminate. inversion H; subst.
    destruct (bf s) eqn:E2; cbn in R4; try congruence. cbn. apply (Rel_set_bf BfSIdle), R.
  - (* CsAwaitReply *) gd H. destruct (w_cs w) eqn:E; try discriminate. inversion H; subst.
    destruct (cs s) eqn:E2; cbn in R5; try congruence. cbn. apply (Rel_set_cs CsSMustReply), R.
  - (* CsRollForward *) gd H. destruct (w_cs w) eqn:E; try discriminate; inversion H; subst;
    destruct (cs s) eqn:E2; cbn in R5; try congruence; cbn; apply (Rel_set_cs (CsSIdle (CdContent h))), R.
  - (* CsRollBackward *) gd H. destruct (w_cs w) eqn:E; try discriminate; inversion H; subst;
    destruct (cs s) eqn:E2; cbn in R5; try congruence; cbn; apply (Rel_set_cs (CsSIdle (CdRollback p))), R.
  - (* CsIntersectFound *) gd H. destruct (w_cs w) eqn:E; try discriminate. inversion H; subst.
    destruct (cs s) eqn:E2; cbn in R5; try congruence. cbn. apply (Rel_set_cs (CsSIdle (CdIntersection p))), R.
  - (* CsIntersectNotFound *) gd H. destruct (w_cs w) eqn:E; try discriminate. inversion H; subst.
    destruct (cs s) eqn:E2; cbn in R5; try congruence. cbn. apply (Rel_set_cs (CsSIdle CdNoIntersection)), R.
  - (* TxRequestTxIds *) gd H. destruct (w_tx w); try discriminate. inversion H; subst.
    unfold via. destruct (tx_apply (tx s) TxRequestTxIds); [apply Rel_set_tx, R | apply Rel_set_viol, Rel_ww_tx, R].
  - (* TxRequestTxs *) gd H. destruct (w_tx w); try discriminate. inversion H; subst.
    unfold via. destruct (tx_apply (tx s) TxRequestTxs); [apply Rel_set_tx, R | apply Rel_set_viol, Rel_ww_tx, R].
  - (* LnAnnouncement *) gd H. destruct (w_ln w) eqn:E; try discriminate. inversion H; subst.
    destruct (ln s) eqn:E2; cbn in R6; try congruence. cbn. apply (Rel_set_ln (LnSIdle (Some (1, x)))), R.
  - gd H. destruct (w_ln w) eqn:E; try discriminate. inversion H; subst.
    destruct (ln s) eqn:E2; cbn in R6; try congruence. cbn. apply (Rel_set_ln (LnSIdle (Some (2, x)))), R.
  - gd H. destruct (w_ln w) eqn:E; try discriminate. inversion H; subst.
    destruct (ln s) eqn:E2; cbn in R6; try congruence. cbn. apply (Rel_set_ln (LnSIdle (Some (3, x)))), R.
  - gd H. destruct (w_ln w) eqn:E; try discriminate. inversion H; subst.
    destruct (ln s) eqn:E2; cbn in R6; try congruence. cbn. apply (Rel_set_ln (LnSIdle (Some (4, x)))), R.
  - (* LfBlock *) gd H. destruct (w_lf w) eqn:E; try discriminate. inversion H; subst.
    destruct (lf s) eqn:E2; cbn in R7; try congruence. cbn. apply (Rel_set_lf (LfSIdle (Some (p, (0, x))))), R.
  - (* LfBlockTxs *) gd H. destruct (w_lf w) eqn:E; try discriminate. inversion H; subst.
    destruct (lf s) eqn:E2; cbn in R7; try congruence. cbn. apply (Rel_set_lf (LfSIdle (Some (p, (1, x))))), R.
Qed.

(* on a peer state with default protocol states, every message a conformant server may send is rejected *)
Lemma default_server_msg s w m w' : DefaultProto s -> sstep w m = Some w' -> apply_msg s m = set_viol true s.
Proof.
  intros (A & B & C & D & E & F & G & H) S.
  destruct m; cbn [sstep] in S; try discriminate; unfold apply_msg; cbn [proto_of];
    try rewrite A; try rewrite B; try rewrite C; try rewrite D; try rewrite E; try rewrite F; try rewrite G; try rewrite H;
    reflexivity.
Qed.
Lemma default_set_viol b s : DefaultProto s -> DefaultProto (set_viol b s).
Proof. exact (fun H => H). Qed.
Lemma sstep_w0 m : sstep w0 m = None.
Proof. destruct m; reflexivity. Qed.

(* protocol fields other than the message's own are not touched by apply_msg *)
Ltac am_other := match goal with |- proto_of ?m <> _ -> _ =>
  intros N; destruct m; cbn [proto_of] in N; try congruence; unfold apply_msg; cbn [proto_of]; unfold via;
  match goal with |- context[match ?x with _ => _ end] => destruct x; reflexivity end end.
Lemma am_hs s m : proto_of m <> 0 -> hs (apply_msg s m) = hs s. Proof. am_other. Qed.
Lemma am_ka s m : proto_of m <> 8 -> ka (apply_msg s m) = ka s. Proof. am_other. Qed.
Lemma am_ps s m : proto_of m <> 10 -> ps (apply_msg s m) = ps s. Proof. am_other. Qed.
Lemma am_bf s m : proto_of m <> 3 -> bf (apply_msg s m) = bf s. Proof. am_other. Qed.
Lemma am_cs s m : proto_of m <> 2 -> cs (apply_msg s m) = cs s. Proof. am_other. Qed.
Lemma am_ln s m : proto_of m <> 18 -> ln (apply_msg s m) = ln s. Proof. am_other. Qed.
Lemma am_lf s m : proto_of m <> 19 -> lf (apply_msg s m) = lf s. Proof. am_other. Qed.
Lemma am_conn s m : conn (apply_msg s m) = conn s.
Proof. unfold apply_msg, via. repeat match goal with |- context[match ?x with _ => _ end] => destruct x end; reflexivity. Qed.
Lemma am_init s m : is_init (apply_msg s m) = is_init s.
Proof. unfold is_init. rewrite am_conn. reflexivity. Qed.

(* Acc is kept by applying a message the specification permits *)
Lemma hs_accepted_stable s m v p : hs s = HsSAccepted v p -> hs (apply_msg s m) = HsSAccepted v p.
Proof.
  intros H. destruct (Z.eq_dec (proto_of m) 0) as [E|N]; [|rewrite am_hs by exact N; exact H].
  destruct m; cbn [proto_of] in E; try discriminate; unfold apply_msg; cbn [proto_of]; rewrite H; cbn; exact H.
Qed.
Lemma cs_new_dec (c : cs_state) : {c = CsSIdle CdNew} + {c <> CsSIdle CdNew}.
Proof. destruct c as [d| | | |]; try (right; discriminate). destruct d; try (right; discriminate). left; reflexivity. Qed.

Lemma acc_step s w m w' : Rel s w -> (cstep w m = Some w' \/ sstep w m = Some w') -> Acc s -> Acc (apply_msg s m).
Proof.
  intros R S A Hp.
  (* if the premise of Acc already held before, hs was accepted and stays so *)
  destruct (cs_new_dec (cs s)) as [Cn|Cn].
  2:{ destruct (A (or_intror Cn)) as (v & p & H). exists v, p. apply hs_accepted_stable, H. }
  destruct (is_init s) eqn:I.
  { destruct (A (or_introl I)) as (v & p & H). exists v, p. apply hs_accepted_stable, H. }
  rewrite am_init, I in Hp. destruct Hp as [Hp|Hp]; [discriminate|].
  (* cs left New: only a chainsync client message does that, and the spec permits it only after acceptance *)
  destruct (Z.eq_dec (proto_of m) 2) as [E|N]; [|rewrite am_cs in Hp by exact N; contradiction].
  destruct R as (R1 & _).
  assert (X : accepted w = true).
  { destruct S as [S|S]; destruct m; cbn [proto_of] in E; try discriminate; cbn [cstep sstep] in S;
      unfold guard in S; destruct (accepted w); try discriminate; reflexivity. }
  unfold accepted in X. destruct (w_hs w) eqn:W; try discriminate.
  destruct (hs s) eqn:H; cbn in R1; try congruence. inversion R1; subst.
  exists v, ps. rewrite am_hs by lia. exact H.
Qed.
