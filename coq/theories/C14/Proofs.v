From PV Require Import Lib.Base C14.Model.
Open Scope Z_scope.

(* ---- the branchless step, all 511 x 511 (res, diff) pairs ---- *)
Definition step_ok (res d : Z) : bool := step res d =? (if d =? 0 then res else d).
Definition dom := zrangeZ (-255) 511.

Lemma step_sweep : forallb (fun r => forallb (step_ok r) dom) dom = true.
Proof. vm_compute. reflexivity. Qed.

Lemma step_spec res d :
  -255 <= res <= 255 -> -255 <= d <= 255 -> step res d = if d =? 0 then res else d.
Proof.
  intros Hr Hd. pose proof step_sweep as H.
  rewrite forallb_forall in H. specialize (H res). rewrite forallb_forall in H.
  assert (Hi : In res dom) by (apply zrangeZ_In; lia).
  assert (Hj : In d dom) by (apply zrangeZ_In; lia).
  specialize (H Hi d Hj).
  unfold step_ok in H. apply Z.eqb_eq in H. exact H.
Qed.

Definition finish_ok (r : Z) : bool := ord_z (finish r ?= 0) =? ord_z (r ?= 0).
Lemma finish_sweep : forallb finish_ok dom = true.
Proof. vm_compute. reflexivity. Qed.
Lemma finish_spec r : -255 <= r <= 255 -> ord_z (finish r ?= 0) = ord_z (r ?= 0).
Proof.
  intros Hr. pose proof finish_sweep as H. rewrite forallb_forall in H.
  assert (Hi : In r dom) by (apply zrangeZ_In; lia).
  specialize (H r Hi). apply Z.eqb_eq in H. exact H.
Qed.

(* ---- first non-zero difference ---- *)
Fixpoint first_diff (l : list (Z * Z)) : Z :=
  match l with
  | [] => 0
  | (x, y) :: r => if x - y =? 0 then first_diff r else x - y
  end.

Definition pairs_wf (l : list (Z * Z)) : Prop := Forall (fun p => byte (fst p) /\ byte (snd p)) l.

Lemma first_diff_range l : pairs_wf l -> -255 <= first_diff l <= 255.
Proof.
  induction 1 as [|[x y] r [Hx Hy] _ IH]; cbn [first_diff]; [lia|].
  unfold byte in *; cbn [fst snd] in *. destruct (x - y =? 0) eqn:?; lia.
Qed.

Lemma acc_first_diff l : pairs_wf l ->
  fold_left (fun res p => step res (fst p - snd p)) (rev l) 0 = first_diff l.
Proof.
  induction 1 as [|[x y] r [Hx Hy] Hr IH]; [reflexivity|].
  cbn [rev]. rewrite fold_left_app. cbn [fold_left fst snd first_diff]. rewrite IH.
  unfold byte in *; cbn [fst snd] in *.
  rewrite step_spec; [reflexivity| apply first_diff_range; exact Hr | lia].
Qed.

Lemma combine_wf a b : bytes_wf a -> bytes_wf b -> pairs_wf (combine a b).
Proof.
  intros Ha; revert b; induction Ha as [|x a Hx Ha IH]; intros b Hb; [constructor|].
  destruct Hb as [|y b Hy Hb]; [constructor|]. cbn [combine]. constructor; [split; assumption|].
  apply IH; assumption.
Qed.

Lemma first_diff_lex a b : length a = length b ->
  ord_z (first_diff (combine a b) ?= 0) = lex_compare a b.
Proof.
  revert b; induction a as [|x a IH]; intros [|y b] Hl; cbn in Hl; try discriminate; [reflexivity|].
  cbn [combine first_diff lex_compare].
  destruct (x - y =? 0) eqn:E.
  - assert (x = y) by lia. subst. rewrite Z.eqb_refl. apply IH. lia.
  - assert (x <> y) by lia. destruct (x =? y) eqn:E2; [lia|].
    destruct (x <? y) eqn:E3.
    + assert (x - y < 0) by lia. destruct (Z.compare_spec (x - y) 0); try reflexivity; lia.
    + assert (x - y > 0) by lia. destruct (Z.compare_spec (x - y) 0); try reflexivity; lia.
Qed.

Lemma memcmp_lex_proof a b :
  bytes_wf a -> bytes_wf b -> length a = length b -> memcmp a b = lex_compare a b.
Proof.
  intros Ha Hb Hl. unfold memcmp, memcmp_acc.
  rewrite acc_first_diff by (apply combine_wf; assumption).
  rewrite finish_spec by (apply first_diff_range, combine_wf; assumption).
  apply first_diff_lex; exact Hl.
Qed.

(* the accumulator never leaves the i32 range (so the Z model of i32 is exact) *)
Lemma memcmp_acc_range a b : bytes_wf a -> bytes_wf b -> -255 <= memcmp_acc a b <= 255.
Proof.
  intros Ha Hb. unfold memcmp_acc. rewrite acc_first_diff by (apply combine_wf; assumption).
  apply first_diff_range, combine_wf; assumption.
Qed.

(* lex_compare is the ordinary order: 0 iff equal, and antisymmetric sign *)
Lemma lex_compare_eq a b : length a = length b -> (lex_compare a b = 0 <-> a = b).
Proof.
  revert b; induction a as [|x a IH]; intros [|y b] Hl; cbn in Hl; try discriminate; [easy|].
  cbn [lex_compare]. destruct (x =? y) eqn:E.
  - assert (x = y) by lia. subst. rewrite IH by lia. split; congruence.
  - destruct (x <? y); split; intros H; try lia; inversion H; lia.
Qed.

(* ---- memeq ---- *)
Lemma lor_nonneg_fold l s : 0 <= s -> Forall (fun p => 0 <= fst p /\ 0 <= snd p) l ->
  0 <= fold_left (fun sum p => Z.lor sum (Z.lxor (fst p) (snd p))) l s.
Proof.
  intros Hs Hl; revert s Hs; induction Hl as [|p l [H1 H2] _ IH]; intros s Hs; cbn [fold_left]; [exact Hs|].
  apply IH. apply Z.lor_nonneg. split; [exact Hs|]. apply Z.lxor_nonneg. lia.
Qed.

Lemma memeq_fold_zero l s :
  fold_left (fun sum p => Z.lor sum (Z.lxor (fst p) (snd p))) l s = 0 <->
  s = 0 /\ Forall (fun p => fst p = snd p) l.
Proof.
  revert s; induction l as [|p l IH]; intros s; cbn [fold_left].
  - split; [intros ->; split; constructor | intros [H _]; exact H].
  - rewrite IH. rewrite Z.lor_eq_0_iff. rewrite Z.lxor_eq_0_iff. split.
    + intros [[H1 H2] H3]. split; [exact H1|]. constructor; assumption.
    + intros [H1 H2]. inversion H2; subst. tauto.
Qed.

Lemma combine_eq_iff (a b : list Z) : length a = length b ->
  (Forall (fun p => fst p = snd p) (combine a b) <-> a = b).
Proof.
  revert b; induction a as [|x a IH]; intros [|y b] Hl; cbn in Hl; try discriminate.
  - split; [reflexivity | constructor].
  - cbn [combine]. split.
    + intros H; inversion H; subst. cbn in *. f_equal; [assumption|]. apply IH; [lia|assumption].
    + intros H; inversion H; subst. constructor; [reflexivity|]. apply IH; [lia|reflexivity].
Qed.

Lemma memeq_iff_proof a b : length a = length b -> (memeq a b = true <-> a = b).
Proof.
  intros Hl. unfold memeq, memeq_acc. rewrite Z.eqb_eq, memeq_fold_zero.
  rewrite combine_eq_iff by exact Hl. tauto.
Qed.
