(* Shared prelude: imports, lia hooks, byte predicates, the case-runner used by
   the correspondence check (vp/check.py writes cases files against it). *)
From Coq Require Export List ZArith NArith Lia Bool Arith.
From Coq Require Export ZifyBool ZifyNat ZifyN.
Export ListNotations.

Ltac Zify.zify_post_hook ::= Z.div_mod_to_equations.

#[global] Arguments N.add : simpl never.
#[global] Arguments N.sub : simpl never.
#[global] Arguments N.mul : simpl never.
#[global] Arguments Z.add : simpl never.
#[global] Arguments Z.sub : simpl never.
#[global] Arguments Z.mul : simpl never.
#[global] Arguments Z.pow : simpl never.
#[global] Arguments Z.div : simpl never.
#[global] Arguments Z.modulo : simpl never.

(* A byte is a Z in [0,256). *)
Definition byteb (b : Z) : bool := (0 <=? b)%Z && (b <? 256)%Z.
Definition byte (b : Z) : Prop := (0 <= b < 256)%Z.
Definition bytes_wf (l : list Z) : Prop := Forall byte l.
Definition bytes_wfb (l : list Z) : bool := forallb byteb l.

Lemma byteb_spec b : byteb b = true <-> byte b.
Proof. unfold byteb, byte. lia. Qed.

Lemma bytes_wfb_spec l : bytes_wfb l = true <-> bytes_wf l.
Proof.
  unfold bytes_wfb, bytes_wf. rewrite forallb_forall, Forall_forall.
  split; intros H x Hx; apply byteb_spec, H, Hx.
Qed.

(* Outcome of a modelled operation: value, error (class), or panic (kind). *)
Inductive outcome (A : Type) : Type :=
| Ok (a : A)
| Err (e : Z)
| Panic (p : Z).
Arguments Ok {A} a.
Arguments Err {A} e.
Arguments Panic {A} p.

Definition is_panic {A} (o : outcome A) : bool :=
  match o with Panic _ => true | _ => false end.

(* Case runner: indices (from 0) of the cases on which [ok] is false. *)
Fixpoint bad_indices_from {A} (ok : A -> bool) (i : N) (l : list A) : list N :=
  match l with
  | [] => []
  | x :: r => if ok x then bad_indices_from ok (N.succ i) r
              else i :: bad_indices_from ok (N.succ i) r
  end.
Definition bad_indices {A} (ok : A -> bool) (l : list A) : list N := bad_indices_from ok 0%N l.

(* Range enumeration on Z, used by finite sweeps. *)
Definition zrange (lo : Z) (n : nat) : list Z := map (fun i => (lo + Z.of_nat i)%Z) (seq 0 n).

Lemma zrange_In lo n x : (lo <= x < lo + Z.of_nat n)%Z -> In x (zrange lo n).
Proof.
  intros H. unfold zrange. apply in_map_iff. exists (Z.to_nat (x - lo)). split; [lia|].
  apply in_seq. lia.
Qed.

Definition zrangeZ (lo n : Z) : list Z := zrange lo (Z.to_nat n).
Lemma zrangeZ_In lo n x : (lo <= x < lo + n)%Z -> In x (zrangeZ lo n).
Proof. intros H. apply zrange_In. lia. Qed.

Fixpoint list_eqb {A} (eqb : A -> A -> bool) (l1 l2 : list A) : bool :=
  match l1, l2 with
  | [], [] => true
  | x :: r1, y :: r2 => eqb x y && list_eqb eqb r1 r2
  | _, _ => false
  end.

Lemma list_eqb_Z_spec l1 l2 : list_eqb Z.eqb l1 l2 = true <-> l1 = l2.
Proof.
  revert l2; induction l1 as [|x r IH]; intros [|y r2]; cbn; split; intros H; try easy.
  - apply andb_true_iff in H as [H1 H2]. apply Z.eqb_eq in H1. apply IH in H2. congruence.
  - inversion H; subst. rewrite Z.eqb_refl. cbn. apply IH. reflexivity.
Qed.
