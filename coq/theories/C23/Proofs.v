(* C23 — proofs: the finite facts by one kernel-checked evaluation over the regenerated
   tables (agent_ok for every agent), lifted with forallb_forall; runs by induction with the
   product exploration as invariant. *)
From PV Require Import Lib.Base C24.Spec Generated.AgentTables C23.Model C23.Defs.
From Coq Require Import String.
Open Scope string_scope.

Lemma all_agents_ok : forallb agent_ok agents = true.
Proof. vm_compute. reflexivity. Qed.

Lemma agent_ok_of a : In a agents -> agent_ok a = true.
Proof. intros H. exact (proj1 (forallb_forall agent_ok agents) all_agents_ok a H). Qed.

Lemma agent_ok_parts a : agent_ok a = true ->
  tables_ok a = true /\ agency_ok a = true /\ covers_ok a = true /\ closed a (reach a) = true /\
  steps_ok a = true /\ complete_ok a = true /\ reaches_all a = true.
Proof.
  unfold agent_ok. intros H.
  repeat (apply andb_true_iff in H; destruct H as [H ?]). repeat split; assumption.
Qed.

(* ---------------------------------------------------------------- tables *)
Lemma tables_match_proof : forall a s m,
  In a agents -> In s (at_states (ag_table a)) -> In m (at_msgs (ag_table a)) ->
  (is_known a s m "send" = false ->
     can_send (ag_table a) s m = spec_can (ag_spec a) (a_proto a) (ag_role a) s m) /\
  (is_known a s m "recv" = false ->
     can_recv (ag_table a) s m = spec_can (ag_spec a) (a_proto a) (other (ag_role a)) s m).
Proof.
  intros a s m Ha Hs Hm.
  destruct (agent_ok_parts a (agent_ok_of a Ha)) as [Ht _].
  unfold tables_ok in Ht.
  pose proof (proj1 (forallb_forall _ _) Ht s Hs) as H1. cbv beta in H1.
  pose proof (proj1 (forallb_forall _ _) H1 m Hm) as H2. cbv beta in H2.
  apply andb_true_iff in H2. destruct H2 as [Hsend Hrecv].
  unfold cell_send_ok in Hsend. unfold cell_recv_ok in Hrecv.
  split; intros Hk.
  - rewrite Hk in Hsend. cbn [orb] in Hsend. apply eqb_prop in Hsend. exact Hsend.
  - rewrite Hk in Hrecv. cbn [orb] in Hrecv. apply eqb_prop in Hrecv. exact Hrecv.
Qed.

Lemma agency_match_proof : forall a s q r,
  In a agents -> In s (at_states (ag_table a)) -> In q (st_spec (a_proto a) s) ->
  spec_agency (ag_spec a) q = Some r -> r <> Nobody ->
  has_agency (ag_table a) s = agency_eqb r (ag_role a).
Proof.
  intros a s q r Ha Hs Hq Hr Hn.
  destruct (agent_ok_parts a (agent_ok_of a Ha)) as [_ [Hag _]].
  unfold agency_ok in Hag.
  pose proof (proj1 (forallb_forall _ _) Hag s Hs) as H1. cbv beta in H1.
  pose proof (proj1 (forallb_forall _ _) H1 q Hq) as H2. cbv beta in H2.
  rewrite Hr in H2. destruct r; try (apply eqb_prop in H2; exact H2). contradiction Hn; reflexivity.
Qed.

Lemma covers_proof : forall a, In a agents -> covers_ok a = true.
Proof. intros a Ha. destruct (agent_ok_parts a (agent_ok_of a Ha)) as [_ [_ [H _]]]. exact H. Qed.

Definition in_scope (proto : string) : bool :=
  mem proto ["blockfetch"; "chainsync"; "handshake"; "keepalive"; "peersharing"; "txsubmission";
             "localstate"; "localtxsubmission"; "txmonitor"].

Definition table_has_agent (t : agent_table) : bool :=
  negb (in_scope (at_proto t)) ||
  existsb (fun a => String.eqb (a_proto a) (at_proto t) && String.eqb (a_role a) (at_role t)) agents.

Lemma all_tables_have_agents : forallb table_has_agent agent_tables = true.
Proof. vm_compute. reflexivity. Qed.

Lemma agents_cover_tables_proof : forall t, In t agent_tables -> in_scope (at_proto t) = true ->
  exists a, In a agents /\ a_proto a = at_proto t /\ a_role a = at_role t.
Proof.
  intros t Ht Hs.
  pose proof (proj1 (forallb_forall _ _) all_tables_have_agents t Ht) as H. unfold table_has_agent in H.
  rewrite Hs in H. cbn [negb orb] in H. apply existsb_exists in H. destruct H as [a [Ha Hb]].
  apply andb_true_iff in Hb. destruct Hb as [H1 H2]. apply String.eqb_eq in H1. apply String.eqb_eq in H2.
  exists a. auto.
Qed.

(* ------------------------------------------------------------------- runs *)
Lemma pair_mem_In x l : pair_mem x l = true -> In x l.
Proof.
  unfold pair_mem. intros H. apply existsb_exists in H. destruct H as [y [Hy He]].
  unfold pair_eqb in He. apply andb_true_iff in He. destruct He as [H1 H2].
  apply String.eqb_eq in H1. apply String.eqb_eq in H2.
  destruct x, y; cbn in *; subst. exact Hy.
Qed.

Lemma In_pair_mem x l : In x l -> pair_mem x l = true.
Proof.
  intros H. unfold pair_mem. apply existsb_exists. exists x. split; [exact H|].
  unfold pair_eqb. rewrite !String.eqb_refl. reflexivity.
Qed.

Lemma mem_In x l : mem x l = true -> In x l.
Proof.
  unfold mem. intros H. apply existsb_exists in H. destruct H as [y [Hy He]].
  apply String.eqb_eq in He. subst. exact Hy.
Qed.

Lemma spec_events_app a q e1 e2 :
  spec_events a q (e1 ++ e2) = match spec_events a q e1 with Some q' => spec_events a q' e2 | None => None end.
Proof.
  revert q; induction e1 as [|[sent m] r IH]; intros q; cbn [spec_events app]; [reflexivity|].
  destruct (spec_ev _ _ _ q m); [apply IH|reflexivity].
Qed.

(* one accepted call from a reached product state *)
Lemma step_from_reach a s q o :
  In a agents -> In (s, q) (reach a) -> In o (alphabet a) -> is_call o = true ->
  is_known a s (op_msg a o) "next" = false -> so_ok (step a s o) = true ->
  exists q', spec_events a q (events_of (step a s o)) = Some q' /\
             In (so_state (step a s o), q') (reach a) /\
             In q' (st_spec (a_proto a) (so_state (step a s o))).
Proof.
  intros Ha Hpq Ho Hc Hk Hok.
  destruct (agent_ok_parts a (agent_ok_of a Ha)) as [_ [_ [_ [Hcl [Hst _]]]]].
  unfold steps_ok in Hst.
  pose proof (proj1 (forallb_forall _ _) Hst (s, q) Hpq) as H1. cbv beta in H1.
  pose proof (proj1 (forallb_forall _ _) H1 o Ho) as H2.
  unfold closed in Hcl.
  pose proof (proj1 (forallb_forall _ _) Hcl (s, q) Hpq) as C1. cbv beta in C1.
  pose proof (proj1 (forallb_forall _ _) C1 o Ho) as C2. cbv beta in C2.
  unfold succ in C2. rewrite Hc, Hok, Hk in C2. cbn [andb negb] in C2.
  unfold pair_step_ok in H2. destruct o as [n d|m|m]; try discriminate Hc.
  destruct (spec_events a q (events_of (step a s (Call n d)))) as [q'|] eqn:Ev; [|discriminate H2].
  rewrite Hok, Hk in H2. cbn [orb] in H2.
  exists q'. split; [reflexivity|]. split.
  - apply pair_mem_In. exact C2.
  - apply mem_In. exact H2.
Qed.

Lemma run_conforms_from a : In a agents -> forall ops s q s',
  In (s, q) (reach a) -> In q (st_spec (a_proto a) s) ->
  Forall (fun o => In o (alphabet a) /\ is_call o = true) ops ->
  avoids_known23 a s ops ->
  model_run a s ops = Some s' ->
  exists q', spec_events a q (events a s ops) = Some q' /\ In q' (st_spec (a_proto a) s').
Proof.
  intros Ha ops. induction ops as [|o r IH]; intros s q s' Hpq Hb Hall Hav Hrun.
  - cbn in Hrun. inversion Hrun; subst. exists q. split; [reflexivity|exact Hb].
  - inversion Hall as [|? ? [Ho Hc] Hall']; subst.
    cbn [avoids_known23] in Hav. destruct Hav as [Hk Hav'].
    cbn [model_run] in Hrun. cbv zeta in Hrun, Hav'.
    destruct (so_ok (step a s o)) eqn:Hok; [|discriminate Hrun].
    destruct (step_from_reach a s q o Ha Hpq Ho Hc Hk Hok) as [q1 [Ev [Hin Hbr]]].
    destruct (IH _ q1 s' Hin Hbr Hall' Hav' Hrun) as [q' [Ev' Hb']].
    exists q'. split; [|exact Hb'].
    cbn [events]. cbv zeta. rewrite Hok. rewrite spec_events_app, Ev. exact Ev'.
Qed.

Lemma init_in_reach a : In (init_pair a) (reach a).
Proof.
  unfold reach. generalize 12%nat. intros n. generalize (init_pair a). intros p.
  assert (G : forall n acc, In p acc -> In p (iterate a n acc)).
  { clear n. induction n as [|k IH]; intros acc Hacc; cbn [iterate]; [exact Hacc|].
    apply IH. unfold expand.
    generalize (flat_map (fun pq => flat_map (fun o => match succ a pq o with Some x => [x] | None => [] end) (alphabet a)) acc).
    intros l. revert acc Hacc. induction l as [|x l IHl]; intros acc Hacc; cbn [add_new]; [exact Hacc|].
    destruct (pair_mem x acc); apply IHl; [exact Hacc|]. apply in_or_app. left. exact Hacc. }
  apply G. left. reflexivity.
Qed.

Lemma run_conforms_proof : forall a ops s',
  In a agents ->
  Forall (fun o => In o (alphabet a) /\ is_call o = true) ops ->
  avoids_known23 a (at_init (ag_table a)) ops ->
  model_run a (at_init (ag_table a)) ops = Some s' ->
  exists q', spec_events a (sp_init (ag_spec a)) (events a (at_init (ag_table a)) ops) = Some q' /\
             In q' (st_spec (a_proto a) s').
Proof.
  intros a ops s' Ha Hall Hav Hrun.
  apply (run_conforms_from a Ha ops _ _ s'); try assumption.
  - exact (init_in_reach a).
  - pose proof (covers_proof a Ha) as Hc. unfold covers_ok in Hc.
    apply andb_true_iff in Hc. destruct Hc as [_ Hc]. apply mem_In. exact Hc.
Qed.

(* ------------------------------------------- low-level exactness, completeness *)
Lemma lowlevel_exact_proof : forall a s q m,
  In a agents -> In (s, q) (reach a) -> In m (at_msgs (ag_table a)) ->
  (ag_low_send a = true -> is_known a s m "send" = false ->
     so_ok (step a s (LowSend m)) = is_some (spec_ev (ag_spec a) (a_proto a) (ag_role a) q m)) /\
  (ag_low_recv a = true -> is_known a s m "recv" = false ->
     so_ok (step a s (LowRecv m)) = is_some (spec_ev (ag_spec a) (a_proto a) (other (ag_role a)) q m)).
Proof.
  intros a s q m Ha Hpq Hm.
  destruct (agent_ok_parts a (agent_ok_of a Ha)) as [_ [_ [_ [_ [Hst _]]]]].
  unfold steps_ok in Hst.
  pose proof (proj1 (forallb_forall _ _) Hst (s, q) Hpq) as H1. cbv beta in H1.
  split; intros Hl Hk.
  - assert (Hin : In (LowSend m) (alphabet a)).
    { unfold alphabet. apply in_or_app. right. apply in_or_app. left. rewrite Hl. apply in_map. exact Hm. }
    pose proof (proj1 (forallb_forall _ _) H1 _ Hin) as H2. unfold pair_step_ok in H2.
    rewrite Hk in H2. rewrite orb_false_r in H2. apply eqb_prop in H2. exact H2.
  - assert (Hin : In (LowRecv m) (alphabet a)).
    { unfold alphabet. apply in_or_app. right. apply in_or_app. right. rewrite Hl. apply in_map.
      unfold deliverables. apply in_or_app. left. exact Hm. }
    pose proof (proj1 (forallb_forall _ _) H1 _ Hin) as H2. unfold pair_step_ok in H2.
    rewrite Hk in H2. rewrite orb_false_r in H2. apply eqb_prop in H2. exact H2.
Qed.

Lemma complete_proof : forall a pq, In a agents -> In pq (reach a) -> complete_at a pq = true.
Proof.
  intros a pq Ha Hpq.
  destruct (agent_ok_parts a (agent_ok_of a Ha)) as [_ [_ [_ [_ [_ [Hc _]]]]]].
  exact (proj1 (forallb_forall _ _) Hc pq Hpq).
Qed.

Lemma reaches_all_proof : forall a, In a agents -> reaches_all a = true.
Proof. intros a Ha. destruct (agent_ok_parts a (agent_ok_of a Ha)) as [_ [_ [_ [_ [_ [_ H]]]]]]. exact H. Qed.

(* ------------------------------------------------- the known cells are real *)
Definition known_refuted (k : string * string * string * string * string) : bool :=
  let '(p, r, s, m, kind) := k in
  match find_agent p r agents with
  | None => false
  | Some a =>
      if String.eqb kind "send" then
        negb (Bool.eqb (can_send (ag_table a) s m) (spec_can (ag_spec a) (a_proto a) (ag_role a) s m))
      else if String.eqb kind "recv" then
        negb (Bool.eqb (can_recv (ag_table a) s m) (spec_can (ag_spec a) (a_proto a) (other (ag_role a)) s m))
      else if String.eqb kind "next" then
        (* some accepted call carrying m from s ends in a state that does not stand for the specification's *)
        existsb (fun q => existsb (fun o =>
            let x := step a s o in
            is_call o && String.eqb (base (op_msg a o)) m && so_ok x &&
            match spec_events a q (events_of x) with
            | Some q' => negb (mem q' (st_spec (a_proto a) (so_state x)))
            | None => false
            end) (alphabet a)) (st_spec (a_proto a) s)
      else
        (* no accepted operation carries a transition the specification offers from s on m *)
        existsb (fun q => existsb (fun m' =>
            is_some (spec_next (ag_spec a) q m') &&
            negb (existsb (fun o => let x := step a s o in so_ok x && carries a x m') (alphabet a)))
          (msg_spec (a_proto a) m)) (st_spec (a_proto a) s)
  end.

Lemma known23_all_refuted : forallb known_refuted known23 = true.
Proof. vm_compute. reflexivity. Qed.
