(* C37 — property theorems only. Statements are pinned by vp/check.py. *)
From PV Require Import Lib.Base C37.Model C37.Proofs.
Open Scope Z_scope.

(* An accepted transaction's redeemers sum (in Z, no wrap-around) to at most the
   per-transaction maximum — Alonzo and Babbage (list encoding). *)
Theorem accept_implies_budget : forall has_plutus rdm maxm maxs,
  0 <= maxm -> 0 <= maxs ->
  check_tx_ex_units_alonzo has_plutus rdm maxm maxs = V_OK ->
  total_mem (units_of rdm) <= maxm /\ total_steps (units_of rdm) <= maxs.
Proof. exact alonzo_accept. Qed.

Theorem accept_implies_budget_babbage : forall has_plutus rdm maxm maxs,
  0 <= maxm -> 0 <= maxs ->
  check_tx_ex_units_babbage has_plutus rdm maxm maxs = V_OK ->
  total_mem (units_of rdm) <= maxm /\ total_steps (units_of rdm) <= maxs.
Proof. exact alonzo_accept. Qed.

(* Conway, whichever redeemer encoding (list or map) the transaction uses. *)
Theorem accept_implies_budget_conway : forall has_plutus rdm maxm maxs,
  0 <= maxm -> 0 <= maxs ->
  check_tx_ex_units_conway has_plutus rdm maxm maxs = V_OK ->
  total_mem (units_of_conway rdm) <= maxm /\ total_steps (units_of_conway rdm) <= maxs.
Proof. exact conway_accept. Qed.

Theorem conway_encoding_irrelevant : forall has_plutus l maxm maxs,
  check_tx_ex_units_conway has_plutus (Some (RList l)) maxm maxs =
  check_tx_ex_units_conway has_plutus (Some (RMap l)) maxm maxs.
Proof. reflexivity. Qed.

(* The rule rejects nothing else: a budget within the limits is accepted
   (so the theorems above are not vacuous), for u64 inputs. *)
Theorem budget_implies_accept : forall l maxm maxs,
  Forall (fun p => 0 <= fst p /\ 0 <= snd p) l ->
  maxm <= U64_MAX -> maxs <= U64_MAX ->
  total_mem l <= maxm -> total_steps l <= maxs ->
  budget_verdict l maxm maxs = V_OK.
Proof. exact budget_verdict_complete. Qed.

(* What was wrong before the repairs (witnesses are inputs of the old code). *)
Theorem conway_budget_refuted_before_fix :
  exists has rdm maxm maxs, 0 <= maxm /\ 0 <= maxs /\ has = true /\
    check_tx_ex_units_conway_old has rdm maxm maxs = V_OK /\
    total_mem (units_of_conway rdm) > maxm.
Proof. exact conway_old_refuted. Qed.

Theorem reference_script_budget_refuted_before_fix :
  exists rdm maxm maxs, 0 <= maxm /\ 0 <= maxs /\
    check_tx_ex_units_conway_old false rdm maxm maxs = V_OK /\
    total_steps (units_of_conway rdm) > maxs.
Proof. exact conway_old_refscript_refuted. Qed.

Theorem wrapping_budget_refuted_before_fix :
  exists rdm maxm maxs, 0 <= maxm <= U64_MAX /\ 0 <= maxs <= U64_MAX /\
    Forall (fun p => 0 <= fst p <= U64_MAX /\ 0 <= snd p <= U64_MAX) (units_of rdm) /\
    check_tx_ex_units_alonzo_old_release true rdm maxm maxs = V_OK /\
    total_mem (units_of rdm) > maxm.
Proof. exact alonzo_old_wrap_refuted. Qed.

(* non-vacuity: a two-redeemer budget exactly at the limit is accepted, one unit more is not *)
Example budget_boundary :
  check_tx_ex_units_conway true (Some (RMap [(6000000, 4000000000); (8000000, 6000000000)])) 14000000 10000000000 = V_OK /\
  check_tx_ex_units_conway true (Some (RMap [(6000000, 4000000000); (8000001, 6000000000)])) 14000000 10000000000 = V_EXCEEDED /\
  check_tx_ex_units_alonzo true (Some [(U64_MAX, 0); (1, 0)]) U64_MAX U64_MAX = V_EXCEEDED.
Proof. repeat split; vm_compute; reflexivity. Qed.
