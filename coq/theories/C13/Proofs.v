From PV Require Import Lib.Base Kes.Model Kes.KeyAt C12.Model C12.Proofs C13.Model.
Open Scope Z_scope.

(* ---- derivation ---- *)
Lemma desc_trans x y z : desc x y -> desc y z -> desc x z.
Proof. intros Hxy Hyz. induction Hyz; [exact Hxy| apply desc_L; assumption | apply desc_R; assumption]. Qed.

Lemma descb_spec x y : descb x y = true <-> desc x y.
Proof.
  split.
  - revert x; induction y; intros x H; cbn [descb] in H; apply orb_true_iff in H as [H|H];
      try (apply term_eqb_eq in H; subst; apply desc_refl); try discriminate.
    + apply desc_L, IHy, H.
    + apply desc_R, IHy, H.
  - intros H. induction H as [|y H IH|y H IH].
    + destruct x; cbn [descb]; rewrite term_eqb_refl; reflexivity.
    + cbn [descb]. rewrite IH. apply orb_true_r.
    + cbn [descb]. rewrite IH. apply orb_true_r.
Qed.

Fixpoint tsize (x : term) : nat :=
  match x with
  | L y | R y | Pk y | SigR y _ | SigS y _ => S (tsize y)
  | H2 a b => S (tsize a + tsize b)
  | _ => 1%nat
  end.

Lemma desc_size x y : desc x y -> (tsize x <= tsize y)%nat.
Proof. induction 1; cbn [tsize]; lia. Qed.

Lemma desc_inv_L x y : desc x (L y) -> x = L y \/ desc x y.
Proof. intros H. inversion H; subst; [left; reflexivity | right; assumption]. Qed.
Lemma desc_inv_R x y : desc x (R y) -> x = R y \/ desc x y.
Proof. intros H. inversion H; subst; [left; reflexivity | right; assumption]. Qed.

(* the values from which y derives form a chain *)
Lemma desc_chain a b y : desc a y -> desc b y -> desc a b \/ desc b a.
Proof.
  intros Ha. revert b. induction Ha as [|y Ha IH|y Ha IH]; intros b Hb.
  - right. exact Hb.
  - apply desc_inv_L in Hb as [->|Hb]; [left; apply desc_L; exact Ha | apply IH, Hb].
  - apply desc_inv_R in Hb as [->|Hb]; [left; apply desc_R; exact Ha | apply IH, Hb].
Qed.

(* the two halves of a split share no descendant *)
Lemma siblings_disjoint s y : desc (L s) y -> desc (R s) y -> False.
Proof.
  intros Hl Hr. destruct (desc_chain _ _ _ Hl Hr) as [H|H].
  - apply desc_inv_R in H as [H|H]; [discriminate|]. apply desc_size in H. cbn [tsize] in H. lia.
  - apply desc_inv_L in H as [H|H]; [discriminate|]. apply desc_size in H. cbn [tsize] in H. lia.
Qed.

Lemma desc_is_seed x y : desc x y -> is_seed y = true -> is_seed x = true.
Proof. induction 1; cbn [is_seed]; auto. Qed.

Lemma leaf_seed_desc n : forall s t, desc s (leaf_seed n s t).
Proof.
  induction n as [|n IH]; intros s t; cbn [leaf_seed]; [apply desc_refl|].
  destruct (t <? total n).
  - apply desc_trans with (L s); [apply desc_L, desc_refl | apply IH].
  - apply desc_trans with (R s); [apply desc_R, desc_refl | apply IH].
Qed.

Lemma leaf_seed_is_seed n : forall s t, is_seed s = true -> is_seed (leaf_seed n s t) = true.
Proof.
  induction n as [|n IH]; intros s t Hs; cbn [leaf_seed]; [exact Hs|].
  destruct (t <? total n); apply IH; cbn [is_seed]; exact Hs.
Qed.

Lemma pk_tree_not_seed n s : is_seed (pk_tree n s) = false.
Proof. destruct n; reflexivity. Qed.

(* every genuine seed stored in a key buffer descends from the key's own seed *)
Lemma key_at_seed_slots n : forall s t x,
  In x (key_at n s t) -> is_seed x = true -> desc s x.
Proof.
  induction n as [|n IH]; intros s t x Hin Hx; cbn [key_at] in Hin.
  - destruct Hin as [<-|[]]. apply desc_refl.
  - destruct (t <? total n); apply in_app_or in Hin as [Hin|Hin].
    + apply desc_trans with (L s); [apply desc_L, desc_refl | exact (IH _ _ _ Hin Hx)].
    + cbn [In] in Hin. destruct Hin as [<-|[<-|[<-|[]]]].
      * apply desc_R, desc_refl.
      * rewrite pk_tree_not_seed in Hx. discriminate.
      * rewrite pk_tree_not_seed in Hx. discriminate.
    + apply desc_trans with (R s); [apply desc_R, desc_refl | exact (IH _ _ _ Hin Hx)].
    + cbn [In] in Hin. destruct Hin as [<-|[<-|[<-|[]]]].
      * discriminate.
      * rewrite pk_tree_not_seed in Hx. discriminate.
      * rewrite pk_tree_not_seed in Hx. discriminate.
Qed.

(* ---- forward security of the closed-form buffer ---- *)
Lemma key_at_secure n : forall s t t' x,
  is_seed s = true -> 0 <= t < total n -> 0 <= t' < total n ->
  In x (key_at n s t) -> desc x (leaf_seed n s t') -> t <= t'.
Proof.
  induction n as [|n IH]; intros s t t' x Hs Ht Ht' Hin Hd.
  - unfold total in *. cbn in Ht, Ht'. lia.
  - rewrite total_S in Ht, Ht'. cbn [key_at] in Hin. cbn [leaf_seed] in Hd.
    assert (HsL : is_seed (L s) = true) by exact Hs.
    assert (HsR : is_seed (R s) = true) by exact Hs.
    destruct (t <? total n) eqn:E; destruct (t' <? total n) eqn:E'; try lia;
      apply in_app_or in Hin as [Hin|Hin].
    + (* both in the left half *) apply (IH (L s) t t' x); try assumption; lia.
    + cbn [In] in Hin. destruct Hin as [<-|[<-|[<-|[]]]].
      * exfalso. exact (siblings_disjoint _ _ (leaf_seed_desc n (L s) t') Hd).
      * apply desc_is_seed in Hd; [|apply leaf_seed_is_seed, HsL].
        rewrite pk_tree_not_seed in Hd. discriminate.
      * apply desc_is_seed in Hd; [|apply leaf_seed_is_seed, HsL].
        rewrite pk_tree_not_seed in Hd. discriminate.
    + (* key already in the right half, target leaf in the left half: impossible *)
      exfalso.
      assert (Hx : is_seed x = true) by (apply (desc_is_seed _ _ Hd), leaf_seed_is_seed, HsL).
      pose proof (key_at_seed_slots _ _ _ _ Hin Hx) as Hrx.
      exact (siblings_disjoint _ _ (leaf_seed_desc n (L s) t') (desc_trans _ _ _ Hrx Hd)).
    + exfalso. cbn [In] in Hin. destruct Hin as [<-|[<-|[<-|[]]]].
      * apply desc_is_seed in Hd; [discriminate | apply leaf_seed_is_seed, HsL].
      * apply desc_is_seed in Hd; [|apply leaf_seed_is_seed, HsL].
        rewrite pk_tree_not_seed in Hd. discriminate.
      * apply desc_is_seed in Hd; [|apply leaf_seed_is_seed, HsL].
        rewrite pk_tree_not_seed in Hd. discriminate.
    + assert (t - total n <= t' - total n); [|lia].
      apply (IH (R s) (t - total n) (t' - total n) x); try assumption; lia.
    + exfalso. cbn [In] in Hin. destruct Hin as [<-|[<-|[<-|[]]]].
      * apply desc_is_seed in Hd; [discriminate | apply leaf_seed_is_seed, HsR].
      * apply desc_is_seed in Hd; [|apply leaf_seed_is_seed, HsR].
        rewrite pk_tree_not_seed in Hd. discriminate.
      * apply desc_is_seed in Hd; [|apply leaf_seed_is_seed, HsR].
        rewrite pk_tree_not_seed in Hd. discriminate.
Qed.

(* ... and usable: every current or future signing key is still derivable *)
Lemma key_at_complete n : forall s t t',
  0 <= t < total n -> t <= t' < total n ->
  exists x, In x (key_at n s t) /\ desc x (leaf_seed n s t').
Proof.
  induction n as [|n IH]; intros s t t' Ht Ht'.
  - exists s. split; [left; reflexivity | apply desc_refl].
  - rewrite total_S in Ht, Ht'. cbn [key_at leaf_seed].
    destruct (t <? total n) eqn:E; destruct (t' <? total n) eqn:E'; try lia.
    + destruct (IH (L s) t t') as (x & Hin & Hd); try lia.
      exists x. split; [apply in_or_app; left; exact Hin | exact Hd].
    + exists (R s). split; [apply in_or_app; right; left; reflexivity | apply leaf_seed_desc].
    + destruct (IH (R s) (t - total n) (t' - total n)) as (x & Hin & Hd); try lia.
      exists x. split; [apply in_or_app; left; exact Hin | exact Hd].
Qed.

Lemma zrangeZ_In_inv lo n x : In x (zrangeZ lo n) -> lo <= x < lo + n.
Proof.
  unfold zrangeZ, zrange. intros H. apply in_map_iff in H as (i & <- & Hi). apply in_seq in Hi. lia.
Qed.

Lemma derivable_spec d s buf t' :
  In t' (derivable d s buf) <->
  0 <= t' < total d /\ exists x, In x buf /\ desc x (leaf_seed d s t').
Proof.
  unfold derivable. rewrite filter_In, existsb_exists. split.
  - intros [Hr (x & Hin & Hd)]. apply zrangeZ_In_inv in Hr. split; [lia|].
    exists x. split; [exact Hin | apply descb_spec, Hd].
  - intros [Hr (x & Hin & Hd)]. split; [apply zrangeZ_In; lia|].
    exists x. split; [exact Hin | apply descb_spec, Hd].
Qed.

(* what a Dolev-Yao attacker knows of genuine seeds is what the captured slots derive *)
Lemma know_seed B y : know B y -> is_seed y = true -> exists x, In x B /\ desc x y.
Proof.
  induction 1 as [x Hin| |x H IH|x H IH|x H IH|a b Ha IHa Hb IHb|sk m H IH|sk m H IH];
    intros Hy; cbn [is_seed] in Hy; try discriminate.
  - exists x. split; [exact Hin | apply desc_refl].
  - destruct (IH Hy) as (x0 & Hin & Hd). exists x0. split; [exact Hin | apply desc_L, Hd].
  - destruct (IH Hy) as (x0 & Hin & Hd). exists x0. split; [exact Hin | apply desc_R, Hd].
Qed.

Lemma desc_know B x y : know B x -> desc x y -> know B y.
Proof. intros Hx Hd. induction Hd; [exact Hx | apply know_L; assumption | apply know_R; assumption]. Qed.

(* ---- no signature material in the buffer ---- *)
(* what a key buffer contains: wiped slots, public keys, and descendants of the key's seed *)
Lemma key_at_slots n : forall s t x,
  In x (key_at n s t) -> x = Zero \/ (exists m a, x = pk_tree m a) \/ desc s x.
Proof.
  induction n as [|n IH]; intros s t x Hin; cbn [key_at] in Hin.
  - destruct Hin as [<-|[]]. right; right. apply desc_refl.
  - destruct (t <? total n); apply in_app_or in Hin as [Hin|Hin].
    + destruct (IH _ _ _ Hin) as [H|[H|H]]; [left; exact H | right; left; exact H |].
      right; right. apply desc_trans with (L s); [apply desc_L, desc_refl | exact H].
    + cbn [In] in Hin. destruct Hin as [<-|[<-|[<-|[]]]].
      * right; right. apply desc_R, desc_refl.
      * right; left. eexists; eexists; reflexivity.
      * right; left. eexists; eexists; reflexivity.
    + destruct (IH _ _ _ Hin) as [H|[H|H]]; [left; exact H | right; left; exact H |].
      right; right. apply desc_trans with (R s); [apply desc_R, desc_refl | exact H].
    + cbn [In] in Hin. destruct Hin as [<-|[<-|[<-|[]]]].
      * left; reflexivity.
      * right; left. eexists; eexists; reflexivity.
      * right; left. eexists; eexists; reflexivity.
Qed.

Lemma key_at_no_sig n s t sk m : is_seed s = true -> ~ In (SigR sk m) (key_at n s t).
Proof.
  intros Hs Hin. destruct (key_at_slots _ _ _ _ Hin) as [H|[(k & a & H)|H]].
  - discriminate.
  - destruct k; discriminate.
  - inversion H; subst. discriminate.
Qed.

Lemma know_sigR_inv B sk m : know B (SigR sk m) -> In (SigR sk m) B \/ know B sk.
Proof. intros H. inversion H; subst; [left; assumption | right; assumption]. Qed.
