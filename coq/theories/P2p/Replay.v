(* P2p/Replay.v — shared by C27/C28/C29: replaying a recorded history of the
   real InitiatorBehavior against the model, step by step. *)
From PV Require Export Lib.Base P2p.Proto P2p.Initiator.
Open Scope Z_scope.

Fixpoint zinsert (x : Z) (l : list Z) : list Z :=
  match l with [] => [x] | y :: r => if x <=? y then x :: l else y :: zinsert x r end.
Definition zsort (l : list Z) : list Z := fold_right zinsert [] l.

Fixpoint pinsert (x : Z * list Z) (l : list (Z * list Z)) : list (Z * list Z) :=
  match l with [] => [x] | y :: r => if fst x <=? fst y then x :: l else y :: pinsert x r end.
Definition psort (l : list (Z * list Z)) : list (Z * list Z) := fold_right pinsert [] l.

Definition b2z (b : bool) : Z := if b then 1 else 0.
Definition peer_snap (s : pstate) : list Z :=
  [conn_code (conn s); tag_code (tg s); hs_code (hs s); ka_code (ka s); ps_code (ps s); bf_code (bf s);
   cs_code (cs s); tx_code (tx s); ln_code (ln s); lf_code (lf s); b2z (viol s); errc s; b2z (csync s)].
Definition peers_snap (st : ist) : list (Z * list Z) :=
  psort (map (fun e => (fst e, peer_snap (snd e))) (peers st)).

Definition sets : Type := (list Z * list Z * list Z * list Z).
Definition sets_of (st : ist) : sets :=
  (zsort (cold (pr st)), zsort (warm (pr st)), zsort (hot (pr st)), zsort (banned (pr st))).
Definition zl_eqb := list_eqb Z.eqb.
Definition sets_eqb (a b : sets) : bool :=
  let '(a1, a2, a3, a4) := a in let '(b1, b2, b3, b4) := b in
  zl_eqb a1 b1 && zl_eqb a2 b2 && zl_eqb a3 b3 && zl_eqb a4 b4.
Definition outs_eqb (a b : list output) : bool :=
  list_eqb zl_eqb (map output_code a) (map output_code b).
Definition snap_eqb (a b : list (Z * list Z)) : bool :=
  list_eqb (fun x y => (fst x =? fst y) && zl_eqb (snd x) (snd y)) a b.

Definition step_rec : Type := (event * list output * sets * option (list (Z * list Z)) * bool).

Fixpoint replay (c : cfg) (st : ist) (l : list step_rec) : bool :=
  match l with
  | [] => true
  | (e, out, ss, snap, panicked) :: rest =>
      match step c st e with
      | Ok (st1, out1) =>
          negb panicked && outs_eqb out1 out && sets_eqb (sets_of st1) ss &&
          match snap with Some sn => snap_eqb (peers_snap st1) sn | None => true end &&
          replay c st1 rest
      | Panic _ => panicked
      | Err _ => false
      end
  end.

Definition mk_cfg (t : Z * Z * Z * Z) : cfg := let '(a, b, c, d) := t in mkCfg a b c d.

(* model output for the mismatch report: per step, (outputs as codes, sets, snapshot) until the first panic *)
Fixpoint trace (c : cfg) (st : ist) (l : list step_rec) : list (option (list (list Z) * sets * list (Z * list Z))) :=
  match l with
  | [] => []
  | (e, _, _, _, _) :: rest =>
      match step c st e with
      | Ok (st1, out1) => Some (map output_code out1, sets_of st1, peers_snap st1) :: trace c st1 rest
      | _ => [None]
      end
  end.
