//! Stack-independent message values (mirror of the Coq message types of C22/Model.v),
//! their generators and their Coq printers.
use super::scan;
use std::collections::BTreeMap;
use verif_harness::*;

#[derive(Clone, Debug, PartialEq)] pub enum Pt { Origin, Specific(u64, Vec<u8>) }
#[derive(Clone, Debug, PartialEq)] pub struct TipI(pub Pt, pub u64);
#[derive(Clone, Debug, PartialEq)] pub enum Ka { KeepAlive(u16), Response(u16), Done }
#[derive(Clone, Debug, PartialEq)] pub enum Bf { RequestRange(Pt, Pt), ClientDone, StartBatch, NoBlocks, Block(Vec<u8>), BatchDone }
#[derive(Clone, Debug, PartialEq)] pub enum Cs<C> {
    RequestNext, AwaitReply, RollForward(C, TipI), RollBackward(Pt, TipI), FindIntersect(Vec<Pt>),
    IntersectFound(Pt, TipI), IntersectNotFound(TipI), Done,
}
#[derive(Clone, Debug, PartialEq)] pub struct Hdr { pub variant: u8, pub prefix: Option<(u8, u64)>, pub cbor: Vec<u8> }
pub type TxId = (u16, Vec<u8>);
#[derive(Clone, Debug, PartialEq)] pub enum Ts {
    Init, RequestTxIds(bool, u16, u16), ReplyTxIds(Vec<(TxId, u32)>), RequestTxs(Vec<TxId>), ReplyTxs(Vec<TxId>), Done,
}
#[derive(Clone, Debug, PartialEq)] pub enum Pa { V4(u32, u32), V6(u128, u32) }
#[derive(Clone, Debug, PartialEq)] pub enum Ps { ShareRequest(u8), SharePeers(Vec<Pa>), Done }
#[derive(Clone, Debug, PartialEq)] pub enum Rf { VersionMismatch(Vec<u64>), DecodeError(u64, String), Refused(u64, String) }
#[derive(Clone, Debug, PartialEq)] pub enum Hs<D> { Propose(BTreeMap<u64, D>), Accept(u64, D), Refuse(Rf), QueryReply(BTreeMap<u64, D>) }
#[derive(Clone, Debug, PartialEq)] pub struct N2n { pub magic: u64, pub init_only: bool, pub peer_sharing: Option<u8>, pub query: Option<bool> }
pub type N2c = (u64, Option<bool>);
#[derive(Clone, Debug, PartialEq)] pub enum Ls {
    Acquire(Option<Pt>), Failure(u8), Acquired, Query(Vec<u8>), Result(Vec<u8>), ReAcquire(Option<Pt>), Release, Done,
}
#[derive(Clone, Debug, PartialEq)] pub enum Ltx { SubmitTx(u16, Vec<u8>), AcceptTx, RejectTx(Vec<u8>), Done }
#[derive(Clone, Debug, PartialEq)] pub enum Tm {
    Done, Acquire, Acquired(u64), Release, AwaitAcquire, RequestNextTx, ResponseNextTx(Option<(u8, Vec<u8>)>),
    RequestHasTx(String), ResponseHasTx(bool), RequestSizeAndCapacity, ResponseSizeAndCapacity(u32, u32, u32),
}
#[derive(Clone, Debug, PartialEq)] pub enum Ln { RequestNext, BlockAnnouncement(Vec<u8>), BlockOffer(Pt, u32), BlockTxsOffer(Pt), Votes(Vec<Vec<u8>>), Done }
#[derive(Clone, Debug, PartialEq)] pub enum Lf {
    BlockRequest(Pt), Block(Vec<u8>), BlockTxsRequest(Pt, BTreeMap<u16, u64>),
    BlockTxs(Pt, BTreeMap<u16, u64>, Vec<Vec<u8>>), Done,
}

// ------------------------------------------------------------------ scalar / payload generators
pub fn u8e(r: &mut Rng) -> u8 { match r.below(5) { 0 => 0, 1 => u8::MAX, 2 => *r.pick(&[23u8, 24, 1]), _ => r.next() as u8 } }
pub fn u16e(r: &mut Rng) -> u16 { match r.below(5) { 0 => 0, 1 => u16::MAX, 2 => *r.pick(&[23u16, 24, 255, 256]), _ => r.next() as u16 } }
pub fn u32e(r: &mut Rng) -> u32 { match r.below(5) { 0 => 0, 1 => u32::MAX, 2 => *r.pick(&[23u32, 24, 255, 256, 65535, 65536]), _ => r.next() as u32 } }
/// byte-string lengths around the CBOR head-width boundaries
pub fn blob(r: &mut Rng) -> Vec<u8> {
    let n = match r.below(12) { 0 => 0, 1 => 1, 2 => 23, 3 => 24, 4 => 28, 5 | 6 => 32, 7 => 255, 8 => 256, 9 => r.range(257, 400) as usize, _ => r.range(2, 40) as usize };
    r.bytes(n)
}
pub fn small_blob(r: &mut Rng) -> Vec<u8> { let n = *r.pick(&[0usize, 1, 4, 28, 32]); r.bytes(n) }
/// list lengths around the head-width boundaries (23/24, rarely 255/256)
pub fn count(r: &mut Rng, big: bool) -> usize {
    match r.below(12) { 0 => 0, 1 | 2 => 1, 3 => 23, 4 => 24, 5 => 25, 6 if big => 255, 7 if big => 256, _ => r.range(2, 6) as usize }
}
pub fn text(r: &mut Rng) -> String {
    const P: &[&str] = &["", "a", "refused", "version data mismatch", "\u{e9}\u{e8}", "\u{20ac}uro", "\u{1f600}", "\u{0}nul", "\u{7ff}\u{800}\u{ffff}\u{10000}\u{10ffff}"];
    let mut s = String::new();
    for _ in 0..r.below(4) { let w: &str = *r.pick(P); s.push_str(w); }
    if r.chance(1, 8) { while s.len() < 24 { s.push('x') } }
    s
}
pub fn gen_pt(r: &mut Rng) -> Pt { if r.chance(1, 4) { Pt::Origin } else { Pt::Specific(r.edge_u64(), small_blob(r)) } }
pub fn gen_tip(r: &mut Rng) -> TipI { TipI(gen_pt(r), r.edge_u64()) }
fn vec_of<T, F: FnMut(&mut Rng) -> T>(r: &mut Rng, big: bool, mut f: F) -> Vec<T> { let n = count(r, big); (0..n).map(|_| f(r)).collect() }

// ------------------------------------------------------------------ message generators (every variant, by index)
pub fn gen_ka(r: &mut Rng, v: u64) -> Ka { match v % 3 { 0 => Ka::KeepAlive(u16e(r)), 1 => Ka::Response(u16e(r)), _ => Ka::Done } }
pub fn gen_bf(r: &mut Rng, v: u64) -> Bf {
    match v % 6 { 0 => Bf::RequestRange(gen_pt(r), gen_pt(r)), 1 => Bf::ClientDone, 2 => Bf::StartBatch, 3 => Bf::NoBlocks, 4 => Bf::Block(blob(r)), _ => Bf::BatchDone }
}
pub fn gen_cs<C, F: FnMut(&mut Rng) -> C>(r: &mut Rng, v: u64, mut c: F) -> Cs<C> {
    match v % 8 {
        0 => Cs::RequestNext, 1 => Cs::AwaitReply, 2 => Cs::RollForward(c(r), gen_tip(r)), 3 => Cs::RollBackward(gen_pt(r), gen_tip(r)),
        4 => Cs::FindIntersect(vec_of(r, true, gen_pt)), 5 => Cs::IntersectFound(gen_pt(r), gen_tip(r)),
        6 => Cs::IntersectNotFound(gen_tip(r)), _ => Cs::Done,
    }
}
pub fn gen_hdr(r: &mut Rng) -> Hdr {
    match r.below(12) {
        0..=3 => Hdr { variant: 0, prefix: Some((u8e(r), r.edge_u64())), cbor: blob(r) },
        4 => Hdr { variant: 0, prefix: None, cbor: blob(r) },           // the encoder refuses this one
        _ => Hdr { variant: *r.pick(&[1u8, 2, 5, 6, 7, 23, 24, 255]), prefix: None, cbor: blob(r) },
    }
}
pub fn gen_txid(r: &mut Rng) -> TxId { (u16e(r), small_blob(r)) }
pub fn gen_ts(r: &mut Rng, v: u64) -> Ts {
    match v % 6 {
        0 => Ts::Init, 1 => Ts::RequestTxIds(r.bool(), u16e(r), u16e(r)),
        2 => Ts::ReplyTxIds(vec_of(r, false, |r| (gen_txid(r), u32e(r)))), 3 => Ts::RequestTxs(vec_of(r, false, gen_txid)),
        4 => Ts::ReplyTxs(vec_of(r, false, |r| (u16e(r), blob(r)))), _ => Ts::Done,
    }
}
pub fn gen_pa(r: &mut Rng, port_max: u32, v6: bool) -> Pa {
    let port = match r.below(4) { 0 => 0, 1 => port_max, 2 => 3001, _ => (r.next() % (port_max as u64 + 1)) as u32 };
    if v6 {
        let bits: u128 = match r.below(5) {
            0 => 0, 1 => u128::MAX, 2 => 1u128 << (32 * r.below(4)), 3 => 0xffff_c00a_02ffu128,
            _ => ((r.next() as u128) << 64) | r.next() as u128,
        };
        Pa::V6(bits, port)
    } else { Pa::V4(u32e(r), port) }
}
/// v: 0 ShareRequest, 1 SharePeers (V4 only), 2 SharePeers with at least one V6, 3 Done
pub fn gen_ps(r: &mut Rng, v: u64, port_max: u32) -> Ps {
    match v % 4 {
        0 => Ps::ShareRequest(u8e(r)),
        1 => Ps::SharePeers(vec_of(r, false, |r| gen_pa(r, port_max, false))),
        2 => { let mut l = vec_of(r, false, |r| { let v6 = r.bool(); gen_pa(r, port_max, v6) }); let at = r.below(l.len() as u64 + 1) as usize; l.insert(at, gen_pa(r, port_max, true)); Ps::SharePeers(l) }
        _ => Ps::Done,
    }
}
pub fn gen_rf(r: &mut Rng) -> Rf {
    match r.below(3) { 0 => Rf::VersionMismatch(vec_of(r, true, |r| r.edge_u64())), 1 => Rf::DecodeError(r.edge_u64(), text(r)), _ => Rf::Refused(r.edge_u64(), text(r)) }
}
fn gen_table<D, F: FnMut(&mut Rng) -> D>(r: &mut Rng, mut d: F) -> BTreeMap<u64, D> {
    let n = count(r, false);
    let base = *r.pick(&[0u64, 7, 32770, 4097, u64::MAX - 30]);
    let mut m = BTreeMap::new();
    for k in 0..n { let key = if r.chance(1, 6) { r.edge_u64() } else { base.wrapping_add(k as u64) }; m.insert(key, d(r)); }
    m
}
pub fn gen_hs<D, F: FnMut(&mut Rng) -> D>(r: &mut Rng, v: u64, mut d: F) -> Hs<D> {
    match v % 4 { 0 => Hs::Propose(gen_table(r, &mut d)), 1 => Hs::Accept(r.edge_u64(), d(r)), 2 => Hs::Refuse(gen_rf(r)), _ => Hs::QueryReply(gen_table(r, &mut d)) }
}
pub fn gen_n2n(r: &mut Rng) -> N2n {
    let magic = if r.bool() { *r.pick(&[764824073u64, 1, 2, 1097911063]) } else { r.edge_u64() };
    if r.bool() { N2n { magic, init_only: r.bool(), peer_sharing: None, query: None } }
    else { N2n { magic, init_only: r.bool(), peer_sharing: Some(u8e(r)), query: Some(r.bool()) } }
}
pub fn gen_n2c(r: &mut Rng) -> N2c {
    let magic = if r.bool() { *r.pick(&[764824073u64, 1, 2, 23, 24, 255, 256, 65535, 65536, u32::MAX as u64, 1 << 32]) } else { r.edge_u64() };
    (magic, match r.below(3) { 0 => None, 1 => Some(false), _ => Some(true) })
}
pub fn gen_ls(r: &mut Rng, v: u64) -> Ls {
    match v % 10 {
        0 => Ls::Acquire(Some(gen_pt(r))), 1 => Ls::Acquire(None), 2 => Ls::Failure(r.below(2) as u8), 3 => Ls::Acquired,
        4 => Ls::Query(scan::item(r)), 5 => Ls::Result(scan::item(r)), 6 => Ls::ReAcquire(Some(gen_pt(r))), 7 => Ls::ReAcquire(None),
        8 => Ls::Release, _ => Ls::Done,
    }
}
pub fn gen_ltx(r: &mut Rng, v: u64) -> Ltx {
    match v % 4 { 0 => Ltx::SubmitTx(u16e(r), blob(r)), 1 => Ltx::AcceptTx, 2 => Ltx::RejectTx(scan::item(r)), _ => Ltx::Done }
}
pub fn gen_tm(r: &mut Rng, v: u64) -> Tm {
    match v % 12 {
        0 => Tm::Done, 1 => Tm::Acquire, 2 => Tm::Acquired(r.edge_u64()), 3 => Tm::Release, 4 => Tm::AwaitAcquire, 5 => Tm::RequestNextTx,
        6 => Tm::ResponseNextTx(None), 7 => Tm::ResponseNextTx(Some((u8e(r), blob(r)))), 8 => Tm::RequestHasTx(text(r)),
        9 => Tm::ResponseHasTx(r.bool()), 10 => Tm::RequestSizeAndCapacity, _ => Tm::ResponseSizeAndCapacity(u32e(r), u32e(r), u32e(r)),
    }
}
fn gen_bitmaps(r: &mut Rng) -> BTreeMap<u16, u64> {
    let mut m = BTreeMap::new();
    for _ in 0..count(r, false) { m.insert(if r.bool() { r.below(8) as u16 } else { u16e(r) }, r.edge_u64()); }
    m
}
pub fn gen_ln(r: &mut Rng, v: u64) -> Ln {
    match v % 6 {
        0 => Ln::RequestNext, 1 => Ln::BlockAnnouncement(scan::item(r)), 2 => Ln::BlockOffer(gen_pt(r), u32e(r)), 3 => Ln::BlockTxsOffer(gen_pt(r)),
        4 => Ln::Votes(vec_of(r, false, scan::item)), _ => Ln::Done,
    }
}
pub fn gen_lf(r: &mut Rng, v: u64) -> Lf {
    match v % 5 {
        0 => Lf::BlockRequest(gen_pt(r)), 1 => Lf::Block(scan::item(r)), 2 => Lf::BlockTxsRequest(gen_pt(r), gen_bitmaps(r)),
        3 => Lf::BlockTxs(gen_pt(r), gen_bitmaps(r), vec_of(r, false, scan::item)), _ => Lf::Done,
    }
}

// ------------------------------------------------------------------ Coq printers
pub fn t_pt(p: &Pt) -> String { match p { Pt::Origin => "Origin".into(), Pt::Specific(s, h) => format!("(Specific {} {})", s, coq_bytes(h)) } }
pub fn t_tip(t: &TipI) -> String { format!("(Tip {} {})", t_pt(&t.0), t.1) }
pub fn t_str(s: &str) -> String { coq_bytes(s.as_bytes()) }
pub fn t_ka(m: &Ka) -> (String, &'static str) {
    match m { Ka::KeepAlive(c) => (format!("(KaKeepAlive {})", c), "KeepAlive"), Ka::Response(c) => (format!("(KaResponse {})", c), "ResponseKeepAlive"), Ka::Done => ("KaDone".into(), "Done") }
}
pub fn t_bf(m: &Bf) -> (String, &'static str) {
    match m {
        Bf::RequestRange(a, b) => (format!("(BfRequestRange {} {})", t_pt(a), t_pt(b)), "RequestRange"),
        Bf::ClientDone => ("BfClientDone".into(), "ClientDone"), Bf::StartBatch => ("BfStartBatch".into(), "StartBatch"),
        Bf::NoBlocks => ("BfNoBlocks".into(), "NoBlocks"), Bf::Block(b) => (format!("(BfBlock {})", coq_bytes(b)), "Block"),
        Bf::BatchDone => ("BfBatchDone".into(), "BatchDone"),
    }
}
pub fn t_cs<C, F: Fn(&C) -> String>(m: &Cs<C>, c: F) -> (String, &'static str) {
    match m {
        Cs::RequestNext => ("CsRequestNext".into(), "RequestNext"), Cs::AwaitReply => ("CsAwaitReply".into(), "AwaitReply"),
        Cs::RollForward(x, t) => (format!("(CsRollForward {} {})", c(x), t_tip(t)), "RollForward"),
        Cs::RollBackward(p, t) => (format!("(CsRollBackward {} {})", t_pt(p), t_tip(t)), "RollBackward"),
        Cs::FindIntersect(ps) => (format!("(CsFindIntersect {})", coq_list(ps, t_pt)), "FindIntersect"),
        Cs::IntersectFound(p, t) => (format!("(CsIntersectFound {} {})", t_pt(p), t_tip(t)), "IntersectFound"),
        Cs::IntersectNotFound(t) => (format!("(CsIntersectNotFound {})", t_tip(t)), "IntersectNotFound"),
        Cs::Done => ("CsDone".into(), "Done"),
    }
}
pub fn t_hdr(h: &Hdr) -> String {
    format!("(Header {} {} {})", h.variant, coq_opt(&h.prefix, |(a, b)| format!("({},{})", a, b)), coq_bytes(&h.cbor))
}
pub fn t_txid(x: &TxId) -> String { format!("({},{})", x.0, coq_bytes(&x.1)) }
pub fn t_ts(m: &Ts) -> (String, &'static str) {
    match m {
        Ts::Init => ("TsInit".into(), "Init"),
        Ts::RequestTxIds(b, a, q) => (format!("(TsRequestTxIds {} {} {})", coq_bool(*b), a, q), "RequestTxIds"),
        Ts::ReplyTxIds(l) => (format!("(TsReplyTxIds {})", coq_list(l, |(i, s)| format!("({},{})", t_txid(i), s))), "ReplyTxIds"),
        Ts::RequestTxs(l) => (format!("(TsRequestTxs {})", coq_list(l, t_txid)), "RequestTxs"),
        Ts::ReplyTxs(l) => (format!("(TsReplyTxs {})", coq_list(l, t_txid)), "ReplyTxs"),
        Ts::Done => ("TsDone".into(), "Done"),
    }
}
pub fn t_pa(a: &Pa) -> String { match a { Pa::V4(i, p) => format!("(PaV4 {} {})", i, p), Pa::V6(b, p) => format!("(PaV6 {} {})", b, p) } }
pub fn t_ps(m: &Ps) -> (String, &'static str) {
    match m {
        Ps::ShareRequest(n) => (format!("(PsShareRequest {})", n), "ShareRequest"),
        Ps::SharePeers(l) => (format!("(PsSharePeers {})", coq_list(l, t_pa)),
                              if l.iter().any(|a| matches!(a, Pa::V6(..))) { "SharePeers-V6" } else { "SharePeers-V4" }),
        Ps::Done => ("PsDone".into(), "Done"),
    }
}
pub fn t_rf(x: &Rf) -> String {
    match x {
        Rf::VersionMismatch(v) => format!("(RVersionMismatch {})", coq_list(v, |x| x.to_string())),
        Rf::DecodeError(v, s) => format!("(RDecodeError {} {})", v, t_str(s)),
        Rf::Refused(v, s) => format!("(RRefused {} {})", v, t_str(s)),
    }
}
pub fn t_hs<D, F: Fn(&D) -> String>(m: &Hs<D>, d: F) -> (String, &'static str) {
    let tbl = |t: &BTreeMap<u64, D>| { let v: Vec<(&u64, &D)> = t.iter().collect(); coq_list(&v, |(k, x)| format!("({},{})", k, d(x))) };
    match m {
        Hs::Propose(t) => (format!("(HsPropose {})", tbl(t)), "Propose"),
        Hs::Accept(v, x) => (format!("(HsAccept {} {})", v, d(x)), "Accept"),
        Hs::Refuse(x) => (format!("(HsRefuse {})", t_rf(x)),
                          match x { Rf::VersionMismatch(_) => "Refuse-VersionMismatch", Rf::DecodeError(..) => "Refuse-HandshakeDecodeError", Rf::Refused(..) => "Refuse-Refused" }),
        Hs::QueryReply(t) => (format!("(HsQueryReply {})", tbl(t)), "QueryReply"),
    }
}
pub fn t_n2n(d: &N2n) -> String {
    format!("(N2nData {} {} {} {})", d.magic, coq_bool(d.init_only), coq_opt(&d.peer_sharing, |x| x.to_string()), coq_opt(&d.query, |b| coq_bool(*b).to_string()))
}
pub fn t_n2c(d: &N2c) -> String { format!("({},{})", d.0, coq_opt(&d.1, |b| coq_bool(*b).to_string())) }
pub fn t_opt_pt(p: &Option<Pt>) -> String { coq_opt(p, t_pt) }
pub fn t_ls(m: &Ls) -> (String, &'static str) {
    match m {
        Ls::Acquire(p) => (format!("(LsAcquire {})", t_opt_pt(p)), if p.is_some() { "Acquire-point" } else { "Acquire-tip" }),
        Ls::Failure(c) => (format!("(LsFailure {})", c), "Failure"), Ls::Acquired => ("LsAcquired".into(), "Acquired"),
        Ls::Query(q) => (format!("(LsQuery {})", coq_bytes(q)), "Query"), Ls::Result(q) => (format!("(LsResult {})", coq_bytes(q)), "Result"),
        Ls::ReAcquire(p) => (format!("(LsReAcquire {})", t_opt_pt(p)), if p.is_some() { "ReAcquire-point" } else { "ReAcquire-tip" }),
        Ls::Release => ("LsRelease".into(), "Release"), Ls::Done => ("LsDone".into(), "Done"),
    }
}
pub fn t_ltx(m: &Ltx) -> (String, &'static str) {
    match m {
        Ltx::SubmitTx(e, t) => (format!("(LtxSubmitTx {} {})", e, coq_bytes(t)), "SubmitTx"), Ltx::AcceptTx => ("LtxAcceptTx".into(), "AcceptTx"),
        Ltx::RejectTx(x) => (format!("(LtxRejectTx {})", coq_bytes(x)), "RejectTx"), Ltx::Done => ("LtxDone".into(), "Done"),
    }
}
pub fn t_tm(m: &Tm) -> (String, &'static str) {
    match m {
        Tm::Done => ("TmDone".into(), "Done"), Tm::Acquire => ("TmAcquire".into(), "Acquire"), Tm::Acquired(s) => (format!("(TmAcquired {})", s), "Acquired"),
        Tm::Release => ("TmRelease".into(), "Release"), Tm::AwaitAcquire => ("TmAwaitAcquire".into(), "AwaitAcquire"),
        Tm::RequestNextTx => ("TmRequestNextTx".into(), "RequestNextTx"),
        Tm::ResponseNextTx(t) => (format!("(TmResponseNextTx {})", coq_opt(t, |(e, b)| format!("({},{})", e, coq_bytes(b)))), if t.is_some() { "ResponseNextTx-some" } else { "ResponseNextTx-none" }),
        Tm::RequestHasTx(s) => (format!("(TmRequestHasTx {})", t_str(s)), "RequestHasTx"),
        Tm::ResponseHasTx(b) => (format!("(TmResponseHasTx {})", coq_bool(*b)), "ResponseHasTx"),
        Tm::RequestSizeAndCapacity => ("TmRequestSizeAndCapacity".into(), "RequestSizeAndCapacity"),
        Tm::ResponseSizeAndCapacity(a, b, c) => (format!("(TmResponseSizeAndCapacity {} {} {})", a, b, c), "ResponseSizeAndCapacity"),
    }
}
fn t_bm(b: &BTreeMap<u16, u64>) -> String { let v: Vec<(&u16, &u64)> = b.iter().collect(); coq_list(&v, |(k, x)| format!("({},{})", k, x)) }
fn t_raws(l: &[Vec<u8>]) -> String { coq_list(l, |x| coq_bytes(x)) }
pub fn t_ln(m: &Ln) -> (String, &'static str) {
    match m {
        Ln::RequestNext => ("LnRequestNext".into(), "RequestNext"), Ln::BlockAnnouncement(h) => (format!("(LnBlockAnnouncement {})", coq_bytes(h)), "BlockAnnouncement"),
        Ln::BlockOffer(p, s) => (format!("(LnBlockOffer {} {})", t_pt(p), s), "BlockOffer"), Ln::BlockTxsOffer(p) => (format!("(LnBlockTxsOffer {})", t_pt(p)), "BlockTxsOffer"),
        Ln::Votes(v) => (format!("(LnVotes {})", t_raws(v)), "Votes"), Ln::Done => ("LnDone".into(), "Done"),
    }
}
pub fn t_lf(m: &Lf) -> (String, &'static str) {
    match m {
        Lf::BlockRequest(p) => (format!("(LfBlockRequest {})", t_pt(p)), "BlockRequest"), Lf::Block(b) => (format!("(LfBlock {})", coq_bytes(b)), "Block"),
        Lf::BlockTxsRequest(p, b) => (format!("(LfBlockTxsRequest {} {})", t_pt(p), t_bm(b)), "BlockTxsRequest"),
        Lf::BlockTxs(p, b, t) => (format!("(LfBlockTxs {} {} {})", t_pt(p), t_bm(b), t_raws(t)), "BlockTxs"), Lf::Done => ("LfDone".into(), "Done"),
    }
}

// ------------------------------------------------------------------ DMQ protocols and localstate query requests
#[derive(Clone, Debug, PartialEq)] pub struct Dmq {
    pub id: Vec<u8>, pub body: Vec<u8>, pub kes_period: u64, pub expires_at: u32, pub kes_sig: Vec<u8>,
    pub kes_vk: Vec<u8>, pub issue: u64, pub start: u64, pub cert_sig: Vec<u8>, pub cold_vk: Vec<u8>,
}
#[derive(Clone, Debug, PartialEq)] pub enum DmqReason { Invalid(String), AlreadyReceived, Expired, Other(String) }
#[derive(Clone, Debug, PartialEq)] pub enum Lms { Submit(Dmq), Accept, Reject(DmqReason), Done }
#[derive(Clone, Debug, PartialEq)] pub enum Lmn { RequestNonBlocking, ReplyNonBlocking(Vec<Dmq>, bool), RequestBlocking, ReplyBlocking(Vec<Dmq>), ClientDone }
#[derive(Clone, Debug, PartialEq)] pub enum Lq { Block(u16, u16), HardFork(u8), SystemStart, ChainBlockNo, ChainPoint }
pub const LQ_NULLARY: &[u16] = &[0, 1, 3, 4, 5, 7, 8, 11, 12, 13, 14, 16, 18, 23, 24, 29, 32, 33, 34, 37];

pub fn gen_dmq(r: &mut Rng) -> Dmq {
    Dmq { id: small_blob(r), body: blob(r), kes_period: r.edge_u64(), expires_at: u32e(r), kes_sig: small_blob(r),
          kes_vk: small_blob(r), issue: r.edge_u64(), start: r.edge_u64(), cert_sig: small_blob(r), cold_vk: small_blob(r) }
}
pub fn dmq_default() -> Dmq {
    Dmq { id: vec![1, 2, 3], body: vec![4, 5, 6], kes_period: 7, expires_at: 8, kes_sig: vec![9], kes_vk: vec![12], issue: 15, start: 16, cert_sig: vec![17], cold_vk: vec![18] }
}
pub fn gen_lms(r: &mut Rng, v: u64) -> Lms {
    match v % 7 {
        0 => Lms::Submit(gen_dmq(r)), 1 => Lms::Accept, 2 => Lms::Reject(DmqReason::Invalid(text(r))), 3 => Lms::Reject(DmqReason::AlreadyReceived),
        4 => Lms::Reject(DmqReason::Expired), 5 => Lms::Reject(DmqReason::Other(text(r))), _ => Lms::Done,
    }
}
pub fn gen_lmn(r: &mut Rng, v: u64) -> Lmn {
    match v % 5 {
        0 => Lmn::RequestNonBlocking, 1 => Lmn::ReplyNonBlocking((0..r.below(4)).map(|_| gen_dmq(r)).collect(), r.bool()), 2 => Lmn::RequestBlocking,
        3 => Lmn::ReplyBlocking((0..r.below(4)).map(|_| gen_dmq(r)).collect()), _ => Lmn::ClientDone,
    }
}
pub fn t_dmq(m: &Dmq) -> String {
    format!("(DmqMsg {} {} {} {} {} {} {} {} {} {})", coq_bytes(&m.id), coq_bytes(&m.body), m.kes_period, m.expires_at, coq_bytes(&m.kes_sig),
            coq_bytes(&m.kes_vk), m.issue, m.start, coq_bytes(&m.cert_sig), coq_bytes(&m.cold_vk))
}
pub fn t_lms(m: &Lms) -> (String, &'static str) {
    match m {
        Lms::Submit(x) => (format!("(LmsSubmit {})", t_dmq(x)), "SubmitTx"), Lms::Accept => ("LmsAccept".into(), "AcceptTx"), Lms::Done => ("LmsDone".into(), "Done"),
        Lms::Reject(DmqReason::Invalid(s)) => (format!("(LmsReject (DrInvalid {}))", t_str(s)), "RejectTx-Invalid"),
        Lms::Reject(DmqReason::AlreadyReceived) => ("(LmsReject DrAlreadyReceived)".into(), "RejectTx-AlreadyReceived"),
        Lms::Reject(DmqReason::Expired) => ("(LmsReject DrExpired)".into(), "RejectTx-Expired"),
        Lms::Reject(DmqReason::Other(s)) => (format!("(LmsReject (DrOther {}))", t_str(s)), "RejectTx-Other"),
    }
}
pub fn t_lmn(m: &Lmn) -> (String, &'static str) {
    match m {
        Lmn::RequestNonBlocking => ("LmnRequestNonBlocking".into(), "RequestMessagesNonBlocking"), Lmn::RequestBlocking => ("LmnRequestBlocking".into(), "RequestMessagesBlocking"),
        Lmn::ReplyNonBlocking(l, h) => (format!("(LmnReplyNonBlocking {} {})", coq_list(l, t_dmq), coq_bool(*h)), "ReplyMessagesNonBlocking"),
        Lmn::ReplyBlocking(l) => (format!("(LmnReplyBlocking {})", coq_list(l, t_dmq)), "ReplyMessagesBlocking"), Lmn::ClientDone => ("LmnClientDone".into(), "ClientDone"),
    }
}
pub fn t_lq(m: &Lq) -> (String, String) {
    match m {
        Lq::Block(e, t) => (format!("(LqBlock {} {})", e, t), format!("BlockQuery-{}", t)), Lq::HardFork(t) => (format!("(LqHardFork {})", t), format!("HardForkQuery-{}", t)),
        Lq::SystemStart => ("LqSystemStart".into(), "GetSystemStart".into()), Lq::ChainBlockNo => ("LqChainBlockNo".into(), "GetChainBlockNo".into()),
        Lq::ChainPoint => ("LqChainPoint".into(), "GetChainPoint".into()),
    }
}
/// the CBOR head-width boundaries inside 0..=max, plus max itself
pub fn bounds(max: u64) -> Vec<u64> {
    let mut v: Vec<u64> = [0u64, 1, 23, 24, 255, 256, 65535, 65536, u32::MAX as u64, 1 << 32, 1 << 63, u64::MAX].into_iter().filter(|x| *x <= max).collect();
    if !v.contains(&max) { v.push(max) }
    v
}
