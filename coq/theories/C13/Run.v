(* C13 correspondence. One case = one (construction, depth, master seed, period) state of
   a real key:  Case13 variant d k t refused seed_after buf derivable
     seed_after = the caller's seed bytes after keygen, buf = the key buffer slots after
     t updates and `refused` further update() calls that returned an error (both classified against the independently recomputed key tree),
     derivable = the periods whose leaf secret the harness could compute by brute force
     from the real buffer (every slot expanded through the seed-splitting hashes).
   The model must predict the same slots and the same derivable set. *)
From PV Require Export Lib.Base Kes.Model Kes.Interp C13.Model.
Open Scope Z_scope.

Inductive case : Type :=
  Case13 (variant d k t refused : Z) (seed_after : cls) (buf : list cls) (derivable_periods : list Z).

Fixpoint refused_calls (d : nat) (j : nat) (k : key) : option key :=
  match j with
  | O => Some k
  | S j' => match refused_calls d j' k with
            | None => None
            | Some k' => let '(k'', ok) := update d k' in if ok then None else Some k''
            end
  end.

Definition model_state (d : nat) (k : Z) (t refused : nat) : option (term * list term * list Z) :=
  let '(k0, _, sa) := keygen d (repeat junk (ksize d)) (Master k) in
  match updates d t k0 with
  | None => None
  | Some ky0 =>
      match refused_calls d refused ky0 with
      | None => None
      | Some ky => Some (sa, key_buf ky, derivable d (Master k) (key_buf ky))
      end
  end.

Definition case_ok (c : case) : bool :=
  let '(Case13 variant d k t refused seed_after buf der) := c in
  let dn := Z.to_nat d in
  match model_state dn k (Z.to_nat t) (Z.to_nat refused) with
  | None => false
  | Some (sa', buf', der') =>
      term_eqb sa' (interp dn seed_after) && list_eqb term_eqb buf' (map (interp dn) buf)
      && list_eqb Z.eqb der' der
      (* and the symbolic derivation applied to the REAL buffer's classification agrees too *)
      && list_eqb Z.eqb (derivable dn (Master k) (map (interp dn) buf)) der
  end.

Definition case_out (c : case) :=
  let '(Case13 variant d k t refused seed_after buf der) := c in
  match model_state (Z.to_nat d) k (Z.to_nat t) (Z.to_nat refused) with
  | None => None
  | Some (sa', buf', der') => Some (abstr sa', map abstr buf', der')
  end.
