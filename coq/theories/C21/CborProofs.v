(* C21: the generic CBOR-item codec of the shared CBOR core meets the
   reassembly obligations P0..P3 (for every well-formed item). *)
From PV Require Import Lib.Base Cbor.Item Cbor.Enc Cbor.Dec Cbor.HeadLaws Cbor.Laws Cbor.Prefix.
From PV Require Import C21.Model C21.CborCodec C21.Proofs.
Open Scope Z_scope.

Lemma item_codec_ok : codec_ok item_valid encode_item item_dec.
Proof.
  constructor.
  - intros i Hv. now apply encode_item_nonempty.
  - intros i r Hv. unfold item_dec. rewrite (decode_complete i r Hv).
    f_equal. rewrite app_length. lia.
  - intros i p s Hv Heq Hs. unfold item_dec. now rewrite (prefix_eoi i p s Hv Heq Hs).
  - reflexivity.
Qed.

Lemma any_chan_dec_ok : forall c d, any_chan_dec c = Some d -> codec_ok item_valid encode_item d.
Proof.
  intros c d H. unfold any_chan_dec in H. destruct (supported_channel c); [|discriminate].
  inversion H; subst. exact item_codec_ok.
Qed.

Lemma read_all_cbor_ok raw items segs :
  supported_channel (strip_mode raw) = true ->
  Forall item_valid items -> concat segs = stream encode_item items ->
  read_all any_chan_dec (map (fun s => (raw, s)) segs) = Ok (map (fun i => (strip_mode raw, i)) items, []).
Proof.
  intros Hs. apply (read_all_one_ok item_valid encode_item any_chan_dec any_chan_dec_ok).
  unfold any_chan_dec. rewrite Hs. discriminate.
Qed.
