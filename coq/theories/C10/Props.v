(* C10 — property theorems only. Statements are pinned by vp/check.py. *)
Require Import Coq.Strings.String.   (* first: List's names must shadow String's *)
From PV Require Import Lib.Base Crypto.Hex Crypto.Blake2b Crypto.Blake2bProofs C10.Model C10.Proofs.
Open Scope Z_scope.

(* incremental hashing = RFC 7693 digest of the concatenation, for every chunking *)
Theorem blake2b_stream_split : forall n chunks,
  blake2b_fin (fold_left absorb chunks (blake2b_init n)) = blake2b n (concat chunks).
Proof. exact blake2b_stream_split_proof. Qed.

(* the one-shot function is RFC 7693 section 3.3 read literally (blocks d[0..dd-1],
   counter (i+1)*128, last block with the message length and the final flag) *)
Theorem blake2b_rfc_eq : forall n msg, blake2b_rfc n msg = blake2b n msg.
Proof. exact blake2b_rfc_eq_proof. Qed.

Theorem blake2b_stream_split_rfc : forall n chunks,
  blake2b_fin (fold_left absorb chunks (blake2b_init n)) = blake2b_rfc n (concat chunks).
Proof. intros n chunks. rewrite blake2b_rfc_eq_proof. apply blake2b_stream_split_proof. Qed.

Theorem hash_spec : forall n bs, hash n bs = blake2b n bs.
Proof. exact hash_spec_proof. Qed.

Theorem hash_tagged_spec : forall n bs t, hash_tagged n bs t = blake2b n (t :: bs).
Proof. exact hash_tagged_spec_proof. Qed.

Theorem hash_cbor_spec : forall n writes, hash_cbor n writes = blake2b n (concat writes).
Proof. exact hash_cbor_spec_proof. Qed.

Theorem hash_tagged_cbor_spec : forall n writes t,
  hash_tagged_cbor n writes t = blake2b n (t :: concat writes).
Proof. exact hash_tagged_cbor_spec_proof. Qed.

Theorem hash_length : forall n bs, 0 <= n <= 64 -> zlen (hash n bs) = n.
Proof. exact hash_length_proof. Qed.

Theorem hash_from_slice_strict : forall n bs,
  (zlen bs = n -> hash_from_slice n bs = Ok bs) /\ (zlen bs <> n -> hash_from_slice n bs = Panic 1).
Proof. exact hash_from_slice_strict_proof. Qed.

Theorem Hash_hex_roundtrip : forall n bs,
  bytes_wf bs -> zlen bs = n -> hash_from_hex n (hash_to_hex bs) = Ok bs.
Proof. exact hash_hex_roundtrip_proof. Qed.

Theorem hash_from_hex_strict : forall n s bs,
  hash_from_hex n s = Ok bs -> zlen s = 2 * n /\ zlen bs = n.
Proof. exact hash_from_hex_strict_proof. Qed.

Theorem Hash_dec_enc : forall n bs rest,
  zlen bs = n -> n < 2 ^ 64 -> dec_Hash n (enc_Hash bs ++ rest) = Ok (bs, zlen (enc_Hash bs)).
Proof. exact Hash_dec_enc_proof. Qed.

Theorem Hash_dec_wrong_len : forall n bs rest,
  zlen bs < 2 ^ 64 -> zlen bs <> n -> dec_Hash n (enc_Hash bs ++ rest) = Err 3.
Proof. exact Hash_dec_wrong_len_proof. Qed.

Theorem hash_cbor_len_strict : forall n buf bs pos, dec_Hash n buf = Ok (bs, pos) -> zlen bs = n.
Proof. exact hash_cbor_len_strict_proof. Qed.

Theorem epoch_nonce_spec : forall nc nh extra,
  generate_epoch_nonce nc nh extra =
  match extra with
  | None => blake2b 32 (nc ++ nh)
  | Some ee => blake2b 32 (blake2b 32 (nc ++ nh) ++ ee)
  end.
Proof. exact epoch_nonce_spec_proof. Qed.

Theorem rolling_nonce_spec : forall prev vrf,
  generate_rolling_nonce prev vrf =
  if (zlen vrf =? 32) || (zlen vrf =? 64)
  then Ok (blake2b 32 (prev ++ blake2b 32 vrf)) else Panic 1.
Proof. exact rolling_nonce_spec_proof. Qed.

(* ---- RFC 7693 appendix A and well-known vectors ---- *)
Example rfc7693_abc :
  blake2b 64 (str_bytes "abc") =
  unhex "ba80a53f981c4d0d6a2797b69f12f6e94c212f14685ac4b74b12bb6fdbffa2d17d87c5392aab792dc252d5de4533cc9518d38aa8dbf1925ab92386edd4009923".
Proof. vm_compute. reflexivity. Qed.

Example blake2b512_empty :
  blake2b 64 [] =
  unhex "786a02f742015903c6c6fd852552d272912f4740e15847618a86e217f71f5419d25e1031afee585313896444934eb04b903a685b1448b755d56f701afe9be2ce".
Proof. vm_compute. reflexivity. Qed.

Example rfc_indexed_agrees_257 :
  blake2b_rfc 32 (repeat 9 257) = blake2b 32 (repeat 9 257) /\ blake2b_rfc 64 [] = blake2b 64 [].
Proof. vm_compute. split; reflexivity. Qed.

(* the digests quoted in hasher.rs *)
Example hasher_doc_256 :
  hash 32 (str_bytes "My transaction") = unhex "0d8d00cdd4657ac84d82f0a56067634a7adfdf43da41cb534bcaa45060973d21".
Proof. vm_compute. reflexivity. Qed.
Example hasher_doc_224 :
  hash 28 (str_bytes "My Public Key") = unhex "c123c9bc0e9e31a20a4aa23518836ec5fb54bdc85735c56b38eb79a5".
Proof. vm_compute. reflexivity. Qed.

(* a chunking that ends exactly on the block boundary, then continues *)
Example stream_boundary :
  blake2b_fin (fold_left absorb [repeat 1 127; [2]; []; repeat 3 128; [4]] (blake2b_init 32)) =
  blake2b 32 (repeat 1 127 ++ [2] ++ repeat 3 128 ++ [4]).
Proof. vm_compute. reflexivity. Qed.

(* ---- nonce vectors of nonce/mod.rs ---- *)
Example epoch_nonce_vec1 :
  generate_epoch_nonce
    (unhex "e86e133bd48ff5e79bec43af1ac3e348b539172f33e502d2c96735e8c51bd04d")
    (unhex "d7a1ff2a365abed59c9ae346cba842b6d3df06d055dba79a113e0704b44cc3e9") None =
  unhex "e536a0081ddd6d19786e9d708a85819a5c3492c0da7349f59c8ad3e17e4acd98".
Proof. vm_compute. reflexivity. Qed.

Example epoch_nonce_vec2 :
  generate_epoch_nonce
    (unhex "d1340a9c1491f0face38d41fd5c82953d0eb48320d65e952414a0c5ebaf87587")
    (unhex "ee91d679b0a6ce3015b894c575c799e971efac35c7a8cbdc2b3f579005e69abd")
    (Some (unhex "d982e06fd33e7440b43cefad529b7ecafbaa255e38178ad4189a37e4ce9bf1fa")) =
  unhex "0022cfa563a5328c4fb5c8017121329e964c26ade5d167b1bd9b2ec967772b60".
Proof. vm_compute. reflexivity. Qed.

Example rolling_nonce_vec1 :
  generate_rolling_nonce
    (unhex "1a3be38bcbb7911969283716ad7aa550250226b76a61fc51cc9a9a35d9276d81")
    (unhex "36ec5378d1f5041a59eb8d96e61de96f0950fb41b49ff511f7bc7fd109d4383e1d24be7034e6749c6612700dd5ceb0c66577b88a19ae286b1321d15bce1ab736") =
  Ok (unhex "2af15f57076a8ff225746624882a77c8d2736fe41d3db70154a22b50af851246").
Proof. vm_compute. reflexivity. Qed.

Example rolling_nonce_vec2 :
  generate_rolling_nonce
    (unhex "2af15f57076a8ff225746624882a77c8d2736fe41d3db70154a22b50af851246")
    (unhex "e0bf34a6b73481302f22987cde4c12807cbc2c3fea3f7fcb77261385a50e8ccdda3226db3efff73e9fb15eecf841bbc85ce37550de0435ebcdcb205e0ed08467") =
  Ok (unhex "a815ff978369b57df09b0072485c26920dc0ec8e924a852a42f0715981cf0042").
Proof. vm_compute. reflexivity. Qed.

(* codecs: non-vacuity *)
Example hash_codecs_example :
  let h := unhex "276fd18711931e2c0e21430192dbeac0e458093cd9d1fcd7210f64b3" in
  bytes_wf h /\ zlen h = 28 /\
  hash_from_hex 28 (str_bytes "276fd18711931e2c0e21430192dbeac0e458093cd9d1fcd7210f64b3") = Ok h /\
  hash_from_hex 28 (str_bytes "27") = Err 2 /\ hash_from_hex 32 (str_bytes "0d8") = Err 1 /\
  dec_Hash 28 (enc_Hash h ++ [255]) = Ok (h, 30) /\ dec_Hash 32 (enc_Hash h) = Err 3 /\
  dec_Hash 28 (firstn 29 (enc_Hash h)) = Err 1 /\ dec_Hash 28 [95; 255] = Err 2 /\
  dec_Hash 24 [57; 63] = Err 1 /\ dec_Hash 24 [57; 63; 0] = Err 2.
Proof. cbv zeta. repeat split; try (apply bytes_wfb_spec); vm_compute; reflexivity. Qed.
