(* C31 — property theorems only. Statements are pinned by vp/check.py. *)
From PV Require Import Lib.Base C31.Model C31.Proofs.
From Coq Require Import Sorted.
Open Scope Z_scope.

(* a valid transaction consumes its inputs, each once, in order of first occurrence *)
Theorem consumes_valid : forall A (t : tx A),
  is_valid t = true -> consumes t = first_occurrences (inputs t).
Proof. intros A t V. rewrite consumes_spec, V. reflexivity. Qed.

(* a transaction whose scripts failed consumes only its collateral inputs *)
Theorem consumes_invalid : forall A (t : tx A),
  is_valid t = false -> consumes t = first_occurrences (collateral t).
Proof. intros A t V. rewrite consumes_spec, V. reflexivity. Qed.

Theorem consumes_nodup : forall A (t : tx A),
  NoDup (consumes t) /\
  forall x, In x (consumes t) <-> In x (if is_valid t then inputs t else collateral t).
Proof. intros A t. apply consumes_nodup_proof. Qed.

Theorem first_occurrences_of_nodup : forall l, NoDup l -> first_occurrences l = l.
Proof. exact first_occurrences_NoDup_id. Qed.

(* a valid transaction produces its outputs at indices 0..n-1 *)
Theorem produces_valid : forall A (t : tx A), is_valid t = true ->
  produces t = enumerate_from 0 (outputs t) /\
  map snd (produces t) = outputs t /\
  map fst (produces t) = map Z.of_nat (seq 0 (length (outputs t))).
Proof. intros A t. apply produces_valid_proof. Qed.

(* an invalid one produces only its collateral return, at index n *)
Theorem produces_invalid : forall A (t : tx A), is_valid t = false ->
  produces t = match collateral_return t with Some o => [(zlength (outputs t), o)] | None => [] end.
Proof. intros A t. apply produces_invalid_proof. Qed.

Theorem produces_at_agrees : forall A (t : tx A) i, produces_at t i = assoc i (produces t).
Proof. intros A t i. apply produces_at_agrees_proof. Qed.

(* the indexed lookup of the model is the ordinary list lookup *)
Theorem get_is_nth_error : forall A (l : list A) i,
  get l i = if i <? 0 then None else nth_error l (Z.to_nat i).
Proof.
  intros A l i. unfold get. destruct (i <? 0) eqn:E; [reflexivity|]. apply zget_nth_error. lia.
Qed.

Theorem sorted_set_sorted_nodup_same_set : forall A (t : tx A),
  StronglySorted key_lt (inputs_sorted_set t) /\ NoDup (inputs_sorted_set t) /\
  (forall x, In x (inputs_sorted_set t) <-> In x (inputs t)).
Proof. intros A t. apply sorted_set_proof. Qed.

(* Byron transactions are always valid and have neither collateral nor collateral return *)
Theorem byron_is_valid : forall A (t : tx A),
  byron t = true -> is_valid t = true /\ collateral t = [] /\ collateral_return t = None.
Proof. intros A t B. unfold is_valid, collateral, collateral_return. rewrite B. auto. Qed.

(* non-vacuity: duplicated input, invalid transaction with collateral return *)
Example c31_example :
  let t := mk_tx false false [(7, 1); (3, 0); (7, 1)] [10; 11] [(9, 9); (9, 9); (2, 5)] (Some 12) in
  consumes t = [(9, 9); (2, 5)] /\ produces t = [(2, 12)] /\ produces_at t 2 = Some 12 /\
  produces_at t 0 = None /\ inputs_sorted_set t = [(3, 0); (7, 1)] /\
  consumes (mk_tx false true (inputs t) (outputs t) (collateral_field t) (collateral_return_field t))
    = [(7, 1); (3, 0)].
Proof. repeat split. Qed.
