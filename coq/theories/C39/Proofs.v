From PV Require Import Lib.Base C39.Model.
Open Scope Z_scope.

Section Proofs.
  Context {St Tx : Type}.
  Variable step : St -> Z -> Tx -> St * option Z.

  (* the loop never writes the caller's cell *)
  Lemma loop_caller txs : forall i m, caller (fst (loop step i m txs)) = caller m.
  Proof.
    induction txs as [|tx r IH]; intros i m; cbn [loop]; [reflexivity|].
    destruct (u32_max <? i); [reflexivity|].
    destruct (step (delta m) i tx) as [d' [e|]]; [reflexivity|].
    rewrite IH. reflexivity.
  Qed.

  Lemma loop_ok txs : forall i m m' u,
    loop step i m txs = (m', Ok u) -> apply_all step i (delta m) txs = Some (delta m').
  Proof.
    induction txs as [|tx r IH]; intros i m m' u H; cbn [loop apply_all] in *.
    - inversion H; subst. reflexivity.
    - destruct (u32_max <? i); [discriminate|].
      destruct (step (delta m) i tx) as [d' [e|]]; [discriminate|].
      apply IH in H. exact H.
  Qed.

  Lemma loop_err txs : forall i m m' e,
    loop step i m txs = (m', Err e) ->
    apply_all step i (delta m) txs = None /\
    exists pre tx post d, txs = pre ++ tx :: post /\
      apply_all step i (delta m) pre = Some d /\
      snd (step d (i + Z.of_nat (length pre)) tx) = Some e.
  Proof.
    induction txs as [|tx r IH]; intros i m m' e H; cbn [loop apply_all] in *; [discriminate|].
    destruct (u32_max <? i); [discriminate|].
    destruct (step (delta m) i tx) as [d' [e'|]] eqn:E.
    - inversion H; subst. split; [reflexivity|].
      exists [], tx, r, (delta m). cbn [app apply_all length]. repeat split.
      replace (i + Z.of_nat 0) with i by lia. rewrite E. reflexivity.
    - apply IH in H. cbn [delta] in H. destruct H as [H1 (pre & tx' & post & d & -> & H2 & H3)].
      split; [exact H1|]. exists (tx :: pre), tx', post, d. cbn [app apply_all length]. rewrite E.
      repeat split; [exact H2|]. replace (i + Z.of_nat (S (length pre))) with (i + 1 + Z.of_nat (length pre)) by lia.
      exact H3.
  Qed.

  Lemma loop_panic txs : forall i m m' p, 0 <= i ->
    loop step i m txs = (m', Panic p) -> u32_max + 1 < i + Z.of_nat (length txs).
  Proof.
    induction txs as [|tx r IH]; intros i m m' p Hi H; cbn [loop length] in *; [discriminate|].
    destruct (u32_max <? i) eqn:Eb; [lia|].
    destruct (step (delta m) i tx) as [d' [e'|]]; [discriminate|].
    apply IH in H; lia.
  Qed.

  Lemma failure_keeps_state_proof cs txs :
    snd (validate_txs step cs txs) <> Ok tt -> fst (validate_txs step cs txs) = cs.
  Proof.
    unfold validate_txs.
    pose proof (loop_caller txs 0 {| caller := cs; delta := cs |}) as Hc.
    destruct (loop step 0 {| caller := cs; delta := cs |} txs) as [m [[]|e|p]]; cbn [fst snd] in *.
    - intros H; contradiction H; reflexivity.
    - intros _. exact Hc.
    - intros _. exact Hc.
  Qed.

  Lemma atomic_proof cs txs : Z.of_nat (length txs) <= u32_max + 1 ->
    match validate_txs step cs txs with
    | (cs', Ok _) => apply_all step 0 cs txs = Some cs'
    | (cs', Err _) => cs' = cs /\ apply_all step 0 cs txs = None
    | (_, Panic _) => False
    end.
  Proof.
    intros Hl. unfold validate_txs.
    pose proof (loop_caller txs 0 {| caller := cs; delta := cs |}) as Hc.
    destruct (loop step 0 {| caller := cs; delta := cs |} txs) as [m [[]|e|p]] eqn:E; cbn [fst snd] in *.
    - apply loop_ok in E. exact E.
    - apply loop_err in E. split; [exact Hc | exact (proj1 E)].
    - apply loop_panic in E; lia.
  Qed.

  Lemma first_failure_proof cs txs cs' e :
    validate_txs step cs txs = (cs', Err e) ->
    exists pre tx post d, txs = pre ++ tx :: post /\
      apply_all step 0 cs pre = Some d /\
      snd (step d (Z.of_nat (length pre)) tx) = Some e.
  Proof.
    unfold validate_txs.
    destruct (loop step 0 {| caller := cs; delta := cs |} txs) as [m [[]|e'|p]] eqn:E; intros H; inversion H; subst.
    apply loop_err in E. exact (proj2 E).
  Qed.

  (* success exactly when every transaction succeeds in turn *)
  Lemma ok_iff_proof cs txs : Z.of_nat (length txs) <= u32_max + 1 ->
    (snd (validate_txs step cs txs) = Ok tt <-> exists cs', apply_all step 0 cs txs = Some cs').
  Proof.
    intros Hl. pose proof (atomic_proof cs txs Hl) as H.
    destruct (validate_txs step cs txs) as [cs' [[]|e|p]]; cbn [snd].
    - split; [eauto | reflexivity].
    - destruct H as [_ H]. rewrite H. split; [discriminate | intros [? ?]; discriminate].
    - contradiction.
  Qed.
End Proofs.

(* validating on the caller's state directly is NOT atomic: a step that records
   something and then fails, as check_certificates followed by a failing later
   check does *)
Definition leaky_step (s i x : Z) : Z * option Z := (s + 1, if x =? 0 then None else Some 7).

Lemma inplace_not_atomic_proof :
  validate_txs_inplace_from leaky_step 0 10 [0; 0; 1; 0] = (13, Err 7) /\
  validate_txs leaky_step 10 [0; 0; 1; 0] = (10, Err 7) /\
  validate_txs leaky_step 10 [0; 0; 0] = (13, Ok tt).
Proof. vm_compute. repeat split. Qed.
