From PV Require Import Lib.Base C36.Model.
Open Scope Z_scope.

Lemma as_u32_small x : 0 <= x < U32 -> as_u32 x = x.
Proof. intros H. unfold as_u32. apply Z.mod_small. exact H. Qed.

Lemma size_alonzo b w aux :
  0 <= b -> 0 <= w -> (forall a, aux = Some a -> 0 <= a) -> traverse_size b w aux < U32 ->
  alonzo_comp_tx_size b w aux = traverse_size b w aux.
Proof.
  intros Hb Hw Ha Hs. unfold alonzo_comp_tx_size, traverse_size, aux_data_size in *.
  destruct aux as [a|].
  - specialize (Ha a eq_refl). rewrite as_u32_small by lia. lia.
  - rewrite as_u32_small by lia. lia.
Qed.

Lemma size_babbage b w aux :
  0 <= b -> 0 <= w -> (forall a, aux = Some a -> 0 <= a) -> traverse_size b w aux + 1 < U32 ->
  babbage_tx_size b w aux = traverse_size b w aux.
Proof.
  intros Hb Hw Ha Hs. unfold babbage_tx_size, encoded_len, traverse_size, aux_data_size in *.
  destruct aux as [a|].
  - specialize (Ha a eq_refl). rewrite as_u32_small by lia. lia.
  - rewrite as_u32_small by lia. lia.
Qed.

Lemma size_all era b w aux :
  0 <= b -> 0 <= w -> (forall a, aux = Some a -> 0 <= a) -> traverse_size b w aux + 1 < U32 ->
  validator_size era b w aux = traverse_size b w aux.
Proof.
  intros Hb Hw Ha Hs. unfold validator_size, conway_tx_size.
  destruct (era <=? 1); [apply size_alonzo; auto; lia|].
  destruct (era =? 2); apply size_babbage; auto.
Qed.

Lemma min_fee_fits a b size :
  0 <= a < U32 -> 0 <= b < U32 -> 0 <= size < U32 -> 0 <= min_fee a b size < 18446744073709551616.
Proof. unfold min_fee, U32. intros. nia. Qed.

Lemma fee_boundary a b size :
  check_min_fee (min_fee a b size) a b size = V_OK /\
  check_min_fee (min_fee a b size - 1) a b size = V_FEE.
Proof.
  unfold check_min_fee. split.
  - destruct (min_fee a b size <? min_fee a b size) eqn:E; [lia|reflexivity].
  - destruct (min_fee a b size - 1 <? min_fee a b size) eqn:E; [reflexivity|lia].
Qed.

Lemma fee_iff fee a b size : check_min_fee fee a b size = V_OK <-> min_fee a b size <= fee.
Proof. unfold check_min_fee, V_OK, V_FEE. destruct (fee <? min_fee a b size) eqn:E; split; intros; try lia; try discriminate; reflexivity. Qed.

Lemma size_boundary size :
  check_tx_size size size = V_OK /\ check_tx_size size (size - 1) = V_SIZE.
Proof.
  unfold check_tx_size. split.
  - destruct (size >? size) eqn:E; [lia|reflexivity].
  - destruct (size >? size - 1) eqn:E; [reflexivity|lia].
Qed.

Lemma size_iff size max : check_tx_size size max = V_OK <-> size <= max.
Proof. unfold check_tx_size, V_OK, V_SIZE. destruct (size >? max) eqn:E; split; intros; try lia; try discriminate; reflexivity. Qed.

Lemma e2e_iff era b w aux fee a bb max :
  0 <= b -> 0 <= w -> (forall x, aux = Some x -> 0 <= x) -> traverse_size b w aux + 1 < U32 ->
  (fee_and_size_ok era b w aux fee a bb max = true <->
   bb + a * traverse_size b w aux <= fee /\ traverse_size b w aux <= max).
Proof.
  intros Hb Hw Ha Hs. unfold fee_and_size_ok. rewrite (size_all era b w aux Hb Hw Ha Hs).
  rewrite andb_true_iff, !Z.eqb_eq, fee_iff, size_iff. unfold min_fee. tauto.
Qed.

(* refutations for the code before the repairs *)
Lemma alonzo_size_old_refuted :
  exists b w aux, 0 <= b /\ 0 <= w /\ traverse_size b w aux < U32 /\
    alonzo_comp_tx_size_old b w aux < traverse_size b w aux.
Proof. exists 200, 100, None. unfold U32. repeat split; try lia; vm_compute; reflexivity. Qed.

Lemma babbage_size_old_refuted :
  exists b w aux, 0 <= b /\ 0 <= w /\ traverse_size b w aux + 1 < U32 /\
    babbage_tx_size_old b w aux = traverse_size b w aux + 1.
Proof. exists 200, 100, (Some 50). unfold U32. repeat split; try lia; vm_compute; reflexivity. Qed.

Lemma min_fee_old_wrap_refuted :
  exists fee a b size, 0 <= a < U32 /\ 0 <= b < U32 /\ 0 <= size < U32 /\
    fee < min_fee a b size /\ check_min_fee_old_release fee a b size = V_OK.
Proof. exists 0, 1048576, 0, 4096. unfold U32. repeat split; try lia; vm_compute; reflexivity. Qed.
