#!/usr/bin/env python3
"""C06 translator: #[derive(Encode, Decode)] items of pallas-primitives -> Generated/Schemas.v

Reads  pallas-primitives/src/{lib.rs, alonzo/model.rs, babbage/model.rs, conway/model.rs, byron/model.rs}
and emits one term of the C06 `schema` datatype per derived struct / enum (plus `all_schemas`).

Accepted grammar (anything else -> exit 1 with a message; never guesses):
  item      : ATTR* pub struct NAME GENERICS? '{' FIELD,* '}'          named struct
            | ATTR* pub struct NAME GENERICS? '(' TFIELD,* ')' ';'     tuple struct
            | ATTR* pub enum NAME GENERICS? '{' ARM,* '}'
            | pub type NAME GENERICS? = TYPE ;                         alias (followed when resolving)
  ATTR      : #[derive(..)] | #[cbor(CATTR,*)] | #[serde(..)] | #[deprecated(..)] | #[allow(..)] | #[doc..]
  CATTR     : map | array | flat | index_only | transparent | tag(N)        (on the item)
  FIELD     : FATTR* pub? NAME ':' TYPE        TFIELD : FATTR* pub? TYPE
  FATTR     : #[n(I)] | #[b(I)] | #[cbor(skip)] | #[serde(..)]              (I a non-negative integer)
  ARM       : #[n(I)] NAME | #[n(I)] NAME '(' TFIELD,* ')' | #[n(I)] NAME '{' FIELD,* '}'
  TYPE      : PATH ('<' (TYPE | LIFETIME | INT),* '>')? | '(' TYPE,* ')'
An item is translated when its derive list has both Encode and Decode (an item that derives only
one of them has a hand-written half and is an opaque leaf). An enum must be
#[cbor(flat)] or #[cbor(index_only)] (the only forms used); every field needs exactly one index.

Types: u8/u16/u32/u64 -> SUInt, i64 -> SInt64, bool -> SBool, Bytes, ByteVec and Hash<N> -> SBytes (the
strict length of Hash<N> is not expressed), String -> SText, Vec<T> -> SVec, Box<T> -> T,
Option<T> as a field type -> optional field, tuples without Option -> SArray, a derived item ->
a reference to its schema, aliases are followed; everything else (hand-written codecs, maps, sets,
KeepRaw, generic parameters, recursion) is the opaque leaf `SCustom "<type>"` (one raw CBOR item).
Fields are emitted sorted by index, as the derive macro sorts them.

usage: schemas.py --repo R --out DIR     (writes DIR/Schemas.v only when its content changed)
"""
import argparse
import os
import re
import sys

FILES = [("core", "lib.rs"), ("alonzo", "alonzo/model.rs"), ("babbage", "babbage/model.rs"),
         ("conway", "conway/model.rs"), ("byron", "byron/model.rs")]


class Reject(Exception):
    pass


def strip_comments(src):
    out, i, n = [], 0, len(src)
    while i < n:
        if src.startswith("//", i):
            j = src.find("\n", i)
            i = n if j < 0 else j
        elif src.startswith("/*", i):
            j = src.find("*/", i + 2)
            if j < 0:
                raise Reject("unterminated block comment")
            i = j + 2
        elif src[i] == '"':
            j = i + 1
            while j < n and src[j] != '"':
                j += 2 if src[j] == "\\" else 1
            out.append('"S"')
            i = j + 1
        else:
            out.append(src[i])
            i += 1
    return "".join(out)


TOK = re.compile(r"\s*(?:('[A-Za-z_]\w*(?!'))|('(?:\\.|[^'\\])')|(\"S\")|([A-Za-z_]\w*)|(\d[\w.]*)|(::|->|=>|\.\.=|\.\.|&&|\|\||[-+*/%^!&|=<>@.,;:#$?~\[\](){}]))")


def tokenize(src, where):
    toks, i, n = [], 0, len(src)
    while True:
        m = TOK.match(src, i)
        if not m:
            if src[i:].strip() == "":
                return toks
            raise Reject("%s: cannot tokenize near %r" % (where, src[i:i + 40]))
        toks.append(m.group(m.lastindex))
        i = m.end()
        if i >= n:
            return toks


OPEN = {"{": "}", "(": ")", "[": "]"}


def skip_group(t, i):
    """t[i] is an opener; return the index just after its matching closer."""
    stack = [OPEN[t[i]]]
    i += 1
    while stack:
        if i >= len(t):
            raise Reject("unbalanced brackets")
        if t[i] in OPEN:
            stack.append(OPEN[t[i]])
        elif t[i] == stack[-1]:
            stack.pop()
        elif t[i] in OPEN.values():
            raise Reject("unbalanced brackets near %s" % " ".join(t[max(0, i - 5):i + 5]))
        i += 1
    return i


def skip_angle(t, i):
    """t[i] == '<'; return index after the matching '>' (no shift operators in type position)."""
    depth = 0
    while True:
        if t[i] == "<":
            depth += 1
        elif t[i] == ">":
            depth -= 1
            if depth == 0:
                return i + 1
        elif t[i] in OPEN:
            i = skip_group(t, i) - 1
        i += 1


def parse_type(t, i, where):
    """-> (type, next index); type = ('path', name, [args]) | ('tuple', [types]) | ('lifetime',) | ('int', n)"""
    if t[i] == "(":
        i += 1
        elems = []
        while t[i] != ")":
            ty, i = parse_type(t, i, where)
            elems.append(ty)
            if t[i] == ",":
                i += 1
        return ("tuple", elems), i + 1
    if t[i].startswith("'"):
        return ("lifetime",), i + 1
    if re.match(r"\d", t[i]):
        return ("int", t[i]), i + 1
    if not re.match(r"[A-Za-z_]", t[i]):
        raise Reject("%s: unsupported type syntax near %s" % (where, " ".join(t[i:i + 6])))
    name = t[i]
    i += 1
    while t[i] == "::":
        name = t[i + 1]          # keep the last path segment
        i += 2
    args = []
    if t[i] == "<":
        i += 1
        while t[i] != ">":
            ty, i = parse_type(t, i, where)
            args.append(ty)
            if t[i] == ",":
                i += 1
        i += 1
    return ("path", name, args), i


def type_text(ty):
    if ty[0] == "path":
        args = [type_text(a) for a in ty[2] if a[0] != "lifetime"]
        return ty[1] + ("<" + ", ".join(args) + ">" if args else "")
    if ty[0] == "tuple":
        return "(" + ", ".join(type_text(a) for a in ty[1]) + ")"
    if ty[0] == "int":
        return ty[1]
    return "'_"


def parse_attrs(t, i):
    """attributes starting at t[i]; -> (list of token lists, next index)"""
    attrs = []
    while t[i] == "#" and t[i + 1] == "[":
        j = skip_group(t, i + 1)
        attrs.append(t[i + 2:j - 1])
        i = j
    return attrs, i


def attr_args(a):
    """tokens of `name ( ... )` -> (name, inner tokens) ; `name` -> (name, None)"""
    if len(a) >= 3 and a[1] == "(" and a[-1] == ")":
        return a[0], a[2:-1]
    return a[0], None


def field_index(attrs, where):
    idx, skip = None, False
    for a in attrs:
        name, inner = attr_args(a)
        if name in ("n", "b"):
            if inner is None or len(inner) != 1 or not inner[0].isdigit():
                raise Reject("%s: unsupported index attribute #[%s]" % (where, " ".join(a)))
            if idx is not None:
                raise Reject("%s: two index attributes on one field" % where)
            idx = int(inner[0])
        elif name == "cbor":
            if inner == ["skip"]:
                skip = True
            else:
                raise Reject("%s: unsupported field attribute #[%s]" % (where, " ".join(a)))
        elif name in ("serde", "doc", "allow", "deprecated"):
            pass
        else:
            raise Reject("%s: unsupported field attribute #[%s]" % (where, " ".join(a)))
    return idx, skip


def parse_fields(t, i, closer, named, where, need_index=True):
    """fields up to `closer`; -> (list of (idx, type), next index after closer)"""
    fields = []
    while t[i] != closer:
        attrs, i = parse_attrs(t, i)
        if t[i] == "pub":
            i += 1
            if t[i] == "(":
                i = skip_group(t, i)
        fname = None
        if named:
            fname = t[i]
            if t[i + 1] != ":":
                raise Reject("%s: expected `name: type` near %s" % (where, " ".join(t[i:i + 5])))
            i += 2
        ty, i = parse_type(t, i, where)
        idx, skip = field_index(attrs, "%s.%s" % (where, fname or len(fields)))
        if not skip:
            if idx is None:
                if need_index:
                    raise Reject("%s: field %s has no #[n(..)] / #[b(..)] index" % (where, fname or len(fields)))
                idx = len(fields)
            fields.append((idx, ty))
        if t[i] == ",":
            i += 1
        elif t[i] != closer:
            raise Reject("%s: expected `,` near %s" % (where, " ".join(t[i:i + 5])))
    return fields, i + 1


def parse_use(t, i, prefix, out):
    """use tree after `use`; records name -> module path for crate-relative imports"""
    path = list(prefix)
    while True:
        if t[i] == "{":
            i += 1
            while t[i] != "}":
                i = parse_use(t, i, path, out)
                if t[i] == ",":
                    i += 1
            return i + 1
        if t[i] == "*":
            return i + 1
        name = t[i]
        i += 1
        if t[i] == "::":
            path.append(name)
            i += 1
            continue
        alias = name
        if t[i] == "as":
            alias = t[i + 1]
            i += 2
        out[alias] = (tuple(path), name)
        return i


class Module:
    def __init__(self, key):
        self.key = key
        self.items = {}      # name -> dict(kind, cattrs, fields/arms, generics)
        self.aliases = {}    # name -> (generics, type)
        self.uses = {}       # name -> (path tuple, original name)
        self.other = set()   # names of non-derived structs/enums defined here


def parse_generics(t, i):
    params = []
    if t[i] == "<":
        j = skip_angle(t, i)
        inner = t[i + 1:j - 1]
        k = 0
        while k < len(inner):
            if inner[k] == "const":
                k += 1
                params.append(("const", inner[k]))
            elif inner[k].startswith("'"):
                params.append(("lifetime", inner[k]))
            elif re.match(r"[A-Za-z_]", inner[k]) and (k == 0 or inner[k - 1] == ","):
                params.append(("type", inner[k]))
            k += 1
        i = j
    return params, i


def parse_module(key, src, where):
    src = strip_comments(src)
    cut = src.find("#[cfg(test)]")
    if cut >= 0:
        src = src[:cut]
    t = tokenize(src, where) + ["<eof>"] * 4
    mod = Module(key)
    i = 0
    while t[i] != "<eof>":
        attrs, j = parse_attrs(t, i)
        k = j
        if t[k] == "pub":
            k += 1
            if t[k] == "(":
                k = skip_group(t, k)
        if t[k] == "use":
            k = parse_use(t, k + 1, [], mod.uses)
            if t[k] != ";":
                raise Reject("%s: unsupported use declaration near %s" % (where, " ".join(t[k - 4:k + 3])))
            i = k + 1
        elif t[k] == "type":
            name = t[k + 1]
            gens, k = parse_generics(t, k + 2)
            if t[k] != "=":
                raise Reject("%s: type %s: expected `=`" % (where, name))
            ty, k = parse_type(t, k + 1, "%s: type %s" % (where, name))
            if t[k] != ";":
                raise Reject("%s: type %s: unsupported alias syntax" % (where, name))
            mod.aliases[name] = (gens, ty)
            i = k + 1
        elif t[k] in ("struct", "enum"):
            kind, name = t[k], t[k + 1]
            w = "%s: %s %s" % (where, kind, name)
            gens, k = parse_generics(t, k + 2)
            derives, cattrs = set(), []
            for a in attrs:
                an, inner = attr_args(a)
                if an == "derive":
                    derives |= {x for x in inner if re.match(r"[A-Za-z_]", x)}
                elif an == "cbor":
                    cattrs.append(inner or [])
            derived = "Encode" in derives and "Decode" in derives
            # one of the two derived, the other hand-written: treated as a hand-written codec (opaque)
            if t[k] == "where":
                raise Reject("%s: where clauses are not supported" % w)
            if not derived:
                mod.other.add(name)
                if t[k] in OPEN:
                    k = skip_group(t, k)
                if t[k] == ";":
                    k += 1
                i = k
                continue
            flags = {}
            for inner in cattrs:
                m = 0
                while m < len(inner):
                    if inner[m] in ("map", "array", "flat", "index_only", "transparent"):
                        flags[inner[m]] = True
                        m += 1
                    elif inner[m] == "tag" and inner[m + 1] == "(" and inner[m + 2].isdigit() and inner[m + 3] == ")":
                        flags["tag"] = int(inner[m + 2])
                        m += 4
                    elif inner[m] == ",":
                        m += 1
                    else:
                        raise Reject("%s: unsupported #[cbor(%s)]" % (w, " ".join(inner)))
            item = {"kind": kind, "flags": flags, "generics": gens}
            if kind == "struct":
                if t[k] == "{":
                    item["fields"], k = parse_fields(t, k + 1, "}", True, w, not flags.get("transparent"))
                elif t[k] == "(":
                    item["fields"], k = parse_fields(t, k + 1, ")", False, w, not flags.get("transparent"))
                    if t[k] != ";":
                        raise Reject("%s: expected `;` after tuple struct" % w)
                    k += 1
                else:
                    raise Reject("%s: unit structs are not supported" % w)
            else:
                if t[k] != "{":
                    raise Reject("%s: expected `{`" % w)
                k += 1
                arms = []
                while t[k] != "}":
                    aattrs, k = parse_attrs(t, k)
                    aidx, askip = field_index(aattrs, "%s arm %s" % (w, t[k]))
                    aname = t[k]
                    k += 1
                    if aidx is None or askip:
                        raise Reject("%s: arm %s has no #[n(..)] index" % (w, aname))
                    afields = []
                    if t[k] == "(":
                        afields, k = parse_fields(t, k + 1, ")", False, "%s::%s" % (w, aname))
                    elif t[k] == "{":
                        afields, k = parse_fields(t, k + 1, "}", True, "%s::%s" % (w, aname))
                    arms.append((aidx, aname, afields))
                    if t[k] == ",":
                        k += 1
                    elif t[k] != "}":
                        raise Reject("%s: expected `,` after arm %s" % (w, aname))
                k += 1
                item["arms"] = arms
            if name in mod.items:
                raise Reject("%s defined twice" % w)
            mod.items[name] = item
            i = k
        else:
            # anything else: skip one token / group (impl blocks, macros, consts, fns ...)
            if t[j] in OPEN:
                i = skip_group(t, j)
            else:
                i = j + 1
    return mod


PRIM = {"u8": "SUInt 8", "u16": "SUInt 16", "u32": "SUInt 32", "u64": "SUInt 64", "i64": "SInt64",
        "bool": "SBool", "Bytes": "SBytes", "ByteVec": "SBytes", "String": "SText"}


class Gen:
    def __init__(self, mods):
        self.mods = mods
        self.defs = []          # (coq ident, string name, term) in dependency order
        self.done = {}          # (mod, name) -> coq ident
        self.stack = []

    def find(self, mkey, name, seen=None):
        """where does `name` used in module mkey come from: ('item'|'alias'|'other', module, name) or None"""
        seen = seen or set()
        if (mkey, name) in seen or mkey not in self.mods:
            return None
        seen.add((mkey, name))
        m = self.mods[mkey]
        if name in m.items:
            return ("item", mkey, name)
        if name in m.aliases:
            return ("alias", mkey, name)
        if name in m.other:
            return ("other", mkey, name)
        if name in m.uses:
            path, orig = m.uses[name]
            if path and path[0] == "crate":
                target = "core" if len(path) == 1 else path[1]
                r = self.find(target, orig, seen)
                if r:
                    return r
            elif path and path[0] in ("super", "self"):
                return None
            else:
                return None     # external crate: primitives are handled by name
        if mkey != "core":
            return None
        return None

    def custom(self, ty):
        return 'SCustom "%s"' % type_text(ty).replace('"', "'")

    def resolve(self, mkey, ty, tparams):
        """-> Coq term of type schema for a (non-Option) type used in module mkey"""
        if ty[0] == "tuple":
            elems = ty[1]
            if not elems or any(e[0] == "path" and e[1] == "Option" for e in elems):
                return self.custom(ty)
            return "SArray [%s]" % "; ".join("(%d, (false, %s))" % (k, self.resolve(mkey, e, tparams)) for k, e in enumerate(elems))
        if ty[0] != "path":
            return self.custom(ty)
        name, args = ty[1], [a for a in ty[2] if a[0] != "lifetime"]
        if name in tparams:
            return self.custom(ty)
        r = self.find(mkey, name)
        if r is None:
            if name in PRIM and not args:
                return PRIM[name]
            if name == "Hash" and len(args) == 1 and args[0][0] == "int":
                return "SBytes"
            if name == "Vec" and len(args) == 1:
                return "SVec (%s)" % self.resolve(mkey, args[0], tparams)
            if name == "Box" and len(args) == 1:
                return self.resolve(mkey, args[0], tparams)
            return self.custom(ty)
        kind, m2, n2 = r
        if kind == "other":
            return self.custom(ty)
        if kind == "alias":
            gens, target = self.mods[m2].aliases[n2]
            if any(g[0] == "type" for g in gens) or any(a[0] == "path" or a[0] == "tuple" for a in args):
                return self.custom(ty)
            return self.resolve(m2, target, set())
        item = self.mods[m2].items[n2]
        if any(g[0] == "type" for g in item["generics"]):
            return self.custom(ty)       # generic over a type: instances are opaque
        if (m2, n2) in self.stack:
            return self.custom(("path", "rec:" + n2, []))
        return self.item(m2, n2)

    def fields(self, mkey, fields, tparams, where):
        out = []
        for idx, ty in sorted(fields, key=lambda f: f[0]):
            opt = ty[0] == "path" and ty[1] == "Option" and len(ty[2]) == 1
            inner = ty[2][0] if opt else ty
            out.append("(%d, (%s, %s))" % (idx, "true" if opt else "false", self.resolve(mkey, inner, tparams)))
        return "[%s]" % "; ".join(out)

    def item(self, mkey, name):
        if (mkey, name) in self.done:
            return self.done[(mkey, name)]
        it = self.mods[mkey].items[name]
        where = "%s::%s" % (mkey, name)
        self.stack.append((mkey, name))
        tparams = {g[1] for g in it["generics"] if g[0] == "type"}
        fl = it["flags"]
        if it["kind"] == "struct":
            if fl.get("flat") or fl.get("index_only"):
                raise Reject("%s: flat / index_only on a struct" % where)
            if fl.get("transparent"):
                if len(it["fields"]) != 1:
                    raise Reject("%s: transparent struct with %d fields" % (where, len(it["fields"])))
                ty = it["fields"][0][1]
                if ty[0] == "path" and ty[1] == "Option":
                    raise Reject("%s: transparent Option" % where)
                term = self.resolve(mkey, ty, tparams)
            elif fl.get("map"):
                term = "SMap %s" % self.fields(mkey, it["fields"], tparams, where)
            else:
                term = "SArray %s" % self.fields(mkey, it["fields"], tparams, where)
        else:
            if fl.get("map") or fl.get("transparent"):
                raise Reject("%s: unsupported enum encoding" % where)
            if fl.get("index_only"):
                if any(a[2] for a in it["arms"]):
                    raise Reject("%s: index_only enum with fields" % where)
                term = "SIndexOnly [%s]" % "; ".join(str(a[0]) for a in it["arms"])
            elif fl.get("flat"):
                term = "SFlat [%s]" % "; ".join("(%d, %s)" % (a[0], self.fields(mkey, a[2], tparams, where)) for a in it["arms"])
            else:
                raise Reject("%s: enum is neither #[cbor(flat)] nor #[cbor(index_only)]" % where)
        if "tag" in fl:
            term = "STag %d (%s)" % (fl["tag"], term)
        self.stack.pop()
        ident = "g_%s_%s" % (mkey, name)
        self.done[(mkey, name)] = ident
        self.defs.append((ident, "%s::%s" % (mkey, name), term))
        return ident


def main():
    ap = argparse.ArgumentParser()
    ap.add_argument("--repo", required=True)
    ap.add_argument("--out", required=True)
    a = ap.parse_args()
    try:
        mods = {}
        for key, rel in FILES:
            p = os.path.join(a.repo, "pallas-primitives", "src", rel)
            if not os.path.exists(p):
                raise Reject("missing source file %s" % p)
            mods[key] = parse_module(key, open(p).read(), rel)
        g = Gen(mods)
        for key, _ in FILES:
            for name in mods[key].items:
                g.item(key, name)
        if len(g.defs) < 40:
            raise Reject("only %d derived items found: the source no longer has the expected shape" % len(g.defs))
    except Reject as e:
        sys.stderr.write("schemas.py: %s\n" % e)
        print("schemas.py: REJECT %s" % e)
        sys.exit(1)
    lines = ["(* GENERATED by translators/schemas.py from pallas-primitives/src/{lib.rs,*/model.rs}: do not edit.",
             "   One schema per #[derive(Encode, Decode)] item; SCustom = opaque leaf (one raw CBOR item). *)",
             "From Coq Require Import String.",
             "From PV Require Import Lib.Base C06.Model.",
             "Open Scope Z_scope.",
             "Open Scope string_scope.", ""]
    for ident, sname, term in g.defs:
        lines.append("Definition %s : schema := %s." % (ident, term))
    # which schemas have no opaque leaf (transitively): the translator's own computation, re-checked in Coq
    full = {}
    for ident, sname, term in g.defs:
        refs = re.findall(r"\bg_\w+", term)
        full[ident] = ("SCustom" not in term) and all(full.get(r, False) for r in refs)
    lines.append("")
    lines.append("Definition fully_modelled_names : list string :=")
    lines.append("  [" + "; ".join('"%s"' % sname for ident, sname, _ in g.defs if full[ident]) + "].")
    lines.append("")
    lines.append("Definition all_schemas : list (string * schema) :=")
    lines.append("  [" + ";\n   ".join('("%s", %s)' % (sname, ident) for ident, sname, _ in g.defs) + "].")
    text = "\n".join(lines) + "\n"
    os.makedirs(a.out, exist_ok=True)
    path = os.path.join(a.out, "Schemas.v")
    if not os.path.exists(path) or open(path).read() != text:
        with open(path + ".tmp", "w") as f:
            f.write(text)
        os.replace(path + ".tmp", path)
        print("schemas.py: wrote %s (%d schemas)" % (path, len(g.defs)))
    else:
        print("schemas.py: %s unchanged (%d schemas)" % (path, len(g.defs)))


if __name__ == "__main__":
    main()
