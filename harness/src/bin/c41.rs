//! C41: sign / add_signature / remove_signature on built transactions.
//! case := ((era_conway, tx_decodes, body, id), ops, outcome (sigs sorted, witnesses, body, id))
//!
//! A case is fully described by the text `tx=<seed> keys=<seed> flag=<..> ops=<tokens>`
//! (the same text is the replay and the corpus format, one per line in corpus/C41/*.ops):
//!   S<i> sign with pool key i (0..2 normal, 3 extended) · A<i> add_signature with a valid
//!   signature of key i · B<i>:<seed> add_signature with 64 arbitrary bytes ·
//!   R<i> remove_signature(pool key i) · Q<seed> remove_signature(a key never added)
#[path = "txb_common/mod.rs"]
mod txb_common;

use pallas_crypto::hash::{Hash, Hasher};
use pallas_crypto::key::ed25519::{PublicKey, SecretKey, SecretKeyExtended, Signature};
use pallas_primitives::{conway, Fragment};
use pallas_txbuilder::{BuildConway, BuiltTransaction, Bytes, Input, Output, ScriptKind, StagingTransaction};
use std::collections::{BTreeMap, BTreeSet};
use txb_common::*;
use verif_harness::*;

enum Sk { N(SecretKey), X(SecretKeyExtended) }
impl Sk {
    fn pk(&self) -> [u8; 32] { match self { Sk::N(k) => k.public_key().into(), Sk::X(k) => k.public_key().into() } }
    fn sig(&self, msg: &[u8]) -> [u8; 64] {
        let s = match self { Sk::N(k) => k.sign(msg), Sk::X(k) => k.sign(msg) };
        arr::<64>(s.as_ref())
    }
}

fn pool(seed: u64) -> Vec<Sk> {
    let mut r = Rng::new(seed ^ 0x6b65_7973);
    let mut v = vec![];
    for _ in 0..3 { v.push(Sk::N(SecretKey::from(arr::<32>(&r.bytes(32))))); }
    let mut x = arr::<64>(&r.bytes(64));
    x[0] &= 0b1111_1000; x[31] &= 0b0011_1111; x[31] |= 0b0100_0000;
    v.push(Sk::X(SecretKeyExtended::from_bytes(x).expect("extended key")));
    v
}

/// A small random staging transaction (the staging side is C40's subject; here it only
/// has to give built transactions whose witness set / aux data are sometimes non-empty).
fn staging(seed: u64) -> StagingTransaction {
    let mut r = Rng::new(seed ^ 0x7478);
    let mut s = StagingTransaction::new();
    for _ in 0..r.range(1, 3) { s = s.input(Input::new(Hash::<32>::from(arr::<32>(&r.bytes(32))), r.below(4))); }
    for _ in 0..r.below(3) {
        let mut o = Output::new(enterprise_addr(r.below(2) as u8, &arr::<28>(&r.bytes(28))), 1_000_000 + r.below(5_000_000));
        if r.chance(1, 3) { o = o.add_asset(Hash::<28>::from(arr::<28>(&r.bytes(28))), { let n = r.below(6) as usize; r.bytes(n) }, 1 + r.below(1000)).unwrap(); }
        s = s.output(o);
    }
    s = s.fee(150_000 + r.below(100_000));
    if r.bool() { s = s.invalid_from_slot(r.below(1 << 30)); }
    if r.chance(1, 3) { s = s.network_id(r.below(2) as u8); }
    if r.chance(1, 3) {
        // native script [0, keyhash]
        let mut ns = vec![0x82, 0x00, 0x58, 0x1c];
        ns.extend_from_slice(&r.bytes(28));
        s = s.script(ScriptKind::Native, ns);
    }
    if r.chance(1, 4) { s = s.script(ScriptKind::PlutusV2, r.bytes(12)); }
    if r.chance(1, 4) { s = s.datum(vec![0x18, r.byte() | 0x18]); }
    if r.chance(1, 4) { s = s.add_auxiliary_data(vec![0xa1, 0x00, 0x18, r.byte() | 0x18]); }
    if r.chance(1, 5) { s = s.disclosed_signer(Hash::<28>::from(arr::<28>(&r.bytes(28)))); }
    s
}

#[derive(Clone, Debug, PartialEq)]
enum Op { S(usize), A(usize), B(usize, u64), R(usize), Q(u64) }
impl Op {
    fn tok(&self) -> String {
        match self { Op::S(i) => format!("S{}", i), Op::A(i) => format!("A{}", i), Op::B(i, s) => format!("B{}:{}", i, s),
                     Op::R(i) => format!("R{}", i), Op::Q(s) => format!("Q{}", s) }
    }
    fn parse(t: &str) -> Option<Op> {
        let (h, rest) = t.split_at(1);
        Some(match h {
            "S" => Op::S(rest.parse().ok()?), "A" => Op::A(rest.parse().ok()?), "R" => Op::R(rest.parse().ok()?),
            "Q" => Op::Q(rest.parse().ok()?),
            "B" => { let (i, s) = rest.split_once(':')?; Op::B(i.parse().ok()?, s.parse().ok()?) }
            _ => return None,
        })
    }
    fn method(&self) -> &'static str { match self { Op::S(_) => "sign", Op::A(_) | Op::B(..) => "add_signature", _ => "remove_signature" } }
}

struct Desc { tx: u64, keys: u64, flag: String, ops: Vec<Op> }
impl Desc {
    fn text(&self) -> String {
        format!("tx={} keys={} flag={} ops={}", self.tx, self.keys, self.flag, self.ops.iter().map(|o| o.tok()).collect::<Vec<_>>().join(","))
    }
    fn parse(line: &str) -> Option<Desc> {
        let mut d = Desc { tx: 0, keys: 0, flag: "none".into(), ops: vec![] };
        for w in line.split_whitespace() {
            let (k, v) = w.split_once('=')?;
            match k {
                "tx" => d.tx = v.parse().ok()?, "keys" => d.keys = v.parse().ok()?, "flag" => d.flag = v.into(),
                "ops" => { for t in v.split(',') { if !t.is_empty() { d.ops.push(Op::parse(t)?); } } }
                _ => return None,
            }
        }
        Some(d)
    }
}

fn bogus_sig(seed: u64) -> [u8; 64] { arr::<64>(&Rng::new(seed ^ 0x626f67).bytes(64)) }
fn absent_key(seed: u64) -> [u8; 32] { arr::<32>(&Rng::new(seed ^ 0x616273).bytes(32)) }

/// (vkey, signature) list of the witness set, via the era codec.
fn witnesses(tx_bytes: &[u8]) -> Option<Vec<(Vec<u8>, Vec<u8>)>> {
    let tx = conway::Tx::decode_fragment(tx_bytes).ok()?;
    Some(match &tx.transaction_witness_set.vkeywitness {
        None => vec![],
        Some(ws) => ws.iter().map(|w| (w.vkey.to_vec(), w.signature.to_vec())).collect(),
    })
}

fn sig_map(bt: &BuiltTransaction) -> BTreeMap<Vec<u8>, Vec<u8>> {
    bt.signatures.iter().flat_map(|m| m.iter()).map(|(k, v)| (k.0.to_vec(), v.0.to_vec())).collect()
}

fn entries(t: &mut Intern, l: &[(Vec<u8>, Vec<u8>)], sort: bool) -> String {
    let mut v: Vec<(Vec<u8>, String)> = l.iter().map(|(k, s)| (t.order(k), format!("({},{})", t.z(k), t.z(s)))).collect();
    if sort { v.sort(); }
    coq_list(&v, |s| s.1.clone())
}

fn run_case(d: &Desc, tag: &str, raw: bool, oracle_only: bool) {
    let text = d.text();
    let keys = pool(d.keys);
    let built = match guard(|| staging(d.tx).build_conway_raw().map_err(|e| format!("{:?}", e))) {
        Out::Ok(b) => b,
        _ => { emit_stat("build_failed", 1); return; }
    };
    let mut bt = built;
    match d.flag.as_str() {
        "babbage" => {
            let js = serde_json::to_string(&bt).unwrap().replace("\"era\":\"conway\"", "\"era\":\"babbage\"");
            bt = serde_json::from_str(&js).expect("babbage json");
        }
        "truncate" => { let n = bt.tx_bytes.0.len(); bt.tx_bytes = Bytes(bt.tx_bytes.0[..n - 1 - (d.tx % 7) as usize].to_vec()); }
        "garbage" => { bt.tx_bytes = Bytes(Rng::new(d.tx).bytes(40)); }
        _ => {}
    }
    let era_conway = d.flag != "babbage";
    let id0 = bt.tx_hash.0;
    let decodes0 = conway::Tx::decode_fragment(&bt.tx_bytes.0).is_ok();
    let body0: Vec<u8> = if decodes0 { body_slice(&bt.tx_bytes.0).map(|b| b.to_vec()).unwrap_or_default() } else { vec![] };
    if decodes0 {
        if body_slice(&bt.tx_bytes.0).is_none() { emit_oracle_fail("scan", &format!("{} : independent scan cannot split tx {}", text, hex(&bt.tx_bytes.0))); }
        if *Hasher::<256>::hash(&body0) != id0 { emit_oracle_fail("id-not-body-hash", &format!("{} : id {} body {}", text, hex(&id0), hex(&body0))); }
    }
    // reference semantics of the op sequence: last operation on a key decides; `valid` = the entry must verify
    let mut expect: BTreeMap<Vec<u8>, (Vec<u8>, bool)> = BTreeMap::new();
    let mut coq_ops: Vec<String> = vec![];
    let mut t = Intern::new(raw);
    let mut outcome: Option<String> = None; // Err / Panic term
    let mut cur = Some(bt);
    let fails = std::cell::Cell::new(0u32);
    let emit_oracle_fail = |k: &str, t: &str| { if fails.get() == 0 { verif_harness::emit_oracle_fail(k, t); } fails.set(fails.get() + 1); };
    for (n, op) in d.ops.iter().enumerate() {
        let b = cur.take().unwrap();
        let here = format!("{} : after op #{} ({})", text, n, op.tok());
        let res = match op {
            Op::S(i) => {
                let k = &keys[*i];
                let (pk, sg) = (k.pk(), k.sig(&id0));
                coq_ops.push(format!("Sign ({},{})", t.z(&pk), t.z(&sg)));
                expect.insert(pk.to_vec(), (sg.to_vec(), true));
                match k {
                    Sk::N(s) => guard(|| b.sign(s).map_err(|e| format!("{:?}", e))),
                    Sk::X(s) => guard(|| b.sign(s).map_err(|e| format!("{:?}", e))),
                }
            }
            Op::A(i) | Op::B(i, _) => {
                let k = &keys[*i];
                let pk = k.pk();
                let (sg, valid) = match op { Op::B(_, s) => (bogus_sig(*s), false), _ => (k.sig(&id0), true) };
                coq_ops.push(format!("AddSig {} {}", t.z(&pk), t.z(&sg)));
                expect.insert(pk.to_vec(), (sg.to_vec(), valid));
                guard(|| b.add_signature(PublicKey::from(pk), sg).map_err(|e| format!("{:?}", e)))
            }
            Op::R(_) | Op::Q(_) => {
                let pk = match op { Op::R(i) => keys[*i].pk(), Op::Q(s) => absent_key(*s), _ => unreachable!() };
                coq_ops.push(format!("Remove {}", t.z(&pk)));
                expect.remove(&pk.to_vec());
                guard(|| b.remove_signature(PublicKey::from(pk)).map_err(|e| format!("{:?}", e)))
            }
        };
        match res {
            Out::Panic(m) => {
                emit_oracle_fail(&format!("panic:{}", op.method()), &format!("{} : panicked: {}", here, m));
                outcome = Some(format!("Panic {}", panic_class(&m)));
                break;
            }
            Out::Err(e) => {
                let class = if e.contains("CorruptedTxBytes") { 1 } else if e.contains("UnsupportedEra") { 2 } else { 9 };
                if era_conway && decodes0 { emit_oracle_fail(&format!("error:{}", op.method()), &format!("{} : returned Err({}) on a well-formed Conway built tx", here, e)); }
                outcome = Some(format!("Err {}", class));
                break;
            }
            Out::Ok(nb) => {
                // ---- the property's predicate, evaluated on the implementation's output ----
                if nb.tx_hash.0 != id0 { emit_oracle_fail("id-changed", &format!("{} : id {} -> {}", here, hex(&id0), hex(&nb.tx_hash.0))); }
                match body_slice(&nb.tx_bytes.0) {
                    Some(bd) if bd == &body0[..] => {}
                    other => emit_oracle_fail("body-changed", &format!("{} : body {} -> {:?}", here, hex(&body0), other.map(hex))),
                }
                match witnesses(&nb.tx_bytes.0) {
                    None => emit_oracle_fail("undecodable", &format!("{} : tx bytes no longer decode: {}", here, hex(&nb.tx_bytes.0))),
                    Some(ws) => {
                        let keyset: BTreeSet<&Vec<u8>> = ws.iter().map(|w| &w.0).collect();
                        if keyset.len() != ws.len() {
                            emit_oracle_fail(&format!("duplicate-witness:{}", op.method()), &format!("{} : {} witnesses for {} distinct keys; signature map has {} entries", here, ws.len(), keyset.len(), sig_map(&nb).len()));
                        }
                        let wset: BTreeSet<(Vec<u8>, Vec<u8>)> = ws.iter().cloned().collect();
                        let mset: BTreeSet<(Vec<u8>, Vec<u8>)> = sig_map(&nb).into_iter().collect();
                        if wset != mset && keyset.len() == ws.len() {
                            emit_oracle_fail(&format!("witness-map-mismatch:{}", op.method()), &format!("{} : witness keys {:?} vs signature-map keys {:?}", here,
                                wset.iter().map(|w| hex(&w.0[..4])).collect::<Vec<_>>(), mset.iter().map(|w| hex(&w.0[..4])).collect::<Vec<_>>()));
                        }
                        let eset: BTreeSet<(Vec<u8>, Vec<u8>)> = expect.iter().map(|(k, v)| (k.clone(), v.0.clone())).collect();
                        if mset != eset {
                            emit_oracle_fail(&format!("map-content:{}", op.method()), &format!("{} : signature map is not what the operations ask for ({} entries, expected {})", here, mset.len(), eset.len()));
                        }
                        for (k, s) in ws.iter() {
                            let must = expect.get(k).map(|e| e.1 && &e.0 == s).unwrap_or(false);
                            let ok = k.len() == 32 && s.len() == 64 && PublicKey::from(arr::<32>(k)).verify(id0, &Signature::from(arr::<64>(s)));
                            if must && !ok { emit_oracle_fail("invalid-witness", &format!("{} : witness of key {} does not verify against the id", here, hex(k))); }
                        }
                    }
                }
                cur = Some(nb);
            }
        }
    }
    if oracle_only { return; }
    let out = match (outcome, cur) {
        (Some(t), _) => t,
        (None, Some(b)) => {
            let sm: Vec<(Vec<u8>, Vec<u8>)> = sig_map(&b).into_iter().collect();
            let ws = witnesses(&b.tx_bytes.0);
            let body = if ws.is_some() { body_slice(&b.tx_bytes.0).map(|x| x.to_vec()) } else { None };
            { let (a, w) = (entries(&mut t, &sm, true), entries(&mut t, &ws.unwrap_or_default(), false));
              let bd = match &body { None => "None".to_string(), Some(x) => format!("(Some {})", t.bytes_z(x)) };
              format!("Ok ({},{},{},{})", a, w, bd, t.z(&b.tx_hash.0)) }
        }
        _ => unreachable!(),
    };
    let term = format!("(({},{},{},{}),{},{})", coq_bool(era_conway), coq_bool(decodes0), t.bytes_z(&body0), t.z(&id0),
        coq_list(&coq_ops, |s| s.clone()), out);
    emit_case(tag, &t.close(&term));
}

fn random_ops(r: &mut Rng, len: usize, nkeys: u64) -> Vec<Op> {
    (0..len).map(|_| match r.below(20) {
        0..=6 => Op::S(r.below(nkeys) as usize),
        7..=9 => Op::A(r.below(nkeys) as usize),
        10..=11 => Op::B(r.below(nkeys) as usize, r.below(3)),
        12..=17 => Op::R(r.below(nkeys) as usize),
        _ => Op::Q(r.below(3)),
    }).collect()
}

fn main() {
    let args = args();
    let mut rng = Rng::new(args.seed);
    // 1. corpus (minimised past failures) first
    let dir = std::path::Path::new(&std::env::var("VERIF_DIR").unwrap_or_else(|_| ".".into())).join("corpus/C41");
    let mut files: Vec<_> = std::fs::read_dir(&dir).map(|d| d.filter_map(|e| e.ok()).map(|e| e.path()).collect()).unwrap_or_default();
    files.sort();
    for f in files {
        if f.extension().map(|e| e == "ops").unwrap_or(false) {
            for line in std::fs::read_to_string(&f).unwrap_or_default().lines() {
                if line.trim().is_empty() || line.starts_with('#') { continue; }
                if let Some(d) = Desc::parse(line) { run_case(&d, "corpus", true, args.oracle_only); }
            }
        }
    }
    // 2. deterministic boundary sequences named by the property: repeats, removal of the last /
    //    an absent signature, replace by add, every key kind
    let fixed: &[&str] = &["", "S0", "S0,S0", "S0,R0", "R0", "Q1", "S0,S1,R0,R1", "S3,S3", "A1,A1", "A1,B1:5", "B1:5,S1", "S0,A0", "A0,S0",
        "S0,S1,S0", "S0,S1,S2,S3,R2", "S0,R0,S0", "S0,Q2", "B2:1,B2:2", "S1,S0,R1,S1", "S0,S1,R0,R1,R0", "X"];
    for (j, f) in fixed.iter().enumerate() {
        if *f == "X" { continue; }
        let d = Desc { tx: rng.next() >> 16, keys: rng.next() >> 16, flag: "none".into(), ops: f.split(',').filter(|t| !t.is_empty()).map(|t| Op::parse(t).unwrap()).collect() };
        run_case(&d, if j == 0 { "trivial-empty" } else { "boundary" }, true, args.oracle_only);
    }
    // 3. random sequences, small key pool
    for i in 0..args.n {
        let shape = rng.below(10);
        let (nkeys, len, tag) = match shape {
            0..=3 => (3, rng.range(1, 6) as usize, "pool3-short"),
            4..=5 => (4, rng.range(4, 14) as usize, "pool4-long"),
            6 => (1, rng.range(2, 8) as usize, "one-key"),
            7 => (2, rng.range(2, 10) as usize, "two-keys"),
            _ => (3, rng.range(1, 5) as usize, "malformed"),
        };
        let flag = if shape >= 8 { *rng.pick(&["babbage", "truncate", "garbage"]) } else { "none" };
        let d = Desc { tx: rng.next() >> 16, keys: rng.next() >> 16, flag: flag.into(), ops: random_ops(&mut rng, len, nkeys) };
        if i < 3 { emit_sample(&d.text()); }
        run_case(&d, tag, i % 4 == 0, args.oracle_only);
    }
}
