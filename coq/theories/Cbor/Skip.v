(* CBOR core — exact transcription of minicbor 0.26.5 [Decoder::skip]
   (feature "alloc"): the loop over (nrounds, irounds, stack) with saturating
   u64 arithmetic, as written. [skip] is more lenient than a well-formedness
   check (e.g. it accepts a lone break byte, or an odd number of items in an
   indefinite map); on every well-formed item it consumes exactly the item
   (checked differentially in C03's run against [decode] and against the crate).
   Used by AnyCbor, EmptyMap, SkipCbor and Option<T>::decode (null). *)
From PV Require Import Lib.Base Cbor.Item Cbor.Enc Cbor.Dec Cbor.HeadLaws Cbor.Laws Cbor.Api.
Open Scope Z_scope.

Definition u64_max : Z := 18446744073709551615.
Definition sat_add (a b : Z) : Z := Z.min (a + b) u64_max.
Definition sat_mul2 (a : Z) : Z := Z.min (a * 2) u64_max.
Definition sat_sub1 (a : Z) : Z := Z.max (a - 1) 0.

Definition sstack : Type := list (option Z).   (* head = top = Vec::last() *)

(* while let Some(Some(0)) = stack.last() { stack.pop(); } *)
Fixpoint drop_zeros (st : sstack) : sstack :=
  match st with
  | Some k :: t => if k =? 0 then drop_zeros t else st
  | _ => st
  end.

Definition idle (n i : Z) : bool := (n =? 0) && (i =? 0).

(* the code after the [match] in the loop body; [None] = the loop's [break] *)
Definition skip_post (n i : Z) (st : sstack) : option (Z * Z * sstack) :=
  if idle n i then
    match drop_zeros st with
    | Some k :: t => Some (n, i, Some (k - 1) :: t)
    | None :: t => Some (n, i, None :: t)
    | [] => None
    end
  else Some (sat_sub1 n, i, st).

(* Some(c) arm of array / map (c already doubled for maps), c <> 0 *)
Definition open_def (n i : Z) (st : sstack) (c : Z) : Z * Z * sstack :=
  if idle n i then (n, i, Some c :: st) else (sat_add n c, i, st).

(* None arm of array / map *)
Definition open_indef (n i : Z) (st : sstack) : Z * Z * sstack :=
  if idle n i then (n, i, None :: st)
  else if n <? 2 then (n, sat_add i 1, st)
  else (0, 0, None :: Some (n - 1) :: repeat None (Z.to_nat i) ++ st).

(* the BREAK arm, after the byte was read *)
Definition on_break (n i : Z) (st : sstack) : Z * Z * sstack :=
  if idle n i then
    match st with None :: t => (n, i, t) | _ => (n, i, st) end
  else (n, sat_sub1 i, st).

Definition unit_dec (d : list Z -> dres (list Z * list Z)) (bs : list Z) : dres (unit * list Z) :=
  dbind (d bs) (fun '(_, r) => DOk (tt, r)).

(* byte / text string through bytes_iter / str_iter, all chunks consumed *)
Definition skip_string (text : bool) (b : Z) (bs r0 : list Z) : dres (list Z) :=
  if b mod 32 =? 31 then
    dbind (until_loop (unit_dec (if text then d_str else d_bytes)) (budget r0) r0) (fun '(_, r) => DOk r)
  else
    dbind (dec_head bs) (fun '(_, h, r) =>
      match h with
      | HArg _ len => dbind (take len r) (fun '(s, r') =>
                        if text && negb (utf8_valid s) then DErr else DOk r')
      | HIndef => DErr
      end).

(* every arm of the [match self.current()?] except TAGGED (which [continue]s) *)
Definition skip_token (n i : Z) (st : sstack) (b : Z) (bs r0 : list Z)
  : dres (Z * Z * sstack * list Z) :=
  if (b <=? 27) || ((32 <=? b) && (b <=? 59)) || ((224 <=? b) && (b <=? 251)) then
    dbind (dec_head bs) (fun '(_, _, r) => DOk (n, i, st, r))
  else if (64 <=? b) && (b <=? 95) then
    dbind (skip_string false b bs r0) (fun r => DOk (n, i, st, r))
  else if (96 <=? b) && (b <=? 127) then
    dbind (skip_string true b bs r0) (fun r => DOk (n, i, st, r))
  else if (128 <=? b) && (b <=? 159) then
    dbind (d_array bs) (fun '(l, r) =>
      match l with
      | Some c => if c =? 0 then DOk (n, i, st, r) else let '(n', i', st') := open_def n i st c in DOk (n', i', st', r)
      | None => let '(n', i', st') := open_indef n i st in DOk (n', i', st', r)
      end)
  else if (160 <=? b) && (b <=? 191) then
    dbind (d_map bs) (fun '(l, r) =>
      match l with
      | Some c => if c =? 0 then DOk (n, i, st, r)
                  else let '(n', i', st') := open_def n i st (sat_mul2 c) in DOk (n', i', st', r)
      | None => let '(n', i', st') := open_indef n i st in DOk (n', i', st', r)
      end)
  else if b =? 255 then
    let '(n', i', st') := on_break n i st in DOk (n', i', st', r0)
  else DErr.

Fixpoint skip_loop (fuel : nat) (n i : Z) (st : sstack) (bs : list Z) : dres (list Z) :=
  if idle n i && match st with [] => true | _ => false end then DOk bs else
  match fuel with
  | O => DErr
  | S f =>
    match bs with
    | [] => DEoi
    | b :: r0 =>
      if negb (byteb b) then DErr
      else if (192 <=? b) && (b <=? 219) then
        dbind (dec_head bs) (fun '(_, h, r) =>
          match h with HArg _ _ => skip_loop f n i st r | HIndef => DErr end)
      else
        dbind (skip_token n i st b bs r0) (fun '(n1, i1, st1, r) =>
          match skip_post n1 i1 st1 with
          | None => DOk r
          | Some (n2, i2, st2) => skip_loop f n2 i2 st2 r
          end)
    end
  end.

(* Decoder::skip: returns the remaining input *)
Definition d_skip (bs : list Z) : dres (list Z) := skip_loop (budget bs) 1 0 [] bs.

(* (consumed slice, remaining input): what AnyCbor::decode captures *)
Definition d_skip_slice (bs : list Z) : dres (list Z * list Z) :=
  dbind (d_skip bs) (fun r => DOk (firstn (length bs - length r) bs, r)).
