//! C38: each implemented ledger rule rejects transactions that break only it.
//! For every accepted fixture of pallas-validate/tests (re-signed with a fresh key where that keeps it
//! accepted, so that body changes can be re-signed too) each rule-specific mutator is applied alone,
//! and random pairs of them; the mutator knows which rule it broke. Oracle: `validate_tx` must not
//! return Ok. The CASE terms are those of C33 (the model must predict the same outcome class end to end
//! and for every rule function).
#[path = "../validate_fx.rs"]
mod vfx;
#[path = "../validate_common.rs"]
mod vc;
#[path = "../validate_mut.rs"]
mod vm;
#[path = "../validate_obs.rs"]
mod vo;
#[path = "../validate_abs.rs"]
mod va;
#[path = "../validate_certs.rs"]
mod vcert;
#[path = "../validate_mut2.rs"]
mod vm2;
use pallas_traverse::Era;
use pallas_validate::utils::MultiEraProtocolParameters as PP;
use vc::*;
use verif_harness::*;
use vfx::*;
use vo::*;

#[derive(Clone, Default)]
struct Info { size: u64, fee: u64, mem: u64, steps: u64, words: Vec<u64>, ncoll: usize, plutus: bool, resigned: bool }
type RuleMut = fn(&mut Scen, &mut Rng, &Info) -> bool;
fn shelley_plus(s: &Scen) -> bool { s.fam != Fam::Byron }
fn alonzo_plus(s: &Scen) -> bool { s.has_scripts_era() }

// ---- rule mutators; `body` = changes the transaction body (needs the re-signed base) ----
fn r_inputs_empty(s: &mut Scen, r: &mut Rng, _: &Info) -> bool { if s.fam == Fam::Byron { vm::b_ins_empty(s, r) } else { vm::ins_empty(s, r) } }
fn r_input_not_in_utxo(s: &mut Scen, r: &mut Rng, _: &Info) -> bool { if s.fam == Fam::Byron { vm::b_utxo_remove(s, r) } else { vm::utxo_remove_input(s, r) } }
fn r_collateral_not_in_utxo(s: &mut Scen, r: &mut Rng, _: &Info) -> bool {
    let Some((_, l)) = s.inlist(13) else { return false }; if l.is_empty() { return false }
    let ins = s.inputs().1;
    let cands: Vec<_> = l.iter().filter(|c| !ins.contains(c)).collect(); if cands.is_empty() { return false }
    let c = (*r.pick(&cands)).clone();
    let Some(p) = s.uentry(&c.0, c.1) else { return false }; s.utxo.remove(p); true
}
fn r_reference_not_in_utxo(s: &mut Scen, r: &mut Rng, _: &Info) -> bool { vm::ref_add_missing(s, r) }
fn r_validity_upper(s: &mut Scen, _: &mut Rng, _: &Info) -> bool {
    if !shelley_plus(s) { return false }
    let Some(ttl) = s.get(3).and_then(|v| as_u64(v)) else { return false }; if ttl == u64::MAX { return false }
    s.env.slot = ttl + 1; true
}
fn r_validity_lower(s: &mut Scen, _: &mut Rng, _: &Info) -> bool {
    if !alonzo_plus(s) { return false }
    match s.get(8).and_then(|v| as_u64(v)) { Some(v) if v > 0 => { s.env.slot = v - 1; true } _ => false }
}
fn r_validity_lower_body(s: &mut Scen, _: &mut Rng, _: &Info) -> bool {
    if !alonzo_plus(s) || s.env.slot == u64::MAX { return false }
    s.put(8, c_uint(s.env.slot + 1)); true
}
fn r_ttl_missing(s: &mut Scen, _: &mut Rng, _: &Info) -> bool {
    if !matches!(s.fam, Fam::AC(Era::Shelley) | Fam::AC(Era::Allegra) | Fam::AC(Era::Mary)) || s.get(3).is_none() { return false }
    s.del(3); true
}
fn r_min_fee(s: &mut Scen, _: &mut Rng, i: &Info) -> bool {
    if i.fee >= u32::MAX as u64 { return false }
    match &mut s.env.pp {
        PP::Byron(p) => {
            // redeem-only transactions pay no fee: the rule does not apply to them
            let all_redeem = s.utxo.iter().all(|e| arr_items(&e.out).and_then(|it| arr_items(&it[0])).and_then(|ad| as_bytes(untag(&ad[0]).1))
                .and_then(|pl| arr_items(&pl)).map(|pi| pi.len() == 3 && as_u64(&pi[2]) == Some(2)).unwrap_or(false));
            if all_redeem { return false }
            p.summand = 1 << 60; true }
        PP::Shelley(p) => { p.minfee_a = 0; p.minfee_b = i.fee as u32 + 1; true }
        PP::Alonzo(p) => { p.minfee_a = 0; p.minfee_b = i.fee as u32 + 1; true }
        PP::Babbage(p) => { p.minfee_a = 0; p.minfee_b = i.fee as u32 + 1; true }
        PP::Conway(p) => { p.minfee_a = 0; p.minfee_b = i.fee as u32 + 1; true }
        _ => false,
    }
}
fn r_min_fee_per_byte(s: &mut Scen, _: &mut Rng, i: &Info) -> bool {
    // minimum = a * size with the smallest a that exceeds the fee
    if i.size == 0 { return false }
    let a = i.fee / i.size + 1; if a > u32::MAX as u64 { return false }
    match &mut s.env.pp {
        PP::Shelley(p) => { p.minfee_a = a as u32; p.minfee_b = 0; true }
        PP::Alonzo(p) => { p.minfee_a = a as u32; p.minfee_b = 0; true }
        PP::Babbage(p) => { p.minfee_a = a as u32; p.minfee_b = 0; true }
        PP::Conway(p) => { p.minfee_a = a as u32; p.minfee_b = 0; true }
        _ => false,
    }
}
fn r_min_ada(s: &mut Scen, _: &mut Rng, _: &Info) -> bool {
    match &mut s.env.pp {
        PP::Shelley(p) => { p.min_utxo_value = 1 << 50; true }
        PP::Alonzo(p) => { p.ada_per_utxo_byte = 1 << 40; true }
        PP::Babbage(p) => { p.ada_per_utxo_byte = 1 << 40; true }
        PP::Conway(p) => { p.ada_per_utxo_byte = 1 << 40; true }
        _ => false,
    }
}
fn r_min_ada_output(s: &mut Scen, r: &mut Rng, _: &Info) -> bool {
    // an extra output of 1 lovelace, paid for by the first output (balance kept)
    if !shelley_plus(s) { return false }
    let mut o = s.outputs(); if o.is_empty() || o[0].coin < 2 { return false }
    let mut n = o[0].clone(); n.coin = 1; n.assets = None; n.datum = None; n.sref = None; o[0].coin -= 1; o.push(n);
    let _ = r; s.set_outputs(&o); true
}
fn r_byron_zero_output(s: &mut Scen, _: &mut Rng, _: &Info) -> bool {
    let Some(t) = s.btx.as_mut() else { return false };
    let mut o = t.outputs.clone().to_vec(); if o.is_empty() { return false }
    let mut n = o[0].clone(); n.amount = 0; o.push(n);
    t.outputs = pallas_codec::utils::MaybeIndefArray::Def(o); true
}
fn r_byron_outs_empty(s: &mut Scen, r: &mut Rng, _: &Info) -> bool { vm::b_outs_empty(s, r) }
fn r_value_size(s: &mut Scen, _: &mut Rng, _: &Info) -> bool {
    match &mut s.env.pp { PP::Alonzo(p) => { p.max_value_size = 0; true } PP::Babbage(p) => { p.max_value_size = 0; true } PP::Conway(p) => { p.max_value_size = 0; true } _ => false }
}
fn r_network_outputs(s: &mut Scen, _: &mut Rng, _: &Info) -> bool { if !shelley_plus(s) { return false } s.env.netid ^= 1; true }
fn r_network_tx_field(s: &mut Scen, _: &mut Rng, _: &Info) -> bool { if !alonzo_plus(s) { return false } s.put(15, c_uint((s.env.netid ^ 1) as u64 & 1)); (s.env.netid ^ 1) <= 1 }
fn r_tx_size(s: &mut Scen, _: &mut Rng, i: &Info) -> bool {
    if i.size == 0 { return false }
    match &mut s.env.pp {
        PP::Byron(p) => { p.max_tx_size = i.size - 1; true } PP::Shelley(p) => { p.max_transaction_size = i.size as u32 - 1; true }
        PP::Alonzo(p) => { p.max_transaction_size = i.size as u32 - 1; true } PP::Babbage(p) => { p.max_transaction_size = i.size as u32 - 1; true }
        PP::Conway(p) => { p.max_transaction_size = i.size as u32 - 1; true } _ => false,
    }
}
fn r_ex_units(s: &mut Scen, _: &mut Rng, i: &Info) -> bool {
    if i.mem == 0 { return false }
    match &mut s.env.pp { PP::Alonzo(p) => { p.max_tx_ex_units.mem = i.mem - 1; true } PP::Babbage(p) => { p.max_tx_ex_units.mem = i.mem - 1; true } PP::Conway(p) => { p.max_tx_ex_units.mem = i.mem - 1; true } _ => false }
}
fn r_collateral_count(s: &mut Scen, _: &mut Rng, i: &Info) -> bool {
    if !i.plutus || i.ncoll == 0 { return false }
    let n = i.ncoll as u32 - 1;
    match &mut s.env.pp { PP::Alonzo(p) => { p.max_collateral_inputs = n; true } PP::Babbage(p) => { p.max_collateral_inputs = n; true } PP::Conway(p) => { p.max_collateral_inputs = n; true } _ => false }
}
fn r_collateral_missing(s: &mut Scen, _: &mut Rng, i: &Info) -> bool { if !i.plutus || s.get(13).is_none() { return false } s.del(13); s.del(16); s.del(17); true }
fn coll_entry(s: &Scen, r: &mut Rng) -> Option<usize> { let (_, l) = s.inlist(13)?; if l.is_empty() { return None } let c = r.pick(&l).clone(); s.uentry(&c.0, c.1) }
fn r_collateral_script_locked(s: &mut Scen, r: &mut Rng, i: &Info) -> bool {
    if !i.plutus { return false }
    let Some(p) = coll_entry(s, r) else { return false }; let Some(mut o) = parse_out(&s.utxo[p].out) else { return false };
    if o.addr.is_empty() || (o.addr[0] >> 4) & 1 == 1 { return false }
    // only when the entry is not also a spent input (that would break the input's own witness rule too)
    let (h, ix) = (s.utxo[p].hash.clone(), s.utxo[p].ix); if s.inputs().1.contains(&(h, ix)) { return false }
    o.addr[0] |= 0x10; s.utxo[p].out = enc_out(&o); true
}
fn r_collateral_non_ada(s: &mut Scen, r: &mut Rng, i: &Info) -> bool {
    if !i.plutus { return false }
    let Some(p) = coll_entry(s, r) else { return false }; let Some(mut o) = parse_out(&s.utxo[p].out) else { return false };
    let (h, ix) = (s.utxo[p].hash.clone(), s.utxo[p].ix); if s.inputs().1.contains(&(h, ix)) { return false }
    o.assets = Some(vec![(r.bytes(28), vec![(r.bytes(3), 7)])]); s.utxo[p].out = enc_out(&o); true
}
fn r_collateral_amount(s: &mut Scen, _: &mut Rng, i: &Info) -> bool {
    if !i.plutus || i.fee == 0 { return false }
    match &mut s.env.pp { PP::Alonzo(p) => { p.collateral_percentage = 1 << 30; true } PP::Babbage(p) => { p.collateral_percentage = 1 << 30; true } PP::Conway(p) => { p.collateral_percentage = 1 << 30; true } _ => false }
}
fn r_collateral_annotation(s: &mut Scen, _: &mut Rng, i: &Info) -> bool {
    if !i.plutus || !s.is_post_alonzo() { return false }
    let Some(v) = s.get(17).and_then(|v| as_u64(v)) else { return false };
    s.put(17, c_uint(v + 1)); true
}
fn r_mint_unwitnessed(s: &mut Scen, r: &mut Rng, _: &Info) -> bool {
    if !shelley_plus(s) || matches!(s.fam, Fam::AC(Era::Shelley) | Fam::AC(Era::Allegra)) { return false }
    let (p, n) = (r.bytes(28), r.bytes(4));
    let mut m = s.get(9).and_then(|m| parse_assets_i(m)).unwrap_or_default();
    m.push((p.clone(), vec![(n.clone(), 5)])); m.sort();
    s.put(9, enc_assets_i(&m));
    let mut o = s.outputs(); if o.is_empty() { return false }
    let a = o[0].assets.get_or_insert_with(Vec::new); a.push((p, vec![(n, 5)])); a.sort();
    s.set_outputs(&o); true
}
fn r_script_witness_missing(s: &mut Scen, r: &mut Rng, _: &Info) -> bool {
    if !shelley_plus(s) { return false }
    let ks: Vec<u64> = s.wits.iter().filter(|e| matches!(e.0, 1 | 3 | 6 | 7) && arr_items(untag(&e.1).1).map(|l| !l.is_empty()).unwrap_or(false)).map(|e| e.0).collect();
    if ks.is_empty() { return false }
    let k = *r.pick(&ks); s.wdel(k); true
}
fn r_extraneous_script(s: &mut Scen, r: &mut Rng, _: &Info) -> bool { if !alonzo_plus(s) { return false } vm::wit_add_script(s, r) }
fn r_datum_missing(s: &mut Scen, _: &mut Rng, _: &Info) -> bool {
    match s.wget(4).and_then(|raw| arr_items(untag(raw).1)) { Some(l) if !l.is_empty() => { s.wdel(4); true } _ => false }
}
fn r_extraneous_datum(s: &mut Scen, r: &mut Rng, _: &Info) -> bool { vm::wit_add_datum(s, r) }
fn redeemer_list(s: &Scen) -> Option<Vec<Vec<u8>>> { s.wget(5).and_then(|raw| arr_items(raw)) }
fn r_redeemer_missing(s: &mut Scen, r: &mut Rng, _: &Info) -> bool {
    let Some(mut l) = redeemer_list(s) else { return false }; if l.is_empty() { return false }
    let k = r.below(l.len() as u64) as usize; l.remove(k); s.wput(5, c_array(&l)); true
}
fn r_redeemer_extra(s: &mut Scen, _: &mut Rng, _: &Info) -> bool {
    let Some(mut l) = redeemer_list(s) else { return false };
    l.push(c_array(&[c_uint(0), c_uint(77), c_uint(0), c_array(&[c_uint(1), c_uint(1)])])); s.wput(5, c_array(&l)); true
}
fn r_aux_data_changed(s: &mut Scen, r: &mut Rng, _: &Info) -> bool {
    if !shelley_plus(s) || s.aux.is_none() || s.get(7).is_none() { return false }
    s.aux = Some(c_map(&[(c_uint(r.below(100)), c_uint(r.below(100)))])); true
}
fn r_aux_data_dropped(s: &mut Scen, _: &mut Rng, _: &Info) -> bool { if !shelley_plus(s) || s.aux.is_none() || s.get(7).is_none() { return false } s.aux = None; true }
fn r_aux_hash_missing(s: &mut Scen, _: &mut Rng, _: &Info) -> bool { if !shelley_plus(s) || s.aux.is_none() || s.get(7).is_none() { return false } s.del(7); true }
fn r_aux_hash_without_data(s: &mut Scen, r: &mut Rng, _: &Info) -> bool { if !shelley_plus(s) || s.aux.is_some() || s.get(7).is_some() { return false } s.put(7, c_bytes(&r.bytes(32))); true }
fn r_script_integrity(s: &mut Scen, r: &mut Rng, _: &Info) -> bool {
    let Some(mut h) = s.get(11).and_then(|h| as_bytes(h)) else { return false }; if h.is_empty() { return false }
    let k = r.below(h.len() as u64) as usize; h[k] ^= 1 << r.below(8); s.put(11, c_bytes(&h)); true
}
fn r_script_integrity_missing(s: &mut Scen, _: &mut Rng, _: &Info) -> bool { if s.get(11).is_none() { return false } s.del(11); true }
fn r_language_cost_model(s: &mut Scen, _: &mut Rng, i: &Info) -> bool {
    if !i.plutus { return false }
    match &mut s.env.pp { PP::Conway(p) => { p.cost_models_for_script_languages.plutus_v1 = None; p.cost_models_for_script_languages.plutus_v2 = None; p.cost_models_for_script_languages.plutus_v3 = None; true } _ => false }
}
fn r_language_before_v2(s: &mut Scen, _: &mut Rng, _: &Info) -> bool {
    // Babbage: a PlutusV2 transaction in a block before V2 exists on that network; the validity interval is dropped
    // from consideration by removing nothing: only used when the tx has no lower/upper bound
    if s.fam != Fam::Babbage || s.wget(6).is_none() || s.get(3).is_some() || s.get(8).is_some() { return false }
    s.env.slot = 1000; true
}
fn r_byron_witness_missing(s: &mut Scen, r: &mut Rng, _: &Info) -> bool { vm::b_wit_remove(s, r) }

/// (rule, changes the body, mutator)
fn rules() -> Vec<(&'static str, bool, RuleMut)> {
    vec![
        ("inputs_nonempty", true, r_inputs_empty as RuleMut), ("inputs_in_utxo", false, r_input_not_in_utxo),
        ("collateral_in_utxo", false, r_collateral_not_in_utxo), ("reference_in_utxo", true, r_reference_not_in_utxo),
        ("validity_upper", false, r_validity_upper), ("validity_lower", false, r_validity_lower), ("validity_lower/body", true, r_validity_lower_body),
        ("ttl_present", true, r_ttl_missing), ("min_fee", false, r_min_fee), ("min_fee/per_byte", false, r_min_fee_per_byte),
        ("min_ada", false, r_min_ada), ("min_ada/output", true, r_min_ada_output), ("byron_output_lovelace", true, r_byron_zero_output),
        ("byron_outputs_nonempty", true, r_byron_outs_empty), ("value_size", false, r_value_size),
        ("network_id/outputs", false, r_network_outputs), ("network_id/tx_field", true, r_network_tx_field), ("tx_size", false, r_tx_size),
        ("ex_units", false, r_ex_units), ("collateral_count", false, r_collateral_count), ("collateral_present", true, r_collateral_missing),
        ("collateral_kind", false, r_collateral_script_locked), ("collateral_ada_only", false, r_collateral_non_ada),
        ("collateral_amount", false, r_collateral_amount), ("collateral_annotation", true, r_collateral_annotation),
        ("mint_witnessed", true, r_mint_unwitnessed), ("script_witnesses", false, r_script_witness_missing),
        ("no_extraneous_script", false, r_extraneous_script), ("datum_witnesses", false, r_datum_missing), ("no_extraneous_datum", false, r_extraneous_datum),
        ("redeemer_coverage/missing", false, r_redeemer_missing), ("redeemer_coverage/extra", false, r_redeemer_extra),
        ("aux_data_hash/data_changed", false, r_aux_data_changed), ("aux_data_hash/data_dropped", false, r_aux_data_dropped),
        ("aux_data_hash/hash_missing", true, r_aux_hash_missing), ("aux_data_hash/hash_without_data", true, r_aux_hash_without_data),
        ("script_integrity_hash", true, r_script_integrity), ("script_integrity_hash/missing", true, r_script_integrity_missing),
        ("languages/cost_model", false, r_language_cost_model), ("languages/before_v2", false, r_language_before_v2),
        ("byron_witness", false, r_byron_witness_missing),
    ]
}

/// Spend a second copy of a script-locked entry (new transaction id sorting after every other input, so the
/// existing redeemer pointers keep their indices); its value goes to the first output. The redeemer list
/// gets a second Spend entry: for the new input (`dup` = false, a valid two-script-input transaction) or a
/// DUPLICATE of the existing pointer (`dup` = true: right length, one needed pointer missing).
fn two_script_inputs(s: &mut Scen, dup: bool) -> bool {
    if !s.has_scripts_era() { return false }
    let (tagged, mut ins) = s.inputs();
    let mut sorted = ins.clone(); sorted.sort();
    // a script-locked spent entry with a Spend redeemer in list form
    let Some(raw) = s.wget(5).cloned() else { return false };
    let Some(reds) = arr_items(&raw) else { return false };   // map form (Conway) cannot hold a duplicate key
    let mut found = None;
    for (h, ix) in &ins {
        let Some(p) = s.uentry(h, *ix) else { continue };
        let Some(o) = parse_out(&s.utxo[p].out) else { continue };
        if o.addr.is_empty() || (o.addr[0] >> 4) & 1 == 0 || (o.addr[0] >> 4) >= 8 { continue }
        let idx = sorted.iter().position(|x| x == &(h.clone(), *ix)).unwrap() as u64;
        if let Some(rp) = reds.iter().position(|rd| arr_items(rd).map(|p| p.len() == 4 && as_u64(&p[0]) == Some(0) && as_u64(&p[1]) == Some(idx)).unwrap_or(false)) { found = Some((p, o, idx, rp)); break }
    }
    let Some((p, o, _idx, rp)) = found else { return false };
    let mut e = s.utxo[p].clone(); e.hash = vec![0xff; 32]; e.ix = 0;
    if s.uentry(&e.hash, 0).is_some() { return false }
    s.utxo.push(e);
    ins.push((vec![0xff; 32], 0)); s.set_inputs(tagged, &ins);
    let new_idx = ins.len() as u64 - 1;
    // value of the copy goes to the first output
    let mut outs = s.outputs(); if outs.is_empty() { return false }
    outs[0].coin = outs[0].coin.saturating_add(o.coin);
    if let Some(a) = &o.assets {
        let dst = outs[0].assets.get_or_insert_with(Vec::new);
        for (pol, names) in a { for (n, q) in names {
            if let Some(pe) = dst.iter_mut().find(|x| &x.0 == pol) { if let Some(ne) = pe.1.iter_mut().find(|x| &x.0 == n) { ne.1 += q } else { pe.1.push((n.clone(), *q)); pe.1.sort() } }
            else { dst.push((pol.clone(), vec![(n.clone(), *q)])); dst.sort() }
        } }
    }
    s.set_outputs(&outs);
    let mut l = reds.clone();
    let mut parts = arr_items(&reds[rp]).unwrap();
    if !dup { parts[1] = c_uint(new_idx) }
    l.push(c_array(&parts));
    s.wput(5, c_array(&l)); true
}
/// recompute the script-integrity hash of the scenario with the validator's exported functions
fn fix_integrity_hash(s: &mut Scen) -> bool {
    if s.get(11).is_none() { return false }
    let h = materialize(s, |tx, _m, utxos, env| va::sdh_expected_of(&tx, utxos, env));
    match h { Some(v) if !v.is_empty() => { s.put(11, c_bytes(&v[0])); true } _ => false }
}
/// a body-changing mutator changes the transaction size: the size-dependent rules (minimum fee, maximum size)
/// are taken out of the way so that only the targeted rule is broken
fn relax_size_fee(s: &mut Scen) {
    match &mut s.env.pp {
        PP::Shelley(p) => { p.minfee_a = 0; p.minfee_b = 0; p.max_transaction_size = u32::MAX }
        PP::Alonzo(p) => { p.minfee_a = 0; p.minfee_b = 0; p.max_transaction_size = u32::MAX }
        PP::Babbage(p) => { p.minfee_a = 0; p.minfee_b = 0; p.max_transaction_size = u32::MAX }
        PP::Conway(p) => { p.minfee_a = 0; p.minfee_b = 0; p.max_transaction_size = u32::MAX }
        _ => {}
    }
}
// ---------------------------------------------------------------- exact boundaries of the numeric rules
macro_rules! pp_post { ($s:expr, |$p:ident| $body:block) => { match &mut $s.env.pp { PP::Alonzo($p) => $body, PP::Babbage($p) => $body, PP::Conway($p) => $body, _ => {} } } }
fn set_fee_params(s: &mut Scen, a: u32, b: u32) {
    match &mut s.env.pp { PP::Shelley(p) => { p.minfee_a = a; p.minfee_b = b } PP::Alonzo(p) => { p.minfee_a = a; p.minfee_b = b } PP::Babbage(p) => { p.minfee_a = a; p.minfee_b = b } PP::Conway(p) => { p.minfee_a = a; p.minfee_b = b } _ => {} }
}
fn set_max_size(s: &mut Scen, v: u32) {
    match &mut s.env.pp { PP::Shelley(p) => p.max_transaction_size = v, PP::Alonzo(p) => p.max_transaction_size = v, PP::Babbage(p) => p.max_transaction_size = v, PP::Conway(p) => p.max_transaction_size = v, _ => {} }
}
fn coin_words(c: u64) -> u64 { if c < (1u64 << 32) { 1 } else { 2 } }
/// (label, scenario, must be rejected, body changed): each numeric rule exactly at its limit (accepted) and one past it (rejected)
fn boundary_cases(b: &Scen, i: &Info, r: &mut Rng) -> Vec<(String, Scen, bool, bool)> {
    let mut out: Vec<(String, Scen, bool, bool)> = vec![];
    if b.fam == Fam::Byron { return out }
    let mut add = |label: &str, s: Scen, reject: bool, body: bool| out.push((format!("{}/{}", label, if reject { "one-past-the-limit" } else { "at-the-limit" }), s, reject, body));
    // minimum fee: constant part and per-byte part
    if i.fee < u32::MAX as u64 - 1 {
        for (d, rej) in [(1u64, true), (0, false)] {
            let mut s = clone_scen(b); set_fee_params(&mut s, 0, (i.fee + d) as u32); add("min_fee", s, rej, false);
            if i.fee + d >= i.size && i.size > 0 { let mut s = clone_scen(b); set_fee_params(&mut s, 1, (i.fee + d - i.size) as u32); add("min_fee/per_byte", s, rej, false); }
        }
    }
    // maximum transaction size
    if i.size > 0 { for (v, rej) in [(i.size - 1, true), (i.size, false)] { let mut s = clone_scen(b); set_max_size(&mut s, v as u32); add("tx_size", s, rej, false); } }
    // validity interval
    if let Some(ttl) = b.get(3).and_then(|v| as_u64(v)) { if ttl < u64::MAX { for (v, rej) in [(ttl + 1, true), (ttl, false)] {
        let mut s = clone_scen(b); s.env.slot = v; if let Some(vs) = b.get(8).and_then(|x| as_u64(x)) { if vs > v { continue } } add("validity_upper", s, rej, false); } } }
    if b.has_scripts_era() { if let Some(vs) = b.get(8).and_then(|v| as_u64(v)) { if vs > 0 { for (v, rej) in [(vs - 1, true), (vs, false)] {
        let mut s = clone_scen(b); s.env.slot = v; add("validity_lower", s, rej, false); } } } }
    if b.has_scripts_era() {
        // execution units
        if i.mem > 0 { for (v, rej) in [(i.mem - 1, true), (i.mem, false)] { let mut s = clone_scen(b); pp_post!(s, |p| { p.max_tx_ex_units.mem = v }); add("ex_units/mem", s, rej, false); } }
        if i.steps > 0 { for (v, rej) in [(i.steps - 1, true), (i.steps, false)] { let mut s = clone_scen(b); pp_post!(s, |p| { p.max_tx_ex_units.steps = v }); add("ex_units/steps", s, rej, false); } }
        // value size
        if let Some(mw) = i.words.iter().max() { if *mw > 0 && *mw <= u32::MAX as u64 { for (v, rej) in [(*mw - 1, true), (*mw, false)] { let mut s = clone_scen(b); pp_post!(s, |p| { p.max_value_size = v as u32 }); add("value_size", s, rej, false); } } }
        // number of collateral inputs
        if i.plutus && i.ncoll > 0 { for (v, rej) in [(i.ncoll as u32 - 1, true), (i.ncoll as u32, false)] { let mut s = clone_scen(b); pp_post!(s, |p| { p.max_collateral_inputs = v }); add("collateral_count", s, rej, false); } }
    }
    // minimum ada: a new output paying exactly the minimum / one lovelace less, taken from the first output
    if i.resigned {
        let per: Option<(u64, u64)> = match &b.env.pp { PP::Shelley(p) => Some((p.min_utxo_value, 0)), PP::Alonzo(p) => Some((p.ada_per_utxo_byte, 27)), PP::Babbage(p) => Some((p.ada_per_utxo_byte, 160)), PP::Conway(p) => Some((p.ada_per_utxo_byte, 160)), _ => None };
        if let Some((a, k)) = per {
            let min = if k == 0 { a } else { let m1 = a.saturating_mul(1 + k); if coin_words(m1) == 1 { m1 } else { a.saturating_mul(2 + k) } };
            let outs = b.outputs();
            if min > 1 && !outs.is_empty() && outs[0].coin > min.saturating_mul(3) {
                for (c, rej) in [(min - 1, true), (min, false)] {
                    let mut s = clone_scen(b); let mut o = s.outputs();
                    let mut n = o[0].clone(); n.coin = c; n.assets = None; n.datum = None; n.sref = None; n.legacy = !s.is_post_alonzo(); o[0].coin -= c; o.push(n);
                    s.set_outputs(&o); add("min_ada", s, rej, true);
                }
            }
        }
    }
    // collateral amount: balance = ceil(fee * pct / 100) accepted, one lovelace less rejected
    if i.plutus && b.has_scripts_era() && i.fee > 0 {
        if let Some((_, coll)) = b.inlist(13) {
            let ins = b.inputs().1;
            if !coll.is_empty() && coll.iter().all(|c| !ins.contains(c)) {
                let ret = b.get(16).and_then(|o| parse_out(o)).map(|o| o.coin).unwrap_or(0);
                let entries: Vec<usize> = coll.iter().filter_map(|c| b.uentry(&c.0, c.1)).collect();
                if entries.len() == coll.len() {
                    for pct in [100u64, 125, 150, 151, 155, 199] {
                        let prod = i.fee as u128 * pct as u128;
                        if prod % 100 == 0 && pct != 100 { continue }
                        let need = ((prod + 99) / 100) as u64;
                        for (paid, rej) in [(need.wrapping_sub(1), true), (need, false)] {
                            let mut s = clone_scen(b);
                            pp_post!(s, |p| { p.collateral_percentage = pct as u32 });
                            let alonzo = matches!(s.fam, Fam::AC(_));
                            // Alonzo tests every entry on its own; Babbage/Conway the balance (inputs - return)
                            let mut ok = true;
                            for (n, &e) in entries.iter().enumerate() {
                                let Some(mut o) = parse_out(&s.utxo[e].out) else { ok = false; break };
                                o.coin = if alonzo { paid } else if n == 0 { match paid.checked_add(ret) { Some(v) => v, None => { ok = false; break } } } else { 0 };
                                s.utxo[e].out = enc_out(&o);
                            }
                            if !ok { continue }
                            let mut body = false;
                            if !alonzo && s.get(17).is_some() { if !i.resigned { continue } s.put(17, c_uint(paid)); body = true }
                            add(&format!("collateral_amount(pct{})", pct), s, rej, body);
                        }
                    }
                }
            }
        }
    }
    let _ = r;
    out
}
fn family(label: &str) -> &str {
    match label { "no_extraneous_script" | "script_witnesses" | "mint_witnessed" => "scripts", "no_extraneous_datum" | "datum_witnesses" => "datums",
                  "validity_upper" | "validity_lower" | "ttl_present" => "validity", "collateral_present" | "collateral_in_utxo" => "collateral_in", _ => label.split('/').next().unwrap_or(label) }
}
fn info_of(s: &Scen, resigned: bool) -> Option<(Info, Oc)> {
    materialize(s, |tx, metx, utxos, env| {
        let o = observe(&tx, metx, utxos, env, &s.cs, None);
        let mem: u64 = metx.redeemers().iter().map(|r| r.ex_units().mem).fold(0u64, |a, b| a.saturating_add(b));
        // "phase-2 scripts run": decided from the transaction itself, independently of the validator's own
        // presence_of_plutus_scripts - a non-empty Plutus list in the witness set, or (reference scripts)
        // redeemers in the witness set
        let nonempty = |k: u64| s.wget(k).and_then(|raw| arr_items(untag(raw).1)).map(|l| !l.is_empty()).unwrap_or(false);
        let plutus = nonempty(3) || nonempty(6) || nonempty(7) || (s.is_post_alonzo() && s.wget(5).is_some());
        let steps: u64 = metx.redeemers().iter().map(|r| r.ex_units().steps).fold(0u64, |a, b| a.saturating_add(b));
        let words = match guard_total(|| va::output_words(metx)) { Out::Ok(w) => w, _ => vec![] };
        (Info { size: o.size, fee: metx.fee().unwrap_or(0), mem, steps, words, ncoll: metx.collateral().len(), plutus, resigned }, o.e2e)
    })
}

fn main() {
    let args = args();
    install_panic_hook();
    let mut rng = Rng::new(args.seed);
    let mut base: Vec<(&'static str, Scen, Info)> = vec![];
    let mut n_resigned = 0u64;
    for (name, fx) in all_fixtures() {
        fx(&mut |tx, utxos, env, cs| {
            let s = lift(tx, utxos, env, cs);
            // prefer the re-signed variant when it is still accepted
            let mut s2 = clone_scen(&s);
            let mut r2 = Rng::new(0xC38);
            if vm::resign(&mut s2, &mut r2) {
                if let Some((i, Oc::Ok)) = info_of(&s2, true) { base.push((name, s2, i)); return }
            }
            if let Some((i, Oc::Ok)) = info_of(&s, false) { base.push((name, s, i)) }
        });
    }
    for b in &base { if b.2.resigned { n_resigned += 1 } }
    emit_stat("accepted_bases", base.len() as u64);
    emit_stat("accepted_bases_resignable", n_resigned);
    let rl = rules();
    let mut applied: std::collections::BTreeMap<String, u64> = Default::default();
    let mut n_cases = 0u64; let mut n_rejected = 0u64;
    let mut run = |s: &Scen, fname: &str, label: &str, rng: &mut Rng, must_reject: bool| {
        let r = materialize(s, |tx, metx, utxos, env| {
            let o = observe(&tx, metx, utxos, env, &s.cs, None);
            let term = if args.oracle_only { String::new() } else {
                let bw: Vec<pallas_primitives::byron::Twit> = if let AnyTx::Byron(p) = &tx { p.witness.iter().cloned().collect() } else { vec![] };
                match guard_total(|| format!("(true,{},{},{},{},{})", va::tx_term(&tx, metx, utxos, env, &o, &s.cs, s.counts), va::utxo_term(utxos, &bw), va::env_term(env), o.e2e.coq(), coq_list(&o.checks, |c| c.1.coq()))) {
                    Out::Ok(t) => t,
                    Out::Panic(m) => { emit_oracle_fail(&format!("panic:{}:abstraction-helper:{}", fam_name(&tx), last_site()), &format!("panic={} {}", m, scen_text(s, fname))); String::new() }
                    Out::Err(_) => String::new(),
                }
            };
            (fam_name(&tx), o, term)
        });
        let Some((fam, o, term)) = r else { return };
        n_cases += 1;
        if must_reject {
            if o.e2e == Oc::Ok {
                // one class has a single key: Conway transactions whose Plutus scripts are all reference scripts
                // (no Plutus list in the witness set) with only collateral rules broken
                let nonempty = |k: u64| s.wget(k).and_then(|raw| arr_items(untag(raw).1)).map(|l| !l.is_empty()).unwrap_or(false);
                let only_coll = label.trim_start_matches("pair(").trim_end_matches(')').split('+').all(|l| l.starts_with("collateral"));
                let key = if fam == "conway" && only_coll && !(nonempty(3) || nonempty(6) || nonempty(7)) { "not-rejected:conway:collateral@reference-scripts-only".to_string() }
                          else { format!("not-rejected:{}:{}", fam, label) };
                emit_oracle_fail(&key, &format!("rule-breaking mutant accepted: rule={} {}", label, scen_text(s, fname)));
            } else { n_rejected += 1 }
            if let Oc::Panic(m) = &o.e2e { emit_oracle_fail(&format!("panic:{}:{}", fam, label), &format!("panic={} {}", m, scen_text(s, fname))); }
        }
        if !args.oracle_only && !term.is_empty() { emit_case(&format!("{}{}:{}", if must_reject { "" } else { "trivial-" }, fam, label), &term) }
        let _ = rng;
    };
    // the accepted bases themselves
    for (name, s, _) in &base { run(s, name, "accepted-base", &mut rng, false) }
    // every rule mutator alone on every base
    for (name, b, info) in &base {
        for (rule, body, m) in &rl {
            if *body && !info.resigned && b.fam != Fam::Byron { continue }
            let mut s = clone_scen(b);
            if !m(&mut s, &mut rng, info) { continue }
            if *body && b.fam != Fam::Byron { relax_size_fee(&mut s); vm::resign(&mut s, &mut rng); }
            *applied.entry(rule.to_string()).or_insert(0) += 1;
            run(&s, name, rule, &mut rng, true);
        }
    }
    // two script inputs: the valid variant is a further accepted base, the duplicate-pointer variant must be rejected
    let mut n_two = 0u64;
    for (name, b, info) in &base {
        if !info.resigned { continue }
        for dup in [false, true] {
            let mut s = clone_scen(b);
            if !two_script_inputs(&mut s, dup) { continue }
            fix_integrity_hash(&mut s);
            relax_size_fee(&mut s);
            vm::resign(&mut s, &mut rng);
            if !dup {
                // only a positive control when it is in fact accepted
                if let Some((_, Oc::Ok)) = info_of(&s, true) { n_two += 1; run(&s, name, "two-script-inputs-accepted", &mut rng, false) }
            } else {
                *applied.entry("redeemer_coverage/duplicate_pointer".to_string()).or_insert(0) += 1;
                run(&s, name, "redeemer_coverage/duplicate_pointer", &mut rng, true);
            }
        }
    }
    emit_stat("two_script_input_bases_accepted", n_two);
    // every numeric rule exactly at its limit (control: must still be accepted) and one past it (must be rejected)
    let (mut n_ctl, mut n_ctl_ok) = (0u64, 0u64);
    for (name, b, info) in &base {
        for (label, mut s, reject, body) in boundary_cases(b, info, &mut rng) {
            if body { relax_size_fee(&mut s); vm::resign(&mut s, &mut rng); }
            if reject { *applied.entry(label.split('/').next().unwrap_or("").split('(').next().unwrap_or("").to_string() + "/boundary").or_insert(0) += 1; run(&s, name, &label, &mut rng, true) }
            else {
                n_ctl += 1;
                match info_of(&s, info.resigned) { Some((_, Oc::Ok)) => { n_ctl_ok += 1; run(&s, name, &label, &mut rng, false) }
                    Some((_, oc)) => emit_sample(&format!("control not accepted: {} on {} -> {:?}", label, name, oc)), None => {} }
            }
        }
    }
    emit_stat("boundary_controls", n_ctl);
    emit_stat("boundary_controls_accepted", n_ctl_ok);
    // random pairs (mutators calibrated on the transaction - size, fee, unit sums, collateral count - go last and
    // are calibrated on the transaction as the first mutator left it)
    let calibrated = |l: &str| matches!(l, "tx_size" | "min_fee" | "min_fee/per_byte" | "ex_units" | "collateral_count");
    for _ in 0..args.n {
        let k = rng.below(base.len() as u64) as usize; let (name, b, info) = &base[k];
        let mut picks: Vec<&(&'static str, bool, RuleMut)> = vec![]; let mut tries = 0;
        while picks.len() < 2 && tries < 30 {
            tries += 1;
            let cand = rng.pick(&rl);
            if cand.1 && !info.resigned && b.fam != Fam::Byron { continue }
            if picks.iter().any(|p| family(p.0) == family(cand.0)) { continue }   // two mutators of one rule family may cancel
            picks.push(cand);
        }
        if picks.len() < 2 { continue }
        picks.sort_by_key(|p| calibrated(p.0));
        let mut s = clone_scen(b); let mut body = false; let mut ok = true; let mut cur = info.clone();
        for (n, p) in picks.iter().enumerate() {
            if n == 1 {
                if body && b.fam != Fam::Byron { vm::resign(&mut s, &mut rng); }
                match info_of(&s, info.resigned) { Some((i2, _)) => cur = i2, None => { ok = false; break } }
            }
            if !(p.2)(&mut s, &mut rng, &cur) { ok = false; break }
            if p.1 && b.fam != Fam::Byron { relax_size_fee(&mut s) }
            body |= p.1;
        }
        if !ok { continue }
        if body && b.fam != Fam::Byron { vm::resign(&mut s, &mut rng); }
        let label = format!("pair({}+{})", picks[0].0, picks[1].0);
        run(&s, name, &label, &mut rng, true);
    }
    for (k, v) in &applied { emit_stat(&format!("rule_mutants_{}", k), *v) }
    emit_stat("cases_run", n_cases);
    emit_stat("mutants_rejected", n_rejected);
}
