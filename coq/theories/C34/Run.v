(* C34 correspondence.
   case = (kind, era, ins, outs, fee, mint, extra, observed)
   era: 0 Shelley-MA, 1 Alonzo, 2 Babbage, 3 Conway, 4 Byron
   kind 0  check_preservation_of_value through the hook; observed: 0 Ok, 1 PreservationOfValue,
           2 NegativeValue, 9 other error, -1 panic
   kind 1  validate_tx on a fixture mutant (no certificates / withdrawals); observed 1 accepted / 0
           rejected — the model's rule rejecting must imply the validator rejecting
   kind 2  Byron validate_tx on a fixture with the fee parameters moved: ins / outs are VCoin
           amounts, extra = [size; multiplier; summand; only_redeem]; same implication *)
From PV Require Import Lib.Base C34.Model.
Open Scope Z_scope.
Definition case : Type := (Z * Z * list value * list value * Z * option ma * list Z * Z).
Definition case_out (c : case) : Z :=
  let '(kind, era, ins, outs, fee, mint, extra, obs) := c in
  if kind =? 2 then
    byron_check_fees (map coin_of ins) (map coin_of outs) (nth 3 extra 0 =? 1) (nth 0 extra 0) (nth 1 extra 0) (nth 2 extra 0)
  else if era =? 3 then check_preservation_conway ins outs fee mint
  else check_preservation_pre ins outs fee mint.
Definition case_ok (c : case) : bool :=
  let '(kind, era, ins, outs, fee, mint, extra, obs) := c in
  if kind =? 0 then case_out c =? obs
  else (case_out c =? 0) || (obs =? 0).
