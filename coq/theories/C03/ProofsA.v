(* C03 proofs, part A: datatype facts, AnyUInt, the scalar wrappers. *)
From PV Require Import Lib.Base Cbor.Item Cbor.Enc Cbor.Dec Cbor.HeadLaws Cbor.Laws Cbor.Api Cbor.Skip C03.Model.
Open Scope Z_scope.

(* ---- first byte of a head ---- *)
Definition head_byte (m : major) (w : width) (n : Z) : Z :=
  major_code m * 32 + match w with W0 => n | _ => width_info w end.

Lemma enc_head_cons m w n :
  enc_head m w n = head_byte m w n :: match w with W0 => [] | _ => be_bytes (width_nbytes w) n end.
Proof. destruct w; reflexivity. Qed.

Ltac tob_solve :=
  unfold type_of_byte; cbv zeta;
  repeat match goal with
         | |- context [if ?c then _ else _] => let E := fresh "E" in destruct c eqn:E; try lia; try reflexivity
         end.

Lemma tob_u8 b r : 0 <= b <= 24 -> type_of_byte b r = DOk TU8.
Proof. intros H. assert (Hb : byteb b = true) by (unfold byteb; lia). unfold type_of_byte. rewrite Hb. cbn [negb]. tob_solve. Qed.
Lemma tob_eq b r t v : b = v -> 25 <= v <= 27 ->
  t = (if v =? 25 then TU16 else if v =? 26 then TU32 else TU64) -> type_of_byte b r = DOk t.
Proof.
  intros -> Hv ->. assert (Hb : byteb v = true) by (unfold byteb; lia). unfold type_of_byte. rewrite Hb. cbn [negb].
  cbv zeta. destruct (v <=? 24) eqn:E0; [lia|].
  destruct (v =? 25) eqn:E1; [reflexivity|]. destruct (v =? 26) eqn:E2; [reflexivity|].
  destruct (v =? 27) eqn:E3; [reflexivity|lia].
Qed.
Lemma tob_array b r : 128 <= b <= 155 -> type_of_byte b r = DOk TArray.
Proof. intros H. assert (Hb : byteb b = true) by (unfold byteb; lia). unfold type_of_byte. rewrite Hb. cbn [negb]. tob_solve. Qed.
Lemma tob_map b r : 160 <= b <= 187 -> type_of_byte b r = DOk TMap.
Proof. intros H. assert (Hb : byteb b = true) by (unfold byteb; lia). unfold type_of_byte. rewrite Hb. cbn [negb]. tob_solve. Qed.
Lemma tob_tag b r : 192 <= b <= 219 -> type_of_byte b r = DOk TTag.
Proof. intros H. assert (Hb : byteb b = true) by (unfold byteb; lia). unfold type_of_byte. rewrite Hb. cbn [negb]. tob_solve. Qed.

Lemma head_byte_range m w n : arg_fits w n ->
  major_code m * 32 <= head_byte m w n <= major_code m * 32 + 27.
Proof. unfold arg_fits, head_byte. destruct w; cbn [width_bound width_info]; lia. Qed.

Lemma datatype_array w n r : arg_fits w n -> d_datatype (enc_head MajArray w n ++ r) = DOk TArray.
Proof. intros H. rewrite enc_head_cons. cbn [app d_datatype]. apply tob_array. pose proof (head_byte_range MajArray w n H). cbn in *. lia. Qed.
Lemma datatype_map w n r : arg_fits w n -> d_datatype (enc_head MajMap w n ++ r) = DOk TMap.
Proof. intros H. rewrite enc_head_cons. cbn [app d_datatype]. apply tob_map. pose proof (head_byte_range MajMap w n H). cbn in *. lia. Qed.
Lemma datatype_tag w n r : arg_fits w n -> d_datatype (enc_head MajTag w n ++ r) = DOk TTag.
Proof. intros H. rewrite enc_head_cons. cbn [app d_datatype]. apply tob_tag. pose proof (head_byte_range MajTag w n H). cbn in *. lia. Qed.
Lemma datatype_array_indef r : d_datatype (enc_indef MajArray ++ r) = DOk TArrayIndef.
Proof. reflexivity. Qed.
Lemma datatype_map_indef r : d_datatype (enc_indef MajMap ++ r) = DOk TMapIndef.
Proof. reflexivity. Qed.

Definition uint_type (w : width) : ctype :=
  match w with W0 | W8 => TU8 | W16 => TU16 | W32 => TU32 | W64 => TU64 end.
Lemma datatype_uint w n r : arg_fits w n -> d_datatype (enc_head MajUInt w n ++ r) = DOk (uint_type w).
Proof.
  intros H. rewrite enc_head_cons. cbn [app d_datatype]. unfold head_byte. cbn [major_code].
  unfold arg_fits in H. destruct w; cbn [width_info width_bound uint_type] in *.
  - apply tob_u8. lia.
  - apply tob_u8. lia.
  - reflexivity.
  - reflexivity.
  - reflexivity.
Qed.

(* ---- AnyUInt ---- *)
Lemma enc_anyuint_head a : anyuint_wf a ->
  exists w, enc_anyuint a = enc_head MajUInt w (anyuint_value a) /\ arg_fits w (anyuint_value a) /\
    match a with AMajorByte _ => w = W0 | AU8 _ => w = W8 | AU16 _ => w = W16 | AU32 _ => w = W32 | AU64 _ => w = W64 end.
Proof.
  intros [Hty Hwf]. unfold arg_fits. destruct a as [x|x|x|x|x]; cbn [anyuint_ty anyuint_value enc_anyuint] in *.
  - exists W0. cbn [enc_head major_code width_bound]. repeat split; try lia; try (f_equal; lia).
  - exists W8. cbn [enc_head major_code width_bound width_info width_nbytes be_bytes app]. repeat split; try lia;
      try (f_equal; f_equal; lia).
  - exists W16. cbn [width_bound]. repeat split; try lia.
  - exists W32. cbn [width_bound]. repeat split; try lia.
  - exists W64. cbn [width_bound]. repeat split; try lia.
Qed.

Lemma anyuint_roundtrip a r : anyuint_wf a -> dec_anyuint (enc_anyuint a ++ r) = DOk (a, r).
Proof.
  intros Hwf. destruct (enc_anyuint_head a Hwf) as (w & E & Hfit & Hw). rewrite E.
  unfold dec_anyuint. rewrite datatype_uint by exact Hfit. cbn [dbind].
  destruct Hwf as [Hty _]. unfold arg_fits in Hfit.
  destruct a as [x|x|x|x|x]; subst w; cbn [uint_type anyuint_value anyuint_ty width_bound] in *.
  - change (ctype_eqb TU8 TU8) with true. cbn iota.
    unfold d_u8. rewrite d_uint_enc by (unfold arg_fits; cbn; lia). cbn [dbind].
    cbn [enc_head app major_code]. destruct (0 * 32 + x <=? 23) eqn:E1; [reflexivity|lia].
  - change (ctype_eqb TU8 TU8) with true. cbn iota.
    unfold d_u8. rewrite d_uint_enc by (unfold arg_fits; cbn; lia). cbn [dbind].
    reflexivity.
  - change (ctype_eqb TU16 TU8) with false. change (ctype_eqb TU16 TU16) with true. cbn iota.
    unfold d_u16. rewrite d_uint_enc by (unfold arg_fits; cbn; lia). reflexivity.
  - change (ctype_eqb TU32 TU8) with false. change (ctype_eqb TU32 TU16) with false.
    change (ctype_eqb TU32 TU32) with true. cbn iota.
    unfold d_u32. rewrite d_uint_enc by (unfold arg_fits; cbn; lia). reflexivity.
  - change (ctype_eqb TU64 TU8) with false. change (ctype_eqb TU64 TU16) with false.
    change (ctype_eqb TU64 TU32) with false. change (ctype_eqb TU64 TU64) with true. cbn iota.
    unfold d_u64. rewrite d_uint_enc by (unfold arg_fits; cbn; lia). reflexivity.
Qed.

Lemma uint_type_inv w t : uint_type w = t ->
  (ctype_eqb t TU8 = true -> w = W0 \/ w = W8) /\
  (ctype_eqb t TU8 = false -> ctype_eqb t TU16 = true -> w = W16) /\
  (ctype_eqb t TU8 = false -> ctype_eqb t TU16 = false -> ctype_eqb t TU32 = true -> w = W32) /\
  (ctype_eqb t TU8 = false -> ctype_eqb t TU16 = false -> ctype_eqb t TU32 = false -> ctype_eqb t TU64 = true -> w = W64).
Proof. intros <-. destruct w; cbn; repeat split; intros; auto; discriminate. Qed.

Lemma anyuint_exact bs a r : dec_anyuint bs = DOk (a, r) -> enc_anyuint a ++ r = bs.
Proof.
  unfold dec_anyuint. intros H. apply dbind_ok in H as (t & Ht & H).
  assert (Hgen : forall bound x, d_uint bound bs = DOk (x, r) ->
            exists w, bs = enc_head MajUInt w x ++ r /\ arg_fits w x /\ uint_type w = t).
  { intros bound x Hd. apply d_uint_sound in Hd as (w & Hbs & Hfit & _). exists w.
    split; [exact Hbs|]. split; [exact Hfit|]. rewrite Hbs, datatype_uint in Ht by exact Hfit. congruence. }
  destruct (ctype_eqb t TU8) eqn:E8.
  { apply dbind_ok in H as ([x r'] & Hd & H).
    assert (Hr : r' = r) by (destruct (match bs with [] => false | b :: _ => b <=? 23 end); inversion H; reflexivity).
    subst r'. destruct (Hgen _ _ Hd) as (w & Hbs & Hfit & Hw). apply uint_type_inv in Hw as (Hw & _).
    unfold arg_fits in Hfit. destruct (Hw E8) as [-> | ->]; subst bs; cbn [enc_head app major_code width_bound] in *.
    - destruct (0 * 32 + x <=? 23) eqn:E1; [|lia]. inversion H; subst. cbn [enc_anyuint app]. f_equal; try lia.
    - cbn [width_info] in H. change (0 * 32 + 24 <=? 23) with false in H. inversion H; subst.
      cbn [enc_anyuint app width_nbytes be_bytes]. f_equal; try (f_equal; lia). }
  destruct (ctype_eqb t TU16) eqn:E16.
  { apply dbind_ok in H as ([x r'] & Hd & H). inversion H; subst; clear H.
    destruct (Hgen _ _ Hd) as (w & Hbs & Hfit & Hw). apply uint_type_inv in Hw as (_ & Hw & _).
    rewrite (Hw E8 E16) in Hbs. subst bs. reflexivity. }
  destruct (ctype_eqb t TU32) eqn:E32.
  { apply dbind_ok in H as ([x r'] & Hd & H). inversion H; subst; clear H.
    destruct (Hgen _ _ Hd) as (w & Hbs & Hfit & Hw). apply uint_type_inv in Hw as (_ & _ & Hw & _).
    rewrite (Hw E8 E16 E32) in Hbs. subst bs. reflexivity. }
  destruct (ctype_eqb t TU64) eqn:E64; [|discriminate].
  apply dbind_ok in H as ([x r'] & Hd & H). inversion H; subst; clear H.
  destruct (Hgen _ _ Hd) as (w & Hbs & Hfit & Hw). apply uint_type_inv in Hw as (_ & _ & _ & Hw).
  rewrite (Hw E8 E16 E32 E64) in Hbs. subst bs. reflexivity.
Qed.

(* decoded AnyUInt values are well-formed *)
Lemma anyuint_decoded_wf bs a r : dec_anyuint bs = DOk (a, r) -> anyuint_wf a.
Proof.
  unfold dec_anyuint. intros H. apply dbind_ok in H as (t & Ht & H).
  destruct (ctype_eqb t TU8).
  { apply dbind_ok in H as ([x r'] & Hd & H). pose proof Hd as Hd'. apply d_uint_range in Hd.
    destruct bs as [|b bs']; [discriminate|].
    destruct (b <=? 23) eqn:Eb; inversion H; subst; unfold anyuint_wf; cbn; [|lia].
    apply d_uint_sound in Hd' as (w & Hbs & Hfit & _). unfold arg_fits in Hfit.
    rewrite enc_head_cons in Hbs. cbn [app] in Hbs. inversion Hbs as [[Hb Hrest]]. unfold head_byte in Hb.
    destruct w; cbn [major_code width_info width_bound] in *; lia. }
  destruct (ctype_eqb t TU16).
  { apply dbind_ok in H as ([x r'] & Hd & H). inversion H; subst. apply d_uint_range in Hd. unfold anyuint_wf; cbn; lia. }
  destruct (ctype_eqb t TU32).
  { apply dbind_ok in H as ([x r'] & Hd & H). inversion H; subst. apply d_uint_range in Hd. unfold anyuint_wf; cbn; lia. }
  destruct (ctype_eqb t TU64); [|discriminate].
  apply dbind_ok in H as ([x r'] & Hd & H). inversion H; subst. apply d_uint_range in Hd. unfold anyuint_wf; cbn; lia.
Qed.

(* a MajorByte above 23 is a value of the Rust type whose encoding is not its own decoding *)
Lemma anyuint_majorbyte_bad : anyuint_ty (AMajorByte 24) /\ forall r, dec_anyuint (enc_anyuint (AMajorByte 24) ++ r) <> DOk (AMajorByte 24, r).
Proof.
  split; [cbn; lia|]. intros r H. apply anyuint_decoded_wf in H. destruct H as [_ H]. cbn in H. lia.
Qed.

(* ---- u64, Bytes, Int payloads ---- *)
Lemma u64_roundtrip n r : 0 <= n < u64_bound -> dec_u64 (enc_u64 n ++ r) = DOk (n, r).
Proof. apply d_u64_e_uint. Qed.

Lemma bytes_roundtrip b r : bytes_wf b -> len b < u64_bound -> dec_bytes (enc_bytes b ++ r) = DOk (b, r).
Proof.
  intros Hb Hl. unfold dec_bytes, enc_bytes, e_bytes, enc_head_min. rewrite <- app_assoc.
  apply d_bytes_enc; [|exact Hb]. apply min_width_fits. pose proof (len_nonneg b). unfold u64_bound in Hl. lia.
Qed.
