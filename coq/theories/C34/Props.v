(* C34 — property theorems only. Statements are pinned by vp/check.py. *)
From PV Require Import Lib.Base C34.Model C34.Proofs.
Open Scope Z_scope.

(* Shelley-MA / Alonzo / Babbage: if check_preservation_of_value accepts a transaction without
   certificates, withdrawals etc., then in unbounded integers the ada of the spent outputs equals
   the ada of the produced outputs plus the fee, and for every asset (policy p, name a) the spent
   quantity plus the minted quantity equals the produced quantity.  ins / outs are the values of
   the spent UTxO entries / the outputs; maps have unique keys (they are BTreeMaps). *)
Theorem accept_implies_balance : forall ins outs fee mint,
  Forall (fun v => wf_value v = true) ins -> Forall (fun v => wf_value v = true) outs ->
  (forall m, mint = Some m -> wf_ma m = true) ->
  check_preservation_pre ins outs fee mint = V_OK ->
  total_coin ins = total_coin outs + fee /\
  forall p a, total_qty ins p a + mint_qty mint p a = total_qty outs p a.
Proof.
  intros ins outs fee mint Wi Wo Wm. apply pre_balance.
  - eapply Forall_impl; [|exact Wi]. intros v Hv. apply wf_ma_wf. exact Hv.
  - eapply Forall_impl; [|exact Wo]. intros v Hv. apply wf_ma_wf. exact Hv.
  - intros m Hm. apply wf_ma_wf. auto.
Qed.

(* Conway. *)
Theorem accept_implies_balance_conway : forall ins outs fee mint,
  Forall (fun v => wf_value v = true) ins -> Forall (fun v => wf_value v = true) outs ->
  (forall m, mint = Some m -> wf_ma m = true) ->
  check_preservation_conway ins outs fee mint = V_OK ->
  total_coin ins = total_coin outs + fee /\
  forall p a, total_qty ins p a + mint_qty mint p a = total_qty outs p a.
Proof.
  intros ins outs fee mint Wi Wo Wm. apply conway_balance.
  - eapply Forall_impl; [|exact Wi]. intros v Hv. apply wf_ma_wf. exact Hv.
  - eapply Forall_impl; [|exact Wo]. intros v Hv. apply wf_ma_wf. exact Hv.
  - intros m Hm. apply wf_ma_wf. auto.
Qed.

(* Byron: inputs exceed outputs by at least the minimum fee (not all inputs redeem addresses). *)
Theorem byron_accept_implies_fee : forall ins outs size multiplier summand,
  byron_check_fees ins outs false size multiplier summand = V_OK ->
  sumZ outs + (multiplier * size + summand) <= sumZ ins.
Proof. exact byron_fee. Qed.

(* The sign-changing casts before the repairs. *)
Theorem conway_burn_of_absent_asset_refuted_before_fix :
  exists n mint out_ma,
    values_are_equal (conway_add_minted_non_zero_old_coin n mint) (VMa n out_ma) = true /\
    get mint 1 1 = -5 /\ get out_ma 1 1 = 18446744073709551611.
Proof. exact conway_old_cast_refuted. Qed.

Theorem u64_as_i64_refuted_before_fix :
  exists f s r, add_ma in_i64 (coerce_to_i64_old f) (coerce_to_i64_old s) = Some r /\
    get f 1 1 + get s 1 1 = 18446744073709551616 /\ get r 1 1 = 0.
Proof. exact pre_old_cast_refuted. Qed.

(* non-vacuity: a balanced mint-and-spend is accepted; one unit off is not; the Conway burn of an
   absent asset is now NegativeValue *)
Example balance_example :
  check_preservation_pre [VMa 10 [(1, [(1, 7)])]; VCoin 5] [VMa 12 [(1, [(1, 4)]); (2, [(9, 3)])]] 3
     (Some [(1, [(1, -3)]); (2, [(9, 3)])]) = V_OK /\
  check_preservation_pre [VMa 10 [(1, [(1, 7)])]; VCoin 5] [VMa 12 [(1, [(1, 5)]); (2, [(9, 3)])]] 3
     (Some [(1, [(1, -3)]); (2, [(9, 3)])]) = V_PRESERVATION /\
  check_preservation_conway [VMa 10 [(1, [(1, 7)])]; VCoin 5] [VMa 12 [(2, [(9, 3)])]] 3
     (Some [(1, [(1, -7)]); (2, [(9, 3)])]) = V_OK /\
  check_preservation_conway [VCoin 15] [VMa 12 [(1, [(1, 18446744073709551611)])]] 3
     (Some [(1, [(1, -5)])]) = V_NEGATIVE.
Proof. repeat split; vm_compute; reflexivity. Qed.
