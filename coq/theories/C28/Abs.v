(* C28 proofs, part A (Abs): see Proofs.v for the theorem [exec_sync_conformant]. *)
From PV Require Import Lib.Base P2p.Proto P2p.Initiator P2p.Spec C27.Proofs C28.Model.
Open Scope Z_scope.

(* ---- abstraction of the implementation's protocol states to specification states ---- *)
Definition a_hs (s : hs_state) : s_hs :=
  match s with HsSPropose => ShPropose | HsSConfirm _ => ShConfirm | HsSAccepted v p => ShAccepted v p | _ => ShRefused end.
Definition a_ka (s : ka_state) : s_ka := match s with KaSClient _ => SkClient | KaSServer _ => SkServer | KaSDone => SkDone end.
Definition a_ps (s : ps_state) : s_ps := match s with PsSIdle _ => SpIdle | PsSBusy _ => SpBusy | PsSDone => SpDone end.
Definition a_bf (s : bf_state) : s_bf :=
  match s with BfSIdle => SbIdle | BfSBusy _ => SbBusy | BfSStreaming _ => SbStreaming | BfSDone => SbDone end.
Definition a_cs (s : cs_state) : s_cs :=
  match s with CsSIdle _ => ScIdle | CsSCanAwait => ScCanAwait | CsSMustReply => ScMustReply | CsSIntersect _ => ScIntersect | CsSDone => ScDone end.
Definition a_ln (s : ln_state) : s_ln := match s with LnSIdle _ => SnIdle | LnSBusy => SnBusy | LnSDone => SnDone end.
Definition a_lf (s : lf_state) : s_lf :=
  match s with LfSIdle _ => SfIdle | LfSAwaitBlock _ => SfAwaitBlock | LfSAwaitTxs _ => SfAwaitTxs | LfSDone => SfDone end.

(* the implementation state of a peer mirrors the wire (peer-sharing may have been closed locally) *)
Definition Rel (s : pstate) (w : pspec) : Prop :=
  a_hs (hs s) = w_hs w /\ a_ka (ka s) = w_ka w /\ (ps s = PsSDone \/ a_ps (ps s) = w_ps w) /\
  a_bf (bf s) = w_bf w /\ a_cs (cs s) = w_cs w /\ a_ln (ln s) = w_ln w /\ a_lf (lf s) = w_lf w.

(* what the emitters look at *)
Definition pv (s : pstate) := (is_init s, hs s, ka s, ps s, bf s, cs s, ln s, lf s).

Definition DefaultProto (s : pstate) : Prop :=
  hs s = HsSPropose /\ ka s = KaSClient None /\ ps s = PsSIdle None /\ bf s = BfSIdle /\ cs s = CsSIdle CdNew /\
  tx s = TxSInit /\ ln s = LnSIdle None /\ lf s = LfSIdle None.

Definition Acc (s : pstate) : Prop :=
  (is_init s = true \/ cs s <> CsSIdle CdNew) -> exists v p, hs s = HsSAccepted v p.

Lemma rel_default s : DefaultProto s -> Rel s w0.
Proof. intros (A & B & C & D & E & F & G & H). unfold Rel. rewrite A, B, C, D, E, G, H. cbn. repeat split; auto. Qed.

(* ---- the implementation's apply refines the specification ---- *)
Lemma Rel_set_viol b s w : Rel s w -> Rel (set_viol b s) w. Proof. exact (fun H => H). Qed.
Lemma Rel_set_hs k s w : Rel s w -> Rel (set_hs k s) (ww_hs (a_hs k) w).
Proof. intros (R1 & R2 & R3 & R4 & R5 & R6 & R7). repeat split; assumption. Qed.
Lemma Rel_set_ka k s w : Rel s w -> Rel (set_ka k s) (ww_ka (a_ka k) w).
Proof. intros (R1 & R2 & R3 & R4 & R5 & R6 & R7). repeat split; assumption. Qed.
Lemma Rel_set_ps k s w : Rel s w -> Rel (set_ps k s) (ww_ps (a_ps k) w).
Proof. intros (R1 & R2 & R3 & R4 & R5 & R6 & R7). repeat split; try assumption. right; reflexivity. Qed.
Lemma Rel_set_bf k s w : Rel s w -> Rel (set_bf k s) (ww_bf (a_bf k) w).
Proof. intros (R1 & R2 & R3 & R4 & R5 & R6 & R7). repeat split; assumption. Qed.
Lemma Rel_set_cs k s w : Rel s w -> Rel (set_cs k s) (ww_cs (a_cs k) w).
Proof. intros (R1 & R2 & R3 & R4 & R5 & R6 & R7). repeat split; assumption. Qed.
Lemma Rel_set_ln k s w : Rel s w -> Rel (set_ln k s) (ww_ln (a_ln k) w).
Proof. intros (R1 & R2 & R3 & R4 & R5 & R6 & R7). repeat split; assumption. Qed.
Lemma Rel_set_lf k s w : Rel s w -> Rel (set_lf k s) (ww_lf (a_lf k) w).
Proof. intros (R1 & R2 & R3 & R4 & R5 & R6 & R7). repeat split; assumption. Qed.
Lemma Rel_set_tx k s w t : Rel s w -> Rel (set_tx k s) (ww_tx t w).
Proof. intros (R1 & R2 & R3 & R4 & R5 & R6 & R7). repeat split; assumption. Qed.
Lemma Rel_ww_tx s w t : Rel s w -> Rel s (ww_tx t w).
Proof. intros (R1 & R2 & R3 & R4 & R5 & R6 & R7). repeat split; assumption. Qed.
Lemma Rel_ps_done s w t : Rel s w -> ps s = PsSDone -> Rel s (ww_ps t w).
Proof. intros (R1 & R2 & R3 & R4 & R5 & R6 & R7) E. repeat split; try assumption. left; exact E. Qed.

Ltac gd H := unfold guard in H; match type of H with (if ?b then _ else _) = _ => destruct b eqn:?; [|discriminate] end.

Lemma rel_client_step s w m w' : Rel s w -> cstep w m = Some w' -> Rel (apply_msg s m) w'.
Proof.
  intros R H. pose proof R as (R1 & R2 & R3 & R4 & R5 & R6 & R7).
  destruct m; cbn [cstep] in H; try discriminate; unfold apply_msg; cbn [proto_of].
  - (* HsPropose *) destruct (w_hs w) eqn:E; try discriminate. inversion H; subst.
    destruct (hs s) eqn:E2; cbn in R1; try congruence. cbn. apply (Rel_set_hs (HsSConfirm vs)), R.
  - (* KaKeepAlive *) gd H. destruct (w_ka w) eqn:E; try discriminate. inversion H; subst.
    destruct (ka s) eqn:E2; cbn in R2; try congruence. cbn. apply (Rel_set_ka (KaSServer c)), R.
  - (* KaDone *) gd H. destruct (w_ka w) eqn:E; try discriminate. inversion H; subst.
    destruct (ka s) eqn:E2; cbn in R2; try congruence. cbn. apply (Rel_set_ka KaSDone), R.
  - (* PsRequest *) gd H. destruct (w_ps w) eqn:E; try discriminate. inversion H; subst.
    destruct (ps s) eqn:E2; cbn.
    + apply (Rel_set_ps (PsSBusy n)), R.
    + destruct R3 as [R3|R3]; [congruence | try rewrite E2 in R3; cbn in R3; congruence].
    + apply Rel_set_viol. apply Rel_ps_done; assumption.
  - (* PsDone *) gd H. destruct (w_ps w) eqn:E; try discriminate. inversion H; subst.
    destruct (ps s) eqn:E2; cbn.
    + apply (Rel_set_ps PsSDone), R.
    + destruct R3 as [R3|R3]; [congruence | try rewrite E2 in R3; cbn in R3; congruence].
    + apply Rel_set_viol. apply Rel_ps_done; assumption.
  - (* BfRequestRange *) gd H. destruct (w_bf w) eqn:E; try discriminate. inversion H; subst.
    destruct (bf s) eqn:E2; cbn in R4; try congruence. cbn. apply (Rel_set_bf (BfSBusy r)), R.
  - (* BfClientDone *) gd H. destruct (w_bf w) eqn:E; try discriminate. inversion H; subst.
    destruct (bf s) eqn:E2; cbn in R4; try congruence. cbn. apply (Rel_set_bf BfSDone), R.
  - (* CsRequestNext *) gd H. destruct (w_cs w) eqn:E; try discriminate. inversion H; subst.
    destruct (cs s) eqn:E2; cbn in R5; try congruence. cbn. apply (Rel_set_cs CsSCanAwait), R.
  - (* CsFindIntersect *) gd H. destruct (w_cs w) eqn:E; try discriminate. inversion H; subst.
    destruct (cs s) eqn:E2; cbn in R5; try congruence. cbn. apply (Rel_set_cs (CsSIntersect k)), R.
  - (* CsDone *) gd H. destruct (w_cs w) eqn:E; try discriminate. inversion H; subst.
    destruct (cs s) eqn:E2; cbn in R5; try congruence. cbn. apply (Rel_set_cs CsSDone), R.
  - (* TxInit *) gd H. destruct (w_tx w); try discriminate. inversion H; subst.
    unfold via. destruct (tx_apply (tx s) TxInit); [apply Rel_set_tx, R | apply Rel_set_viol, Rel_ww_tx, R].
  - (* TxReplyTxIds *) gd H. destruct (w_tx w); try discriminate. inversion H; subst.
    unfold via. destruct (tx_apply (tx s) TxReplyTxIds); [apply Rel_set_tx, R | apply Rel_set_viol, Rel_ww_tx, R].
  - (* TxReplyTxs *) gd H. destruct (w_tx w); try discriminate. inversion H; subst.
    unfold via. destruct (tx_apply (tx s) (TxReplyTxs n)); [apply Rel_set_tx, R | apply Rel_set_viol, Rel_ww_tx, R].
  - (* TxDone *) gd H. destruct (w_tx w); try discriminate. inversion H; subst.
    unfold via. destruct (tx_apply (tx s) TxDone); [apply Rel_set_tx, R | apply Rel_set_viol, Rel_ww_tx, R].
  - (* LnRequestNext *) gd H. destruct (w_ln w) eqn:E; try discriminate. inversion H; subst.
    destruct (ln s) eqn:E2; cbn in R6; try congruence. cbn. apply (Rel_set_ln LnSBusy), R.
  - (* LnDone *) gd H. destruct (w_ln w) eqn:E; try discriminate. inversion H; subst.
    destruct (ln s) eqn:E2; cbn in R6; try congruence. cbn. apply (Rel_set_ln LnSDone), R.
  - (* LfBlockRequest *) gd H. destruct (w_lf w) eqn:E; try discriminate. inversion H; subst.
    destruct (lf s) eqn:E2; cbn in R7; try congruence. cbn. apply (Rel_set_lf (LfSAwaitBlock p)), R.
  - (* LfBlockTxsRequest *) gd H. destruct (w_lf w) eqn:E; try discriminate. inversion H; subst.
    destruct (lf s) eqn:E2; cbn in R7; try congruence. cbn. apply (Rel_set_lf (LfSAwaitTxs p)), R.
  - (* LfDone *) gd H. destruct (w_lf w) eqn:E; try discriminate. inversion H; subst.
    destruct (lf s) eqn:E2; cbn in R7; try congruence. cbn. apply (Rel_set_lf LfSDone), R.
Qed.
