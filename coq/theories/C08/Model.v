(* C08 model: pallas-primitives/src/conway/script_data.rs transcribed —
   impl Encode for LanguageViews, ScriptData::hash (its preimage), ScriptData::build_for —
   plus the derived/structural encoders of the Redeemers value it hashes
   (conway::Redeemers / Redeemer / RedeemersKey / RedeemersValue / ExUnits; PlutusData from C07).

   Rust types:  LanguageViews(BTreeMap<u8, Vec<i64>>) -> list (Z * list Z) in BTreeMap
                  iteration order (ascending keys)
                Option<KeepRaw<NonEmptySet<KeepRaw<PlutusData>>>> -> option kdatums: every KeepRaw is
                  (raw bytes held, inner value); raw = [] for a value built in memory
                  (KeepRaw::from, or cleared by deref_mut / clear_raw)
                Blake2b-256 is a Section variable in the proofs.
   Definitions only. *)
From PV Require Import Lib.Base Cbor.Item Cbor.Enc Cbor.Dec Cbor.Api C07.Model.
Open Scope Z_scope.

(* ------------------------------------------------------------------ LanguageViews *)
Definition cost_model := list Z.                 (* Vec<i64> *)
Definition lviews := list (Z * cost_model).      (* BTreeMap<u8, CostModel> *)

(* slice::sort on u8 keys (insertion sort: any stable sort gives the same list) *)
Fixpoint insert_z (k : Z) (l : list Z) : list Z :=
  match l with
  | [] => [k]
  | x :: t => if k <=? x then k :: l else x :: insert_z k t
  end.
Definition sort_z (l : list Z) : list Z := fold_right insert_z [] l.

(* let order = keys; canonical_order = order.filter(k != 0); sort(); if contains_key(0) { push(0) } *)
Definition lv_order (keys : list Z) : list Z :=
  sort_z (filter (fun k => negb (k =? 0)) keys) ++ (if existsb (fun k => k =? 0) keys then [0] else []).

(* BTreeMap::get(&lang).unwrap(): the cost model stored under the key (None = the unwrap panics;
   cannot happen for keys taken from the map itself) *)
Fixpoint lv_get (k : Z) (m : lviews) : option cost_model :=
  match m with
  | [] => None
  | (k', c) :: t => if k' =? k then Some c else lv_get k t
  end.

(* the V1 entry: key = bytes(to_vec(0)) = 41 00, value = bytes(9f costs.. ff) *)
Definition enc_v1_inner (c : cost_model) : list Z := e_begin_array ++ concat (map e_int c) ++ e_end.
Definition enc_lv_entry (lang : Z) (c : cost_model) : list Z :=
  if lang =? 0 then e_bytes (e_uint 0) ++ e_bytes (enc_v1_inner c)
  else e_uint lang ++ e_vec e_int c.

(* impl Encode for LanguageViews; a missing key would panic: modelled by the empty entry, excluded
   by construction ([lv_order] only returns keys of the map) *)
Definition enc_language_views (m : lviews) : list Z :=
  e_map (len m) ++
  concat (map (fun lang => match lv_get lang m with Some c => enc_lv_entry lang c | None => [] end)
              (lv_order (map fst m))).

(* ------------------------------------------------------------------ Redeemers (derived codecs) *)
(* ExUnits { mem: u64, steps: u64 } *)
Definition enc_ex_units (mem steps : Z) : list Z := e_array 2 ++ e_uint mem ++ e_uint steps.

(* Redeemer { tag (index_only enum 0..5), index: u32, data: PlutusData, ex_units } *)
Record redeemer : Type := mkRedeemer { r_tag : Z; r_index : Z; r_data : pdata; r_mem : Z; r_steps : Z }.

Definition enc_redeemer (r : redeemer) : list Z :=
  e_array 4 ++ e_uint (r_tag r) ++ e_uint (r_index r) ++ enc_pdata (r_data r) ++ enc_ex_units (r_mem r) (r_steps r).

(* BTreeMap<RedeemersKey, RedeemersValue> entry: [tag, index] => [data, ex_units] *)
Definition enc_redeemer_kv (r : redeemer) : list Z :=
  (e_array 2 ++ e_uint (r_tag r) ++ e_uint (r_index r)) ++
  (e_array 2 ++ enc_pdata (r_data r) ++ enc_ex_units (r_mem r) (r_steps r)).

(* enum Redeemers { List(Vec<Redeemer>), Map(BTreeMap<..>) }: codec_by_datatype, the variant's own
   encoding; a Map is given in BTreeMap iteration order *)
Inductive redeemers : Type :=
| RList (l : list redeemer)
| RMap (l : list redeemer).

Definition enc_redeemers (r : redeemers) : list Z :=
  match r with
  | RList l => e_vec enc_redeemer l
  | RMap l => e_map (len l) ++ concat (map enc_redeemer_kv l)
  end.

(* ------------------------------------------------------------------ KeepRaw datums *)
(* impl Encode for KeepRaw<T>: the bytes captured at decode time when there are any, otherwise the
   encoding of the inner value *)
Definition kr_pdata : Type := (list Z * pdata)%type.          (* KeepRaw<PlutusData> *)
Definition kdatums : Type := (list Z * list kr_pdata)%type.   (* KeepRaw<NonEmptySet<KeepRaw<PlutusData>>> *)

Definition enc_kr_pdata (x : kr_pdata) : list Z :=
  if is_nil (fst x) then enc_pdata (snd x) else fst x.
(* impl Encode for NonEmptySet<T>: tag 258, then the Vec *)
Definition enc_datums (d : kdatums) : list Z :=
  if is_nil (fst d) then e_tag 258 ++ e_vec enc_kr_pdata (snd d) else fst d.

(* ------------------------------------------------------------------ ScriptData *)
Record script_data : Type := mkScriptData {
  sd_redeemers : option redeemers;
  sd_datums : option kdatums;
  sd_language_views : option lviews
}.

(* the buffer ScriptData::hash feeds to Hasher::<256>::hash *)
Definition script_data_preimage (sd : script_data) : list Z :=
  (match sd_redeemers sd with Some r => enc_redeemers r | None => [160] end) ++
  (match sd_datums sd with Some d => enc_datums d | None => [] end) ++   (* minicbor::encode(datums) *)
  (match sd_language_views sd with Some m => enc_language_views m | None => [160] end).

Definition is_some {A} (o : option A) : bool := match o with Some _ => true | None => false end.

(* ScriptData::build_for(witness, language_views_opt): witness.redeemer (the decoded value of the
   KeepRaw), witness.plutus_data (the KeepRaw itself, cloned) *)
Definition build_for (w_redeemer : option redeemers) (w_plutus_data : option kdatums)
  (language_views_opt : option lviews) : option script_data :=
  if negb (is_some w_redeemer) && negb (is_some w_plutus_data) then None
  else Some (mkScriptData w_redeemer w_plutus_data
               (if is_some w_redeemer && is_some language_views_opt then language_views_opt else None)).

(* ------------------------------------------------------------------ specification side *)
(* the CBOR encoding of a language-view key *)
Definition key_enc (k : Z) : list Z := if k =? 0 then [65; 0] else e_uint k.

(* canonical (RFC 7049 §3.9, as the ledger uses) map-key order: shorter encodings first, equal
   lengths bytewise *)
Definition canon_ltb (a b : list Z) : bool :=
  match len a ?= len b with
  | Lt => true
  | Gt => false
  | Eq => match vec_u8_cmp a b with Lt => true | _ => false end
  end.
Definition key_lt (a b : Z) : Prop := canon_ltb (key_enc a) (key_enc b) = true.

(* well-formed inputs *)
Definition i64b (n : Z) : bool := (-9223372036854775808 <=? n) && (n <? 9223372036854775808).
Fixpoint strictly_ascending (l : list Z) : bool :=
  match l with
  | x :: ((y :: _) as t) => (x <? y) && strictly_ascending t
  | _ => true
  end.
Definition wf_lviews (m : lviews) : bool :=
  strictly_ascending (map fst m) &&
  forallb (fun kc => (0 <=? fst kc) && (fst kc <? 256) && forallb i64b (snd kc)) m.
