(* C41 model: pallas-txbuilder/src/transaction/model.rs
   BuiltTransaction::{sign, add_signature, remove_signature}, transcribed.

   Abstraction (tied differentially by harness/src/bin/c41.rs):
   - a public key ([u8;32]) and a signature ([u8;64]) are the big-endian
     integers of their bytes (a bijection for fixed-length arrays);
   - `signatures : Option<HashMap<PublicKey,Signature>>` is an optional
     association list with unique keys (insert replaces, order unobservable);
   - `tx_bytes` is represented by what `conway::Tx::decode_fragment` makes of it:
     `None` when it does not decode, else the body bytes (KeepRaw: re-encoded
     verbatim), the `vkeywitness : Option<NonEmptySet<VKeyWitness>>` field of the
     witness set, and everything else (`rest`, re-encoded unchanged);
     `encode_fragment` followed by the next call's `decode_fragment` is the identity;
   - Ed25519 itself is external: a signer is any type with `pk_of`/`sign_of`. *)
From PV Require Import Lib.Base.
Open Scope Z_scope.

Definition key := Z.
Definition sg := Z.
Definition entry := (key * sg)%type.
Definition bytesZ := (Z * Z)%type.  (* length, big-endian value *)

(* error / panic classes *)
Definition E_CORRUPT : Z := 1.   (* TxBuilderError::CorruptedTxBytes *)
Definition E_ERA : Z := 2.       (* TxBuilderError::UnsupportedEra *)
Definition P_UNWRAP : Z := 1.    (* Option::unwrap on None *)

Definition key_is (k : key) (e : entry) : bool := fst e =? k.
Definition key_isnt (k : key) (e : entry) : bool := negb (fst e =? k).

(* HashMap::insert / HashMap::remove *)
Definition map_remove (k : key) (m : list entry) : list entry := filter (key_isnt k) m.
Definition map_insert (k : key) (s : sg) (m : list entry) : list entry := (k, s) :: map_remove k m.

(* Option<Vec<_>>::unwrap_or_default *)
Definition unwrap_or_default {A} (o : option (list A)) : list A :=
  match o with Some l => l | None => [] end.

(* NonEmptySet::from_vec *)
Definition nes_from_vec (l : list entry) : option (list entry) :=
  match l with [] => None | _ => Some l end.

Record txrec := mkTx {
  body : bytesZ;                    (* KeepRaw<TransactionBody>: raw bytes *)
  vkeys : option (list entry);      (* transaction_witness_set.vkeywitness *)
  rest : Z                          (* opaque: other witness fields, success, aux data *)
}.

Record built := mkBuilt {
  era_conway : bool;                (* era == BuilderEra::Conway *)
  tx_hash : Z;
  tx : option txrec;                (* decode_fragment(tx_bytes) *)
  sigs : option (list entry)        (* signatures *)
}.

Inductive op (SK : Type) : Type :=
| Sign (sk : SK)                    (* sign(&private_key) *)
| AddSig (k : key) (s : sg)         (* add_signature(pub_key, signature) *)
| Remove (k : key).                 (* remove_signature(pub_key) *)
Arguments Sign {SK} sk.
Arguments AddSig {SK} k s.
Arguments Remove {SK} k.

Section Signer.
Variable SK : Type.
Variable pk_of : SK -> key.
Variable sign_of : SK -> Z -> sg.    (* signer.sign(tx_hash) *)

(* ---- current code (after `fix: txbuilder: one witness per key ...`) ---- *)

(* shared tail of sign / add_signature: insert in the map, decode, drop the old
   witness of that key, push the new one, from_vec(..).unwrap(), re-encode *)
Definition put (b : built) (pubkey : key) (signature : sg) : outcome built :=
  if era_conway b then
    let new_sigs := map_insert pubkey signature (unwrap_or_default (sigs b)) in
    match tx b with
    | None => Err E_CORRUPT
    | Some t =>
      let w := unwrap_or_default (vkeys t) in
      let w := filter (key_isnt pubkey) w in              (* retain(|x| x.vkey != pubkey) *)
      let w := w ++ [(pubkey, signature)] in              (* push *)
      match nes_from_vec w with
      | None => Panic P_UNWRAP                            (* Some(from_vec(..).unwrap()) *)
      | Some ne =>
        Ok (mkBuilt true (tx_hash b) (Some (mkTx (body t) (Some ne) (rest t))) (Some new_sigs))
      end
    end
  else Err E_ERA.

Definition sign (b : built) (sk : SK) : outcome built :=
  put b (pk_of sk) (sign_of sk (tx_hash b)).

Definition add_signature (b : built) (k : key) (s : sg) : outcome built := put b k s.

Definition remove_signature (b : built) (pk : key) : outcome built :=
  if era_conway b then
    let new_sigs := map_remove pk (unwrap_or_default (sigs b)) in
    match tx b with
    | None => Err E_CORRUPT
    | Some t =>
      let w := unwrap_or_default (vkeys t) in
      let w := filter (key_isnt pk) w in                  (* retain *)
      Ok (mkBuilt true (tx_hash b) (Some (mkTx (body t) (nes_from_vec w) (rest t))) (Some new_sigs))
    end
  else Err E_ERA.

Definition step (b : built) (o : op SK) : outcome built :=
  match o with
  | Sign sk => sign b sk
  | AddSig k s => add_signature b k s
  | Remove k => remove_signature b k
  end.

(* every method consumes self: a sequence stops at the first Err / Panic *)
Fixpoint run (ops : list (op SK)) (b : built) : outcome built :=
  match ops with
  | [] => Ok b
  | o :: r => match step b o with
              | Ok b' => run r b'
              | Err e => Err e
              | Panic p => Panic p
              end
  end.

(* ---- the code before the fix (kept to state what was wrong) ---- *)

Definition put_prefix (b : built) (pubkey : key) (signature : sg) : outcome built :=
  if era_conway b then
    let new_sigs := map_insert pubkey signature (unwrap_or_default (sigs b)) in
    match tx b with
    | None => Err E_CORRUPT
    | Some t =>
      let w := unwrap_or_default (vkeys t) ++ [(pubkey, signature)] in
      match nes_from_vec w with
      | None => Panic P_UNWRAP
      | Some ne =>
        Ok (mkBuilt true (tx_hash b) (Some (mkTx (body t) (Some ne) (rest t))) (Some new_sigs))
      end
    end
  else Err E_ERA.

Definition remove_prefix (b : built) (pk : key) : outcome built :=
  if era_conway b then
    let new_sigs := map_remove pk (unwrap_or_default (sigs b)) in
    match tx b with
    | None => Err E_CORRUPT
    | Some t =>
      let w := filter (key_isnt pk) (unwrap_or_default (vkeys t)) in
      match nes_from_vec w with
      | None => Panic P_UNWRAP                            (* Some(from_vec(..).unwrap()) *)
      | Some ne =>
        Ok (mkBuilt true (tx_hash b) (Some (mkTx (body t) (Some ne) (rest t))) (Some new_sigs))
      end
    end
  else Err E_ERA.

Definition step_prefix (b : built) (o : op SK) : outcome built :=
  match o with
  | Sign sk => put_prefix b (pk_of sk) (sign_of sk (tx_hash b))
  | AddSig k s => put_prefix b k s
  | Remove k => remove_prefix b k
  end.

Fixpoint run_prefix (ops : list (op SK)) (b : built) : outcome built :=
  match ops with
  | [] => Ok b
  | o :: r => match step_prefix b o with
              | Ok b' => run_prefix r b'
              | Err e => Err e
              | Panic p => Panic p
              end
  end.

(* ---- specification side ---- *)

(* what the last operation on key k in the sequence decided *)
Fixpoint spec_lookup (h : Z) (ops : list (op SK)) (m : key -> option sg) (k : key) : option sg :=
  match ops with
  | [] => m k
  | o :: r =>
    spec_lookup h r
      (match o with
       | Sign sk => fun x => if x =? pk_of sk then Some (sign_of sk h) else m x
       | AddSig k' s => fun x => if x =? k' then Some s else m x
       | Remove k' => fun x => if x =? k' then None else m x
       end) k
  end.

End Signer.

(* observable lists *)
Definition wit_list (b : built) : list entry :=
  match tx b with Some t => unwrap_or_default (vkeys t) | None => [] end.
Definition sig_list (b : built) : list entry := unwrap_or_default (sigs b).
Definition body_of (b : built) : option bytesZ :=
  match tx b with Some t => Some (body t) | None => None end.
Definition rest_of (b : built) : option Z :=
  match tx b with Some t => Some (rest t) | None => None end.

Fixpoint assoc (k : key) (m : list entry) : option sg :=
  match m with
  | [] => None
  | (k', s) :: r => if k' =? k then Some s else assoc k r
  end.

(* result of build_conway_raw: no signatures, no vkey witnesses *)
Definition fresh (bd : bytesZ) (h : Z) (rs : Z) : built :=
  mkBuilt true h (Some (mkTx bd None rs)) None.

(* the invariant: witness list and signature map hold the same entries, one per key;
   an empty witness list is stored as None *)
Definition inv (b : built) : Prop :=
  NoDup (map fst (wit_list b)) /\ NoDup (map fst (sig_list b)) /\
  (forall e, In e (wit_list b) <-> In e (sig_list b)) /\
  (match tx b with Some t => vkeys t <> Some [] | None => True end).
