(* C41 — property theorems only. Statements are pinned by vp/check.py. *)
From PV Require Import Lib.Base C41.Model C41.Proofs.
Open Scope Z_scope.

(* the invariant (witness list = signature map as sets, one entry per key, empty list
   stored as None) is kept by every operation sequence, from any state that has it *)
Theorem sign_inv : forall SK (pk_of : SK -> key) (sign_of : SK -> Z -> sg) ops b b',
  inv b -> run SK pk_of sign_of ops b = Ok b' -> inv b'.
Proof. intros SK pk_of sign_of ops b b'. exact (inv_run SK pk_of sign_of ops b b'). Qed.

(* ... and spelled out for the output of build_conway_raw *)
Theorem sign_inv_built : forall SK (pk_of : SK -> key) (sign_of : SK -> Z -> sg) ops bd h rs b',
  run SK pk_of sign_of ops (fresh bd h rs) = Ok b' ->
  NoDup (map fst (wit_list b')) /\ NoDup (map fst (sig_list b')) /\
  (forall k s, In (k, s) (wit_list b') <-> In (k, s) (sig_list b')).
Proof.
  intros SK pk_of sign_of ops bd h rs b' H.
  destruct (inv_run SK pk_of sign_of ops _ _ (inv_fresh bd h rs) H) as [A [B [C _]]].
  repeat split; auto; apply C.
Qed.

(* no operation sequence panics, on any built transaction (even corrupted / other era) *)
Theorem sign_total : forall SK (pk_of : SK -> key) (sign_of : SK -> Z -> sg) ops b,
  is_panic (run SK pk_of sign_of ops b) = false.
Proof. intros SK pk_of sign_of ops b. exact (run_no_panic SK pk_of sign_of ops b). Qed.

(* on a Conway built transaction whose bytes decode, every sequence succeeds *)
Theorem sign_total_built : forall SK (pk_of : SK -> key) (sign_of : SK -> Z -> sg) ops b,
  era_conway b = true -> tx b <> None -> exists b', run SK pk_of sign_of ops b = Ok b'.
Proof.
  intros SK pk_of sign_of ops b He Ht.
  destruct (run_wf_ok SK pk_of sign_of ops b (conj He Ht)) as [b' [H _]]. eauto.
Qed.

Theorem body_and_id_unchanged : forall SK (pk_of : SK -> key) (sign_of : SK -> Z -> sg) ops b b',
  run SK pk_of sign_of ops b = Ok b' ->
  era_conway b' = era_conway b /\ tx_hash b' = tx_hash b /\ body_of b' = body_of b /\ rest_of b' = rest_of b.
Proof. intros SK pk_of sign_of ops b b'. exact (run_preserves SK pk_of sign_of ops b b'). Qed.

(* adding / replacing / removing: the witness for key k is what the last operation on k decided *)
Theorem sign_last_op_decides : forall SK (pk_of : SK -> key) (sign_of : SK -> Z -> sg) ops b b' k s,
  inv b -> run SK pk_of sign_of ops b = Ok b' ->
  (In (k, s) (wit_list b') <-> spec_lookup SK pk_of sign_of (tx_hash b) ops (fun x => assoc x (sig_list b)) k = Some s).
Proof. intros SK pk_of sign_of ops b b' k s. exact (run_wit_spec SK pk_of sign_of ops b b' k s). Qed.

(* each witness is a valid signature of the id, for any verification function the signer satisfies,
   provided the signatures handed to add_signature verify *)
Theorem witnesses_verify : forall SK (pk_of : SK -> key) (sign_of : SK -> Z -> sg) (verify : key -> Z -> sg -> bool),
  (forall sk h, verify (pk_of sk) h (sign_of sk h) = true) ->
  forall ops b b',
  Forall (fun e => verify (fst e) (tx_hash b) (snd e) = true) (wit_list b) ->
  Forall (fun o => match o with AddSig k s => verify k (tx_hash b) s = true | _ => True end) ops ->
  run SK pk_of sign_of ops b = Ok b' ->
  Forall (fun e => verify (fst e) (tx_hash b') (snd e) = true) (wit_list b').
Proof.
  intros SK pk_of sign_of verify Hs ops b b'. exact (verify_run SK pk_of sign_of verify Hs ops b b').
Qed.

(* what the code did before `fix: txbuilder keeps one vkey witness per key ...` *)
Theorem sign_inv_refuted_before_fix :
  exists b', run_prefix (key * sg) fst (fun sk _ => snd sk) [Sign (7, 9); Sign (7, 9)] (fresh (1, 0) 5 0) = Ok b' /\
             length (sig_list b') = 1%nat /\ length (wit_list b') = 2%nat /\ ~ NoDup (map fst (wit_list b')).
Proof. exact prefix_duplicates. Qed.

Theorem sign_total_refuted_before_fix :
  run_prefix (key * sg) fst (fun sk _ => snd sk) [Sign (7, 9); Remove 7] (fresh (1, 0) 5 0) = Panic P_UNWRAP /\
  run_prefix (key * sg) fst (fun sk _ => snd sk) [Remove 7] (fresh (1, 0) 5 0) = Panic P_UNWRAP.
Proof. exact prefix_panics. Qed.

(* non-vacuity: a concrete sequence with a repeat, a replacement and removals *)
Example sign_example :
  exists b', run (key * sg) fst (fun sk _ => snd sk)
               [Sign (7, 70); Sign (8, 80); Sign (7, 70); AddSig 8 81; Remove 7; Remove 3] (fresh (1, 0) 5 0) = Ok b' /\
             wit_list b' = [(8, 81)] /\ sig_list b' = [(8, 81)] /\ inv b'.
Proof.
  eexists. split; [vm_compute; reflexivity|]. split; [reflexivity|]. split; [reflexivity|].
  apply (sign_inv (key * sg)%type fst (fun sk _ => snd sk)
           [Sign (7, 70); Sign (8, 80); Sign (7, 70); AddSig 8 81; Remove 7; Remove 3] (fresh (1, 0) 5 0));
    [apply inv_fresh|vm_compute; reflexivity].
Qed.

Example remove_last_example :
  exists b', run (key * sg) fst (fun sk _ => snd sk) [Sign (7, 70); Remove 7] (fresh (1, 0) 5 0) = Ok b' /\
             tx b' = Some (mkTx (1, 0) None 0) /\ sig_list b' = [].
Proof. eexists. split; [vm_compute; reflexivity|]. split; reflexivity. Qed.
