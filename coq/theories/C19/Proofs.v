From PV Require Import Lib.Base Cbor.Item Cbor.Enc Cbor.Dec Cbor.HeadLaws Cbor.Laws Cbor.Api.
From PV Require Import C19.Model.
From PV Require C18.Model.
Open Scope Z_scope.

(* ---------------------------------------------------------------- CBOR round trip *)
Section WithSkip.
Variable skip : list Z -> dres (list Z).

Lemma decode_byron_enc a r : byron_wf a ->
  decode_byron skip (byron_to_vec a ++ r) = DOk (a, r).
Proof.
  destruct a as [p c]. intros (Hp & Hl & Hc). cbn [fst snd] in *.
  unfold byron_to_vec, decode_byron. cbn [fst snd].
  unfold e_array, e_tag, e_bytes, e_uint, enc_head_min. rewrite <- !app_assoc.
  unfold d_array. rewrite d_len_enc by (apply min_width_fits; lia). cbn [dbind].
  unfold loop_fuel. cbn [fields_def]. cbn [Z.leb Z.compare].
  unfold field_action at 1. cbn [Z.eqb]. unfold dec_payload.
  rewrite d_tag_enc by (apply min_width_fits; lia). cbn [dbind].
  assert (Hlp : 0 <= len p) by (unfold len; lia).
  rewrite d_bytes_enc; [|apply min_width_fits; lia|exact Hp]. cbn [dbind snd].
  destruct (length _) as [|k] eqn:EL.
  { exfalso. rewrite !app_length in EL.
    assert (length (enc_head MajTag (min_width 24) 24) > 0)%nat; [|lia].
    destruct (enc_head_first MajTag (min_width 24) 24 ltac:(apply min_width_fits; lia)) as (b & t & -> & _).
    cbn; lia. }
  cbn [fields_def]. change (2 <=? 0 + 1) with false. cbv iota.
  unfold field_action. change (0 + 1 =? 0) with false. change (0 + 1 =? 1) with true. cbv iota.
  unfold d_u32. rewrite d_uint_enc; [|apply min_width_fits; lia|lia]. cbn [dbind fst].
  destruct k; cbn [fields_def]; change (2 <=? 0 + 1 + 1) with true; cbv iota; reflexivity.
Qed.

Lemma minicbor_decode_enc a r : byron_wf a -> minicbor_decode skip (byron_to_vec a ++ r) = Ok a.
Proof. intros H. unfold minicbor_decode. rewrite decode_byron_enc by exact H. reflexivity. Qed.

(* the tree before the fix: any checksum is accepted *)
Lemma from_bytes_unchecked_accepts a : byron_wf a -> from_bytes_unchecked skip (byron_to_vec a) = Ok a.
Proof.
  intros H. unfold from_bytes_unchecked. rewrite <- (app_nil_r (byron_to_vec a)). apply minicbor_decode_enc, H.
Qed.
End WithSkip.

(* ---------------------------------------------------------------- ranges *)
Lemma lxor_range n a b : 0 <= n -> 0 <= a < 2 ^ n -> 0 <= b < 2 ^ n -> 0 <= Z.lxor a b < 2 ^ n.
Proof.
  intros Hn Ha Hb. split; [apply Z.lxor_nonneg; lia|].
  destruct (Z.eq_dec a 0) as [->|Ha0]; [rewrite Z.lxor_0_l; lia|].
  destruct (Z.eq_dec b 0) as [->|Hb0]; [rewrite Z.lxor_0_r; lia|].
  destruct (Z.eq_dec (Z.lxor a b) 0) as [->|Hz]; [lia|].
  assert (Hp : 0 < Z.lxor a b) by (pose proof (proj2 (Z.lxor_nonneg a b)); lia).
  apply Z.log2_lt_pow2; [exact Hp|].
  pose proof (Z.log2_lxor a b ltac:(lia) ltac:(lia)) as Hl.
  assert (La : Z.log2 a < n) by (apply Z.log2_lt_pow2; lia).
  assert (Lb : Z.log2 b < n) by (apply Z.log2_lt_pow2; lia).
  lia.
Qed.

Definition state32 (c : Z) : Prop := 0 <= c < 2 ^ 32.

Lemma step_range c : state32 c -> state32 (crc_step c).
Proof.
  unfold state32, crc_step. intros Hc.
  assert (Hs : 0 <= Z.shiftr c 1 < 2 ^ 31).
  { rewrite Z.shiftr_div_pow2 by lia. change (2 ^ 1) with 2. change (2 ^ 32) with 4294967296 in Hc.
    change (2 ^ 31) with 2147483648. lia. }
  destruct (Z.odd c).
  - apply lxor_range; [lia| |unfold POLY; change (2 ^ 32) with 4294967296; lia].
    change (2 ^ 31) with 2147483648 in Hs. change (2 ^ 32) with 4294967296. lia.
  - change (2 ^ 31) with 2147483648 in Hs. change (2 ^ 32) with 4294967296. lia.
Qed.

Lemma step8_range c : state32 c -> state32 (crc_step8 c).
Proof. intros H. unfold crc_step8. do 8 apply step_range. exact H. Qed.

Lemma byte_state b : byte b -> state32 b.
Proof. unfold byte, state32. change (2 ^ 32) with 4294967296. lia. Qed.

Lemma crc_byte_range c b : state32 c -> byte b -> state32 (crc_byte c b).
Proof.
  intros Hc Hb. unfold crc_byte. apply step8_range. apply lxor_range; [lia|exact Hc|apply byte_state, Hb].
Qed.

Lemma crc_reg_range bs : forall c, state32 c -> bytes_wf bs -> state32 (crc_reg c bs).
Proof.
  induction bs as [|b r IH]; intros c Hc Hw; [exact Hc|].
  inversion Hw; subst. cbn [crc_reg fold_left]. apply IH; [apply crc_byte_range; assumption|assumption].
Qed.

Lemma mask_state : state32 MASK32.
Proof. unfold state32, MASK32. change (2 ^ 32) with 4294967296. lia. Qed.

Lemma crc32_range bs : bytes_wf bs -> 0 <= crc32 bs < 4294967296.
Proof.
  intros H. unfold crc32. change 4294967296 with (2 ^ 32).
  apply lxor_range; [lia| |apply mask_state]. apply crc_reg_range; [apply mask_state|exact H].
Qed.

(* ---------------------------------------------------------------- injectivity of the register update *)
Lemma lxor_cancel_r a b x : Z.lxor a x = Z.lxor b x -> a = b.
Proof.
  intros H. apply (f_equal (fun t => Z.lxor t x)) in H.
  rewrite !Z.lxor_assoc, Z.lxor_nilpotent, !Z.lxor_0_r in H. exact H.
Qed.
Lemma lxor_cancel_l a b x : Z.lxor x a = Z.lxor x b -> a = b.
Proof. rewrite !(Z.lxor_comm x). apply lxor_cancel_r. Qed.

Lemma half_bit31 c : state32 c -> Z.testbit (Z.shiftr c 1) 31 = false.
Proof.
  unfold state32. intros Hc. rewrite Z.shiftr_spec by lia. change (31 + 1) with 32.
  destruct (Z.eq_dec c 0) as [->|]; [apply Z.bits_0|].
  apply Z.bits_above_log2; [lia|]. apply Z.log2_lt_pow2; lia.
Qed.

Lemma odd_half c : c = 2 * Z.shiftr c 1 + (if Z.odd c then 1 else 0).
Proof.
  rewrite Z.shiftr_div_pow2 by lia. change (2 ^ 1) with 2.
  rewrite Zodd_mod. pose proof (Z.mod_pos_bound c 2 ltac:(lia)).
  destruct (Zeq_bool (c mod 2) 1) eqn:E.
  - apply Zeq_bool_eq in E. lia.
  - apply Zeq_bool_neq in E. lia.
Qed.

Lemma step_inj a b : state32 a -> state32 b -> crc_step a = crc_step b -> a = b.
Proof.
  intros Ha Hb H. unfold crc_step in H.
  pose proof (half_bit31 a Ha) as Ta. pose proof (half_bit31 b Hb) as Tb.
  assert (TP : Z.testbit POLY 31 = true) by reflexivity.
  rewrite (odd_half a), (odd_half b).
  destruct (Z.odd a) eqn:Oa, (Z.odd b) eqn:Ob.
  - apply lxor_cancel_r in H. rewrite H. reflexivity.
  - exfalso. apply (f_equal (fun t => Z.testbit t 31)) in H.
    rewrite Z.lxor_spec, Ta, Tb, TP in H. discriminate.
  - exfalso. apply (f_equal (fun t => Z.testbit t 31)) in H.
    rewrite Z.lxor_spec, Ta, Tb, TP in H. discriminate.
  - rewrite H. reflexivity.
Qed.

Lemma step8_inj a b : state32 a -> state32 b -> crc_step8 a = crc_step8 b -> a = b.
Proof.
  intros Ha Hb H. unfold crc_step8 in H.
  repeat (apply step_inj in H; [|repeat apply step_range; assumption|repeat apply step_range; assumption]).
  exact H.
Qed.

Lemma crc_byte_inj c b c' b' : state32 c -> state32 c' -> byte b -> byte b' ->
  crc_byte c b = crc_byte c' b' -> Z.lxor c b = Z.lxor c' b'.
Proof.
  intros Hc Hc' Hb Hb' H. unfold crc_byte in H.
  apply step8_inj in H; [exact H| |]; (apply lxor_range; [lia|assumption|apply byte_state; assumption]).
Qed.

Lemma crc_reg_inj bs : forall s s', state32 s -> state32 s' -> bytes_wf bs ->
  crc_reg s bs = crc_reg s' bs -> s = s'.
Proof.
  induction bs as [|b r IH]; intros s s' Hs Hs' Hw H; [exact H|].
  inversion Hw; subst. cbn [crc_reg fold_left] in H.
  apply IH in H; [|apply crc_byte_range; assumption|apply crc_byte_range; assumption|assumption].
  apply crc_byte_inj in H; try assumption. apply lxor_cancel_r in H. exact H.
Qed.

Lemma pow2_byte j : 0 <= j < 8 -> byte (2 ^ j) /\ 2 ^ j <> 0.
Proof.
  intros Hj. unfold byte.
  assert (H : j = 0 \/ j = 1 \/ j = 2 \/ j = 3 \/ j = 4 \/ j = 5 \/ j = 6 \/ j = 7) by lia.
  destruct H as [->|[->|[->|[->|[->|[->|[->| ->]]]]]]]; cbv; repeat split; congruence.
Qed.

Lemma flip_byte b j : byte b -> 0 <= j < 8 -> byte (Z.lxor b (2 ^ j)) /\ Z.lxor b (2 ^ j) <> b.
Proof.
  intros Hb Hj. destruct (pow2_byte j Hj) as [Hp Hn]. split.
  - unfold byte in *. change 256 with (2 ^ 8). apply lxor_range; [lia| |]; change (2 ^ 8) with 256; lia.
  - intros E. apply Hn. rewrite <- (Z.lxor_0_r b) in E at 2. apply lxor_cancel_l in E. exact E.
Qed.

Lemma flip_bit_wf p : forall i j, bytes_wf p -> 0 <= j < 8 -> bytes_wf (flip_bit p i j).
Proof.
  induction p as [|b r IH]; intros i j Hw Hj; [constructor|]. inversion Hw; subst.
  destruct i; cbn [flip_bit]; constructor; try assumption.
  - apply flip_byte; assumption.
  - apply IH; assumption.
Qed.

Lemma flip_bit_length p : forall i j, length (flip_bit p i j) = length p.
Proof. induction p as [|b r IH]; intros [|i] j; cbn [flip_bit length]; try reflexivity. rewrite IH. reflexivity. Qed.

Lemma crc_reg_flip p : forall i j s, state32 s -> bytes_wf p -> (i < length p)%nat -> 0 <= j < 8 ->
  crc_reg s (flip_bit p i j) <> crc_reg s p.
Proof.
  induction p as [|b r IH]; intros i j s Hs Hw Hi Hj; [cbn in Hi; lia|].
  inversion Hw; subst. destruct (flip_byte b j ltac:(assumption) Hj) as [Fb Fn].
  destruct i as [|i]; cbn [flip_bit crc_reg fold_left].
  - intros E. apply crc_reg_inj in E; [| apply crc_byte_range; assumption | apply crc_byte_range; assumption | assumption].
    apply crc_byte_inj in E; try assumption. apply lxor_cancel_l in E. exact (Fn E).
  - apply IH; [apply crc_byte_range; assumption|assumption|cbn in Hi; lia|exact Hj].
Qed.

Lemma crc32_flip p i j : bytes_wf p -> (i < length p)%nat -> 0 <= j < 8 ->
  crc32 (flip_bit p i j) <> crc32 p.
Proof.
  intros Hw Hi Hj E. unfold crc32 in E. apply lxor_cancel_r in E.
  exact (crc_reg_flip p i j MASK32 mask_state Hw Hi Hj E).
Qed.

Lemma crc_value_flip c j : 0 <= j -> Z.lxor c (2 ^ j) <> c.
Proof.
  intros Hj E. rewrite <- (Z.lxor_0_r c) in E at 2. apply lxor_cancel_l in E.
  pose proof (Z.pow_pos_nonneg 2 j ltac:(lia) Hj). lia.
Qed.

(* ---------------------------------------------------------------- the repaired from_bytes *)
Section Fixed.
Variable skip : list Z -> dres (list Z).

Lemma from_decoded_wf p : bytes_wf p -> len p < 18446744073709551616 -> byron_wf (from_decoded p).
Proof. intros Hp Hl. unfold byron_wf, from_decoded. cbn [fst snd]. auto using crc32_range. Qed.

Lemma from_bytes_roundtrip a r : byron_wf a -> crc32 (fst a) = snd a ->
  from_bytes skip (byron_to_vec a ++ r) = Ok a.
Proof.
  intros Hw Hc. unfold from_bytes. rewrite minicbor_decode_enc by exact Hw.
  rewrite Hc, Z.eqb_refl. reflexivity.
Qed.

Lemma from_bytes_rejects a r : byron_wf a -> crc32 (fst a) <> snd a ->
  from_bytes skip (byron_to_vec a ++ r) = Err E_BYRON_CBOR.
Proof.
  intros Hw Hc. unfold from_bytes. rewrite minicbor_decode_enc by exact Hw.
  destruct (crc32 (fst a) =? snd a) eqn:E; [lia|reflexivity].
Qed.

(* whatever the encoding (non-canonical heads, indefinite array, other tag, extra
   elements, trailing bytes): an accepted address carries a matching checksum *)
Lemma from_bytes_ok_crc bs a : from_bytes skip bs = Ok a -> crc32 (fst a) = snd a.
Proof.
  unfold from_bytes. destruct (minicbor_decode skip bs) as [a'| |]; try discriminate.
  destruct (crc32 (fst a') =? snd a') eqn:E; [|discriminate]. intros H. inversion H; subst. lia.
Qed.

Lemma from_bytes_never_panics bs : is_panic (from_bytes skip bs) = false.
Proof.
  unfold from_bytes, minicbor_decode. destruct (decode_byron skip bs) as [[a r]| |]; try reflexivity.
  destruct (_ =? _); reflexivity.
Qed.

Lemma parse_type_8_ok_crc h pl p c :
  parse_type_8 skip h pl = Ok (C18.Model.Byron p c) -> crc32 p = c.
Proof.
  unfold parse_type_8. destruct (from_bytes skip (h :: pl)) as [a| |] eqn:E; try discriminate.
  intros H. inversion H; subst. apply (from_bytes_ok_crc _ _ E).
Qed.

Lemma address_from_bytes_ok_crc bs p c :
  address_from_bytes skip bs = Ok (C18.Model.Byron p c) -> crc32 p = c.
Proof.
  unfold address_from_bytes, C18.Model.bytes_to_address. destruct bs as [|h pl]; [discriminate|].
  cbv zeta.
  repeat match goal with
  | |- context [if ?c then _ else _] => destruct c
  end;
  try (intros H; exact (parse_type_8_ok_crc _ _ _ _ H));
  try discriminate;
  unfold C18.Model.parse_shelley_hh, C18.Model.parse_shelley_ptr, C18.Model.parse_shelley_h, C18.Model.parse_stake, C18.Model.bind;
  intros H;
  repeat match type of H with
  | (if ?c then _ else _) = _ => destruct c
  | match ?x with _ => _ end = _ => destruct x
  end; discriminate.
Qed.

(* first byte of the encoding is 0x82: Address::from_bytes dispatches it to parse_type_8 *)
Lemma address_from_bytes_byron a : 
  address_from_bytes skip (byron_to_vec a) =
  match from_bytes skip (byron_to_vec a) with
  | Ok b => Ok (C18.Model.Byron (fst b) (snd b)) | Err e => Err e | Panic q => Panic q end.
Proof. reflexivity. Qed.
End Fixed.

(* ---------------------------------------------------------------- base58 (oracle) *)
Section Base58.
Variable skip : list Z -> dres (list Z).
Variable b58_encode : list Z -> list Z.
Variable b58_decode : list Z -> outcome (list Z).
(* the base58 0.2.0 decoder has a fixed 132-byte buffer: the premise is only
   asked (and only true of the crate) up to that length *)
Hypothesis b58_roundtrip : forall bs, bytes_wf bs -> len bs <= 132 -> b58_decode (b58_encode bs) = Ok bs.

Lemma byron_to_vec_wf a : byron_wf a -> bytes_wf (byron_to_vec a).
Proof.
  destruct a as [p c]. intros (Hp & Hl & Hc). cbn [fst snd] in *.
  assert (Hlp : 0 <= len p) by (unfold len; lia).
  unfold byron_to_vec, e_array, e_tag, e_bytes, e_uint, enc_head_min. cbn [fst snd].
  repeat (apply Forall_app; split); try exact Hp; apply enc_head_wf, min_width_fits; lia.
Qed.

Lemma base58_roundtrip_sec a : byron_wf a -> crc32 (fst a) = snd a -> len (byron_to_vec a) <= 132 ->
  from_base58 skip b58_decode (to_base58 b58_encode a) = Ok a.
Proof.
  intros Hw Hc Hl. unfold from_base58, to_base58.
  rewrite b58_roundtrip by (try apply byron_to_vec_wf; assumption).
  rewrite <- (app_nil_r (byron_to_vec a)). apply from_bytes_roundtrip; assumption.
Qed.

Lemma base58_ok_crc s a : from_base58 skip b58_decode s = Ok a -> crc32 (fst a) = snd a.
Proof.
  unfold from_base58. destruct (b58_decode s); try discriminate. apply from_bytes_ok_crc.
Qed.
End Base58.
