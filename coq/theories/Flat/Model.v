(* Flat codec, decoder side: pallas-codec/src/flat/decode/decoder.rs transcribed
   method by method (plus flat/zigzag.rs usize->isize and flat::decode).

   A decoder is (buffer, pos, used_bits). Every method is a state transformer
   [M A := dec -> outcome A * dec]: Rust's `&mut self` + `Result`. On `Err` the
   state is whatever the method had already mutated (as in Rust, where `?`
   returns early and leaves `self` as it is), so a script may go on calling
   methods after an error. Every slice index, slice range and every shift whose
   amount is a variable is explicit and yields [Panic]; so does the one isize
   multiplication (`ensure_bits`). usize/isize are 64 bit.  Loops run on fuel
   ([dec_fuel]: one more than the number of bits of the buffer); running out of
   fuel is [Err E_FUEL], which DecSafe.v proves never happens.

   Bytes are Z in [0,256). *)
From PV Require Import Lib.Base.
Open Scope Z_scope.

(* error classes (pallas_codec::flat::de::Error) *)
Definition E_END : Z := 1.          (* EndOfBuffer *)
Definition E_ALIGN : Z := 2.        (* BufferNotByteAligned *)
Definition E_NUMBITS : Z := 3.      (* IncorrectNumBits *)
Definition E_BYTES (n : Z) : Z := 1000 + n.   (* NotEnoughBytes(n) *)
Definition E_BITS (n : Z) : Z := 2000 + n.    (* NotEnoughBits(n) *)
Definition E_UTF8 : Z := 6.         (* DecodeUtf8 *)
Definition E_CHAR : Z := 7.         (* DecodeChar *)
Definition E_MSG : Z := 8.          (* Message *)
Definition E_FUEL : Z := 99.        (* model artefact: loop fuel exhausted (proved impossible) *)
(* panic kinds *)
Definition P_INDEX : Z := 1.        (* index / slice range out of bounds *)
Definition P_SHIFT : Z := 2.        (* shift amount >= bit width (overflow checks on) *)
Definition P_OVERFLOW : Z := 3.     (* arithmetic overflow (overflow checks on) *)

Record dec : Type := mkDec { d_buf : list Z; d_pos : Z; d_used : Z }.
Definition mk_dec (bs : list Z) : dec := mkDec bs 0 0.
Definition d_len (s : dec) : Z := Z.of_nat (length (d_buf s)).

Definition M (A : Type) : Type := dec -> outcome A * dec.
Definition ret {A} (a : A) : M A := fun s => (Ok a, s).
Definition fail {A} (e : Z) : M A := fun s => (Err e, s).
Definition lift {A} (o : outcome A) : M A := fun s => (o, s).
Definition bind {A B} (m : M A) (f : A -> M B) : M B :=
  fun s => match m s with
           | (Ok a, s') => f a s'
           | (Err e, s') => (Err e, s')
           | (Panic p, s') => (Panic p, s')
           end.
Notation "x <- m ;; f" := (bind m (fun x => f)) (at level 61, m at next level, right associativity).
Notation "m ;;; f" := (bind m (fun _ => f)) (at level 61, right associativity).
Definition get : M dec := fun s => (Ok s, s).
Definition set_pos (p : Z) : M unit := fun s => (Ok tt, mkDec (d_buf s) p (d_used s)).

(* buffer[i] *)
Definition idx (l : list Z) (i : Z) : outcome Z :=
  if (0 <=? i) && (i <? Z.of_nat (length l)) then Ok (nth (Z.to_nat i) l 0) else Panic P_INDEX.
(* &buffer[lo..hi] *)
Definition slice (l : list Z) (lo hi : Z) : outcome (list Z) :=
  if (0 <=? lo) && (lo <=? hi) && (hi <=? Z.of_nat (length l))
  then Ok (firstn (Z.to_nat (hi - lo)) (skipn (Z.to_nat lo) l)) else Panic P_INDEX.
(* u8 >> s, u8 << s, usize << s, usize >> s *)
Definition shr8 (x s : Z) : outcome Z :=
  if (0 <=? s) && (s <? 8) then Ok (Z.shiftr x s) else Panic P_SHIFT.
Definition shl8 (x s : Z) : outcome Z :=
  if (0 <=? s) && (s <? 8) then Ok (Z.shiftl x s mod 256) else Panic P_SHIFT.
Definition shl64 (x s : Z) : outcome Z :=
  if (0 <=? s) && (s <? 64) then Ok (Z.shiftl x s mod 2 ^ 64) else Panic P_SHIFT.
Definition shr64 (x s : Z) : outcome Z :=
  if (0 <=? s) && (s <? 64) then Ok (Z.shiftr x s) else Panic P_SHIFT.
(* usize a - b *)
Definition sub_usize (a b : Z) : outcome Z := if b <=? a then Ok (a - b) else Panic P_OVERFLOW.
(* isize a * b *)
Definition mul_isize (a b : Z) : outcome Z :=
  let r := a * b in if (- 2 ^ 63 <=? r) && (r <? 2 ^ 63) then Ok r else Panic P_OVERFLOW.

(* fn increment_buffer_by_bit *)
Definition incr_bit : M unit := fun s =>
  if d_used s =? 7 then (Ok tt, mkDec (d_buf s) (d_pos s + 1) 0)
  else (Ok tt, mkDec (d_buf s) (d_pos s) (d_used s + 1)).

(* fn drop_bits *)
Definition drop_bits (n : Z) : M unit := fun s =>
  let all := n + d_used s in
  (Ok tt, mkDec (d_buf s) (d_pos s + all / 8) (all mod 8)).

(* fn ensure_bytes *)
Definition ensure_bytes (req : Z) : M unit :=
  s <- get ;;
  if req >? d_len s - d_pos s then fail (E_BYTES req) else ret tt.

(* fn ensure_bits *)
Definition ensure_bits (req : Z) : M unit :=
  s <- get ;;
  t <- lift (mul_isize (d_len s - d_pos s) 8) ;;
  if req >? t - d_used s then fail (E_BITS req) else ret tt.

(* fn bit *)
Definition dec_bit : M bool :=
  s <- get ;;
  if d_pos s >=? d_len s then fail E_END else
  a <- lift (idx (d_buf s) (d_pos s)) ;;
  m <- lift (shr8 128 (d_used s)) ;;
  incr_bit ;;;
  ret (Z.land a m >? 0).

(* fn zero *)
Definition dec_zero : M bool := b <- dec_bit ;; ret (negb b).

(* pub fn bool: self.bit() *)
Definition dec_bool : M bool := dec_bit.

(* pub fn bits8 *)
Definition dec_bits8 (n : Z) : M Z :=
  if n >? 8 then fail E_NUMBITS else
  if n =? 0 then ret 0 else
  ensure_bits n ;;;
  s <- get ;;
  unused <- lift (sub_usize 8 (d_used s)) ;;
  lz <- lift (sub_usize 8 n) ;;
  a <- lift (idx (d_buf s) (d_pos s)) ;;
  t <- lift (shl8 a (d_used s)) ;;
  r <- lift (shr8 t lz) ;;
  x <- (if n >? unused then
          b <- lift (idx (d_buf s) (d_pos s + 1)) ;;
          q <- lift (shr8 b (unused + lz)) ;;
          ret (Z.lor r q)
        else ret r) ;;
  drop_bits n ;;;
  ret x.

(* pub fn u8 *)
Definition dec_u8 : M Z := dec_bits8 8.

Definition dec_fuel (s : dec) : nat := S (8 * length (d_buf s)).

(* pub fn filler: while self.zero()? {} *)
Fixpoint filler_loop (fuel : nat) : M unit :=
  match fuel with
  | O => fail E_FUEL
  | S f => z <- dec_zero ;; if z then filler_loop f else ret tt
  end.
Definition dec_filler : M unit := s <- get ;; filler_loop (dec_fuel s).

(* fn byte_array *)
Fixpoint blk_loop (fuel : nat) (blk_len : Z) (acc : list Z) : M (list Z) :=
  if blk_len =? 0 then ret acc else
  match fuel with
  | O => fail E_FUEL
  | S f =>
      ensure_bytes (blk_len + 1) ;;;
      s <- get ;;
      chunk <- lift (slice (d_buf s) (d_pos s) (d_pos s + blk_len)) ;;
      set_pos (d_pos s + blk_len) ;;;
      nxt <- lift (idx (d_buf s) (d_pos s + blk_len)) ;;
      set_pos (d_pos s + blk_len + 1) ;;;
      blk_loop f nxt (acc ++ chunk)
  end.
Definition dec_byte_array : M (list Z) :=
  s <- get ;;
  if negb (d_used s =? 0) then fail E_ALIGN else
  ensure_bytes 1 ;;;
  blk_len <- lift (idx (d_buf s) (d_pos s)) ;;
  set_pos (d_pos s + 1) ;;;
  blk_loop (dec_fuel s) blk_len [].

(* pub fn bytes *)
Definition dec_bytes : M (list Z) := dec_filler ;;; dec_byte_array.

(* pub fn word *)
Fixpoint word_loop (fuel : nat) (final shl : Z) : M Z :=
  match fuel with
  | O => fail E_FUEL
  | S f =>
      w8 <- dec_bits8 8 ;;
      let w7 := Z.land w8 127 in
      (* if shl >= usize::BITS || ((w7 as usize) << shl) >> shl != w7 { return Err(Message) } *)
      if shl >=? 64 then fail E_MSG else
      t <- lift (shl64 w7 shl) ;;
      back <- lift (shr64 t shl) ;;
      if negb (back =? w7) then fail E_MSG else
      t' <- lift (shl64 w7 shl) ;;
      let final' := Z.lor final t' in
      if Z.land w8 128 >? 0 then word_loop f final' (shl + 7) else ret final'
  end.
Definition dec_word : M Z := s <- get ;; word_loop (dec_fuel s) 0 0.

(* zigzag.rs, impl ZigZag for usize: ((self >> 1) as isize) ^ -((self & 1) as isize) *)
Definition unzigzag (u : Z) : Z := Z.lxor (Z.shiftr u 1) (- (Z.land u 1)).
(* pub fn integer *)
Definition dec_integer : M Z := w <- dec_word ;; ret (unzigzag w).

(* char::from_u32 *)
Definition scalar_value (c : Z) : bool :=
  ((0 <=? c) && (c <? 55296)) || ((57344 <=? c) && (c <=? 1114111)).
(* pub fn char: self.word()? as u32 *)
Definition dec_char : M Z :=
  w <- dec_word ;;
  let c := w mod 2 ^ 32 in
  if scalar_value c then ret c else fail E_CHAR.

(* pub fn string: while self.bit()? { s += char } *)
Fixpoint string_loop (fuel : nat) (acc : list Z) : M (list Z) :=
  match fuel with
  | O => fail E_FUEL
  | S f => b <- dec_bit ;; if b then (c <- dec_char ;; string_loop f (acc ++ [c])) else ret acc
  end.
Definition dec_string : M (list Z) := s <- get ;; string_loop (dec_fuel s) [].

(* String::from_utf8 accepts exactly the well-formed byte sequences of the
   Unicode standard (Table 3-7). *)
Definition cont (b : Z) : bool := (128 <=? b) && (b <=? 191).
Fixpoint utf8_valid (l : list Z) : bool :=
  match l with
  | [] => true
  | a :: r =>
    if (0 <=? a) && (a <=? 127) then utf8_valid r
    else if (194 <=? a) && (a <=? 223) then
      match r with b :: r1 => cont b && utf8_valid r1 | _ => false end
    else if (224 <=? a) && (a <=? 239) then
      match r with
      | b :: c :: r2 =>
        (if a =? 224 then (160 <=? b) && (b <=? 191)
         else if a =? 237 then (128 <=? b) && (b <=? 159) else cont b)
        && cont c && utf8_valid r2
      | _ => false end
    else if (240 <=? a) && (a <=? 244) then
      match r with
      | b :: c :: d :: r3 =>
        (if a =? 240 then (144 <=? b) && (b <=? 191)
         else if a =? 244 then (128 <=? b) && (b <=? 143) else cont b)
        && cont c && cont d && utf8_valid r3
      | _ => false end
    else false
  end.

(* pub fn utf8 *)
Definition dec_utf8 : M (list Z) :=
  bs <- dec_bytes ;; if utf8_valid bs then ret bs else fail E_UTF8.

(* Decoded values and the calls of a script. *)
Inductive dval : Type :=
| DUnit | DBool (b : bool) | DU8 (z : Z) | DWord (z : Z) | DInt (z : Z) | DChar (z : Z)
| DBytes (l : list Z) | DUtf8 (l : list Z) | DString (l : list Z) | DBits (z : Z)
| DList (l : list dval).

Inductive op : Type :=
| OBool | OU8 | OWord | OInteger | OChar | OBytes | OUtf8 | OFiller | OString
| OBits8 (n : Z)          (* bits8(n), n : usize *)
| OList (elem : op).      (* decode_list_with(elem) *)

(* pub fn decode_list_with: while self.bit()? { push(f(self)?) } *)
Fixpoint list_loop (elem : M dval) (fuel : nat) (acc : list dval) : M (list dval) :=
  match fuel with
  | O => fail E_FUEL
  | S f => b <- dec_bit ;; if b then (v <- elem ;; list_loop elem f (acc ++ [v])) else ret acc
  end.

Fixpoint run_op (o : op) : M dval :=
  match o with
  | OBool => b <- dec_bool ;; ret (DBool b)
  | OU8 => x <- dec_u8 ;; ret (DU8 x)
  | OWord => x <- dec_word ;; ret (DWord x)
  | OInteger => x <- dec_integer ;; ret (DInt x)
  | OChar => x <- dec_char ;; ret (DChar x)
  | OBytes => x <- dec_bytes ;; ret (DBytes x)
  | OUtf8 => x <- dec_utf8 ;; ret (DUtf8 x)
  | OFiller => dec_filler ;;; ret DUnit
  | OString => x <- dec_string ;; ret (DString x)
  | OBits8 n => x <- dec_bits8 n ;; ret (DBits x)
  | OList e => s <- get ;; l <- list_loop (run_op e) (dec_fuel s) [] ;; ret (DList l)
  end.

(* n : usize *)
Fixpoint op_wf (o : op) : Prop :=
  match o with
  | OBits8 n => 0 <= n < 2 ^ 64
  | OList e => op_wf e
  | _ => True
  end.

(* A script: the calls are made one after another on the same decoder; an
   error does not stop the script (the decoder is still usable), a panic does. *)
Fixpoint run_script (ops : list op) (s : dec) : list (outcome dval) * dec :=
  match ops with
  | [] => ([], s)
  | o :: rest =>
    match run_op o s with
    | (Panic p, s') => ([Panic p], s')
    | (r, s') => let (rs, s'') := run_script rest s' in (r :: rs, s'')
    end
  end.

(* flat::decode::<T>(bytes): value, then filler; first error wins. *)
Definition flat_decode (o : op) (bs : list Z) : outcome dval :=
  fst ((v <- run_op o ;; dec_filler ;;; ret v) (mk_dec bs)).
