(* C12 model = the shared symbolic KES model (Kes/Model.v: terms, keygen_slice,
   update_slice, sign/verify/recompute, signature (de)serialisation) plus the
   object-level API used by the property statements. *)
From PV Require Export Lib.Base Kes.Model.
Open Scope Z_scope.

(* the key obtained by KesSk::keygen(key_buffer, seed) followed by n successful update()s *)
Definition evolve (d : nat) (key_buffer : list term) (seed : term) (n : nat) : option key :=
  let '(k, _, _) := keygen d key_buffer seed in updates d n k.
(* the public key returned by keygen *)
Definition pk_of (d : nat) (key_buffer : list term) (seed : term) : term :=
  let '(_, pk, _) := keygen d key_buffer seed in pk.

(* KesSk::sign for the two constructions *)
Definition sign_sum_key (d : nat) (k : key) (m : Z) : sumsig := sign_sum d (key_buf k) m.
Definition sign_cmp_key (d : nat) (k : key) (m : Z) : cmpsig :=
  sign_cmp d (key_buf k) m (get_period k).

(* shape of a signature value of the depth-d type *)
Fixpoint sumsig_depth (sig : sumsig) : nat :=
  match sig with SLeaf _ _ => O | SNode s _ _ => S (sumsig_depth s) end.
Fixpoint cmpsig_depth (sig : cmpsig) : nat :=
  match sig with CLeaf _ _ _ => O | CNode s _ => S (cmpsig_depth s) end.
(* the EdPublicKey field of a Sum0CompactKesSig is a curve point by construction *)
Fixpoint cmpsig_wf (sig : cmpsig) : bool :=
  match sig with CLeaf _ _ vk => is_point vk | CNode s _ => cmpsig_wf s end.
