(* C33 - property theorems only. Statements are pinned by vp/check.py. *)
From PV Require Import Lib.Base C33.Model C33.ModelPA C33.Proofs.
Open Scope Z_scope.

(* The one known class on which a modelled operation can still panic: an overflow-checked build [dev]
   validating a Shelley-MA transaction that carries a MIR certificate at a block slot so large that the
   first slot of the next epoch does not fit in u64 (first_slot = GenesisValues::relative_slot_to_absolute,
   pallas-traverse/src/time.rs, multiplies and adds in plain u64). *)
Definition known_mir_deadline (dev : bool) (t : tx) (e : env) : Prop :=
  dev = true /\ existsb is_mir (opt_list (t_certs t)) = true /\
  U64 <= 4492800 + (to_epoch (e_slot e) + 1 - 208) * 432000.

(* Phase-1 validation (the five era validators - now including shelley_ma::check_certificates with its
   pointer bookkeeping, deposits counters, retirement bounds, genesis delegations, MIR sums and the
   epoch/slot arithmetic - and the dispatch of validate_tx, as modelled) never panics: for every
   transaction, certificate state, UTxO set and environment whose numeric fields are in the ranges of
   their Rust types, in both build profiles, outside the known class. *)
Theorem validate_total : forall dev t u e,
  wf_params (e_pp e) = true -> wf_tx t = true -> wf_utxo u = true -> ~ known_mir_deadline dev t e ->
  is_panic (validate dev t u e) = false.
Proof.
  intros dev t u e Hp Ht Hu Hk. apply validate_np; try assumption. unfold mir_slot_ok.
  destruct (existsb is_mir (opt_list (t_certs t))) eqn:Em; [|left; reflexivity]. right.
  destruct dev; [right | left; reflexivity].
  destruct (Z_lt_le_dec (4492800 + (to_epoch (e_slot e) + 1 - 208) * 432000) U64) as [Hl|Hl]; [exact Hl|].
  exfalso. apply Hk. repeat split; assumption.
Qed.

(* the same for every rule function of the era validator taken on its own (also after an earlier rule failed) *)
Theorem rules_total : forall dev t u e,
  wf_params (e_pp e) = true -> wf_tx t = true -> wf_utxo u = true -> ~ known_mir_deadline dev t e ->
  Forall (fun c => is_panic c = false) (era_checks dev t u e).
Proof.
  intros dev t u e Hp Ht Hu Hk. apply era_checks_np; try assumption. unfold mir_slot_ok.
  destruct (existsb is_mir (opt_list (t_certs t))) eqn:Em; [|left; reflexivity]. right.
  destruct dev; [right | left; reflexivity].
  destruct (Z_lt_le_dec (4492800 + (to_epoch (e_slot e) + 1 - 208) * 432000) U64) as [Hl|Hl]; [exact Hl|].
  exfalso. apply Hk. repeat split; assumption.
Qed.

(* block slots of any realistic chain are far inside the safe range: below 2^63 nothing is excluded *)
Theorem known_class_needs_huge_slot : forall dev t e, 0 <= e_slot e < 2 ^ 63 -> ~ known_mir_deadline dev t e.
Proof.
  intros dev t e Hs (_ & _ & H). unfold to_epoch, U64 in H.
  destruct (e_slot e <? 4492800) eqn:E; lia.
Qed.

(* the unchecked operations that remain in the validators cannot overflow on in-range operands *)
Theorem collateral_percentage_no_overflow : forall paid fee pct,
  paid < U64 -> 0 <= fee < U64 -> 0 <= pct < U32 -> is_panic (pct_below paid fee pct) = false.
Proof. exact np_pct_below. Qed.
Theorem min_fee_no_overflow : forall dev pp size, wf_params pp = true -> is_panic (min_fee_u32 dev pp size) = false.
Proof. exact np_min_fee. Qed.

(* the known class is real: an Allegra transaction with one MIR certificate validated at slot 2^64-1 *)
Definition empty_cstate : cstate := Build_cstate [] [] [] [] [] [] [].
Definition refute_uout : uout := Build_uout EAlonzoC 2 true (AShelley 1 (PKey 5)) (VCoin 10) DNone None 0 [].
Definition refute_tx : tx :=
  Build_tx 2 100 [(1, 0)] [] 0 (Some (U64 - 1)) None None None None None None None None None None []
           None None (Some []) None None None None None None (Some [CMir false None]) empty_cstate None [] [].
Definition refute_env : env :=
  Build_env (Build_params 1 0 0 16384 0 0 0 0 0 0 0 0 0 false false false 0 0 0 18) 764824073 (U64 - 1) 1 true 0 0.
Theorem validate_total_refuted :
  wf_params (e_pp refute_env) = true /\ wf_tx refute_tx = true /\ wf_utxo [((false, 1, 0), refute_uout)] = true /\
  is_panic (validate true refute_tx [((false, 1, 0), refute_uout)] refute_env) = true.
Proof. vm_compute. repeat split; reflexivity. Qed.

(* non-vacuity: two stake registrations in one transaction satisfy every hypothesis; validation returns
   PointerInUse (221): the certificates at positions 0 and 1 share certificate index 0 *)
Definition ex_tx : tx :=
  Build_tx 3 100 [(1, 0)] [] 0 (Some 100) None None None None None None None None None None []
           None None (Some []) None None None None None None (Some [CReg 10; CReg 12]) empty_cstate None [] [].
Definition ex_env : env :=
  Build_env (Build_params 1 0 0 16384 0 0 0 0 0 0 0 0 0 false false false 0 0 0 18) 764824073 50 1 true 0 0.
Example validate_total_example :
  wf_params (e_pp ex_env) = true /\ wf_tx ex_tx = true /\ wf_utxo [((false, 1, 0), refute_uout)] = true /\
  ~ known_mir_deadline true ex_tx ex_env /\
  validate true ex_tx [((false, 1, 0), refute_uout)] ex_env = Err 221.
Proof. repeat split; try reflexivity. intros (_ & H & _). discriminate. Qed.
