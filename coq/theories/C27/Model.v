(* C27 model: the initiator machine of P2p/Initiator.v plus the property's
   vocabulary: the set invariant, and "Connect p is emitted". Definitions only. *)
From PV Require Export Lib.Base P2p.Proto P2p.Initiator.
Open Scope Z_scope.

Definition disjoint (a b : list Z) : Prop := forall x, In x a -> ~ In x b.

(* the four promotion sets are pairwise disjoint and within the configured limits *)
Definition Inv (c : cfg) (st : ist) : Prop :=
  let p := pr st in
  disjoint (cold p) (warm p) /\ disjoint (cold p) (hot p) /\ disjoint (cold p) (banned p) /\
  disjoint (warm p) (hot p) /\ disjoint (warm p) (banned p) /\ disjoint (hot p) (banned p) /\
  len (warm p) <= max_warm c /\ len (hot p) <= max_hot c /\ total p <= max_peers c.

(* boolean version, for concrete witnesses *)
Definition disjointb (a b : list Z) : bool := forallb (fun x => negb (mem x b)) a.
Definition invb (c : cfg) (st : ist) : bool :=
  let p := pr st in
  disjointb (cold p) (warm p) && disjointb (cold p) (hot p) && disjointb (cold p) (banned p) &&
  disjointb (warm p) (hot p) && disjointb (warm p) (banned p) && disjointb (hot p) (banned p) &&
  (len (warm p) <=? max_warm c) && (len (hot p) <=? max_hot c) && (total p <=? max_peers c).

(* state after a history (None: the machine panicked) *)
Definition state_after (c : cfg) (evs : list event) : option ist :=
  match run c init evs with Ok (st, _) => Some st | _ => None end.

Definition connects (p : Z) (out : list output) : bool :=
  existsb (fun o => match o with OConnect q => q =? p | _ => false end) out.
