(* C14 — property theorems only. Statements are pinned by vp/check.py. *)
From PV Require Import Lib.Base C14.Model C14.Proofs.
Open Scope Z_scope.

Theorem memcmp_step : forall res d,
  -255 <= res <= 255 -> -255 <= d <= 255 -> step res d = if d =? 0 then res else d.
Proof. exact step_spec. Qed.

Theorem memcmp_lex : forall a b,
  bytes_wf a -> bytes_wf b -> length a = length b -> a <> [] -> memcmp a b = lex_compare a b.
Proof. intros a b Ha Hb Hl _. exact (memcmp_lex_proof a b Ha Hb Hl). Qed.

Theorem memcmp_no_i32_overflow : forall a b,
  bytes_wf a -> bytes_wf b -> -255 <= memcmp_acc a b <= 255.
Proof. exact memcmp_acc_range. Qed.

Theorem lex_compare_zero_iff_eq : forall a b, length a = length b -> (lex_compare a b = 0 <-> a = b).
Proof. exact lex_compare_eq. Qed.

Theorem memeq_iff : forall a b, length a = length b -> a <> [] -> (memeq a b = true <-> a = b).
Proof. intros a b Hl _. exact (memeq_iff_proof a b Hl). Qed.

(* non-vacuity: concrete non-trivial inputs meeting the hypotheses *)
Example memcmp_example :
  bytes_wf [1; 2; 255] /\ bytes_wf [1; 3; 0] /\ memcmp [1; 2; 255] [1; 3; 0] = -1 /\
  memeq [1; 2; 255] [1; 2; 255] = true.
Proof. repeat split; try (apply bytes_wfb_spec; reflexivity). Qed.
