(* C11 — test vectors tying the executable model to its references:
   curve constants, FIPS 180-4 SHA-512, RFC 8032 section 7.1.  All by vm_compute.
   Required by C11/Run.v (so it is rebuilt and checked by coqc on every run);
   kept out of the cone of Props.v because coqchk re-checks vm_compute proofs by
   lazy reduction, which takes ~1 min per scalar multiplication. *)
Require Import Coq.Strings.String.
From PV Require Import Lib.Base Crypto.Hex Crypto.Sha512 Crypto.Ed25519Spec C11.Model.
Open Scope Z_scope.

(* ---- constants ---- *)
Example curve_constants :
  (d25519 * 121666 + 121665) mod p25519 = 0 /\ (5 * By) mod p25519 = 4 /\
  (By * By - Bx * Bx - 1 - d25519 * (Bx * Bx mod p25519) * (By * By mod p25519)) mod p25519 = 0 /\
  Bx mod 2 = 0 /\ (sqrtm1 * sqrtm1 + 1) mod p25519 = 0 /\
  compress (psmul Lord Bpt) = compress pid /\ compress (psmul_base Lord) = compress pid /\
  compress (psmul_base 123456789123456789) = compress (psmul 123456789123456789 Bpt).
Proof. vm_compute. repeat split; reflexivity. Qed.

(* ---- FIPS 180-4 SHA-512 ---- *)
Example sha512_abc :
  sha512 (str_bytes "abc") =
  unhex "ddaf35a193617abacc417349ae20413112e6fa4e89a97ea20a9eeee64b55d39a2192992a274fc1a836ba3c23a3feebbd454d4423643ce80e2a9ac94fa54ca49f".
Proof. vm_compute. reflexivity. Qed.
Example sha512_empty :
  sha512 [] =
  unhex "cf83e1357eefb8bdf1542850d66d8007d620e4050b5715dc83f4a921d36ce9ce47d0d13c5d85f2b0ff8318d2877eec2f63b931bd47417a81a538327af927da3e".
Proof. vm_compute. reflexivity. Qed.
Example sha512_two_blocks :
  sha512 (str_bytes "abcdefghbcdefghicdefghijdefghijkefghijklfghijklmghijklmnhijklmnoijklmnopjklmnopqklmnopqrlmnopqrsmnopqrstnopqrstu") =
  unhex "8e959b75dae313da8cf4f72814fc143f8f7779c6eb9f7fa17299aeadb6889018501d289e4900f7e4331b99dec4b5433ac7d329eeb6dd26545e96e55b874be909".
Proof. vm_compute. reflexivity. Qed.

(* ---- RFC 8032 section 7.1 test vectors ---- *)
Example rfc8032_test1 :
  let sk := unhex "9d61b19deffd5a60ba844af492ec2cc44449c5697b326919703bac031cae7f60" in
  let pk := unhex "d75a980182b10ab7d54bfed3c964073a0ee172f3daa62325af021a68f707511a" in
  let sg := unhex "e5564300c360ac729086e2cc806e828a84877f1eb8e5d974d873e065224901555fb8821590a33bacc61e39701cf9b46bd25bf5f0595bbe24655141438e7a100b" in
  sk_public_key sk = pk /\ sk_sign sk [] = sg /\ pk_verify pk [] sg = true /\ rfc_verify pk [] sg = true /\
  pk_verify pk [0] sg = false.
Proof. vm_compute. repeat split; reflexivity. Qed.

Example rfc8032_test2 :
  let sk := unhex "4ccd089b28ff96da9db6c346ec114e0f5b8a319f35aba624da8cf6ed4fb8a6fb" in
  let pk := unhex "3d4017c3e843895a92b70aa74d1b7ebc9c982ccf2ec4968cc0cd55f12af4660c" in
  let sg := unhex "92a009a9f0d4cab8720e820b5f642540a2b27b5416503f8fb3762223ebdb69da085ac1e43e15996e458f3613d0f11d8c387b2eaeb4302aeeb00d291612bb0c00" in
  sk_public_key sk = pk /\ sk_sign sk [114] = sg /\ pk_verify pk [114] sg = true.
Proof. vm_compute. repeat split; reflexivity. Qed.

Example rfc8032_test3 :
  let sk := unhex "c5aa8df43f9f837bedb7442f31dcb7b166d38535076f094b85ce3a2e0b4458f7" in
  let pk := unhex "fc51cd8e6218a1a38da47ed00230f0580816ed13ba3303ac5deb911548908025" in
  let sg := unhex "6291d657deec24024827e69c3abe01a30ce548a284743a445e3680d7db5ac3ac18ff9b538d16f290ae67f760984dc6594a7c15e9716ed28dc027beceea1ec40a" in
  sk_public_key sk = pk /\ sk_sign sk [175; 130] = sg.
Proof. vm_compute. repeat split; reflexivity. Qed.

Example rfc8032_test_sha_abc :
  let sk := unhex "833fe62409237b9d62ec77587520911e9a759cec1d19755b7da901b96dca3d42" in
  let pk := unhex "ec172b93ad5e563bf4932c70e1245034c35467ef2efd4d64ebf819683467e2bf" in
  let sg := unhex "dc2a4459e7369633a52b1bf277839a00201009a3efbf3ecb69bea2186c26b58909351fc9ac90b3ecfdfbc7c66431e0303dca179c138ac17ad9bef1177331a704" in
  sk_public_key sk = pk /\ sk_sign sk (sha512 (str_bytes "abc")) = sg.
Proof. vm_compute. repeat split; reflexivity. Qed.

