(* CBOR core — end-of-input laws: a strict prefix of the encoding of a
   well-formed item decodes to [DEoi] — never [DOk], never [DErr].

     prefix_eoi_fuel : wf_item i = true -> encode_item i = p ++ q -> q <> [] ->
                       (length p < f)%nat -> decode_item f p = DEoi
     prefix_eoi      : wf_item i = true -> encode_item i = p ++ q -> q <> [] -> decode p = DEoi

   (the lemma behind segment-boundary independence, C21). *)
From PV Require Import Lib.Base Cbor.Item Cbor.Enc Cbor.Dec Cbor.HeadLaws Cbor.Laws.
Open Scope Z_scope.

(* ---- primitives ---- *)
Lemma take_prefix_eoi b p q : b = p ++ q -> q <> [] -> take (len b) p = DEoi.
Proof.
  intros -> Hq. apply take_eoi. rewrite len_app. unfold len. destruct q; [congruence|]. cbn [length]. lia.
Qed.

Lemma dec_head_prefix_eoi m w n p q :
  arg_fits w n -> enc_head m w n = p ++ q -> q <> [] -> dec_head p = DEoi.
Proof.
  intros Hfit E Hq. destruct p as [|b t]; [reflexivity|].
  pose proof (dec_head_enc m w n [] Hfit) as Hd. rewrite app_nil_r in Hd.
  assert (Hw : w <> W0).
  { intros ->. cbn [enc_head] in E. inversion E as [[Hb Ht]]. destruct t; [|discriminate].
    cbn in Ht. subst q. congruence. }
  assert (Henc : enc_head m w n = (major_code m * 32 + width_info w) :: be_bytes (width_nbytes w) n)
    by (destruct w; try reflexivity; congruence).
  rewrite Henc in E. cbn [app] in E. inversion E as [[Hb Ht]]. subst b.
  assert (Hinfo : 24 <= width_info w <= 27) by (destruct w; cbn; try lia; congruence).
  unfold dec_head.
  destruct (initial_byte m (width_info w) ltac:(lia)) as (Hbb & Hm & Hi). rewrite Hbb, Hm, Hi. cbn [negb].
  destruct (width_info w <? 24) eqn:E1; [lia|].
  destruct (width_info w =? 31) eqn:E2; [lia|].
  assert (Hwi : width_of_info (width_info w) = Some w) by (destruct w; try reflexivity; congruence).
  rewrite Hwi. rewrite take_eoi; [reflexivity|].
  assert (Hl : length (be_bytes (width_nbytes w) n) = length (t ++ q)) by (rewrite Ht; reflexivity).
  rewrite be_bytes_length, app_length in Hl. unfold len. destruct q; [congruence|]. cbn [length] in Hl. lia.
Qed.

(* ---- "good" elements: complete below the size bound, EOI on strict prefixes, first byte not a break ---- *)
Section PrefixLoops.
  Context {A : Type} (dec : list Z -> dres (A * list Z)) (enc : A -> list Z) (N : nat).

  Definition good (x : A) : Prop :=
    ((length (enc x) < N)%nat -> forall r, dec (enc x ++ r) = DOk (x, r)) /\
    (forall p q, enc x = p ++ q -> q <> [] -> (length p < N)%nat -> dec p = DEoi) /\
    (exists b t, enc x = b :: t /\ b <> break_byte).

  Lemma split_elem x rest p q :
    enc x ++ rest = p ++ q ->
    (exists l, l <> [] /\ enc x = p ++ l) \/ (exists l, p = enc x ++ l /\ rest = l ++ q).
  Proof.
    intros E. apply app_eq_app in E as [l [[H1 H2]|[H1 H2]]].
    - destruct l as [|c l]; [right; exists []; rewrite app_nil_r in H1; cbn in H2; subst; rewrite app_nil_r; split; reflexivity|].
      left. exists (c :: l). split; [discriminate|exact H1].
    - right. exists l. auto.
  Qed.

  Lemma seq_loop_prefix_eoi xs :
    Forall good xs ->
    forall k p q, concat (map enc xs) = p ++ q -> q <> [] -> (length p < N)%nat -> (length p < k)%nat ->
      seq_loop dec k (len xs) p = DEoi.
  Proof.
    induction 1 as [|x xs (Hc & Hp & (b & t & Hb & _)) _ IH]; intros k p q E Hq HN Hk.
    - cbn in E. destruct p; [cbn in E; congruence|discriminate].
    - destruct k as [|k]; [lia|]. cbn [seq_loop]. rewrite len_cons.
      destruct (1 + len xs <=? 0) eqn:E0; [pose proof (len_nonneg xs); lia|].
      cbn [map concat] in E. apply split_elem in E as [(l & Hl & Ex)|(l & Ep & Er)].
      + rewrite (Hp p l Ex Hl HN). reflexivity.
      + subst p. rewrite app_length in HN, Hk. rewrite Hc by lia. cbn [dbind].
        replace (1 + len xs - 1) with (len xs) by lia.
        assert (Hne : (1 <= length (enc x))%nat) by (rewrite Hb; cbn; lia).
        rewrite (IH k l q Er Hq) by lia. reflexivity.
  Qed.

  Lemma until_loop_prefix_eoi xs :
    Forall good xs ->
    forall k p q, concat (map enc xs) ++ [break_byte] = p ++ q -> q <> [] ->
      (length p < N)%nat -> (length p < k)%nat ->
      until_loop dec k p = DEoi.
  Proof.
    induction 1 as [|x xs (Hc & Hp & (b & t & Hb & Hne)) _ IH]; intros k p q E Hq HN Hk.
    - destruct k as [|k]; [lia|]. cbn in E. destruct p as [|c p]; [reflexivity|].
      inversion E as [[Hc Hp]]. destruct p; [|discriminate]. cbn in Hp. congruence.
    - destruct k as [|k]; [lia|]. cbn [until_loop].
      destruct p as [|c p']; [reflexivity|].
      cbn [map concat] in E. rewrite <- app_assoc in E.
      assert (Hcb : c = b).
      { rewrite Hb in E. cbn [app] in E. inversion E. reflexivity. }
      subst c. destruct (b =? break_byte) eqn:E0; [lia|].
      apply split_elem in E as [(l & Hl & Ex)|(l & Ep & Er)].
      + rewrite (Hp _ l Ex Hl HN). reflexivity.
      + rewrite Ep in *. rewrite app_length in HN, Hk. rewrite Hc by lia. cbn [dbind].
        assert (Hne1 : (1 <= length (enc x))%nat) by (rewrite Hb; cbn; lia).
        rewrite (IH k l q Er Hq) by lia. reflexivity.
  Qed.
End PrefixLoops.

Lemma good_pair {A B} (dk : list Z -> dres (A * list Z)) (dv : list Z -> dres (B * list Z)) ek ev N k v :
  good dk ek N k -> good dv ev N v ->
  good (pair_dec dk dv) (fun kv => ek (fst kv) ++ ev (snd kv)) N (k, v).
Proof.
  intros (Hck & Hpk & (b & t & Hb & Hne)) (Hcv & Hpv & _). unfold good. cbn [fst snd]. split; [|split].
  - intros Hl r. rewrite app_length in Hl. apply pair_dec_complete; [apply Hck|apply Hcv]; lia.
  - intros p q E Hq HN. unfold pair_dec.
    apply split_elem in E as [(l & Hl & Ex)|(l & Ep & Er)].
    + rewrite (Hpk p l Ex Hl HN). reflexivity.
    + subst p. rewrite app_length in HN. rewrite Hck by lia. cbn [dbind].
      rewrite (Hpv l q Er Hq) by lia. reflexivity.
  - exists b, (t ++ ev v). rewrite Hb. split; [reflexivity|exact Hne].
Qed.

Lemma good_chunk m N c :
  wf_chunk m c -> (m = MajText \/ m = MajBytes) -> good (dec_chunk m) (enc_chunk m) N c.
Proof.
  intros Hwf Hm. split; [|split].
  - intros _ r. apply dec_chunk_complete; assumption.
  - destruct c as [w b]. destruct Hwf as (Hfit & Hb & Hu). cbn [fst snd] in *.
    intros p q E Hq _. unfold enc_chunk in E. cbn [fst snd] in E.
    destruct p as [|b0 t0]; [reflexivity|].
    destruct (enc_head_first_facts m w (len b) Hfit) as (b1 & t1 & E1 & Hb1 & Hm1 & H31).
    assert (Hb01 : b0 = b1) by (rewrite E1 in E; cbn [app] in E; inversion E; reflexivity). subst b1.
    unfold dec_chunk. rewrite Hb1, Hm1, H31, major_eqb_refl. cbn [negb andb].
    apply app_eq_app in E as [l [[H1 H2]|[H1 H2]]].
    + destruct l as [|c l].
      * rewrite app_nil_r in H1. rewrite <- H1. cbn [app] in H2. subst q.
        rewrite <- (app_nil_r (enc_head m w (len b))), dec_head_enc by exact Hfit. cbn [dbind].
        rewrite take_eoi; [reflexivity|]. unfold len. destruct b; [congruence|]. cbn [length]. lia.
      * rewrite (dec_head_prefix_eoi m w (len b) (b0 :: t0) (c :: l) Hfit H1); [reflexivity|discriminate].
    + rewrite H1. rewrite dec_head_enc by exact Hfit. cbn [dbind].
      rewrite (take_prefix_eoi b l q H2 Hq). reflexivity.
  - apply enc_chunk_first with (m := m). exact Hwf.
Qed.

(* ---- items ---- *)
Definition prefix_ok (i : item) : Prop :=
  wf_item i = true -> forall f p q, encode_item i = p ++ q -> q <> [] -> (length p < f)%nat ->
  decode_item f p = DEoi.

Lemma good_item N x :
  prefix_ok x -> wf_item x = true -> good (decode_item N) encode_item N x.
Proof.
  intros Hp Hwf. split; [|split].
  - intros Hl r. apply dec_enc_ge; [exact Hwf|]. pose proof (fuel_of_le_length x). lia.
  - intros p q E Hq HN. apply (Hp Hwf N p q E Hq HN).
  - apply encode_item_first, Hwf.
Qed.

Lemma good_items N xs :
  Forall prefix_ok xs -> forallb wf_item xs = true -> Forall (good (decode_item N) encode_item N) xs.
Proof.
  intros HP Hwf. apply forallb_Forall in Hwf. rewrite Forall_forall in *.
  intros x Hx. apply good_item; auto.
Qed.

Lemma good_pairs N kvs :
  Forall (fun kv => prefix_ok (fst kv) /\ prefix_ok (snd kv)) kvs -> forallb wf_pair kvs = true ->
  Forall (good (pair_dec (decode_item N) (decode_item N)) encode_pair N) kvs.
Proof.
  intros HP Hwf. apply forallb_Forall in Hwf. rewrite Forall_forall in *.
  intros [k v] Hx. specialize (HP _ Hx) as [Hk Hv]. specialize (Hwf _ Hx). unfold wf_pair in Hwf.
  cbn [fst snd] in *. apply andb_true_iff in Hwf as [Hwk Hwv].
  apply (good_pair (decode_item N) (decode_item N) encode_item encode_item N k v); apply good_item; assumption.
Qed.

(* a strict prefix that ends inside (or right after) the head of a definite item *)
Lemma head_then m w n body p q :
  arg_fits w n -> enc_head m w n ++ body = p ++ q -> q <> [] ->
  dec_head p = DEoi \/ exists l, p = enc_head m w n ++ l /\ body = l ++ q /\ (length l < length p)%nat.
Proof.
  intros Hfit E Hq. apply app_eq_app in E as [l [[H1 H2]|[H1 H2]]].
  - destruct l as [|c l].
    + right. exists []. rewrite app_nil_r in H1. cbn [app] in H2. subst p q. rewrite app_nil_r.
      split; [reflexivity|]. split; [reflexivity|]. rewrite enc_head_length. cbn [length]. lia.
    + left. eapply dec_head_prefix_eoi; [exact Hfit|exact H1|discriminate].
  - right. exists l. subst p. split; [reflexivity|]. split; [exact H2|].
    rewrite app_length, enc_head_length. lia.
Qed.

Lemma indef_then m body p q :
  enc_indef m ++ body = p ++ q -> p = [] \/ exists l, p = enc_indef m ++ l /\ body = l ++ q /\ (length l < length p)%nat.
Proof.
  unfold enc_indef. cbn [app]. intros E. destruct p as [|b t]; [left; reflexivity|right].
  inversion E as [[Hb Ht]]. exists t. cbn [app length]. split; [reflexivity|]. split; [reflexivity|lia].
Qed.

Lemma prefix_all i : prefix_ok i.
Proof.
  induction i as [w n|w n|w b|cs|w b|cs|w xs IHxs|xs IHxs|w kvs IHkvs|kvs IHkvs|w t x IHx|w n]
    using item_ind'; intros Hwf f p q E Hq Hf;
    (destruct f as [|f]; [lia|]); cbn [decode_item].
  - cbn [wf_item encode_item] in *. apply arg_fitsb_spec in Hwf.
    rewrite (dec_head_prefix_eoi _ _ _ _ _ Hwf E Hq). reflexivity.
  - cbn [wf_item encode_item] in *. apply arg_fitsb_spec in Hwf.
    rewrite (dec_head_prefix_eoi _ _ _ _ _ Hwf E Hq). reflexivity.
  - cbn [wf_item encode_item] in *. apply andb_true_iff in Hwf as [Hfit Hb]. apply arg_fitsb_spec in Hfit.
    destruct (head_then _ _ _ _ _ _ Hfit E Hq) as [Hd|(l & -> & Hbody & _)]; [rewrite Hd; reflexivity|].
    rewrite dec_head_enc by exact Hfit. cbn [dbind]. rewrite (take_prefix_eoi b l q Hbody Hq). reflexivity.
  - cbn [wf_item encode_item] in *.
    destruct (indef_then _ _ _ _ E) as [->|(l & -> & Hbody & Hl)]; [reflexivity|].
    rewrite dec_head_indef. cbn [dbind].
    apply forallb_Forall in Hwf.
    assert (Hg : Forall (good (dec_chunk MajBytes) (enc_chunk MajBytes) (S (length l))) cs).
    { eapply Forall_impl; [|exact Hwf]. intros c Hc. apply good_chunk; [apply wf_bchunk_spec, Hc|auto]. }
    rewrite (until_loop_prefix_eoi _ _ _ cs Hg (budget l) l q Hbody Hq); [reflexivity|lia|unfold budget; lia].
  - cbn [wf_item encode_item] in *. apply andb_true_iff in Hwf as [Hwf Hu]. apply andb_true_iff in Hwf as [Hfit Hb].
    apply arg_fitsb_spec in Hfit.
    destruct (head_then _ _ _ _ _ _ Hfit E Hq) as [Hd|(l & -> & Hbody & _)]; [rewrite Hd; reflexivity|].
    rewrite dec_head_enc by exact Hfit. cbn [dbind]. rewrite (take_prefix_eoi b l q Hbody Hq). reflexivity.
  - cbn [wf_item encode_item] in *.
    destruct (indef_then _ _ _ _ E) as [->|(l & -> & Hbody & Hl)]; [reflexivity|].
    rewrite dec_head_indef. cbn [dbind].
    apply forallb_Forall in Hwf.
    assert (Hg : Forall (good (dec_chunk MajText) (enc_chunk MajText) (S (length l))) cs).
    { eapply Forall_impl; [|exact Hwf]. intros c Hc. apply good_chunk; [apply wf_tchunk_spec, Hc|auto]. }
    rewrite (until_loop_prefix_eoi _ _ _ cs Hg (budget l) l q Hbody Hq); [reflexivity|lia|unfold budget; lia].
  - rewrite encode_Array in E. cbn [wf_item] in Hwf. apply andb_true_iff in Hwf as [Hfit Hwf].
    apply arg_fitsb_spec in Hfit.
    destruct (head_then _ _ _ _ _ _ Hfit E Hq) as [Hd|(l & -> & Hbody & Hl)]; [rewrite Hd; reflexivity|].
    rewrite dec_head_enc by exact Hfit. cbn [dbind].
    pose proof (good_items f xs IHxs Hwf) as Hg. unfold encode_items in Hbody.
    rewrite (seq_loop_prefix_eoi _ _ _ xs Hg (budget l) l q Hbody Hq); [reflexivity|lia|unfold budget; lia].
  - rewrite encode_ArrayIndef in E. cbn [wf_item] in Hwf.
    destruct (indef_then _ _ _ _ E) as [->|(l & -> & Hbody & Hl)]; [reflexivity|].
    rewrite dec_head_indef. cbn [dbind].
    pose proof (good_items f xs IHxs Hwf) as Hg. unfold encode_items in Hbody.
    rewrite (until_loop_prefix_eoi _ _ _ xs Hg (budget l) l q Hbody Hq); [reflexivity|lia|unfold budget; lia].
  - rewrite encode_Map in E. rewrite wf_Map in Hwf. apply andb_true_iff in Hwf as [Hfit Hwf].
    apply arg_fitsb_spec in Hfit.
    destruct (head_then _ _ _ _ _ _ Hfit E Hq) as [Hd|(l & -> & Hbody & Hl)]; [rewrite Hd; reflexivity|].
    rewrite dec_head_enc by exact Hfit. cbn [dbind].
    pose proof (good_pairs f kvs IHkvs Hwf) as Hg. unfold encode_pairs in Hbody.
    rewrite (seq_loop_prefix_eoi _ _ _ kvs Hg (budget l) l q Hbody Hq); [reflexivity|lia|unfold budget; lia].
  - rewrite encode_MapIndef in E. rewrite wf_MapIndef in Hwf.
    destruct (indef_then _ _ _ _ E) as [->|(l & -> & Hbody & Hl)]; [reflexivity|].
    rewrite dec_head_indef. cbn [dbind].
    pose proof (good_pairs f kvs IHkvs Hwf) as Hg. unfold encode_pairs in Hbody.
    rewrite (until_loop_prefix_eoi _ _ _ kvs Hg (budget l) l q Hbody Hq); [reflexivity|lia|unfold budget; lia].
  - cbn [wf_item encode_item] in *. apply andb_true_iff in Hwf as [Hfit Hwf]. apply arg_fitsb_spec in Hfit.
    destruct (head_then _ _ _ _ _ _ Hfit E Hq) as [Hd|(l & -> & Hbody & Hl)]; [rewrite Hd; reflexivity|].
    rewrite dec_head_enc by exact Hfit. cbn [dbind].
    rewrite (IHx Hwf f l q Hbody Hq) by lia. reflexivity.
  - cbn [wf_item encode_item] in *. apply arg_fitsb_spec in Hwf.
    rewrite (dec_head_prefix_eoi _ _ _ _ _ Hwf E Hq). reflexivity.
Qed.

Theorem prefix_eoi_fuel i p q f :
  wf_item i = true -> encode_item i = p ++ q -> q <> [] -> (length p < f)%nat -> decode_item f p = DEoi.
Proof. intros Hwf. apply prefix_all, Hwf. Qed.

Theorem prefix_eoi i p q :
  wf_item i = true -> encode_item i = p ++ q -> q <> [] -> decode p = DEoi.
Proof. intros Hwf E Hq. unfold decode. apply (prefix_eoi_fuel i p q (budget p) Hwf E Hq). unfold budget. lia. Qed.

(* consequently a strict prefix is never a complete item, and never malformed *)
Corollary prefix_not_ok i p q x :
  wf_item i = true -> encode_item i = p ++ q -> q <> [] -> decode p <> DOk x.
Proof. intros Hwf E Hq. rewrite (prefix_eoi i p q Hwf E Hq). discriminate. Qed.
