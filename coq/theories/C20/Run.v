(* C20 correspondence: a case is one direction of one run of two real Plexers:
   (recorded byte stream with timestamps zeroed,
    [(wire id, chunks enqueued by the sending agent)],
    [(wire id, chunks dequeued by the agent listening on that id)]). *)
From PV Require Import Lib.Base C20.Model.
Open Scope Z_scope.

Definition rep (b n : Z) : list Z := repeat b (Z.to_nat n).

Definition case : Type := (list Z * list (Z * list (list Z)) * list (Z * list (list Z)))%type.

Definition bytes_eqb := list_eqb Z.eqb.
Definition chunks_eqb := list_eqb bytes_eqb.

(* model run: cut the bytes into segments, route them *)
Definition case_out (c : case) : list (Z * list (list Z)) * outcome unit :=
  let '(bytes, sent, _) := c in
  let '(w, fin) := parse bytes in (demux (map fst sent) w, fin).

Definition case_ok (c : case) : bool :=
  let '(bytes, sent, recvd) := c in
  let '(w, fin) := parse bytes in
  match fin with Ok _ => true | _ => false end
  (* every agent dequeued exactly the model's queue for its id *)
  && forallb (fun q => chunks_eqb (delivered_to (fst q) w) (snd q)) recvd
  (* the wire is an interleaving of what the agents enqueued: per id, in order, nothing else *)
  && forallb (fun q => chunks_eqb (delivered_to (fst q) w) (snd q)) sent
  && forallb (fun s => existsb (fun q => fst q =? fst s) sent) w
  (* the muxer wrote exactly the model's frames *)
  && bytes_eqb (mux_bytes (map (fun s => (0, fst s, snd s)) w)) bytes.
