(* C28 proofs, part G (Events): see Proofs.v for the theorem [exec_sync_conformant]. *)
From PV Require Import Lib.Base P2p.Proto P2p.Initiator P2p.Spec C27.Proofs C28.Model.
From PV Require Import C28.Abs C28.Refine C28.Visitors C28.Emit C28.SettleBlock C28.Inv.
Open Scope Z_scope.

Lemma SFi_sym s s1 : SFi s s1 -> SFi s1 s.
Proof. intros (A1&A2&A3&A4&A5&A6&A7&A8&A9). repeat split; congruence. Qed.

Definition peer_ok (st : ist) (e : env) (q : Z) : Prop :=
  match lookup q (peers st) with Some t => PInvS t (eget q e) | None => UInv (eget q e) end.

Lemma others_insert st e p s1 pr' a' e1 :
  (forall q, peer_ok st e q) -> (forall q, q <> p -> eget q e1 = eget q e) ->
  forall q, q <> p -> peer_ok (mkI pr' a' (insert p s1 (peers st))) e1 q.
Proof.
  intros H E q N. unfold peer_ok. cbn [peers]. rewrite lookup_insert_neq by exact N. rewrite E by exact N. apply H.
Qed.
Lemma nodup_insert p s1 l : NoDup (map fst l) -> NoDup (map fst (insert p s1 l)).
Proof.
  intros ND. destruct (lookup p l) as [s|] eqn:L.
  - rewrite (keys_insert_tracked p s s1 l L). exact ND.
  - rewrite (keys_insert_new p s1 l L). apply NoDup_app_intro; [exact ND | constructor; [intros [] | constructor]|].
    intros x I [<-|[]]. apply lookup_None_keys in L. exact (L I).
Qed.

Ltac no_sends := match goal with |- exists st2 e2, settle _ _ _ ?st ?e [] = _ /\ _ => exists st, e; split; [reflexivity|] end.

(* ---- tag commands: BanPeer, DemotePeer, ContinueSync ---- *)
Lemma tagged_sync c i st0 e p tagger st1 outs :
  SInv st0 e -> (forall s, SFi s (tagger s)) -> on_tagged p tagger st0 = Ok (st1, outs) ->
  exists st2 e2, settle c i e st1 e (sends outs) = inl (st2, e2) /\ SInv st2 e2.
Proof.
  intros [ND PO] T. unfold on_tagged. destruct (lookup p (peers st0)) as [s|] eqn:L.
  2:{ intros H; inversion H; subst. cbn [sends flat_map]. no_sends. split; assumption. }
  destruct (v_cs_tagged p (ax st0, tagger s, [])) as [[[a1 s1] out1]| |] eqn:V; cbn [bind]; try discriminate.
  intros H; inversion H; subst. clear H.
  apply (hv_cs_tagged p) in V as (S1 & ext & ms & -> & X & F & N). cbn [app]. rewrite X.
  pose proof (PO p) as Pp. rewrite L in Pp.
  assert (S : SFi s s1) by (eapply SFi_trans; [apply T | exact S1]).
  apply settle_peer with (s := s1).
  - cbn [peers]. apply nodup_insert, ND.
  - apply (others_insert st0 e); [exact PO | reflexivity].
  - cbn [peers]. apply lookup_insert_eq.
  - eapply pinv_PF; [exact Pp | apply SFi_PF, S].
  - left. eapply Forall_impl; [|exact F]. cbn. intros m [[E|[]] Ep]. split; [rewrite <- E; lia|].
    eapply epre_SFi; [apply SFi_sym, S1 | exact Ep].
  - exact N.
Qed.

Lemma live_up_synced w : live (mkPE LUp true w []) = true. Proof. reflexivity. Qed.

(* ---- Connected ---- *)
Lemma connected_sync c i st e p e1 st1 outs :
  SInv st e -> env_event Sync e (EConnected p) = Some e1 -> on_connected p st = Ok (st1, outs) ->
  exists st2 e2, settle c i e1 st1 e1 (sends outs) = inl (st2, e2) /\ SInv st2 e2.
Proof.
  intros [ND PO] EV. cbn [env_event] in EV. destruct (lk (eget p e)) eqn:LK; try discriminate. inversion EV; subst e1. clear EV.
  assert (O : forall q, q <> p -> eget q (eset p (mkPE LUp true w0 []) e) = eget q e) by (intros q N; apply eget_eset_neq, N).
  assert (NL : live (eget p e) = false) by (unfold live; rewrite LK; apply andb_false_r).
  unfold on_connected. destruct (lookup p (peers st)) as [s|] eqn:L.
  2:{ intros H; inversion H; subst. cbn [sends flat_map]. no_sends. split; [exact ND|]. intros q.
      destruct (Z.eq_dec q p) as [->|N].
      - rewrite L, eget_eset_eq. split; [reflexivity | intros _; reflexivity].
      - rewrite (O q N). apply PO. }
  destruct (v_hs_connected p (ax st, set_conn CConnected s, [])) as [[[a1 s1] out1]| |] eqn:V; cbn [bind]; try discriminate.
  intros H; inversion H; subst. clear H.
  apply (hv_hs_connected p) in V as (S1 & ext & ms & -> & X & F & N). cbn [app]. rewrite X.
  pose proof (PO p) as Pp. rewrite L in Pp. destruct Pp as (P & A & R & D). specialize (D NL).
  assert (NI : is_init s = false) by (apply default_not_init; assumption).
  assert (PF1 : PF s s1).
  { apply PF_trans with (set_conn CConnected s); [|apply SFi_PF, S1]. repeat split. cbn. discriminate. }
  apply settle_peer with (s := s1).
  - cbn [peers]. apply nodup_insert, ND.
  - apply (others_insert st e); [exact PO | exact O].
  - cbn [peers]. apply lookup_insert_eq.
  - rewrite eget_eset_eq. split; [reflexivity|]. split; [eapply PF_Acc; eassumption|].
    split; [intros _; cbn [wire]; eapply PF_Rel; [exact PF1 | apply rel_default, D] | intros Y; discriminate].
  - right. rewrite eget_eset_eq. split; [reflexivity|].
    eapply Forall_impl; [|exact F]. cbn. intros m [_ Ep]. eapply epre_SFi; [apply SFi_sym, S1 | exact Ep].
  - exact N.
Qed.

(* ---- Disconnected ---- *)
Lemma default_reset s : DefaultProto (reset s). Proof. repeat split. Qed.
Lemma disconnected_sync c i st e p e1 st1 outs :
  SInv st e -> env_event Sync e (EDisconnected p) = Some e1 -> on_disconnected p st = Ok (st1, outs) ->
  exists st2 e2, settle c i e1 st1 e1 (sends outs) = inl (st2, e2) /\ SInv st2 e2.
Proof.
  intros [ND PO] EV. cbn [env_event] in EV. inversion EV; subst e1. clear EV.
  assert (O : forall q, q <> p -> eget q (eset p (mkPE LDown false w0 []) e) = eget q e) by (intros q N; apply eget_eset_neq, N).
  unfold on_disconnected. destruct (lookup p (peers st)) as [s|] eqn:L.
  2:{ intros H; inversion H; subst. cbn [sends flat_map]. no_sends. split; [exact ND|]. intros q.
      destruct (Z.eq_dec q p) as [->|N].
      - rewrite L, eget_eset_eq. split; [reflexivity | intros Y; discriminate].
      - rewrite (O q N). apply PO. }
  cbn [v_lf_purge bind]. intros H; inversion H; subst. clear H. cbn [sends flat_map]. no_sends.
  split; [cbn [peers]; apply nodup_insert, ND|]. intros q. destruct (Z.eq_dec q p) as [->|N].
  - cbn [peers]. rewrite lookup_insert_eq, eget_eset_eq. split; [reflexivity|]. split.
    + intros [Y|Y]; [discriminate Y | exfalso; apply Y; reflexivity].
    + split; [intros Y; discriminate | intros _; apply default_reset].
  - apply (others_insert st e); [exact PO | exact O | exact N].
Qed.

(* ---- Error ---- *)
Lemma errored_sync c i st e p e1 st1 outs :
  SInv st e -> env_event Sync e (EError p) = Some e1 -> on_errored p st = Ok (st1, outs) ->
  exists st2 e2, settle c i e1 st1 e1 (sends outs) = inl (st2, e2) /\ SInv st2 e2.
Proof.
  intros [ND PO] EV. cbn [env_event] in EV. inversion EV; subst e1. clear EV.
  set (x := eget p e).
  set (x1 := mkPE (match lk x with LUp => LErr | l => l end) (synced x) (wire x) (pend x)).
  assert (O : forall q, q <> p -> eget q (eset p x1 e) = eget q e) by (intros q N; apply eget_eset_neq, N).
  assert (LV : live x1 = live x) by (unfold live, x1; cbn; destruct (lk x); reflexivity).
  assert (UP : forall Q : penv -> Prop, (Q x -> pend x1 = pend x -> wire x1 = wire x -> True) -> True) by auto.
  unfold on_errored. destruct (lookup p (peers st)) as [s|] eqn:L.
  2:{ intros H; inversion H; subst. cbn [sends flat_map]. no_sends. split; [exact ND|]. intros q.
      destruct (Z.eq_dec q p) as [->|N].
      - rewrite L, eget_eset_eq. pose proof (PO p) as Pp. rewrite L in Pp. destruct Pp as [P W]. split; [exact P | rewrite LV; exact W].
      - rewrite (O q N). apply PO. }
  destruct (errc s >=? U32_MAX); try discriminate.
  destruct (v_conn_err p (ax st, set_errc (errc s + 1) (set_conn CErrored s), [])) as [[[a1 s1] o1]| |] eqn:V1; cbn [bind]; try discriminate.
  cbn [v_lf_purge]. intros H; inversion H; subst. clear H.
  assert (S1 : s1 = set_errc (errc s + 1) (set_conn CErrored s) /\ sends outs = []).
  { unfold v_conn_err, emit in V1. destruct (needs_disconnect _); inversion V1; subst; split; reflexivity. }
  destruct S1 as [-> SN]. rewrite SN. no_sends.
  split; [cbn [peers]; apply nodup_insert, ND|]. intros q. destruct (Z.eq_dec q p) as [->|N].
  - cbn [peers]. rewrite lookup_insert_eq, eget_eset_eq. pose proof (PO p) as Pp. rewrite L in Pp.
    assert (PFs : PF s (set_errc (errc s + 1) (set_conn CErrored s))) by (repeat split; cbn; discriminate).
    destruct (pinv_PF _ _ _ Pp PFs) as (P & A & R & D). split; [exact P|]. split; [exact A|]. rewrite LV. split; assumption.
  - apply (others_insert st e); [exact PO | exact O | exact N].
Qed.

(* ---- IncludePeer ---- *)
Lemma default_pnew : DefaultProto pnew. Proof. repeat split. Qed.
Lemma acc_default_new s : DefaultProto s -> is_init s = false -> Acc s.
Proof. intros (_ & _ & _ & _ & D & _) I [Y|Y]; [congruence | contradiction]. Qed.
Lemma discovered_state c p pr0 pr1 s1 : on_peer_discovered c p pr0 pnew = Ok (pr1, s1) -> DefaultProto s1 /\ is_init s1 = false.
Proof.
  unfold on_peer_discovered. destruct (mem p (banned pr0)); [intros H; inversion H; subst; split; [apply default_pnew | reflexivity]|].
  destruct (usub _ _ _) as [rc| |]; cbn [bind]; try discriminate.
  destruct (rc >? 0); intros H; inversion H; subst; split; try apply default_pnew; reflexivity.
Qed.
Lemma include_sync c i st e p e1 st1 :
  SInv st e -> env_event Sync e (EInclude p) = Some e1 -> on_discovered c p st = Ok st1 ->
  exists st2 e2, settle c i e1 st1 e1 [] = inl (st2, e2) /\ SInv st2 e2.
Proof.
  intros [ND PO] EV. cbn [env_event] in EV. inversion EV; subst e1. clear EV.
  set (x := eget p e).
  assert (O : forall q, q <> p -> eget q (eset p (mkPE (lk x) false (wire x) (pend x)) e) = eget q e) by (intros q N; apply eget_eset_neq, N).
  unfold on_discovered. destruct (on_peer_discovered c p (pr st) pnew) as [[pr1 s1]| |] eqn:D; cbn [bind]; try discriminate.
  intros H; inversion H; subst. clear H. no_sends.
  destruct (discovered_state _ _ _ _ _ D) as [Df NI].
  split; [cbn [peers]; apply nodup_insert, ND|]. intros q. destruct (Z.eq_dec q p) as [->|N].
  - cbn [peers]. rewrite lookup_insert_eq, eget_eset_eq.
    assert (P : pend x = []).
    { pose proof (PO p) as Pp. unfold x. destruct (lookup p (peers st)); [destruct Pp as (P & _) | destruct Pp as (P & _)]; exact P. }
    split; [exact P|]. split; [apply acc_default_new; assumption|]. split; [intros Y; discriminate | intros _; exact Df].
  - apply (others_insert st e); [exact PO | exact O | exact N].
Qed.
