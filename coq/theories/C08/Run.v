(* C08 correspondence. The harness records, for inputs it generated:
     CViews m bytes          minicbor::to_vec(LanguageViews)                       (implementation bytes)
     CRedeemers r bytes      minicbor::to_vec(Redeemers)                           (implementation bytes)
     CHash r d m pre         ScriptData{r,d,m}.hash(): `pre` is the preimage the harness derived
                             independently (by hand, canonical sort of the encoded keys) and whose
                             Blake2b-256 it compared with the implementation's hash
     CBuild wr wd lvo res    ScriptData::build_for on a decoded witness set: None, or the
                             independently derived preimage (same oracle)
   Datums are KeepRaw values: (raw bytes held, [(raw, value) of each element]); raw = [] for values
   built in memory (KeepRaw::from, deref_mut / clear_raw); elements are omitted ([]) when the outer
   raw bytes are held (they are not looked at then).
   [case_ok] recomputes bytes / preimage with the model. *)
From PV Require Import Lib.Base Cbor.Item Cbor.Enc Cbor.Dec Cbor.Api C07.Model C08.Model.
Open Scope Z_scope.

Inductive case : Type :=
| CViews (m : lviews) (bytes : list Z)
| CRedeemers (r : redeemers) (bytes : list Z)
| CHash (r : option redeemers) (d : option kdatums) (m : option lviews) (pre : list Z)
| CBuild (wr : option redeemers) (wd : option kdatums) (lvo : option lviews) (res : option (list Z)).

Definition model_build (wr : option redeemers) (wd : option kdatums) (lvo : option lviews) : option (list Z) :=
  match build_for wr wd lvo with Some sd => Some (script_data_preimage sd) | None => None end.

Definition case_out (c : case) : option (list Z) :=
  match c with
  | CViews m _ => Some (enc_language_views m)
  | CRedeemers r _ => Some (enc_redeemers r)
  | CHash r d m _ => Some (script_data_preimage (mkScriptData r d m))
  | CBuild wr wd lvo _ => model_build wr wd lvo
  end.

Definition case_ok (c : case) : bool :=
  match c with
  | CViews m bytes => list_eqb Z.eqb (enc_language_views m) bytes
  | CRedeemers r bytes => list_eqb Z.eqb (enc_redeemers r) bytes
  | CHash r d m pre => list_eqb Z.eqb (script_data_preimage (mkScriptData r d m)) pre
  | CBuild wr wd lvo res =>
    match model_build wr wd lvo, res with
    | Some a, Some b => list_eqb Z.eqb a b
    | None, None => true
    | _, _ => false
    end
  end.
