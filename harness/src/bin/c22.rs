//! C22: every mini-protocol message encodes to exactly ONE well-formed CBOR item and
//! decodes back to an equal message — both stacks (pallas-network, pallas-network2).
//!
//! For each protocol a stack-independent value (c22_parts/ir.rs, mirror of the Coq message
//! type) is generated — every variant, boundary integers / lengths — converted to the
//! stack's real message type, encoded with the REAL `Encode`, and
//!   oracle 1: an independent strict CBOR item scan (c22_parts/scan.rs, no minicbor) must
//!             consume exactly the encoding (declared array/map/string lengths match);
//!   oracle 2: the REAL `Decode` must return an equal message and consume everything.
//! ORACLE_FAIL key = `<stack>/<protocol>/<variant>/<what>`.
//! CASE = `(C<Proto> message bytes)`: inside Coq the model must be in the theorems' domain,
//! write the same bytes and read them back to the same message.
//! Every run starts with a deterministic sweep: every variant (incl. payload-free / empty ones) and
//! every integer field on every CBOR head-width boundary of its type; then random rounds.
//! The long-tail codecs (GetCBOR-wrapped localstate queries, the localtxsubmission reject
//! reasons) are oracle-only (c22_parts/tail.rs).
#[path = "c22_parts/scan.rs"] mod scan;
#[path = "c22_parts/ir.rs"] mod ir;
#[path = "c22_parts/tail.rs"] mod tail;

use ir::*;
use pallas_codec::minicbor::{self, Decode, Decoder, Encode};
use pallas_codec::utils::{AnyCbor, Bytes, TagWrap};
use pallas_network::miniprotocols as n1;
use pallas_network2::protocol as n2;
use std::collections::{BTreeMap, HashMap};
use std::fmt::Debug;
use std::net::{Ipv4Addr, Ipv6Addr};
use verif_harness::*;

pub struct Ctx { pub oracle_only: bool, pub cases: u64, pub fails: u64, pub tail: u64, pub dec_cases: u64, pub mutants: u32, pub mrng: Rng }

/// encode / scan / decode one message; `back` converts the decoded message to the IR.
pub fn run_one<M, I, B>(cx: &mut Ctx, stack: &str, proto: &str, variant: &str, ir: &I, msg: &M, back: B, coq: Option<String>)
where M: Encode<()> + for<'b> Decode<'b, ()> + Debug, I: PartialEq + Debug, B: Fn(&M) -> Option<I> {
    let key = |what: &str| format!("{}/{}/{}/{}", stack, proto, variant, what);
    let enc = guard(|| minicbor::to_vec(msg).map_err(|e| e.to_string()));
    let bytes = match enc {
        Out::Ok(b) => b,
        Out::Err(e) => { cx.fails += 1; emit_oracle_fail(&key("encode-error"), &format!("message={:?} encode error: {}", ir, e)); return; }
        Out::Panic(p) => { cx.fails += 1; emit_oracle_fail(&key("encode-panic"), &format!("message={:?} encode panicked: {}", ir, p)); return; }
    };
    if let Err(why) = scan::exactly_one_item(&bytes) {
        cx.fails += 1;
        emit_oracle_fail(&key("not-one-item"), &format!("message={:?} encoding={} is not one well-formed CBOR item: {}", ir, hex(&bytes), why));
    }
    let dec = guard(|| { let mut d = Decoder::new(&bytes); let m: M = d.decode().map_err(|e| e.to_string())?; Ok((m, d.position())) });
    match dec {
        Out::Ok((m, pos)) => match back(&m) {
            Some(ref i2) if i2 == ir => {
                if pos != bytes.len() { cx.fails += 1; emit_oracle_fail(&key("decode-leftover"), &format!("message={:?} encoding={} decoder consumed {} of {} bytes", ir, hex(&bytes), pos, bytes.len())); }
            }
            _ => { cx.fails += 1; emit_oracle_fail(&key("decode-differs"), &format!("message={:?} encoding={} decoded to {:?}", ir, hex(&bytes), m)); }
        },
        Out::Err(e) => { cx.fails += 1; emit_oracle_fail(&key("decode-error"), &format!("message={:?} encoding={} decode error: {}", ir, hex(&bytes), e)); }
        Out::Panic(p) => { cx.fails += 1; emit_oracle_fail(&key("decode-panic"), &format!("message={:?} encoding={} decode panicked: {}", ir, hex(&bytes), p)); }
    }
    if let (false, Some(c)) = (cx.oracle_only, coq) {
        cx.cases += 1;
        emit_case(&format!("{}-{}-{}", stack, proto, variant), &c.replace("@BYTES@", &coq_bytes(&bytes)));
        // decoder differential on mutants of this encoding
        if let Some((k, framing_only)) = dec_kind(stack, proto, variant) {
            if bytes.len() <= 600 {
                for _ in 0..cx.mutants {
                    let (how, mutant) = mutate(&mut cx.mrng, &bytes, framing_only);
                    run_dec::<M>(cx, k, &format!("decode-{}-{}", proto, how), &mutant);
                }
            }
        }
    }
}

/// index of the protocol in Run.v's [dec_run]. Opaque payloads (AnyCbor, SkippedContent) are read with
/// Decoder::skip, which the model transcribes exactly (Cbor.Skip), so their encodings are mutated like the rest.
fn dec_kind(stack: &str, proto: &str, _variant: &str) -> Option<(u32, bool)> {
    let opaque = false;
    let k = match proto {
        "keepalive" => 0, "blockfetch" => 1, "chainsync-header" => 2, "chainsync-block" => 3, "chainsync-skipped" => 4, "txsubmission" => 5,
        "peersharing" => if stack == "n1" { 6 } else { 7 }, "handshake-n2n" => 8, "handshake-n2c" => 9, "localstate" => 10, "txmonitor" => 11,
        "leiosnotify" => 12, "leiosfetch" => 13, "localmsgsubmission" => 14, "localmsgnotification" => 15, _ => return None,
    };
    Some((k, opaque))
}

const HEADS: &[u8] = &[0x00, 0x17, 0x18, 0x19, 0x1a, 0x1b, 0x1c, 0x1f, 0x20, 0x38, 0x39, 0x3a, 0x3b, 0x40, 0x58, 0x5f, 0x60, 0x78, 0x7f, 0x80, 0x81, 0x82, 0x83, 0x84, 0x98,
    0x9f, 0xa0, 0xa1, 0xb8, 0xbf, 0xc0, 0xd8, 0xf4, 0xf5, 0xf6, 0xf7, 0xf8, 0xf9, 0xfb, 0xff];
fn mutate(r: &mut Rng, b: &[u8], truncate_only: bool) -> (&'static str, Vec<u8>) {
    let lim = b.len();
    let mut v = b.to_vec();
    match if truncate_only { 0 } else { r.below(7) } {
        0 => { let n = r.below(b.len() as u64) as usize; v.truncate(n); ("truncate", v) }
        1 if lim > 0 => { let i = r.below(lim as u64) as usize; v[i] = *r.pick(HEADS); ("head-byte", v) }
        2 if lim > 0 => { let i = r.below(lim as u64) as usize; v[i] = v[i].wrapping_add(if r.bool() { 1 } else { 0xff }); ("plus-minus-one", v) }
        3 if lim > 0 => { let i = r.below(lim as u64) as usize; v[i] ^= 1 << r.below(8); ("bit-flip", v) }
        4 if lim > 0 => { let i = r.below(lim as u64) as usize; v.remove(i); ("delete", v) }
        5 => { let i = r.below(lim as u64 + 1) as usize; v.insert(i, *r.pick(HEADS)); ("insert", v) }
        _ => { for _ in 0..r.range(1, 3) { v.push(r.byte()) } ("append", v) }
    }
}

/// arbitrary bytes through the REAL decoder; canonical result = re-encoding + bytes consumed
fn run_dec<M>(cx: &mut Ctx, k: u32, tag: &str, bs: &[u8]) where M: Encode<()> + for<'b> Decode<'b, ()> + Debug {
    let res = guard(|| {
        let mut d = Decoder::new(bs);
        match d.decode::<M>() {
            Ok(m) => { let re = minicbor::to_vec(&m).map_err(|e| e.to_string())?; Ok(format!("(ROk {} {})", coq_bytes(&re), d.position())) }
            Err(e) if e.is_end_of_input() => Ok("REoi".to_string()),
            Err(_) => Ok("RErr".to_string()),
        }
    });
    match res {
        Out::Ok(t) => { cx.cases += 1; cx.dec_cases += 1; emit_case(tag, &format!("(CDec {} {} {})", k, coq_bytes(bs), t)); }
        Out::Err(_) => emit_stat("decoded_but_not_reencodable", 1),
        Out::Panic(_) => emit_stat("decode_panics", 1),
    }
}

// ================================================================== pallas-network (n1)
mod s1 {
    use super::*;
    use n1::{blockfetch as bf, chainsync as cs, handshake as hs, keepalive as ka, localstate as ls, localtxsubmission as ltx,
             peersharing as ps, txmonitor as tm, txsubmission as ts, Point};
    pub fn pt(p: &Pt) -> Point { match p { Pt::Origin => Point::Origin, Pt::Specific(s, h) => Point::Specific(*s, h.clone()) } }
    pub fn pt_b(p: &Point) -> Pt { match p { Point::Origin => Pt::Origin, Point::Specific(s, h) => Pt::Specific(*s, h.clone()) } }
    fn tip(t: &TipI) -> cs::Tip { cs::Tip(pt(&t.0), t.1) }
    fn tip_b(t: &cs::Tip) -> TipI { TipI(pt_b(&t.0), t.1) }
    pub fn ka(m: &Ka) -> ka::Message { match m { Ka::KeepAlive(c) => ka::Message::KeepAlive(*c), Ka::Response(c) => ka::Message::ResponseKeepAlive(*c), Ka::Done => ka::Message::Done } }
    pub fn ka_b(m: &ka::Message) -> Option<Ka> { Some(match m { ka::Message::KeepAlive(c) => Ka::KeepAlive(*c), ka::Message::ResponseKeepAlive(c) => Ka::Response(*c), ka::Message::Done => Ka::Done }) }
    pub fn bf(m: &Bf) -> bf::Message {
        match m {
            Bf::RequestRange(a, b) => bf::Message::RequestRange { range: (pt(a), pt(b)) }, Bf::ClientDone => bf::Message::ClientDone,
            Bf::StartBatch => bf::Message::StartBatch, Bf::NoBlocks => bf::Message::NoBlocks, Bf::Block(b) => bf::Message::Block { body: b.clone() },
            Bf::BatchDone => bf::Message::BatchDone,
        }
    }
    pub fn bf_b(m: &bf::Message) -> Option<Bf> {
        Some(match m {
            bf::Message::RequestRange { range } => Bf::RequestRange(pt_b(&range.0), pt_b(&range.1)), bf::Message::ClientDone => Bf::ClientDone,
            bf::Message::StartBatch => Bf::StartBatch, bf::Message::NoBlocks => Bf::NoBlocks, bf::Message::Block { body } => Bf::Block(body.clone()),
            bf::Message::BatchDone => Bf::BatchDone,
        })
    }
    pub fn cs<C, D>(m: &Cs<C>, c: impl Fn(&C) -> D) -> cs::Message<D> {
        match m {
            Cs::RequestNext => cs::Message::RequestNext, Cs::AwaitReply => cs::Message::AwaitReply,
            Cs::RollForward(x, t) => cs::Message::RollForward(c(x), tip(t)), Cs::RollBackward(p, t) => cs::Message::RollBackward(pt(p), tip(t)),
            Cs::FindIntersect(l) => cs::Message::FindIntersect(l.iter().map(pt).collect()), Cs::IntersectFound(p, t) => cs::Message::IntersectFound(pt(p), tip(t)),
            Cs::IntersectNotFound(t) => cs::Message::IntersectNotFound(tip(t)), Cs::Done => cs::Message::Done,
        }
    }
    pub fn cs_b<C, D>(m: &cs::Message<D>, c: impl Fn(&D) -> C) -> Option<Cs<C>> {
        Some(match m {
            cs::Message::RequestNext => Cs::RequestNext, cs::Message::AwaitReply => Cs::AwaitReply,
            cs::Message::RollForward(x, t) => Cs::RollForward(c(x), tip_b(t)), cs::Message::RollBackward(p, t) => Cs::RollBackward(pt_b(p), tip_b(t)),
            cs::Message::FindIntersect(l) => Cs::FindIntersect(l.iter().map(pt_b).collect()), cs::Message::IntersectFound(p, t) => Cs::IntersectFound(pt_b(p), tip_b(t)),
            cs::Message::IntersectNotFound(t) => Cs::IntersectNotFound(tip_b(t)), cs::Message::Done => Cs::Done,
        })
    }
    pub fn hdr(h: &Hdr) -> cs::HeaderContent { cs::HeaderContent { variant: h.variant, byron_prefix: h.prefix, cbor: h.cbor.clone() } }
    pub fn hdr_b(h: &cs::HeaderContent) -> Hdr { Hdr { variant: h.variant, prefix: h.byron_prefix, cbor: h.cbor.clone() } }
    pub type TsMsg = ts::Message<ts::EraTxId, ts::EraTxBody>;
    pub fn ts(m: &Ts) -> TsMsg {
        match m {
            Ts::Init => ts::Message::Init, Ts::RequestTxIds(b, a, q) => ts::Message::RequestTxIds(*b, *a, *q),
            Ts::ReplyTxIds(l) => ts::Message::ReplyTxIds(l.iter().map(|(i, s)| ts::TxIdAndSize(ts::EraTxId(i.0, i.1.clone()), *s)).collect()),
            Ts::RequestTxs(l) => ts::Message::RequestTxs(l.iter().map(|i| ts::EraTxId(i.0, i.1.clone())).collect()),
            Ts::ReplyTxs(l) => ts::Message::ReplyTxs(l.iter().map(|i| ts::EraTxBody(i.0, i.1.clone())).collect()), Ts::Done => ts::Message::Done,
        }
    }
    pub fn ts_b(m: &TsMsg) -> Option<Ts> {
        Some(match m {
            ts::Message::Init => Ts::Init, ts::Message::RequestTxIds(b, a, q) => Ts::RequestTxIds(*b, *a, *q),
            ts::Message::ReplyTxIds(l) => Ts::ReplyTxIds(l.iter().map(|x| ((x.0 .0, x.0 .1.clone()), x.1)).collect()),
            ts::Message::RequestTxs(l) => Ts::RequestTxs(l.iter().map(|x| (x.0, x.1.clone())).collect()),
            ts::Message::ReplyTxs(l) => Ts::ReplyTxs(l.iter().map(|x| (x.0, x.1.clone())).collect()), ts::Message::Done => Ts::Done,
        })
    }
    pub fn ps(m: &Ps) -> ps::Message {
        match m {
            Ps::ShareRequest(n) => ps::Message::ShareRequest(*n), Ps::Done => ps::Message::Done,
            Ps::SharePeers(l) => ps::Message::SharePeers(l.iter().map(|a| match a {
                Pa::V4(i, p) => ps::PeerAddress::V4(Ipv4Addr::from(*i), *p), Pa::V6(b, p) => ps::PeerAddress::V6(Ipv6Addr::from(*b), *p) }).collect()),
        }
    }
    pub fn ps_b(m: &ps::Message) -> Option<Ps> {
        Some(match m {
            ps::Message::ShareRequest(n) => Ps::ShareRequest(*n), ps::Message::Done => Ps::Done,
            ps::Message::SharePeers(l) => Ps::SharePeers(l.iter().map(|a| match a {
                ps::PeerAddress::V4(i, p) => Pa::V4(u32::from(*i), *p), ps::PeerAddress::V6(b, p) => Pa::V6(u128::from(*b), *p) }).collect()),
        })
    }
    fn rf(x: &Rf) -> hs::RefuseReason {
        match x { Rf::VersionMismatch(v) => hs::RefuseReason::VersionMismatch(v.clone()), Rf::DecodeError(v, s) => hs::RefuseReason::HandshakeDecodeError(*v, s.clone()), Rf::Refused(v, s) => hs::RefuseReason::Refused(*v, s.clone()) }
    }
    fn rf_b(x: &hs::RefuseReason) -> Rf {
        match x { hs::RefuseReason::VersionMismatch(v) => Rf::VersionMismatch(v.clone()), hs::RefuseReason::HandshakeDecodeError(v, s) => Rf::DecodeError(*v, s.clone()), hs::RefuseReason::Refused(v, s) => Rf::Refused(*v, s.clone()) }
    }
    pub fn hs<D, E: Debug + Clone>(m: &Hs<D>, d: impl Fn(&D) -> E) -> hs::Message<E> {
        let tbl = |t: &BTreeMap<u64, D>| hs::VersionTable { values: t.iter().map(|(k, v)| (*k, d(v))).collect::<HashMap<u64, E>>() };
        match m { Hs::Propose(t) => hs::Message::Propose(tbl(t)), Hs::Accept(v, x) => hs::Message::Accept(*v, d(x)), Hs::Refuse(x) => hs::Message::Refuse(rf(x)), Hs::QueryReply(t) => hs::Message::QueryReply(tbl(t)) }
    }
    pub fn hs_b<D, E: Debug + Clone>(m: &hs::Message<E>, d: impl Fn(&E) -> Option<D>) -> Option<Hs<D>> {
        let tbl = |t: &hs::VersionTable<E>| -> Option<BTreeMap<u64, D>> { let mut o = BTreeMap::new(); for (k, v) in &t.values { o.insert(*k, d(v)?); } Some(o) };
        Some(match m { hs::Message::Propose(t) => Hs::Propose(tbl(t)?), hs::Message::Accept(v, x) => Hs::Accept(*v, d(x)?), hs::Message::Refuse(x) => Hs::Refuse(rf_b(x)), hs::Message::QueryReply(t) => Hs::QueryReply(tbl(t)?) })
    }
    pub fn n2n(d: &N2n) -> hs::n2n::VersionData { hs::n2n::VersionData::new(d.magic, d.init_only, d.peer_sharing, d.query) }
    pub fn n2n_b(d: &hs::n2n::VersionData) -> Option<N2n> { Some(N2n { magic: d.network_magic, init_only: d.initiator_only_diffusion_mode, peer_sharing: d.peer_sharing, query: d.query }) }
    pub fn n2c(d: &N2c) -> hs::n2c::VersionData { hs::n2c::VersionData::new(d.0, d.1) }
    pub fn n2c_b(d: &hs::n2c::VersionData) -> Option<N2c> { super::parse_n2c(&format!("{:?}", d)) }
    pub fn ls(m: &Ls) -> ls::Message {
        match m {
            Ls::Acquire(p) => ls::Message::Acquire(p.as_ref().map(pt)), Ls::Failure(c) => ls::Message::Failure(if *c == 0 { ls::AcquireFailure::PointTooOld } else { ls::AcquireFailure::PointNotOnChain }),
            Ls::Acquired => ls::Message::Acquired, Ls::Query(q) => ls::Message::Query(AnyCbor::from_raw_bytes(q.clone())), Ls::Result(q) => ls::Message::Result(AnyCbor::from_raw_bytes(q.clone())),
            Ls::ReAcquire(p) => ls::Message::ReAcquire(p.as_ref().map(pt)), Ls::Release => ls::Message::Release, Ls::Done => ls::Message::Done,
        }
    }
    pub fn ls_b(m: &ls::Message) -> Option<Ls> {
        Some(match m {
            ls::Message::Acquire(p) => Ls::Acquire(p.as_ref().map(pt_b)), ls::Message::Failure(f) => Ls::Failure(match f { ls::AcquireFailure::PointTooOld => 0, ls::AcquireFailure::PointNotOnChain => 1 }),
            ls::Message::Acquired => Ls::Acquired, ls::Message::Query(q) => Ls::Query(q.raw_bytes().to_vec()), ls::Message::Result(q) => Ls::Result(q.raw_bytes().to_vec()),
            ls::Message::ReAcquire(p) => Ls::ReAcquire(p.as_ref().map(pt_b)), ls::Message::Release => Ls::Release, ls::Message::Done => Ls::Done,
        })
    }
    /// `Reject` is a type parameter of localtxsubmission::Message: one raw item
    #[derive(Debug, Clone, PartialEq)]
    pub struct RawReject(pub AnyCbor);
    impl From<String> for RawReject { fn from(s: String) -> Self { RawReject(AnyCbor::from_raw_bytes(s.into_bytes())) } }
    impl<C> Encode<C> for RawReject {
        fn encode<W: minicbor::encode::Write>(&self, e: &mut minicbor::Encoder<W>, ctx: &mut C) -> Result<(), minicbor::encode::Error<W::Error>> { self.0.encode(e, ctx) }
    }
    impl<'b, C> Decode<'b, C> for RawReject {
        fn decode(d: &mut Decoder<'b>, ctx: &mut C) -> Result<Self, minicbor::decode::Error> { Ok(RawReject(AnyCbor::decode(d, ctx)?)) }
    }
    pub type LtxMsg = ltx::Message<ltx::EraTx, RawReject>;
    pub fn ltx(m: &Ltx) -> LtxMsg {
        match m { Ltx::SubmitTx(e, t) => ltx::Message::SubmitTx(ltx::EraTx(*e, t.clone())), Ltx::AcceptTx => ltx::Message::AcceptTx, Ltx::RejectTx(x) => ltx::Message::RejectTx(RawReject(AnyCbor::from_raw_bytes(x.clone()))), Ltx::Done => ltx::Message::Done }
    }
    pub fn ltx_b(m: &LtxMsg) -> Option<Ltx> {
        Some(match m { ltx::Message::SubmitTx(t) => Ltx::SubmitTx(t.0, t.1.clone()), ltx::Message::AcceptTx => Ltx::AcceptTx, ltx::Message::RejectTx(x) => Ltx::RejectTx(x.0.raw_bytes().to_vec()), ltx::Message::Done => Ltx::Done })
    }
    pub fn tm(m: &Tm) -> tm::Message {
        match m {
            Tm::Done => tm::Message::Done, Tm::Acquire => tm::Message::Acquire, Tm::Acquired(s) => tm::Message::Acquired(*s), Tm::Release => tm::Message::Release,
            Tm::AwaitAcquire => tm::Message::AwaitAcquire, Tm::RequestNextTx => tm::Message::RequestNextTx,
            Tm::ResponseNextTx(t) => tm::Message::ResponseNextTx(t.as_ref().map(|(e, b)| (*e, TagWrap::<Bytes, 24>::new(Bytes::from(b.clone()))))),
            Tm::RequestHasTx(s) => tm::Message::RequestHasTx(s.clone()), Tm::ResponseHasTx(b) => tm::Message::ResponseHasTx(*b),
            Tm::RequestSizeAndCapacity => tm::Message::RequestSizeAndCapacity,
            Tm::ResponseSizeAndCapacity(c, s, n) => tm::Message::ResponseSizeAndCapacity(tm::MempoolSizeAndCapacity { capacity_in_bytes: *c, size_in_bytes: *s, number_of_txs: *n }),
        }
    }
    pub fn tm_b(m: &tm::Message) -> Option<Tm> {
        Some(match m {
            tm::Message::Done => Tm::Done, tm::Message::Acquire => Tm::Acquire, tm::Message::Acquired(s) => Tm::Acquired(*s), tm::Message::Release => Tm::Release,
            tm::Message::AwaitAcquire => Tm::AwaitAcquire, tm::Message::RequestNextTx => Tm::RequestNextTx,
            tm::Message::ResponseNextTx(t) => Tm::ResponseNextTx(t.as_ref().map(|(e, b)| (*e, Vec::<u8>::from(b.0.clone())))),
            tm::Message::RequestHasTx(s) => Tm::RequestHasTx(s.clone()), tm::Message::ResponseHasTx(b) => Tm::ResponseHasTx(*b),
            tm::Message::RequestSizeAndCapacity => Tm::RequestSizeAndCapacity,
            tm::Message::ResponseSizeAndCapacity(x) => Tm::ResponseSizeAndCapacity(x.capacity_in_bytes, x.size_in_bytes, x.number_of_txs),
        })
    }
}

// ================================================================== pallas-network2 (n2)
mod s2 {
    use super::*;
    use n2::{blockfetch as bf, chainsync as cs, handshake as hs, keepalive as ka, leiosfetch as lf, leiosnotify as ln, peersharing as ps, txsubmission as ts, Point};
    pub fn pt(p: &Pt) -> Point { match p { Pt::Origin => Point::Origin, Pt::Specific(s, h) => Point::Specific(*s, h.clone()) } }
    pub fn pt_b(p: &Point) -> Pt { match p { Point::Origin => Pt::Origin, Point::Specific(s, h) => Pt::Specific(*s, h.clone()) } }
    fn tip(t: &TipI) -> cs::Tip { cs::Tip(pt(&t.0), t.1) }
    fn tip_b(t: &cs::Tip) -> TipI { TipI(pt_b(&t.0), t.1) }
    pub fn ka(m: &Ka) -> ka::Message { match m { Ka::KeepAlive(c) => ka::Message::KeepAlive(*c), Ka::Response(c) => ka::Message::ResponseKeepAlive(*c), Ka::Done => ka::Message::Done } }
    pub fn ka_b(m: &ka::Message) -> Option<Ka> { Some(match m { ka::Message::KeepAlive(c) => Ka::KeepAlive(*c), ka::Message::ResponseKeepAlive(c) => Ka::Response(*c), ka::Message::Done => Ka::Done }) }
    pub fn bf(m: &Bf) -> bf::Message {
        match m {
            Bf::RequestRange(a, b) => bf::Message::RequestRange((pt(a), pt(b))), Bf::ClientDone => bf::Message::ClientDone, Bf::StartBatch => bf::Message::StartBatch,
            Bf::NoBlocks => bf::Message::NoBlocks, Bf::Block(b) => bf::Message::Block(b.clone()), Bf::BatchDone => bf::Message::BatchDone,
        }
    }
    pub fn bf_b(m: &bf::Message) -> Option<Bf> {
        Some(match m {
            bf::Message::RequestRange(r) => Bf::RequestRange(pt_b(&r.0), pt_b(&r.1)), bf::Message::ClientDone => Bf::ClientDone, bf::Message::StartBatch => Bf::StartBatch,
            bf::Message::NoBlocks => Bf::NoBlocks, bf::Message::Block(b) => Bf::Block(b.clone()), bf::Message::BatchDone => Bf::BatchDone,
        })
    }
    pub fn cs<C, D>(m: &Cs<C>, c: impl Fn(&C) -> D) -> cs::Message<D> {
        match m {
            Cs::RequestNext => cs::Message::RequestNext, Cs::AwaitReply => cs::Message::AwaitReply,
            Cs::RollForward(x, t) => cs::Message::RollForward(c(x), tip(t)), Cs::RollBackward(p, t) => cs::Message::RollBackward(pt(p), tip(t)),
            Cs::FindIntersect(l) => cs::Message::FindIntersect(l.iter().map(pt).collect()), Cs::IntersectFound(p, t) => cs::Message::IntersectFound(pt(p), tip(t)),
            Cs::IntersectNotFound(t) => cs::Message::IntersectNotFound(tip(t)), Cs::Done => cs::Message::Done,
        }
    }
    pub fn cs_b<C, D>(m: &cs::Message<D>, c: impl Fn(&D) -> C) -> Option<Cs<C>> {
        Some(match m {
            cs::Message::RequestNext => Cs::RequestNext, cs::Message::AwaitReply => Cs::AwaitReply,
            cs::Message::RollForward(x, t) => Cs::RollForward(c(x), tip_b(t)), cs::Message::RollBackward(p, t) => Cs::RollBackward(pt_b(p), tip_b(t)),
            cs::Message::FindIntersect(l) => Cs::FindIntersect(l.iter().map(pt_b).collect()), cs::Message::IntersectFound(p, t) => Cs::IntersectFound(pt_b(p), tip_b(t)),
            cs::Message::IntersectNotFound(t) => Cs::IntersectNotFound(tip_b(t)), cs::Message::Done => Cs::Done,
        })
    }
    pub fn hdr(h: &Hdr) -> cs::HeaderContent { cs::HeaderContent { variant: h.variant, byron_prefix: h.prefix, cbor: h.cbor.clone() } }
    pub fn hdr_b(h: &cs::HeaderContent) -> Hdr { Hdr { variant: h.variant, prefix: h.byron_prefix, cbor: h.cbor.clone() } }
    pub fn ts(m: &Ts) -> ts::Message {
        match m {
            Ts::Init => ts::Message::Init, Ts::RequestTxIds(b, a, q) => ts::Message::RequestTxIds(*b, *a, *q),
            Ts::ReplyTxIds(l) => ts::Message::ReplyTxIds(l.iter().map(|(i, s)| ts::TxIdAndSize(ts::EraTxId(i.0, i.1.clone()), *s)).collect()),
            Ts::RequestTxs(l) => ts::Message::RequestTxs(l.iter().map(|i| ts::EraTxId(i.0, i.1.clone())).collect()),
            Ts::ReplyTxs(l) => ts::Message::ReplyTxs(l.iter().map(|i| ts::EraTxBody(i.0, i.1.clone())).collect()), Ts::Done => ts::Message::Done,
        }
    }
    pub fn ts_b(m: &ts::Message) -> Option<Ts> {
        Some(match m {
            ts::Message::Init => Ts::Init, ts::Message::RequestTxIds(b, a, q) => Ts::RequestTxIds(*b, *a, *q),
            ts::Message::ReplyTxIds(l) => Ts::ReplyTxIds(l.iter().map(|x| ((x.0 .0, x.0 .1.clone()), x.1)).collect()),
            ts::Message::RequestTxs(l) => Ts::RequestTxs(l.iter().map(|x| (x.0, x.1.clone())).collect()),
            ts::Message::ReplyTxs(l) => Ts::ReplyTxs(l.iter().map(|x| (x.0, x.1.clone())).collect()), ts::Message::Done => Ts::Done,
        })
    }
    pub fn ps(m: &Ps) -> ps::Message {
        match m {
            Ps::ShareRequest(n) => ps::Message::ShareRequest(*n), Ps::Done => ps::Message::Done,
            Ps::SharePeers(l) => ps::Message::SharePeers(l.iter().map(|a| match a {
                Pa::V4(i, p) => ps::PeerAddress::V4(Ipv4Addr::from(*i), *p as u16), Pa::V6(b, p) => ps::PeerAddress::V6(Ipv6Addr::from(*b), *p as u16) }).collect()),
        }
    }
    pub fn ps_b(m: &ps::Message) -> Option<Ps> {
        Some(match m {
            ps::Message::ShareRequest(n) => Ps::ShareRequest(*n), ps::Message::Done => Ps::Done,
            ps::Message::SharePeers(l) => Ps::SharePeers(l.iter().map(|a| match a {
                ps::PeerAddress::V4(i, p) => Pa::V4(u32::from(*i), *p as u32), ps::PeerAddress::V6(b, p) => Pa::V6(u128::from(*b), *p as u32) }).collect()),
        })
    }
    fn rf(x: &Rf) -> hs::RefuseReason {
        match x { Rf::VersionMismatch(v) => hs::RefuseReason::VersionMismatch(v.clone()), Rf::DecodeError(v, s) => hs::RefuseReason::HandshakeDecodeError(*v, s.clone()), Rf::Refused(v, s) => hs::RefuseReason::Refused(*v, s.clone()) }
    }
    fn rf_b(x: &hs::RefuseReason) -> Rf {
        match x { hs::RefuseReason::VersionMismatch(v) => Rf::VersionMismatch(v.clone()), hs::RefuseReason::HandshakeDecodeError(v, s) => Rf::DecodeError(*v, s.clone()), hs::RefuseReason::Refused(v, s) => Rf::Refused(*v, s.clone()) }
    }
    pub fn hs<D, E: Debug + Clone>(m: &Hs<D>, d: impl Fn(&D) -> E) -> hs::Message<E> {
        let tbl = |t: &BTreeMap<u64, D>| hs::VersionTable { values: t.iter().map(|(k, v)| (*k, d(v))).collect::<HashMap<u64, E>>() };
        match m { Hs::Propose(t) => hs::Message::Propose(tbl(t)), Hs::Accept(v, x) => hs::Message::Accept(*v, d(x)), Hs::Refuse(x) => hs::Message::Refuse(rf(x)), Hs::QueryReply(t) => hs::Message::QueryReply(tbl(t)) }
    }
    pub fn hs_b<D, E: Debug + Clone>(m: &hs::Message<E>, d: impl Fn(&E) -> Option<D>) -> Option<Hs<D>> {
        let tbl = |t: &hs::VersionTable<E>| -> Option<BTreeMap<u64, D>> { let mut o = BTreeMap::new(); for (k, v) in &t.values { o.insert(*k, d(v)?); } Some(o) };
        Some(match m { hs::Message::Propose(t) => Hs::Propose(tbl(t)?), hs::Message::Accept(v, x) => Hs::Accept(*v, d(x)?), hs::Message::Refuse(x) => Hs::Refuse(rf_b(x)), hs::Message::QueryReply(t) => Hs::QueryReply(tbl(t)?) })
    }
    pub fn n2n(d: &N2n) -> hs::n2n::VersionData { hs::n2n::VersionData::new(d.magic, d.init_only, d.peer_sharing, d.query) }
    pub fn n2n_b(d: &hs::n2n::VersionData) -> Option<N2n> { Some(N2n { magic: d.network_magic, init_only: d.initiator_only_diffusion_mode, peer_sharing: d.peer_sharing, query: d.query }) }
    pub fn n2c(d: &N2c) -> hs::n2c::VersionData { hs::n2c::VersionData::new(d.0, d.1) }
    pub fn n2c_b(d: &hs::n2c::VersionData) -> Option<N2c> { super::parse_n2c(&format!("{:?}", d)) }
    fn raw(x: &[u8]) -> AnyCbor { AnyCbor::from_raw_bytes(x.to_vec()) }
    pub fn ln(m: &Ln) -> ln::Message {
        match m {
            Ln::RequestNext => ln::Message::RequestNext, Ln::BlockAnnouncement(h) => ln::Message::BlockAnnouncement(raw(h)), Ln::BlockOffer(p, s) => ln::Message::BlockOffer(pt(p), *s),
            Ln::BlockTxsOffer(p) => ln::Message::BlockTxsOffer(pt(p)), Ln::Votes(v) => ln::Message::Votes(v.iter().map(|x| raw(x)).collect()), Ln::Done => ln::Message::Done,
        }
    }
    pub fn ln_b(m: &ln::Message) -> Option<Ln> {
        Some(match m {
            ln::Message::RequestNext => Ln::RequestNext, ln::Message::BlockAnnouncement(h) => Ln::BlockAnnouncement(h.raw_bytes().to_vec()), ln::Message::BlockOffer(p, s) => Ln::BlockOffer(pt_b(p), *s),
            ln::Message::BlockTxsOffer(p) => Ln::BlockTxsOffer(pt_b(p)), ln::Message::Votes(v) => Ln::Votes(v.iter().map(|x| x.raw_bytes().to_vec()).collect()), ln::Message::Done => Ln::Done,
        })
    }
    pub fn lf(m: &Lf) -> lf::Message {
        match m {
            Lf::BlockRequest(p) => lf::Message::BlockRequest(pt(p)), Lf::Block(b) => lf::Message::Block(raw(b)), Lf::BlockTxsRequest(p, b) => lf::Message::BlockTxsRequest(pt(p), lf::Bitmaps(b.clone())),
            Lf::BlockTxs(p, b, t) => lf::Message::BlockTxs { point: pt(p), bitmaps: lf::Bitmaps(b.clone()), txs: t.iter().map(|x| raw(x)).collect() }, Lf::Done => lf::Message::Done,
        }
    }
    pub fn lf_b(m: &lf::Message) -> Option<Lf> {
        Some(match m {
            lf::Message::BlockRequest(p) => Lf::BlockRequest(pt_b(p)), lf::Message::Block(b) => Lf::Block(b.raw_bytes().to_vec()), lf::Message::BlockTxsRequest(p, b) => Lf::BlockTxsRequest(pt_b(p), b.0.clone()),
            lf::Message::BlockTxs { point, bitmaps, txs } => Lf::BlockTxs(pt_b(point), bitmaps.0.clone(), txs.iter().map(|x| x.raw_bytes().to_vec()).collect()), lf::Message::Done => Lf::Done,
        })
    }
}

/// n2c::VersionData has private fields and no accessors: read them from its Debug form
/// `VersionData(<magic>, None | Some(true|false))`.
fn parse_n2c(s: &str) -> Option<N2c> {
    let inner = s.strip_prefix("VersionData(")?.strip_suffix(')')?;
    let (a, b) = inner.split_once(", ")?;
    let q = match b { "None" => None, "Some(true)" => Some(true), "Some(false)" => Some(false), _ => return None };
    Some((a.parse().ok()?, q))
}

// ================================================================== pallas-network: DMQ protocols, query requests
mod s1x {
    use super::*;
    use n1::{localmsgnotification as lmn, localmsgsubmission as lms, localstate::queries_v16 as q16, localtxsubmission as ltx};
    fn dmq(m: &Dmq) -> lms::DmqMsg {
        lms::DmqMsg { msg_id: m.id.clone(), msg_payload: lms::DmqMsgPayload { msg_body: m.body.clone(), kes_period: m.kes_period, expires_at: m.expires_at },
            kes_signature: m.kes_sig.clone(),
            operational_certificate: lms::DmqMsgOperationalCertificate { kes_vk: m.kes_vk.clone(), issue_number: m.issue, start_kes_period: m.start, cert_sig: m.cert_sig.clone() },
            cold_verification_key: m.cold_vk.clone() }
    }
    fn dmq_b(m: &lms::DmqMsg) -> Dmq {
        Dmq { id: m.msg_id.clone(), body: m.msg_payload.msg_body.clone(), kes_period: m.msg_payload.kes_period, expires_at: m.msg_payload.expires_at, kes_sig: m.kes_signature.clone(),
              kes_vk: m.operational_certificate.kes_vk.clone(), issue: m.operational_certificate.issue_number, start: m.operational_certificate.start_kes_period,
              cert_sig: m.operational_certificate.cert_sig.clone(), cold_vk: m.cold_verification_key.clone() }
    }
    pub type LmsMsg = ltx::Message<lms::DmqMsg, lms::DmqMsgValidationError>;
    pub fn lms(m: &Lms) -> LmsMsg {
        use lms::DmqMsgRejectReason as R;
        match m {
            Lms::Submit(x) => ltx::Message::SubmitTx(dmq(x)), Lms::Accept => ltx::Message::AcceptTx, Lms::Done => ltx::Message::Done,
            Lms::Reject(x) => ltx::Message::RejectTx(lms::DmqMsgValidationError(match x {
                DmqReason::Invalid(s) => R::Invalid(s.clone()), DmqReason::AlreadyReceived => R::AlreadyReceived, DmqReason::Expired => R::Expired, DmqReason::Other(s) => R::Other(s.clone()) })),
        }
    }
    pub fn lms_b(m: &LmsMsg) -> Option<Lms> {
        use lms::DmqMsgRejectReason as R;
        Some(match m {
            ltx::Message::SubmitTx(x) => Lms::Submit(dmq_b(x)), ltx::Message::AcceptTx => Lms::Accept, ltx::Message::Done => Lms::Done,
            ltx::Message::RejectTx(x) => Lms::Reject(match &x.0 {
                R::Invalid(s) => DmqReason::Invalid(s.clone()), R::AlreadyReceived => DmqReason::AlreadyReceived, R::Expired => DmqReason::Expired, R::Other(s) => DmqReason::Other(s.clone()) }),
        })
    }
    pub fn lmn(m: &Lmn) -> lmn::Message {
        match m {
            Lmn::RequestNonBlocking => lmn::Message::RequestMessagesNonBlocking, Lmn::RequestBlocking => lmn::Message::RequestMessagesBlocking,
            Lmn::ReplyNonBlocking(l, h) => lmn::Message::ReplyMessagesNonBlocking(l.iter().map(dmq).collect(), *h),
            Lmn::ReplyBlocking(l) => lmn::Message::ReplyMessagesBlocking(l.iter().map(dmq).collect()), Lmn::ClientDone => lmn::Message::ClientDone,
        }
    }
    pub fn lmn_b(m: &lmn::Message) -> Option<Lmn> {
        Some(match m {
            lmn::Message::RequestMessagesNonBlocking => Lmn::RequestNonBlocking, lmn::Message::RequestMessagesBlocking => Lmn::RequestBlocking,
            lmn::Message::ReplyMessagesNonBlocking(l, h) => Lmn::ReplyNonBlocking(l.iter().map(dmq_b).collect(), *h),
            lmn::Message::ReplyMessagesBlocking(l) => Lmn::ReplyBlocking(l.iter().map(dmq_b).collect()), lmn::Message::ClientDone => Lmn::ClientDone,
        })
    }
    fn bq(tag: u16) -> Option<q16::BlockQuery> {
        use q16::BlockQuery as B;
        Some(match tag {
            0 => B::GetLedgerTip, 1 => B::GetEpochNo, 3 => B::GetCurrentPParams, 4 => B::GetProposedPParamsUpdates, 5 => B::GetStakeDistribution, 7 => B::GetUTxOWhole,
            8 => B::DebugEpochState, 11 => B::GetGenesisConfig, 12 => B::DebugNewEpochState, 13 => B::DebugChainDepState, 14 => B::GetRewardProvenance, 16 => B::GetStakePools,
            18 => B::GetRewardInfoPools, 23 => B::GetConstitution, 24 => B::GetGovState, 29 => B::GetAccountState, 32 => B::GetRatifyState, 33 => B::GetFuturePParams,
            34 => B::GetBigLedgerPeerSnapshot, 37 => B::GetStakeDistribution2, _ => return None,
        })
    }
    pub fn lq(m: &Lq) -> q16::Request {
        match m {
            Lq::Block(e, t) => q16::Request::LedgerQuery(q16::LedgerQuery::BlockQuery(*e, bq(*t).expect("parameterless tag"))),
            Lq::HardFork(t) => q16::Request::LedgerQuery(q16::LedgerQuery::HardForkQuery(if *t == 0 { q16::HardForkQuery::GetInterpreter } else { q16::HardForkQuery::GetCurrentEra })),
            Lq::SystemStart => q16::Request::GetSystemStart, Lq::ChainBlockNo => q16::Request::GetChainBlockNo, Lq::ChainPoint => q16::Request::GetChainPoint,
        }
    }
    pub fn lq_b(m: &q16::Request) -> Option<Lq> {
        Some(match m {
            q16::Request::LedgerQuery(q16::LedgerQuery::BlockQuery(e, b)) => { let t = *LQ_NULLARY.iter().find(|t| bq(**t).as_ref() == Some(b))?; Lq::Block(*e, t) }
            q16::Request::LedgerQuery(q16::LedgerQuery::HardForkQuery(h)) => Lq::HardFork(match h { q16::HardForkQuery::GetInterpreter => 0, q16::HardForkQuery::GetCurrentEra => 1 }),
            q16::Request::GetSystemStart => Lq::SystemStart, q16::Request::GetChainBlockNo => Lq::ChainBlockNo, q16::Request::GetChainPoint => Lq::ChainPoint,
        })
    }
}

// ================================================================== one message through every stack that has the protocol
fn do_ka(cx: &mut Ctx, m: &Ka) { let (t, n) = t_ka(m);
    run_one(cx, "n1", "keepalive", n, m, &s1::ka(m), s1::ka_b, Some(format!("(CKa {} @BYTES@)", t)));
    run_one(cx, "n2", "keepalive", n, m, &s2::ka(m), s2::ka_b, Some(format!("(CKa {} @BYTES@)", t))); }
fn do_bf(cx: &mut Ctx, m: &Bf) { let (t, n) = t_bf(m);
    run_one(cx, "n1", "blockfetch", n, m, &s1::bf(m), s1::bf_b, Some(format!("(CBf {} @BYTES@)", t)));
    run_one(cx, "n2", "blockfetch", n, m, &s2::bf(m), s2::bf_b, Some(format!("(CBf {} @BYTES@)", t))); }
fn do_csh(cx: &mut Ctx, m: &Cs<Hdr>) {
    let (t, n) = t_cs(m, t_hdr);
    let refused = matches!(m, Cs::RollForward(h, _) if h.variant == 0 && h.prefix.is_none());
    if refused {
        // unrepresentable (variant 0 without byron prefix): the encoder must refuse it; the model agrees
        for (stack, res) in [("n1", guard(|| minicbor::to_vec(&s1::cs(m, s1::hdr)).map_err(|e| e.to_string()))), ("n2", guard(|| minicbor::to_vec(&s2::cs(m, s2::hdr)).map_err(|e| e.to_string())))] {
            match res {
                Out::Err(_) => if !cx.oracle_only { cx.cases += 1; emit_case(&format!("{}-chainsync-header-RollForward-refused", stack), &format!("(CCsH {} None)", t)) },
                Out::Ok(b) => emit_oracle_fail(&format!("{}/chainsync-header/RollForward/encode-accepts-unrepresentable", stack), &format!("message={:?} encoded to {}", m, hex(&b))),
                Out::Panic(p) => emit_oracle_fail(&format!("{}/chainsync-header/RollForward/encode-panic", stack), &format!("message={:?} panicked: {}", m, p)),
            }
        }
    } else {
        run_one(cx, "n1", "chainsync-header", n, m, &s1::cs(m, s1::hdr), |x| s1::cs_b(x, s1::hdr_b), Some(format!("(CCsH {} (Some @BYTES@))", t)));
        run_one(cx, "n2", "chainsync-header", n, m, &s2::cs(m, s2::hdr), |x| s2::cs_b(x, s2::hdr_b), Some(format!("(CCsH {} (Some @BYTES@))", t)));
    }
}
fn do_csb(cx: &mut Ctx, m: &Cs<Vec<u8>>) { let (t, n) = t_cs(m, |b| coq_bytes(b));
    run_one(cx, "n1", "chainsync-block", n, m, &s1::cs(m, |b| n1::chainsync::BlockContent(b.clone())), |x| s1::cs_b(x, |b: &n1::chainsync::BlockContent| b.0.clone()), Some(format!("(CCsB {} @BYTES@)", t)));
    run_one(cx, "n2", "chainsync-block", n, m, &s2::cs(m, |b| n2::chainsync::BlockContent(b.clone())), |x| s2::cs_b(x, |b: &n2::chainsync::BlockContent| b.0.clone()), Some(format!("(CCsB {} @BYTES@)", t))); }
fn do_css(cx: &mut Ctx, m: &Cs<()>) { let (t, n) = t_cs(m, |_| "tt".to_string());
    run_one(cx, "n1", "chainsync-skipped", n, m, &s1::cs(m, |_| n1::chainsync::SkippedContent), |x| s1::cs_b(x, |_: &n1::chainsync::SkippedContent| ()), Some(format!("(CCsS {} @BYTES@)", t)));
    run_one(cx, "n2", "chainsync-skipped", n, m, &s2::cs(m, |_| n2::chainsync::SkippedContent), |x| s2::cs_b(x, |_: &n2::chainsync::SkippedContent| ()), Some(format!("(CCsS {} @BYTES@)", t))); }
fn do_ts(cx: &mut Ctx, m: &Ts) { let (t, n) = t_ts(m);
    run_one(cx, "n1", "txsubmission", n, m, &s1::ts(m), s1::ts_b, Some(format!("(CTs {} @BYTES@)", t)));
    run_one(cx, "n2", "txsubmission", n, m, &s2::ts(m), s2::ts_b, Some(format!("(CTs {} @BYTES@)", t))); }
/// pallas-network always; pallas-network2 when every port fits its u16 Port
fn do_ps(cx: &mut Ctx, m: &Ps, n1_too: bool) { let (t, n) = t_ps(m);
    if n1_too { run_one(cx, "n1", "peersharing", n, m, &s1::ps(m), s1::ps_b, Some(format!("(CPs 4294967296 {} @BYTES@)", t))); }
    let fits = match m { Ps::SharePeers(l) => l.iter().all(|a| match a { Pa::V4(_, p) | Pa::V6(_, p) => *p <= 65535 }), _ => true };
    if fits { run_one(cx, "n2", "peersharing", n, m, &s2::ps(m), s2::ps_b, Some(format!("(CPs 65536 {} @BYTES@)", t))); } }
fn do_hsn(cx: &mut Ctx, m: &Hs<N2n>) { let (t, n) = t_hs(m, t_n2n);
    run_one(cx, "n1", "handshake-n2n", n, m, &s1::hs(m, s1::n2n), |x| s1::hs_b(x, s1::n2n_b), Some(format!("(CHsN {} @BYTES@)", t)));
    run_one(cx, "n2", "handshake-n2n", n, m, &s2::hs(m, s2::n2n), |x| s2::hs_b(x, s2::n2n_b), Some(format!("(CHsN {} @BYTES@)", t))); }
fn do_hsc(cx: &mut Ctx, m: &Hs<N2c>) { let (t, n) = t_hs(m, t_n2c);
    run_one(cx, "n1", "handshake-n2c", n, m, &s1::hs(m, s1::n2c), |x| s1::hs_b(x, s1::n2c_b), Some(format!("(CHsC {} @BYTES@)", t)));
    run_one(cx, "n2", "handshake-n2c", n, m, &s2::hs(m, s2::n2c), |x| s2::hs_b(x, s2::n2c_b), Some(format!("(CHsC {} @BYTES@)", t))); }
fn do_ls(cx: &mut Ctx, m: &Ls) { let (t, n) = t_ls(m); run_one(cx, "n1", "localstate", n, m, &s1::ls(m), s1::ls_b, Some(format!("(CLs {} @BYTES@)", t))); }
fn do_ltx(cx: &mut Ctx, m: &Ltx) { let (t, n) = t_ltx(m); run_one(cx, "n1", "localtxsubmission", n, m, &s1::ltx(m), s1::ltx_b, Some(format!("(CLtx {} @BYTES@)", t))); }
fn do_tm(cx: &mut Ctx, m: &Tm) { let (t, n) = t_tm(m); run_one(cx, "n1", "txmonitor", n, m, &s1::tm(m), s1::tm_b, Some(format!("(CTm {} @BYTES@)", t))); }
fn do_ln(cx: &mut Ctx, m: &Ln) { let (t, n) = t_ln(m); run_one(cx, "n2", "leiosnotify", n, m, &s2::ln(m), s2::ln_b, Some(format!("(CLn {} @BYTES@)", t))); }
fn do_lf(cx: &mut Ctx, m: &Lf) { let (t, n) = t_lf(m); run_one(cx, "n2", "leiosfetch", n, m, &s2::lf(m), s2::lf_b, Some(format!("(CLf {} @BYTES@)", t))); }
fn do_lms(cx: &mut Ctx, m: &Lms) { let (t, n) = t_lms(m); run_one(cx, "n1", "localmsgsubmission", n, m, &s1x::lms(m), s1x::lms_b, Some(format!("(CLms {} @BYTES@)", t))); }
fn do_lmn(cx: &mut Ctx, m: &Lmn) { let (t, n) = t_lmn(m); run_one(cx, "n1", "localmsgnotification", n, m, &s1x::lmn(m), s1x::lmn_b, Some(format!("(CLmn {} @BYTES@)", t))); }
fn do_lq(cx: &mut Ctx, m: &Lq) { let (t, n) = t_lq(m); run_one(cx, "n1", "localstate-query", &n, m, &s1x::lq(m), s1x::lq_b, Some(format!("(CLq {} @BYTES@)", t))); }

/// Deterministic part of every run: every variant incl. the payload-free / empty ones, and every integer
/// field of every message on every CBOR head-width boundary of its Rust type.
fn sweep(cx: &mut Ctx) {
    let h32 = || (0u8..32).collect::<Vec<u8>>();
    let sp = |s: u64| Pt::Specific(s, vec![0xab; 4]);
    let lens = [0usize, 1, 23, 24, 255, 256];
    let b64 = bounds(u64::MAX); let b32 = bounds(u32::MAX as u64); let b16 = bounds(u16::MAX as u64); let b8 = bounds(u8::MAX as u64);
    // keepalive
    for c in &b16 { do_ka(cx, &Ka::KeepAlive(*c as u16)); do_ka(cx, &Ka::Response(*c as u16)); }
    do_ka(cx, &Ka::Done);
    // blockfetch
    for s in &b64 { do_bf(cx, &Bf::RequestRange(Pt::Specific(*s, h32()), Pt::Origin)); do_bf(cx, &Bf::RequestRange(Pt::Origin, Pt::Specific(*s, vec![]))); }
    for l in lens { do_bf(cx, &Bf::Block(vec![7; l])); do_bf(cx, &Bf::RequestRange(Pt::Specific(1, vec![9; l]), Pt::Origin)); }
    for m in [Bf::ClientDone, Bf::StartBatch, Bf::NoBlocks, Bf::BatchDone] { do_bf(cx, &m); }
    // chainsync (three content types)
    for (i, s) in b64.iter().enumerate() {
        let s2 = b64[(i + 5) % b64.len()];
        do_csh(cx, &Cs::RollBackward(sp(*s), TipI(Pt::Origin, s2))); do_csh(cx, &Cs::IntersectFound(Pt::Origin, TipI(sp(s2), *s))); do_csh(cx, &Cs::IntersectNotFound(TipI(sp(*s), s2)));
        do_csb(cx, &Cs::RollBackward(sp(*s), TipI(Pt::Origin, s2))); do_csb(cx, &Cs::IntersectFound(sp(s2), TipI(sp(s2), *s))); do_csb(cx, &Cs::RollForward(vec![1], TipI(sp(*s), s2)));
        do_css(cx, &Cs::RollForward((), TipI(sp(*s), s2)));
        do_csh(cx, &Cs::RollForward(Hdr { variant: 0, prefix: Some((b8[i % b8.len()] as u8, *s)), cbor: vec![0x80] }, TipI(Pt::Origin, 0)));
    }
    for v in &b8 { if *v != 0 { do_csh(cx, &Cs::RollForward(Hdr { variant: *v as u8, prefix: None, cbor: vec![0x80] }, TipI(Pt::Origin, 1))); } }
    for l in lens { do_csh(cx, &Cs::RollForward(Hdr { variant: 6, prefix: None, cbor: vec![1; l] }, TipI(Pt::Origin, 1))); do_csb(cx, &Cs::RollForward(vec![2; l], TipI(Pt::Origin, 1))); }
    for k in [0usize, 1, 23, 24] {
        let ps: Vec<Pt> = (0..k).map(|j| if j % 2 == 0 { Pt::Origin } else { sp(j as u64) }).collect();
        do_csh(cx, &Cs::FindIntersect(ps.clone())); do_csb(cx, &Cs::FindIntersect(ps.clone())); do_css(cx, &Cs::FindIntersect(ps));
    }
    do_csh(cx, &Cs::RequestNext); do_csh(cx, &Cs::AwaitReply); do_csh(cx, &Cs::Done);
    do_csb(cx, &Cs::RequestNext); do_csb(cx, &Cs::AwaitReply); do_csb(cx, &Cs::Done);
    do_css(cx, &Cs::RequestNext); do_css(cx, &Cs::AwaitReply); do_css(cx, &Cs::Done); do_css(cx, &Cs::RollBackward(Pt::Origin, TipI(Pt::Origin, 0)));
    // txsubmission
    for (i, a) in b16.iter().enumerate() { do_ts(cx, &Ts::RequestTxIds(i % 2 == 0, *a as u16, b16[(i + 3) % b16.len()] as u16)); }
    for e in &b16 { do_ts(cx, &Ts::RequestTxs(vec![(*e as u16, h32())])); do_ts(cx, &Ts::ReplyTxs(vec![(*e as u16, vec![0x80])])); }
    for z in &b32 { do_ts(cx, &Ts::ReplyTxIds(vec![((6, h32()), *z as u32)])); }
    for e in &b16 { do_ts(cx, &Ts::ReplyTxIds(vec![((*e as u16, vec![]), 1)])); }
    for m in [Ts::Init, Ts::Done, Ts::ReplyTxIds(vec![]), Ts::RequestTxs(vec![]), Ts::ReplyTxs(vec![])] { do_ts(cx, &m); }
    // peersharing
    for n in &b8 { do_ps(cx, &Ps::ShareRequest(*n as u8), true); }
    do_ps(cx, &Ps::SharePeers(vec![]), true); do_ps(cx, &Ps::Done, true);
    for (i, ip) in b32.iter().enumerate() { do_ps(cx, &Ps::SharePeers(vec![Pa::V4(*ip as u32, b32[(i + 2) % b32.len()] as u32)]), true); }
    for p in &b16 { do_ps(cx, &Ps::SharePeers(vec![Pa::V4(1, *p as u32), Pa::V6(1, *p as u32)]), true); }
    for p in &b32 { do_ps(cx, &Ps::SharePeers(vec![Pa::V6(2, *p as u32)]), true); }
    for w in &b32 { for k in 0..4u32 { do_ps(cx, &Ps::SharePeers(vec![Pa::V6((*w as u128) << (32 * k), 3001)]), true); } }
    do_ps(cx, &Ps::SharePeers(vec![Pa::V6(u128::MAX, 0)]), true);
    // handshake
    let nd = |magic: u64, four: bool, ps: u8| if four { N2n { magic, init_only: true, peer_sharing: Some(ps), query: Some(false) } } else { N2n { magic, init_only: false, peer_sharing: None, query: None } };
    do_hsn(cx, &Hs::Propose(Default::default())); do_hsn(cx, &Hs::QueryReply(Default::default()));
    do_hsc(cx, &Hs::Propose(Default::default())); do_hsc(cx, &Hs::QueryReply(Default::default()));
    for (i, v) in b64.iter().enumerate() {
        let other = b64[(i + 4) % b64.len()];
        do_hsn(cx, &Hs::Accept(*v, nd(other, i % 2 == 0, b8[i % b8.len()] as u8))); do_hsn(cx, &Hs::Accept(other, nd(*v, i % 2 == 1, 1)));
        do_hsn(cx, &Hs::Propose([(*v, nd(other, true, 0))].into_iter().collect())); do_hsn(cx, &Hs::QueryReply([(*v, nd(*v, false, 0))].into_iter().collect()));
        for q in [None, Some(false), Some(true)] {
            do_hsc(cx, &Hs::Accept(other, (*v, q)));
            do_hsc(cx, &Hs::Propose([(other, (*v, q))].into_iter().collect()));
        }
        do_hsc(cx, &Hs::Accept(*v, (other, None))); do_hsc(cx, &Hs::QueryReply([(*v, (1, Some(true)))].into_iter().collect()));
        do_hsn(cx, &Hs::Refuse(Rf::DecodeError(*v, String::new()))); do_hsc(cx, &Hs::Refuse(Rf::Refused(*v, "refused".into())));
    }
    for p in &b8 { do_hsn(cx, &Hs::Accept(14, nd(764824073, true, *p as u8))); }
    do_hsn(cx, &Hs::Refuse(Rf::VersionMismatch(vec![]))); do_hsc(cx, &Hs::Refuse(Rf::VersionMismatch(vec![])));
    do_hsn(cx, &Hs::Refuse(Rf::VersionMismatch(b64.clone()))); do_hsc(cx, &Hs::Refuse(Rf::VersionMismatch(b64.clone())));
    do_hsn(cx, &Hs::Refuse(Rf::Refused(13, "\u{20ac}".into()))); do_hsc(cx, &Hs::Refuse(Rf::DecodeError(1, "x".repeat(24))));
    // localstate
    for s in &b64 { do_ls(cx, &Ls::Acquire(Some(Pt::Specific(*s, h32())))); do_ls(cx, &Ls::ReAcquire(Some(sp(*s)))); }
    for m in [Ls::Acquire(None), Ls::ReAcquire(None), Ls::Acquire(Some(Pt::Origin)), Ls::ReAcquire(Some(Pt::Origin)), Ls::Failure(0), Ls::Failure(1), Ls::Acquired, Ls::Release, Ls::Done,
              Ls::Query(vec![0x80]), Ls::Result(vec![0xf6]), Ls::Query(vec![0x82, 0x00, 0x81, 0x03])] { do_ls(cx, &m); }
    // localtxsubmission framing
    for e in &b16 { do_ltx(cx, &Ltx::SubmitTx(*e as u16, vec![0x80])); }
    for l in lens { do_ltx(cx, &Ltx::SubmitTx(6, vec![3; l])); }
    for m in [Ltx::AcceptTx, Ltx::Done, Ltx::RejectTx(vec![0x80]), Ltx::RejectTx(vec![0x60])] { do_ltx(cx, &m); }
    // txmonitor
    for s in &b64 { do_tm(cx, &Tm::Acquired(*s)); }
    for e in &b8 { do_tm(cx, &Tm::ResponseNextTx(Some((*e as u8, vec![0x80])))); }
    for (i, z) in b32.iter().enumerate() { let (a, b) = (b32[(i + 1) % b32.len()] as u32, b32[(i + 2) % b32.len()] as u32); do_tm(cx, &Tm::ResponseSizeAndCapacity(*z as u32, a, b)); }
    for m in [Tm::Done, Tm::Acquire, Tm::Release, Tm::AwaitAcquire, Tm::RequestNextTx, Tm::ResponseNextTx(None), Tm::ResponseNextTx(Some((0, vec![]))), Tm::RequestHasTx(String::new()),
              Tm::RequestHasTx("ab".repeat(32)), Tm::ResponseHasTx(true), Tm::ResponseHasTx(false), Tm::RequestSizeAndCapacity] { do_tm(cx, &m); }
    // leiosnotify / leiosfetch
    for (i, s) in b64.iter().enumerate() { do_ln(cx, &Ln::BlockOffer(sp(*s), b32[i % b32.len()] as u32)); do_ln(cx, &Ln::BlockTxsOffer(sp(*s))); do_lf(cx, &Lf::BlockRequest(sp(*s))); }
    for z in &b32 { do_ln(cx, &Ln::BlockOffer(Pt::Origin, *z as u32)); }
    for m in [Ln::RequestNext, Ln::Done, Ln::Votes(vec![]), Ln::Votes(vec![vec![0x80]]), Ln::BlockAnnouncement(vec![0xa0])] { do_ln(cx, &m); }
    for (i, k) in b16.iter().enumerate() { do_lf(cx, &Lf::BlockTxsRequest(Pt::Origin, [(*k as u16, b64[i % b64.len()])].into_iter().collect())); }
    for v in &b64 { do_lf(cx, &Lf::BlockTxs(sp(1), [(0u16, *v), (1u16, 1)].into_iter().collect(), vec![vec![0x01]])); }
    for m in [Lf::Done, Lf::Block(vec![0x80]), Lf::BlockTxsRequest(Pt::Origin, Default::default()), Lf::BlockTxs(Pt::Origin, Default::default(), vec![])] { do_lf(cx, &m); }
    // DMQ
    for (i, v) in b64.iter().enumerate() {
        let mut d = dmq_default(); d.kes_period = *v; d.issue = b64[(i + 3) % b64.len()]; d.start = b64[(i + 7) % b64.len()]; d.expires_at = b32[i % b32.len()] as u32;
        do_lms(cx, &Lms::Submit(d.clone())); do_lmn(cx, &Lmn::ReplyBlocking(vec![d]));
    }
    for l in lens { let mut d = dmq_default(); d.body = vec![1; l]; d.kes_sig = vec![2; l]; do_lms(cx, &Lms::Submit(d)); }
    for m in [Lms::Accept, Lms::Done, Lms::Reject(DmqReason::Invalid(String::new())), Lms::Reject(DmqReason::Invalid("InvalidKESSignature (KESPeriod 0) (KESPeriod 0)".into())),
              Lms::Reject(DmqReason::AlreadyReceived), Lms::Reject(DmqReason::Expired), Lms::Reject(DmqReason::Other(String::new())), Lms::Reject(DmqReason::Other("custom \u{20ac}rror".into()))] { do_lms(cx, &m); }
    for m in [Lmn::RequestNonBlocking, Lmn::RequestBlocking, Lmn::ClientDone, Lmn::ReplyNonBlocking(vec![], true), Lmn::ReplyNonBlocking(vec![], false), Lmn::ReplyBlocking(vec![]),
              Lmn::ReplyNonBlocking(vec![dmq_default(), dmq_default()], false)] { do_lmn(cx, &m); }
    // the "not an array => the whole input is a UTF-8 rejection text" fallback of the localtxsubmission framing (decoder only)
    if !cx.oracle_only {
        for b in [&b"ScriptFailure: budget"[..], &[0x00], &[0x61, 0x62], &[0x38], &[0x38, 0x00], &[0x38, 0x00, 0x00], &[0xff], &[0xc3, 0xa9], &[0xc3], &[0x18], &[0x7f, 0x61, 0x61, 0xff], &[]] {
            run_dec::<s1x::LmsMsg>(cx, 14, "decode-localmsgsubmission-fallback", b);
        }
    }
    // localstate query requests: every parameterless tag, eras on the boundaries
    for (i, t) in LQ_NULLARY.iter().enumerate() { do_lq(cx, &Lq::Block(b16[i % b16.len()] as u16, *t)); }
    for e in &b16 { do_lq(cx, &Lq::Block(*e as u16, 3)); }
    for m in [Lq::HardFork(0), Lq::HardFork(1), Lq::SystemStart, Lq::ChainBlockNo, Lq::ChainPoint] { do_lq(cx, &m); }
}

fn main() {
    let args = args();
    let mut r = Rng::new(args.seed);
    let mut cx = Ctx { oracle_only: args.oracle_only, cases: 0, fails: 0, tail: 0, dec_cases: 0, mutants: 0, mrng: Rng::new(args.seed ^ 0x5eed_dec0de) };
    let cx = &mut cx;

    // the refutation witness of the tree before the repair, always first (corpus/C22)
    for (v6, port) in [(1u128, 3001u32), (0xffff_c00a_02ffu128, 8000)] { do_ps(cx, &Ps::SharePeers(vec![Pa::V6(v6, port)]), true); }
    // deterministic: all variants (incl. empty / payload-free ones), all integer fields on all width boundaries
    sweep(cx);
    let swept = cx.cases;

    // random rounds, with the decoder differential on 2 mutants of every encoding
    cx.mutants = 2;
    let rounds = (args.n / 120).max(1) as u64;
    for round in 0..rounds {
        for v in 0..3 { do_ka(cx, &gen_ka(&mut r, v)); }
        for v in 0..6 { do_bf(cx, &gen_bf(&mut r, v)); }
        for v in 0..8 {
            do_csh(cx, &gen_cs(&mut r, v, gen_hdr));
            do_csb(cx, &gen_cs(&mut r, v, blob));
            if round % 4 == 0 { do_css(cx, &gen_cs(&mut r, v, |_| ())); }
        }
        for v in 0..6 { do_ts(cx, &gen_ts(&mut r, v)); }
        for v in 0..4 { do_ps(cx, &gen_ps(&mut r, v, u32::MAX), true); let m = gen_ps(&mut r, v, u16::MAX as u32); do_ps(cx, &m, false); }
        for v in 0..4 { do_hsn(cx, &gen_hs(&mut r, v, gen_n2n)); do_hsc(cx, &gen_hs(&mut r, v, gen_n2c)); }
        for v in 0..10 { do_ls(cx, &gen_ls(&mut r, v)); }
        for v in 0..4 { do_ltx(cx, &gen_ltx(&mut r, v)); }
        for v in 0..12 { do_tm(cx, &gen_tm(&mut r, v)); }
        for v in 0..6 { do_ln(cx, &gen_ln(&mut r, v)); }
        for v in 0..5 { do_lf(cx, &gen_lf(&mut r, v)); }
        for v in 0..7 { do_lms(cx, &gen_lms(&mut r, v)); }
        for v in 0..5 { do_lmn(cx, &gen_lmn(&mut r, v)); }
        // long tail, oracle only
        tail::round(cx, &mut r, round);
    }
    cx.mutants = 0;
    // large payloads (thorough): >= 2^16-byte bodies => 4-byte length heads. Oracle only: a list literal of
    // that size overflows the stack of Coq's parser, and the theorems cover every length anyway.
    if args.tier == "thorough" {
        let m = Bf::Block(r.bytes(65536 + 3)); let (_, n) = t_bf(&m);
        run_one(cx, "n1", "blockfetch", n, &m, &s1::bf(&m), s1::bf_b, None);
        run_one(cx, "n2", "blockfetch", n, &m, &s2::bf(&m), s2::bf_b, None);
        let m = Ts::ReplyTxs(vec![(6, r.bytes(70000)), (7, vec![])]); let (_, n) = t_ts(&m);
        run_one(cx, "n1", "txsubmission", n, &m, &s1::ts(&m), s1::ts_b, None);
    }
    tail::reject_samples(cx);
    emit_stat("sweep_cases", swept);
    emit_stat("tail_messages", cx.tail);
    emit_stat("decoder_differential_cases", cx.dec_cases);
    emit_stat("cases", cx.cases);
    emit_stat("oracle_fails", cx.fails);
}
