(* C06 — property theorems only. Statements are pinned by vp/check.py. *)
From Coq Require String.
From PV Require Import Lib.Base Cbor.Item Cbor.Enc Cbor.Dec Cbor.Api C06.Model C06.Leaves C06.Proofs
  C06.MapStruct C06.Schema C06.Schemas.
From PV Require Generated.Schemas.
Open Scope Z_scope.

(* FULL STATEMENT (differential only): for every era, encode (decode bytes) = bytes on chain
   data and decode (encode v) = v for every value of every era type.
   Proved: the derive semantics modelled by [codec_of] round-trip every typed value of every
   well-formed schema: array structs with Option fields, #[cbor(map)] structs, flat and
   index-only enums, #[cbor(tag)], Vec, integer / bytes / text / bool leaves; an opaque leaf
   (SCustom: hand-written codec, map, set, KeepRaw ...) stands for one raw CBOR item. *)
Theorem schema_roundtrip :
  forall (s : schema) (v : value) (r : list Z),
    wf_schema s = true -> has_type v s -> dec_schema s (enc_schema s v ++ r) = DOk (v, r).
Proof. exact schema_roundtrip_proof. Qed.

(* an encoding is never empty and never read as null by an enclosing Option<T> *)
Theorem schema_encoding_not_null :
  forall (s : schema) (v : value) (r : list Z),
    wf_schema s = true -> has_type v s -> enc_schema s v <> [] /\ not_null (enc_schema s v) r.
Proof.
  intros s v r Hwf Hty. destruct (codec_of_ok s Hwf v r Hty) as (_ & Hn & He). split; assumption.
Qed.

(* the schemas REGENERATED from pallas-primitives on this run are well-formed: array-encoded
   field lists have the indices 0..k-1, map keys and enum indices are distinct and within i64,
   tags within u64, integer widths known. A clashing or skipped index, or two arms with one
   index, in the Rust source breaks this theorem. *)
Theorem generated_schemas_wf : forallb wf_schema_gen Generated.Schemas.all_schemas = true.
Proof. vm_compute. reflexivity. Qed.

Theorem generated_names_unique : names_nodup (map fst Generated.Schemas.all_schemas) = true.
Proof. vm_compute. reflexivity. Qed.

(* the law holds for every generated schema (opaque leaves: any well-formed non-null item) *)
Theorem generated_schemas_roundtrip :
  forall (name : String.string) (s : schema) (v : value) (r : list Z),
    In (name, s) Generated.Schemas.all_schemas -> has_type v s ->
    dec_schema s (enc_schema s v ++ r) = DOk (v, r).
Proof.
  intros name s v r Hin Hty. apply schema_roundtrip_proof; [|exact Hty].
  pose proof generated_schemas_wf as Hwf. rewrite forallb_forall in Hwf. exact (Hwf (name, s) Hin).
Qed.

(* which generated schemas have no opaque leaf at all (the translator's list, re-computed here) *)
Theorem fully_modelled_list :
  map fst (filter (fun ns => fully_modelled (snd ns)) Generated.Schemas.all_schemas)
  = Generated.Schemas.fully_modelled_names.
Proof. vm_compute. reflexivity. Qed.

Theorem test_schemas_wf : forallb wf_schema_gen test_schemas = true.
Proof. vm_compute. reflexivity. Qed.

(* non-vacuity *)
Example opt_tail_examples :
  (* trailing None fields are dropped, a None in the middle is written as null *)
  enc_schema s_opt_tail (VRec [VInt 7; VNone; VNone; VNone; VNone]) = [129; 7] /\
  enc_schema s_opt_tail (VRec [VInt 7; VNone; VSome (VBytes [1; 2]); VNone; VNone]) = [131; 7; 246; 66; 1; 2] /\
  (* the decoder also accepts nulls at the end and an indefinite array *)
  dec_schema s_opt_tail [133; 7; 246; 246; 246; 246] = DOk (VRec [VInt 7; VNone; VNone; VNone; VNone], []) /\
  dec_schema s_opt_tail [159; 7; 24; 9; 255] = DOk (VRec [VInt 7; VSome (VInt 9); VNone; VNone; VNone], []) /\
  (* a missing required field is an error *)
  dec_schema s_opt_tail [128] = DErr /\
  (* an enum arm, unlike a struct, writes its trailing None fields *)
  enc_schema s_flat_opt (VVar 5 [VNone; VNone]) = [131; 5; 246; 246] /\
  dec_schema s_flat_opt [129; 5] = DOk (VVar 5 [VNone; VNone], []).
Proof. repeat split; vm_compute; reflexivity. Qed.

Example map_struct_examples :
  enc_schema s_map_opt (VRec [VInt 7; VNone; VSome (VBytes [1]); VList []; VNone]) = [163; 0; 7; 5; 65; 1; 9; 128] /\
  (* the decoder takes the entries in any order, skips unknown keys, and null is None *)
  dec_schema s_map_opt [164; 9; 128; 24; 77; 130; 1; 2; 0; 7; 2; 246] = DOk (VRec [VInt 7; VNone; VNone; VList []; VNone], []) /\
  dec_schema s_map_opt [161; 0; 7] = DErr.
Proof. repeat split; vm_compute; reflexivity. Qed.

Example generated_examples :
  (* conway::Certificate::Reg(AddrKeyhash(09), 5) and a Redeemer whose PlutusData is the raw item 0x80 *)
  enc_schema Generated.Schemas.g_conway_Certificate (VVar 7 [VVar 0 [VBytes [9]]; VInt 5]) = [131; 7; 130; 0; 65; 9; 5] /\
  enc_schema Generated.Schemas.g_conway_Redeemer (VRec [VVar 1 []; VInt 3; VRaw [128]; VRec [VInt 1; VInt 2]]) = [132; 1; 3; 128; 130; 1; 2] /\
  dec_schema Generated.Schemas.g_conway_Redeemer [132; 1; 3; 128; 130; 1; 2] = DOk (VRec [VVar 1 []; VInt 3; VRaw [128]; VRec [VInt 1; VInt 2]], []) /\
  dec_schema Generated.Schemas.g_conway_DRep [129; 2] = DOk (VVar 2 [], []).
Proof. repeat split; vm_compute; reflexivity. Qed.
